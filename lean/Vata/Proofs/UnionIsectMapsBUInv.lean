import Vata.Proofs.UnionIsectMapsBU
import Vata.Proofs.UnionIsectMapsTD
import Vata.Proofs.UnionIsectMapsTotal
/-!
# Property C02 – `IntersectionBU` started from a caller-supplied `MapOk` map is EXACT (`isectBUFrom`)

The conjecture left open in `Vata/Properties/C02_Maps.lean` is true: `pmapOkB m0` alone makes `isectBUFrom A B m0` exact.

The invariant of `Vata/Proofs/IsectBUInv.lean` is redone
* without `NumOk` (entry `i` carries the number `i` – false for a pre-filled map; `MapOk` = numbers below the size and
  injective is what the fresh number `size()` needs),
* without the clause "every entry of the map is on the stack or processed" (false for pre-filled entries that are never
  reached bottom-up),
* with a completeness clause that speaks about POPPED pairs: for matching rules all of whose children pairs have been
  popped and processed (`Ibu.Done`), the product rule has been written AND the parent entry is on the stack or processed
  (`Pend`).  This is where `stack.push_back(&*newProduct)` "whether or not the pair was new" is used.

On an empty stack the processed pairs `donePairs m ns` form a bottom-up closed set on which the map is injective; the
product on that set is contained in the result (completeness, via `isect_bu_cert`); the result is contained in the full
product numbered by an injective extension of the map (soundness, via `isect_cert`).  The result may contain additional
DEAD rules whose children tuple mentions a pre-filled pair that is never produced.

* `Ibf.PInv`, `Ibf.PInv.skip`, `Ibf.PInv.pop`, `Ibf.loop_inv`, `Ibf.init_inv`   the invariant
* `isectBUFrom_spec`        what holds for the output
* `isectBUFrom_lang`        the language is the intersection
* `isectBUFrom_map_inj`, `isectBUFrom_ext`   the map on exit is injective (`MapOk`) and extends the map on entry
* `isectBUFrom_reach_done`  every pair of states reached by the operands on a common tree is in the map on exit
-/
namespace Vata
namespace Ibf
open Isx Ibu

/-! ### steps (as `Ibu.BStep`, without `NumOk` and `dom_new`) -/

structure PStep (A B : TA) (m : PMap) (st : List BUEntry) (rs : List Rule) (m' : PMap) (st' : List BUEntry)
    (rs' : List Rule) : Prop where
  ok : MapOk m'
  ext : Ext m m'
  st_sub : ∀ e, e ∈ st → e ∈ st'
  st_new : ∀ e, e ∈ st' → e ∈ st ∨ m'.lookup e.1 = some e.2
  rs_sub : ∀ ρ, ρ ∈ rs → ρ ∈ rs'
  rs_new : ∀ ρ, ρ ∈ rs' → ρ ∈ rs ∨ GoodRule A B m' ρ

theorem PStep.refl {A B : TA} {m : PMap} (h : MapOk m) (st : List BUEntry) (rs : List Rule) :
    PStep A B m st rs m st rs :=
  ⟨h, Ext.refl m, fun _ he => he, fun _ he => Or.inl he, fun _ hρ => hρ, fun _ hρ => Or.inl hρ⟩

theorem PStep.trans {A B : TA} {m m' m'' : PMap} {st st' st'' : List BUEntry} {rs rs' rs'' : List Rule}
    (h : PStep A B m st rs m' st' rs') (h' : PStep A B m' st' rs' m'' st'' rs'') : PStep A B m st rs m'' st'' rs'' := by
  refine ⟨h'.ok, h.ext.trans h'.ext, fun e he => h'.st_sub e (h.st_sub e he), ?_,
    fun ρ hρ => h'.rs_sub ρ (h.rs_sub ρ hρ), ?_⟩
  · intro e he
    rcases h'.st_new e he with h1 | h1
    · rcases h.st_new e h1 with h2 | h2
      · exact Or.inl h2
      · exact Or.inr (h'.ext _ _ h2)
    · exact Or.inr h1
  · intro ρ hρ
    rcases h'.rs_new ρ hρ with h1 | h1
    · rcases h.rs_new ρ h1 with h2 | h2
      · exact Or.inl h2
      · exact Or.inr (h2.mono h'.ext)
    · exact Or.inr h1

/-- the product rule of `r`, `r'` has been written and its parent entry pushed -/
def Written (m : PMap) (st : List BUEntry) (rs : List Rule) (r r' : Rule) : Prop :=
  ∃ n, m.lookup (r.parent, r'.parent) = some n ∧ ((r.parent, r'.parent), n) ∈ st ∧ PRule m r r' ∈ rs

theorem Written.mono {A B : TA} {m m' : PMap} {st st' : List BUEntry} {rs rs' : List Rule} {r r' : Rule}
    (w : Written m st rs r r') (s : PStep A B m st rs m' st' rs') (hk : ∀ x, x ∈ r.kids.zip r'.kids → x ∈ m.dom) :
    Written m' st' rs' r r' := by
  obtain ⟨n, h1, h2, h3⟩ := w
  refine ⟨n, s.ext _ _ h1, s.st_sub _ h2, ?_⟩
  rw [PRule_ext s.ext (mem_dom_iff.mpr ⟨n, h1⟩) hk]
  exact s.rs_sub _ h3

/-- inserting the parent pair of a matching rule pair whose children pairs are known, pushing it and adding the rule -/
theorem pstep_add {A B : TA} {r r' : Rule} {m : PMap} (hm : Matching A B r r') (hok : MapOk m)
    (st : List BUEntry) (rs : List Rule) (h : ∀ c, c ∈ r.kids.zip r'.kids → c ∈ m.dom) :
    PStep A B m st rs (buInsert m (r.parent, r'.parent)).1
      (((r.parent, r'.parent), (buInsert m (r.parent, r'.parent)).2.1) :: st)
      (rs ++ [PRule (buInsert m (r.parent, r'.parent)).1 r r']) ∧
    Written (buInsert m (r.parent, r'.parent)).1
      (((r.parent, r'.parent), (buInsert m (r.parent, r'.parent)).2.1) :: st)
      (rs ++ [PRule (buInsert m (r.parent, r'.parent)).1 r r']) r r' := by
  have I := Ibu.ins m (r.parent, r'.parent)
  refine ⟨⟨I.ok hok, I.ext, fun e he => List.mem_cons_of_mem _ he, ?_, fun ρ hρ => List.mem_append_left _ hρ, ?_⟩,
    ⟨_, I.look, List.mem_cons_self, List.mem_append_right _ List.mem_cons_self⟩⟩
  · intro e he
    rcases List.mem_cons.mp he with h1 | h1
    · rw [h1]; exact Or.inr I.look
    · exact Or.inl h1
  · intro ρ hρ
    rcases List.mem_append.mp hρ with h1 | h1
    · exact Or.inl h1
    · right
      rw [List.mem_singleton.mp h1]
      exact ⟨r, r', hm, mem_dom_iff.mpr ⟨_, I.look⟩, fun x hx => I.ext.dom (h x hx), rfl⟩

theorem buProcPair_pstep {A B : TA} {r r' : Rule} {m : PMap} (hm : Matching A B r r') (hok : MapOk m)
    (st : List BUEntry) (rs : List Rule) :
    PStep A B m st rs (buProcPair r r' m st rs).1 (buProcPair r r' m st rs).2.1 (buProcPair r r' m st rs).2.2 ∧
    ((∀ c, c ∈ r.kids.zip r'.kids → c ∈ m.dom) →
      Written (buProcPair r r' m st rs).1 (buProcPair r r' m st rs).2.1 (buProcPair r r' m st rs).2.2 r r') := by
  by_cases h : ∀ c, c ∈ r.kids.zip r'.kids → c ∈ m.dom
  · rw [buProcPair_ready st rs h]
    exact ⟨(pstep_add hm hok st rs h).1, fun _ => (pstep_add hm hok st rs h).2⟩
  · have h' : ∃ c, c ∈ r.kids.zip r'.kids ∧ c ∉ m.dom := by
      apply Classical.byContradiction
      intro hne
      apply h
      intro c hc
      apply Classical.byContradiction
      intro hcd
      exact hne ⟨c, hc, hcd⟩
    rw [buProcPair_notready st rs h']
    exact ⟨PStep.refl hok st rs, fun hall => absurd hall h⟩

theorem buProcAll_pspec {A B : TA} : ∀ (L : List (Rule × Rule)) (m : PMap) (st : List BUEntry) (rs : List Rule),
    MapOk m → (∀ rr, rr ∈ L → Matching A B rr.1 rr.2) →
    PStep A B m st rs (buProcAll L m st rs).1 (buProcAll L m st rs).2.1 (buProcAll L m st rs).2.2 ∧
    (∀ rr, rr ∈ L → (∀ c, c ∈ rr.1.kids.zip rr.2.kids → c ∈ m.dom) →
      Written (buProcAll L m st rs).1 (buProcAll L m st rs).2.1 (buProcAll L m st rs).2.2 rr.1 rr.2)
  | [], m, st, rs, hok, _ => by
    simp only [buProcAll]
    exact ⟨PStep.refl hok st rs, fun rr h => by simp at h⟩
  | rr :: rest, m, st, rs, hok, hL => by
    obtain ⟨s1, c1⟩ := buProcPair_pstep (hL rr List.mem_cons_self) hok st rs
    obtain ⟨s2, c2⟩ := buProcAll_pspec (A := A) (B := B) rest _ (buProcPair rr.1 rr.2 m st rs).2.1
      (buProcPair rr.1 rr.2 m st rs).2.2 s1.ok (fun x hx => hL x (List.mem_cons_of_mem _ hx))
    simp only [buProcAll]
    refine ⟨s1.trans s2, ?_⟩
    intro x hx hkids
    rcases List.mem_cons.mp hx with h | h
    · subst h
      exact (c1 hkids).mono s2 (fun y hy => s1.ext.dom (hkids y hy))
    · exact c2 x h (fun y hy => s1.ext.dom (hkids y hy))

/-! ### the leaf phase -/

theorem buLeafPhase_pspec {A B : TA} : ∀ (L : List (Rule × Rule)) (m : PMap) (st : List BUEntry) (rs : List Rule)
    (fs : List Nat), MapOk m → (∀ rr, rr ∈ L → Matching A B rr.1 rr.2 ∧ rr.1.kids = []) →
    PStep A B m st rs (buLeafPhase A B L m st rs fs).1 (buLeafPhase A B L m st rs fs).2.1 (buLeafPhase A B L m st rs fs).2.2.1 ∧
    (∀ rr, rr ∈ L → Written (buLeafPhase A B L m st rs fs).1 (buLeafPhase A B L m st rs fs).2.1
      (buLeafPhase A B L m st rs fs).2.2.1 rr.1 rr.2) ∧
    (∀ x, x ∈ (buLeafPhase A B L m st rs fs).2.2.2 → x ∈ fs ∨
      ∃ pr, (buLeafPhase A B L m st rs fs).1.lookup pr = some x ∧ pr.1 ∈ A.final ∧ pr.2 ∈ B.final)
  | [], m, st, rs, fs, hok, _ => by
    simp only [buLeafPhase]
    exact ⟨PStep.refl hok st rs, fun rr h => by simp at h, fun x hx => Or.inl hx⟩
  | rr :: rest, m, st, rs, fs, hok, hL => by
    obtain ⟨hm, hk⟩ := hL rr List.mem_cons_self
    have hz : rr.1.kids.zip rr.2.kids = [] := by rw [hk]; rfl
    have hkids : ∀ c, c ∈ rr.1.kids.zip rr.2.kids → c ∈ m.dom := by rw [hz]; intro c hc; simp at hc
    have I := Ibu.ins m (rr.1.parent, rr.2.parent)
    obtain ⟨s1, w1⟩ := pstep_add hm hok st rs hkids
    have hnew : (⟨rr.1.sym, [], (buInsert m (rr.1.parent, rr.2.parent)).2.1⟩ : Rule) =
        PRule (buInsert m (rr.1.parent, rr.2.parent)).1 rr.1 rr.2 := by
      unfold PRule
      rw [hz]
      simp only [List.map_nil, lookupF, I.look, Option.getD_some]
    obtain ⟨s2, c2, f2⟩ := buLeafPhase_pspec (A := A) (B := B) rest (buInsert m (rr.1.parent, rr.2.parent)).1
      (((rr.1.parent, rr.2.parent), (buInsert m (rr.1.parent, rr.2.parent)).2.1) :: st)
      (rs ++ [⟨rr.1.sym, [], (buInsert m (rr.1.parent, rr.2.parent)).2.1⟩])
      (if A.final.contains rr.1.parent && B.final.contains rr.2.parent then fs ++ [(buInsert m (rr.1.parent, rr.2.parent)).2.1] else fs)
      s1.ok (fun x hx => hL x (List.mem_cons_of_mem _ hx))
    simp only [buLeafPhase]
    rw [hnew] at s2 c2 f2 ⊢
    refine ⟨s1.trans s2, ?_, ?_⟩
    · intro x hx
      rcases List.mem_cons.mp hx with h | h
      · rw [h]
        exact w1.mono s2 (fun y hy => I.ext.dom (hkids y hy))
      · exact c2 x h
    · intro x hx
      rcases f2 x hx with h | h
      · split at h
        · rename_i hfin
          rcases List.mem_append.mp h with h1 | h1
          · exact Or.inl h1
          · right
            simp only [Bool.and_eq_true, List.contains_iff_mem] at hfin
            rw [List.mem_singleton.mp h1]
            exact ⟨(rr.1.parent, rr.2.parent), s2.ext _ _ I.look, hfin.1, hfin.2⟩
        · exact Or.inl h
      · exact Or.inr h

/-! ### the invariant of the work-list loop -/

/-- the entry of the pair `p` is on the stack or has been popped and processed -/
def Pend (m : PMap) (st : List BUEntry) (ns : List Nat) (p : Nat × Nat) : Prop :=
  ∃ n, m.lookup p = some n ∧ ((p, n) ∈ st ∨ n ∈ ns)

structure PInv (A B : TA) (m : PMap) (st : List BUEntry) (ns : List Nat) (rs : List Rule) (fs : List Nat) : Prop where
  ok : MapOk m
  hst : ∀ e, e ∈ st → m.lookup e.1 = some e.2
  hns : ∀ k, k ∈ ns → ∃ p, m.lookup p = some k
  sound : ∀ ρ, ρ ∈ rs → GoodRule A B m ρ
  complete : ∀ r r', Matching A B r r' → (∀ x, x ∈ r.kids.zip r'.kids → Done m ns x) →
    Pend m st ns (r.parent, r'.parent) ∧ PRule m r r' ∈ rs
  fsound : ∀ x, x ∈ fs → ∃ pr, m.lookup pr = some x ∧ pr.1 ∈ A.final ∧ pr.2 ∈ B.final
  fcomplete : ∀ pr k, m.lookup pr = some k → k ∈ ns → pr.1 ∈ A.final → pr.2 ∈ B.final → k ∈ fs

/-- popping an entry whose number is already in `newStates` -/
theorem PInv.skip {A B : TA} {m : PMap} {e : BUEntry} {st : List BUEntry} {ns : List Nat} {rs : List Rule} {fs : List Nat}
    (h : PInv A B m (e :: st) ns rs fs) (he : e.2 ∈ ns) : PInv A B m st ns rs fs := by
  refine ⟨h.ok, fun x hx => h.hst x (List.mem_cons_of_mem _ hx), h.hns, h.sound, ?_, h.fsound, h.fcomplete⟩
  intro r r' hm hd
  obtain ⟨⟨n, h1, h2⟩, h3⟩ := h.complete r r' hm hd
  refine ⟨⟨n, h1, ?_⟩, h3⟩
  rcases h2 with h2 | h2
  · rcases List.mem_cons.mp h2 with h4 | h4
    · right
      rw [← h4] at he
      exact he
    · exact Or.inl h4
  · exact Or.inr h2

/-- popping and processing an entry -/
theorem PInv.pop {A B : TA} {m : PMap} {e : BUEntry} {st : List BUEntry} {ns : List Nat} {rs : List Rule} {fs : List Nat}
    (h : PInv A B m (e :: st) ns rs fs) :
    PInv A B (buProcAll (buMatching A B e.1) m st rs).1 (buProcAll (buMatching A B e.1) m st rs).2.1 (e.2 :: ns)
      (buProcAll (buMatching A B e.1) m st rs).2.2
      (if A.final.contains e.1.1 && B.final.contains e.1.2 then fs ++ [e.2] else fs) := by
  obtain ⟨pr, k⟩ := e
  have hpr : m.lookup pr = some k := h.hst _ List.mem_cons_self
  obtain ⟨s, c⟩ := buProcAll_pspec (A := A) (B := B) (buMatching A B pr) m st rs h.ok
    (fun rr hrr => (mem_buMatching.mp hrr).1)
  have hpr' := s.ext _ _ hpr
  have hfsub : ∀ x, x ∈ fs → x ∈ (if A.final.contains pr.1 && B.final.contains pr.2 then fs ++ [k] else fs) := by
    intro x hx
    split
    · exact List.mem_append_left _ hx
    · exact hx
  refine ⟨s.ok, ?_, ?_, ?_, ?_, ?_, ?_⟩
  · intro x hx
    rcases s.st_new x hx with h1 | h1
    · exact s.ext _ _ (h.hst x (List.mem_cons_of_mem _ h1))
    · exact h1
  · intro j hj
    rcases List.mem_cons.mp hj with h1 | h1
    · rw [h1]; exact ⟨pr, hpr'⟩
    · obtain ⟨p, hp⟩ := h.hns j h1
      exact ⟨p, s.ext _ _ hp⟩
  · intro ρ hρ
    rcases s.rs_new ρ hρ with h1 | h1
    · exact (h.sound ρ h1).mono s.ext
    · exact h1
  · intro r r' hm hdone
    -- every children pair was done before or is the popped pair; in both cases it was known before the step
    have hback : ∀ x, x ∈ r.kids.zip r'.kids → x = pr ∨ Done m ns x := by
      intro x hx
      obtain ⟨j, hj1, hj2⟩ := hdone x hx
      rcases done_back s.ok s.ext h.hns hpr hj1 hj2 with h1 | h1
      · exact Or.inl h1
      · exact Or.inr ⟨j, h1⟩
    have hknown : ∀ x, x ∈ r.kids.zip r'.kids → x ∈ m.dom := by
      intro x hx
      rcases hback x hx with h1 | ⟨j, h1, _⟩
      · rw [h1]; exact mem_dom_iff.mpr ⟨k, hpr⟩
      · exact mem_dom_iff.mpr ⟨j, h1⟩
    by_cases hin : pr ∈ r.kids.zip r'.kids
    · obtain ⟨n, h1, h2, h3⟩ := c (r, r') (mem_buMatching.mpr ⟨hm, hin⟩) hknown
      exact ⟨⟨n, h1, Or.inl h2⟩, h3⟩
    · have hold : ∀ x, x ∈ r.kids.zip r'.kids → Done m ns x := by
        intro x hx
        rcases hback x hx with h1 | h1
        · exact absurd (h1 ▸ hx) hin
        · exact h1
      obtain ⟨⟨n, d1, d3⟩, d2⟩ := h.complete r r' hm hold
      refine ⟨⟨n, s.ext _ _ d1, ?_⟩, ?_⟩
      · rcases d3 with d3 | d3
        · rcases List.mem_cons.mp d3 with d4 | d4
          · right
            rw [(Prod.mk.inj d4).2]
            exact List.mem_cons_self
          · exact Or.inl (s.st_sub _ d4)
        · exact Or.inr (List.mem_cons_of_mem _ d3)
      · rw [PRule_ext s.ext (mem_dom_iff.mpr ⟨n, d1⟩) hknown]
        exact s.rs_sub _ d2
  · intro x hx
    split at hx
    · rename_i hfin
      rcases List.mem_append.mp hx with h1 | h1
      · obtain ⟨p, hp, hf⟩ := h.fsound x h1
        exact ⟨p, s.ext _ _ hp, hf⟩
      · simp only [Bool.and_eq_true, List.contains_iff_mem] at hfin
        rw [List.mem_singleton.mp h1]
        exact ⟨pr, hpr', hfin.1, hfin.2⟩
    · obtain ⟨p, hp, hf⟩ := h.fsound x hx
      exact ⟨p, s.ext _ _ hp, hf⟩
  · intro p j hp hj hfa hfb
    rcases done_back s.ok s.ext h.hns hpr hp hj with h1 | ⟨h1, h2⟩
    · subst h1
      have hjk : j = k := by rw [hpr'] at hp; exact (Option.some.inj hp).symm
      rw [if_pos (by simp only [Bool.and_eq_true, List.contains_iff_mem]; exact ⟨hfa, hfb⟩), hjk]
      exact List.mem_append_right _ List.mem_cons_self
    · exact hfsub _ (h.fcomplete p j h1 h2 hfa hfb)

theorem loop_inv {A B : TA} : ∀ (n : Nat) (m : PMap) (st : List BUEntry) (ns : List Nat) (rs : List Rule) (fs : List Nat)
    (m' : PMap) (rs' : List Rule) (fs' : List Nat), PInv A B m st ns rs fs →
    buLoop A B n m st ns rs fs = some (m', rs', fs') → Ext m m' ∧ ∃ ns', PInv A B m' [] ns' rs' fs'
  | 0, m, st, ns, rs, fs, m', rs', fs', h, he => by
    simp only [buLoop] at he
    split at he
    · rename_i hs
      have hs' : st = [] := List.isEmpty_iff.mp hs
      simp only [Option.some.injEq, Prod.mk.injEq] at he
      obtain ⟨rfl, rfl, rfl⟩ := he
      subst hs'
      exact ⟨Ext.refl _, ns, h⟩
    · cases he
  | n+1, m, [], ns, rs, fs, m', rs', fs', h, he => by
    simp only [buLoop, Option.some.injEq, Prod.mk.injEq] at he
    obtain ⟨rfl, rfl, rfl⟩ := he
    exact ⟨Ext.refl _, ns, h⟩
  | n+1, m, e :: st, ns, rs, fs, m', rs', fs', h, he => by
    simp only [buLoop] at he
    split at he
    · rename_i hc
      exact loop_inv n m st ns rs fs m' rs' fs' (h.skip (List.contains_iff_mem.mp hc)) he
    · obtain ⟨h3, h4⟩ := loop_inv n _ _ _ _ _ m' rs' fs' h.pop he
      refine ⟨Ext.trans ?_ h3, h4⟩
      exact (buProcAll_pspec (A := A) (B := B) (buMatching A B e.1) m st rs h.ok
        (fun rr hrr => (mem_buMatching.mp hrr).1)).1.ext

/-- the invariant holds after the leaf phase, for every `MapOk` entry map -/
theorem init_inv (A B : TA) (m0 : PMap) (hok : MapOk m0) :
    Ext m0 (buLeafPhase A B (buLeafPairs A B) m0 [] [] []).1 ∧
    PInv A B (buLeafPhase A B (buLeafPairs A B) m0 [] [] []).1 (buLeafPhase A B (buLeafPairs A B) m0 [] [] []).2.1 []
      (buLeafPhase A B (buLeafPairs A B) m0 [] [] []).2.2.1 (buLeafPhase A B (buLeafPairs A B) m0 [] [] []).2.2.2 := by
  obtain ⟨s, c, f⟩ := buLeafPhase_pspec (A := A) (B := B) (buLeafPairs A B) m0 [] [] [] hok
    (fun rr hrr => mem_buLeafPairs.mp hrr)
  refine ⟨s.ext, s.ok, ?_, fun k hk => by simp at hk, ?_, ?_, ?_, fun _ _ _ hk => by simp at hk⟩
  · intro e he
    rcases s.st_new e he with h1 | h1
    · simp at h1
    · exact h1
  · intro ρ hρ
    rcases s.rs_new ρ hρ with h1 | h1
    · simp at h1
    · exact h1
  · intro r r' hm hdone
    have hk : r.kids = [] := by
      cases hrk : r.kids with
      | nil => rfl
      | cons a as =>
        cases hrk' : r'.kids with
        | nil => have := hm.2.2.2; rw [hrk, hrk'] at this; simp at this
        | cons b bs =>
          obtain ⟨j, _, hj⟩ := hdone (a, b) (by rw [hrk, hrk']; simp [List.zip_cons_cons])
          simp at hj
    obtain ⟨n, h1, h2, h3⟩ := c (r, r') (mem_buLeafPairs.mpr ⟨hm, hk⟩)
    exact ⟨⟨n, h1, Or.inl h2⟩, h3⟩
  · intro x hx
    rcases f x hx with h1 | h1
    · simp at h1
    · exact h1

/-! ### the processed pairs -/

/-- the pairs of the map whose number is in `newStates` -/
def donePairs (m : PMap) (ns : List Nat) : List (Nat × Nat) := m.dom.filter (fun p => ns.contains (lookupF m p))

theorem mem_donePairs {m : PMap} {ns : List Nat} {p : Nat × Nat} : p ∈ donePairs m ns ↔ Done m ns p := by
  simp only [donePairs, List.mem_filter, List.contains_iff_mem, Done]
  constructor
  · rintro ⟨h1, h2⟩
    obtain ⟨n, hn⟩ := mem_dom_iff.mp h1
    refine ⟨n, hn, ?_⟩
    simpa only [lookupF, hn, Option.getD_some] using h2
  · rintro ⟨n, hn, h2⟩
    refine ⟨mem_dom_iff.mpr ⟨n, hn⟩, ?_⟩
    simpa only [lookupF, hn, Option.getD_some] using h2

theorem donePairs_sub {m : PMap} {ns : List Nat} {p : Nat × Nat} (h : p ∈ donePairs m ns) : p ∈ m.dom :=
  (List.mem_filter.mp h).1

/-- on an empty stack the processed pairs are bottom-up closed -/
theorem closed_of_pinv {A B : TA} {m : PMap} {ns : List Nat} {rs : List Rule} {fs : List Nat}
    (h : PInv A B m [] ns rs fs) : BUClosed A B (donePairs m ns) := by
  intro r hr r' hr' hs hl hd
  obtain ⟨⟨n, h1, h2⟩, _⟩ := h.complete r r' ⟨hr, hr', hs, hl⟩ (fun x hx => mem_donePairs.mp (hd x hx))
  rcases h2 with h2 | h2
  · simp at h2
  · exact mem_donePairs.mpr ⟨n, h1, h2⟩

/-- completeness: the product on the processed pairs is contained in the result -/
theorem complete_of_pinv {A B : TA} {m : PMap} {ns : List Nat} {rs : List Rule} {fs : List Nat}
    (h : PInv A B m [] ns rs fs) (t : Tree) (ha : accepts A t = true) (hb : accepts B t = true) :
    accepts (⟨rs, fs⟩ : TA) t = true := by
  have hinj : InjOn (lookupF m) (donePairs m ns) :=
    fun x hx y hy he => h.ok.injOn x (donePairs_sub hx) y (donePairs_sub hy) he
  have hacc := (isect_bu_cert A B (donePairs m ns) (lookupF m) (closed_of_pinv h) hinj t).mpr ⟨ha, hb⟩
  refine accepts_sub ?_ ?_ t hacc
  · intro ρ hρ
    obtain ⟨r, h1, r', h2, h3, h4, h6, h7⟩ := mem_prodRulesBU.mp hρ
    rw [h7]
    exact (h.complete r r' ⟨h1, h2, h3, h4⟩ (fun x hx => mem_donePairs.mp (h6 x hx))).2
  · intro x hx
    obtain ⟨pr, hpd, hfa, hfb, hx'⟩ := mem_prodFinalBU.mp hx
    obtain ⟨k, hk, hkn⟩ := mem_donePairs.mp hpd
    have : x = k := by rw [← hx']; simp only [lookupF, hk, Option.getD_some]
    rw [this]
    exact h.fcomplete pr k hk hkn hfa hfb

/-- soundness: the result is contained in the full product numbered by an injective extension of the map -/
theorem sound_of_pinv {A B : TA} {m : PMap} {st : List BUEntry} {ns : List Nat} {rs : List Rule} {fs : List Nat}
    (h : PInv A B m st ns rs fs) (t : Tree) (ht : accepts (⟨rs, fs⟩ : TA) t = true) :
    accepts A t = true ∧ accepts B t = true := by
  have hU : ∀ r, r ∈ A.rules → ∀ r', r' ∈ B.rules → ∀ pr, pr ∈ r.kids.zip r'.kids → pr ∈ allPairs2 A.states B.states := by
    intro r hr r' hr' pr hpr
    obtain ⟨k, k'⟩ := pr
    obtain ⟨h1, h2⟩ := List.of_mem_zip hpr
    exact mem_allPairs2.mpr ⟨kid_mem_states hr h1, kid_mem_states hr' h2⟩
  apply (isect_cert A B (allPairs2 A.states B.states) (Ixf.extNum B m) ?_ (Ixf.extNum_inj h.ok) ?_ t).mp
  · refine accepts_sub ?_ ?_ t ht
    · intro ρ hρ
      obtain ⟨r, r', ⟨h1, h2, h3, h4⟩, hpd, hkd, h7⟩ := h.sound ρ hρ
      refine mem_prodRules.mpr ⟨r, h1, r', h2, h3, h4,
        mem_allPairs2.mpr ⟨Rn.parent_mem_states h1, Rn.parent_mem_states h2⟩, ?_⟩
      rw [h7]
      unfold PRule
      congr 1
      · apply List.map_congr_left
        intro x hx
        simp only [Ixf.extNum, if_pos (hkd x hx)]
      · simp only [Ixf.extNum, if_pos hpd]
    · intro x hx
      obtain ⟨pr, hp, hfa, hfb⟩ := h.fsound x hx
      have hpd : pr ∈ m.dom := mem_dom_iff.mpr ⟨x, hp⟩
      have : x = Ixf.extNum B m pr := by simp only [Ixf.extNum, if_pos hpd, lookupF, hp, Option.getD_some]
      rw [this]
      exact mem_prodFinal.mpr (List.mem_map.mpr ⟨pr, mem_finalPairs.mpr ⟨hfa, hfb⟩, rfl⟩)
  · intro r hr r' hr' _ _ _ pr hpr
    exact hU r hr r' hr' pr hpr
  · intro p hp p' hp'
    exact mem_allPairs2.mpr ⟨mem_states.mpr (Or.inl hp), mem_states.mpr (Or.inl hp')⟩

/-- the states of the result on a tree: exactly the numbers of the pairs of states the operands reach on it -/
theorem reach_of_pinv {A B : TA} {m : PMap} {ns : List Nat} {rs : List Rule} {fs : List Nat}
    (h : PInv A B m [] ns rs fs) (t : Tree) :
    (∀ x, x ∈ reach (⟨rs, fs⟩ : TA) t → ∃ pr, m.lookup pr = some x ∧ pr.1 ∈ reach A t ∧ pr.2 ∈ reach B t) ∧
    (∀ p q, p ∈ reach A t → q ∈ reach B t → ∃ n, m.lookup (p, q) = some n ∧ n ∈ reach (⟨rs, fs⟩ : TA) t) := by
  constructor
  · intro x hx
    have hc : Closed A B (allPairs2 A.states B.states) := by
      intro r hr r' hr' _ _ _ pr hpr
      obtain ⟨k, k'⟩ := pr
      obtain ⟨h1, h2⟩ := List.of_mem_zip hpr
      exact mem_allPairs2.mpr ⟨kid_mem_states hr h1, kid_mem_states hr' h2⟩
    have hsub : ∀ ρ, ρ ∈ rs → ρ ∈ (prodOn A B (allPairs2 A.states B.states) (Ixf.extNum B m)).rules := by
      intro ρ hρ
      obtain ⟨r, r', ⟨h1, h2, h3, h4⟩, hpd, hkd, h7⟩ := h.sound ρ hρ
      refine mem_prodRules.mpr ⟨r, h1, r', h2, h3, h4,
        mem_allPairs2.mpr ⟨Rn.parent_mem_states h1, Rn.parent_mem_states h2⟩, ?_⟩
      rw [h7]
      unfold PRule
      congr 1
      · apply List.map_congr_left
        intro x hx
        simp only [Ixf.extNum, if_pos (hkd x hx)]
      · simp only [Ixf.extNum, if_pos hpd]
    obtain ⟨pr, hpr, he, ha, hb⟩ := (Vata.good A B (allPairs2 A.states B.states) (Ixf.extNum B m) hc
      (Ixf.extNum_inj h.ok) t).1 x (reach_mono (⟨rs, fs⟩ : TA) _ hsub t x hx)
    -- `x` is the parent of a rule of the result, hence the number of a pair of the map
    obtain ⟨f, ts⟩ := t
    rw [reach, mem_post] at hx
    obtain ⟨ρ, hρ, _, _, hp⟩ := hx
    obtain ⟨r, r', hm, hpd, _, h7⟩ := h.sound ρ hρ
    have hx' : x = Ixf.extNum B m (r.parent, r'.parent) := by
      rw [← hp, h7]
      simp only [PRule, Ixf.extNum, if_pos hpd]
    have : pr = (r.parent, r'.parent) :=
      Ixf.extNum_inj h.ok pr hpr _ (mem_allPairs2.mpr ⟨Rn.parent_mem_states hm.1, Rn.parent_mem_states hm.2.1⟩) (he.trans hx')
    subst this
    obtain ⟨n, hn⟩ := mem_dom_iff.mp hpd
    refine ⟨_, ?_, ha, hb⟩
    rw [hn, hx']
    simp only [Ixf.extNum, if_pos hpd, lookupF, hn, Option.getD_some]
  · intro p q hp hq
    have hinj : InjOn (lookupF m) (donePairs m ns) :=
      fun x hx y hy he => h.ok.injOn x (donePairs_sub hx) y (donePairs_sub hy) he
    obtain ⟨hd, hr⟩ := (Ibu.good A B (donePairs m ns) (lookupF m) (closed_of_pinv h) hinj t).2 p q hp hq
    obtain ⟨n, hn, _⟩ := mem_donePairs.mp hd
    refine ⟨n, hn, ?_⟩
    have : lookupF m (p, q) = n := by simp only [lookupF, hn, Option.getD_some]
    rw [← this]
    refine reach_mono _ (⟨rs, fs⟩ : TA) ?_ t _ hr
    intro ρ hρ
    obtain ⟨r, h1, r', h2, h3, h4, h6, h7⟩ := mem_prodRulesBU.mp hρ
    rw [h7]
    exact (h.complete r r' ⟨h1, h2, h3, h4⟩ (fun x hx => mem_donePairs.mp (h6 x hx))).2

end Ibf

open Isx in
/-- everything the loop establishes about the output of `isectBUFrom` for a `MapOk` entry map: the map on exit is
`MapOk`, extends the map on entry, and the invariant holds on an empty stack for some set `ns` of processed numbers -/
theorem isectBUFrom_spec {A B : TA} {m0 : PMap} {fuel : Nat} {P : TA} {m : PMap} (hok : Isx.MapOk m0)
    (h : isectBUFrom A B m0 fuel = some (P, m)) :
    Isx.MapOk m ∧ Isx.Ext m0 m ∧ ∃ ns, Ibf.PInv A B m [] ns P.rules P.final := by
  obtain ⟨hext, hinit⟩ := Ibf.init_inv A B m0 hok
  unfold isectBUFrom at h
  simp only at h
  split at h
  · cases h
  · rename_i m1 rs fs hl
    simp only [Option.some.injEq, Prod.mk.injEq] at h
    obtain ⟨rfl, rfl⟩ := h
    obtain ⟨hext', ns', hinv⟩ := Ibf.loop_inv fuel _ _ _ _ _ m1 rs fs hinit hl
    exact ⟨hinv.ok, hext.trans hext', ns', hinv⟩

/-- **`IntersectionBU` with a pre-filled `MapOk` map is exact** -/
theorem isectBUFrom_lang {A B : TA} {m0 : PMap} {fuel : Nat} {P : TA} {m : PMap} (hok : Isx.MapOk m0)
    (h : isectBUFrom A B m0 fuel = some (P, m)) (t : Tree) : accepts P t = (accepts A t && accepts B t) := by
  obtain ⟨_, _, ns, hinv⟩ := isectBUFrom_spec hok h
  rw [Bool.eq_iff_iff, Bool.and_eq_true]
  exact ⟨fun ht => Ibf.sound_of_pinv hinv t ht, fun ⟨ha, hb⟩ => Ibf.complete_of_pinv hinv t ha hb⟩

theorem isectBUFrom_map_inj {A B : TA} {m0 : PMap} {fuel : Nat} {P : TA} {m : PMap} (hok : Isx.MapOk m0)
    (h : isectBUFrom A B m0 fuel = some (P, m)) : InjOn (lookupF m) m.dom := (isectBUFrom_spec hok h).1.injOn

theorem isectBUFrom_ext {A B : TA} {m0 : PMap} {fuel : Nat} {P : TA} {m : PMap} (hok : Isx.MapOk m0)
    (h : isectBUFrom A B m0 fuel = some (P, m)) : Isx.Ext m0 m := (isectBUFrom_spec hok h).2.1

/-- every pair of states the operands reach on a common tree is in the map on exit (and has been processed) -/
theorem isectBUFrom_reach_done {A B : TA} {m0 : PMap} {fuel : Nat} {P : TA} {m : PMap} (hok : Isx.MapOk m0)
    (h : isectBUFrom A B m0 fuel = some (P, m)) (t : Tree) (p q : Nat) (hp : p ∈ reach A t) (hq : q ∈ reach B t) :
    (p, q) ∈ m.dom := by
  obtain ⟨hmok, _, ns, hinv⟩ := isectBUFrom_spec hok h
  have hinj : InjOn (lookupF m) (Ibf.donePairs m ns) :=
    fun x hx y hy he => hmok.injOn x (Ibf.donePairs_sub hx) y (Ibf.donePairs_sub hy) he
  exact Ibf.donePairs_sub (buClosed_reach A B _ (lookupF m) (Ibf.closed_of_pinv hinv) hinj t p q hp hq)

/-- **the map names the states**: on every tree the states of the result are exactly the numbers of the pairs of states
the operands reach on it -/
theorem isectBUFrom_reach {A B : TA} {m0 : PMap} {fuel : Nat} {P : TA} {m : PMap} (hok : Isx.MapOk m0)
    (h : isectBUFrom A B m0 fuel = some (P, m)) (t : Tree) :
    (∀ x, x ∈ reach P t → ∃ pr, m.lookup pr = some x ∧ pr.1 ∈ reach A t ∧ pr.2 ∈ reach B t) ∧
    (∀ p q, p ∈ reach A t → q ∈ reach B t → ∃ n, m.lookup (p, q) = some n ∧ n ∈ reach P t) := by
  obtain ⟨_, _, ns, hinv⟩ := isectBUFrom_spec hok h
  exact Ibf.reach_of_pinv hinv t

end Vata
