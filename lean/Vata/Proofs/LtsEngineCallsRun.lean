import Vata.Proofs.LtsEngineCallsSS
/-!
# The instrumented LTS engine: the `SmartSet` discipline along `makeBlock`, `fastSplit`, `split`, `processRemove`

`Good aw0 obj et`: the `SmartSet` history emitted so far is inside `SS.ok` from the world `aw0`, and the world it leads to shows the
insets of the engine state (`SSInv`).  The phase lemma `phase_trace` re-runs the induction of `phase_fold`
(`Vata/Proofs/LtsEnginePhase.lean`) with the trace attached.
-/
namespace Vata.LEC
open Vata.L Vata.LE Vata.LU

/-- the history so far is inside the discipline and leads to a world that shows the engine's insets -/
def Good (L : LTS) (aw0 : SS.AWorld) (obj : Nat → Nat) (e : Eng) (t : Tr) : Prop :=
  SS.okAll aw0 t.ss = true ∧ SSInv L obj e (SS.aRun aw0 t.ss)

theorem Good.add {L : LTS} {aw0 : SS.AWorld} {obj : Nat → Nat} {e e' : Eng} {t : Tr} {ops : List SS.Op}
    (g : Good L aw0 obj e t) (h : SS.okAll (SS.aRun aw0 t.ss) ops = true ∧ SSInv L obj e' (SS.aRun (SS.aRun aw0 t.ss) ops)) :
    Good L aw0 obj e' (t.addSS ops) := by
  refine ⟨?_, ?_⟩
  · show SS.okAll aw0 (t.ss ++ ops) = true
    rw [okAll_append, g.1, h.1]; rfl
  · show SSInv L obj e' (SS.aRun aw0 (t.ss ++ ops))
    rw [aRun_append]; exact h.2

theorem Good.congr {L : LTS} {aw0 : SS.AWorld} {obj : Nat → Nat} {e e' : Eng} {t t' : Tr}
    (g : Good L aw0 obj e t) (h1 : e'.part.length = e.part.length) (h2 : e'.inset = e.inset) (h3 : t'.ss = t.ss) :
    Good L aw0 obj e' t' := by
  unfold Good; rw [h3]; exact ⟨g.1, g.2.congr h1 h2⟩

/-! ### `makeBlock` for the initial partition -/

theorem blocks_good (L : LTS) : ∀ (bs : List (List Nat)) (i : Nat) (aw : SS.AWorld), aw.length = labels L + 1 + i →
    SS.okAll aw (blocksT L (objI L) i bs) = true ∧
    (SS.aRun aw (blocksT L (objI L) i bs)).length = labels L + 1 + i + bs.length ∧
    (∀ j, j < aw.length → (SS.aRun aw (blocksT L (objI L) i bs))[j]? = aw[j]?) ∧
    (∀ k, k < bs.length → (SS.aRun aw (blocksT L (objI L) i bs))[labels L + 1 + i + k]? =
      some ⟨mkInset L (mkBlockList (bs.getD k [])), labels L, false⟩)
  | [], i, aw, hl => ⟨rfl, by simpa [blocksT, SS.aRun] using hl, fun _ _ => rfl, fun k hk => by cases hk⟩
  | b :: bs, i, aw, hl => by
    have hc : (aw ++ [SS.aMk (labels L)])[objI L i]? = some ⟨[], labels L, false⟩ := by
      have : objI L i = aw.length := by unfold objI; omega
      rw [this, List.getElem?_concat_length]; rfl
    obtain ⟨a1, a2⟩ := adds_ok (objI L i) (labels L) ((mkBlockList b).flatMap (bwLabels L)) (aw ++ [SS.aMk (labels L)]) [] hc
      (fun a ha => by obtain ⟨q, _, hq⟩ := List.mem_flatMap.1 ha; exact bwLabels_lt L hq)
    rw [← mkInset_eq] at a2
    have hl2 : ((aw ++ [SS.aMk (labels L)]).set (objI L i) ⟨mkInset L (mkBlockList b), labels L, false⟩).length =
        labels L + 1 + (i + 1) := by
      rw [List.length_set, List.length_append, hl]; rfl
    obtain ⟨b1, b2, b3, b4⟩ := blocks_good L bs (i + 1) _ hl2
    have hrun : SS.aRun aw (blocksT L (objI L) i (b :: bs)) =
        SS.aRun ((aw ++ [SS.aMk (labels L)]).set (objI L i) ⟨mkInset L (mkBlockList b), labels L, false⟩)
          (blocksT L (objI L) (i + 1) bs) := by
      show SS.aRun aw (ctor1T L (objI L i) (mkBlockList b) ++ _) = _
      rw [aRun_append]
      show SS.aRun (SS.aRun (aw ++ [SS.aMk (labels L)]) _) _ = _
      rw [a2]
    refine ⟨?_, ?_, ?_, ?_⟩
    · show SS.okAll aw (ctor1T L (objI L i) (mkBlockList b) ++ _) = true
      rw [okAll_append]
      have : SS.okAll aw (ctor1T L (objI L i) (mkBlockList b)) = true := by
        show (SS.ok aw (SS.Op.new _) && SS.okAll (aw ++ [SS.aMk (labels L)]) _) = true
        rw [a1]; rfl
      rw [this, Bool.true_and]
      show SS.okAll (SS.aRun (aw ++ [SS.aMk (labels L)]) _) _ = true
      rw [a2]; exact b1
    · rw [hrun, b2, List.length_cons]; omega
    · intro j hj
      rw [hrun, b3 j (by rw [hl2]; omega), List.getElem?_set_ne (by unfold objI; omega), List.getElem?_append_left hj]
    · intro k hk
      rw [hrun]
      cases k with
      | zero =>
        rw [b3 _ (by rw [hl2]; omega)]
        have : labels L + 1 + i + 0 = objI L i := rfl
        rw [this, List.getElem?_set_self (lt_of_get hc)]
        rfl
      | succ k =>
        have := b4 k (by simpa using hk)
        have e1 : labels L + 1 + i + (k + 1) = labels L + 1 + (i + 1) + k := by omega
        rw [e1, this]
        rfl

/-! ### one phase (`fastSplit` / `split`) -/

/-- `gStep` of `Vata/Proofs/LtsEnginePhase.lean` with the trace -/
def gStepI (L : LTS) (obj : Nat → Nat) (step : Eng → Nat → List Nat → List Nat → Eng) (part0 : List (List Nat))
    (rm : List Nat) (emt : (Eng × List Nat) × Tr) (b : Nat) : (Eng × List Nat) × Tr :=
  match trySplit (emt.1.1.block b) (tmpOf part0 rm b) with
  | none => ((emt.1.1, b :: emt.1.2), emt.2)
  | some (rest, new) =>
    ((step emt.1.1 b rest new, emt.1.1.part.length :: emt.1.2),
     (emt.2.addSS (ctor2T L (obj b) (obj emt.1.1.part.length) new)).addSR [SR.Op.split b])

theorem gStepI_fst (L : LTS) (obj : Nat → Nat) (step : Eng → Nat → List Nat → List Nat → Eng) (part0 : List (List Nat))
    (rm : List Nat) (emt : (Eng × List Nat) × Tr) (b : Nat) :
    (gStepI L obj step part0 rm emt b).1 = gStep step part0 rm emt.1 b := by
  unfold gStepI gStep
  cases trySplit (emt.1.1.block b) (tmpOf part0 rm b) with
  | none => rfl
  | some rn => rfl

section phase
variable {L : LTS} {e0 : Eng} {rm : List Nat} {obj : Nat → Nat} (step : Eng → Nat → List Nat → List Nat → Eng)
  (P : Eng → (Nat → Nat) → Prop)

theorem phase_trace (hs : StepOK L step P) (ho : ObjOK L obj) (w0 : WF L e0) (hrm : ∀ q, q ∈ rm → q < L.n) (hnd : rm.Nodup)
    (aw0 : SS.AWorld) :
    ∀ (todo done : List Nat) (emt : (Eng × List Nat) × Tr) (par : Nat → Nat), todo.Nodup →
      (∀ b, b ∈ todo → b ∈ modifiedBlocks e0.part rm ∧ b ∉ done) →
      PhaseInv L e0 rm done emt.1 par → P emt.1.1 par → Good L aw0 obj emt.1.1 emt.2 →
      Good L aw0 obj (todo.foldl (gStepI L obj step e0.part rm) emt).1.1 (todo.foldl (gStepI L obj step e0.part rm) emt).2
  | [], _, _, _, _, _, _, _, g => g
  | b :: todo, done, emt, par, hn, hto, inv, hP, g => by
    have hn' := List.nodup_cons.mp hn
    have hbm := (hto b List.mem_cons_self).1
    have hbd := (hto b List.mem_cons_self).2
    obtain ⟨par1, inv1, hP1⟩ := phase_step step P hs w0 hrm hnd inv hP hbm hbd
    rw [← gStepI_fst L obj] at inv1 hP1
    have g1 : Good L aw0 obj (gStepI L obj step e0.part rm emt b).1.1 (gStepI L obj step e0.part rm emt b).2 := by
      obtain ⟨q0, hq0rm, hq0b⟩ := (mem_modifiedBlocks w0 hrm b).mp hbm
      have hb0 : b < e0.part.length := lt_of_mem_block hq0b
      have hbk : b < emt.1.1.part.length := Nat.lt_of_lt_of_le hb0 inv.rs.hlen
      have hblk : emt.1.1.block b = e0.block b := inv.hkeep b hb0 hbd
      have htmp := mem_tmpOf w0 hrm b
      have htnd : (tmpOf e0.part rm b).Nodup := nodup_filter _ hnd
      have htsub : ∀ x, x ∈ tmpOf e0.part rm b → x ∈ emt.1.1.block b := fun x hx => hblk ▸ ((htmp x).mp hx).2
      unfold gStepI
      cases hts : trySplit (emt.1.1.block b) (tmpOf e0.part rm b) with
      | none => exact g
      | some rn =>
        obtain ⟨rest, new⟩ := rn
        obtain ⟨t1, t2, t3, t4, t5, t6⟩ := trySplit_some (inv.wf.hnd b) htnd htsub hts
        have sok : SplitOK emt.1.1 b rest new := by
          refine ⟨hbk, fun q hq => htsub q ((t1 q).mp hq), ?_, t3, t4, t5, t6⟩
          intro q
          rw [t2 q, t1 q]
        obtain ⟨s1, _, s3, _⟩ := hs emt.1.1 par b rest new inv.wf hP sok
        have gc := ctor2_good ho g.2 inv.wf sok
        have := Good.add (e' := step emt.1.1 b rest new) g ⟨gc.1, gc.2.congr (by rw [s1]) s3⟩
        exact this.congr rfl rfl rfl
    exact phase_trace hs ho w0 hrm hnd aw0 todo (b :: done) _ par1 hn'.2
      (fun c hc => ⟨(hto c (List.mem_cons_of_mem _ hc)).1, fun h => by
        rcases List.mem_cons.mp h with h | h
        · exact hn'.1 (h ▸ hc)
        · exact (hto c (List.mem_cons_of_mem _ hc)).2 h⟩) inv1 hP1 g1

theorem phase_trace_all (hs : StepOK L step P) (ho : ObjOK L obj) (w0 : WF L e0) (hrm : ∀ q, q ∈ rm → q < L.n)
    (hnd : rm.Nodup) (aw0 : SS.AWorld) (hP : P e0 id) (t : Tr) (g : Good L aw0 obj e0 t) :
    Good L aw0 obj ((modifiedBlocks e0.part rm).foldl (gStepI L obj step e0.part rm) ((e0, []), t)).1.1
      ((modifiedBlocks e0.part rm).foldl (gStepI L obj step e0.part rm) ((e0, []), t)).2 := by
  have inv0 : PhaseInv L e0 rm [] (e0, []) id := by
    refine ⟨w0, RefineS.refl L e0, fun _ _ => rfl, fun _ _ _ => rfl, fun _ _ _ => rfl, ?_, ?_⟩
    · intro i hi hd
      rcases hd with hd | hd
      · cases hd
      · exact absurd hi (Nat.not_lt_of_le hd)
    · intro i
      constructor
      · intro h; cases h
      · rintro ⟨h1, h2 | h2, _⟩
        · cases h2
        · exact absurd h1 (Nat.not_lt_of_le h2)
  exact phase_trace step P hs ho w0 hrm hnd aw0 (modifiedBlocks e0.part rm) [] ((e0, []), t) id
    (nodup_dedupF _ _) (fun b hb => ⟨hb, fun h => by cases h⟩) inv0 hP g

end phase

/-! ### `fastSplit`, the initial refinement -/

theorem fastSplitI_fold (L : LTS) (obj : Nat → Nat) (part0 : List (List Nat)) (rm : List Nat) : ∀ (todo : List Nat)
    (et : IE) (m : List Nat),
    todo.foldl (fastSplitStepI L obj part0 rm) et =
      ((todo.foldl (gStepI L obj (splitBlockCore L) part0 rm) ((et.1, m), et.2)).1.1,
       (todo.foldl (gStepI L obj (splitBlockCore L) part0 rm) ((et.1, m), et.2)).2)
  | [], _, _ => rfl
  | b :: todo, et, m => by
    simp only [List.foldl_cons]
    unfold fastSplitStepI gStepI
    cases trySplit (et.1.block b) (tmpOf part0 rm b) with
    | none => exact fastSplitI_fold L obj part0 rm todo et (b :: m)
    | some rn => exact fastSplitI_fold L obj part0 rm todo _ _

theorem fastSplit_good {L : LTS} {obj : Nat → Nat} (ho : ObjOK L obj) {aw0 : SS.AWorld} {et : IE} {rm : List Nat}
    (w0 : WF L et.1) (hrm : ∀ q, q ∈ rm → q < L.n) (hnd : rm.Nodup) (g : Good L aw0 obj et.1 et.2) :
    Good L aw0 obj (fastSplitI L obj et rm).1 (fastSplitI L obj et rm).2 := by
  unfold fastSplitI
  rw [fastSplitI_fold L obj et.1.part rm _ et []]
  exact phase_trace_all (splitBlockCore L) _ (stepF_ok L et.1) ho w0 hrm hnd aw0 ⟨rfl, rfl, rfl, rfl⟩ et.2 g

theorem initRefine_good {L : LTS} {obj : Nat → Nat} (ho : ObjOK L obj) {aw0 : SS.AWorld} : ∀ (as : List Nat) (et : IE),
    WF L et.1 → Good L aw0 obj et.1 et.2 →
    Good L aw0 obj (as.foldl (fun et a => fastSplitI L obj et (delta1 L a)) et).1
      (as.foldl (fun et a => fastSplitI L obj et (delta1 L a)) et).2
  | [], _, _, g => g
  | a :: as, et, w, g => by
    have hrm : ∀ q, q ∈ delta1 L a → q < L.n := fun q hq => ((mem_delta1 L a q).1 hq).1
    have g1 := fastSplit_good ho w hrm (nodup_delta1 L a) g
    obtain ⟨_, w1, _⟩ := fastSplit_spec w hrm (nodup_delta1 L a)
    rw [← fastSplitI_fst L obj] at w1
    exact initRefine_good ho as _ w1 g1

/-! ### `split` -/

theorem splitStepI_eq (L : LTS) (obj : Nat → Nat) (part0 : List (List Nat)) (rm : List Nat) :
    splitStepI L obj part0 rm = gStepI L obj (stepS L) part0 rm := by
  funext emt b
  unfold splitStepI gStepI stepS
  cases trySplit (emt.1.1.block b) (tmpOf part0 rm b) with
  | none => rfl
  | some rn => rfl

theorem split_good {L : LTS} {obj : Nat → Nat} (ho : ObjOK L obj) {aw0 : SS.AWorld} {et : IE} {rm : List Nat}
    (w0 : WF L et.1) (qk : QOK et.1) (hrm : ∀ q, q ∈ rm → q < L.n) (hnd : rm.Nodup) (g : Good L aw0 obj et.1 et.2) :
    Good L aw0 obj (splitI L obj et rm).1.1 (splitI L obj et rm).2 := by
  unfold splitI
  rw [splitStepI_eq]
  exact phase_trace_all (stepS L) _ (stepS_ok L et.1) ho w0 hrm hnd aw0 ⟨qk, w0, Refine.refl L et.1, rfl⟩ et.2 g

end Vata.LEC
