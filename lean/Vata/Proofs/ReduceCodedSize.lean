import Vata.Proofs.ReduceCoded
/-!
# `Reduce` on the store, part 2: sizes, language, totality

The answer of the fully coded `Reduce` lists every rule ONCE (the store has no duplicate, the coded trimming introduces
none), so on the store "at most as many rules" holds for the plain lengths against the number of DISTINCT rules of the input.
-/
namespace Vata.ReduceCoded
open Vata Vata.Store Vata.RenameCoded Vata.TrimCoded Vata.SimPipe Vata.BinRel

/-! ### `unreachCoded` introduces no duplicate rule -/

theorem pushNew_nodup (σ : List Nat × List Nat) (q : Nat) (h : σ.1.Nodup) : (pushNew σ q).1.Nodup := by
  unfold pushNew
  split
  · exact h
  · rename_i hc
    simp only
    rw [List.nodup_append]
    refine ⟨h, by simp, ?_⟩
    intro a ha b hb
    rw [List.mem_singleton] at hb
    subst hb
    intro e
    subst e
    exact hc (List.contains_iff_mem.mpr ha)

theorem foldl_pushNew_nodup : ∀ (ks : List Nat) (σ : List Nat × List Nat), σ.1.Nodup → (ks.foldl pushNew σ).1.Nodup
  | [], _, h => h
  | k :: ks, σ, h => by rw [List.foldl_cons]; exact foldl_pushNew_nodup ks _ (pushNew_nodup σ k h)

theorem procCluster_nodup : ∀ (c : List Rule) (σ : List Nat × List Nat), σ.1.Nodup → (procCluster c σ).1.Nodup
  | [], _, h => h
  | r :: c, σ, h => by
    unfold procCluster
    rw [List.foldl_cons]
    exact procCluster_nodup c _ (foldl_pushNew_nodup r.kids σ h)

theorem unreachLoop_nodup (A : TA) : ∀ (f : Nat) (σ : List Nat × List Nat), σ.1.Nodup → (unreachLoop A f σ).1.Nodup
  | 0, _, h => h
  | _+1, (_, []), h => h
  | f+1, (R, s :: W), h => by
    unfold unreachLoop
    exact unreachLoop_nodup A f _ (procCluster_nodup _ (R, W) h)

/-- `reachableStates` is a set -/
theorem unreachSet_nodup (A : TA) : (unreachSet A).Nodup :=
  unreachLoop_nodup A _ _ (PropAux.nodup_unionL _ [] List.nodup_nil)

theorem nodup_flatMap_clusterOf (A : TA) (h : A.rules.Nodup) : ∀ (R : List Nat), R.Nodup →
    (R.flatMap (fun s => clusterOf A s)).Nodup
  | [], _ => by simp
  | s :: R, hR => by
    rw [List.flatMap_cons, List.nodup_append]
    have hR' := List.nodup_cons.mp hR
    refine ⟨h.filter _, nodup_flatMap_clusterOf A h R hR'.2, ?_⟩
    intro a ha b hb e
    subst e
    have h1 : a.parent = s := by
      have := (List.mem_filter.mp ha).2
      simpa using this
    obtain ⟨s', hs', hb'⟩ := List.mem_flatMap.mp hb
    have h2 : a.parent = s' := by
      have := (List.mem_filter.mp hb').2
      simpa using this
    rw [← h1, h2] at hR'
    exact hR'.1 hs'

/-- the coded `RemoveUnreachableStates` (either branch) lists every rule once if its input does -/
theorem unreachCoded_nodup (A : TA) (h : A.rules.Nodup) : (unreachCoded A).rules.Nodup := by
  unfold unreachCoded unreachWith
  simp only
  split
  · exact h
  · exact nodup_flatMap_clusterOf A h _ (unreachSet_nodup A)

/-! ### consequences of `reduceCodedOn_spec` -/

theorem taEquiv_states_length {A B : TA} (h : TAEquiv A B) : A.states.length = B.states.length :=
  length_eq_of_nodup (PropAux.nodup_states A) (PropAux.nodup_states B) (taEquiv_states h)

/-- everything the property says, for the general composition -/
theorem reduceCodedOn_props (simA : TA) (S : Store) (hS : Inv S) (heq : TAEquiv (RenameCoded.toTA S) simA) :
    ∃ B' B m, reduceCodedOn simA S = .ok B' ∧ reduceAsCoded simA = some B ∧ collapseMapAsCoded simA = some m ∧
      TAEquiv B' B ∧ B'.rules.Nodup ∧
      B'.states.length ≤ simA.states.length ∧ B'.rules.eraseDups.length ≤ simA.rules.eraseDups.length ∧
      B'.rules.length ≤ simA.rules.eraseDups.length ∧ B'.rules.length ≤ simA.rules.length ∧
      (∀ x, x ∈ B'.states → ∃ q, q ∈ simA.states ∧ x = applyMap m q) ∧
      (TaLts.Ranked simA → LangEq B' simA) := by
  obtain ⟨m, d, hm, _, hw, _, hres, hB, hE⟩ := reduceCodedOn_spec simA S hS heq
  have himg : ∀ y, y ∈ (unreachCoded (RenameCoded.toTA d)).rules → ∃ x, x ∈ simA.rules ∧ y = mapRule (applyMap m) x :=
    fun y hy => RM.rules_reduce_image _ simA y ((hE.1 y).mp hy)
  have hnd : (unreachCoded (RenameCoded.toTA d)).rules.Nodup := unreachCoded_nodup _ (nodup_iterate_w hw)
  have hlen : (unreachCoded (RenameCoded.toTA d)).rules.length ≤ simA.rules.eraseDups.length := by
    have hsub : (unreachCoded (RenameCoded.toTA d)).rules ⊆ simA.rules.eraseDups.map (mapRule (applyMap m)) := by
      intro y hy
      obtain ⟨x, hx, he⟩ := himg y hy
      exact List.mem_map.mpr ⟨x, List.mem_eraseDups.mpr hx, he.symm⟩
    have := hnd.length_le_of_subset hsub
    rwa [List.length_map] at this
  have hed : simA.rules.eraseDups.length ≤ simA.rules.length :=
    (RM.nodup_eraseDups simA.rules).length_le_of_subset (fun x hx => List.mem_eraseDups.mp hx)
  refine ⟨_, _, m, hres, hB, hm, hE, hnd, ?_, RM.distinct_le_of_image _ _ _ himg, hlen, Nat.le_trans hlen hed, ?_, ?_⟩
  · rw [taEquiv_states_length hE]
    exact PropAux.states_reduce_length _ simA
  · intro x hx
    exact PropAux.states_reduce ((taEquiv_states hE x).mp hx)
  · intro hrk t
    rw [hE.lang t]
    exact reduceAsCoded_lang simA hrk _ hB t

end Vata.ReduceCoded
