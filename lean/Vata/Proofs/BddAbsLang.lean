import Vata.Proofs.BddAbs
import Vata.Proofs.PropAux
import Vata.Proofs.Rename
/-!
# Language-level consequences of the table abstraction `Vata/BddAbs.lean` (property C08)

`Vata/Proofs/BddAbs.lean` characterises the RULES of the symbolic bottom-up transition tables after `AddTransition`,
loading a rule list, `Union`.  Here the same at the level of LANGUAGES of the dumped automaton `absBU syms T final`
(`syms` = the symbols of the dictionary, each a 16-bit number):

* `ofRules_lang`      load then dump keeps the language;
* `unionT_lang`, `unionDisj_lang`   the table-wise union / the union of tables with disjoint tuples accepts exactly the
                      union, for operands with disjoint states.
-/
namespace Vata
namespace BddAbs

/-- the dump of the encoding of the rules of `A` has the rules of `A` (as a set), provided the dictionary `syms` covers the
symbols of `A` and all symbols are 16-bit numbers -/
theorem mem_absRules_ofRules_cover (A : TA) (syms : List Nat) (hrs : ∀ r, r ∈ A.rules → r.sym < 2 ^ 16)
    (hs : ∀ f, f ∈ syms → f < 2 ^ 16) (hc : ∀ r, r ∈ A.rules → r.sym ∈ syms) (r : Rule) :
    r ∈ absRules syms (ofRules A.rules) ↔ r ∈ A.rules := by
  rw [absRules_ofRules A.rules syms hrs hs r]
  exact ⟨fun h => h.2, fun h => ⟨hc r h, h⟩⟩

/-- load into the bottom-up encoding, then dump: the same language -/
theorem ofRules_lang (A : TA) (syms : List Nat) (hrs : ∀ r, r ∈ A.rules → r.sym < 2 ^ 16)
    (hs : ∀ f, f ∈ syms → f < 2 ^ 16) (hc : ∀ r, r ∈ A.rules → r.sym ∈ syms) (t : Tree) :
    accepts (absBU syms (ofRules A.rules) A.final) t = accepts A t :=
  lang_perm_invariant (absBU syms (ofRules A.rules) A.final) A (mem_absRules_ofRules_cover A syms hrs hs hc)
    (fun _ => Iff.rfl) t

/-- a table `T` whose rules are those of `T₁` or of `T₂`, the operands being the encodings of `A` and `B` with disjoint
states: the dump with the final states of both accepts exactly the union -/
theorem union_lang_of (A B : TA) (syms : List Nat) (T : Table)
    (hT : ∀ ρ ks p, HasRule T ρ ks p ↔ HasRule (ofRules A.rules) ρ ks p ∨ HasRule (ofRules B.rules) ρ ks p)
    (hA : ∀ r, r ∈ A.rules → r.sym < 2 ^ 16) (hB : ∀ r, r ∈ B.rules → r.sym < 2 ^ 16)
    (hs : ∀ f, f ∈ syms → f < 2 ^ 16) (hcA : ∀ r, r ∈ A.rules → r.sym ∈ syms) (hcB : ∀ r, r ∈ B.rules → r.sym ∈ syms)
    (hdis : ∀ q, q ∈ A.states → q ∉ B.states) (t : Tree) :
    accepts (absBU syms T (A.final ++ B.final)) t = (accepts A t || accepts B t) := by
  rw [← unionDisjoint_lang A B hdis t]
  apply lang_perm_invariant
  · intro r
    have h1 := mem_absRules_ofRules_cover A syms hA hs hcA r
    have h2 := mem_absRules_ofRules_cover B syms hB hs hcB r
    simp only [absBU, unionDisjoint, List.mem_append]
    rw [← h1, ← h2]
    simp only [mem_absRules, hT]
    constructor
    · rintro ⟨h, h' | h'⟩
      · exact Or.inl ⟨h, h'⟩
      · exact Or.inr ⟨h, h'⟩
    · rintro (⟨h, h'⟩ | ⟨h, h'⟩)
      · exact ⟨h, Or.inl h'⟩
      · exact ⟨h, Or.inr h'⟩
  · intro q; exact Iff.rfl

/-- the table-wise union (`apply2 (· ∪ ·)` on every tuple) -/
theorem unionT_lang (A B : TA) (syms : List Nat)
    (hA : ∀ r, r ∈ A.rules → r.sym < 2 ^ 16) (hB : ∀ r, r ∈ B.rules → r.sym < 2 ^ 16)
    (hs : ∀ f, f ∈ syms → f < 2 ^ 16) (hcA : ∀ r, r ∈ A.rules → r.sym ∈ syms) (hcB : ∀ r, r ∈ B.rules → r.sym ∈ syms)
    (hdis : ∀ q, q ∈ A.states → q ∉ B.states) (t : Tree) :
    accepts (absBU syms (unionT (ofRules A.rules) (ofRules B.rules)) (A.final ++ B.final)) t =
      (accepts A t || accepts B t) :=
  union_lang_of A B syms _ (fun ρ ks p => absBU_union _ _ ρ ks p) hA hB hs hcA hcB hdis t

/-- `Union` as the code does it after the states were renumbered apart: the maps of non-empty tuples are put together,
the nullary MTBDDs are united; the hypothesis `hd` says that no non-empty tuple has an entry in both tables -/
theorem unionDisj_lang (A B : TA) (syms : List Nat)
    (hd : ∀ k, k ∈ (ofRules A.rules).entries.map (·.1) → k ∉ (ofRules B.rules).entries.map (·.1))
    (hA : ∀ r, r ∈ A.rules → r.sym < 2 ^ 16) (hB : ∀ r, r ∈ B.rules → r.sym < 2 ^ 16)
    (hs : ∀ f, f ∈ syms → f < 2 ^ 16) (hcA : ∀ r, r ∈ A.rules → r.sym ∈ syms) (hcB : ∀ r, r ∈ B.rules → r.sym ∈ syms)
    (hdis : ∀ q, q ∈ A.states → q ∉ B.states) (t : Tree) :
    accepts (absBU syms (unionDisj (ofRules A.rules) (ofRules B.rules)) (A.final ++ B.final)) t =
      (accepts A t || accepts B t) :=
  union_lang_of A B syms _ (fun ρ ks p => absBU_unionDisj _ _ hd ρ ks p) hA hB hs hcA hcB hdis t

/-! ### non-vacuity -/
namespace BddAbsLangEx
open BddAbsEx

/-- `a → 1`, `b → 1`, `g(1,1) → 2` final -/
def exA : TA := ⟨rsA, [2]⟩
/-- `a → 3`, `b → 4`, `g(3,3) → 9`, `g(4,4) → 9` final -/
def exB : TA := ⟨rsB, [9]⟩

example : ∀ t, accepts (absBU [0, 1, 2] (ofRules exA.rules) exA.final) t = accepts exA t :=
  ofRules_lang exA [0, 1, 2] (by decide) (by decide) (by decide)
example : ∀ t, accepts (absBU [0, 1, 2] (unionT (ofRules exA.rules) (ofRules exB.rules)) (exA.final ++ exB.final)) t =
    (accepts exA t || accepts exB t) :=
  unionT_lang exA exB [0, 1, 2] (by decide) (by decide) (by decide) (by decide) (by decide) (by decide)
example : ∀ t, accepts (absBU [0, 1, 2] (unionDisj (ofRules exA.rules) (ofRules exB.rules)) (exA.final ++ exB.final)) t =
    (accepts exA t || accepts exB t) :=
  unionDisj_lang exA exB [0, 1, 2] (by decide) (by decide) (by decide) (by decide) (by decide) (by decide) (by decide)
-- the dump is a real automaton with the seven rules
example : (absBU [0, 1, 2] (unionT (ofRules exA.rules) (ofRules exB.rules)) [2, 9]).rules.length = 7 := by decide +kernel

end BddAbsLangEx

end BddAbs
end Vata
