import Vata.Proofs.BddTrimCodedGlue
/-!
# Regression examples for the top-down `RemoveUselessStates` as coded (property C08)

Two realistic slips of `src/bdd_td_tree_aut_useless.cc`, as variants of the model, and concrete automata on which they
are visible:

* `tupleStepSlip` – `graph_.AddEdge(tupleNode, procNode_)` moved INTO the `else` branch (the edge from the AND node to the
  processed state is only added when the tuple is new): a second state with the same children tuple is never marked
  useful and loses its rules – the LANGUAGE shrinks (`slip1_changes_language`);
* `satisfyStepSlip` – the AND node is satisfied as soon as ONE of its input nodes is popped (the test
  `GetIngress(andNode).empty()` dropped): unproductive states are marked useful; the language cannot change (more rules
  are kept) but the postcondition "no useless state is left" fails (`slip2_leaves_useless_state`).
-/
namespace Vata
namespace BddTrimCoded
namespace Ex
open M BddAbs BddAbsTD

def tupleStepSlip (proc : Nat) (B : Build) (tuple : List Nat) : Build :=
  if tuple.isEmpty then { B with term := ins proc B.term }
  else
    match findBwd B.andN tuple with
    | some _ => B
    | none =>
      let a := B.G.addNode.2
      let B' := tuple.foldl (stateStep a) { B with G := B.G.addNode.1, andN := B.andN ++ [(a, tuple)] }
      { B' with G := B'.G.addEdge a proc }

def satisfyStepSlip (orN : List (Nat × Nat)) (node : Nat) (P : Mark) (a : Nat) : Mark :=
  let G := P.G.eraseIng a node
  (G.egr a).foldl (markStep orN) { P with G := G }

def buildLoopX (tstep : Nat → Build → List Nat → Build) (T : TableTD) : Nat → Build → Option Build
  | fuel, B =>
    match B.ws with
    | [] => some B
    | (n, s) :: ws =>
      match fuel with
      | 0 => none
      | fuel + 1 => buildLoopX tstep T fuel ((leafTuples (getTD T s)).foldl (tstep n) { B with ws := ws })

def propLoopX (sstep : List (Nat × Nat) → Nat → Mark → Nat → Mark) (orN : List (Nat × Nat)) : Nat → Mark → Option Mark
  | fuel, P =>
    match P.stk with
    | [] => some P
    | node :: stk =>
      match fuel with
      | 0 => none
      | fuel + 1 =>
        let P0 : Mark := { P with stk := stk }
        let G := (P0.G.ing node).foldl (fun G a => G.eraseEgr a node) P0.G
        propLoopX sstep orN fuel ((G.egr node).foldl (sstep orN node) { P0 with G := G })

/-- `removeUselessTDCoded` with the two loop bodies as parameters -/
def removeUselessX (tstep : Nat → Build → List Nat → Build) (sstep : List (Nat × Nat) → Nat → Mark → Nat → Mark)
    (T : TableTD) (final : List Nat) (fuel : Nat) : Option (TableTD × List Nat) :=
  match buildLoopX tstep T fuel (initBuild final) with
  | none => none
  | some B =>
    match propLoopX sstep B.orN fuel (initMark B) with
    | none => none
    | some P =>
      let R := restrictCoded T final P.useful
      match tdUnreachWL R.1 R.2 fuel with
      | none => none
      | some R' => some (R', R.2)

def showR (syms : List Nat) (R : Option (TableTD × List Nat)) : Option (List (Nat × List Nat × Nat) × List Nat) :=
  R.map (fun R => ((absRulesTD syms R.1).map (fun r => (r.sym, r.kids, r.parent)), R.2))

/-- `a → 1`, `f(1) → 3`, `g(3) → 2`, `h(1) → 2`; final state 2: the tuple `(1)` is shared by the states 3 and 2 -/
def rs1 : List Rule := [⟨0, [], 1⟩, ⟨1, [1], 3⟩, ⟨2, [3], 2⟩, ⟨3, [1], 2⟩]
def T1 : TableTD := ofRulesTD rs1
def syms : List Nat := [0, 1, 2, 3]
/-- `g(f(a))` -/
def t1 : Tree := .node 2 [.node 1 [.node 0 []]]

/-- `a → 1`, `g(4,1) → 2`, `h(2) → 4`; final state 2: nothing is accepted, 2 and 4 are unproductive -/
def rs2 : List Rule := [⟨0, [], 1⟩, ⟨2, [4, 1], 2⟩, ⟨3, [2], 4⟩]
def T2 : TableTD := ofRulesTD rs2

/-- the model as coded keeps all four rules and accepts `g(f(a))` -/
theorem coded_ok : showR syms (removeUselessTDCoded T1 [2] 10 10) =
      some ([(1, [1], 3), (0, [], 1), (2, [3], 2), (3, [1], 2)], [2]) ∧
    (removeUselessTDCoded T1 [2] 10 10).map (fun R => accepts (absTD syms R.1 R.2) t1) = some true ∧
    showR syms (removeUselessX tupleStep satisfyStep T1 [2] 10) = showR syms (removeUselessTDCoded T1 [2] 10 10) :=
  ⟨by decide +kernel, by decide +kernel, by decide +kernel⟩

/-- slip 1 loses the rules of the state 3 and with them the tree `g(f(a))` -/
theorem slip1_changes_language :
    showR syms (removeUselessX tupleStepSlip satisfyStep T1 [2] 10) = some ([(0, [], 1), (3, [1], 2)], [2]) ∧
    (removeUselessX tupleStepSlip satisfyStep T1 [2] 10).map (fun R => accepts (absTD syms R.1 R.2) t1) = some false ∧
    accepts (absTD syms T1 [2]) t1 = true := by decide +kernel

/-- slip 2 keeps the unproductive states 2 and 4 (the code returns the empty automaton) -/
theorem slip2_leaves_useless_state :
    showR syms (removeUselessTDCoded T2 [2] 10 10) = some (([] : List (Nat × List Nat × Nat)), ([] : List Nat)) ∧
    showR syms (removeUselessX tupleStep satisfyStepSlip T2 [2] 10) = some ([(2, [4, 1], 2), (3, [2], 4), (0, [], 1)], [2]) ∧
    (removeUselessX tupleStep satisfyStepSlip T2 [2] 10).map (fun R => allUsefulB (absTD syms R.1 R.2)) = some false :=
  ⟨by decide +kernel, by decide +kernel, by decide +kernel⟩

end Ex
end BddTrimCoded
end Vata
