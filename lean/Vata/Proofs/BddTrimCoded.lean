import Vata.BddTrimCoded
import Vata.Proofs.BddAbsTD
/-!
# The propagation of the top-down `RemoveUselessStates` as coded computes `usefulTD` (property C08)

`Spec T F B`: what the propagation needs to know about the graph and the dictionaries built by the first phase
(established in `Vata/Proofs/BddTrimCodedBuild.lean`).  `PInv`: the invariant of the `while (!nodeStack.empty())` loop.
Result: `propLoop_correct` – when the loop ends, `usefulStates` is (as a set) `usefulTD T F`, the productive states of the
top-down reachable part of the leaf-visit skeleton.
-/
namespace Vata
namespace BddTrimCoded
open M BddAbs BddAbsTD

/-! ### dictionaries -/

theorem findFwd_of_mem {β : Type} {d : List (Nat × β)} (hf : ∀ n s s', (n, s) ∈ d → (n, s') ∈ d → s = s') {n : Nat} {s : β}
    (h : (n, s) ∈ d) : findFwd d n = some s := by
  unfold findFwd
  cases hfd : d.find? (fun e => e.1 == n) with
  | none =>
    rw [List.find?_eq_none] at hfd
    have := hfd _ h
    simp at this
  | some e =>
    have hm := List.mem_of_find?_eq_some hfd
    have he := List.find?_some hfd
    simp only [beq_iff_eq] at he
    obtain ⟨e1, e2⟩ := e
    simp only at he
    subst he
    simp only [Option.map_some]
    rw [hf _ _ _ hm h]

theorem findBwd_some {β : Type} [BEq β] [LawfulBEq β] {d : List (Nat × β)} {v : β} {n : Nat} (h : findBwd d v = some n) :
    (n, v) ∈ d := by
  unfold findBwd at h
  cases hfd : d.find? (fun e => e.2 == v) with
  | none => rw [hfd] at h; simp at h
  | some e =>
    rw [hfd] at h
    have hm := List.mem_of_find?_eq_some hfd
    have he := List.find?_some hfd
    simp only [beq_iff_eq] at he
    obtain ⟨e1, e2⟩ := e
    simp only [Option.map_some, Option.some.injEq] at h he
    subst h; subst he
    exact hm

theorem findBwd_none {β : Type} [BEq β] [LawfulBEq β] {d : List (Nat × β)} {v : β} (h : findBwd d v = none) (n : Nat) :
    (n, v) ∉ d := by
  unfold findBwd at h
  intro hm
  cases hfd : d.find? (fun e => e.2 == v) with
  | none =>
    rw [List.find?_eq_none] at hfd
    have := hfd _ hm
    simp at this
  | some e => rw [hfd] at h; simp at h

/-! ### what the propagation needs from the construction -/

/-- the graph, the dictionaries and the terminal nodes after the construction -/
structure Spec (T : TableTD) (F : List Nat) (B : Build) : Prop where
  orFun : ∀ n s s', (n, s) ∈ B.orN → (n, s') ∈ B.orN → s = s'
  orInj : ∀ n n' s, (n, s) ∈ B.orN → (n', s) ∈ B.orN → n = n'
  disj : ∀ n s t, (n, s) ∈ B.orN → (n, t) ∉ B.andN
  orEgr : ∀ n s a, (n, s) ∈ B.orN → a ∈ B.G.egr n → ∃ t, (a, t) ∈ B.andN
  orIng : ∀ n s a, (n, s) ∈ B.orN → a ∈ B.G.ing n → ∃ t, (a, t) ∈ B.andN
  sym : ∀ a t m, (a, t) ∈ B.andN → m ∈ B.G.ing a → a ∈ B.G.egr m
  andIng : ∀ a t m, (a, t) ∈ B.andN → m ∈ B.G.ing a → ∃ s, s ∈ t ∧ (m, s) ∈ B.orN
  andEgr : ∀ a t m, (a, t) ∈ B.andN → m ∈ B.G.egr a → ∃ p, (m, p) ∈ B.orN ∧ t ∈ leafTuples (getTD T p)
  andFull : ∀ a t s, (a, t) ∈ B.andN → s ∈ t → ∃ m, (m, s) ∈ B.orN ∧ m ∈ B.G.ing a
  andNe : ∀ a t, (a, t) ∈ B.andN → t ≠ []
  termOk : ∀ n, n ∈ B.term → ∃ p, (n, p) ∈ B.orN ∧ [] ∈ leafTuples (getTD T p)
  reach : ∀ n s, (n, s) ∈ B.orN → s ∈ tdReach (skelTD T F)
  done : ∀ n p t, (n, p) ∈ B.orN → t ∈ leafTuples (getTD T p) →
    (t = [] → n ∈ B.term) ∧ (t ≠ [] → ∃ a, (a, t) ∈ B.andN ∧ n ∈ B.G.egr a)
  fin : ∀ f, f ∈ F → ∃ n, (n, f) ∈ B.orN

theorem stateOf_eq {T : TableTD} {F : List Nat} {B : Build} (hS : Spec T F B) {n s : Nat} (h : (n, s) ∈ B.orN) :
    stateOf B.orN n = s := by
  unfold stateOf
  rw [findFwd_of_mem hS.orFun h]
  rfl

/-- a reachable state with a tuple of useful states is useful -/
theorem usefulTD_intro {T : TableTD} {F : List Nat} {p : Nat} {t : List Nat} (hp : p ∈ tdReach (skelTD T F))
    (ht : t ∈ leafTuples (getTD T p)) (hall : ∀ s, s ∈ t → s ∈ usefulTD T F) : p ∈ usefulTD T F := by
  unfold usefulTD at *
  exact prodStates_closed _ ⟨0, t, p⟩ (mem_removeUnreachable_rules.mpr ⟨skelTD_rule ht, hp⟩) hall

/-! ### the invariant of the propagation -/

/-- `cur`: the node popped in the current round; `ex`: the AND node whose output nodes are being marked -/
structure PInv (T : TableTD) (F : List Nat) (B : Build) (cur ex : Option Nat) (P : Mark) : Prop where
  stkU : ∀ m, m ∈ P.stk → ∃ s, (m, s) ∈ B.orN ∧ s ∈ P.useful
  sound : ∀ s, s ∈ P.useful → s ∈ usefulTD T F
  subI : ∀ x m, m ∈ P.G.ing x → m ∈ B.G.ing x
  subE : ∀ x m, m ∈ P.G.egr x → m ∈ B.G.egr x
  orE : ∀ n s, (n, s) ∈ B.orN → P.G.egr n = B.G.egr n
  erI : ∀ a t m, (a, t) ∈ B.andN → m ∈ B.G.ing a → m ∈ P.G.ing a ∨ ∃ s, (m, s) ∈ B.orN ∧ s ∈ P.useful
  erE : ∀ a t m, (a, t) ∈ B.andN → m ∈ B.G.egr a → m ∈ P.G.egr a ∨ ∃ s, (m, s) ∈ B.orN ∧ s ∈ P.useful
  sat : ∀ a t, (a, t) ∈ B.andN → some a ≠ ex → P.G.ing a = [] → ∀ m, m ∈ B.G.egr a → ∃ s, (m, s) ∈ B.orN ∧ s ∈ P.useful
  popped : ∀ m s, (m, s) ∈ B.orN → s ∈ P.useful → m ∈ P.stk ∨ some m = cur ∨ ∀ a, a ∈ B.G.egr m → m ∉ P.G.ing a

/-- the sets only shrink, `usefulStates` only grows -/
def Shr (P P' : Mark) : Prop :=
  (∀ x m, m ∈ P'.G.ing x → m ∈ P.G.ing x) ∧ (∀ s, s ∈ P.useful → s ∈ P'.useful)

theorem Shr.refl (P : Mark) : Shr P P := ⟨fun _ _ h => h, fun _ h => h⟩
theorem Shr.trans {P P' P'' : Mark} (h : Shr P P') (h' : Shr P' P'') : Shr P P'' :=
  ⟨fun x m hm => h.1 x m (h'.1 x m hm), fun s hs => h'.2 s (h.2 s hs)⟩

variable {T : TableTD} {F : List Nat} {B : Build}

/-- marking one output node of a satisfied AND node -/
theorem markStep_inv (hS : Spec T F B) {cur : Option Nat} {a : Nat} {t : List Nat} (ha : (a, t) ∈ B.andN)
    (hall : ∀ s, s ∈ t → s ∈ usefulTD T F) {P : Mark} (hI : PInv T F B cur (some a) P) {m : Nat} (hm : m ∈ B.G.egr a) :
    PInv T F B cur (some a) (markStep B.orN P m) ∧ Shr P (markStep B.orN P m) ∧
      (markStep B.orN P m).G = P.G ∧ ∃ s, (m, s) ∈ B.orN ∧ s ∈ (markStep B.orN P m).useful := by
  obtain ⟨p, hmp, htp⟩ := hS.andEgr a t m ha hm
  have hst : stateOf B.orN m = p := stateOf_eq hS hmp
  unfold markStep
  rw [hst]
  by_cases hc : P.useful.contains p = true
  · rw [if_pos hc]
    exact ⟨hI, Shr.refl _, rfl, p, hmp, List.contains_iff_mem.mp hc⟩
  · rw [if_neg hc]
    have hpn : p ∉ P.useful := fun h => hc (List.contains_iff_mem.mpr h)
    refine ⟨?_, ⟨fun _ _ h => h, fun s hs => List.mem_append_left _ hs⟩, rfl, p, hmp, by simp⟩
    constructor
    · intro m' hm'
      simp only [List.mem_cons] at hm'
      rcases hm' with rfl | hm'
      · exact ⟨p, hmp, by simp⟩
      · obtain ⟨s, h1, h2⟩ := hI.stkU m' hm'
        exact ⟨s, h1, List.mem_append_left _ h2⟩
    · intro s hs
      simp only [List.mem_append, List.mem_singleton] at hs
      rcases hs with hs | rfl
      · exact hI.sound s hs
      · exact usefulTD_intro (hS.reach m _ hmp) htp hall
    · exact hI.subI
    · exact hI.subE
    · exact hI.orE
    · intro a' t' m' h1 h2
      rcases hI.erI a' t' m' h1 h2 with h | ⟨s, h3, h4⟩
      · exact Or.inl h
      · exact Or.inr ⟨s, h3, List.mem_append_left _ h4⟩
    · intro a' t' m' h1 h2
      rcases hI.erE a' t' m' h1 h2 with h | ⟨s, h3, h4⟩
      · exact Or.inl h
      · exact Or.inr ⟨s, h3, List.mem_append_left _ h4⟩
    · intro a' t' h1 h2 h3 m' h4
      obtain ⟨s, h5, h6⟩ := hI.sat a' t' h1 h2 h3 m' h4
      exact ⟨s, h5, List.mem_append_left _ h6⟩
    · intro m' s h1 h2
      simp only [List.mem_append, List.mem_singleton] at h2
      rcases h2 with h2 | rfl
      · rcases hI.popped m' s h1 h2 with h | h | h
        · exact Or.inl (List.mem_cons_of_mem _ h)
        · exact Or.inr (Or.inl h)
        · exact Or.inr (Or.inr h)
      · rw [hS.orInj m' m s h1 hmp]
        exact Or.inl (by simp)

theorem markFold_inv (hS : Spec T F B) {cur : Option Nat} {a : Nat} {t : List Nat} (ha : (a, t) ∈ B.andN)
    (hall : ∀ s, s ∈ t → s ∈ usefulTD T F) : ∀ (l : List Nat) (P : Mark), PInv T F B cur (some a) P →
    (∀ m, m ∈ l → m ∈ B.G.egr a) →
    PInv T F B cur (some a) (l.foldl (markStep B.orN) P) ∧ Shr P (l.foldl (markStep B.orN) P) ∧
      (l.foldl (markStep B.orN) P).G = P.G ∧ ∀ m, m ∈ l → ∃ s, (m, s) ∈ B.orN ∧ s ∈ (l.foldl (markStep B.orN) P).useful
  | [], P, hI, _ => ⟨hI, Shr.refl _, rfl, fun _ h => by cases h⟩
  | m :: l, P, hI, hl => by
    obtain ⟨h1, h2, h3, h4⟩ := markStep_inv hS ha hall hI (hl m (by simp))
    obtain ⟨k1, k2, k3, k4⟩ := markFold_inv hS ha hall l _ h1 (fun m' hm' => hl m' (List.mem_cons_of_mem _ hm'))
    refine ⟨k1, h2.trans k2, k3.trans h3, ?_⟩
    intro m' hm'
    simp only [List.mem_cons] at hm'
    rcases hm' with rfl | hm'
    · obtain ⟨s, h5, h6⟩ := h4
      exact ⟨s, h5, k2.2 s h6⟩
    · exact k4 m' hm'

/-- changing the exempt AND node back -/
theorem PInv.closeEx {cur : Option Nat} {a : Nat} {P : Mark} (hI : PInv T F B cur (some a) P)
    (h : P.G.ing a = [] → ∀ m, m ∈ B.G.egr a → ∃ s, (m, s) ∈ B.orN ∧ s ∈ P.useful) : PInv T F B cur none P where
  stkU := hI.stkU
  sound := hI.sound
  subI := hI.subI
  subE := hI.subE
  orE := hI.orE
  erI := hI.erI
  erE := hI.erE
  popped := hI.popped
  sat := by
    intro a' t' h1 _ h3 m h4
    by_cases e : a' = a
    · subst e; exact h h3 m h4
    · exact hI.sat a' t' h1 (by simpa using e) h3 m h4

/-- the body of the loop over the AND nodes the popped node points to -/
theorem satisfyStep_inv (hS : Spec T F B) {node s0 : Nat} (hnode : (node, s0) ∈ B.orN) {P : Mark}
    (hI : PInv T F B (some node) none P) (hs0 : s0 ∈ P.useful) {a : Nat} (ha : a ∈ B.G.egr node) :
    PInv T F B (some node) none (satisfyStep B.orN node P a) ∧ Shr P (satisfyStep B.orN node P a) ∧
      node ∉ (satisfyStep B.orN node P a).G.ing a := by
  obtain ⟨t, hat⟩ := hS.orEgr node s0 a hnode ha
  have hI1 : PInv T F B (some node) (some a) { P with G := P.G.eraseIng a node } := by
    constructor
    · exact hI.stkU
    · exact hI.sound
    · intro x m hm
      apply hI.subI
      simp only [Graph.eraseIng] at hm
      split at hm
      · exact (List.mem_filter.mp hm).1
      · exact hm
    · exact hI.subE
    · exact hI.orE
    · intro a' t' m h1 h2
      rcases hI.erI a' t' m h1 h2 with h | h
      · by_cases e : a' = a ∧ m = node
        · obtain ⟨_, rfl⟩ := e
          exact Or.inr ⟨s0, hnode, hs0⟩
        · left
          simp only [Graph.eraseIng]
          split
          · rename_i e'
            refine List.mem_filter.mpr ⟨h, ?_⟩
            simp only [bne_iff_ne, ne_eq]
            exact fun e'' => e ⟨e', e''⟩
          · exact h
      · exact Or.inr h
    · exact hI.erE
    · intro a' t' h1 h2 h3 m h4
      have e : a' ≠ a := fun e => h2 (by rw [e])
      simp only [Graph.eraseIng, if_neg e] at h3
      exact hI.sat a' t' h1 (by simp) h3 m h4
    · intro m s h1 h2
      rcases hI.popped m s h1 h2 with h | h | h
      · exact Or.inl h
      · exact Or.inr (Or.inl h)
      · refine Or.inr (Or.inr fun a' ha' hm => h a' ha' ?_)
        simp only [Graph.eraseIng] at hm
        split at hm
        · exact (List.mem_filter.mp hm).1
        · exact hm
  have hnot : node ∉ (P.G.eraseIng a node).ing a := by
    simp [Graph.eraseIng]
  unfold satisfyStep
  dsimp only
  by_cases hem : ((P.G.eraseIng a node).ing a).isEmpty = true
  · rw [if_pos hem]
    have hnil : (P.G.eraseIng a node).ing a = [] := List.isEmpty_iff.mp hem
    have hall : ∀ s, s ∈ t → s ∈ usefulTD T F := by
      intro s hs
      obtain ⟨m, hms, hma⟩ := hS.andFull a t s hat hs
      rcases hI1.erI a t m hat hma with h | ⟨s', h1, h2⟩
      · rw [show ({ P with G := P.G.eraseIng a node } : Mark).G.ing a = [] from hnil] at h
        cases h
      · rw [hS.orFun m s s' hms h1]
        exact hI.sound s' h2
    obtain ⟨k1, k2, k3, k4⟩ := markFold_inv hS hat hall ((P.G.eraseIng a node).egr a) _ hI1
      (fun m hm => hI.subE a m hm)
    refine ⟨k1.closeEx ?_, ⟨fun x m hm => ?_, k2.2⟩, ?_⟩
    · intro _ m hm
      rcases hI1.erE a t m hat hm with h | ⟨s, h1, h2⟩
      · exact k4 m h
      · exact ⟨s, h1, k2.2 s h2⟩
    · have := k2.1 x m hm
      exact hI1.subI x m this |> fun _ => by
        simp only [Graph.eraseIng] at this
        split at this
        · exact (List.mem_filter.mp this).1
        · exact this
    · rw [k3]; exact hnot
  · rw [if_neg hem]
    refine ⟨hI1.closeEx ?_, ⟨fun x m hm => ?_, fun s hs => hs⟩, hnot⟩
    · intro h
      exfalso
      apply hem
      exact List.isEmpty_iff.mpr h
    · simp only [Graph.eraseIng] at hm
      split at hm
      · exact (List.mem_filter.mp hm).1
      · exact hm

theorem satisfyFold_inv (hS : Spec T F B) {node s0 : Nat} (hnode : (node, s0) ∈ B.orN) : ∀ (l : List Nat) (P : Mark),
    PInv T F B (some node) none P → s0 ∈ P.useful → (∀ a, a ∈ l → a ∈ B.G.egr node) →
    PInv T F B (some node) none (l.foldl (satisfyStep B.orN node) P) ∧ Shr P (l.foldl (satisfyStep B.orN node) P) ∧
      ∀ a, a ∈ l → node ∉ (l.foldl (satisfyStep B.orN node) P).G.ing a
  | [], P, hI, _, _ => ⟨hI, Shr.refl _, fun _ h => by cases h⟩
  | a :: l, P, hI, hs0, hl => by
    obtain ⟨h1, h2, h3⟩ := satisfyStep_inv hS hnode hI hs0 (hl a (by simp))
    obtain ⟨k1, k2, k3⟩ := satisfyFold_inv hS hnode l _ h1 (h2.2 _ hs0) (fun a' ha' => hl a' (List.mem_cons_of_mem _ ha'))
    refine ⟨k1, h2.trans k2, ?_⟩
    intro a' ha'
    simp only [List.mem_cons] at ha'
    rcases ha' with rfl | ha'
    · exact fun h => h3 (k2.1 _ _ h)
    · exact k3 a' ha'

/-- the first loop of a round: the popped node is erased from the egress sets of the AND nodes that point to it -/
theorem eraseFold_inv (hS : Spec T F B) {node s0 : Nat} (hnode : (node, s0) ∈ B.orN) {cur : Option Nat} (P : Mark)
    (hs0 : s0 ∈ P.useful) : ∀ (l : List Nat) (G : Graph), PInv T F B cur none { P with G := G } →
    (∀ a, a ∈ l → a ∈ B.G.ing node) →
    PInv T F B cur none { P with G := l.foldl (fun G a => G.eraseEgr a node) G }
  | [], G, hI, _ => hI
  | a :: l, G, hI, hl => by
    apply eraseFold_inv hS hnode P hs0 l _ _ (fun a' ha' => hl a' (List.mem_cons_of_mem _ ha'))
    obtain ⟨t, hat⟩ := hS.orIng node s0 a hnode (hl a (by simp))
    constructor
    · exact hI.stkU
    · exact hI.sound
    · exact hI.subI
    · intro x m hm
      apply hI.subE
      simp only [Graph.eraseEgr] at hm
      split at hm
      · exact (List.mem_filter.mp hm).1
      · exact hm
    · intro n s hns
      have e : n ≠ a := by
        rintro rfl
        exact hS.disj n s t hns hat
      have := hI.orE n s hns
      simp only [Graph.eraseEgr, if_neg e] at this ⊢
      exact this
    · exact hI.erI
    · intro a' t' m h1 h2
      rcases hI.erE a' t' m h1 h2 with h | h
      · by_cases e : a' = a ∧ m = node
        · obtain ⟨_, rfl⟩ := e
          exact Or.inr ⟨s0, hnode, hs0⟩
        · left
          simp only [Graph.eraseEgr]
          split
          · rename_i e'
            refine List.mem_filter.mpr ⟨h, ?_⟩
            simp only [bne_iff_ne, ne_eq]
            exact fun e'' => e ⟨e', e''⟩
          · exact h
      · exact Or.inr h
    · exact hI.sat
    · exact hI.popped

/-- one round of the propagation -/
theorem popStep_inv (hS : Spec T F B) {node s0 : Nat} (hnode : (node, s0) ∈ B.orN) {P : Mark}
    (hI : PInv T F B (some node) none P) (hs0 : s0 ∈ P.useful) :
    PInv T F B none none (popStep B.orN node P) ∧ Shr P (popStep B.orN node P) := by
  unfold popStep
  have h1 := eraseFold_inv hS hnode P hs0 (P.G.ing node) P.G hI (fun a ha => hI.subI node a ha)
  have he : ((P.G.ing node).foldl (fun G a => G.eraseEgr a node) P.G).egr node = B.G.egr node := h1.orE node s0 hnode
  have hing : ∀ (l : List Nat) (G : Graph), (l.foldl (fun G a => G.eraseEgr a node) G).ing = G.ing := by
    intro l
    induction l with
    | nil => intro G; rfl
    | cons a l ih => intro G; rw [List.foldl_cons, ih]; rfl
  have hl : ∀ a, a ∈ ((P.G.ing node).foldl (fun G a => G.eraseEgr a node) P.G).egr node → a ∈ B.G.egr node :=
    fun a ha => he ▸ ha
  obtain ⟨k1, k2, k3⟩ := satisfyFold_inv hS hnode _ _ h1 hs0 hl
  dsimp only at k1 k2 k3 ⊢
  refine ⟨?_, ⟨fun x m hm => ?_, k2.2⟩⟩
  · constructor
    · exact k1.stkU
    · exact k1.sound
    · exact k1.subI
    · exact k1.subE
    · exact k1.orE
    · exact k1.erI
    · exact k1.erE
    · exact k1.sat
    · intro m s h2 h3
      rcases k1.popped m s h2 h3 with h | h | h
      · exact Or.inl h
      · simp only [Option.some.injEq] at h
        subst h
        refine Or.inr (Or.inr fun a ha => k3 a ?_)
        rw [he]; exact ha
      · exact Or.inr (Or.inr h)
  · have := k2.1 x m hm
    simp only [hing] at this
    exact this

/-- the `while (!nodeStack.empty())` loop keeps the invariant -/
theorem propLoop_inv (hS : Spec T F B) : ∀ (fuel : Nat) (P P' : Mark), PInv T F B none none P →
    propLoop B.orN fuel P = some P' → PInv T F B none none P' ∧ P'.stk = [] ∧ Shr P P' := by
  intro fuel
  induction fuel with
  | zero =>
    intro P P' hI h
    unfold propLoop at h
    split at h
    · rename_i hs
      simp only [Option.some.injEq] at h; subst h
      exact ⟨hI, hs, Shr.refl _⟩
    · simp at h
  | succ fuel ih =>
    intro P P' hI h
    unfold propLoop at h
    split at h
    · rename_i hs
      simp only [Option.some.injEq] at h; subst h
      exact ⟨hI, hs, Shr.refl _⟩
    · rename_i node stk hs
      simp only at h
      obtain ⟨s0, hnode, hs0⟩ := hI.stkU node (by rw [hs]; simp)
      have hI' : PInv T F B (some node) none { P with stk := stk } := by
        constructor
        · intro m hm; exact hI.stkU m (by rw [hs]; exact List.mem_cons_of_mem _ hm)
        · exact hI.sound
        · exact hI.subI
        · exact hI.subE
        · exact hI.orE
        · exact hI.erI
        · exact hI.erE
        · exact hI.sat
        · intro m s h1 h2
          rcases hI.popped m s h1 h2 with h | h | h
          · rw [hs] at h
            simp only [List.mem_cons] at h
            rcases h with rfl | h
            · exact Or.inr (Or.inl rfl)
            · exact Or.inl h
          · simp at h
          · exact Or.inr (Or.inr h)
      obtain ⟨k1, k2⟩ := popStep_inv hS hnode hI' hs0
      obtain ⟨j1, j2, j3⟩ := ih _ _ k1 h
      exact ⟨j1, j2, Shr.trans (P' := { P with stk := stk }) ⟨fun _ _ h => h, fun _ h => h⟩ (k2.trans j3)⟩

/-- the terminal nodes are pushed and their states are useful -/
theorem initFold_inv (hS : Spec T F B) : ∀ (l : List Nat) (P : Mark), PInv T F B none none P → P.G = B.G →
    (∀ n, n ∈ l → n ∈ B.term) →
    let P' := l.foldl (fun P n => { P with stk := n :: P.stk, useful := ins (stateOf B.orN n) P.useful }) P
    PInv T F B none none P' ∧ Shr P P' ∧ ∀ n, n ∈ l → ∃ s, (n, s) ∈ B.orN ∧ s ∈ P'.useful
  | [], P, hI, _, _ => ⟨hI, Shr.refl _, fun _ h => by cases h⟩
  | n :: l, P, hI, hG, hl => by
    obtain ⟨p, hnp, hnil⟩ := hS.termOk n (hl n (by simp))
    have hst : stateOf B.orN n = p := stateOf_eq hS hnp
    have hI1 : PInv T F B none none { P with stk := n :: P.stk, useful := ins (stateOf B.orN n) P.useful } := by
      rw [hst]
      constructor
      · intro m hm
        simp only [List.mem_cons] at hm
        rcases hm with rfl | hm
        · exact ⟨p, hnp, mem_ins.mpr (Or.inr rfl)⟩
        · obtain ⟨s, h1, h2⟩ := hI.stkU m hm
          exact ⟨s, h1, mem_ins.mpr (Or.inl h2)⟩
      · intro s hs
        rcases mem_ins.mp hs with hs | rfl
        · exact hI.sound s hs
        · exact usefulTD_intro (hS.reach n _ hnp) hnil (fun _ h => by cases h)
      · exact hI.subI
      · exact hI.subE
      · exact hI.orE
      · intro a t m h1 h2
        left; show m ∈ P.G.ing a; rw [hG]; exact h2
      · intro a t m h1 h2
        left; show m ∈ P.G.egr a; rw [hG]; exact h2
      · intro a t h1 _ h3 m _
        exfalso
        have h3' : B.G.ing a = [] := by rw [← hG]; exact h3
        cases t with
        | nil => exact hS.andNe a [] h1 rfl
        | cons s t =>
          obtain ⟨m', _, h5⟩ := hS.andFull a (s :: t) s h1 (by simp)
          rw [h3'] at h5; cases h5
      · intro m s h1 h2
        rcases mem_ins.mp h2 with h2 | rfl
        · rcases hI.popped m s h1 h2 with h | h | h
          · exact Or.inl (List.mem_cons_of_mem _ h)
          · exact Or.inr (Or.inl h)
          · exact Or.inr (Or.inr h)
        · rw [hS.orInj m n s h1 hnp]; exact Or.inl (by simp)
    obtain ⟨k1, k2, k3⟩ := initFold_inv hS l _ hI1 hG (fun n' hn' => hl n' (List.mem_cons_of_mem _ hn'))
    have hsh : Shr P { P with stk := n :: P.stk, useful := ins (stateOf B.orN n) P.useful } :=
      ⟨fun _ _ h => h, fun s hs => mem_ins.mpr (Or.inl hs)⟩
    refine ⟨k1, hsh.trans k2, ?_⟩
    intro n' hn'
    simp only [List.mem_cons] at hn'
    rcases hn' with rfl | hn'
    · exact ⟨p, hnp, k2.2 p (by rw [hst]; exact mem_ins.mpr (Or.inr rfl))⟩
    · exact k3 n' hn'

/-- every state reached from the final states has an OR node -/
theorem spec_reach_complete (hS : Spec T F B) {q : Nat} (hq : q ∈ tdReach (skelTD T F)) : ∃ n, (n, q) ∈ B.orN := by
  have : q ∈ B.orN.map (·.2) := by
    apply tdReachable_sub_closed (A := skelTD T F) _ _ q ((tdReach_iff _ _).mp hq)
    · intro f hf
      obtain ⟨n, hn⟩ := hS.fin f hf
      exact List.mem_map.mpr ⟨(n, f), hn, rfl⟩
    · intro r hr hp k hk
      obtain ⟨⟨n, p⟩, hnp, e⟩ := List.mem_map.mp hp
      simp only at e; subst e
      have ht := skelTD_rule_inv hr
      have hne : r.kids ≠ [] := by intro e; rw [e] at hk; cases hk
      obtain ⟨a, hat, _⟩ := (hS.done n _ _ hnp ht).2 hne
      obtain ⟨m, hm, _⟩ := hS.andFull a _ k hat hk
      exact List.mem_map.mpr ⟨(m, k), hm, rfl⟩
  obtain ⟨⟨n, p⟩, hnp, e⟩ := List.mem_map.mp this
  simp only at e; subst e
  exact ⟨n, hnp⟩

/-- **the propagation as coded computes `usefulTD`**: for a graph that meets `Spec`, every result of the loop is, as a
set, the set of productive states of the top-down reachable part of the skeleton -/
theorem propLoop_correct (hS : Spec T F B) {fuel : Nat} {P : Mark} (h : propLoop B.orN fuel (initMark B) = some P) (q : Nat) :
    q ∈ P.useful ↔ q ∈ usefulTD T F := by
  have h0 : PInv T F B none none ⟨B.G, [], []⟩ := by
    constructor
    · intro m hm; cases hm
    · intro s hs; cases hs
    · exact fun _ _ h => h
    · exact fun _ _ h => h
    · exact fun _ _ _ => rfl
    · exact fun _ _ _ _ h => Or.inl h
    · exact fun _ _ _ _ h => Or.inl h
    · intro a t h1 _ h3 m _
      exfalso
      cases t with
      | nil => exact hS.andNe a [] h1 rfl
      | cons s t =>
        obtain ⟨m', _, h5⟩ := hS.andFull a (s :: t) s h1 (by simp)
        rw [show B.G.ing a = [] from h3] at h5; cases h5
    · intro m s _ h2; cases h2
  obtain ⟨i1, i2, i3⟩ := initFold_inv hS B.term _ h0 rfl (fun _ h => h)
  obtain ⟨j1, j2, j3⟩ := propLoop_inv hS fuel _ _ i1 h
  constructor
  · exact j1.sound q
  · intro hq
    unfold usefulTD at hq
    obtain ⟨t, ht⟩ := (prodStates_iff _ _).mp hq
    refine reach_sub_closed _ P.useful ?_ t q ht
    intro r hr hk
    obtain ⟨hr1, hr2⟩ := mem_removeUnreachable_rules.mp hr
    obtain ⟨n, hnp⟩ := spec_reach_complete hS hr2
    have hd := hS.done n _ _ hnp (skelTD_rule_inv hr1)
    by_cases hne : r.kids = []
    · obtain ⟨s, h1, h2⟩ := i3 n (hd.1 hne)
      rw [hS.orFun n _ s hnp h1]
      exact j3.2 s h2
    · obtain ⟨a, hat, hna⟩ := hd.2 hne
      have hnil : P.G.ing a = [] := by
        apply List.eq_nil_iff_forall_not_mem.mpr
        intro m hm
        have hm0 := j1.subI a m hm
        obtain ⟨s, hs, hms⟩ := hS.andIng a _ m hat hm0
        rcases j1.popped m s hms (hk s hs) with h' | h' | h'
        · rw [j2] at h'; cases h'
        · cases h'
        · exact h' a (hS.sym a _ m hat hm0) hm
      obtain ⟨s, h1, h2⟩ := j1.sat a _ hat (by simp) hnil n hna
      rw [hS.orFun n _ s hnp h1]
      exact h2

end BddTrimCoded
end Vata
