import Vata.Proofs.NfaOpsCodedTrim
/-!
# `GetCandidateTree` as coded: for every scan order the automaton handed to `RemoveUselessStates` is a sub-automaton of the
input that accepts a word whenever the input does; the search ends within `candFuel` turns
-/
namespace Vata.NfaC
open Vata.W

/-- the cluster of `act` as a list of transitions -/
abbrev candCl (N : NFA) (act : Nat) : List (Nat × Nat × Nat) := N.trans.filter (fun e => e.1 == act)

theorem mem_candCl {N : NFA} {act : Nat} {e : Nat × Nat × Nat} : e ∈ candCl N act ↔ e ∈ N.trans ∧ e.1 = act := by
  simp only [candCl, List.mem_filter, beq_iff_eq]

/-! ### `candSee` -/

theorem candSee_res (st : CandSt) (x : Nat) : (candSee st x).res = st.res := by
  unfold candSee; split <;> rfl

theorem mem_candSee_seen {st : CandSt} {x q : Nat} : q ∈ (candSee st x).seen ↔ q ∈ st.seen ∨ q = x := by
  unfold candSee
  split
  · rename_i h
    have := List.contains_iff_mem.mp h
    exact ⟨Or.inl, fun h' => h'.elim id (fun e => e ▸ this)⟩
  · simp

theorem mem_candSee_queue {st : CandSt} {x q : Nat} :
    q ∈ (candSee st x).queue ↔ q ∈ st.queue ∨ (q = x ∧ x ∉ st.seen) := by
  unfold candSee
  split
  · rename_i h
    have := List.contains_iff_mem.mp h
    exact ⟨Or.inl, fun h' => h'.elim id (fun e => absurd this e.2)⟩
  · rename_i h
    have hx : x ∉ st.seen := fun h' => h (List.contains_iff_mem.mpr h')
    simp only [List.mem_append, List.mem_singleton]
    exact ⟨fun h' => h'.elim Or.inl (fun e => Or.inr ⟨e, hx⟩), fun h' => h'.elim Or.inl (fun e => Or.inr e.1)⟩

theorem candSee_meas (N : NFA) (st : CandSt) (x : Nat) (hx : ∃ p a, (p, a, x) ∈ N.trans) :
    (candSee st x).queue.length + nfaOut N (candSee st x).seen ≤ st.queue.length + nfaOut N st.seen := by
  unfold candSee
  split
  · exact Nat.le_refl _
  · rename_i h
    have hx' : x ∉ st.seen := fun h' => h (List.contains_iff_mem.mpr h')
    obtain ⟨p, a, he⟩ := hx
    have : nfaOut N (st.seen ++ [x]) < nfaOut N st.seen := by
      unfold nfaOut
      apply length_filter_lt_of_imp _ _ _ (p, a, x) _ _ _ he
      · intro e he'
        rw [not_contains_iff] at he' ⊢
        exact fun h' => he' (List.mem_append_left _ h')
      · exact not_contains_iff.mpr hx'
      · rw [not_contains_iff]
        exact fun hn => hn (List.mem_append_right _ (List.mem_singleton.mpr rfl))
    simp only [List.length_append, List.length_cons, List.length_nil]
    omega

theorem candSee_queue_length (st : CandSt) (x : Nat) : (candSee st x).queue.length ≤ st.queue.length + 1 := by
  unfold candSee
  split
  · omega
  · simp

/-! ### `candInsCluster` -/

/-- `res` holds whole clusters only -/
def CandWhole (N : NFA) (T : List (Nat × Nat × Nat)) : Prop :=
  ∀ e, e ∈ T → ∀ e', e' ∈ N.trans → e'.1 = e.1 → e' ∈ T

theorem candInsCluster_same (A : NFAS) (act : Nat) (res : NFAS) :
    (candInsCluster A act res).start = res.start ∧ (candInsCluster A act res).final = res.final ∧
    (candInsCluster A act res).startSyms = res.startSyms := by
  unfold candInsCluster; split <;> exact ⟨rfl, rfl, rfl⟩

theorem candInsCluster_trans (A : NFAS) (act : Nat) (res : NFAS) (_hT : ∀ e, e ∈ res.trans → e ∈ A.trans)
    (hw : CandWhole A.toNFA res.trans) :
    (∀ e, e ∈ (candInsCluster A act res).trans ↔ e ∈ res.trans ∨ e ∈ candCl A.toNFA act) ∧
    CandWhole A.toNFA (candInsCluster A act res).trans := by
  unfold candInsCluster
  split
  · rename_i h
    rw [List.any_eq_true] at h
    obtain ⟨e0, he0, h0⟩ := h
    simp only [beq_iff_eq] at h0
    refine ⟨fun e => ⟨Or.inl, fun h' => h'.elim id (fun h'' => ?_)⟩, hw⟩
    obtain ⟨h1, h2⟩ := mem_candCl.mp h''
    exact hw e0 he0 e h1 (h2.trans h0.symm)
  · refine ⟨fun e => List.mem_append, ?_⟩
    intro e he e' he' h1
    rcases List.mem_append.mp he with h | h
    · exact List.mem_append_left _ (hw e h e' he' h1)
    · exact List.mem_append_right _ (mem_candCl.mpr ⟨he', h1.trans (mem_candCl.mp h).2⟩)

/-! ### the invariants -/

/-- between two turns of the `while` loop -/
structure CandL (A : NFAS) (st : CandSt) : Prop where
  inv : CandInv A.toNFA st.queue st.seen st.res.trans
  whole : CandWhole A.toNFA st.res.trans
  hstart : ∀ s, s ∈ st.res.start ↔ s ∈ A.start
  hfin : st.res.final = []

/-- inside a turn: `act` is being expanded, the targets `xs` are still to come -/
structure CandMid (A : NFAS) (act : Nat) (xs : List Nat) (st : CandSt) : Prop where
  hT : ∀ e, e ∈ st.res.trans → e ∈ A.trans
  whole : CandWhole A.toNFA st.res.trans
  hq : ∀ q, q ∈ st.queue → q ∈ st.seen
  hnf : ∀ q, q ∈ st.seen → q ∉ A.final
  hreach : ∀ q, q ∈ st.seen → ∃ s, s ∈ A.start ∧ ∃ w, Path ⟨[], [], st.res.trans ++ candCl A.toNFA act⟩ s w q
  hst : ∀ s, s ∈ A.start → s ∈ st.seen
  hexp : ∀ p, p ∈ st.seen → p ∈ st.queue ∨ (p = act ∧ ∀ a q, (act, a, q) ∈ A.trans → q ∈ st.seen ∨ q ∈ xs) ∨
    ∀ a q, (p, a, q) ∈ A.trans → q ∈ st.seen
  hact : act ∈ st.seen
  hxs : ∀ x, x ∈ xs → ∃ a, (act, a, x) ∈ A.trans
  hin : xs = [] → ∀ e, e ∈ candCl A.toNFA act → e ∈ st.res.trans
  hstart : ∀ s, s ∈ st.res.start ↔ s ∈ A.start
  hfin : st.res.final = []

/-- what the search returns: a sub-automaton that accepts a word -/
def CandGood (A : NFAS) (r : NFAS) : Prop := NfaSub r.toNFA A.toNFA ∧ ∃ w, acceptsW r.toNFA w = true

theorem candMid_of_L {o : NfaOrd} (ho : o.Ok) {A : NFAS} {st : CandSt} {act : Nat} {rest : List Nat}
    (hq : st.queue = act :: rest) (h : CandL A st) :
    CandMid A act (nfaClusterTargets o A.toNFA act) ⟨st.seen, rest, st.res⟩ := by
  have hact : act ∈ st.seen := h.inv.hq act (by rw [hq]; exact List.mem_cons_self)
  refine ⟨h.inv.hT, h.whole, fun q hq' => h.inv.hq q (by rw [hq]; exact List.mem_cons_of_mem _ hq'), h.inv.hnf, ?_,
    h.inv.hst, ?_, hact, fun x hx => (mem_nfaClusterTargets ho).mp hx, ?_, h.hstart, h.hfin⟩
  · intro q hq'
    obtain ⟨s, hs, w, hp⟩ := h.inv.hreach q hq'
    exact ⟨s, hs, w, hp.mono (fun e he => List.mem_append_left _ he)⟩
  · intro p hp
    rcases h.inv.hexp p hp with h' | h'
    · rw [hq] at h'
      rcases List.mem_cons.mp h' with h'' | h''
      · exact Or.inr (Or.inl ⟨h'', fun a q he => Or.inr ((mem_nfaClusterTargets ho).mpr ⟨a, he⟩)⟩)
      · exact Or.inl h''
    · exact Or.inr (Or.inr h')
  · intro hnil e he
    obtain ⟨h1, h2⟩ := mem_candCl.mp he
    have : e.2.2 ∈ nfaClusterTargets o A.toNFA act := (mem_nfaClusterTargets ho).mpr ⟨e.2.1, by rw [← h2]; exact h1⟩
    rw [hnil] at this
    exact nomatch this

theorem candL_of_mid {A : NFAS} {st : CandSt} {act : Nat} (h : CandMid A act [] st) : CandL A st := by
  have hcl := h.hin rfl
  refine ⟨⟨h.hT, h.hq, h.hnf, ?_, h.hst, ?_⟩, h.whole, h.hstart, h.hfin⟩
  · intro q hq
    obtain ⟨s, hs, w, hp⟩ := h.hreach q hq
    exact ⟨s, hs, w, hp.mono (M := ⟨[], [], st.res.trans⟩) (fun e he => (List.mem_append.mp he).elim id (hcl e))⟩
  · intro p hp
    rcases h.hexp p hp with h' | ⟨rfl, h'⟩ | h'
    · exact Or.inl h'
    · exact Or.inr (fun a q he => (h' a q he).elim id (fun h'' => nomatch h''))
    · exact Or.inr h'

/-- the inner loops: either a good automaton is returned, or the turn ends with the loop invariant -/
theorem candInner_spec (A : NFAS) (act : Nat) : ∀ (xs : List Nat) (st : CandSt), CandMid A act xs st →
    match candInner A act xs st with
    | .inl r => CandGood A r
    | .inr st' => CandL A st'
  | [], st, h => candL_of_mid h
  | x :: xs, st, h => by
    obtain ⟨a, hax⟩ := h.hxs x List.mem_cons_self
    have hxcl : (act, a, x) ∈ candCl A.toNFA act := mem_candCl.mpr ⟨hax, rfl⟩
    simp only [candInner]
    by_cases hf : A.final.contains x = true
    · -- the target is final: early return
      rw [if_pos hf]
      have hxf : x ∈ A.final := List.contains_iff_mem.mp hf
      show CandGood A _
      have hT1 : ∀ e, e ∈ (nfasSetFinal (candSee st x).res x).trans → e ∈ A.trans := by
        intro e he; rw [candSee_res] at he; exact h.hT e he
      have hw1 : CandWhole A.toNFA (nfasSetFinal (candSee st x).res x).trans := by
        rw [candSee_res]; exact h.whole
      obtain ⟨ht, _⟩ := candInsCluster_trans A act _ hT1 hw1
      obtain ⟨hs, hfn, _⟩ := candInsCluster_same A act (nfasSetFinal (candSee st x).res x)
      have hfinal : (candInsCluster A act (nfasSetFinal (candSee st x).res x)).final = [x] := by
        rw [hfn, candSee_res]; simp [nfasSetFinal, h.hfin, insN]
      have hstart : ∀ s, s ∈ (candInsCluster A act (nfasSetFinal (candSee st x).res x)).start ↔ s ∈ A.start := by
        intro s; rw [hs, candSee_res]; exact h.hstart s
      have htr : ∀ e, e ∈ (candInsCluster A act (nfasSetFinal (candSee st x).res x)).trans ↔
          e ∈ st.res.trans ∨ e ∈ candCl A.toNFA act := by
        intro e; rw [ht, candSee_res]; rfl
      refine ⟨⟨fun s hs' => (hstart s).mp hs', ?_, ?_⟩, ?_⟩
      · intro q hq
        rw [show (candInsCluster A act (nfasSetFinal (candSee st x).res x)).toNFA.final = [x] from hfinal,
          List.mem_singleton] at hq
        rw [hq]; exact hxf
      · intro e he
        rcases (htr e).mp he with h' | h'
        · exact h.hT e h'
        · exact (mem_candCl.mp h').1
      · obtain ⟨s, hs', w, hp⟩ := h.hreach act h.hact
        refine ⟨w ++ [a], (acceptsW_iff _ _).mpr ⟨s, (hstart s).mpr hs', x, ?_, ?_⟩⟩
        · rw [show (candInsCluster A act (nfasSetFinal (candSee st x).res x)).toNFA.final = [x] from hfinal]
          exact List.mem_singleton.mpr rfl
        · apply Path.snoc (hp.mono (fun e he => (htr e).mpr (List.mem_append.mp he)))
          exact (htr _).mpr (Or.inr hxcl)
    · -- not final: go on
      rw [if_neg hf]
      have hxf : x ∉ A.final := fun h' => hf (List.contains_iff_mem.mpr h')
      have hT1 : ∀ e, e ∈ (candSee st x).res.trans → e ∈ A.trans := by
        intro e he; rw [candSee_res] at he; exact h.hT e he
      have hw1 : CandWhole A.toNFA (candSee st x).res.trans := by rw [candSee_res]; exact h.whole
      obtain ⟨ht, hw2⟩ := candInsCluster_trans A act _ hT1 hw1
      obtain ⟨hs, hfn, _⟩ := candInsCluster_same A act (candSee st x).res
      have htr : ∀ e, e ∈ (candInsCluster A act (candSee st x).res).trans ↔
          e ∈ st.res.trans ∨ e ∈ candCl A.toNFA act := by
        intro e; rw [ht, candSee_res]
      apply candInner_spec A act xs
      refine ⟨?_, hw2, ?_, ?_, ?_, ?_, ?_, ?_, ?_, ?_, ?_, ?_⟩
      · intro e he
        rcases (htr e).mp he with h' | h'
        · exact h.hT e h'
        · exact (mem_candCl.mp h').1
      · intro q hq
        rcases mem_candSee_queue.mp hq with h' | ⟨h', _⟩
        · exact mem_candSee_seen.mpr (Or.inl (h.hq q h'))
        · exact mem_candSee_seen.mpr (Or.inr h')
      · intro q hq
        rcases mem_candSee_seen.mp hq with h' | h'
        · exact h.hnf q h'
        · rw [h']; exact hxf
      · intro q hq
        have hmono : ∀ e, e ∈ st.res.trans ++ candCl A.toNFA act →
            e ∈ (candInsCluster A act (candSee st x).res).trans ++ candCl A.toNFA act :=
          fun e he => List.mem_append_left _ ((htr e).mpr (List.mem_append.mp he))
        rcases mem_candSee_seen.mp hq with h' | h'
        · obtain ⟨s, hs', w, hp⟩ := h.hreach q h'
          exact ⟨s, hs', w, hp.mono hmono⟩
        · obtain ⟨s, hs', w, hp⟩ := h.hreach act h.hact
          rw [h']
          exact ⟨s, hs', w ++ [a], Path.snoc (hp.mono hmono) (List.mem_append_right _ hxcl)⟩
      · intro s hs'; exact mem_candSee_seen.mpr (Or.inl (h.hst s hs'))
      · intro p hp
        rcases mem_candSee_seen.mp hp with h' | h'
        · rcases h.hexp p h' with h'' | ⟨h1, h2⟩ | h''
          · exact Or.inl (mem_candSee_queue.mpr (Or.inl h''))
          · refine Or.inr (Or.inl ⟨h1, fun b q he => ?_⟩)
            rcases h2 b q he with h3 | h3
            · exact Or.inl (mem_candSee_seen.mpr (Or.inl h3))
            · rcases List.mem_cons.mp h3 with h4 | h4
              · exact Or.inl (mem_candSee_seen.mpr (Or.inr h4))
              · exact Or.inr h4
          · exact Or.inr (Or.inr (fun b q he => mem_candSee_seen.mpr (Or.inl (h'' b q he))))
        · by_cases hxs : x ∈ st.seen
          · rw [h']
            rcases h.hexp x hxs with h'' | ⟨h1, h2⟩ | h''
            · exact Or.inl (mem_candSee_queue.mpr (Or.inl h''))
            · refine Or.inr (Or.inl ⟨h1, fun b q he => ?_⟩)
              rcases h2 b q he with h3 | h3
              · exact Or.inl (mem_candSee_seen.mpr (Or.inl h3))
              · rcases List.mem_cons.mp h3 with h4 | h4
                · exact Or.inl (mem_candSee_seen.mpr (Or.inr h4))
                · exact Or.inr h4
            · exact Or.inr (Or.inr (fun b q he => mem_candSee_seen.mpr (Or.inl (h'' b q he))))
          · exact Or.inl (mem_candSee_queue.mpr (Or.inr ⟨h', hxs⟩))
      · exact mem_candSee_seen.mpr (Or.inl h.hact)
      · intro y hy; exact h.hxs y (List.mem_cons_of_mem _ hy)
      · intro _ e he; exact (htr e).mpr (Or.inr he)
      · intro s; rw [hs, candSee_res]; exact h.hstart s
      · rw [hfn, candSee_res]; exact h.hfin

theorem candInner_meas (A : NFAS) (act : Nat) : ∀ (xs : List Nat) (st st' : CandSt),
    (∀ x, x ∈ xs → ∃ p a, (p, a, x) ∈ A.trans) → candInner A act xs st = .inr st' →
      st'.queue.length + nfaOut A.toNFA st'.seen ≤ st.queue.length + nfaOut A.toNFA st.seen
  | [], st, st', _, h => by simp only [candInner] at h; cases h; exact Nat.le_refl _
  | x :: xs, st, st', hx, h => by
    simp only [candInner] at h
    split at h
    · cases h
    · have := candInner_meas A act xs _ st' (fun y hy => hx y (List.mem_cons_of_mem _ hy)) h
      have h2 := candSee_meas A.toNFA st x (hx x List.mem_cons_self)
      simp only at this
      omega

/-- partial correctness of the search loop: a returned automaton is a sub-automaton of the input, non-empty when the input
is -/
theorem candLoop_spec {o : NfaOrd} (ho : o.Ok) (A : NFAS) : ∀ (fuel : Nat) (st : CandSt) (r : NFAS), CandL A st →
    candLoop o A fuel st = some r →
      NfaSub r.toNFA A.toNFA ∧ ((∃ w, acceptsW A.toNFA w = true) → ∃ w, acceptsW r.toNFA w = true)
  | 0, _, _, _, h => by simp [candLoop] at h
  | n + 1, st, r, inv, h => by
    simp only [candLoop] at h
    split at h
    · rename_i hq
      cases h
      refine ⟨⟨fun s hs => (inv.hstart s).mp hs, ?_, inv.inv.hT⟩, ?_⟩
      · intro q hq'
        rw [show st.res.toNFA.final = [] from inv.hfin] at hq'
        exact nomatch hq'
      · rintro ⟨w, hw⟩
        exfalso
        obtain ⟨s, hs, q, hqf, hp⟩ := (acceptsW_iff _ w).mp hw
        have hstep : ∀ p a q, (p, a, q) ∈ A.trans → p ∈ st.seen → (p, a, q) ∈ A.trans ∧ q ∈ st.seen := by
          intro p a q he hps
          rcases inv.inv.hexp p hps with h' | h'
          · rw [hq] at h'; exact nomatch h'
          · exact ⟨he, h' a q he⟩
        exact inv.inv.hnf q (Path.restrict (U := A.toNFA) (A := A.toNFA) (fun x => x ∈ st.seen) hstep hp
          (inv.inv.hst s hs)).2 hqf
    · rename_i act rest hq
      split at h
      · rename_i he
        refine candLoop_spec ho A n _ r ?_ h
        have hno := nfaClusterOf_isEmpty ho he
        have hmid := candMid_of_L ho hq inv
        have hnil : nfaClusterTargets o A.toNFA act = [] := by
          rw [List.isEmpty_iff] at he
          simp [nfaClusterTargets, he]
        rw [hnil] at hmid
        exact candL_of_mid hmid
      · have hsp := candInner_spec A act _ _ (candMid_of_L ho hq inv)
        split at h
        · rename_i r' hr'
          cases h
          rw [hr'] at hsp
          exact ⟨hsp.1, fun _ => hsp.2⟩
        · rename_i st' hst'
          rw [hst'] at hsp
          exact candLoop_spec ho A n st' r hsp h

theorem candLoop_total {o : NfaOrd} (ho : o.Ok) (A : NFAS) : ∀ (fuel : Nat) (st : CandSt),
    st.queue.length + nfaOut A.toNFA st.seen < fuel → ∃ r, candLoop o A fuel st = some r
  | 0, _, h => by omega
  | n + 1, st, h => by
    simp only [candLoop]
    split
    · exact ⟨_, rfl⟩
    · rename_i act rest hq
      rw [hq, List.length_cons] at h
      split
      · exact candLoop_total ho A n _ (by simp only; omega)
      · split
        · exact ⟨_, rfl⟩
        · rename_i st' hst'
          apply candLoop_total ho A n
          have := candInner_meas A act _ _ st' (fun x hx => by
            obtain ⟨a, he⟩ := (mem_nfaClusterTargets ho).mp hx
            exact ⟨act, a, he⟩) hst'
          simp only at this
          omega

/-! ### the scan of the start states -/

/-- the state of the scan after the start states described by `D` -/
structure CandScan (A : NFAS) (D : Nat → Prop) (st : CandSt) : Prop where
  hq : ∀ q, q ∈ st.queue ↔ q ∈ st.seen
  hseen : ∀ q, q ∈ st.seen ↔ D q
  hstart : ∀ q, q ∈ st.res.start ↔ D q
  hfin : st.res.final = []
  htr : st.res.trans = []
  hnf : ∀ q, D q → q ∉ A.final

theorem CandScan.congr {A : NFAS} {D D' : Nat → Prop} {st : CandSt} (h : ∀ q, D q ↔ D' q) (s : CandScan A D st) :
    CandScan A D' st :=
  ⟨s.hq, fun q => (s.hseen q).trans (h q), fun q => (s.hstart q).trans (h q), s.hfin, s.htr,
    fun q hq => s.hnf q ((h q).mpr hq)⟩

theorem candStartLoop_spec (A : NFAS) : ∀ (ss : List Nat) (D : Nat → Prop) (st : CandSt), CandScan A D st →
    (∀ q, D q → q ∈ A.start) → (∀ s, s ∈ ss → s ∈ A.start) →
    match candStartLoop true A ss st with
    | .inl r => CandGood A r
    | .inr st' => CandScan A (fun q => D q ∨ q ∈ ss) st'
  | [], D, st, h, _, _ => h.congr (fun q => ⟨Or.inl, fun h' => h'.elim id (fun h'' => nomatch h'')⟩)
  | s :: ss, D, st, h, hD, hss => by
    simp only [candStartLoop, Bool.true_and]
    have hsA : s ∈ A.start := hss s List.mem_cons_self
    by_cases hf : A.final.contains s = true
    · rw [if_pos hf]
      have hsf : s ∈ A.final := List.contains_iff_mem.mp hf
      show CandGood A _
      have hfinal : (nfasSetFinal (nfasSetExistingStart (candSee st s).res s (A.symsOf s)) s).final = [s] := by
        simp [nfasSetFinal, nfasSetExistingStart, candSee_res, h.hfin, insN]
      refine ⟨⟨?_, ?_, ?_⟩, [], (acceptsW_iff _ _).mpr ⟨s, ?_, s, ?_, .nil s⟩⟩
      · intro q hq
        simp only [nfasSetFinal, nfasSetExistingStart, candSee_res, NfaS.mem_insN] at hq
        rcases hq with h' | h'
        · exact hD q ((h.hstart q).mp h')
        · rw [h']; exact hsA
      · intro q hq
        rw [show (nfasSetFinal (nfasSetExistingStart (candSee st s).res s (A.symsOf s)) s).toNFA.final = [s]
          from hfinal, List.mem_singleton] at hq
        rw [hq]; exact hsf
      · intro e he
        simp only [nfasSetFinal, nfasSetExistingStart, candSee_res, h.htr] at he
        exact nomatch he
      · simp [nfasSetFinal, nfasSetExistingStart, candSee_res, NfaS.mem_insN]
      · rw [show (nfasSetFinal (nfasSetExistingStart (candSee st s).res s (A.symsOf s)) s).toNFA.final = [s]
          from hfinal]
        exact List.mem_singleton.mpr rfl
    · rw [if_neg hf]
      have hsf : s ∉ A.final := fun h' => hf (List.contains_iff_mem.mpr h')
      have ih := candStartLoop_spec A ss (fun q => D q ∨ q = s)
        ⟨(candSee st s).seen, (candSee st s).queue, nfasSetExistingStart (candSee st s).res s (A.symsOf s)⟩ ?_ ?_
        (fun q hq => hss q (List.mem_cons_of_mem _ hq))
      · revert ih
        split
        · exact id
        · intro ih
          refine ih.congr (fun q => ?_)
          simp only [List.mem_cons]
          constructor
          · rintro ((h' | h') | h')
            · exact Or.inl h'
            · exact Or.inr (Or.inl h')
            · exact Or.inr (Or.inr h')
          · rintro (h' | h' | h')
            · exact Or.inl (Or.inl h')
            · exact Or.inl (Or.inr h')
            · exact Or.inr h'
      · refine ⟨?_, ?_, ?_, ?_, ?_, ?_⟩
        · intro q
          simp only [mem_candSee_queue, mem_candSee_seen, h.hq]
          constructor
          · rintro (h' | ⟨h', _⟩)
            · exact Or.inl h'
            · exact Or.inr h'
          · rintro (h' | h')
            · exact Or.inl h'
            · by_cases hs : s ∈ st.seen
              · exact Or.inl (h' ▸ hs)
              · exact Or.inr ⟨h', hs⟩
        · intro q; simp only [mem_candSee_seen, h.hseen]
        · intro q; simp only [nfasSetExistingStart, candSee_res, NfaS.mem_insN, h.hstart]
        · simp only [nfasSetExistingStart, candSee_res]; exact h.hfin
        · simp only [nfasSetExistingStart, candSee_res]; exact h.htr
        · rintro q (h' | h')
          · exact h.hnf q h'
          · rw [h']; exact hsf
      · rintro q (h' | h')
        · exact hD q h'
        · rw [h']; exact hsA

theorem candStartLoop_len (A : NFAS) (f : Bool) : ∀ (ss : List Nat) (st st' : CandSt),
    candStartLoop f A ss st = .inr st' → st'.queue.length ≤ st.queue.length + ss.length
  | [], st, st', h => by simp only [candStartLoop] at h; cases h; simp
  | s :: ss, st, st', h => by
    simp only [candStartLoop] at h
    split at h
    · cases h
    · have := candStartLoop_len A f ss _ st' h
      have h2 := candSee_queue_length st s
      simp only [List.length_cons] at this ⊢
      omega

/-- **`GetCandidateTree` as coded, before the final `RemoveUselessStates`**: for every scan order, a returned automaton is a
sub-automaton of the input and accepts some word whenever the input does -/
theorem nfasCandidateCodedRaw_spec {o : NfaOrd} (ho : o.Ok) (A : NFAS) (fuel : Nat) (r : NFAS)
    (h : nfasCandidateCodedRaw o true A fuel = some r) :
    NfaSub r.toNFA A.toNFA ∧ ((∃ w, acceptsW A.toNFA w = true) → ∃ w, acceptsW r.toNFA w = true) := by
  unfold nfasCandidateCodedRaw at h
  have hsp := candStartLoop_spec A (iterSet o.sts A.start) (fun _ => False) ⟨[], [], nfasEmpty⟩
    ⟨fun _ => Iff.rfl, fun _ => ⟨fun h => (nomatch h), False.elim⟩, fun _ => ⟨fun h => (nomatch h), False.elim⟩, rfl, rfl,
      fun _ h => h.elim⟩ (fun _ h => h.elim) (fun s hs => (mem_iterSet ho.1).mp hs)
  split at h
  · rename_i r' hr'
    cases h
    rw [hr'] at hsp
    exact ⟨hsp.1, fun _ => hsp.2⟩
  · rename_i st hst
    rw [hst] at hsp
    refine candLoop_spec ho A fuel st r ?_ h
    have hD : ∀ q, q ∈ st.seen ↔ q ∈ A.start := by
      intro q; rw [hsp.hseen, mem_iterSet ho.1]; exact ⟨fun h' => h'.elim False.elim id, Or.inr⟩
    refine ⟨⟨?_, fun q hq => (hsp.hq q).mp hq, ?_, ?_, fun s hs => (hD s).mpr hs, fun p hp => Or.inl ((hsp.hq p).mpr hp)⟩,
      ?_, ?_, hsp.hfin⟩
    · intro e he; rw [hsp.htr] at he; exact nomatch he
    · intro q hq; exact hsp.hnf q ((hsp.hseen q).mp hq)
    · intro q hq; exact ⟨q, (hD q).mp hq, [], .nil q⟩
    · intro e he; rw [hsp.htr] at he; exact nomatch he
    · intro s; rw [hsp.hstart, mem_iterSet ho.1]; exact ⟨fun h' => h'.elim False.elim id, Or.inr⟩

/-- **totality**: `candFuel` turns suffice -/
theorem nfasCandidateCodedRaw_total {o : NfaOrd} (ho : o.Ok) (A : NFAS) (f : Bool) :
    ∃ r, nfasCandidateCodedRaw o f A (candFuel o A.toNFA) = some r := by
  unfold nfasCandidateCodedRaw
  split
  · exact ⟨_, rfl⟩
  · rename_i st hst
    apply candLoop_total ho
    have h1 := candStartLoop_len A f _ _ st hst
    have h2 : nfaOut A.toNFA st.seen ≤ A.trans.length := List.length_filter_le _ _
    simp only [List.length_nil, Nat.zero_add] at h1
    unfold candFuel
    omega

end Vata.NfaC
