import Vata.ReduceModel
import Vata.Proofs.Equivariance
/-!
# `Reduce` as coded: the quotient projection computed from the simulation (property C05)

Theorems about the model in `Vata/ReduceModel.lean` (`reduceModel A order`; `order[i]` is the state with index `i` in the
simulation matrix, hash order in the C++, a parameter here).

* `RM.restrictToSymmetric_spec`      after `RestrictToSymmetric` the entry `(r, c)`, `r < c`, is `m[r][c] && m[c][r]`
* `RM.quotientProjectionIdx_spec`    `GetQuotientProjection` on a matrix that decides an equivalence above the diagonal
* `quotientProjection_isQuotProj`    the collapse map of `Reduce` is a quotient projection (`IsQuotProj`) – this is the
                                     hypothesis of `C05_reduce_lang`/`C05_quotient_size`, now a theorem about the model
* `reduceModel_lang`, `reduceModel_states_sub`, `reduceModel_never_grows` (states, rules, distinct rules),
  `reduceModel_order_rename`, `reduceModel_size_order_independent`, `reduceModel_size_eq_reduceRef`,
  `reduceModel_states_le_simClasses`
* `restrictToSymmetric_skip_row0_counterexample`   the variant that skips row `0` of the symmetric restriction changes
                                     the language

All of them hold for every `order` that is a permutation of `A.states`; the proofs only need that every state has an
index (`…_of_cover`).  Helper lemmas live in the namespace `Vata.RM`, examples in `Vata.RMEx`.
-/
namespace Vata
namespace RM

/-! ### the matrix accessors -/

/-- `m` is an `n × n` matrix -/
def Square (n : Nat) (m : BMat) : Prop := m.length = n ∧ ∀ row, row ∈ m → row.length = n

theorem square_mset {n : Nat} {m : BMat} (h : Square n m) (i j : Nat) (v : Bool) : Square n (mset m i j v) := by
  refine ⟨by simp [mset, h.1], ?_⟩
  intro row hrow
  obtain ⟨a, ha⟩ := List.mem_iff_getElem?.mp hrow
  simp only [mset, List.getElem?_modify] at ha
  cases hm : m[a]? with
  | none => simp [hm] at ha
  | some r0 =>
    have hr0 := h.2 r0 (List.mem_iff_getElem?.mpr ⟨a, hm⟩)
    simp only [hm, Option.map_eq_map, Option.map_some, Option.some.injEq] at ha
    split at ha
    · rw [← ha, List.length_set]; exact hr0
    · rw [← ha]; exact hr0

theorem mget_mset {n : Nat} {m : BMat} (h : Square n m) {i j : Nat} (hi : i < n) (hj : j < n) (v : Bool) (a b : Nat) :
    mget (mset m i j v) a b = if a = i ∧ b = j then v else mget m a b := by
  simp only [mget, mset, List.getD_eq_getElem?_getD, List.getElem?_modify]
  cases hm : m[a]? with
  | none =>
    have : ¬ a = i := by
      intro e; rw [e] at hm
      have := List.getElem?_eq_none_iff.mp hm
      rw [h.1] at this; omega
    simp [this]
  | some r0 =>
    have hr0 := h.2 r0 (List.mem_iff_getElem?.mpr ⟨a, hm⟩)
    simp only [Option.map_eq_map, Option.map_some, Option.getD_some]
    by_cases hai : i = a
    · simp only [hai, if_true, List.getElem?_set, true_and]
      by_cases hbj : j = b
      · subst hbj; simp [hr0, hj]
      · have : ¬ b = j := fun e => hbj e.symm
        simp [hbj, this]
    · have : ¬ a = i := fun e => hai e.symm
      simp [hai, this]

theorem square_relMatrix (R : Rel) (order : List Nat) : Square order.length (relMatrix R order) := by
  refine ⟨by simp [relMatrix], ?_⟩
  intro row hrow
  simp only [relMatrix, List.mem_map] at hrow
  obtain ⟨p, _, hp⟩ := hrow
  rw [← hp, List.length_map]

theorem mget_relMatrix (R : Rel) (order : List Nat) {i j : Nat} (hi : i < order.length) (hj : j < order.length) :
    mget (relMatrix R order) i j = R.contains (order.getD i 0, order.getD j 0) := by
  simp [mget, relMatrix, List.getD_eq_getElem?_getD, List.getElem?_map, List.getElem?_eq_getElem hi,
    List.getElem?_eq_getElem hj]

/-! ### `RestrictToSymmetric` -/

/-- the symmetric part of the original matrix -/
def symOf (m0 : BMat) (a b : Nat) : Bool := mget m0 a b && mget m0 b a

theorem symOf_comm (m0 : BMat) (a b : Nat) : symOf m0 a b = symOf m0 b a := by
  simp only [symOf, Bool.and_comm]

/-- loop invariant: the matrix is square and every entry is either the original one or already the symmetric part -/
def SymInv (m0 : BMat) (n : Nat) (m : BMat) : Prop :=
  Square n m ∧ ∀ a b, mget m a b = mget m0 a b ∨ mget m a b = symOf m0 a b

theorem symStep_spec {m0 m : BMat} {n row col : Nat} (h : SymInv m0 n m) (hr : row < n) (hc : col < n) :
    Square n (symStep row m col) ∧
    ∀ a b, mget (symStep row m col) a b =
      if (a = row ∧ b = col) ∨ (a = col ∧ b = row) then symOf m0 row col else mget m a b := by
  have hres : (mget m row col && mget m col row) = symOf m0 row col := by
    have h1 := h.2 row col
    have h2 := h.2 col row
    rw [symOf_comm m0 col row] at h2
    simp only [symOf] at h1 h2 ⊢
    revert h1 h2
    cases mget m row col <;> cases mget m col row <;> cases mget m0 row col <;> cases mget m0 col row <;> simp
  refine ⟨square_mset (square_mset h.1 _ _ _) _ _ _, ?_⟩
  intro a b
  simp only [symStep]
  rw [mget_mset (square_mset h.1 _ _ _) hc hr, mget_mset h.1 hr hc, hres]
  by_cases h1 : a = col ∧ b = row
  · simp [h1]
  · by_cases h2 : a = row ∧ b = col
    · simp [h2]
    · simp [h1, h2]

theorem symStep_inv {m0 m : BMat} {n row col : Nat} (h : SymInv m0 n m) (hr : row < n) (hc : col < n) :
    SymInv m0 n (symStep row m col) := by
  obtain ⟨h1, h2⟩ := symStep_spec h hr hc
  refine ⟨h1, ?_⟩
  intro a b
  rw [h2]
  split
  · rename_i hab
    right
    rcases hab with ⟨ha, hb⟩ | ⟨ha, hb⟩
    · rw [ha, hb]
    · rw [ha, hb, symOf_comm]
  · exact h.2 a b

/-- processing a list of index pairs: the invariant is kept, processed entries hold the symmetric part, and an entry
that holds the symmetric part keeps it -/
theorem symPairs_spec {m0 : BMat} {n : Nat} : ∀ (ps : List (Nat × Nat)) (m : BMat), SymInv m0 n m →
    (∀ p, p ∈ ps → p.1 < n ∧ p.2 < n) →
    SymInv m0 n (ps.foldl (fun m p => symStep p.1 m p.2) m) ∧
    (∀ p, p ∈ ps → mget (ps.foldl (fun m p => symStep p.1 m p.2) m) p.1 p.2 = symOf m0 p.1 p.2 ∧
      mget (ps.foldl (fun m p => symStep p.1 m p.2) m) p.2 p.1 = symOf m0 p.1 p.2) ∧
    (∀ a b, mget m a b = symOf m0 a b → mget (ps.foldl (fun m p => symStep p.1 m p.2) m) a b = symOf m0 a b)
  | [], m, h, _ => ⟨h, by simp, fun _ _ h => h⟩
  | p :: ps, m, h, hb => by
    have hp := hb p List.mem_cons_self
    have hinv := symStep_inv h hp.1 hp.2
    have hspec := (symStep_spec h hp.1 hp.2).2
    obtain ⟨i1, i2, i3⟩ := symPairs_spec ps (symStep p.1 m p.2) hinv (fun q hq => hb q (List.mem_cons_of_mem _ hq))
    simp only [List.foldl_cons]
    refine ⟨i1, ?_, ?_⟩
    · intro q hq
      rcases List.mem_cons.mp hq with hq | hq
      · rw [hq]
        refine ⟨?_, ?_⟩
        · apply i3; rw [hspec]; simp
        · rw [symOf_comm m0 p.1 p.2]; apply i3; rw [hspec, symOf_comm m0 p.2 p.1]; simp
      · exact i2 q hq
    · intro a b hab
      apply i3
      rw [hspec]
      split
      · rename_i hc
        rcases hc with ⟨ha, hb⟩ | ⟨ha, hb⟩
        · rw [ha, hb]
        · rw [ha, hb, symOf_comm]
      · exact hab

/-- the index pairs above the diagonal in the order of the two loops, rows from `lo` -/
def pairsFrom (lo n : Nat) : List (Nat × Nat) :=
  (List.range' lo (n - lo)).flatMap (fun row => (List.range' (row + 1) (n - (row + 1))).map (fun col => (row, col)))

theorem mem_pairsFrom {lo n : Nat} {p : Nat × Nat} : p ∈ pairsFrom lo n ↔ lo ≤ p.1 ∧ p.1 < p.2 ∧ p.2 < n := by
  simp only [pairsFrom, List.mem_flatMap, List.mem_map, List.mem_range'_1]
  constructor
  · rintro ⟨row, hrow, col, hcol, he⟩
    rw [← he]; simp only; omega
  · intro h
    exact ⟨p.1, by omega, p.2, by omega, rfl⟩

theorem rows_foldl_eq (n : Nat) (rows : List Nat) (m : BMat) :
    rows.foldl (symRow n) m =
      (rows.flatMap (fun row => (List.range' (row + 1) (n - (row + 1))).map (fun col => (row, col)))).foldl
        (fun m p => symStep p.1 m p.2) m := by
  rw [List.foldl_flatMap]
  congr 1
  funext m row
  rw [List.foldl_map]
  rfl

theorem restrictToSymmetric_eq (m : BMat) :
    restrictToSymmetric m = (pairsFrom 0 m.length).foldl (fun m p => symStep p.1 m p.2) m := by
  rw [restrictToSymmetric, List.range_eq_range', rows_foldl_eq]
  rfl

/-- `RestrictToSymmetric` on a square matrix: it stays square, and above the diagonal (the only part
`GetQuotientProjection` reads) as well as below it holds the symmetric part of the original matrix -/
theorem restrictToSymmetric_spec {n : Nat} {m : BMat} (h : Square n m) :
    Square n (restrictToSymmetric m) ∧
    ∀ r c, r < c → c < n → mget (restrictToSymmetric m) r c = (mget m r c && mget m c r) ∧
      mget (restrictToSymmetric m) c r = (mget m r c && mget m c r) := by
  have hinv : SymInv m n m := ⟨h, fun _ _ => Or.inl rfl⟩
  have hb : ∀ p, p ∈ pairsFrom 0 m.length → p.1 < n ∧ p.2 < n := by
    intro p hp
    have := mem_pairsFrom.mp hp
    rw [h.1] at this; omega
  obtain ⟨i1, i2, _⟩ := symPairs_spec (pairsFrom 0 m.length) m hinv hb
  rw [restrictToSymmetric_eq]
  refine ⟨i1.1, ?_⟩
  intro r c hrc hc
  exact i2 (r, c) (mem_pairsFrom.mpr ⟨Nat.zero_le _, hrc, by rw [h.1]; exact hc⟩)

/-! ### `GetQuotientProjection` on the matrix -/

/-- entry `i` of the vector `quotProj` (`none` = `UNDEF_PROJ`, also beyond the end) -/
def pget (proj : List (Option Nat)) (i : Nat) : Option Nat := proj.getD i none

theorem pget_set (proj : List (Option Nat)) (c : Nat) (v : Option Nat) (i : Nat) :
    pget (proj.set c v) i = if c = i ∧ c < proj.length then v else pget proj i := by
  simp only [pget, List.getD_eq_getElem?_getD, List.getElem?_set]
  by_cases h1 : c = i
  · subst h1
    by_cases h2 : c < proj.length
    · simp [h2]
    · simp [h2]
  · simp [h1]

theorem pget_replicate (n i : Nat) : pget (List.replicate n none) i = none := by
  simp only [pget, List.getD_eq_getElem?_getD, List.getElem?_replicate]
  split <;> rfl

theorem pget_lt {proj : List (Option Nat)} {i k : Nat} (h : pget proj i = some k) : i < proj.length := by
  apply Classical.byContradiction
  intro hn
  have : proj[i]? = none := List.getElem?_eq_none_iff.mpr (by omega)
  simp [pget, List.getD_eq_getElem?_getD, this] at h

theorem qpStep_length (m : BMat) (row : Nat) (proj : List (Option Nat)) (col : Nat) :
    (qpStep m row proj col).length = proj.length := by
  unfold qpStep; split <;> simp

/-- the inner loop over the columns `cols` -/
theorem qpCols_spec (m : BMat) (row : Nat) : ∀ (cols : List Nat) (proj : List (Option Nat)),
    (cols.foldl (qpStep m row) proj).length = proj.length ∧
    ∀ i, pget (cols.foldl (qpStep m row) proj) i =
      if i ∈ cols ∧ mget m row i = true ∧ i < proj.length then some row else pget proj i
  | [], proj => ⟨rfl, by simp⟩
  | c :: cols, proj => by
    obtain ⟨h1, h2⟩ := qpCols_spec m row cols (qpStep m row proj c)
    simp only [List.foldl_cons]
    refine ⟨by rw [h1, qpStep_length], ?_⟩
    intro i
    rw [h2, qpStep_length]
    have hstep : pget (qpStep m row proj c) i =
        if c = i ∧ mget m row c = true ∧ c < proj.length then some row else pget proj i := by
      unfold qpStep
      by_cases hg : mget m row c = true
      · simp [hg, pget_set]
      · simp [hg]
    rw [hstep]
    by_cases hi : i ∈ cols ∧ mget m row i = true ∧ i < proj.length
    · have : i ∈ c :: cols ∧ mget m row i = true ∧ i < proj.length := ⟨List.mem_cons_of_mem _ hi.1, hi.2⟩
      rw [if_pos hi, if_pos this]
    · rw [if_neg hi]
      by_cases hc : c = i
      · subst hc
        by_cases hg : mget m row c = true ∧ c < proj.length
        · rw [if_pos ⟨rfl, hg⟩, if_pos ⟨List.mem_cons_self, hg⟩]
        · rw [if_neg (fun h => hg h.2), if_neg (fun h => hg h.2)]
      · rw [if_neg (fun h => hc h.1), if_neg]
        intro h
        rcases List.mem_cons.mp h.1 with e | e
        · exact hc e.symm
        · exact hi ⟨e, h.2⟩

/-- one round of the outer loop -/
theorem qpRow_spec (m : BMat) (n : Nat) (proj : List (Option Nat)) (row : Nat) (hlen : proj.length = n) (hrow : row < n) :
    (qpRow m n proj row).length = n ∧
    ∀ i, pget (qpRow m n proj row) i =
      if pget proj row = none ∧ (i = row ∨ (row < i ∧ i < n ∧ mget m row i = true)) then some row else pget proj i := by
  unfold qpRow
  cases hp : pget proj row with
  | some k =>
    have : (proj.getD row none).isSome = true := by unfold pget at hp; rw [hp]; rfl
    rw [if_pos this]
    exact ⟨hlen, fun i => by simp⟩
  | none =>
    have : ¬ (proj.getD row none).isSome = true := by unfold pget at hp; rw [hp]; simp
    rw [if_neg this]
    obtain ⟨h1, h2⟩ := qpCols_spec m row (List.range' (row + 1) (n - (row + 1))) (proj.set row (some row))
    refine ⟨by rw [h1, List.length_set, hlen], ?_⟩
    intro i
    rw [h2, List.length_set, hlen, pget_set, hlen]
    simp only [List.mem_range'_1, true_and]
    by_cases hc : row < i ∧ i < n ∧ mget m row i = true
    · rw [if_pos ⟨by omega, hc.2.2, hc.2.1⟩, if_pos (Or.inr hc)]
    · rw [if_neg (fun h => hc ⟨by omega, h.2.2, h.2.1⟩)]
      by_cases hi : i = row
      · rw [if_pos ⟨hi.symm, hrow⟩, if_pos (Or.inl hi)]
      · rw [if_neg (fun h => hi h.1.symm), if_neg]
        rintro (h | h)
        · exact hi h
        · exact hc h

/-- what the loop needs of the matrix: above the diagonal it decides an equivalence `E` on the indices below `n` -/
structure IdxEquiv (m : BMat) (n : Nat) (E : Nat → Nat → Prop) : Prop where
  refl : ∀ i, E i i
  symm : ∀ i j, E i j → E j i
  trans : ∀ i j k, E i j → E j k → E i k
  dec : ∀ r c, r < c → c < n → (mget m r c = true ↔ E r c)

/-- invariant of the outer loop before row `r` -/
structure QInv (n : Nat) (E : Nat → Nat → Prop) (r : Nat) (proj : List (Option Nat)) : Prop where
  len : proj.length = n
  rep : ∀ i k, pget proj i = some k → k < r ∧ k ≤ i ∧ E k i
  done : ∀ i, i < r → i < n → pget proj i ≠ none
  cls : ∀ i j k, i < n → j < n → E i j → pget proj i = some k → pget proj j = some k

theorem qinv_init (n : Nat) (E : Nat → Nat → Prop) : QInv n E 0 (List.replicate n none) :=
  ⟨by simp, fun i k h => by (rw [pget_replicate] at h; cases h), fun i h => by omega,
   fun i j k _ _ _ h => by (rw [pget_replicate] at h; cases h)⟩

theorem qinv_step {m : BMat} {n : Nat} {E : Nat → Nat → Prop} (hE : IdxEquiv m n E) {r : Nat} {proj : List (Option Nat)}
    (h : QInv n E r proj) (hr : r < n) : QInv n E (r + 1) (qpRow m n proj r) := by
  obtain ⟨hl, hs⟩ := qpRow_spec m n proj r h.len hr
  cases hp : pget proj r with
  | some k0 =>
    have hs' : ∀ i, pget (qpRow m n proj r) i = pget proj i := by
      intro i; rw [hs, hp]; simp
    refine ⟨hl, ?_, ?_, ?_⟩
    · intro i k hi
      rw [hs'] at hi
      have := h.rep i k hi
      exact ⟨by omega, this.2⟩
    · intro i hi hin
      rw [hs']
      by_cases hir : i = r
      · rw [hir, hp]; simp
      · exact h.done i (by omega) hin
    · intro i j k hi hj hij hk
      rw [hs'] at hk ⊢
      exact h.cls i j k hi hj hij hk
  | none =>
    -- the members of the class of `r` are exactly the entries that are set in this round
    have hset : ∀ i, i < n → ((i = r ∨ (r < i ∧ i < n ∧ mget m r i = true)) ↔ E r i) := by
      intro i hin
      constructor
      · rintro (e | ⟨h1, h2, h3⟩)
        · rw [e]; exact hE.refl r
        · exact (hE.dec r i h1 h2).mp h3
      · intro hri
        by_cases hir : i = r
        · exact Or.inl hir
        · have : r < i := by
            apply Classical.byContradiction
            intro hn
            have hlt : i < r := by omega
            have hd := h.done i hlt hin
            cases hpi : pget proj i with
            | none => exact hd hpi
            | some k =>
              have := h.cls i r k hin hr (hE.symm _ _ hri) hpi
              rw [hp] at this; cases this
          exact Or.inr ⟨this, hin, (hE.dec r i this hin).mpr hri⟩
    have hs1 : ∀ i, i < n → E r i → pget (qpRow m n proj r) i = some r := by
      intro i hin hc
      rw [hs, hp, if_pos ⟨rfl, (hset i hin).mpr hc⟩]
    have hs2 : ∀ i, i < n → ¬ E r i → pget (qpRow m n proj r) i = pget proj i := by
      intro i hin hc
      rw [hs, hp, if_neg (fun hh => hc ((hset i hin).mp hh.2))]
    have hlt : ∀ i k, pget (qpRow m n proj r) i = some k → i < n := by
      intro i k hk; have := pget_lt hk; omega
    refine ⟨hl, ?_, ?_, ?_⟩
    · intro i k hi
      have hin := hlt i k hi
      by_cases hc : E r i
      · rw [hs1 i hin hc] at hi
        cases hi
        have : r ≤ i := by
          rcases (hset i hin).mpr hc with e | e
          · omega
          · omega
        exact ⟨by omega, this, hc⟩
      · rw [hs2 i hin hc] at hi
        have := h.rep i k hi
        exact ⟨by omega, this.2⟩
    · intro i hi hin
      by_cases hc : E r i
      · rw [hs1 i hin hc]; simp
      · rw [hs2 i hin hc]
        have : i ≠ r := fun e => hc (e ▸ hE.refl r)
        exact h.done i (by omega) hin
    · intro i j k hi hj hij hk
      by_cases hc : E r i
      · rw [hs1 i hi hc] at hk
        rw [hs1 j hj (hE.trans _ _ _ hc hij)]
        exact hk
      · rw [hs2 i hi hc] at hk
        rw [hs2 j hj (fun hh => hc (hE.trans _ _ _ hh (hE.symm _ _ hij)))]
        exact h.cls i j k hi hj hij hk

theorem qinv_range {m : BMat} {n : Nat} {E : Nat → Nat → Prop} (hE : IdxEquiv m n E) :
    ∀ r, r ≤ n → QInv n E r ((List.range r).foldl (qpRow m n) (List.replicate n none))
  | 0, _ => qinv_init n E
  | r + 1, hr => by
    rw [List.range_succ, List.foldl_append]
    exact qinv_step hE (qinv_range hE r (by omega)) (by omega)

/-- `GetQuotientProjection` on a matrix that decides an equivalence above the diagonal: every index gets a
representative, which is an equivalent index not after it, and equivalent indices get the same representative -/
theorem quotientProjectionIdx_spec {m : BMat} {E : Nat → Nat → Prop} (hE : IdxEquiv m m.length E) :
    (quotientProjectionIdx m).length = m.length ∧
    (∀ i, i < m.length → ∃ k, pget (quotientProjectionIdx m) i = some k ∧ k ≤ i ∧ E k i) ∧
    (∀ i j, i < m.length → j < m.length → E i j → pget (quotientProjectionIdx m) i = pget (quotientProjectionIdx m) j) := by
  have h := qinv_range hE m.length (Nat.le_refl _)
  refine ⟨h.len, ?_, ?_⟩
  · intro i hi
    cases hp : pget (quotientProjectionIdx m) i with
    | none => exact absurd hp (h.done i hi hi)
    | some k => exact ⟨k, rfl, (h.rep i k hp).2⟩
  · intro i j hi hj hij
    cases hp : pget (quotientProjectionIdx m) i with
    | none => exact absurd hp (h.done i hi hi)
    | some k => exact (h.cls i j k hi hj hij hp).symm

/-! ### back from indices to states -/

/-- looking a member of `l` up in `l` zipped with values: the value at a position of the key -/
theorem lookup_zip_map (q : Nat) (g : Nat → Option Nat → Nat) : ∀ (l : List Nat) (vals : List (Option Nat)),
    vals.length = l.length → q ∈ l →
    ∃ i, l[i]? = some q ∧ List.lookup q ((l.zip vals).map (fun p => (p.1, g p.1 p.2))) = some (g q (pget vals i))
  | [], _, _, h => by cases h
  | x :: l, [], hl, _ => by simp at hl
  | x :: l, v :: vals, hl, h => by
    by_cases hx : q = x
    · refine ⟨0, by simp [hx], ?_⟩
      simp [hx, pget]
    · have hq : q ∈ l := by
        rcases List.mem_cons.mp h with e | e
        · exact absurd e hx
        · exact e
      obtain ⟨i, h1, h2⟩ := lookup_zip_map q g l vals (by simpa using hl) hq
      refine ⟨i + 1, by simpa using h1, ?_⟩
      have hb : (q == x) = false := by simp [hx]
      simp only [List.zip_cons_cons, List.map_cons, List.lookup_cons, hb]
      rw [h2]
      simp [pget]

/-- the value of the collapse map at a state that has an index -/
theorem applyMap_projToMap (order : List Nat) (proj : List (Option Nat)) (hl : proj.length = order.length) {q : Nat}
    (hq : q ∈ order) :
    ∃ i, order[i]? = some q ∧ applyMap (projToMap order proj) q = projTarget order q (pget proj i) := by
  obtain ⟨i, h1, h2⟩ := lookup_zip_map q (projTarget order) order proj hl hq
  refine ⟨i, h1, ?_⟩
  unfold applyMap projToMap
  rw [h2]; rfl

/-! ### the projection of `Reduce` is a quotient projection -/

/-- the indices `i`, `j` are the same or name simulation-equivalent states -/
def IdxEq (A : TA) (order : List Nat) (i j : Nat) : Prop :=
  i = j ∨ ((order.getD i 0, order.getD j 0) ∈ downSimRef A ∧ (order.getD j 0, order.getD i 0) ∈ downSimRef A)

/-- the matrix `Reduce` hands to `GetQuotientProjection` -/
def symMatrix (A : TA) (order : List Nat) : BMat := restrictToSymmetric (relMatrix (downSimRef A) order)

theorem square_symMatrix (A : TA) (order : List Nat) : Square order.length (symMatrix A order) :=
  (restrictToSymmetric_spec (square_relMatrix _ order)).1

theorem idxEquiv_symMatrix (A : TA) (order : List Nat) :
    IdxEquiv (symMatrix A order) (symMatrix A order).length (IdxEq A order) := by
  rw [(square_symMatrix A order).1]
  refine ⟨fun i => Or.inl rfl, ?_, ?_, ?_⟩
  · rintro i j (e | ⟨h1, h2⟩)
    · exact Or.inl e.symm
    · exact Or.inr ⟨h2, h1⟩
  · rintro i j k (e | ⟨h1, h2⟩) h'
    · rw [e]; exact h'
    · rcases h' with e | ⟨h3, h4⟩
      · rw [← e]; exact Or.inr ⟨h1, h2⟩
      · exact Or.inr ⟨(greatest_downSim_preorder A).2 _ _ _ h1 h3, (greatest_downSim_preorder A).2 _ _ _ h4 h2⟩
  · intro r c hrc hc
    unfold symMatrix
    rw [((restrictToSymmetric_spec (square_relMatrix _ order)).2 r c hrc hc).1,
      mget_relMatrix _ _ (by omega) hc, mget_relMatrix _ _ hc (by omega)]
    simp only [Bool.and_eq_true, List.contains_iff_mem, IdxEq]
    constructor
    · intro h; exact Or.inr h
    · rintro (e | h)
      · omega
      · exact h

theorem getD_of_lt {l : List Nat} {k : Nat} (hk : k < l.length) (a b : Nat) : l.getD k a = l.getD k b := by
  simp [List.getD_eq_getElem?_getD, List.getElem?_eq_getElem hk]

theorem getD_of_getElem? {l : List Nat} {i q : Nat} (h : l[i]? = some q) (a : Nat) : l.getD i a = q := by
  simp [List.getD_eq_getElem?_getD, h]

/-- the value of the projection at a state that has an index: the state at the representative index -/
theorem quotientProjection_at (A : TA) (order : List Nat) {q : Nat} (hq : q ∈ order) :
    ∃ i k, order[i]? = some q ∧ i < order.length ∧ k ≤ i ∧ IdxEq A order k i ∧
      pget (quotientProjectionIdx (symMatrix A order)) i = some k ∧
      quotientProjection A order q = order.getD k 0 := by
  have hlen := (square_symMatrix A order).1
  obtain ⟨s1, s2, _⟩ := quotientProjectionIdx_spec (idxEquiv_symMatrix A order)
  rw [hlen] at s1 s2
  obtain ⟨i, h1, h2⟩ := applyMap_projToMap order (quotientProjectionIdx (symMatrix A order)) s1 hq
  have hi : i < order.length := by
    apply Classical.byContradiction
    intro hn
    have : order[i]? = none := List.getElem?_eq_none_iff.mpr (by omega)
    rw [this] at h1; cases h1
  obtain ⟨k, hk, hki, hE⟩ := s2 i hi
  refine ⟨i, k, h1, hi, hki, hE, hk, ?_⟩
  have : quotientProjection A order q = projTarget order q (pget (quotientProjectionIdx (symMatrix A order)) i) := h2
  rw [this, hk]
  exact getD_of_lt (by omega) _ _

end RM

/-! ### concrete inputs for the non-vacuity examples -/
namespace RMEx

/-- a numbering of the states of `SimModel.exA` (`0 ≃ 1`, `2 ≃ 3`) that is not the list order -/
def exOrd : List Nat := [3, 0, 4, 2, 1]

theorem exOrd_perm : exOrd.Perm SimModel.exA.states := by decide

/-- `a → 0`, `a → 1`, `b → 1`, `c(1) → 2`, final `{0, 2}`: state `1` simulates state `0` but not conversely -/
def exS : TA := ⟨[⟨0, [], 0⟩, ⟨0, [], 1⟩, ⟨1, [], 1⟩, ⟨2, [1], 2⟩], [0, 2]⟩

end RMEx

-- the steps of the model on `SimModel.exA` numbered by `exOrd`
example : relMatrix (downSimRef SimModel.exA) RMEx.exOrd =
    [[true, false, false, true, false], [false, true, false, false, true], [false, false, true, false, false],
     [true, false, false, true, false], [false, true, false, false, true]] := by decide
example : quotientProjectionIdx (RM.symMatrix SimModel.exA RMEx.exOrd) = [some 0, some 1, some 2, some 0, some 1] := by
  decide
example : quotientMap SimModel.exA RMEx.exOrd = [(3, 3), (0, 0), (4, 4), (2, 3), (1, 0)] ∧
    quotientMap SimModel.exA SimModel.exA.states = [(0, 0), (1, 0), (2, 2), (3, 2), (4, 4)] := by decide
-- `RestrictToSymmetric` does something: the simulation of `exS` is not symmetric
example : relMatrix (downSimRef RMEx.exS) RMEx.exS.states = [[true, true, false], [false, true, false], [false, false, true]] ∧
    restrictToSymmetric (relMatrix (downSimRef RMEx.exS) RMEx.exS.states) =
      [[true, false, false], [false, true, false], [false, false, true]] := by decide

/-- the map computed by `RestrictToSymmetric` + `GetQuotientProjection` from the simulation is a quotient projection, for
every numbering `order` that gives every state an index -/
theorem quotientProjection_isQuotProj_of_cover (A : TA) (order : List Nat) (hcov : ∀ q, q ∈ A.states → q ∈ order) :
    IsQuotProj A (quotientProjection A order) := by
  constructor
  · intro q hq
    obtain ⟨i, k, h1, hi, hki, hE, _, hv⟩ := RM.quotientProjection_at A order (hcov q hq)
    have hoi := RM.getD_of_getElem? h1 0
    rw [hv]
    rcases hE with e | ⟨e1, e2⟩
    · rw [e, hoi]
      exact ⟨(greatest_downSim_preorder A).1 q hq, (greatest_downSim_preorder A).1 q hq⟩
    · rw [hoi] at e1 e2
      exact ⟨e2, e1⟩
  · intro p q hpq hqp
    have hp := (downSimRef_sub A hpq).1
    have hq := (downSimRef_sub A hpq).2
    obtain ⟨i, k, h1, hi, _, _, hk, hv⟩ := RM.quotientProjection_at A order (hcov p hp)
    obtain ⟨j, k', h1', hj, _, _, hk', hv'⟩ := RM.quotientProjection_at A order (hcov q hq)
    have hE : RM.IdxEq A order i j := Or.inr (by rw [RM.getD_of_getElem? h1 0, RM.getD_of_getElem? h1' 0]; exact ⟨hpq, hqp⟩)
    obtain ⟨_, _, s3⟩ := RM.quotientProjectionIdx_spec (RM.idxEquiv_symMatrix A order)
    rw [(RM.square_symMatrix A order).1] at s3
    have := s3 i j hi hj hE
    rw [hk, hk'] at this
    cases this
    rw [hv, hv']

theorem quotientProjection_isQuotProj (A : TA) (order : List Nat) (hperm : order.Perm A.states) :
    IsQuotProj A (quotientProjection A order) :=
  quotientProjection_isQuotProj_of_cover A order (fun _ hq => (hperm.mem_iff).mpr hq)

example : IsQuotProj SimModel.exA (quotientProjection SimModel.exA RMEx.exOrd) :=
  quotientProjection_isQuotProj _ _ RMEx.exOrd_perm
example : List.map (quotientProjection SimModel.exA RMEx.exOrd) [0, 1, 2, 3, 4] = [0, 0, 3, 3, 4] := by decide



/-! ### the main theorems -/

/-- the model is the quotient by the computed projection followed by `RemoveUnreachableStates` -/
theorem reduceModel_eq (A : TA) (order : List Nat) :
    reduceModel A order = removeUnreachable (reindex (quotientProjection A order) A) := rfl

/-- C05: `Reduce` keeps the language, whatever the order in which the states were numbered -/
theorem reduceModel_lang (A : TA) (order : List Nat) (hperm : order.Perm A.states) (t : Tree) :
    accepts (reduceModel A order) t = accepts A t :=
  reduce_trim_lang removeUnreachable_lang A _ (quotientProjection_isQuotProj A order hperm).1 t

example (t : Tree) : accepts (reduceModel SimModel.exA RMEx.exOrd) t = accepts SimModel.exA t :=
  reduceModel_lang _ _ RMEx.exOrd_perm t
example : (reduceModel SimModel.exA RMEx.exOrd).rules = [⟨0, [], 0⟩, ⟨0, [], 0⟩, ⟨1, [0, 0], 3⟩, ⟨1, [0, 0], 3⟩] ∧
    (reduceModel SimModel.exA RMEx.exOrd).final = [3, 3] := by decide

theorem reduceModel_lang_of_cover (A : TA) (order : List Nat) (hcov : ∀ q, q ∈ A.states → q ∈ order) (t : Tree) :
    accepts (reduceModel A order) t = accepts A t :=
  reduce_trim_lang removeUnreachable_lang A _ (quotientProjection_isQuotProj_of_cover A order hcov).1 t

/-- C05: every state of the result is a state of `A`, namely the image of a state under the projection -/
theorem reduceModel_states_sub (A : TA) (order : List Nat) (hperm : order.Perm A.states) {x : Nat}
    (hx : x ∈ (reduceModel A order).states) :
    x ∈ A.states ∧ ∃ q, q ∈ A.states ∧ x = quotientProjection A order q := by
  obtain ⟨q, hq, he⟩ := PropAux.states_reduce hx
  refine ⟨?_, q, hq, he⟩
  rw [he]
  exact (downSimRef_sub A ((quotientProjection_isQuotProj A order hperm).1 q hq).1).2

example : (reduceModel SimModel.exA RMEx.exOrd).states = [0, 3] ∧ SimModel.exA.states = [0, 1, 2, 3, 4] := by decide

namespace RM

theorem nodup_eraseDups_aux : ∀ (n : Nat) (l : List Rule), l.length ≤ n → l.eraseDups.Nodup
  | _, [], _ => by simp
  | 0, _ :: _, h => by simp at h
  | n + 1, a :: l, h => by
    rw [List.eraseDups_cons, List.nodup_cons]
    refine ⟨?_, nodup_eraseDups_aux n _ ?_⟩
    · intro hm
      rw [List.mem_eraseDups, List.mem_filter] at hm
      simp at hm
    · have := List.length_filter_le (fun b => !b == a) l
      simp only [List.length_cons] at h
      omega

/-- `eraseDups` lists every rule once, so its length is the number of distinct rules -/
theorem nodup_eraseDups (l : List Rule) : l.eraseDups.Nodup := nodup_eraseDups_aux l.length l (Nat.le_refl _)

/-- a list all of whose members are images of members of `l` has at most as many distinct members as `l` -/
theorem distinct_le_of_image (g : Rule → Rule) (l l' : List Rule) (h : ∀ y, y ∈ l' → ∃ x, x ∈ l ∧ y = g x) :
    l'.eraseDups.length ≤ l.eraseDups.length := by
  have hsub : l'.eraseDups ⊆ l.eraseDups.map g := by
    intro y hy
    obtain ⟨x, hx, he⟩ := h y (List.mem_eraseDups.mp hy)
    exact List.mem_map.mpr ⟨x, List.mem_eraseDups.mpr hx, he.symm⟩
  have := (nodup_eraseDups l').length_le_of_subset hsub
  rwa [List.length_map] at this

theorem rules_reduce_image (h : Nat → Nat) (A : TA) (y : Rule) (hy : y ∈ (removeUnreachable (reindex h A)).rules) :
    ∃ x, x ∈ A.rules ∧ y = mapRule h x := by
  have : y ∈ (reindex h A).rules := (List.mem_filter.mp hy).1
  obtain ⟨x, hx, he⟩ := List.mem_map.mp this
  exact ⟨x, hx, he.symm⟩

end RM

/-- C05: `Reduce` never grows the automaton: at most as many states, at most as many distinct rules (and at most as
many entries in the rule list); no hypothesis on `order` is needed -/
theorem reduceModel_never_grows (A : TA) (order : List Nat) :
    (reduceModel A order).states.length ≤ A.states.length ∧
    (reduceModel A order).rules.eraseDups.length ≤ A.rules.eraseDups.length ∧
    (reduceModel A order).rules.length ≤ A.rules.length :=
  ⟨PropAux.states_reduce_length _ A,
   RM.distinct_le_of_image (mapRule (quotientProjection A order)) _ _ (RM.rules_reduce_image _ A),
   PropAux.rules_reduce_length _ A⟩

example : (reduceModel SimModel.exA RMEx.exOrd).states.length = 2 ∧ SimModel.exA.states.length = 5 ∧
    (reduceModel SimModel.exA RMEx.exOrd).rules.eraseDups.length = 2 ∧ SimModel.exA.rules.eraseDups.length = 5 ∧
    (reduceModel SimModel.exA RMEx.exOrd).rules.length = 4 := by decide

/-- the results for two numberings of the states are the same automaton up to a renaming that is injective on its states -/
theorem reduceModel_order_rename (A : TA) (order order' : List Nat) (hperm : order.Perm A.states)
    (hperm' : order'.Perm A.states) :
    ∃ π, InjOnStates π (reduceModel A order) ∧ reduceModel A order' = reindex π (reduceModel A order) := by
  obtain ⟨π, hinj, he⟩ := quotient_choice_independent A _ _ (quotientProjection_isQuotProj A order hperm)
    (quotientProjection_isQuotProj A order' hperm')
  refine ⟨π, Eqv.injOnStates_mono hinj (fun q hq => PropAux.states_removeUnreachable_sub hq), ?_⟩
  rw [reduceModel_eq, reduceModel_eq, he, removeUnreachable_reindex_eq _ _ hinj]

example : ∃ π, InjOnStates π (reduceModel SimModel.exA SimModel.exA.states) ∧
    reduceModel SimModel.exA RMEx.exOrd = reindex π (reduceModel SimModel.exA SimModel.exA.states) :=
  reduceModel_order_rename _ _ _ (List.Perm.refl _) RMEx.exOrd_perm

/-- C05/C19: the size of the result (states, rule list, distinct rules) does not depend on the order in which the states
were numbered -/
theorem reduceModel_size_order_independent (A : TA) (order order' : List Nat) (hperm : order.Perm A.states)
    (hperm' : order'.Perm A.states) :
    (reduceModel A order').states.length = (reduceModel A order).states.length ∧
    (reduceModel A order').rules.length = (reduceModel A order).rules.length ∧
    (reduceModel A order').rules.eraseDups.length = (reduceModel A order).rules.eraseDups.length := by
  obtain ⟨π, hinj, he⟩ := reduceModel_order_rename A order order' hperm hperm'
  obtain ⟨π', _, he'⟩ := reduceModel_order_rename A order' order hperm' hperm
  refine ⟨by rw [he]; exact reindex_states_length π _ hinj, by rw [he, reindex_rules_length], Nat.le_antisymm ?_ ?_⟩
  · apply RM.distinct_le_of_image (mapRule π)
    intro y hy
    rw [he] at hy
    obtain ⟨x, hx, e⟩ := List.mem_map.mp hy
    exact ⟨x, hx, e.symm⟩
  · apply RM.distinct_le_of_image (mapRule π')
    intro y hy
    rw [he'] at hy
    obtain ⟨x, hx, e⟩ := List.mem_map.mp hy
    exact ⟨x, hx, e.symm⟩

/-- the result has the size of the canonical reduction `reduceRef` (first representative in `A.states`) … -/
theorem reduceModel_size_eq_reduceRef (A : TA) (order : List Nat) (hperm : order.Perm A.states) :
    (reduceModel A order).states.length = (reduceRef A).states.length ∧
    (reduceModel A order).rules.length = (reduceRef A).rules.length :=
  reduce_size_choice_independent A (repOf A) _ (repOf_isQuotProj A) (quotientProjection_isQuotProj A order hperm)

/-- … and at most as many states as there are classes of simulation equivalence -/
theorem reduceModel_states_le_simClasses (A : TA) (order : List Nat) (hperm : order.Perm A.states) :
    (reduceModel A order).states.length ≤ simClasses A :=
  reduce_states_le_simClasses' A _ (quotientProjection_isQuotProj A order hperm)



-- two numberings: different representatives (`{0, 2}` and `{0, 3}`), same size
example : (reduceModel SimModel.exA SimModel.exA.states).states = [0, 2] ∧
    (reduceModel SimModel.exA RMEx.exOrd).states = [0, 3] ∧ (reduceRef SimModel.exA).states = [0, 2] ∧
    simClasses SimModel.exA = 3 := by decide
example : (reduceModel SimModel.exA RMEx.exOrd).states.length = (reduceModel SimModel.exA SimModel.exA.states).states.length :=
  (reduceModel_size_order_independent _ _ _ (List.Perm.refl _) RMEx.exOrd_perm).1

/-! ### a realistic slip: the outer loop of `RestrictToSymmetric` starts at row `1` -/

/-- If `RestrictToSymmetric` skips row `0`, the row of the state with index `0` still holds the (one-directional)
simulation, so `GetQuotientProjection` merges into that state every state that simulates it.  On `exS` (`1` simulates
`0`, not conversely; list order, which is a permutation of the states) the slip maps `1 ↦ 0`, the correct code maps
nothing; the tree `b` is then accepted by the result although `exS` (and the correct model) rejects it. -/
theorem restrictToSymmetric_skip_row0_counterexample :
    RMEx.exS.states = [0, 1, 2] ∧
    quotientMapWith restrictToSymmetricSkip0 RMEx.exS RMEx.exS.states = [(0, 0), (1, 0), (2, 2)] ∧
    quotientMap RMEx.exS RMEx.exS.states = [(0, 0), (1, 1), (2, 2)] ∧
    accepts (reduceModelSkip0 RMEx.exS RMEx.exS.states) (.node 1 []) = true ∧
    accepts RMEx.exS (.node 1 []) = false ∧
    accepts (reduceModel RMEx.exS RMEx.exS.states) (.node 1 []) = false := by decide

/-- hence the analogue of `reduceModel_lang` is false for the variant -/
theorem reduceModelSkip0_not_lang :
    ¬ ∀ (A : TA) (order : List Nat), order.Perm A.states → ∀ t, accepts (reduceModelSkip0 A order) t = accepts A t := by
  intro h
  have := h RMEx.exS RMEx.exS.states (List.Perm.refl _) (.node 1 [])
  rw [restrictToSymmetric_skip_row0_counterexample.2.2.2.1, restrictToSymmetric_skip_row0_counterexample.2.2.2.2.1] at this
  cases this

end Vata
