import Vata.CacheModel
/-!
# Theorems about the interning cache, the memoised binary operation and their wiring (`Vata/CacheModel.lean`)
-/
namespace Vata.CM

/-! ### associative lists -/
section Assoc
variable {κ ν : Type} [DecidableEq κ]

theorem aget_append (m₁ m₂ : List (κ × ν)) (k : κ) :
    aget (m₁ ++ m₂) k = match aget m₁ k with | some v => some v | none => aget m₂ k := by
  induction m₁ with
  | nil => simp [aget]
  | cons e m ih =>
    obtain ⟨k', v⟩ := e
    by_cases h : k' = k <;> simp [aget, h, ih]

theorem aget_adel (m : List (κ × ν)) (k k' : κ) : aget (adel m k) k' = if k' = k then none else aget m k' := by
  induction m with
  | nil => simp [adel, aget]
  | cons e m ih =>
    obtain ⟨k₀, v⟩ := e
    unfold adel at ih ⊢
    by_cases h : k₀ = k
    · subst h
      simp only [List.filter_cons, decide_true, Bool.not_true, Bool.false_eq_true, if_false, ih, aget]
      by_cases h' : k' = k₀
      · simp [h']
      · have : ¬ k₀ = k' := fun e => h' e.symm
        simp [h', this]
    · simp only [List.filter_cons, h, decide_false, Bool.not_false, if_true, aget, ih]
      by_cases h' : k₀ = k'
      · subst h'; simp [h]
      · simp [h']

theorem aget_aset (m : List (κ × ν)) (k : κ) (v : ν) (k' : κ) :
    aget (aset m k v) k' = if k' = k then some v else aget m k' := by
  unfold aset
  rw [aget_append, aget_adel]
  by_cases h : k' = k
  · subst h; simp [aget]
  · have : ¬ k = k' := fun e => h e.symm
    simp only [h, if_false, aget, this]
    cases aget m k' <;> rfl

theorem mem_adel {m : List (κ × ν)} {k : κ} {e : κ × ν} : e ∈ adel m k ↔ e ∈ m ∧ e.1 ≠ k := by
  simp [adel, List.mem_filter]

theorem mem_aset {m : List (κ × ν)} {k : κ} {v : ν} {e : κ × ν} : e ∈ aset m k v ↔ (e ∈ m ∧ e.1 ≠ k) ∨ e = (k, v) := by
  simp [aset, mem_adel]

theorem aget_mem {m : List (κ × ν)} {k : κ} {v : ν} (h : aget m k = some v) : (k, v) ∈ m := by
  induction m with
  | nil => simp [aget] at h
  | cons e m ih =>
    obtain ⟨k₀, v₀⟩ := e
    by_cases hk : k₀ = k
    · subst hk; simp [aget] at h; subst h; simp
    · simp [aget, hk] at h; exact List.mem_cons_of_mem _ (ih h)

theorem aget_of_mem {m : List (κ × ν)} {k : κ} {v : ν} (h : (k, v) ∈ m) : ∃ v', aget m k = some v' := by
  induction m with
  | nil => simp at h
  | cons e m ih =>
    obtain ⟨k₀, v₀⟩ := e
    by_cases hk : k₀ = k
    · exact ⟨v₀, by simp [aget, hk]⟩
    · have : (k, v) ∈ m := by
        rcases List.mem_cons.1 h with h | h
        · exact absurd (congrArg Prod.fst h).symm hk
        · exact h
      obtain ⟨v', hv'⟩ := ih this
      exact ⟨v', by simp [aget, hk, hv']⟩

theorem aget_foldl_adel (items : List κ) (m : List (κ × ν)) (k : κ) :
    aget (items.foldl (fun s it => adel s it) m) k = if k ∈ items then none else aget m k := by
  induction items generalizing m with
  | nil => simp
  | cons it rest ih =>
    simp only [List.foldl_cons, ih, aget_adel, List.mem_cons]
    by_cases h1 : k ∈ rest <;> by_cases h2 : k = it <;> simp [h1, h2]

theorem aget_of_mem_nodup {m : List (κ × ν)} {k : κ} {v : ν} (hn : (akeys m).Nodup) (h : (k, v) ∈ m) : aget m k = some v := by
  induction m with
  | nil => simp at h
  | cons e m ih =>
    obtain ⟨k₀, v₀⟩ := e
    simp only [akeys, List.map_cons, List.nodup_cons] at hn
    rcases List.mem_cons.1 h with h | h
    · cases h; simp [aget]
    · have : k₀ ≠ k := by
        intro e; subst e
        exact hn.1 (List.mem_map.2 ⟨_, h, rfl⟩)
      simp only [aget, this, if_false]
      exact ih hn.2 h

/-- keys stay pairwise different -/
theorem akeys_adel_nodup {m : List (κ × ν)} (k : κ) (h : (akeys m).Nodup) : (akeys (adel m k)).Nodup := by
  unfold akeys adel
  exact (List.Nodup.sublist (List.Sublist.map _ List.filter_sublist) h)

theorem akeys_aset_nodup {m : List (κ × ν)} (k : κ) (v : ν) (h : (akeys m).Nodup) : (akeys (aset m k v)).Nodup := by
  unfold aset akeys
  rw [List.map_append, List.nodup_append]
  refine ⟨akeys_adel_nodup k h, by simp, ?_⟩
  intro a ha b hb
  simp at hb
  subst hb
  rcases List.mem_map.1 ha with ⟨e, he, rfl⟩
  exact (mem_adel.1 he).2

end Assoc

/-! ### the index maps -/
section Idx
variable {κ ε : Type} [DecidableEq κ] [DecidableEq ε]

theorem aget_addIdx (m : List (κ × List ε)) (k : κ) (e : ε) (k' : κ) :
    aget (addIdx m k e) k' =
      if k' = k then some (match aget m k with | none => [e] | some l => if e ∈ l then l else l ++ [e]) else aget m k' := by
  unfold addIdx
  cases h : aget m k <;> simp [aget_aset]

theorem aget_delIdx (m : List (κ × List ε)) (k : κ) (e : ε) (k' : κ) :
    aget (delIdx m k e) k' =
      if k' = k then (aget m k).map (fun l => l.filter (fun e' => !(decide (e' = e)))) else aget m k' := by
  unfold delIdx
  cases h : aget m k with
  | none => by_cases hk : k' = k <;> simp [hk, h]
  | some l => simp [aget_aset]

/-- the loop `for item in items: map.find(g(item))->second.erase(item)` -/
theorem aget_foldl_delIdx (g : ε → κ) (items : List ε) (m : List (κ × List ε)) (y : κ) :
    aget (items.foldl (fun m it => delIdx m (g it) it) m) y =
      (aget m y).map (fun l => l.filter (fun e => !(decide (e ∈ items ∧ g e = y)))) := by
  induction items generalizing m with
  | nil =>
    cases h : aget m y with
    | none => simp [h]
    | some l =>
      simp only [List.foldl_nil, h, Option.map_some, Option.some.injEq]
      exact (List.filter_eq_self.2 (by simp)).symm
  | cons it rest ih =>
    simp only [List.foldl_cons, ih, aget_delIdx]
    by_cases hy : y = g it
    · subst hy
      cases aget m (g it) with
      | none => simp
      | some l =>
        simp only [if_true, Option.map_some, List.filter_filter, Option.some.injEq]
        apply List.filter_congr
        intro e _
        by_cases h1 : e = it
        · subst h1; simp
        · simp [h1]
    · simp only [hy, if_false]
      cases aget m y with
      | none => simp
      | some l =>
        simp only [Option.map_some, Option.some.injEq]
        apply List.filter_congr
        intro e _
        by_cases h1 : e = it
        · subst h1
          have : ¬ g e = y := fun h => hy h.symm
          simp [this]
        · simp [h1]

end Idx

/-! ### `CachedBinaryOp`: the two secondary indices list exactly the entries of the table -/
namespace BinOp
variable {κ₁ κ₂ β : Type} [DecidableEq κ₁] [DecidableEq κ₂]

/-- an entry (identified by its key) is in the table -/
def Has (op : BinOp κ₁ κ₂ β) (k : κ₁ × κ₂) : Prop := (aget op.store k).isSome = true

/-- representation invariant of `CachedBinaryOp` -/
structure Inv (op : BinOp κ₁ κ₂ β) : Prop where
  /-- every entry listed under `x` in `storeMap1_` has first component `x` and is an entry of `store_` -/
  s1 : ∀ x l, aget op.map1 x = some l → ∀ k ∈ l, k.1 = x ∧ op.Has k
  /-- every entry of `store_` is listed in `storeMap1_` under its first component -/
  c1 : ∀ k, op.Has k → ∃ l, aget op.map1 k.1 = some l ∧ k ∈ l
  s2 : ∀ y l, aget op.map2 y = some l → ∀ k ∈ l, k.2 = y ∧ op.Has k
  c2 : ∀ k, op.Has k → ∃ l, aget op.map2 k.2 = some l ∧ k ∈ l
  /-- the sets are sets, the maps are maps -/
  n1 : ∀ x l, aget op.map1 x = some l → l.Nodup
  n2 : ∀ y l, aget op.map2 y = some l → l.Nodup
  k0 : (akeys op.store).Nodup
  k1 : (akeys op.map1).Nodup
  k2 : (akeys op.map2).Nodup

theorem empty_inv : (BinOp.empty : BinOp κ₁ κ₂ β).Inv := by
  refine ⟨?_, ?_, ?_, ?_, ?_, ?_, ?_, ?_, ?_⟩ <;> simp [BinOp.empty, aget, Has, akeys]

theorem clear_inv (op : BinOp κ₁ κ₂ β) : op.clear.Inv := empty_inv

/-- the answer of `lookup` -/
theorem lookup_ans (op : BinOp κ₁ κ₂ β) (x : κ₁) (y : κ₂) (f : κ₁ → κ₂ → β) :
    (op.lookup x y f).2 = match aget op.store (x, y) with | some v => v | none => f x y := by
  unfold lookup
  cases aget op.store (x, y) <;> rfl

/-- the table after `lookup` -/
theorem lookup_store (op : BinOp κ₁ κ₂ β) (x : κ₁) (y : κ₂) (f : κ₁ → κ₂ → β) (k : κ₁ × κ₂) :
    aget (op.lookup x y f).1.store k = if k = (x, y) then some (op.lookup x y f).2 else aget op.store k := by
  unfold lookup
  cases h : aget op.store (x, y) with
  | some v =>
    by_cases hk : k = (x, y)
    · subst hk; simp [h]
    · simp [hk]
  | none => simp [aget_aset]

theorem lookup_has (op : BinOp κ₁ κ₂ β) (x : κ₁) (y : κ₂) (f : κ₁ → κ₂ → β) (k : κ₁ × κ₂) :
    (op.lookup x y f).1.Has k ↔ k = (x, y) ∨ op.Has k := by
  unfold Has
  rw [lookup_store]
  by_cases hk : k = (x, y) <;> simp [hk]

theorem lookup_inv {op : BinOp κ₁ κ₂ β} (h : op.Inv) (x : κ₁) (y : κ₂) (f : κ₁ → κ₂ → β) : (op.lookup x y f).1.Inv := by
  cases hxy : aget op.store (x, y) with
  | some v =>
    have : (op.lookup x y f).1 = op := by unfold lookup; simp [hxy]
    rw [this]; exact h
  | none =>
    have hhas : ∀ k, (op.lookup x y f).1.Has k ↔ k = (x, y) ∨ op.Has k := lookup_has op x y f
    have e1 : (op.lookup x y f).1.map1 = addIdx op.map1 x (x, y) := by unfold lookup; simp [hxy]
    have e2 : (op.lookup x y f).1.map2 = addIdx op.map2 y (x, y) := by unfold lookup; simp [hxy]
    have e0 : (op.lookup x y f).1.store = aset op.store (x, y) (f x y) := by unfold lookup; simp [hxy]
    have hn : ¬ op.Has (x, y) := by simp [Has, hxy]
    refine ⟨?_, ?_, ?_, ?_, ?_, ?_, ?_, ?_, ?_⟩
    · intro x' l hl k hk
      rw [e1, aget_addIdx] at hl
      rw [hhas]
      by_cases hx : x' = x
      · subst hx
        simp only [if_true, Option.some.injEq] at hl
        cases hm : aget op.map1 x' with
        | none =>
          rw [hm] at hl; subst hl
          simp at hk; subst hk; simp
        | some l₀ =>
          rw [hm] at hl
          by_cases hin : (x', y) ∈ l₀
          · simp [hin] at hl; subst hl
            exact ⟨(h.s1 _ _ hm k hk).1, Or.inr (h.s1 _ _ hm k hk).2⟩
          · simp [hin] at hl; subst hl
            rcases List.mem_append.1 hk with hk | hk
            · exact ⟨(h.s1 _ _ hm k hk).1, Or.inr (h.s1 _ _ hm k hk).2⟩
            · simp at hk; subst hk; simp
      · simp only [hx, if_false] at hl
        exact ⟨(h.s1 _ _ hl k hk).1, Or.inr (h.s1 _ _ hl k hk).2⟩
    · intro k hk
      rw [e1, aget_addIdx]
      rcases (hhas k).1 hk with hk | hk
      · subst hk
        simp only [if_true]
        refine ⟨_, rfl, ?_⟩
        cases hm : aget op.map1 x with
        | none => simp
        | some l₀ => by_cases hin : (x, y) ∈ l₀ <;> simp [hin]
      · obtain ⟨l, hl, hkl⟩ := h.c1 k hk
        by_cases hx : k.1 = x
        · simp only [hx, if_true]
          refine ⟨_, rfl, ?_⟩
          rw [hx] at hl
          rw [hl]
          by_cases hin : (x, y) ∈ l <;> simp [hin, hkl]
        · simp only [hx, if_false]
          exact ⟨l, hl, hkl⟩
    · intro y' l hl k hk
      rw [e2, aget_addIdx] at hl
      rw [hhas]
      by_cases hy : y' = y
      · subst hy
        simp only [if_true, Option.some.injEq] at hl
        cases hm : aget op.map2 y' with
        | none =>
          rw [hm] at hl; subst hl
          simp at hk; subst hk; simp
        | some l₀ =>
          rw [hm] at hl
          by_cases hin : (x, y') ∈ l₀
          · simp [hin] at hl; subst hl
            exact ⟨(h.s2 _ _ hm k hk).1, Or.inr (h.s2 _ _ hm k hk).2⟩
          · simp [hin] at hl; subst hl
            rcases List.mem_append.1 hk with hk | hk
            · exact ⟨(h.s2 _ _ hm k hk).1, Or.inr (h.s2 _ _ hm k hk).2⟩
            · simp at hk; subst hk; simp
      · simp only [hy, if_false] at hl
        exact ⟨(h.s2 _ _ hl k hk).1, Or.inr (h.s2 _ _ hl k hk).2⟩
    · intro k hk
      rw [e2, aget_addIdx]
      rcases (hhas k).1 hk with hk | hk
      · subst hk
        simp only [if_true]
        refine ⟨_, rfl, ?_⟩
        cases hm : aget op.map2 y with
        | none => simp
        | some l₀ => by_cases hin : (x, y) ∈ l₀ <;> simp [hin]
      · obtain ⟨l, hl, hkl⟩ := h.c2 k hk
        by_cases hy : k.2 = y
        · simp only [hy, if_true]
          refine ⟨_, rfl, ?_⟩
          rw [hy] at hl
          rw [hl]
          by_cases hin : (x, y) ∈ l <;> simp [hin, hkl]
        · simp only [hy, if_false]
          exact ⟨l, hl, hkl⟩
    · intro x' l hl
      rw [e1, aget_addIdx] at hl
      by_cases hx : x' = x
      · subst hx
        simp only [if_true, Option.some.injEq] at hl
        cases hm : aget op.map1 x' with
        | none => rw [hm] at hl; subst hl; simp
        | some l₀ =>
          rw [hm] at hl
          by_cases hin : (x', y) ∈ l₀
          · simp [hin] at hl; subst hl; exact h.n1 _ _ hm
          · simp [hin] at hl; subst hl
            rw [List.nodup_append]
            exact ⟨h.n1 _ _ hm, by simp, by intro a ha b hb; simp at hb; subst hb; intro e; exact hin (e ▸ ha)⟩
      · simp only [hx, if_false] at hl
        exact h.n1 _ _ hl
    · intro y' l hl
      rw [e2, aget_addIdx] at hl
      by_cases hy : y' = y
      · subst hy
        simp only [if_true, Option.some.injEq] at hl
        cases hm : aget op.map2 y' with
        | none => rw [hm] at hl; subst hl; simp
        | some l₀ =>
          rw [hm] at hl
          by_cases hin : (x, y') ∈ l₀
          · simp [hin] at hl; subst hl; exact h.n2 _ _ hm
          · simp [hin] at hl; subst hl
            rw [List.nodup_append]
            exact ⟨h.n2 _ _ hm, by simp, by intro a ha b hb; simp at hb; subst hb; intro e; exact hin (e ▸ ha)⟩
      · simp only [hy, if_false] at hl
        exact h.n2 _ _ hl
    · rw [e0]; exact akeys_aset_nodup _ _ h.k0
    · rw [e1]; unfold addIdx
      cases aget op.map1 x <;> exact akeys_aset_nodup _ _ h.k1
    · rw [e2]; unfold addIdx
      cases aget op.map2 y <;> exact akeys_aset_nodup _ _ h.k2


/-- uniqueness of the index list of a key -/
theorem map1_items {op : BinOp κ₁ κ₂ β} (h : op.Inv) {x : κ₁} {items : List (κ₁ × κ₂)} (hi : aget op.map1 x = some items)
    (k : κ₁ × κ₂) (hk : op.Has k) : k ∈ items ↔ k.1 = x := by
  constructor
  · intro hm; exact (h.s1 _ _ hi k hm).1
  · intro hx
    obtain ⟨l, hl, hkl⟩ := h.c1 k hk
    rw [hx, hi] at hl
    cases hl; exact hkl

theorem map2_items {op : BinOp κ₁ κ₂ β} (h : op.Inv) {y : κ₂} {items : List (κ₁ × κ₂)} (hi : aget op.map2 y = some items)
    (k : κ₁ × κ₂) (hk : op.Has k) : k ∈ items ↔ k.2 = y := by
  constructor
  · intro hm; exact (h.s2 _ _ hi k hm).1
  · intro hy
    obtain ⟨l, hl, hkl⟩ := h.c2 k hk
    rw [hy, hi] at hl
    cases hl; exact hkl

/-- the table after `invalidateFirst(x)`: exactly the entries with first component `x` are gone -/
theorem invalidateFirst_store {op : BinOp κ₁ κ₂ β} (h : op.Inv) (x : κ₁) (k : κ₁ × κ₂) :
    aget (op.invalidateFirst x).store k = if k.1 = x then none else aget op.store k := by
  unfold invalidateFirst
  cases hi : aget op.map1 x with
  | none =>
    by_cases hx : k.1 = x
    · simp only [hx, if_true]
      cases hs : aget op.store k with
      | none => rfl
      | some v =>
        obtain ⟨l, hl, _⟩ := h.c1 k (by simp [Has, hs])
        rw [hx, hi] at hl; cases hl
    · simp [hx]
  | some items =>
    simp only [aget_foldl_adel]
    by_cases hs : op.Has k
    · by_cases hx : k.1 = x
      · simp [hx, (map1_items h hi k hs).2 hx]
      · have : k ∉ items := fun hm => hx ((map1_items h hi k hs).1 hm)
        simp [hx, this]
    · have : aget op.store k = none := by
        simp only [Has] at hs
        cases hh : aget op.store k with
        | none => rfl
        | some v => simp [hh] at hs
      simp [this]

theorem invalidateSecond_store {op : BinOp κ₁ κ₂ β} (h : op.Inv) (y : κ₂) (k : κ₁ × κ₂) :
    aget (op.invalidateSecond y).store k = if k.2 = y then none else aget op.store k := by
  unfold invalidateSecond
  cases hi : aget op.map2 y with
  | none =>
    by_cases hy : k.2 = y
    · simp only [hy, if_true]
      cases hs : aget op.store k with
      | none => rfl
      | some v =>
        obtain ⟨l, hl, _⟩ := h.c2 k (by simp [Has, hs])
        rw [hy, hi] at hl; cases hl
    · simp [hy]
  | some items =>
    simp only [aget_foldl_adel]
    by_cases hs : op.Has k
    · by_cases hy : k.2 = y
      · simp [hy, (map2_items h hi k hs).2 hy]
      · have : k ∉ items := fun hm => hy ((map2_items h hi k hs).1 hm)
        simp [hy, this]
    · have : aget op.store k = none := by
        simp only [Has] at hs
        cases hh : aget op.store k with
        | none => rfl
        | some v => simp [hh] at hs
      simp [this]

theorem invalidateFirst_has {op : BinOp κ₁ κ₂ β} (h : op.Inv) (x : κ₁) (k : κ₁ × κ₂) :
    (op.invalidateFirst x).Has k ↔ k.1 ≠ x ∧ op.Has k := by
  unfold Has
  rw [invalidateFirst_store h]
  by_cases hx : k.1 = x <;> simp [hx]

theorem invalidateSecond_has {op : BinOp κ₁ κ₂ β} (h : op.Inv) (y : κ₂) (k : κ₁ × κ₂) :
    (op.invalidateSecond y).Has k ↔ k.2 ≠ y ∧ op.Has k := by
  unfold Has
  rw [invalidateSecond_store h]
  by_cases hy : k.2 = y <;> simp [hy]

theorem akeys_foldl_adel_nodup {κ ν : Type} [DecidableEq κ] (items : List κ) (m : List (κ × ν)) (h : (akeys m).Nodup) :
    (akeys (items.foldl (fun s it => adel s it) m)).Nodup := by
  induction items generalizing m with
  | nil => exact h
  | cons it rest ih => exact ih _ (akeys_adel_nodup it h)

theorem akeys_delIdx_nodup {κ ε : Type} [DecidableEq κ] [DecidableEq ε] (m : List (κ × List ε)) (k : κ) (e : ε)
    (h : (akeys m).Nodup) : (akeys (delIdx m k e)).Nodup := by
  unfold delIdx
  cases aget m k with
  | none => exact h
  | some l => exact akeys_aset_nodup _ _ h

theorem akeys_foldl_delIdx_nodup {κ ε : Type} [DecidableEq κ] [DecidableEq ε] (g : ε → κ) (items : List ε)
    (m : List (κ × List ε)) (h : (akeys m).Nodup) : (akeys (items.foldl (fun m it => delIdx m (g it) it) m)).Nodup := by
  induction items generalizing m with
  | nil => exact h
  | cons it rest ih => exact ih _ (akeys_delIdx_nodup _ _ _ h)

theorem invalidateFirst_inv {op : BinOp κ₁ κ₂ β} (h : op.Inv) (x : κ₁) : (op.invalidateFirst x).Inv := by
  have hhas := invalidateFirst_has h x
  cases hi : aget op.map1 x with
  | none =>
    have : op.invalidateFirst x = op := by unfold invalidateFirst; simp [hi]
    rw [this]; exact h
  | some items =>
    have e1 : (op.invalidateFirst x).map1 = adel op.map1 x := by unfold invalidateFirst; simp [hi]
    have e2 : (op.invalidateFirst x).map2 = items.foldl (fun m it => delIdx m it.2 it) op.map2 := by
      unfold invalidateFirst; simp [hi]
    have e0 : (op.invalidateFirst x).store = items.foldl (fun s it => adel s it) op.store := by
      unfold invalidateFirst; simp [hi]
    refine ⟨?_, ?_, ?_, ?_, ?_, ?_, ?_, ?_, ?_⟩
    · intro x' l hl k hk
      rw [e1, aget_adel] at hl
      by_cases hx : x' = x
      · simp [hx] at hl
      · simp only [hx, if_false] at hl
        have := h.s1 _ _ hl k hk
        exact ⟨this.1, (hhas k).2 ⟨by rw [this.1]; exact hx, this.2⟩⟩
    · intro k hk
      obtain ⟨hx, hk'⟩ := (hhas k).1 hk
      obtain ⟨l, hl, hkl⟩ := h.c1 k hk'
      exact ⟨l, by rw [e1, aget_adel]; simp [hx, hl], hkl⟩
    · intro y l hl k hk
      rw [e2, aget_foldl_delIdx (fun e : κ₁ × κ₂ => e.2)] at hl
      cases hm : aget op.map2 y with
      | none => simp [hm] at hl
      | some l₀ =>
        simp only [hm, Option.map_some, Option.some.injEq] at hl
        subst hl
        simp only [List.mem_filter, Bool.not_eq_true', decide_eq_false_iff_not, not_and] at hk
        have := h.s2 _ _ hm k hk.1
        refine ⟨this.1, (hhas k).2 ⟨?_, this.2⟩⟩
        intro hx
        exact hk.2 ((map1_items h hi k this.2).2 hx) this.1
    · intro k hk
      obtain ⟨hx, hk'⟩ := (hhas k).1 hk
      obtain ⟨l, hl, hkl⟩ := h.c2 k hk'
      refine ⟨_, by rw [e2, aget_foldl_delIdx (fun e : κ₁ × κ₂ => e.2), hl]; rfl, ?_⟩
      simp only [List.mem_filter, Bool.not_eq_true', decide_eq_false_iff_not, not_and]
      exact ⟨hkl, fun hm => absurd ((map1_items h hi k hk').1 hm) hx⟩
    · intro x' l hl
      rw [e1, aget_adel] at hl
      by_cases hx : x' = x
      · simp [hx] at hl
      · simp only [hx, if_false] at hl; exact h.n1 _ _ hl
    · intro y l hl
      rw [e2, aget_foldl_delIdx (fun e : κ₁ × κ₂ => e.2)] at hl
      cases hm : aget op.map2 y with
      | none => simp [hm] at hl
      | some l₀ =>
        simp only [hm, Option.map_some, Option.some.injEq] at hl
        subst hl
        exact List.Nodup.sublist List.filter_sublist (h.n2 _ _ hm)
    · rw [e0]; exact akeys_foldl_adel_nodup _ _ h.k0
    · rw [e1]; exact akeys_adel_nodup _ h.k1
    · rw [e2]; exact akeys_foldl_delIdx_nodup (fun e : κ₁ × κ₂ => e.2) _ _ h.k2

theorem invalidateSecond_inv {op : BinOp κ₁ κ₂ β} (h : op.Inv) (y : κ₂) : (op.invalidateSecond y).Inv := by
  have hhas := invalidateSecond_has h y
  cases hi : aget op.map2 y with
  | none =>
    have : op.invalidateSecond y = op := by unfold invalidateSecond; simp [hi]
    rw [this]; exact h
  | some items =>
    have e2 : (op.invalidateSecond y).map2 = adel op.map2 y := by unfold invalidateSecond; simp [hi]
    have e1 : (op.invalidateSecond y).map1 = items.foldl (fun m it => delIdx m it.1 it) op.map1 := by
      unfold invalidateSecond; simp [hi]
    have e0 : (op.invalidateSecond y).store = items.foldl (fun s it => adel s it) op.store := by
      unfold invalidateSecond; simp [hi]
    refine ⟨?_, ?_, ?_, ?_, ?_, ?_, ?_, ?_, ?_⟩
    · intro x l hl k hk
      rw [e1, aget_foldl_delIdx (fun e : κ₁ × κ₂ => e.1)] at hl
      cases hm : aget op.map1 x with
      | none => simp [hm] at hl
      | some l₀ =>
        simp only [hm, Option.map_some, Option.some.injEq] at hl
        subst hl
        simp only [List.mem_filter, Bool.not_eq_true', decide_eq_false_iff_not, not_and] at hk
        have := h.s1 _ _ hm k hk.1
        refine ⟨this.1, (hhas k).2 ⟨?_, this.2⟩⟩
        intro hy
        exact hk.2 ((map2_items h hi k this.2).2 hy) this.1
    · intro k hk
      obtain ⟨hy, hk'⟩ := (hhas k).1 hk
      obtain ⟨l, hl, hkl⟩ := h.c1 k hk'
      refine ⟨_, by rw [e1, aget_foldl_delIdx (fun e : κ₁ × κ₂ => e.1), hl]; rfl, ?_⟩
      simp only [List.mem_filter, Bool.not_eq_true', decide_eq_false_iff_not, not_and]
      exact ⟨hkl, fun hm => absurd ((map2_items h hi k hk').1 hm) hy⟩
    · intro y' l hl k hk
      rw [e2, aget_adel] at hl
      by_cases hy : y' = y
      · simp [hy] at hl
      · simp only [hy, if_false] at hl
        have := h.s2 _ _ hl k hk
        exact ⟨this.1, (hhas k).2 ⟨by rw [this.1]; exact hy, this.2⟩⟩
    · intro k hk
      obtain ⟨hy, hk'⟩ := (hhas k).1 hk
      obtain ⟨l, hl, hkl⟩ := h.c2 k hk'
      exact ⟨l, by rw [e2, aget_adel]; simp [hy, hl], hkl⟩
    · intro x l hl
      rw [e1, aget_foldl_delIdx (fun e : κ₁ × κ₂ => e.1)] at hl
      cases hm : aget op.map1 x with
      | none => simp [hm] at hl
      | some l₀ =>
        simp only [hm, Option.map_some, Option.some.injEq] at hl
        subst hl
        exact List.Nodup.sublist List.filter_sublist (h.n1 _ _ hm)
    · intro y' l hl
      rw [e2, aget_adel] at hl
      by_cases hy : y' = y
      · simp [hy] at hl
      · simp only [hy, if_false] at hl; exact h.n2 _ _ hl
    · rw [e0]; exact akeys_foldl_adel_nodup _ _ h.k0
    · rw [e1]; exact akeys_foldl_delIdx_nodup (fun e : κ₁ × κ₂ => e.1) _ _ h.k1
    · rw [e2]; exact akeys_adel_nodup _ h.k2

/-- the `assert(j != storeMap2_.end())` inside `invalidateFirst` never fires -/
theorem assertsFirst_true {op : BinOp κ₁ κ₂ β} (h : op.Inv) (x : κ₁) : op.assertsFirst x = true := by
  unfold assertsFirst
  cases hi : aget op.map1 x with
  | none => rfl
  | some items =>
    simp only [List.all_eq_true]
    intro it hit
    obtain ⟨l, hl, _⟩ := h.c2 it (h.s1 _ _ hi it hit).2
    simp [hl]

theorem assertsSecond_true {op : BinOp κ₁ κ₂ β} (h : op.Inv) (y : κ₂) : op.assertsSecond y = true := by
  unfold assertsSecond
  cases hi : aget op.map2 y with
  | none => rfl
  | some items =>
    simp only [List.all_eq_true]
    intro it hit
    obtain ⟨l, hl, _⟩ := h.c1 it (h.s2 _ _ hi it hit).2
    simp [hl]

theorem has_iff_mem_keys (op : BinOp κ₁ κ₂ β) (k : κ₁ × κ₂) : op.Has k ↔ k ∈ akeys op.store := by
  unfold Has akeys
  constructor
  · intro h
    cases hg : aget op.store k with
    | none => simp [hg] at h
    | some v => exact List.mem_map.2 ⟨_, aget_mem hg, rfl⟩
  · intro h
    rcases List.mem_map.1 h with ⟨⟨k', v⟩, hm, rfl⟩
    obtain ⟨v', hv'⟩ := aget_of_mem hm
    simp [hv']

/-- **(3)** in terms of the CONTENTS of the three containers: the entries listed by `storeMap1_` (`storeMap2_`) are exactly
    the entries of `store_`, each filed under its own first (second) component, each once -/
theorem Inv.exact_mem {op : BinOp κ₁ κ₂ β} (h : op.Inv) (k : κ₁ × κ₂) :
    (k ∈ akeys op.store ↔ ∃ l, (k.1, l) ∈ op.map1 ∧ k ∈ l) ∧ (k ∈ akeys op.store ↔ ∃ l, (k.2, l) ∈ op.map2 ∧ k ∈ l) := by
  rw [← has_iff_mem_keys]
  constructor
  · constructor
    · intro hk
      obtain ⟨l, hl, hkl⟩ := h.c1 k hk
      exact ⟨l, aget_mem hl, hkl⟩
    · rintro ⟨l, hl, hkl⟩
      exact (h.s1 _ _ (aget_of_mem_nodup h.k1 hl) k hkl).2
  · constructor
    · intro hk
      obtain ⟨l, hl, hkl⟩ := h.c2 k hk
      exact ⟨l, aget_mem hl, hkl⟩
    · rintro ⟨l, hl, hkl⟩
      exact (h.s2 _ _ (aget_of_mem_nodup h.k2 hl) k hkl).2

theorem Inv.filed {op : BinOp κ₁ κ₂ β} (h : op.Inv) :
    (∀ x l, (x, l) ∈ op.map1 → l.Nodup ∧ ∀ k ∈ l, k.1 = x) ∧ (∀ y l, (y, l) ∈ op.map2 → l.Nodup ∧ ∀ k ∈ l, k.2 = y) :=
  ⟨fun _ _ hl => ⟨h.n1 _ _ (aget_of_mem_nodup h.k1 hl), fun k hk => (h.s1 _ _ (aget_of_mem_nodup h.k1 hl) k hk).1⟩,
   fun _ _ hl => ⟨h.n2 _ _ (aget_of_mem_nodup h.k2 hl), fun k hk => (h.s2 _ _ (aget_of_mem_nodup h.k2 hl) k hk).1⟩⟩

end BinOp

/-! ### the cache and the handles -/
section Sys
set_option linter.unusedSectionVars false
variable {α : Type} [DecidableEq α]

/-- representation invariant of the `Cache` together with all `shared_ptr`s that refer to it -/
structure HeapInv (s : Sys α) : Prop where
  /-- one object per value (`store_` is a map) -/
  u1 : ∀ e e', e ∈ s.store → e' ∈ s.store → e.1 = e'.1 → e = e'
  /-- one object per address -/
  u2 : ∀ e e', e ∈ s.store → e' ∈ s.store → e.2.1 = e'.2.1 → e = e'
  /-- the `use_count` of an object is the number of handles that point to it, and it is positive -/
  rc : ∀ v id n, (v, id, n) ∈ s.store → n = s.handles.count (some id) ∧ 0 < n
  /-- no dangling handle -/
  hl : ∀ id, some id ∈ s.handles → id ∈ ids s.store

/-- every entry of a memo table is about live objects and holds the value of the memoised function on them -/
structure Sound (c : Cfg α) (s : Sys α) : Prop where
  lte : ∀ a b r, aget s.lte.store (a, b) = some r →
    ∃ va na vb nb, (va, a, na) ∈ s.store ∧ (vb, b, nb) ∈ s.store ∧ r = c.F va vb
  ev : ∀ k b r, aget s.ev.store (k, b) = some r → ∃ vb nb, (vb, b, nb) ∈ s.store ∧ r = c.G k vb

/-- the invariant of all reachable states, also in the middle of a statement (`tmp` in use) -/
structure InvG (c : Cfg α) (s : Sys α) : Prop where
  heap : HeapInv s
  lte : s.lte.Inv
  ev : s.ev.Inv
  sound : c.wiring = .lib → Sound c s

def StoreLe (st st' : List (α × Nat × Nat)) : Prop := ∀ v id n, (v, id, n) ∈ st → ∃ n', (v, id, n') ∈ st'

theorem Sound.mono {c : Cfg α} {s s' : Sys α} (h : Sound c s) (hle : StoreLe s.store s'.store) (e1 : s'.lte = s.lte)
    (e2 : s'.ev = s.ev) : Sound c s' := by
  constructor
  · intro a b r hr
    rw [e1] at hr
    obtain ⟨va, na, vb, nb, h1, h2, h3⟩ := h.lte a b r hr
    obtain ⟨na', h1'⟩ := hle _ _ _ h1
    obtain ⟨nb', h2'⟩ := hle _ _ _ h2
    exact ⟨va, na', vb, nb', h1', h2', h3⟩
  · intro k b r hr
    rw [e2] at hr
    obtain ⟨vb, nb, h1, h2⟩ := h.ev k b r hr
    obtain ⟨nb', h1'⟩ := hle _ _ _ h1
    exact ⟨vb, nb', h1', h2⟩

theorem mem_ids {st : List (α × Nat × Nat)} {id : Nat} : id ∈ ids st ↔ ∃ v n, (v, id, n) ∈ st := by
  unfold ids
  constructor
  · intro h
    rcases List.mem_map.1 h with ⟨⟨v, i, n⟩, he, rfl⟩
    exact ⟨v, n, he⟩
  · rintro ⟨v, n, h⟩
    exact List.mem_map.2 ⟨_, h, rfl⟩

theorem aget_store_iff {s : Sys α} (h : HeapInv s) {v : α} {x : Nat × Nat} : aget s.store v = some x ↔ (v, x) ∈ s.store := by
  constructor
  · exact aget_mem
  · intro hm
    obtain ⟨x', hx'⟩ := aget_of_mem hm
    have := h.u1 _ _ (aget_mem hx') hm rfl
    cases this; exact hx'

theorem byId_iff {s : Sys α} (h : HeapInv s) {id : Nat} {v : α} {n : Nat} :
    byId s.store id = some (v, n) ↔ (v, id, n) ∈ s.store := by
  unfold byId
  constructor
  · intro hg
    rcases List.mem_map.1 (aget_mem hg) with ⟨⟨v', id', n'⟩, he, hf⟩
    simp only [Prod.mk.injEq] at hf
    obtain ⟨rfl, rfl, rfl⟩ := hf
    exact he
  · intro hm
    have hm' : (id, (v, n)) ∈ s.store.map (fun e => (e.2.1, (e.1, e.2.2))) := List.mem_map.2 ⟨_, hm, rfl⟩
    obtain ⟨x, hx⟩ := aget_of_mem hm'
    rcases List.mem_map.1 (aget_mem hx) with ⟨⟨v', id', n'⟩, he, hf⟩
    simp only [Prod.mk.injEq] at hf
    obtain ⟨rfl, rfl⟩ := hf
    have := h.u2 _ _ he hm rfl
    cases this; exact hx

theorem byId_none_iff {s : Sys α} (h : HeapInv s) {id : Nat} : byId s.store id = none ↔ id ∉ ids s.store := by
  constructor
  · intro hn hm
    obtain ⟨v, n, hv⟩ := mem_ids.1 hm
    rw [(byId_iff h).2 hv] at hn; cases hn
  · intro hn
    cases hb : byId s.store id with
    | none => rfl
    | some x =>
      obtain ⟨v, n⟩ := x
      exact absurd (mem_ids.2 ⟨v, n, (byId_iff h).1 hb⟩) hn

theorem perm_swap {β : Type} (t : β) (l : List β) (i : Nat) (x : β) (h : l[i]? = some x) :
    (x :: l.set i t).Perm (t :: l) := by
  induction l generalizing i with
  | nil => simp at h
  | cons a l ih =>
    cases i with
    | zero =>
      simp at h; subst h
      exact List.Perm.swap _ _ _
    | succ i =>
      simp at h
      exact ((List.Perm.swap _ _ _).trans ((ih i h).cons a)).trans (List.Perm.swap _ _ _)

/-! #### the primitives keep the heap invariant -/

/-- one more handle (the temporary) to an existing object -/
theorem HeapInv.bump {s : Sys α} (h : HeapInv s) (ht : s.tmp = none) {v : α} {id n : Nat} (hm : (v, id, n) ∈ s.store) :
    HeapInv { s with store := aset s.store v (id, n + 1), tmp := some id } := by
  constructor
  · intro e e' he he' hee
    simp only [mem_aset] at he he'
    rcases he with ⟨he, hne⟩ | rfl <;> rcases he' with ⟨he', hne'⟩ | rfl
    · exact h.u1 _ _ he he' hee
    · exact absurd hee hne
    · exact absurd hee.symm hne'
    · rfl
  · intro e e' he he' hee
    simp only [mem_aset] at he he'
    rcases he with ⟨he, hne⟩ | rfl <;> rcases he' with ⟨he', hne'⟩ | rfl
    · exact h.u2 _ _ he he' hee
    · have := h.u2 _ _ he hm hee
      subst this; exact absurd rfl hne
    · have := h.u2 _ _ he' hm hee.symm
      subst this; exact absurd rfl hne'
    · rfl
  · intro v' id' n' hm'
    simp only [mem_aset] at hm'
    rcases hm' with ⟨hm', hne⟩ | heq
    · have hid : id' ≠ id := by
        intro e; subst e
        have := h.u2 _ _ hm' hm rfl
        cases this; exact hne rfl
      have hrc := h.rc _ _ _ hm'
      simp only [Sys.handles, ht, List.count_cons] at hrc
      simp only [Sys.handles, List.count_cons]
      have e1 : ((some id : Option Nat) == some id') = false := by simp; exact fun e => hid e.symm
      simp [e1] at hrc ⊢
      exact hrc
    · cases heq
      have hrc := h.rc _ _ _ hm
      simp only [Sys.handles, ht, List.count_cons] at hrc
      simp only [Sys.handles, List.count_cons]
      simp at hrc ⊢
      omega
  · intro id' hid'
    simp only [Sys.handles, List.mem_cons] at hid'
    rw [mem_ids]
    rcases hid' with e | hid'
    · cases e; exact ⟨v, n + 1, mem_aset.2 (Or.inr rfl)⟩
    · have : id' ∈ ids s.store := h.hl id' (by simp [Sys.handles, hid'])
      obtain ⟨v', n', hv'⟩ := mem_ids.1 this
      by_cases hvv : v' = v
      · subst hvv
        have := h.u1 _ _ hv' hm rfl
        cases this
        exact ⟨v', n + 1, mem_aset.2 (Or.inr rfl)⟩
      · exact ⟨v', n', mem_aset.2 (Or.inl ⟨hv', hvv⟩)⟩

theorem storeLe_aset {st : List (α × Nat × Nat)} {v : α} {id n n' : Nat} (hm : (v, id, n) ∈ st)
    (hu : ∀ e e', e ∈ st → e' ∈ st → e.1 = e'.1 → e = e') : StoreLe st (aset st v (id, n')) := by
  intro v' id' m hm'
  by_cases hvv : v' = v
  · subst hvv
    have := hu _ _ hm' hm rfl
    cases this
    exact ⟨n', mem_aset.2 (Or.inr rfl)⟩
  · exact ⟨m, mem_aset.2 (Or.inl ⟨hm', hvv⟩)⟩


/-- a new object at an address no live object has -/
theorem HeapInv.fresh {s : Sys α} (h : HeapInv s) (ht : s.tmp = none) {v : α} {ch : Nat} (hv : aget s.store v = none)
    (hc : ch ∉ ids s.store) : HeapInv { s with store := aset s.store v (ch, 1), tmp := some ch } := by
  have hvn : ∀ x, (v, x) ∉ s.store := by
    intro x hx
    rw [(aget_store_iff h).2 hx] at hv; cases hv
  constructor
  · intro e e' he he' hee
    simp only [mem_aset] at he he'
    rcases he with ⟨he, hne⟩ | rfl <;> rcases he' with ⟨he', hne'⟩ | rfl
    · exact h.u1 _ _ he he' hee
    · exact absurd hee hne
    · exact absurd hee.symm hne'
    · rfl
  · intro e e' he he' hee
    simp only [mem_aset] at he he'
    rcases he with ⟨he, hne⟩ | rfl <;> rcases he' with ⟨he', hne'⟩ | rfl
    · exact h.u2 _ _ he he' hee
    · obtain ⟨v', id', n'⟩ := e
      simp only at hee; subst hee
      exact absurd (mem_ids.2 ⟨v', n', he⟩) hc
    · obtain ⟨v', id', n'⟩ := e'
      simp only at hee; subst hee
      exact absurd (mem_ids.2 ⟨v', n', he'⟩) hc
    · rfl
  · intro v' id' n' hm'
    simp only [mem_aset] at hm'
    rcases hm' with ⟨hm', hne⟩ | heq
    · have hid : id' ≠ ch := by
        intro e; subst e
        exact hc (mem_ids.2 ⟨v', n', hm'⟩)
      have hrc := h.rc _ _ _ hm'
      simp only [Sys.handles, ht, List.count_cons] at hrc
      simp only [Sys.handles, List.count_cons]
      have e1 : ((some ch : Option Nat) == some id') = false := by simp; exact fun e => hid e.symm
      simp [e1] at hrc ⊢
      exact hrc
    · cases heq
      simp only [Sys.handles, List.count_cons]
      have : List.count (some ch) s.slots = 0 := by
        rw [List.count_eq_zero]
        intro hm
        exact hc (h.hl ch (by simp [Sys.handles, hm]))
      simp [this]
  · intro id' hid'
    simp only [Sys.handles, List.mem_cons] at hid'
    rw [mem_ids]
    rcases hid' with e | hid'
    · cases e; exact ⟨v, 1, mem_aset.2 (Or.inr rfl)⟩
    · have : id' ∈ ids s.store := h.hl id' (by simp [Sys.handles, hid'])
      obtain ⟨v', n', hv'⟩ := mem_ids.1 this
      have hvv : v' ≠ v := by intro e; subst e; exact hvn _ hv'
      exact ⟨v', n', mem_aset.2 (Or.inl ⟨hv', hvv⟩)⟩

theorem storeLe_aset_new {st : List (α × Nat × Nat)} {v : α} {x : Nat × Nat} (hv : ∀ y, (v, y) ∉ st) :
    StoreLe st (aset st v x) := by
  intro v' id' m hm'
  have hvv : v' ≠ v := by intro e; subst e; exact hv _ hm'
  exact ⟨m, mem_aset.2 (Or.inl ⟨hm', hvv⟩)⟩

/-- `tmp.swap(slot[i])` -/
theorem HeapInv.swap {s : Sys α} (h : HeapInv s) {i : Nat} {x : Option Nat} (hi : s.slots[i]? = some x) :
    HeapInv { s with slots := s.slots.set i s.tmp, tmp := x } := by
  have hp : (x :: s.slots.set i s.tmp).Perm (s.tmp :: s.slots) := perm_swap _ _ _ _ hi
  constructor
  · exact h.u1
  · exact h.u2
  · intro v id n hm
    have := h.rc v id n hm
    simp only [Sys.handles] at this ⊢
    rw [hp.count_eq]; exact this
  · intro id hid
    simp only [Sys.handles] at hid
    exact h.hl id (by simp only [Sys.handles]; exact hp.mem_iff.1 hid)

/-- the temporary dies, other handles to its object remain -/
theorem HeapInv.dropShared {s : Sys α} (h : HeapInv s) {id : Nat} (ht : s.tmp = some id) {v : α} {n : Nat}
    (hm : (v, id, n) ∈ s.store) (hn : ¬ n ≤ 1) : HeapInv { s with store := aset s.store v (id, n - 1), tmp := none } := by
  constructor
  · intro e e' he he' hee
    simp only [mem_aset] at he he'
    rcases he with ⟨he, hne⟩ | rfl <;> rcases he' with ⟨he', hne'⟩ | rfl
    · exact h.u1 _ _ he he' hee
    · exact absurd hee hne
    · exact absurd hee.symm hne'
    · rfl
  · intro e e' he he' hee
    simp only [mem_aset] at he he'
    rcases he with ⟨he, hne⟩ | rfl <;> rcases he' with ⟨he', hne'⟩ | rfl
    · exact h.u2 _ _ he he' hee
    · have := h.u2 _ _ he hm hee
      subst this; exact absurd rfl hne
    · have := h.u2 _ _ he' hm hee.symm
      subst this; exact absurd rfl hne'
    · rfl
  · intro v' id' n' hm'
    simp only [mem_aset] at hm'
    rcases hm' with ⟨hm', hne⟩ | heq
    · have hid : id' ≠ id := by
        intro e; subst e
        have := h.u2 _ _ hm' hm rfl
        cases this; exact hne rfl
      have hrc := h.rc _ _ _ hm'
      simp only [Sys.handles, ht, List.count_cons] at hrc
      simp only [Sys.handles, List.count_cons]
      have e1 : ((some id : Option Nat) == some id') = false := by simp; exact fun e => hid e.symm
      simp [e1] at hrc ⊢
      exact hrc
    · cases heq
      have hrc := h.rc _ _ _ hm
      simp only [Sys.handles, ht, List.count_cons] at hrc
      simp only [Sys.handles, List.count_cons]
      simp at hrc ⊢
      omega
  · intro id' hid'
    simp only [Sys.handles, List.mem_cons] at hid'
    rw [mem_ids]
    rcases hid' with e | hid'
    · cases e
    · have : id' ∈ ids s.store := h.hl id' (by simp [Sys.handles, hid'])
      obtain ⟨v', n', hv'⟩ := mem_ids.1 this
      by_cases hvv : v' = v
      · subst hvv
        have := h.u1 _ _ hv' hm rfl
        cases this
        exact ⟨v', n - 1, mem_aset.2 (Or.inr rfl)⟩
      · exact ⟨v', n', mem_aset.2 (Or.inl ⟨hv', hvv⟩)⟩

/-- the last handle dies: the object is erased from `store_` -/
theorem HeapInv.dropLast {s : Sys α} (h : HeapInv s) {id : Nat} (ht : s.tmp = some id) {v : α} {n : Nat}
    (hm : (v, id, n) ∈ s.store) (hn : n ≤ 1) : HeapInv { s with store := adel s.store v, tmp := none } := by
  have hrc := h.rc _ _ _ hm
  simp only [Sys.handles, ht, List.count_cons] at hrc
  simp at hrc
  have hcnt : List.count (some id) s.slots = 0 := by omega
  constructor
  · intro e e' he he' hee
    exact h.u1 _ _ (mem_adel.1 he).1 (mem_adel.1 he').1 hee
  · intro e e' he he' hee
    exact h.u2 _ _ (mem_adel.1 he).1 (mem_adel.1 he').1 hee
  · intro v' id' n' hm'
    obtain ⟨hm', hne⟩ := mem_adel.1 hm'
    have hid : id' ≠ id := by
      intro e; subst e
      have := h.u2 _ _ hm' hm rfl
      cases this; exact hne rfl
    have hrc' := h.rc _ _ _ hm'
    simp only [Sys.handles, ht, List.count_cons] at hrc'
    simp only [Sys.handles, List.count_cons]
    have e1 : ((some id : Option Nat) == some id') = false := by simp; exact fun e => hid e.symm
    simp [e1] at hrc' ⊢
    exact hrc'
  · intro id' hid'
    simp only [Sys.handles, List.mem_cons] at hid'
    rw [mem_ids]
    rcases hid' with e | hid'
    · cases e
    · have : id' ∈ ids s.store := h.hl id' (by simp [Sys.handles, hid'])
      obtain ⟨v', n', hv'⟩ := mem_ids.1 this
      have hid : id' ≠ id := by
        intro e; subst e
        exact (List.count_eq_zero.1 hcnt) hid'
      have hvv : v' ≠ v := by
        intro e; subst e
        have := h.u1 _ _ hv' hm rfl
        cases this; exact hid rfl
      exact ⟨v', n', mem_adel.2 ⟨hv', hvv⟩⟩


theorem HeapInv.congr {s s' : Sys α} (h : HeapInv s) (e1 : s'.store = s.store) (e2 : s'.tmp = s.tmp)
    (e3 : s'.slots = s.slots) : HeapInv s' := by
  constructor
  · rw [e1]; exact h.u1
  · rw [e1]; exact h.u2
  · intro v id n hm
    rw [e1] at hm
    simp only [Sys.handles, e2, e3]
    exact h.rc v id n hm
  · intro id hid
    simp only [Sys.handles, e2, e3] at hid
    rw [e1]; exact h.hl id hid

/-! #### the primitives keep the whole invariant -/

theorem intern_inv {c : Cfg α} {s s' : Sys α} {v : α} {ch id : Nat} (h : InvG c s) (hi : intern s v ch = some (s', id)) :
    InvG c s' ∧ s'.tmp = some id ∧ s'.slots = s.slots ∧ (∃ n, (v, id, n) ∈ s'.store) := by
  unfold intern at hi
  cases ht : s.tmp with
  | some t => simp [ht] at hi
  | none =>
    simp only [ht] at hi
    cases hv : aget s.store v with
    | some x =>
      obtain ⟨id₀, n⟩ := x
      simp only [hv, Option.some.injEq, Prod.mk.injEq] at hi
      obtain ⟨rfl, rfl⟩ := hi
      have hm := (aget_store_iff h.heap).1 hv
      refine ⟨⟨h.heap.bump ht hm, h.lte, h.ev, fun hw => (h.sound hw).mono (storeLe_aset hm h.heap.u1) rfl rfl⟩, rfl, rfl,
        ⟨n + 1, mem_aset.2 (Or.inr rfl)⟩⟩
    | none =>
      simp only [hv] at hi
      by_cases hc : ch ∈ ids s.store
      · simp [hc] at hi
      · simp only [hc, if_false, Option.some.injEq, Prod.mk.injEq] at hi
        obtain ⟨rfl, rfl⟩ := hi
        have hvn : ∀ x, (v, x) ∉ s.store := by
          intro x hx
          rw [(aget_store_iff h.heap).2 hx] at hv; cases hv
        refine ⟨⟨h.heap.fresh ht hv hc, h.lte, h.ev, fun hw => (h.sound hw).mono (storeLe_aset_new hvn) rfl rfl⟩, rfl, rfl,
          ⟨1, mem_aset.2 (Or.inr rfl)⟩⟩

theorem findTmp_inv {c : Cfg α} {s s' : Sys α} {v : α} {r : Option Nat} (h : InvG c s) (hi : findTmp s v = some (s', r)) :
    InvG c s' ∧ s'.tmp = r ∧ s'.slots = s.slots := by
  unfold findTmp at hi
  cases ht : s.tmp with
  | some t => simp [ht] at hi
  | none =>
    simp only [ht] at hi
    cases hv : aget s.store v with
    | some x =>
      obtain ⟨id₀, n⟩ := x
      simp only [hv, Option.some.injEq, Prod.mk.injEq] at hi
      obtain ⟨rfl, rfl⟩ := hi
      have hm := (aget_store_iff h.heap).1 hv
      exact ⟨⟨h.heap.bump ht hm, h.lte, h.ev, fun hw => (h.sound hw).mono (storeLe_aset hm h.heap.u1) rfl rfl⟩, rfl, rfl⟩
    | none =>
      simp only [hv, Option.some.injEq, Prod.mk.injEq] at hi
      obtain ⟨rfl, rfl⟩ := hi
      exact ⟨h, ht, rfl⟩

theorem dupTmp_inv {c : Cfg α} {s s' : Sys α} {i : Nat} (h : InvG c s) (hi : dupTmp s i = some s') :
    InvG c s' ∧ s'.slots = s.slots := by
  unfold dupTmp at hi
  cases ht : s.tmp with
  | some t => simp [ht] at hi
  | none =>
    simp only [ht] at hi
    cases hs : s.slots[i]? with
    | none => simp [hs] at hi
    | some x =>
      cases x with
      | none =>
        simp only [hs, Option.some.injEq] at hi
        subst hi; exact ⟨h, rfl⟩
      | some id =>
        simp only [hs] at hi
        cases hb : byId s.store id with
        | none => simp [hb] at hi
        | some y =>
          obtain ⟨v, n⟩ := y
          simp only [hb, Option.some.injEq] at hi
          subst hi
          have hm := (byId_iff h.heap).1 hb
          exact ⟨⟨h.heap.bump ht hm, h.lte, h.ev, fun hw => (h.sound hw).mono (storeLe_aset hm h.heap.u1) rfl rfl⟩, rfl⟩

theorem swapTmp_inv {c : Cfg α} {s s' : Sys α} {i : Nat} (h : InvG c s) (hi : swapTmp s i = some s') :
    InvG c s' ∧ s'.slots.length = s.slots.length := by
  unfold swapTmp at hi
  cases hs : s.slots[i]? with
  | none => simp [hs] at hi
  | some x =>
    simp only [hs, Option.some.injEq] at hi
    subst hi
    exact ⟨⟨h.heap.swap hs, h.lte, h.ev, fun hw => (h.sound hw).mono (fun v id n hm => ⟨n, hm⟩) rfl rfl⟩, by simp⟩

theorem userDeleter_store (w : Wiring) (s : Sys α) (id : Nat) :
    (userDeleter w s id).store = s.store ∧ (userDeleter w s id).tmp = s.tmp ∧ (userDeleter w s id).slots = s.slots := by
  cases w <;> simp [userDeleter]

theorem userDeleter_tabs (w : Wiring) {s : Sys α} (hl : s.lte.Inv) (he : s.ev.Inv) (id : Nat) :
    (userDeleter w s id).lte.Inv ∧ (userDeleter w s id).ev.Inv := by
  cases w
  · exact ⟨BinOp.invalidateSecond_inv (BinOp.invalidateFirst_inv hl id) id, BinOp.invalidateSecond_inv he id⟩
  · exact ⟨BinOp.invalidateFirst_inv (BinOp.invalidateFirst_inv hl id) id, BinOp.invalidateSecond_inv he id⟩
  · exact ⟨hl, he⟩

/-- after the library's deleter no entry mentions the dying address (the heart of memo soundness) -/
theorem userDeleter_lib_keys {s : Sys α} (hl : s.lte.Inv) (he : s.ev.Inv) (id : Nat) :
    (∀ a b r, aget (userDeleter .lib s id).lte.store (a, b) = some r → a ≠ id ∧ b ≠ id ∧ aget s.lte.store (a, b) = some r) ∧
    (∀ k b r, aget (userDeleter .lib s id).ev.store (k, b) = some r → b ≠ id ∧ aget s.ev.store (k, b) = some r) := by
  constructor
  · intro a b r hr
    simp only [userDeleter] at hr
    rw [BinOp.invalidateSecond_store (BinOp.invalidateFirst_inv hl id), BinOp.invalidateFirst_store hl] at hr
    by_cases hb : b = id
    · simp [hb] at hr
    · by_cases ha : a = id
      · simp [ha, hb] at hr
      · simp only [hb, ha, if_false] at hr
        exact ⟨ha, hb, hr⟩
  · intro k b r hr
    simp only [userDeleter] at hr
    rw [BinOp.invalidateSecond_store he] at hr
    by_cases hb : b = id
    · simp [hb] at hr
    · simp only [hb, if_false] at hr
      exact ⟨hb, hr⟩

theorem dropTmp_inv {c : Cfg α} {s : Sys α} (h : InvG c s) :
    InvG c (dropTmp c.wiring s) ∧ (dropTmp c.wiring s).tmp = none ∧ (dropTmp c.wiring s).slots = s.slots := by
  unfold dropTmp
  cases ht : s.tmp with
  | none => exact ⟨h, ht, rfl⟩
  | some id =>
    simp only
    have hlive : id ∈ ids s.store := h.heap.hl id (by simp [Sys.handles, ht])
    cases hb : byId s.store id with
    | none => exact absurd hlive ((byId_none_iff h.heap).1 hb)
    | some y =>
      obtain ⟨v, n⟩ := y
      have hm := (byId_iff h.heap).1 hb
      simp only
      by_cases hn : n ≤ 1
      · simp only [hn, if_true]
        obtain ⟨es, et, esl⟩ := userDeleter_store c.wiring s id
        obtain ⟨il, ie⟩ := userDeleter_tabs c.wiring h.lte h.ev id
        refine ⟨⟨?_, il, ie, ?_⟩, by trivial, esl⟩
        · have := h.heap.dropLast ht hm hn
          exact this.congr (by simp [es]) rfl (by simp [esl])
        · intro hw
          have hS := h.sound hw
          rw [hw]
          obtain ⟨k1, k2⟩ := userDeleter_lib_keys (s := s) h.lte h.ev id
          have keep : ∀ v' a n', (v', a, n') ∈ s.store → a ≠ id → (v', a, n') ∈ adel s.store v := by
            intro v' a n' hm' ha
            refine mem_adel.2 ⟨hm', ?_⟩
            intro e
            simp only at e; subst e
            have := h.heap.u1 _ _ hm' hm rfl
            cases this; exact ha rfl
          constructor
          · intro a b r hr
            obtain ⟨ha, hb, hr'⟩ := k1 a b r hr
            obtain ⟨va, na, vb, nb, h1, h2, h3⟩ := hS.lte a b r hr'
            have e := (userDeleter_store Wiring.lib s id).1
            exact ⟨va, na, vb, nb, by simp only [e]; exact keep _ _ _ h1 ha, by simp only [e]; exact keep _ _ _ h2 hb, h3⟩
          · intro k b r hr
            obtain ⟨hb, hr'⟩ := k2 k b r hr
            obtain ⟨vb, nb, h1, h2⟩ := hS.ev k b r hr'
            have e := (userDeleter_store Wiring.lib s id).1
            exact ⟨vb, nb, by simp only [e]; exact keep _ _ _ h1 hb, h2⟩
      · simp only [hn, if_false]
        exact ⟨⟨h.heap.dropShared ht hm hn, h.lte, h.ev, fun hw => (h.sound hw).mono (storeLe_aset hm h.heap.u1) rfl rfl⟩,
          by trivial, by trivial⟩


/-! #### the memo tables -/

theorem slotId_eq {s : Sys α} {i a : Nat} : slotId s i = some a ↔ s.slots[i]? = some (some a) := by
  unfold slotId
  cases h : s.slots[i]? with
  | none => simp
  | some x => cases x <;> simp

theorem slotId_live {s : Sys α} (h : HeapInv s) {i a : Nat} (hs : slotId s i = some a) : ∃ v n, (v, a, n) ∈ s.store := by
  have := List.mem_of_getElem? (slotId_eq.1 hs)
  exact mem_ids.1 (h.hl a (by simp [Sys.handles, this]))

theorem derefF_eq {c : Cfg α} {s : Sys α} (h : HeapInv s) {a b : Nat} {va vb : α} {na nb : Nat}
    (ha : (va, a, na) ∈ s.store) (hb : (vb, b, nb) ∈ s.store) : derefF c s a b = c.F va vb := by
  unfold derefF
  rw [(byId_iff h).2 ha, (byId_iff h).2 hb]

theorem derefG_eq {c : Cfg α} {s : Sys α} (h : HeapInv s) {k : Nat × Nat} {b : Nat} {vb : α} {nb : Nat}
    (hb : (vb, b, nb) ∈ s.store) : derefG c s k b = c.G k vb := by
  unfold derefG
  rw [(byId_iff h).2 hb]

/-- `lteCache.lookup(a, b, f)` on two live objects: the invariant is kept and the answer is `F` of the two values -/
theorem lte_lookup_inv {c : Cfg α} {s : Sys α} (h : InvG c s) {a b : Nat} {va vb : α} {na nb : Nat}
    (ha : (va, a, na) ∈ s.store) (hb : (vb, b, nb) ∈ s.store) :
    InvG c { s with lte := (s.lte.lookup a b (derefF c s)).1 } ∧
      (c.wiring = .lib → (s.lte.lookup a b (derefF c s)).2 = c.F va vb) := by
  have hans : c.wiring = .lib → (s.lte.lookup a b (derefF c s)).2 = c.F va vb := by
    intro hw
    rw [BinOp.lookup_ans]
    cases hg : aget s.lte.store (a, b) with
    | none => exact derefF_eq h.heap ha hb
    | some r =>
      obtain ⟨va', na', vb', nb', h1, h2, h3⟩ := (h.sound hw).lte a b r hg
      have e1 := h.heap.u2 _ _ h1 ha rfl
      have e2 := h.heap.u2 _ _ h2 hb rfl
      cases e1; cases e2; exact h3
  refine ⟨⟨h.heap.congr rfl rfl rfl, BinOp.lookup_inv h.lte _ _ _, h.ev, ?_⟩, hans⟩
  intro hw
  constructor
  · intro a' b' r hr
    simp only [BinOp.lookup_store] at hr
    by_cases hk : (a', b') = (a, b)
    · simp only [hk, if_true, Option.some.injEq] at hr
      cases hk
      exact ⟨va, na, vb, nb, ha, hb, by rw [← hr]; exact hans hw⟩
    · simp only [hk, if_false] at hr
      exact (h.sound hw).lte a' b' r hr
  · exact (h.sound hw).ev

theorem ev_lookup_inv {c : Cfg α} {s : Sys α} (h : InvG c s) {k : Nat × Nat} {b : Nat} {vb : α} {nb : Nat}
    (hb : (vb, b, nb) ∈ s.store) :
    InvG c { s with ev := (s.ev.lookup k b (derefG c s)).1 } ∧
      (c.wiring = .lib → (s.ev.lookup k b (derefG c s)).2 = c.G k vb) := by
  have hans : c.wiring = .lib → (s.ev.lookup k b (derefG c s)).2 = c.G k vb := by
    intro hw
    rw [BinOp.lookup_ans]
    cases hg : aget s.ev.store (k, b) with
    | none => exact derefG_eq h.heap hb
    | some r =>
      obtain ⟨vb', nb', h2, h3⟩ := (h.sound hw).ev k b r hg
      have e2 := h.heap.u2 _ _ h2 hb rfl
      cases e2; exact h3
  refine ⟨⟨h.heap.congr rfl rfl rfl, h.lte, BinOp.lookup_inv h.ev _ _ _, ?_⟩, hans⟩
  intro hw
  constructor
  · exact (h.sound hw).lte
  · intro k' b' r hr
    simp only [BinOp.lookup_store] at hr
    by_cases hk : (k', b') = (k, b)
    · simp only [hk, if_true, Option.some.injEq] at hr
      cases hk
      exact ⟨vb, nb, hb, by rw [← hr]; exact hans hw⟩
    · simp only [hk, if_false] at hr
      exact (h.sound hw).ev k' b' r hr

/-- removing entries never hurts -/
theorem InvG.shrink {c : Cfg α} {s s' : Sys α} (h : InvG c s) (e1 : s'.store = s.store) (e2 : s'.tmp = s.tmp)
    (e3 : s'.slots = s.slots) (il : s'.lte.Inv) (ie : s'.ev.Inv)
    (hl : ∀ k r, aget s'.lte.store k = some r → aget s.lte.store k = some r)
    (he : ∀ k r, aget s'.ev.store k = some r → aget s.ev.store k = some r) : InvG c s' := by
  refine ⟨h.heap.congr e1 e2 e3, il, ie, ?_⟩
  intro hw
  constructor
  · intro a b r hr
    rw [e1]; exact (h.sound hw).lte a b r (hl _ _ hr)
  · intro k b r hr
    rw [e1]; exact (h.sound hw).ev k b r (he _ _ hr)

/-! #### every statement keeps the invariant -/

/-- the invariant between two statements -/
def Inv (c : Cfg α) (s : Sys α) : Prop := InvG c s ∧ s.tmp = none

theorem init_inv (c : Cfg α) (n : Nat) : Inv c (Sys.init α n) := by
  refine ⟨⟨⟨?_, ?_, ?_, ?_⟩, BinOp.empty_inv, BinOp.empty_inv, fun _ => ⟨?_, ?_⟩⟩, rfl⟩
  · intro e e' he; simp [Sys.init] at he
  · intro e e' he; simp [Sys.init] at he
  · intro v id k he; simp [Sys.init] at he
  · intro id hid
    simp [Sys.init, Sys.handles] at hid
  · intro a b r hr; simp [Sys.init, aget] at hr
  · intro k b r hr; simp [Sys.init, aget] at hr

theorem step_inv {c : Cfg α} {s s' : Sys α} {op : Op α} {a : Ans} (h : Inv c s) (hs : step c s op = some (s', a)) :
    Inv c s' := by
  obtain ⟨hg, ht⟩ := h
  cases op with
  | lookup i v ch =>
    simp only [step] at hs
    cases h1 : intern s v ch with
    | none => simp [h1] at hs
    | some x =>
      obtain ⟨s₁, id⟩ := x
      simp only [h1] at hs
      cases h2 : swapTmp s₁ i with
      | none => simp [h2] at hs
      | some s₂ =>
        simp only [h2, Option.some.injEq, Prod.mk.injEq] at hs
        obtain ⟨rfl, _⟩ := hs
        have i1 := (intern_inv hg h1).1
        have i2 := (swapTmp_inv i1 h2).1
        exact ⟨(dropTmp_inv i2).1, (dropTmp_inv i2).2.1⟩
  | find i v =>
    simp only [step] at hs
    cases h1 : findTmp s v with
    | none => simp [h1] at hs
    | some x =>
      obtain ⟨s₁, r⟩ := x
      simp only [h1] at hs
      cases h2 : swapTmp s₁ i with
      | none => simp [h2] at hs
      | some s₂ =>
        simp only [h2, Option.some.injEq, Prod.mk.injEq] at hs
        obtain ⟨rfl, _⟩ := hs
        have i1 := (findTmp_inv hg h1).1
        have i2 := (swapTmp_inv i1 h2).1
        exact ⟨(dropTmp_inv i2).1, (dropTmp_inv i2).2.1⟩
  | copy src dst =>
    simp only [step] at hs
    cases h1 : dupTmp s src with
    | none => simp [h1] at hs
    | some s₁ =>
      simp only [h1] at hs
      cases h2 : swapTmp s₁ dst with
      | none => simp [h2] at hs
      | some s₂ =>
        simp only [h2, Option.some.injEq, Prod.mk.injEq] at hs
        obtain ⟨rfl, _⟩ := hs
        have i1 := (dupTmp_inv hg h1).1
        have i2 := (swapTmp_inv i1 h2).1
        exact ⟨(dropTmp_inv i2).1, (dropTmp_inv i2).2.1⟩
  | release i =>
    simp only [step, ht] at hs
    cases h2 : swapTmp s i with
    | none => simp [h2] at hs
    | some s₂ =>
      simp only [h2, Option.some.injEq, Prod.mk.injEq] at hs
      obtain ⟨rfl, _⟩ := hs
      have i2 := (swapTmp_inv hg h2).1
      exact ⟨(dropTmp_inv i2).1, (dropTmp_inv i2).2.1⟩
  | lte i j =>
    simp only [step] at hs
    cases h1 : slotId s i with
    | none => simp [h1] at hs
    | some x =>
      cases h2 : slotId s j with
      | none => simp [h1, h2] at hs
      | some y =>
        simp only [h1, h2] at hs
        by_cases hxy : x = y
        · simp only [hxy, if_true, Option.some.injEq, Prod.mk.injEq] at hs
          obtain ⟨rfl, _⟩ := hs
          exact ⟨hg, ht⟩
        · simp only [hxy, if_false, Option.some.injEq, Prod.mk.injEq] at hs
          obtain ⟨rfl, _⟩ := hs
          obtain ⟨va, na, ha⟩ := slotId_live hg.heap h1
          obtain ⟨vb, nb, hb⟩ := slotId_live hg.heap h2
          exact ⟨(lte_lookup_inv hg ha hb).1, ht⟩
  | memo i j =>
    simp only [step] at hs
    cases h1 : slotId s i with
    | none => simp [h1] at hs
    | some x =>
      cases h2 : slotId s j with
      | none => simp [h1, h2] at hs
      | some y =>
        simp only [h1, h2, Option.some.injEq, Prod.mk.injEq] at hs
        obtain ⟨rfl, _⟩ := hs
        obtain ⟨va, na, ha⟩ := slotId_live hg.heap h1
        obtain ⟨vb, nb, hb⟩ := slotId_live hg.heap h2
        exact ⟨(lte_lookup_inv hg ha hb).1, ht⟩
  | eval k i =>
    simp only [step] at hs
    cases h1 : slotId s i with
    | none => simp [h1] at hs
    | some y =>
      simp only [h1, Option.some.injEq, Prod.mk.injEq] at hs
      obtain ⟨rfl, _⟩ := hs
      obtain ⟨vb, nb, hb⟩ := slotId_live hg.heap h1
      exact ⟨(ev_lookup_inv hg hb).1, ht⟩
  | invFirst i =>
    simp only [step] at hs
    cases h1 : slotId s i with
    | none => simp [h1] at hs
    | some x =>
      simp only [h1, Option.some.injEq, Prod.mk.injEq] at hs
      obtain ⟨rfl, _⟩ := hs
      refine ⟨hg.shrink rfl rfl rfl (BinOp.invalidateFirst_inv hg.lte x) hg.ev ?_ (fun _ _ h => h), ht⟩
      intro k r hr
      simp only [BinOp.invalidateFirst_store hg.lte] at hr
      by_cases hx : k.1 = x
      · simp [hx] at hr
      · simpa [hx] using hr
  | invSecond i =>
    simp only [step] at hs
    cases h1 : slotId s i with
    | none => simp [h1] at hs
    | some x =>
      simp only [h1, Option.some.injEq, Prod.mk.injEq] at hs
      obtain ⟨rfl, _⟩ := hs
      refine ⟨hg.shrink rfl rfl rfl (BinOp.invalidateSecond_inv hg.lte x) hg.ev ?_ (fun _ _ h => h), ht⟩
      intro k r hr
      simp only [BinOp.invalidateSecond_store hg.lte] at hr
      by_cases hx : k.2 = x
      · simp [hx] at hr
      · simpa [hx] using hr
  | evInvFirst k =>
    simp only [step, Option.some.injEq, Prod.mk.injEq] at hs
    obtain ⟨rfl, _⟩ := hs
    refine ⟨hg.shrink rfl rfl rfl hg.lte (BinOp.invalidateFirst_inv hg.ev k) (fun _ _ h => h) ?_, ht⟩
    intro k' r hr
    simp only [BinOp.invalidateFirst_store hg.ev] at hr
    by_cases hx : k'.1 = k
    · simp [hx] at hr
    · simpa [hx] using hr
  | evInvSecond i =>
    simp only [step] at hs
    cases h1 : slotId s i with
    | none => simp [h1] at hs
    | some x =>
      simp only [h1, Option.some.injEq, Prod.mk.injEq] at hs
      obtain ⟨rfl, _⟩ := hs
      refine ⟨hg.shrink rfl rfl rfl hg.lte (BinOp.invalidateSecond_inv hg.ev x) (fun _ _ h => h) ?_, ht⟩
      intro k r hr
      simp only [BinOp.invalidateSecond_store hg.ev] at hr
      by_cases hx : k.2 = x
      · simp [hx] at hr
      · simpa [hx] using hr
  | clearLte =>
    simp only [step, Option.some.injEq, Prod.mk.injEq] at hs
    obtain ⟨rfl, _⟩ := hs
    refine ⟨hg.shrink rfl rfl rfl (BinOp.clear_inv s.lte) hg.ev ?_ (fun _ _ h => h), ht⟩
    intro k r hr
    simp [BinOp.clear, aget] at hr
  | clearEv =>
    simp only [step, Option.some.injEq, Prod.mk.injEq] at hs
    obtain ⟨rfl, _⟩ := hs
    refine ⟨hg.shrink rfl rfl rfl hg.lte (BinOp.clear_inv s.ev) (fun _ _ h => h) ?_, ht⟩
    intro k r hr
    simp [BinOp.clear, aget] at hr
  | nop =>
    simp only [step, Option.some.injEq, Prod.mk.injEq] at hs
    obtain ⟨rfl, _⟩ := hs
    exact ⟨hg, ht⟩


/-! ### the theorems, for every history -/

/-- the states reachable by statements of the client from an empty cache with `n` null handles; the allocator's choices are
    arbitrary (any address that no live object has – in particular addresses of dead objects) -/
inductive Reach (c : Cfg α) : Sys α → Prop
  | init (n : Nat) : Reach c (Sys.init α n)
  | step {s s' : Sys α} {op : Op α} {a : Ans} : Reach c s → step c s op = some (s', a) → Reach c s'

theorem reach_inv {c : Cfg α} {s : Sys α} (h : Reach c s) : Inv c s := by
  induction h with
  | init n => exact init_inv c n
  | step _ hs ih => exact step_inv ih hs

theorem run_reach {c : Cfg α} {s s' : Sys α} {ops : List (Op α)} {as : List Ans} (h : Reach c s)
    (hr : run c s ops = some (s', as)) : Reach c s' := by
  induction ops generalizing s as with
  | nil => simp [run] at hr; rw [← hr.1]; exact h
  | cons op ops ih =>
    simp only [run] at hr
    cases h1 : step c s op with
    | none => simp [h1] at hr
    | some x =>
      obtain ⟨s₁, a⟩ := x
      simp only [h1] at hr
      cases h2 : run c s₁ ops with
      | none => simp [h2] at hr
      | some y =>
        obtain ⟨s₂, as'⟩ := y
        simp only [h2, Option.some.injEq, Prod.mk.injEq] at hr
        obtain ⟨rfl, _⟩ := hr
        exact ih (Reach.step h h1) h2

/-- **(1) interning.**  Two live handles are pointer-equal iff their values are equal; every handle points to a live object
    whose `use_count` is the number of handles pointing to it.  (Any wiring of the deleter.) -/
theorem interning {c : Cfg α} {s : Sys α} (h : Reach c s) {i j a b : Nat} (hi : s.slots[i]? = some (some a))
    (hj : s.slots[j]? = some (some b)) :
    ∃ va vb, byId s.store a = some (va, s.slots.count (some a)) ∧ byId s.store b = some (vb, s.slots.count (some b)) ∧
      (a = b ↔ va = vb) := by
  obtain ⟨hg, ht⟩ := reach_inv h
  obtain ⟨va, na, ha⟩ := slotId_live hg.heap (slotId_eq.2 hi)
  obtain ⟨vb, nb, hb⟩ := slotId_live hg.heap (slotId_eq.2 hj)
  have ca := (hg.heap.rc _ _ _ ha).1
  have cb := (hg.heap.rc _ _ _ hb).1
  simp only [Sys.handles, ht, List.count_cons] at ca cb
  simp at ca cb
  subst ca; subst cb
  refine ⟨va, vb, (byId_iff hg.heap).2 ha, (byId_iff hg.heap).2 hb, ?_, ?_⟩
  · intro e; subst e
    have := hg.heap.u2 _ _ ha hb rfl
    cases this; rfl
  · intro e; subst e
    have := hg.heap.u1 _ _ ha hb rfl
    cases this; rfl

/-- the store is a function in both directions: one object per value, one per address, none without a handle
    (so `TPtr(weak_ptr)` in `Cache::lookup` never meets an expired pointer) -/
theorem store_bijective {c : Cfg α} {s : Sys α} (h : Reach c s) {v v' : α} {id id' n n' : Nat} (hm : (v, id, n) ∈ s.store)
    (hm' : (v', id', n') ∈ s.store) : (v = v' ↔ id = id') ∧ 0 < n ∧ n = s.slots.count (some id) := by
  obtain ⟨hg, ht⟩ := reach_inv h
  have hr := hg.heap.rc _ _ _ hm
  simp only [Sys.handles, ht, List.count_cons] at hr
  simp at hr
  refine ⟨⟨?_, ?_⟩, hr.2, hr.1⟩
  · intro e; subst e
    have := hg.heap.u1 _ _ hm hm' rfl
    cases this; rfl
  · intro e; subst e
    have := hg.heap.u2 _ _ hm hm' rfl
    cases this; rfl

/-- **(2a)** with the library's wiring a memo table never holds an entry for a dead identity -/
theorem memo_live {c : Cfg α} {s : Sys α} (h : Reach c s) (hw : c.wiring = .lib) :
    (∀ a b r, aget s.lte.store (a, b) = some r → a ∈ ids s.store ∧ b ∈ ids s.store) ∧
    (∀ k b r, aget s.ev.store (k, b) = some r → b ∈ ids s.store) := by
  have hS := (reach_inv h).1.sound hw
  constructor
  · intro a b r hr
    obtain ⟨va, na, vb, nb, h1, h2, _⟩ := hS.lte a b r hr
    exact ⟨mem_ids.2 ⟨_, _, h1⟩, mem_ids.2 ⟨_, _, h2⟩⟩
  · intro k b r hr
    obtain ⟨vb, nb, h1, _⟩ := hS.ev k b r hr
    exact mem_ids.2 ⟨_, _, h1⟩

/-- … and every entry holds the value of the memoised function on the CURRENT objects at the two addresses -/
theorem memo_entries_sound {c : Cfg α} {s : Sys α} (h : Reach c s) (hw : c.wiring = .lib) :
    (∀ a b r, aget s.lte.store (a, b) = some r →
      ∃ va na vb nb, byId s.store a = some (va, na) ∧ byId s.store b = some (vb, nb) ∧ r = c.F va vb) ∧
    (∀ k b r, aget s.ev.store (k, b) = some r → ∃ vb nb, byId s.store b = some (vb, nb) ∧ r = c.G k vb) := by
  have hg := (reach_inv h).1
  have hS := hg.sound hw
  constructor
  · intro a b r hr
    obtain ⟨va, na, vb, nb, h1, h2, h3⟩ := hS.lte a b r hr
    exact ⟨va, na, vb, nb, (byId_iff hg.heap).2 h1, (byId_iff hg.heap).2 h2, h3⟩
  · intro k b r hr
    obtain ⟨vb, nb, h1, h3⟩ := hS.ev k b r hr
    exact ⟨vb, nb, (byId_iff hg.heap).2 h1, h3⟩

/-- **(2b) memo soundness under address reuse.**  `lteCache.lookup(x, y, f)` on two handles answers `F (*x) (*y)` -/
theorem memo_sound {c : Cfg α} {s s' : Sys α} (h : Reach c s) (hw : c.wiring = .lib) {i j : Nat} {ans : Ans}
    (hs : step c s (.memo i j) = some (s', ans)) :
    ∃ a b va na vb nb, s.slots[i]? = some (some a) ∧ s.slots[j]? = some (some b) ∧ byId s.store a = some (va, na) ∧
      byId s.store b = some (vb, nb) ∧ ans = .bool (c.F va vb) := by
  obtain ⟨hg, ht⟩ := reach_inv h
  simp only [step] at hs
  cases h1 : slotId s i with
  | none => simp [h1] at hs
  | some x =>
    cases h2 : slotId s j with
    | none => simp [h1, h2] at hs
    | some y =>
      simp only [h1, h2, Option.some.injEq, Prod.mk.injEq] at hs
      obtain ⟨va, na, ha⟩ := slotId_live hg.heap h1
      obtain ⟨vb, nb, hb⟩ := slotId_live hg.heap h2
      refine ⟨x, y, va, na, vb, nb, slotId_eq.1 h1, slotId_eq.1 h2, (byId_iff hg.heap).2 ha, (byId_iff hg.heap).2 hb, ?_⟩
      rw [← hs.2, (lte_lookup_inv hg ha hb).2 hw]

/-- the library's `lte` (pointer-equality shortcut in front of the memo table) answers `F (*x) (*y)` for a reflexive `F` -/
theorem lte_sound {c : Cfg α} {s s' : Sys α} (h : Reach c s) (hw : c.wiring = .lib) (hrefl : ∀ v, c.F v v = true) {i j : Nat}
    {ans : Ans} (hs : step c s (.lte i j) = some (s', ans)) :
    ∃ a b va na vb nb, s.slots[i]? = some (some a) ∧ s.slots[j]? = some (some b) ∧ byId s.store a = some (va, na) ∧
      byId s.store b = some (vb, nb) ∧ ans = .bool (c.F va vb) := by
  obtain ⟨hg, ht⟩ := reach_inv h
  simp only [step] at hs
  cases h1 : slotId s i with
  | none => simp [h1] at hs
  | some x =>
    cases h2 : slotId s j with
    | none => simp [h1, h2] at hs
    | some y =>
      simp only [h1, h2] at hs
      obtain ⟨va, na, ha⟩ := slotId_live hg.heap h1
      obtain ⟨vb, nb, hb⟩ := slotId_live hg.heap h2
      refine ⟨x, y, va, na, vb, nb, slotId_eq.1 h1, slotId_eq.1 h2, (byId_iff hg.heap).2 ha, (byId_iff hg.heap).2 hb, ?_⟩
      by_cases hxy : x = y
      · simp only [hxy, if_true, Option.some.injEq, Prod.mk.injEq] at hs
        subst hxy
        have := hg.heap.u2 _ _ ha hb rfl
        cases this
        rw [← hs.2, hrefl]
      · simp only [hxy, if_false, Option.some.injEq, Prod.mk.injEq] at hs
        rw [← hs.2, (lte_lookup_inv hg ha hb).2 hw]

theorem eval_sound {c : Cfg α} {s s' : Sys α} (h : Reach c s) (hw : c.wiring = .lib) {k : Nat × Nat} {i : Nat} {ans : Ans}
    (hs : step c s (.eval k i) = some (s', ans)) :
    ∃ b vb nb, s.slots[i]? = some (some b) ∧ byId s.store b = some (vb, nb) ∧ ans = .nat (c.G k vb) := by
  obtain ⟨hg, ht⟩ := reach_inv h
  simp only [step] at hs
  cases h1 : slotId s i with
  | none => simp [h1] at hs
  | some y =>
    simp only [h1, Option.some.injEq, Prod.mk.injEq] at hs
    obtain ⟨vb, nb, hb⟩ := slotId_live hg.heap h1
    refine ⟨y, vb, nb, slotId_eq.1 h1, (byId_iff hg.heap).2 hb, ?_⟩
    rw [← hs.2, (ev_lookup_inv hg hb).2 hw]

/-- **(3)** the two secondary indices list exactly the entries of the table (any wiring), and the assertions inside the
    invalidations of the deleter hold -/
theorem index_exact {c : Cfg α} {s : Sys α} (h : Reach c s) : s.lte.Inv ∧ s.ev.Inv :=
  ⟨(reach_inv h).1.lte, (reach_inv h).1.ev⟩

theorem deleter_asserts {c : Cfg α} {s : Sys α} (h : Reach c s) (id : Nat) : deleterAsserts s id = true := by
  obtain ⟨hl, he⟩ := index_exact h
  simp [deleterAsserts, BinOp.assertsFirst_true hl, BinOp.assertsSecond_true (BinOp.invalidateFirst_inv hl id),
    BinOp.assertsSecond_true he]

/-- no leak: when every handle is null the cache is empty (the `assert(this->empty())` of `~Cache()`) -/
theorem no_leak {c : Cfg α} {s : Sys α} (h : Reach c s) (hn : ∀ x ∈ s.slots, x = none) : s.store = [] := by
  obtain ⟨hg, ht⟩ := reach_inv h
  apply List.eq_nil_iff_forall_not_mem.2
  rintro ⟨v, id, n⟩ hm
  have hr := hg.heap.rc _ _ _ hm
  simp only [Sys.handles, ht, List.count_cons] at hr
  simp at hr
  have : List.count (some id) s.slots = 0 := by
    rw [List.count_eq_zero]
    intro hmem
    cases hn _ hmem
  omega

/-- … and then, with the library's wiring, both memo tables are empty too -/
theorem no_leak_memo {c : Cfg α} {s : Sys α} (h : Reach c s) (hw : c.wiring = .lib) (hn : ∀ x ∈ s.slots, x = none) :
    (∀ k, aget s.lte.store k = none) ∧ (∀ k, aget s.ev.store k = none) := by
  have he := no_leak h hn
  obtain ⟨h1, h2⟩ := memo_live h hw
  constructor
  · rintro ⟨a, b⟩
    cases hr : aget s.lte.store (a, b) with
    | none => rfl
    | some r =>
      have := (h1 a b r hr).1
      simp [he, ids] at this
  · rintro ⟨k, b⟩
    cases hr : aget s.ev.store (k, b) with
    | none => rfl
    | some r =>
      have := h2 k b r hr
      simp [he, ids] at this

end Sys

section NoDeath
set_option linter.unusedSectionVars false
variable {α : Type} [DecidableEq α]

/-! ### caches that never free: no invalidation needed -/

/-- the same configuration with the library's wiring -/
def libCfg (c : Cfg α) : Cfg α := { c with wiring := .lib }

/-- if the object of the dying temporary survives, the deleter did not run and the wiring played no role -/
theorem dropTmp_eq_of_keeps {w : Wiring} {s : Sys α} (h : HeapInv s) (hk : ∀ id, s.tmp = some id → id ∈ ids (dropTmp w s).store) :
    dropTmp w s = dropTmp .lib s := by
  cases ht : s.tmp with
  | none => simp [dropTmp, ht]
  | some id =>
    have hk' := hk id ht
    unfold dropTmp at hk' ⊢
    simp only [ht] at hk' ⊢
    cases hb : byId s.store id with
    | none => rfl
    | some y =>
      obtain ⟨v, n⟩ := y
      simp only [hb] at hk' ⊢
      by_cases hn : n ≤ 1
      · exfalso
        simp only [hn, if_true] at hk'
        rw [(userDeleter_store w s id).1] at hk'
        obtain ⟨v', n', hm'⟩ := mem_ids.1 hk'
        obtain ⟨hm', hne⟩ := mem_adel.1 hm'
        have := h.u2 _ _ hm' ((byId_iff h).1 hb) rfl
        cases this; exact hne rfl
      · simp only [hn, if_false]

theorem ids_swapTmp {s s' : Sys α} {i : Nat} (h : swapTmp s i = some s') : s'.store = s.store := by
  unfold swapTmp at h
  cases hs : s.slots[i]? with
  | none => simp [hs] at h
  | some x => simp only [hs, Option.some.injEq] at h; subst h; rfl

theorem swapTmp_tmp_live {c : Cfg α} {s s' : Sys α} {i : Nat} (hg : InvG c s) (h : swapTmp s i = some s') (id : Nat)
    (ht : s'.tmp = some id) : id ∈ ids s.store := by
  unfold swapTmp at h
  cases hs : s.slots[i]? with
  | none => simp [hs] at h
  | some x =>
    simp only [hs, Option.some.injEq] at h; subst h
    simp only at ht; subst ht
    exact hg.heap.hl id (by simp [Sys.handles, List.mem_of_getElem? hs])

/-- a statement during which no object dies does the same under every wiring -/
theorem step_lib_of_keeps {c : Cfg α} {s s' : Sys α} {op : Op α} {a : Ans} (hi : Inv c s) (hs : step c s op = some (s', a))
    (hk : ∀ id ∈ ids s.store, id ∈ ids s'.store) : step (libCfg c) s op = some (s', a) := by
  obtain ⟨hg, ht⟩ := hi
  cases op with
  | lookup i v ch =>
    simp only [step] at hs ⊢
    cases h1 : intern s v ch with
    | none => simp [h1] at hs
    | some x =>
      obtain ⟨s₁, id⟩ := x
      simp only [h1] at hs ⊢
      cases h2 : swapTmp s₁ i with
      | none => simp [h2] at hs
      | some s₂ =>
        simp only [h2, Option.some.injEq, Prod.mk.injEq] at hs ⊢
        obtain ⟨rfl, rfl⟩ := hs
        have i1 := (intern_inv hg h1).1
        have i2 := (swapTmp_inv i1 h2).1
        refine ⟨?_, rfl⟩
        symm
        apply dropTmp_eq_of_keeps i2.heap
        intro id' ht'
        have hl1 : id' ∈ ids s₁.store := swapTmp_tmp_live i1 h2 id' ht'
        -- either the old content of the slot (live in `s`) or the new handle itself
        by_cases hold : id' ∈ ids s.store
        · exact hk id' hold
        · -- a handle to the object just created: its count is 2 at this point, it cannot die
          exfalso
          have htmp : s₁.tmp = some id := (intern_inv hg h1).2.1
          have hslots : s₁.slots = s.slots := (intern_inv hg h1).2.2.1
          unfold swapTmp at h2
          cases hsl : s₁.slots[i]? with
          | none => simp [hsl] at h2
          | some x =>
            simp only [hsl, Option.some.injEq] at h2; subst h2
            simp only at ht'; subst ht'
            rw [hslots] at hsl
            exact hold (hg.heap.hl id' (by simp [Sys.handles, List.mem_of_getElem? hsl]))
  | find i v =>
    simp only [step] at hs ⊢
    cases h1 : findTmp s v with
    | none => simp [h1] at hs
    | some x =>
      obtain ⟨s₁, r⟩ := x
      simp only [h1] at hs ⊢
      cases h2 : swapTmp s₁ i with
      | none => simp [h2] at hs
      | some s₂ =>
        simp only [h2, Option.some.injEq, Prod.mk.injEq] at hs ⊢
        obtain ⟨rfl, rfl⟩ := hs
        have i1 := (findTmp_inv hg h1).1
        have i2 := (swapTmp_inv i1 h2).1
        refine ⟨?_, rfl⟩
        symm
        apply dropTmp_eq_of_keeps i2.heap
        intro id' ht'
        have hslots : s₁.slots = s.slots := (findTmp_inv hg h1).2.2
        unfold swapTmp at h2
        cases hsl : s₁.slots[i]? with
        | none => simp [hsl] at h2
        | some x =>
          simp only [hsl, Option.some.injEq] at h2; subst h2
          simp only at ht'; subst ht'
          rw [hslots] at hsl
          exact hk id' (hg.heap.hl id' (by simp [Sys.handles, List.mem_of_getElem? hsl]))
  | copy src dst =>
    simp only [step] at hs ⊢
    cases h1 : dupTmp s src with
    | none => simp [h1] at hs
    | some s₁ =>
      simp only [h1] at hs ⊢
      cases h2 : swapTmp s₁ dst with
      | none => simp [h2] at hs
      | some s₂ =>
        simp only [h2, Option.some.injEq, Prod.mk.injEq] at hs ⊢
        obtain ⟨rfl, rfl⟩ := hs
        have i1 := (dupTmp_inv hg h1).1
        have i2 := (swapTmp_inv i1 h2).1
        refine ⟨?_, rfl⟩
        symm
        apply dropTmp_eq_of_keeps i2.heap
        intro id' ht'
        have hslots : s₁.slots = s.slots := (dupTmp_inv hg h1).2
        unfold swapTmp at h2
        cases hsl : s₁.slots[dst]? with
        | none => simp [hsl] at h2
        | some x =>
          simp only [hsl, Option.some.injEq] at h2; subst h2
          simp only at ht'; subst ht'
          rw [hslots] at hsl
          exact hk id' (hg.heap.hl id' (by simp [Sys.handles, List.mem_of_getElem? hsl]))
  | release i =>
    simp only [step, ht] at hs ⊢
    cases h2 : swapTmp s i with
    | none => simp [h2] at hs
    | some s₂ =>
      simp only [h2, Option.some.injEq, Prod.mk.injEq] at hs ⊢
      obtain ⟨rfl, rfl⟩ := hs
      have i2 := (swapTmp_inv hg h2).1
      refine ⟨?_, rfl⟩
      symm
      apply dropTmp_eq_of_keeps i2.heap
      intro id' ht'
      exact hk id' (swapTmp_tmp_live hg h2 id' ht')
  | lte i j => exact hs
  | memo i j => exact hs
  | eval k i => exact hs
  | invFirst i => exact hs
  | invSecond i => exact hs
  | evInvFirst k => exact hs
  | evInvSecond i => exact hs
  | clearLte => exact hs
  | clearEv => exact hs
  | nop => exact hs

/-- the states reachable by histories in which no object ever dies (a cache that never frees: `MacroStateCache` of the NFA
    inclusion functors, whose objects live as long as the functor) -/
inductive ReachND (c : Cfg α) : Sys α → Prop
  | init (n : Nat) : ReachND c (Sys.init α n)
  | step {s s' : Sys α} {op : Op α} {a : Ans} : ReachND c s → step c s op = some (s', a) →
      (∀ id ∈ ids s.store, id ∈ ids s'.store) → ReachND c s'

theorem reachND_lib {c : Cfg α} {s : Sys α} (h : ReachND c s) : Reach (libCfg c) s ∧ Reach c s := by
  induction h with
  | init n => exact ⟨Reach.init n, Reach.init n⟩
  | step _ hs hk ih => exact ⟨Reach.step ih.1 (step_lib_of_keeps (reach_inv ih.2) hs hk), Reach.step ih.2 hs⟩

/-- **memo soundness without any invalidation, as long as nothing dies**: every entry of a memo table is the function value on
    the two live objects, whatever the deleter is wired to -/
theorem memo_sound_noDeath {c : Cfg α} {s : Sys α} (h : ReachND c s) :
    (∀ a b r, aget s.lte.store (a, b) = some r →
      ∃ va na vb nb, byId s.store a = some (va, na) ∧ byId s.store b = some (vb, nb) ∧ r = c.F va vb) ∧
    (∀ k b r, aget s.ev.store (k, b) = some r → ∃ vb nb, byId s.store b = some (vb, nb) ∧ r = c.G k vb) :=
  memo_entries_sound (c := libCfg c) (reachND_lib h).1 rfl

end NoDeath

/-! ### (4) the wiring matters: a stale answer with `invalidateFirst` called twice -/

/-- the history: intern `{1}` and `{1,2}`, compare them (`{1} ⊆ {1,2}`: true, memoised under the two addresses), drop `{1,2}`,
    intern `{5}` – the allocator hands out the address `1` of the dead object again –, compare `{1}` with it -/
def staleHistory : List (Op (List Nat)) :=
  [.lookup 0 [1] 0, .lookup 1 [1, 2] 1, .memo 0 1, .release 1, .lookup 1 [5] 1, .memo 0 1]

/-- with the deleter calling `invalidateFirst` twice the entry `(0, 1)` survives the death of object `1` (it has the dead
    address as SECOND component) and the last comparison answers `true` although `{1} ⊆ {5}` is false … -/
theorem stale_answer_firstTwice :
    (run (setCfg .firstTwice) (Sys.init (List Nat) 2) staleHistory).map (·.2) =
      some [.ptr (some 0), .ptr (some 1), .bool true, .unit, .ptr (some 1), .bool true] ∧ subsetB [1] [5] = false := by
  decide

/-- … with the library's wiring the same history, same allocator, answers `false` -/
theorem fresh_answer_lib :
    (run (setCfg .lib) (Sys.init (List Nat) 2) staleHistory).map (·.2) =
      some [.ptr (some 0), .ptr (some 1), .bool true, .unit, .ptr (some 1), .bool false] := by
  decide

/-- the default deleter (no invalidation at all) is wrong in the same way -/
theorem stale_answer_none :
    (run (setCfg .none) (Sys.init (List Nat) 2) staleHistory).map (·.2) =
      some [.ptr (some 0), .ptr (some 1), .bool true, .unit, .ptr (some 1), .bool true] := by
  decide

/-! ### (5) the bottom-up index -/
namespace BU

theorem getD_growTo {β : Type} (l : List (List β)) (n j : Nat) : (growTo l n).getD j [] = l.getD j [] := by
  unfold growTo
  simp only [List.getD_eq_getElem?_getD, List.getElem?_append, List.getElem?_replicate]
  by_cases h : j < l.length
  · simp [h]
  · have : l[j]? = none := List.getElem?_eq_none (by omega)
    simp only [h, if_false, this]
    split <;> rfl

theorem length_growTo {β : Type} (l : List (List β)) (n : Nat) : n ≤ (growTo l n).length ∧ l.length ≤ (growTo l n).length := by
  unfold growTo
  simp only [List.length_append, List.length_replicate]
  omega

theorem getD_modify {β : Type} (l : List (List β)) (i j : Nat) (f : List β → List β) (hi : i < l.length) :
    (l.modify i f).getD j [] = if j = i then f (l.getD i []) else l.getD j [] := by
  simp only [List.getD_eq_getElem?_getD, List.getElem?_modify]
  by_cases h : j = i
  · subst h
    simp [List.getElem?_eq_getElem hi]
  · have : ¬ i = j := fun e => h e.symm
    simp only [h, if_false]
    cases l[j]? <;> simp [this]

/-- `if (v.size() <= i) v.resize(i + 1); v[i].push_back(r)` -/
theorem getD_pushCell (vec : List TList) (i j : Nat) (r : Rule) :
    ((growTo vec (i + 1)).modify i (· ++ [r])).getD j [] = vec.getD j [] ++ (if j = i then [r] else []) := by
  rw [getD_modify _ _ _ _ (by have := (length_growTo vec (i + 1)).1; omega)]
  by_cases h : j = i
  · subst h; rw [if_pos rfl, if_pos rfl, getD_growTo]
  · rw [if_neg h, if_neg h, getD_growTo, List.append_nil]

/-! #### `bottomUpIndex` -/

theorem look1_push1 (I : Idx1) (q a i : Nat) (r : Rule) (q' a' i' : Nat) :
    look1 (push1 I q a i r) q' a' i' = look1 I q' a' i' ++ (if q' = q ∧ a' = a ∧ i' = i then [r] else []) := by
  unfold look1 push1
  simp only [aget_aset]
  by_cases hq : q' = q
  · subst hq
    simp only [if_true, Option.getD_some, aget_aset]
    by_cases ha : a' = a
    · subst ha
      simp only [if_true, Option.getD_some, getD_pushCell, true_and]
    · simp [ha]
  · simp [hq]

theorem mem_pushTuple1 (a : Nat) (r : Rule) (I : Idx1) (ks : List Nat) (i0 : Nat) (r' : Rule) (q' a' i' : Nat) :
    r' ∈ look1 (pushTuple1 a r I ks i0) q' a' i' ↔
      r' ∈ look1 I q' a' i' ∨ (r' = r ∧ a' = a ∧ i0 ≤ i' ∧ ks[i' - i0]? = some q') := by
  induction ks generalizing I i0 with
  | nil => simp [pushTuple1]
  | cons q ks ih =>
    simp only [pushTuple1, ih, look1_push1, List.mem_append]
    by_cases h0 : i' = i0
    · subst h0
      have : ¬ (i' + 1 ≤ i') := by omega
      simp only [this, false_and, and_false, or_false, Nat.le_refl, Nat.sub_self, List.getElem?_cons_zero, Option.some.injEq,
        true_and, and_true]
      by_cases hc : q' = q ∧ a' = a
      · obtain ⟨rfl, rfl⟩ := hc
        simp
      · simp only [hc, if_false, List.not_mem_nil, or_false]
        constructor
        · intro h; exact Or.inl h
        · rintro (h | ⟨_, ha, hq⟩)
          · exact h
          · exact absurd ⟨hq.symm, ha⟩ hc
    · have e1 : ¬ (q' = q ∧ a' = a ∧ i' = i0) := fun h => h0 h.2.2
      simp only [e1, if_false, List.not_mem_nil, or_false]
      by_cases hlt : i0 + 1 ≤ i'
      · have e2 : i' - i0 = (i' - (i0 + 1)) + 1 := by omega
        have e3 : i0 ≤ i' := by omega
        rw [e2, List.getElem?_cons_succ]
        simp [hlt, e3]
      · have e3 : ¬ i0 ≤ i' := by omega
        simp [hlt, e3]

theorem mem_foldl_pushTuple1 (a p : Nat) (tuples : List (List Nat)) (I : Idx1) (r' : Rule) (q' a' i' : Nat) :
    r' ∈ look1 (tuples.foldl (fun I t => pushTuple1 a ⟨a, t, p⟩ I t 0) I) q' a' i' ↔
      r' ∈ look1 I q' a' i' ∨ ∃ t ∈ tuples, r' = ⟨a, t, p⟩ ∧ a' = a ∧ t[i']? = some q' := by
  induction tuples generalizing I with
  | nil => simp
  | cons t ts ih =>
    simp only [List.foldl_cons, ih, mem_pushTuple1, Nat.zero_le, true_and, Nat.sub_zero, List.mem_cons, exists_eq_or_imp]
    constructor
    · rintro ((h | h) | h)
      · exact Or.inl h
      · exact Or.inr (Or.inl h)
      · exact Or.inr (Or.inr h)
    · rintro (h | h | h)
      · exact Or.inl (Or.inl h)
      · exact Or.inl (Or.inr h)
      · exact Or.inr h

theorem mem_pushLeaf (lv : List (Nat × TList)) (a : Nat) (r r' : Rule) (a' : Nat) :
    r' ∈ lookLeaves (pushLeaf lv a r) a' ↔ r' ∈ lookLeaves lv a' ∨ (r' = r ∧ a' = a) := by
  unfold lookLeaves pushLeaf
  rw [aget_aset]
  by_cases h : a' = a
  · subst h; simp
  · simp [h]

theorem mem_foldl_pushLeaf (a p : Nat) (tuples : List (List Nat)) (lv : List (Nat × TList)) (r' : Rule) (a' : Nat) :
    r' ∈ lookLeaves (tuples.foldl (fun lv t => pushLeaf lv a ⟨a, t, p⟩) lv) a' ↔
      r' ∈ lookLeaves lv a' ∨ ∃ t ∈ tuples, r' = ⟨a, t, p⟩ ∧ a' = a := by
  induction tuples generalizing lv with
  | nil => simp
  | cons t ts ih =>
    simp only [List.foldl_cons, ih, mem_pushLeaf, List.mem_cons, exists_eq_or_imp]
    constructor
    · rintro ((h | h) | h)
      · exact Or.inl h
      · exact Or.inr (Or.inl h)
      · exact Or.inr (Or.inr h)
    · rintro (h | h | h)
      · exact Or.inl (Or.inl h)
      · exact Or.inl (Or.inr h)
      · exact Or.inr h

/-- the rules of one cluster -/
def rulesOfGroup (tr : Nat → Nat) (g : Group) : List Rule := g.tuples.map (fun t => ⟨tr g.sym, t, g.parent⟩)

theorem mem_rulesOfGroup {tr : Nat → Nat} {g : Group} {r : Rule} :
    r ∈ rulesOfGroup tr g ↔ ∃ t ∈ g.tuples, r = ⟨tr g.sym, t, g.parent⟩ := by
  unfold rulesOfGroup
  simp only [List.mem_map]
  constructor
  · rintro ⟨t, ht, rfl⟩; exact ⟨t, ht, rfl⟩
  · rintro ⟨t, ht, rfl⟩; exact ⟨t, ht, rfl⟩

/-- the contract for one cluster -/
def RankedG (g : Group) : Prop :=
  ∀ first rest, g.tuples = first :: rest → ∀ t ∈ g.tuples, (t = [] ↔ first = []) ∧ t.length ≤ first.length

theorem group1_look (tr : Nat → Nat) (st : Idx1 × List (Nat × TList)) (g : Group) (hr : RankedG g) (r : Rule) (q a i : Nat) :
    r ∈ look1 (group1 tr st g).1 q a i ↔
      r ∈ look1 st.1 q a i ∨ (r ∈ rulesOfGroup tr g ∧ r.sym = a ∧ r.kids[i]? = some q) := by
  unfold group1
  cases ht : g.tuples with
  | nil => simp [mem_rulesOfGroup, ht]
  | cons first rest =>
    simp only
    by_cases he : first.isEmpty = true
    · rw [if_pos he]
      have hf : first = [] := List.isEmpty_iff.1 he
      constructor
      · intro h; exact Or.inl h
      · rintro (h | ⟨hm, _, hk⟩)
        · exact h
        · obtain ⟨t, ht', rfl⟩ := mem_rulesOfGroup.1 hm
          have := ((hr first rest ht t ht').1).2 hf
          subst this
          simp at hk
    · rw [if_neg he]
      rw [← ht, mem_foldl_pushTuple1]
      constructor
      · rintro (h | ⟨t, ht', rfl, rfl, hk⟩)
        · exact Or.inl h
        · exact Or.inr ⟨mem_rulesOfGroup.2 ⟨t, ht', rfl⟩, rfl, hk⟩
      · rintro (h | ⟨hm, ha, hk⟩)
        · exact Or.inl h
        · obtain ⟨t, ht', rfl⟩ := mem_rulesOfGroup.1 hm
          exact Or.inr ⟨t, ht', rfl, ha.symm, hk⟩

theorem group1_leaves (tr : Nat → Nat) (st : Idx1 × List (Nat × TList)) (g : Group) (hr : RankedG g) (r : Rule) (a : Nat) :
    r ∈ lookLeaves (group1 tr st g).2 a ↔
      r ∈ lookLeaves st.2 a ∨ (r ∈ rulesOfGroup tr g ∧ r.sym = a ∧ r.kids = []) := by
  unfold group1
  cases ht : g.tuples with
  | nil => simp [mem_rulesOfGroup, ht]
  | cons first rest =>
    simp only
    by_cases he : first.isEmpty = true
    · rw [if_pos he]
      have hf : first = [] := List.isEmpty_iff.1 he
      rw [← ht, mem_foldl_pushLeaf]
      constructor
      · rintro (h | ⟨t, ht', rfl, rfl⟩)
        · exact Or.inl h
        · exact Or.inr ⟨mem_rulesOfGroup.2 ⟨t, ht', rfl⟩, rfl, ((hr first rest ht t (ht ▸ ht')).1).2 hf⟩
      · rintro (h | ⟨hm, ha, hk⟩)
        · exact Or.inl h
        · obtain ⟨t, ht', rfl⟩ := mem_rulesOfGroup.1 hm
          exact Or.inr ⟨t, ht', rfl, ha.symm⟩
    · rw [if_neg he]
      have hf : first ≠ [] := fun e => he (List.isEmpty_iff.2 e)
      constructor
      · intro h; exact Or.inl h
      · rintro (h | ⟨hm, _, hk⟩)
        · exact h
        · obtain ⟨t, ht', rfl⟩ := mem_rulesOfGroup.1 hm
          simp only at hk
          exact absurd (((hr first rest ht t (ht ▸ ht')).1).1 hk) hf


theorem ranked_cons {g : Group} {gs : List Group} (h : Ranked (g :: gs)) : RankedG g ∧ Ranked gs :=
  ⟨fun first rest ht t hm => h g (List.mem_cons_self ..) first rest ht t hm,
   fun g' hg' => h g' (List.mem_cons_of_mem _ hg')⟩

theorem mem_rulesOf_cons {tr : Nat → Nat} {g : Group} {gs : List Group} {r : Rule} :
    r ∈ rulesOf tr (g :: gs) ↔ r ∈ rulesOfGroup tr g ∨ r ∈ rulesOf tr gs := by
  simp [rulesOf, rulesOfGroup]

theorem foldl_group1 (tr : Nat → Nat) (gs : List Group) (hr : Ranked gs) (st : Idx1 × List (Nat × TList)) (r : Rule)
    (q a i : Nat) :
    (r ∈ look1 (gs.foldl (group1 tr) st).1 q a i ↔
      r ∈ look1 st.1 q a i ∨ (r ∈ rulesOf tr gs ∧ r.sym = a ∧ r.kids[i]? = some q)) ∧
    (r ∈ lookLeaves (gs.foldl (group1 tr) st).2 a ↔
      r ∈ lookLeaves st.2 a ∨ (r ∈ rulesOf tr gs ∧ r.sym = a ∧ r.kids = [])) := by
  induction gs generalizing st with
  | nil => simp [rulesOf]
  | cons g gs ih =>
    obtain ⟨hg, hgs⟩ := ranked_cons hr
    simp only [List.foldl_cons]
    obtain ⟨i1, i2⟩ := ih hgs (group1 tr st g)
    rw [i1, i2, group1_look tr st g hg, group1_leaves tr st g hg]
    simp only [mem_rulesOf_cons]
    constructor
    · constructor
      · rintro ((h | h) | h)
        · exact Or.inl h
        · exact Or.inr ⟨Or.inl h.1, h.2⟩
        · exact Or.inr ⟨Or.inr h.1, h.2⟩
      · rintro (h | ⟨h | h, h2⟩)
        · exact Or.inl (Or.inl h)
        · exact Or.inl (Or.inr ⟨h, h2⟩)
        · exact Or.inr ⟨h, h2⟩
    · constructor
      · rintro ((h | h) | h)
        · exact Or.inl h
        · exact Or.inr ⟨Or.inl h.1, h.2⟩
        · exact Or.inr ⟨Or.inr h.1, h.2⟩
      · rintro (h | ⟨h | h, h2⟩)
        · exact Or.inl (Or.inl h)
        · exact Or.inl (Or.inr ⟨h, h2⟩)
        · exact Or.inr ⟨h, h2⟩

/-- **(5a)** `bottomUpIndex`: the list at `[state][symbol][position]` holds exactly the rules with that (translated) symbol
    and that state at that position -/
theorem mem_look1 (tr : Nat → Nat) (gs : List Group) (hr : Ranked gs) (r : Rule) (q a i : Nat) :
    r ∈ look1 (bottomUpIndex tr gs).1 q a i ↔ r ∈ rulesOf tr gs ∧ r.sym = a ∧ r.kids[i]? = some q := by
  unfold bottomUpIndex
  rw [(foldl_group1 tr gs hr ([], []) r q a i).1]
  simp [look1, aget]

/-- … and `leaves[symbol]` exactly the leaf rules with that symbol -/
theorem mem_leaves1 (tr : Nat → Nat) (gs : List Group) (hr : Ranked gs) (r : Rule) (a : Nat) :
    r ∈ lookLeaves (bottomUpIndex tr gs).2 a ↔ r ∈ rulesOf tr gs ∧ r.sym = a ∧ r.kids = [] := by
  unfold bottomUpIndex
  rw [(foldl_group1 tr gs hr ([], []) r 0 a 0).2]
  simp [lookLeaves, aget]

/-! #### `bottomUpIndex2` -/

/-- `d[i][q]` -/
def cell (d : List (List TList)) (i q : Nat) : TList := (d.getD i []).getD q []

theorem cell_growTo (d : List (List TList)) (n i q : Nat) : cell (growTo d n) i q = cell d i q := by
  unfold cell; rw [getD_growTo]

theorem length_push2 (d : List (List TList)) (i q : Nat) (r : Rule) : (push2 d i q r).length = d.length := by
  unfold push2; simp

theorem cell_push2 (d : List (List TList)) (i q : Nat) (r : Rule) (hi : i < d.length) (i' q' : Nat) :
    cell (push2 d i q r) i' q' = cell d i' q' ++ (if i' = i ∧ q' = q then [r] else []) := by
  unfold cell push2
  rw [getD_modify _ _ _ _ hi]
  by_cases h : i' = i
  · subst h
    rw [if_pos rfl, getD_pushCell]
    by_cases hq : q' = q <;> simp [hq]
  · rw [if_neg h]; simp [h]

theorem pushTuple2_spec (r : Rule) (d : List (List TList)) (ks : List Nat) (i0 : Nat) (h : i0 + ks.length ≤ d.length) :
    (pushTuple2 r d ks i0).length = d.length ∧
    ∀ r' i' q', r' ∈ cell (pushTuple2 r d ks i0) i' q' ↔
      r' ∈ cell d i' q' ∨ (r' = r ∧ i0 ≤ i' ∧ ks[i' - i0]? = some q') := by
  induction ks generalizing d i0 with
  | nil => simp [pushTuple2]
  | cons q ks ih =>
    simp only [List.length_cons] at h
    have hl := length_push2 d i0 q r
    obtain ⟨l1, l2⟩ := ih (push2 d i0 q r) (i0 + 1) (by rw [hl]; omega)
    refine ⟨by simp only [pushTuple2]; rw [l1, hl], ?_⟩
    intro r' i' q'
    simp only [pushTuple2]
    rw [l2, cell_push2 d i0 q r (by omega), List.mem_append]
    by_cases h0 : i' = i0
    · subst h0
      have : ¬ (i' + 1 ≤ i') := by omega
      simp only [this, false_and, and_false, or_false, Nat.le_refl, Nat.sub_self, List.getElem?_cons_zero, Option.some.injEq,
        true_and]
      by_cases hc : q' = q
      · subst hc; simp
      · have : ¬ q = q' := fun e => hc e.symm
        simp [hc, this]
    · have e1 : ¬ (i' = i0 ∧ q' = q) := fun h => h0 h.1
      simp only [e1, if_false, List.not_mem_nil, or_false]
      by_cases hlt : i0 + 1 ≤ i'
      · have e2 : i' - i0 = (i' - (i0 + 1)) + 1 := by omega
        have e3 : i0 ≤ i' := by omega
        rw [e2, List.getElem?_cons_succ]
        simp [hlt, e3]
      · have e3 : ¬ i0 ≤ i' := by omega
        simp [hlt, e3]

theorem foldl_pushTuple2_spec (a p : Nat) (tuples : List (List Nat)) (d : List (List TList))
    (h : ∀ t ∈ tuples, t.length ≤ d.length) :
    ∀ r' i' q', r' ∈ cell (tuples.foldl (fun d t => pushTuple2 ⟨a, t, p⟩ d t 0) d) i' q' ↔
      r' ∈ cell d i' q' ∨ ∃ t ∈ tuples, r' = ⟨a, t, p⟩ ∧ t[i']? = some q' := by
  induction tuples generalizing d with
  | nil => simp
  | cons t ts ih =>
    intro r' i' q'
    have ht : 0 + t.length ≤ d.length := by have := h t (List.mem_cons_self ..); omega
    obtain ⟨l1, l2⟩ := pushTuple2_spec ⟨a, t, p⟩ d t 0 ht
    simp only [List.foldl_cons]
    rw [ih _ (by intro t' ht'; rw [l1]; exact h t' (List.mem_cons_of_mem _ ht')), l2]
    simp only [Nat.zero_le, true_and, Nat.sub_zero, List.mem_cons, exists_eq_or_imp]
    constructor
    · rintro ((h | h) | h)
      · exact Or.inl h
      · exact Or.inr (Or.inl h)
      · exact Or.inr (Or.inr h)
    · rintro (h | h | h)
      · exact Or.inl (Or.inl h)
      · exact Or.inl (Or.inr h)
      · exact Or.inr h

theorem look2_aset (I : Idx2) (a : Nat) (d : List (List TList)) (a' i q : Nat) :
    look2 (aset I a d) a' i q = if a' = a then cell d i q else look2 I a' i q := by
  unfold look2 cell
  rw [aget_aset]
  by_cases h : a' = a <;> simp [h]

theorem group2_look (tr : Nat → Nat) (st : Idx2 × List (Nat × TList)) (g : Group) (hr : RankedG g) (r : Rule) (a i q : Nat) :
    r ∈ look2 (group2 tr st g).1 a i q ↔
      r ∈ look2 st.1 a i q ∨ (r ∈ rulesOfGroup tr g ∧ r.sym = a ∧ r.kids[i]? = some q) := by
  unfold group2
  cases ht : g.tuples with
  | nil => simp [mem_rulesOfGroup, ht]
  | cons first rest =>
    simp only
    by_cases he : first.isEmpty = true
    · rw [if_pos he]
      have hf : first = [] := List.isEmpty_iff.1 he
      constructor
      · intro h; exact Or.inl h
      · rintro (h | ⟨hm, _, hk⟩)
        · exact h
        · obtain ⟨t, ht', rfl⟩ := mem_rulesOfGroup.1 hm
          have := ((hr first rest ht t ht').1).2 hf
          subst this
          simp at hk
    · rw [if_neg he]
      simp only [look2_aset]
      rw [← ht]
      by_cases ha : a = tr g.sym
      · subst ha
        rw [if_pos rfl, foldl_pushTuple2_spec, cell_growTo]
        · constructor
          · rintro (h | ⟨t, ht', rfl, hk⟩)
            · exact Or.inl h
            · exact Or.inr ⟨mem_rulesOfGroup.2 ⟨t, ht', rfl⟩, rfl, hk⟩
          · rintro (h | ⟨hm, _, hk⟩)
            · exact Or.inl h
            · obtain ⟨t, ht', rfl⟩ := mem_rulesOfGroup.1 hm
              exact Or.inr ⟨t, ht', rfl, hk⟩
        · intro t ht'
          have := (hr first rest ht t ht').2
          have := (length_growTo ((aget st.1 (tr g.sym)).getD []) first.length).1
          omega
      · rw [if_neg ha]
        constructor
        · intro h; exact Or.inl h
        · rintro (h | ⟨hm, hs, _⟩)
          · exact h
          · obtain ⟨t, ht', rfl⟩ := mem_rulesOfGroup.1 hm
            exact absurd hs.symm ha

theorem group2_leaves (tr : Nat → Nat) (st : Idx2 × List (Nat × TList)) (g : Group) (hr : RankedG g) (r : Rule) (a : Nat) :
    r ∈ lookLeaves (group2 tr st g).2 a ↔
      r ∈ lookLeaves st.2 a ∨ (r ∈ rulesOfGroup tr g ∧ r.sym = a ∧ r.kids = []) := by
  unfold group2
  cases ht : g.tuples with
  | nil => simp [mem_rulesOfGroup, ht]
  | cons first rest =>
    simp only
    by_cases he : first.isEmpty = true
    · rw [if_pos he]
      have hf : first = [] := List.isEmpty_iff.1 he
      rw [← ht, mem_foldl_pushLeaf]
      constructor
      · rintro (h | ⟨t, ht', rfl, rfl⟩)
        · exact Or.inl h
        · exact Or.inr ⟨mem_rulesOfGroup.2 ⟨t, ht', rfl⟩, rfl, ((hr first rest ht t (ht ▸ ht')).1).2 hf⟩
      · rintro (h | ⟨hm, ha, hk⟩)
        · exact Or.inl h
        · obtain ⟨t, ht', rfl⟩ := mem_rulesOfGroup.1 hm
          exact Or.inr ⟨t, ht', rfl, ha.symm⟩
    · rw [if_neg he]
      have hf : first ≠ [] := fun e => he (List.isEmpty_iff.2 e)
      constructor
      · intro h; exact Or.inl h
      · rintro (h | ⟨hm, _, hk⟩)
        · exact h
        · obtain ⟨t, ht', rfl⟩ := mem_rulesOfGroup.1 hm
          simp only at hk
          exact absurd (((hr first rest ht t (ht ▸ ht')).1).1 hk) hf

theorem foldl_group2 (tr : Nat → Nat) (gs : List Group) (hr : Ranked gs) (st : Idx2 × List (Nat × TList)) (r : Rule)
    (a i q : Nat) :
    (r ∈ look2 (gs.foldl (group2 tr) st).1 a i q ↔
      r ∈ look2 st.1 a i q ∨ (r ∈ rulesOf tr gs ∧ r.sym = a ∧ r.kids[i]? = some q)) ∧
    (r ∈ lookLeaves (gs.foldl (group2 tr) st).2 a ↔
      r ∈ lookLeaves st.2 a ∨ (r ∈ rulesOf tr gs ∧ r.sym = a ∧ r.kids = [])) := by
  induction gs generalizing st with
  | nil => simp [rulesOf]
  | cons g gs ih =>
    obtain ⟨hg, hgs⟩ := ranked_cons hr
    simp only [List.foldl_cons]
    obtain ⟨i1, i2⟩ := ih hgs (group2 tr st g)
    rw [i1, i2, group2_look tr st g hg, group2_leaves tr st g hg]
    simp only [mem_rulesOf_cons]
    constructor
    · constructor
      · rintro ((h | h) | h)
        · exact Or.inl h
        · exact Or.inr ⟨Or.inl h.1, h.2⟩
        · exact Or.inr ⟨Or.inr h.1, h.2⟩
      · rintro (h | ⟨h | h, h2⟩)
        · exact Or.inl (Or.inl h)
        · exact Or.inl (Or.inr ⟨h, h2⟩)
        · exact Or.inr ⟨h, h2⟩
    · constructor
      · rintro ((h | h) | h)
        · exact Or.inl h
        · exact Or.inr ⟨Or.inl h.1, h.2⟩
        · exact Or.inr ⟨Or.inr h.1, h.2⟩
      · rintro (h | ⟨h | h, h2⟩)
        · exact Or.inl (Or.inl h)
        · exact Or.inl (Or.inr ⟨h, h2⟩)
        · exact Or.inr ⟨h, h2⟩

/-- **(5b)** `bottomUpIndex2`: the list at `[symbol][position][state]` holds exactly the rules with that (translated) symbol
    and that state at that position (no `push_back` goes out of range: the rule would be missing) -/
theorem mem_look2 (tr : Nat → Nat) (gs : List Group) (hr : Ranked gs) (r : Rule) (a i q : Nat) :
    r ∈ look2 (bottomUpIndex2 tr gs).1 a i q ↔ r ∈ rulesOf tr gs ∧ r.sym = a ∧ r.kids[i]? = some q := by
  unfold bottomUpIndex2
  rw [(foldl_group2 tr gs hr ([], []) r a i q).1]
  simp [look2, aget]

theorem mem_leaves2 (tr : Nat → Nat) (gs : List Group) (hr : Ranked gs) (r : Rule) (a : Nat) :
    r ∈ lookLeaves (bottomUpIndex2 tr gs).2 a ↔ r ∈ rulesOf tr gs ∧ r.sym = a ∧ r.kids = [] := by
  unfold bottomUpIndex2
  rw [(foldl_group2 tr gs hr ([], []) r a 0 0).2]
  simp [lookLeaves, aget]


theorem ranked_of_rankedB {gs : List Group} (h : rankedB gs = true) : Ranked gs := by
  intro g hg first rest ht t hm
  unfold rankedB at h
  have := List.all_eq_true.1 h g hg
  simp only [ht, List.all_eq_true, Bool.and_eq_true, beq_iff_eq, decide_eq_true_eq] at this
  obtain ⟨h1, h2⟩ := this t (ht ▸ hm)
  refine ⟨?_, h2⟩
  cases t <;> cases first <;> simp_all

/-- the contract is needed: in a cluster whose first tuple is not empty a leaf rule is silently dropped … -/
theorem unranked_loses_leaf :
    let gs : List Group := [⟨0, 7, [[1], []]⟩]
    (⟨7, [], 0⟩ : Rule) ∈ rulesOf id gs ∧ lookLeaves (bottomUpIndex id gs).2 7 = [] := by
  decide

/-- … and in `bottomUpIndex2` a tuple longer than the first one of its cluster loses its last positions (in C++: a write past
    the end of the vector) -/
theorem unranked_loses_position :
    let gs : List Group := [⟨0, 7, [[1], [1, 2]]⟩]
    (⟨7, [1, 2], 0⟩ : Rule) ∈ rulesOf id gs ∧ look2 (bottomUpIndex2 id gs).1 7 1 2 = [] := by
  decide

end BU

end Vata.CM
