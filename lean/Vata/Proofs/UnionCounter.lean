import Vata.UnionCounter
import Vata.Proofs.UnionModel
/-!
# Where may the fresh-state counter of `Union` start?  (`Vata/UnionCounter.lean`)

* `unionModelFrom_unionCnt`            the repaired code is the instance `c0 = unionCnt mL mR` (by `rfl`)
* `unionModelFromOrd_maps_inj/_lang`   SUFFICIENT: any start above all pre-filled values is right (all visiting orders)
* `Uc.weakTrAll_ext`, `Uc.weakTrAll_range`   what the weak translator does WITHOUT the hypothesis `Below` (needed for the
                                       wrong starts): old bindings are kept; `n` consecutive unknown keys get `c, …, c+n-1`
* `unionModelFrom_bad_left/_right`     NECESSARY: a value `v ≥ c0` in either map, operands built from `v`, `c0`, the key of `v`
                                       and the key bound of the other map: the result accepts `b`, both languages are empty
-/
namespace Vata

theorem unionModelFromOrd_unionCnt (oA oB : List Nat) (A B : TA) (mL mR : SMap) :
    unionModelFromOrd (unionCnt mL mR) oA oB A B mL mR = unionModelOrd oA oB A B mL mR := rfl

theorem unionModelFrom_unionCnt (A B : TA) (mL mR : SMap) :
    unionModelFrom (unionCnt mL mR) A B mL mR = unionModel A B mL mR := rfl

theorem unionModelFrom_zero (A B : TA) (mL mR : SMap) :
    unionModelFrom 0 A B mL mR = unionModelOld A B mL mR := rfl

/-! ## sufficient -/

theorem unionModelFromOrd_maps_inj (c0 : Nat) (oA oB : List Nat) (A B : TA) (mL mR : SMap)
    (hbL : Um.Below mL c0) (hbR : Um.Below mR c0) (hL : Um.Inj mL) (hR : Um.Inj mR) (hD : Um.Disj mL mR) :
    Um.Inj (unionModelFromOrd c0 oA oB A B mL mR).2.1 ∧ Um.Inj (unionModelFromOrd c0 oA oB A B mL mR).2.2 ∧
    Um.Disj (unionModelFromOrd c0 oA oB A B mL mR).2.1 (unionModelFromOrd c0 oA oB A B mL mR).2.2 := by
  obtain ⟨h1, h2, h3, _⟩ := Um.passes (oA := oA) (oB := oB) hbL hbR hL hR hD
  exact ⟨h1, h2, h3⟩

theorem unionModelFromOrd_maps_ok (c0 : Nat) (oA oB : List Nat) (A B : TA) (mL mR : SMap)
    (hoA : ∀ q, q ∈ A.states → q ∈ oA) (hoB : ∀ q, q ∈ B.states → q ∈ oB)
    (hbL : Um.Below mL c0) (hbR : Um.Below mR c0) (hL : Um.Inj mL) (hR : Um.Inj mR) (hD : Um.Disj mL mR) :
    InjOnStates (applyMap (unionModelFromOrd c0 oA oB A B mL mR).2.1) A ∧
    InjOnStates (applyMap (unionModelFromOrd c0 oA oB A B mL mR).2.2) B ∧
    (∀ q q', q ∈ A.states → q' ∈ B.states →
      applyMap (unionModelFromOrd c0 oA oB A B mL mR).2.1 q ≠ applyMap (unionModelFromOrd c0 oA oB A B mL mR).2.2 q') := by
  obtain ⟨h1, h2, h3, _, _, h6, h7⟩ := Um.passes (oA := oA) (oB := oB) hbL hbR hL hR hD
  have tA : ∀ q, q ∈ A.states → ∃ n, (weakTrAll oA mL c0).1.lookup q = some n := fun q hq => h6 q (hoA q hq)
  have tB : ∀ q, q ∈ B.states → ∃ n, (weakTrAll oB mR (weakTrAll oA mL c0).2).1.lookup q = some n :=
    fun q hq => h7 q (hoB q hq)
  exact ⟨Um.injOn_of h1 tA, Um.injOn_of h2 tB, Um.disjOn_of h3 tA tB⟩

theorem unionModelFromOrd_lang (c0 : Nat) (oA oB : List Nat) (A B : TA) (mL mR : SMap)
    (hoA : ∀ q, q ∈ A.states → q ∈ oA) (hoB : ∀ q, q ∈ B.states → q ∈ oB)
    (hbL : Um.Below mL c0) (hbR : Um.Below mR c0) (hL : Um.Inj mL) (hR : Um.Inj mR) (hD : Um.Disj mL mR) (t : Tree) :
    accepts (unionModelFromOrd c0 oA oB A B mL mR).1 t = (accepts A t || accepts B t) := by
  obtain ⟨h1, h2, h3⟩ := unionModelFromOrd_maps_ok c0 oA oB A B mL mR hoA hoB hbL hbR hL hR hD
  exact unionWith_lang _ _ A B h1 h2 h3 t

namespace Uc

/-! ## the weak translator without `Below` -/

theorem weakTr_ext (m : SMap) (c q : Nat) {p n : Nat} (h : m.lookup p = some n) : (weakTr m c q).1.lookup p = some n := by
  unfold weakTr
  cases hl : m.lookup q with
  | some _ => exact h
  | none =>
    show (m ++ [(q, c)]).lookup p = some n
    rw [Um.lookup_snoc, h]; rfl

theorem weakTrAll_ext : ∀ (qs : List Nat) (m : SMap) (c : Nat) {p n : Nat}, m.lookup p = some n →
    (weakTrAll qs m c).1.lookup p = some n
  | [], _, _, _, _, h => h
  | q :: qs, m, c, _, _, h => weakTrAll_ext qs _ _ (weakTr_ext m c q h)

theorem weakTrAll_append : ∀ (qs rs : List Nat) (m : SMap) (c : Nat),
    weakTrAll (qs ++ rs) m c = weakTrAll rs (weakTrAll qs m c).1 (weakTrAll qs m c).2
  | [], _, _, _ => rfl
  | _ :: qs, rs, _, _ => weakTrAll_append qs rs _ _

/-- a known state changes nothing -/
theorem weakTrAll_known {m : SMap} {p n : Nat} (c : Nat) (h : m.lookup p = some n) : weakTrAll [p] m c = (m, c) := by
  simp [weakTrAll, weakTr, h]

/-- `n` consecutive unknown keys `K, …, K+n-1` get the numbers `c, …, c+n-1`, whatever the map contains -/
theorem weakTrAll_range : ∀ (n K : Nat) (m : SMap) (c : Nat), (∀ k, K ≤ k → m.lookup k = none) →
    ∀ i, i < n → (weakTrAll (List.range' K n) m c).1.lookup (K + i) = some (c + i)
  | 0, _, _, _, _, i, hi => absurd hi (Nat.not_lt_zero i)
  | n + 1, K, m, c, hm, i, hi => by
    have hK : m.lookup K = none := hm K (Nat.le_refl _)
    have hw : weakTr m c K = (m ++ [(K, c)], c + 1) := by simp [weakTr, hK]
    show (weakTrAll (List.range' (K + 1) n) (weakTr m c K).1 (weakTr m c K).2).1.lookup (K + i) = some (c + i)
    rw [hw]
    cases i with
    | zero =>
      apply weakTrAll_ext
      rw [Nat.add_zero, Nat.add_zero, Um.lookup_snoc, hK]; simp
    | succ j =>
      have hm' : ∀ k, K + 1 ≤ k → (m ++ [(K, c)]).lookup k = none := by
        intro k hk
        rw [Um.lookup_snoc, hm k (by omega), if_neg (by omega)]; rfl
      have := weakTrAll_range n (K + 1) (m ++ [(K, c)]) (c + 1) hm' j (by omega)
      rw [show K + (j + 1) = K + 1 + j by omega, show c + (j + 1) = c + 1 + j by omega]
      exact this

theorem keyBound_aux : ∀ (m : SMap) (c : Nat),
    c ≤ m.foldl (fun a e => max a (e.1 + 1)) c ∧ ∀ e, e ∈ m → e.1 < m.foldl (fun a e => max a (e.1 + 1)) c
  | [], c => ⟨Nat.le_refl _, fun e he => by simp at he⟩
  | x :: m, c => by
    obtain ⟨h1, h2⟩ := keyBound_aux m (max c (x.1 + 1))
    simp only [List.foldl_cons] at h1 h2 ⊢
    refine ⟨Nat.le_trans (Nat.le_max_left _ _) h1, ?_⟩
    intro e he
    rcases List.mem_cons.mp he with h | h
    · subst h
      exact Nat.lt_of_lt_of_le (Nat.lt_of_lt_of_le (Nat.lt_succ_self _) (Nat.le_max_right c _)) h1
    · exact h2 e h

/-- the states from `keyBound m` on are unknown to `m` -/
theorem keyBound_spec (m : SMap) (k : Nat) (hk : keyBound m ≤ k) : m.lookup k = none := by
  cases hl : m.lookup k with
  | none => rfl
  | some n =>
    have := (keyBound_aux m 0).2 _ (Um.mem_of_lookup hl)
    unfold keyBound at hk
    simp only at this
    omega

theorem visitOrder_point (p : Nat) : visitOrder (pointTA p) = [p] := rfl

theorem visitOrder_chain (K d : Nat) : visitOrder (chainTA K d) = List.range' K (d + 1) ++ [K + d] := by
  simp [visitOrder, chainTA, Rule.states, List.range'_succ]

/-- the pass over the chain operand gives its last state the number `c + d` -/
theorem chain_pass (m : SMap) (K d c : Nat) (hK : keyBound m ≤ K) :
    applyMap (weakTrAll (visitOrder (chainTA K d)) m c).1 (K + d) = c + d := by
  rw [visitOrder_chain, weakTrAll_append]
  apply Um.applyMap_of_lookup
  apply weakTrAll_ext
  exact weakTrAll_range (d + 1) K m c (fun k hk => keyBound_spec m k (Nat.le_trans hK hk)) d (Nat.lt_succ_self d)

/-! ## both operands have the empty language -/

theorem accepts_point (p : Nat) : ∀ t, accepts (pointTA p) t = false
  | .node f ts => by simp [accepts, reach, post, pointTA, accepting]

theorem accepts_chain (K d : Nat) (t : Tree) : accepts (chainTA K d) t = false := by
  simp [accepts, accepting, chainTA]

end Uc

/-! ## necessary -/

/-- a value `v ≥ c0` in the LEFT map: the right operand's fresh states run into it -/
theorem unionModelFrom_bad_left (c0 : Nat) (mL mR : SMap) {p v : Nat} (hp : mL.lookup p = some v) (hv : c0 ≤ v) :
    accepts (unionModelFrom c0 (pointTA p) (chainTA (keyBound mR) (v - c0)) mL mR).1 leafB = true := by
  have h1 : weakTrAll (visitOrder (pointTA p)) mL c0 = (mL, c0) := Uc.weakTrAll_known c0 hp
  have h2 := Uc.chain_pass mR (keyBound mR) (v - c0) c0 (Nat.le_refl _)
  have h3 : applyMap mL p = v := Um.applyMap_of_lookup hp
  have h4 : c0 + (v - c0) = v := by omega
  simp only [unionModelFrom, unionModelFromOrd, h1]
  simp only [accepts, leafB, reach, reachL, post, accepting, unionWith, reindex, pointTA]
  simp [chainTA, mapRule, matchKids, h3]
  exact h2.trans h4

/-- a value `v ≥ c0` in the RIGHT map: the left operand's fresh states run into it -/
theorem unionModelFrom_bad_right (c0 : Nat) (mL mR : SMap) {p v : Nat} (hp : mR.lookup p = some v) (hv : c0 ≤ v) :
    accepts (unionModelFrom c0 (chainTA (keyBound mL) (v - c0)) (pointTA p) mL mR).1 leafB = true := by
  have h2 := Uc.chain_pass mL (keyBound mL) (v - c0) c0 (Nat.le_refl _)
  have h1 : ∀ c, weakTrAll (visitOrder (pointTA p)) mR c = (mR, c) := fun c => Uc.weakTrAll_known c hp
  have h3 : applyMap mR p = v := Um.applyMap_of_lookup hp
  have h4 : c0 + (v - c0) = v := by omega
  simp only [unionModelFrom, unionModelFromOrd, h1]
  simp only [accepts, leafB, reach, reachL, post, accepting, unionWith, reindex, pointTA]
  simp [chainTA, mapRule, matchKids, h3]
  exact h2.trans h4

/-- `Below` fails exactly if some binding has a value `≥ c` -/
theorem not_below {m : SMap} {c : Nat} (h : ¬ Um.Below m c) : ∃ p v, m.lookup p = some v ∧ c ≤ v := by
  apply Classical.byContradiction
  intro hn
  apply h
  intro p n hp
  apply Classical.byContradiction
  intro hlt
  exact hn ⟨p, n, hp, by omega⟩

end Vata
