import Vata.Proofs.CowInterned
/-!
# Named automata over one tuple cache – the operations keep the cache consistent (`CI`)

`assignI`, `clearI`, `destroyI` (release cascades), `uniqueMapI`, `uniqueClusterI` (clones of map / cluster nodes: no tuple
pointer is touched) and `addToClusterUniqueI` (clone of a shared tuple set: every pointer acquired; insertion: the new
pointer acquired iff it was not there).
-/
namespace Vata.CowI
open Vata.Store (upsert insN insTuple TupleSet)
open Vata.CM (aget aset adel byId mem_aset mem_adel)
open Vata.CowHeap (upd upd_same upd_other mem_of_lookup_snd)
open Vata.CowHeap3 (Heap allocMap incMap retarget addHandle dropHandle allocCluster setEntry clearEntries allocTs
  setCEntry writeTs releaseTs releaseCluster releaseMap mout cout uniqueMap uniqueCluster addToClusterUnique addUnique
  InvP Inv hout hmap_mem)
open Vata.StoreI (CacheSt lookupC acquireC releaseC derefC CInv)

variable {E : List Nat}

theorem assignI_ok {S : HC} (hI : Inv S.1) (hc : CI S E) (src dst : Nat) :
    CI (assignI S src dst) E ∧ Sub (assignI S src dst).2 S.2 := by
  unfold assignI
  split
  · rename_i hcnd
    have h1 := CowHeap3.incMap_inv hI (hmap_mem hI hcnd.1)
    have h2 := CowHeap3.retarget_inv (h := dst) h1 hcnd.2.1
    have := releaseMapI_ok (S := (retarget (incMap S.1 (S.1.hmap src)) dst (S.1.hmap src), S.2)) (E := E) h2 hc
    exact ⟨this.1, this.2.1⟩
  · exact ⟨hc, Sub.refl _⟩

theorem destroyI_ok {S : HC} (hI : Inv S.1) (hc : CI S E) (h : Nat) :
    CI (destroyI S h) E ∧ Sub (destroyI S h).2 S.2 := by
  unfold destroyI
  split
  · rename_i hh
    have h2 := CowHeap3.dropHandle_inv hI hh
    have := releaseMapI_ok (S := (dropHandle S.1 h, S.2)) (E := E) h2 hc
    exact ⟨this.1, this.2.1⟩
  · exact ⟨hc, Sub.refl _⟩

theorem clearI_ok {S : HC} (hI : Inv S.1) (hc : CI S E) (h : Nat) :
    CI (clearI S h) E ∧ Sub (clearI S h).2 S.2 := by
  unfold clearI
  split
  · rename_i hh
    have hm := hmap_mem hI hh
    simp only
    split
    · have h1 := CowHeap3.clearEntries_inv hI hm
      have := foldl_releaseClusterI_ok (S := (clearEntries S.1 (S.1.hmap h), S.2)) (E := E) (pc := [])
        (mout S.1 (S.1.hmap h)) (by simpa using h1) hc
      exact ⟨this.1, this.2.1⟩
    · have h1 : InvP (allocMap S.1 []) [S.1.next] [] [] :=
        CowHeap3.allocMap_inv hI [] (by intro c hc; simp at hc)
      have h2 := CowHeap3.retarget_inv (h := h) h1 hh
      have := releaseMapI_ok (S := (retarget (allocMap S.1 []) h S.1.next, S.2)) (E := E) h2 hc
      exact ⟨this.1, this.2.1⟩
  · exact ⟨hc, Sub.refl _⟩

theorem uniqueMapI_ok {S : HC} (hI : Inv S.1) {h : Nat} (hh : h ∈ S.1.hl) (hc : CI S E) :
    CI (uniqueMapI S h) E ∧ Sub (uniqueMapI S h).2 S.2 := by
  unfold uniqueMapI
  simp only
  split
  · exact ⟨hc, Sub.refl _⟩
  · have hm : S.1.hmap h ∈ S.1.ml := hmap_mem hI hh
    have h1 : InvP (allocMap S.1 (S.1.ment (S.1.hmap h))) [S.1.next] [] [] :=
      CowHeap3.allocMap_inv hI _ (fun c hc => hI.mc.pt _ hm c hc)
    have h2 := CowHeap3.retarget_inv (h := h) h1 hh
    have := releaseMapI_ok (S := (retarget (allocMap S.1 (S.1.ment (S.1.hmap h))) h S.1.next, S.2)) (E := E) h2 hc
    exact ⟨this.1, this.2.1⟩

theorem uniqueClusterI_ok {S : HC} (hI : Inv S.1) {m : Nat} (hm : m ∈ S.1.ml) (q : Nat) (hc : CI S E) :
    CI (uniqueClusterI S m q).1 E ∧ Sub (uniqueClusterI S m q).1.2 S.2 := by
  unfold uniqueClusterI
  cases hl : (S.1.ment m).lookup q with
  | none => exact ⟨hc, Sub.refl _⟩
  | some c =>
    simp only
    by_cases hu : S.1.crc c = 1
    · simp only [hu, if_true]
      exact ⟨hc, Sub.refl _⟩
    · simp only [hu, if_false]
      have hcm : c ∈ mout S.1 m := mem_of_lookup_snd hl
      have hcl : c ∈ S.1.cl := hI.mc.pt _ hm c hcm
      have h1 := CowHeap3.allocCluster_inv hI (S.1.cent c) (fun t ht => hI.ct.pt c hcl t ht)
      have h2 := CowHeap3.setEntry_inv q h1 (m := m) hm
      have e : (allocCluster S.1 (S.1.cent c)).ment = S.1.ment := rfl
      rw [e, hl] at h2
      have := releaseClusterI_ok (S := (setEntry (allocCluster S.1 (S.1.cent c)) m q S.1.next, S.2)) (E := E)
        (by simpa using h2) hc
      exact ⟨this.1, this.2.1⟩

/-! ### the tuple-set level -/

theorem flatMap_congr' {l : List Nat} {f g : Nat → List Nat} (h : ∀ a, a ∈ l → f a = g a) :
    l.flatMap f = l.flatMap g := by
  induction l with
  | nil => rfl
  | cons a l ih =>
    simp only [List.flatMap_cons]
    rw [h a List.mem_cons_self, ih (fun b hb => h b (List.mem_cons_of_mem _ hb))]

theorem refsT_allocTs {H : Heap} (hf : H.next ∉ H.tl) (d : TupleSet) : refsT (allocTs H d) = idsOf d ++ refsT H := by
  unfold refsT allocTs
  simp only [List.flatMap_cons, upd_same]
  congr 1
  apply flatMap_congr'
  intro t ht
  have hne : t ≠ H.next := fun e => hf (by rw [← e]; exact ht)
  show idsOf (upd H.tdat H.next d t) = idsOf (H.tdat t)
  rw [upd_other _ _ hne]

theorem count_refsT_writeTs {H : Heap} (hnd : H.tl.Nodup) {ts : Nat} (hts : ts ∈ H.tl) (d : TupleSet) (x : Nat) :
    List.count x (refsT (writeTs H ts d)) + List.count x (idsOf (H.tdat ts)) =
      List.count x (refsT H) + List.count x (idsOf d) := by
  unfold refsT writeTs
  simp only
  rw [count_flatMap_erase (fun t => idsOf (upd H.tdat ts d t)) hts x,
    count_flatMap_erase (fun t => idsOf (H.tdat t)) hts x]
  simp only [upd_same]
  have : (H.tl.erase ts).flatMap (fun t => idsOf (upd H.tdat ts d t)) =
      (H.tl.erase ts).flatMap (fun t => idsOf (H.tdat t)) := by
    apply flatMap_congr'
    intro t ht
    rw [upd_other _ _ (fun e => by rw [e] at ht; exact (hnd.mem_erase_iff.1 ht).1 rfl)]
  rw [this]
  omega

theorem count_idsOf_insTuple (x p : Nat) (d : TupleSet) :
    List.count x (idsOf (insTuple (cell p) d)) =
      List.count x (idsOf d) + (if d.contains (cell p) then 0 else if x = p then 1 else 0) := by
  unfold insTuple idsOf cell
  by_cases hc : d.contains [p] = true
  · have hc' : [p] ∈ d := List.contains_iff_mem.1 hc
    simp [hc']
  · simp only [hc, if_false, List.flatten_append, List.count_append, Bool.false_eq_true]
    by_cases e : x = p
    · subst e; simp
    · have : ¬ p = x := fun h => e h.symm
      simp [e, this]

theorem mem_refsT {H : Heap} {t : Nat} (ht : t ∈ H.tl) {x : Nat} (hx : x ∈ idsOf (H.tdat t)) : x ∈ refsT H :=
  List.mem_flatMap.2 ⟨t, ht, hx⟩

/-- `uniqueTuplePtrSet(f)->insert(p)` with a pointer `p` the caller holds -/
theorem addToClusterUniqueI_ok {S : HC} (hI : Inv S.1) {c : Nat} (hcl : c ∈ S.1.cl) (f : Nat) {p : Nat} (hp : p ∈ E)
    (hc : CI S E) :
    CI (addToClusterUniqueI .lib S c f p) E ∧ Sub (addToClusterUniqueI .lib S c f p).2 S.2 := by
  have hpR : p ∈ refsT S.1 ++ E := List.mem_append_right _ hp
  unfold addToClusterUniqueI
  cases hl : (S.1.cent c).lookup f with
  | none =>
    simp only
    refine ⟨?_, acquireC_sub _ _⟩
    have h1 := (CInv.acquireC hc hpR).1
    unfold CI
    apply h1.congr
    intro id
    show List.count id (refsT (allocTs S.1 (insTuple (cell p) [])) ++ E) = _
    rw [refsT_allocTs hI.ct.fresh]
    simp [insTuple, idsOf, cell, List.count_append, List.count_cons]
  | some ts =>
    have htc : ts ∈ cout S.1 c := mem_of_lookup_snd hl
    have hts : ts ∈ S.1.tl := hI.ct.pt c hcl ts htc
    simp only
    -- the effect of `insert(p)` on a cache `k` consistent with `R`
    have hins : ∀ (k : CacheSt) (R : List Nat), CInv k R → p ∈ R →
        CInv (if (S.1.tdat ts).contains (cell p) = true then k else acquireC k p)
          ((if (S.1.tdat ts).contains (cell p) = true then [] else [p]) ++ R) ∧
        Sub (if (S.1.tdat ts).contains (cell p) = true then k else acquireC k p) k := by
      intro k R hk hpk
      by_cases hcon : (S.1.tdat ts).contains (cell p) = true
      · simp only [hcon, if_true]
        exact ⟨by simpa using hk, Sub.refl _⟩
      · simp only [hcon]
        exact ⟨by simpa using (CInv.acquireC hk hpk).1, acquireC_sub _ _⟩
    by_cases hu : S.1.trc ts = 1
    · simp only [hu, if_true]
      obtain ⟨h1, h2⟩ := hins S.2 _ hc hpR
      refine ⟨?_, h2⟩
      unfold CI
      apply h1.congr
      intro id
      have := count_refsT_writeTs hI.ct.tnd hts (insTuple (cell p) (S.1.tdat ts)) id
      rw [count_idsOf_insTuple] at this
      simp only [List.count_append]
      by_cases hcon : (S.1.tdat ts).contains (cell p) = true
      · simp only [hcon, if_true, List.count_nil] at this ⊢
        omega
      · simp only [hcon, if_false, List.count_cons, List.count_nil, Bool.false_eq_true] at this ⊢
        by_cases e : id = p
        · subst e; simp at this ⊢; omega
        · have e' : ¬ p = id := fun h => e h.symm
          simp [e, e'] at this ⊢; omega
    · simp only [hu, if_false, show (Mode.lib = Mode.rawCopy) = False from by simp]
      -- `new TuplePtrSet(*tupleSet)`
      have hsub : ∀ q, q ∈ idsOf (S.1.tdat ts) → q ∈ refsT S.1 ++ E :=
        fun q hq => List.mem_append_left _ (mem_refsT hts hq)
      obtain ⟨a1, _⟩ := CInv.foldl_acquireC (idsOf (S.1.tdat ts)) hc hsub
      have a2 := foldl_acquireC_sub (idsOf (S.1.tdat ts)) S.2
      obtain ⟨b1, b2⟩ := hins _ _ a1 (List.mem_append_right _ hpR)
      -- the heap before the old pointer is released
      have i1 := CowHeap3.allocTs_inv hI (insTuple (cell p) (S.1.tdat ts))
      have i2 := CowHeap3.setCEntry_inv f i1 (c := c) hcl
      have e : (allocTs S.1 (insTuple (cell p) (S.1.tdat ts))).cent = S.1.cent := rfl
      rw [e, hl] at i2
      have hci : CI (setCEntry (allocTs S.1 (insTuple (cell p) (S.1.tdat ts))) c f S.1.next,
          (if (S.1.tdat ts).contains (cell p) = true then (idsOf (S.1.tdat ts)).foldl acquireC S.2
           else acquireC ((idsOf (S.1.tdat ts)).foldl acquireC S.2) p)) E := by
        unfold CI
        apply b1.congr
        intro id
        show List.count id (refsT (allocTs S.1 (insTuple (cell p) (S.1.tdat ts))) ++ E) = _
        rw [refsT_allocTs hI.ct.fresh]
        simp only [List.count_append, count_idsOf_insTuple, List.count_reverse]
        by_cases hcon : (S.1.tdat ts).contains (cell p) = true
        · simp only [hcon, if_true, List.count_nil]
          omega
        · simp only [hcon, if_false, List.count_cons, List.count_nil, Bool.false_eq_true]
          by_cases e : id = p
          · subst e; simp
            omega
          · have e' : ¬ p = id := fun h => e h.symm
            simp [e, e']
            omega
      have := releaseTsI_ok (E := E) (by simpa using i2) hci
      exact ⟨this.1, this.2.1.trans (b2.trans a2)⟩

/-- `internalAddTransition(p, f, q)` on a live automaton, with a pointer the caller holds -/
theorem internalAddI_ok {S : HC} (hI : Inv S.1) {h : Nat} (hh : h ∈ S.1.hl) (q f : Nat) {p : Nat} (hp : p ∈ E)
    (hc : CI S E) :
    CI (internalAddI .lib S h q f p) E ∧ Sub (internalAddI .lib S h q f p).2 S.2 := by
  unfold internalAddI addUniqueI
  simp only
  obtain ⟨a1, a2⟩ := uniqueMapI_ok hI hh hc
  obtain ⟨u1, u2, u3, u4⟩ := CowHeap3.uniqueMap_spec hI hh
  rw [← uniqueMapI_fst] at u1 u3 u4
  generalize uniqueMapI S h = S1 at a1 a2 u1 u3 u4
  have hm1 : S1.1.hmap h ∈ S1.1.ml := hmap_mem u1 u3
  obtain ⟨b1, b2⟩ := uniqueClusterI_ok u1 hm1 q a1
  obtain ⟨v1, v2, v3, v4, _, _⟩ := CowHeap3.uniqueCluster_spec u1 u3 u4 q
  obtain ⟨w1, w2⟩ := uniqueClusterI_fst S1 (S1.1.hmap h) q
  rw [← w1] at v1 v2 v3 v4
  rw [← w2] at v4
  generalize uniqueClusterI S1 (S1.1.hmap h) q = r at b1 b2 v1 v2 v3 v4
  obtain ⟨S2, c⟩ := r
  simp only at b1 b2 v1 v2 v3 v4 ⊢
  have hm2 : S1.1.hmap h ∈ S2.1.ml := by
    have := hmap_mem v1 (v2 ▸ u3)
    rw [v3] at this; exact this
  have hc2 : c ∈ S2.1.cl := v1.mc.pt _ hm2 c (mem_of_lookup_snd v4)
  obtain ⟨d1, d2⟩ := addToClusterUniqueI_ok v1 hc2 f hp b1
  exact ⟨d1, d2.trans (b2.trans a2)⟩

end Vata.CowI
