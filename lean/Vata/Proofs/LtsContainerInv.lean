import Vata.Proofs.LtsContainer
/-!
# `ExplicitLTS` container: the data invariant `DInv` (every history) and the `SmartSet` analysis of `init()` (C16)

`init` is the repaired `init()` (`bwLabels_.assign`, commit 810ab7a9); the lemmas about one set under the rounds of the loop
(`initSetF_*`) hold for any start value, `initSetF_new` specialises them to the fresh empty set of the repaired code.
-/
set_option linter.unusedSimpArgs false
namespace Vata.LC
open Vata.L

/-! ### the abstract side -/

theorem spec_post_snoc (n n' : Nat) (es : List (Nat × Nat × Nat)) (q a r a' q' : Nat) :
    LE.post ⟨n, es ++ [(q, a, r)]⟩ a' q' =
      if a = a' ∧ q = q' then LE.post ⟨n', es⟩ a q ++ [r] else LE.post ⟨n', es⟩ a' q' := by
  simp only [LE.post, List.filter_append, List.map_append]
  by_cases h : a = a' ∧ q = q'
  · obtain ⟨rfl, rfl⟩ := h; simp
  · rw [if_neg h]
    have : ((q == q') && (a == a')) = false := by
      simp only [Bool.and_eq_false_iff, beq_eq_false_iff_ne]
      by_cases e : q = q'
      · right; intro e'; exact h ⟨e', e⟩
      · left; exact e
    simp [List.filter_cons, this]

theorem spec_pre_snoc (n n' : Nat) (es : List (Nat × Nat × Nat)) (q a r a' r' : Nat) :
    LE.pre ⟨n, es ++ [(q, a, r)]⟩ a' r' =
      if a = a' ∧ r = r' then LE.pre ⟨n', es⟩ a r ++ [q] else LE.pre ⟨n', es⟩ a' r' := by
  simp only [LE.pre, List.filter_append, List.map_append]
  by_cases h : a = a' ∧ r = r'
  · obtain ⟨rfl, rfl⟩ := h; simp
  · rw [if_neg h]
    have : ((a == a') && (r == r')) = false := by
      simp only [Bool.and_eq_false_iff, beq_eq_false_iff_ne]
      by_cases e : a = a'
      · right; intro e'; exact h ⟨e, e'⟩
      · left; exact e
    simp [List.filter_cons, this]

theorem spec_labels_snoc (n n' : Nat) (es : List (Nat × Nat × Nat)) (e : Nat × Nat × Nat) :
    LE.labels ⟨n, es ++ [e]⟩ = max (LE.labels ⟨n', es⟩) (e.2.1 + 1) := by
  simp [LE.labels, List.foldl_append]

/-! ### the data invariant -/

/-- what links the object to the abstract system of its history (holds after EVERY history, `dinv_run`) -/
structure DInv (L : LTS) (c : LtsC) : Prop where
  post : ∀ a q, c.post a q = LE.post L a q
  pre : ∀ a r, c.pre a r = LE.pre L a r
  labels : c.data.length = LE.labels L
  states : c.states = L.n
  trans : c.transitions = L.edges.length
  lens : ∀ a, (c.data.getD a ([], [])).1.length ≤ c.states ∧ (c.data.getD a ([], [])).2.length ≤ c.states

theorem dinv_construct (n : Nat) (ub : Bool) : DInv ⟨n, []⟩ { construct n with ub := ub } :=
  ⟨fun _ _ => by simp [LtsC.post, construct, LE.post], fun _ _ => by simp [LtsC.pre, construct, LE.pre],
   by simp [construct, LE.labels], rfl, rfl, fun _ => by simp [construct]⟩

theorem dinv_clear (c : LtsC) : DInv ⟨0, []⟩ (clear c) :=
  ⟨fun _ _ => by simp [LtsC.post, clear, LE.post], fun _ _ => by simp [LtsC.pre, clear, LE.pre],
   by simp [clear, LE.labels], rfl, rfl, fun _ => by simp [clear]⟩

theorem dinv_add (L : LTS) (c : LtsC) (h : DInv L c) (q a r : Nat) :
    DInv (specStep L (.add q a r)) (addTransition c q a r) := by
  refine ⟨fun a' q' => ?_, fun a' r' => ?_, ?_, ?_, ?_, fun a' => addTransition_lens c q a r a' h.lens⟩
  · rw [addTransition_post, specStep, spec_post_snoc _ L.n, h.post, h.post]
  · rw [addTransition_pre, specStep, spec_pre_snoc _ L.n, h.pre, h.pre]
  · rw [addTransition_data_length, specStep, spec_labels_snoc _ L.n, h.labels]
  · rw [addTransition_states c q a r (h.lens a).1 (h.lens a).2, h.states]; rfl
  · simp [addTransition, specStep, h.trans]

theorem init_entry (c : LtsC) (hl : ∀ a, (c.data.getD a ([], [])).1.length ≤ c.states ∧ (c.data.getD a ([], [])).2.length ≤ c.states)
    (a : Nat) : ((init c).data.getD a ([], [])).1.length ≤ c.states ∧ ((init c).data.getD a ([], [])).2.length ≤ c.states ∧
      (a < c.data.length → ((init c).data.getD a ([], [])).1.length = c.states ∧ ((init c).data.getD a ([], [])).2.length = c.states) ∧
      (∀ q, ((init c).data.getD a ([], [])).1.getD q [] = (c.data.getD a ([], [])).1.getD q []) ∧
      (∀ q, ((init c).data.getD a ([], [])).2.getD q [] = (c.data.getD a ([], [])).2.getD q []) := by
  have h := (init_spec c (fun a => (hl a).2)).2.2.2.1 a
  rw [h]
  by_cases l : a < c.data.length
  · simp only [l, if_true]
    refine ⟨by simp [resizeBoth, length_resizeL], by simp [resizeBoth, length_resizeL],
      fun _ => by simp [resizeBoth, length_resizeL], fun q => getD_resizeBoth_fst _ _ _ (hl a).1,
      fun q => getD_resizeBoth_snd _ _ _ (hl a).2⟩
  · rw [if_neg l]
    exact ⟨(hl a).1, (hl a).2, fun h => absurd h l, fun _ => rfl, fun _ => rfl⟩

theorem init_post (c : LtsC) (hl : ∀ a, (c.data.getD a ([], [])).1.length ≤ c.states ∧ (c.data.getD a ([], [])).2.length ≤ c.states)
    (a q : Nat) : (init c).post a q = c.post a q := (init_entry c hl a).2.2.2.1 q

theorem init_pre (c : LtsC) (hl : ∀ a, (c.data.getD a ([], [])).1.length ≤ c.states ∧ (c.data.getD a ([], [])).2.length ≤ c.states)
    (a r : Nat) : (init c).pre a r = c.pre a r := (init_entry c hl a).2.2.2.2 r

theorem dinv_init (L : LTS) (c : LtsC) (h : DInv L c) : DInv L (init c) := by
  have hs := init_spec c (fun a => (h.lens a).2)
  refine ⟨fun a q => by rw [init_post c h.lens, h.post], fun a r => by rw [init_pre c h.lens, h.pre],
    by rw [hs.2.2.1, h.labels], by rw [hs.1, h.states], by rw [hs.2.1, h.trans], fun a => ?_⟩
  have := init_entry c h.lens a
  rw [hs.1]; exact ⟨this.1, this.2.1⟩

theorem dinv_step (L : LTS) (c : LtsC) (h : DInv L c) (op : Op) : DInv (specStep L op) (step c op) := by
  cases op with
  | construct n => exact dinv_construct n c.ub
  | add q a r => exact dinv_add L c h q a r
  | init => exact dinv_init L c h
  | clear => exact dinv_clear c

theorem dinv_foldl (h : List Op) : ∀ (L : LTS) (c : LtsC), DInv L c → DInv (h.foldl specStep L) (h.foldl step c) := by
  induction h with
  | nil => intro L c i; exact i
  | cons op h ih => intro L c i; exact ih _ _ (dinv_step L c i op)

theorem dinv_run (h : List Op) : DInv (spec h) (run h) := dinv_foldl h _ _ (dinv_construct 0 false)

/-! ### one `SmartSet` under the rounds of `init()` -/

theorem keys_ssPut (l : List (Nat × Nat)) (k c : Nat) :
    (ssPut l k c).map (·.1) = if k ∈ l.map (·.1) then l.map (·.1) else l.map (·.1) ++ [k] := by
  induction l with
  | nil => simp [ssPut]
  | cons e l ih =>
    obtain ⟨b, d⟩ := e
    simp only [ssPut]
    by_cases h : b = k
    · simp [h]
    · have h' : ¬ k = b := fun e => h e.symm
      simp only [h, if_false, List.map_cons, ih, List.mem_cons, h', false_or]
      split <;> simp

theorem find_ssPut (l : List (Nat × Nat)) (k c k' : Nat) :
    (ssPut l k c).find? (fun e => e.1 == k') = if k' = k then some (k, c) else l.find? (fun e => e.1 == k') := by
  induction l with
  | nil =>
    by_cases h : k' = k
    · simp [ssPut, h]
    · have : ¬ k = k' := fun e => h e.symm
      simp [ssPut, h, this]
  | cons e l ih =>
    obtain ⟨b, d⟩ := e
    simp only [ssPut]
    by_cases h : b = k
    · subst h
      by_cases h' : k' = b
      · simp [h']
      · have : ¬ b = k' := fun e => h' e.symm
        simp [h', this, List.find?_cons]
    · simp only [h, if_false, List.find?_cons, ih]
      by_cases h' : k' = k
      · subst h'
        have hb : (b == k') = false := by simp [h]
        simp [hb]
      · simp [h']

theorem find_erase (l : List (Nat × Nat)) (k k' : Nat) :
    (l.filter (fun e => e.1 != k)).find? (fun e => e.1 == k') = if k' = k then none else l.find? (fun e => e.1 == k') := by
  induction l with
  | nil => simp
  | cons e l ih =>
    obtain ⟨b, d⟩ := e
    by_cases h : b = k
    · subst h
      by_cases h' : k' = b
      · simp [List.filter_cons, ih, h']
      · have : ¬ b = k' := fun e => h' e.symm
        simp [List.filter_cons, ih, h', this, List.find?_cons]
    · by_cases h' : k' = k
      · subst h'; simp [List.filter_cons, h, ih, List.find?_cons]
      · simp [List.filter_cons, h, ih, List.find?_cons, h']

/-- `init(key, count)` on an in-range key: the count is what was asked for -/
theorem count_init (s : SSet) (k c k' : Nat) (hk : k < s.range) :
    (s.init k c).count k' = if k' = k then c else s.count k' := by
  unfold SSet.init SSet.count
  rw [if_pos hk]
  by_cases hc : 0 < c
  · simp only [hc, if_true, find_ssPut]
    by_cases h' : k' = k <;> simp [h']
  · simp only [hc, if_false, find_erase]
    by_cases h' : k' = k
    · simp [h']; omega
    · simp [h']

/-- the rounds `a = 0 … k-1` with the counts `cnt a` -/
def initSetF (cnt : Nat → Nat) (s : SSet) (k : Nat) : SSet := (List.range k).foldl (fun s a => s.init a (cnt a)) s

theorem initSetF_succ (cnt : Nat → Nat) (s : SSet) (k : Nat) :
    initSetF cnt s (k + 1) = (initSetF cnt s k).init k (cnt k) := by
  simp [initSetF, List.range_succ, List.foldl_append]

theorem initSet_eq (data : Data) (r : Nat) (s : SSet) (k : Nat) :
    initSet data r s k = initSetF (fun a => ((data.getD a ([], [])).2.getD r []).length) s k := rfl

theorem initSetF_range (cnt : Nat → Nat) (s : SSet) (k : Nat) : (initSetF cnt s k).range = s.range := by
  induction k with
  | zero => rfl
  | succ k ih =>
    rw [initSetF_succ]; unfold SSet.init
    split
    · split <;> exact ih
    · exact ih

theorem initSetF_bad (cnt : Nat → Nat) (s : SSet) (k : Nat) :
    (initSetF cnt s k).bad = (s.bad || decide (s.range < k)) := by
  induction k with
  | zero => simp [initSetF]
  | succ k ih =>
    rw [initSetF_succ]; unfold SSet.init
    rw [initSetF_range]
    by_cases h : k < s.range
    · have h1 : ¬ s.range < k := by omega
      have h2 : ¬ s.range < k + 1 := by omega
      rw [if_pos h]
      have : (initSetF cnt s k).bad = s.bad := by rw [ih]; simp [h1]
      split <;> simp [this, h2]
    · have h2 : s.range < k + 1 := by omega
      simp [h, h2]

/-- the keys after the rounds: the old ones in their old order, then the new ones in increasing order -/
theorem initSetF_keys (cnt : Nat → Nat) (s : SSet) (hs : ∀ a ∈ s.keys, 0 < cnt a) (k : Nat) (hk : k ≤ s.range) :
    (initSetF cnt s k).keys = s.keys ++ (List.range k).filter (fun a => decide (0 < cnt a) && !s.keys.contains a) := by
  induction k with
  | zero => simp [initSetF]
  | succ k ih =>
    have ih' := ih (by omega)
    rw [initSetF_succ]
    have hr : k < (initSetF cnt s k).range := by rw [initSetF_range]; omega
    have hnot : k ∉ (List.range k).filter (fun a => decide (0 < cnt a) && !s.keys.contains a) := by
      simp [List.mem_filter]
    unfold SSet.init
    rw [if_pos hr, List.range_succ, List.filter_append]
    by_cases hc : 0 < cnt k
    · simp only [hc, if_true]
      show (ssPut _ _ _).map (·.1) = _
      rw [keys_ssPut]
      change (if k ∈ (initSetF cnt s k).keys then (initSetF cnt s k).keys else (initSetF cnt s k).keys ++ [k]) = _
      rw [ih']
      by_cases hm : k ∈ s.keys
      · have : k ∈ s.keys ++ (List.range k).filter (fun a => decide (0 < cnt a) && !s.keys.contains a) :=
          List.mem_append_left _ hm
        rw [if_pos this]
        simp [List.filter_cons, hm]
      · have : k ∉ s.keys ++ (List.range k).filter (fun a => decide (0 < cnt a) && !s.keys.contains a) := by
          intro h; rcases List.mem_append.1 h with h | h
          · exact hm h
          · exact hnot h
        rw [if_neg this]
        simp [List.filter_cons, hm, hc]
    · simp only [hc, if_false]
      have hm : k ∉ s.keys := fun h => hc (hs k h)
      have hmk : k ∉ (initSetF cnt s k).keys := by
        rw [ih']; intro h; rcases List.mem_append.1 h with h | h
        · exact hm h
        · exact hnot h
      show ((initSetF cnt s k).elems.filter _).map (·.1) = _
      have : (initSetF cnt s k).elems.filter (fun e => e.1 != k) = (initSetF cnt s k).elems := by
        rw [List.filter_eq_self]
        intro e he
        have : e.1 ∈ (initSetF cnt s k).keys := List.mem_map.2 ⟨e, he, rfl⟩
        simp only [bne_iff_ne]
        intro e'; rw [e'] at this; exact hmk this
      rw [this]
      change (initSetF cnt s k).keys = _
      rw [ih']
      simp [List.filter_cons, hc]

theorem initSetF_count (cnt : Nat → Nat) (s : SSet) (k : Nat) (hk : k ≤ s.range) :
    ∀ a, a < k → (initSetF cnt s k).count a = cnt a := by
  induction k with
  | zero => intro a h; omega
  | succ k ih =>
    intro a ha
    rw [initSetF_succ, count_init _ _ _ _ (by rw [initSetF_range]; omega)]
    by_cases e : a = k
    · simp [e]
    · rw [if_neg e]; exact ih (by omega) a (by omega)

theorem count_of_not_mem (s : SSet) (k : Nat) (h : k ∉ s.keys) : s.count k = 0 := by
  unfold SSet.count
  have : s.elems.find? (fun e => e.1 == k) = none := by
    rw [List.find?_eq_none]
    intro e he hk
    exact h (List.mem_map.2 ⟨e, he, by simpa using hk⟩)
  rw [this]

/-- the fresh set `SmartSet(k)` after the rounds `a = 0 … k-1` (what the repaired `init()` builds for every state): never
out of range, the keys with a positive count in increasing order, every count as asked for -/
theorem initSetF_new (cnt : Nat → Nat) (k : Nat) :
    (initSetF cnt (SSet.new k) k).range = k ∧ (initSetF cnt (SSet.new k) k).bad = false ∧
    (initSetF cnt (SSet.new k) k).keys = (List.range k).filter (fun a => decide (0 < cnt a)) ∧
    (∀ a, a < k → (initSetF cnt (SSet.new k) k).count a = cnt a) ∧
    (∀ a, k ≤ a → (initSetF cnt (SSet.new k) k).count a = 0) := by
  have hk : k ≤ (SSet.new k).range := Nat.le_refl _
  have hs : ∀ a ∈ (SSet.new k).keys, 0 < cnt a := by intro a ha; cases ha
  have hkeys : (initSetF cnt (SSet.new k) k).keys = (List.range k).filter (fun a => decide (0 < cnt a)) := by
    rw [initSetF_keys cnt _ hs k hk]
    simp [SSet.new, SSet.keys]
  refine ⟨initSetF_range _ _ _, ?_, hkeys, initSetF_count cnt _ k hk, fun a ha => ?_⟩
  · rw [initSetF_bad]; simp [SSet.new]
  · apply count_of_not_mem
    rw [hkeys, List.mem_filter, List.mem_range]
    intro h; omega

end Vata.LC
