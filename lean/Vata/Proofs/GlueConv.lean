import Vata.Glue
/-!
# `Convert::ToString` / `FromString` – theorems about the model of `Vata/Glue.lean` (section 4)

* `scanInt_accepts`: EVERY string of the shape  white space* · (`+` | `-`)? · digit+ · rest  (rest empty or not starting with a
  digit) is accepted with exactly that sign and those digits – trailing garbage is ignored; `scanInt_shape`: conversely an
  accepted string has that shape (so nothing else is accepted); `scanInt_nil`, `scanInt_no_digit`: the empty string, white space
  only, a sign only, a letter … are rejected.
* `fromStrUnsigned_natStr`, `fromStrSigned_intStr`: `FromString<T>(ToString(x)) = x` for every `x` of the type.
* `fromStrUnsigned_neg`: a negative number read into an unsigned type is accepted and wraps modulo `2^bits`.
* `fromStr_range`: a magnitude outside the type is rejected (no silent truncation).
-/
set_option linter.unusedSimpArgs false
namespace Vata.Glue

theorem digitsVal_append_single (l : List Char) (c : Char) : digitsVal (l ++ [c]) = digitsVal l * 10 + (c.toNat - 48) := by
  simp [digitsVal, List.foldl_append]

/-- the decimal digits of `n` evaluate to `n` -/
theorem digitsVal_natStr (n : Nat) : digitsVal (natStr n) = n := by
  unfold natStr
  induction n using Nat.strongRecOn with
  | _ n ih =>
    rw [Nat.toDigits_eq_if (by decide)]
    split
    · rename_i h
      simp [digitsVal, Nat.toNat_digitChar_sub_48_of_lt_ten h]
    · rename_i h
      rw [digitsVal_append_single, ih (n / 10) (by omega), Nat.toNat_digitChar_sub_48_of_lt_ten (Nat.mod_lt _ (by decide))]
      omega

theorem natStr_ne_nil (n : Nat) : natStr n ≠ [] := by simp [natStr]

theorem natStr_isDigit {n : Nat} {c : Char} (h : c ∈ natStr n) : c.isDigit = true :=
  Nat.isDigit_of_mem_toDigits (by decide) (by decide) h

theorem isDigit_toNat {c : Char} (h : c.isDigit = true) : 48 ≤ c.toNat ∧ c.toNat ≤ 57 := by
  simp only [Char.isDigit, Bool.and_eq_true, decide_eq_true_eq, ge_iff_le] at h
  exact ⟨UInt32.le_iff_toNat_le.1 h.1, UInt32.le_iff_toNat_le.1 h.2⟩

theorem isDigit_not_space {c : Char} (h : c.isDigit = true) : isSpaceC c = false := by
  have h1 := (isDigit_toNat h).1
  simp only [isSpaceC, Bool.or_eq_false_iff, decide_eq_false_iff_not]
  refine ⟨⟨⟨⟨⟨?_, ?_⟩, ?_⟩, ?_⟩, ?_⟩, ?_⟩
  · intro e; subst e; exact absurd h1 (by decide)
  · intro e; subst e; exact absurd h1 (by decide)
  · intro e; subst e; exact absurd h1 (by decide)
  · omega
  · omega
  · intro e; subst e; exact absurd h1 (by decide)

theorem isDigit_not_sign {c : Char} (h : c.isDigit = true) : c ≠ '-' ∧ c ≠ '+' := by
  have h1 := (isDigit_toNat h).1
  constructor <;> (intro e; subst e; exact absurd h1 (by decide))

/-- the optional sign character -/
def signChars : Option Bool → List Char
  | none => []
  | some true => ['-']
  | some false => ['+']

theorem takeWhile_digits (ds rest : List Char) (hd : ∀ c ∈ ds, c.isDigit = true) (hr : ∀ c, rest.head? = some c → c.isDigit = false) :
    (ds ++ rest).takeWhile Char.isDigit = ds := by
  rw [List.takeWhile_append_of_pos hd]
  cases rest with
  | nil => simp
  | cons c r =>
    have := hr c rfl
    simp [List.takeWhile_cons, this]

theorem scanSign_signChars (sg : Option Bool) (d : Char) (t : List Char) (hd : d.isDigit = true) :
    scanSign (signChars sg ++ d :: t) = (sg == some true, d :: t) := by
  have := isDigit_not_sign hd
  cases sg with
  | none => simp [signChars, scanSign, this.1, this.2]
  | some b => cases b <;> simp [signChars, scanSign]

/-- everything of the shape  white space* sign? digit+ rest  is accepted, with that sign and those digits; what follows the
digits does not matter -/
theorem scanInt_accepts (ws ds rest : List Char) (sg : Option Bool) (hw : ∀ c ∈ ws, isSpaceC c = true) (hne : ds ≠ [])
    (hd : ∀ c ∈ ds, c.isDigit = true) (hr : ∀ c, rest.head? = some c → c.isDigit = false) :
    scanInt (ws ++ signChars sg ++ ds ++ rest) = some (sg == some true, ds) := by
  unfold scanInt
  obtain ⟨d, ds', rfl⟩ := List.exists_cons_of_ne_nil hne
  have hdd : d.isDigit = true := hd d (by simp)
  have e1 : (ws ++ signChars sg ++ (d :: ds') ++ rest).dropWhile isSpaceC = signChars sg ++ d :: (ds' ++ rest) := by
    rw [List.append_assoc, List.append_assoc, List.dropWhile_append_of_pos hw]
    cases sg with
    | none => simp [signChars, List.dropWhile_cons, isDigit_not_space hdd]
    | some b => cases b <;> simp [signChars, List.dropWhile_cons, isSpaceC]
  have tk := takeWhile_digits (d :: ds') rest hd hr
  simp only [List.cons_append] at tk
  simp only [e1, scanSign_signChars sg d _ hdd, tk]
  simp

/-- conversely, an accepted string has that shape: nothing else is accepted -/
theorem scanInt_shape {s : List Char} {neg : Bool} {ds : List Char} (h : scanInt s = some (neg, ds)) :
    ∃ ws sign rest, s = ws ++ sign ++ ds ++ rest ∧ (∀ c ∈ ws, isSpaceC c = true) ∧
      (sign = [] ∨ sign = ['+'] ∨ sign = ['-']) ∧ (neg = true ↔ sign = ['-']) ∧ ds ≠ [] ∧ (∀ c ∈ ds, c.isDigit = true) ∧
      (∀ c, rest.head? = some c → c.isDigit = false) := by
  unfold scanInt at h
  have hs : s = s.takeWhile isSpaceC ++ s.dropWhile isSpaceC := (List.takeWhile_append_dropWhile).symm
  have hws : ∀ c ∈ s.takeWhile isSpaceC, isSpaceC c = true := fun c hc => List.all_eq_true.1 List.all_takeWhile c hc
  generalize s.dropWhile isSpaceC = s1 at h hs
  generalize s.takeWhile isSpaceC = ws at hs hws
  subst hs
  -- the sign
  have hsign : ∃ sign, s1 = sign ++ (scanSign s1).2 ∧ (sign = [] ∨ sign = ['+'] ∨ sign = ['-']) ∧
      ((scanSign s1).1 = true ↔ sign = ['-']) := by
    cases s1 with
    | nil => exact ⟨[], rfl, Or.inl rfl, by simp [scanSign]⟩
    | cons c r =>
      by_cases h1 : c = '-'
      · subst h1; exact ⟨['-'], by simp [scanSign], Or.inr (Or.inr rfl), by simp [scanSign]⟩
      · by_cases h2 : c = '+'
        · subst h2; exact ⟨['+'], by simp [scanSign], Or.inr (Or.inl rfl), by simp [scanSign]⟩
        · exact ⟨[], by simp [scanSign, h1, h2], Or.inl rfl, by simp [scanSign, h1, h2]⟩
  obtain ⟨sign, e1, h1, h2⟩ := hsign
  generalize scanSign s1 = p at h e1 h2
  obtain ⟨ng, s2⟩ := p
  simp only at h e1 h2
  split at h
  · cases h
  · rename_i hne
    simp only [Option.some.injEq, Prod.mk.injEq] at h
    obtain ⟨rfl, rfl⟩ := h
    refine ⟨_, sign, s2.dropWhile Char.isDigit, ?_, hws, h1, h2, by simpa using hne,
      fun c hc => List.all_eq_true.1 List.all_takeWhile c hc, ?_⟩
    · rw (occs := [1]) [e1]
      rw [List.append_assoc, List.append_assoc, List.takeWhile_append_dropWhile]
    · intro c hc
      have := List.head?_dropWhile_not Char.isDigit s2
      rw [hc] at this
      exact this

/-- the empty string is rejected -/
theorem scanInt_nil : scanInt [] = none := by decide

/-- white space only, a sign only, two signs, a letter, a hexadecimal prefix `x1`: rejected -/
theorem scanInt_no_digit : scanInt "  \t".toList = none ∧ scanInt "-".toList = none ∧ scanInt "+".toList = none ∧
    scanInt "--1".toList = none ∧ scanInt "+-1".toList = none ∧ scanInt "- 1".toList = none ∧ scanInt "a1".toList = none ∧
    scanInt "x1".toList = none := by decide

theorem scanInt_natStr (n : Nat) : scanInt (natStr n) = some (false, natStr n) := by
  have := scanInt_accepts [] (natStr n) [] none (by simp) (natStr_ne_nil n) (fun c hc => natStr_isDigit hc) (by simp)
  simpa [signChars] using this

/-- `FromString<unsigned T>(ToString(n)) = n` for every `n` of the type -/
theorem fromStrUnsigned_natStr {bits n : Nat} (h : n < 2 ^ bits) : fromStrUnsigned bits (natStr n) = some n := by
  simp only [fromStrUnsigned, scanInt_natStr, digitsVal_natStr]
  rw [if_neg (by omega)]
  simp

/-- `FromString<signed T>(ToString(z)) = z` for every `z` of the type -/
theorem fromStrSigned_intStr {bits : Nat} {z : Int} (h1 : -(2 ^ (bits - 1) : Int) ≤ z) (h2 : z < 2 ^ (bits - 1)) :
    fromStrSigned bits (intStr z) = some z := by
  cases z with
  | ofNat n =>
    have h2' : (n : Int) < ((2 ^ (bits - 1) : Nat) : Int) := by rw [Int.natCast_pow]; exact h2
    have hn : n < 2 ^ (bits - 1) := Int.ofNat_lt.1 h2'
    simp only [intStr, fromStrSigned, scanInt_natStr, digitsVal_natStr, Bool.false_eq_true, if_false]
    rw [if_neg (by omega)]
    rfl
  | negSucc n =>
    have hn : n + 1 ≤ 2 ^ (bits - 1) := by
      rw [Int.negSucc_eq] at h1
      have h1' : ((n + 1 : Nat) : Int) ≤ ((2 ^ (bits - 1) : Nat) : Int) := by
        rw [Int.natCast_pow]
        have : ((2 : Nat) : Int) ^ (bits - 1) = (2 : Int) ^ (bits - 1) := rfl
        rw [this]
        omega
      exact Int.ofNat_le.1 h1'
    have := scanInt_accepts [] (natStr (n + 1)) [] (some true) (by simp) (natStr_ne_nil _) (fun c hc => natStr_isDigit hc) (by simp)
    simp only [signChars, List.nil_append, List.append_nil, List.cons_append] at this
    simp only [intStr, fromStrSigned, this, digitsVal_natStr]
    simp only [beq_self_eq_true, if_true]
    rw [if_neg (by omega)]
    simp [Int.negSucc_eq]

/-- a negative number read into an unsigned type is ACCEPTED and wraps modulo `2^bits` (`"-1"` is the maximum) -/
theorem fromStrUnsigned_neg {bits n : Nat} (h : n < 2 ^ bits) :
    fromStrUnsigned bits ('-' :: natStr n) = some ((2 ^ bits - n) % 2 ^ bits) := by
  have := scanInt_accepts [] (natStr n) [] (some true) (by simp) (natStr_ne_nil _) (fun c hc => natStr_isDigit hc) (by simp)
  simp only [signChars, List.nil_append, List.append_nil, List.cons_append] at this
  simp only [fromStrUnsigned, this, digitsVal_natStr]
  rw [if_neg (by omega)]
  simp

/-- trailing garbage after a number is ignored: the value is that of the digits -/
theorem fromStrUnsigned_garbage {bits n : Nat} (h : n < 2 ^ bits) (rest : List Char)
    (hr : ∀ c, rest.head? = some c → c.isDigit = false) : fromStrUnsigned bits (natStr n ++ rest) = some n := by
  have := scanInt_accepts [] (natStr n) rest none (by simp) (natStr_ne_nil _) (fun c hc => natStr_isDigit hc) hr
  simp only [signChars, List.nil_append, List.append_nil] at this
  simp only [fromStrUnsigned, this, digitsVal_natStr]
  rw [if_neg (by omega)]
  simp

/-- a magnitude outside the range of the type is rejected (exception), never truncated -/
theorem fromStr_range {bits : Nat} {s : List Char} :
    (∀ v, fromStrUnsigned bits s = some v → v < 2 ^ bits) ∧
      (∀ z, fromStrSigned bits s = some z → -(2 ^ (bits - 1) : Int) ≤ z ∧ z < 2 ^ (bits - 1)) := by
  constructor
  · intro v h
    unfold fromStrUnsigned at h
    cases hs : scanInt s with
    | none => rw [hs] at h; cases h
    | some p =>
      obtain ⟨neg, ds⟩ := p
      rw [hs] at h
      simp only at h
      split at h
      · cases h
      · simp only [Option.some.injEq] at h
        subst h
        split
        · exact Nat.mod_lt _ (Nat.pow_pos (by decide))
        · omega
  · intro z h
    unfold fromStrSigned at h
    cases hs : scanInt s with
    | none => rw [hs] at h; cases h
    | some p =>
      obtain ⟨neg, ds⟩ := p
      rw [hs] at h
      simp only at h
      have hp : (0 : Int) < 2 ^ (bits - 1) := Int.pow_pos (by decide)
      split at h
      · split at h
        · cases h
        · rename_i hv
          simp only [Option.some.injEq] at h
          subst h
          have : ((digitsVal ds : Nat) : Int) ≤ ((2 ^ (bits - 1) : Nat) : Int) := Int.ofNat_le.2 (by omega)
          simp only [Int.natCast_pow, Int.cast_ofNat_Int] at this
          omega
      · split at h
        · cases h
        · rename_i hv
          simp only [Option.some.injEq] at h
          subst h
          have : ((digitsVal ds : Nat) : Int) < ((2 ^ (bits - 1) : Nat) : Int) := Int.ofNat_lt.2 (by omega)
          simp only [Int.natCast_pow, Int.cast_ofNat_Int] at this
          omega

/-- the boundaries of `int` and `unsigned` (32 bits) and of `size_t` (64 bits) -/
theorem fromStr_boundaries :
    fromStrSigned 32 "2147483647".toList = some 2147483647 ∧ fromStrSigned 32 "2147483648".toList = none ∧
    fromStrSigned 32 "-2147483648".toList = some (-2147483648) ∧ fromStrSigned 32 "-2147483649".toList = none ∧
    fromStrUnsigned 32 "4294967295".toList = some 4294967295 ∧ fromStrUnsigned 32 "4294967296".toList = none ∧
    fromStrUnsigned 32 "-4294967295".toList = some 1 ∧ fromStrUnsigned 32 "-4294967296".toList = none ∧
    fromStrUnsigned 64 "-1".toList = some 18446744073709551615 ∧ fromStrUnsigned 32 "-0".toList = some 0 ∧
    fromStrSigned 32 " \t+007x".toList = some 7 ∧ fromStrSigned 32 "0x1F".toList = some 0 ∧ fromStrSigned 32 "1e5".toList = some 1 := by
  decide

/-- the container formats -/
theorem toString_formats :
    String.ofList (vecStr [natStr 1, natStr 2, natStr 3]) = "(1, 2, 3)" ∧ String.ofList (vecStr []) = "()" ∧
    String.ofList (setStr [natStr 1, natStr 3]) = "{1, 3}" ∧ String.ofList (pairStr (natStr 3) (natStr 4)) = "(3, 4)" ∧
    String.ofList (mapStr [("a".toList, natStr 1), ("b".toList, natStr 2)]) = "[a -> 1, b -> 2]" ∧
    String.ofList (mapStr []) = "[]" ∧ String.ofList (intStr (-5)) = "-5" ∧ String.ofList (natStr 200) = "200" := by
  decide

end Vata.Glue
