import Vata.Proofs.FunctorCachesDownOptGen
/-!
# `OptDownwardInclusionFunctor` with its caches simulates the cache-free `expand` (C01, C07)

Model: `Vata/FunctorCachesDownOpt.lean`.  The simulation relation `DRelO o ctx f s cc st` is `FCD.DRel` of
`Vata/Proofs/FunctorCachesDownSim.lean` extended by what the `Opt` functor adds:

* the handles in `ant_` are LIVE (their values do not matter: the antecedents never influence a verdict, but they are compared
  through `lteCache`, and the invariant of `lteCache` needs the compared objects alive);
* `cons_` is empty and `incl_` is empty – an INVARIANT of the code as modelled, not an assumption.

`antAddC_spec` / `antMergeC_spec`: the merge loop keeps the heap invariant and the objects; `wrapO_rel`: the creation of the
temporary, the merge and the deaths around a call of `expand`; `expandO_rel`: the induction on the recursion depth.
-/
namespace Vata
namespace FCD
open Vata.InclDown Vata.CM
open Vata.FCU (Heap hval hLookup hCollect Live)
open Vata.InclUp (normS prodWit Wit)

structure DRelO (o : Ord) (ctx : List (Nat × List Nat)) (f : FO) (s : StO) (cc : List Pair) (st : St) : Prop where
  hi : HInvD o s.h
  ok : CtxOK s.h ctx
  lcc : ∀ x, x ∈ f.cc → Live s.h x.2
  lant : ∀ x, x ∈ f.ant → Live s.h x.2
  lni : ∀ x, x ∈ s.nonIncl → Live s.h x.2.1
  ecc : f.cc.map (derefP s.h) = cc
  eni : s.nonIncl.map (derefN s.h) = st.nonIncl
  etr : s.trues = st.trues
  econs : f.cons = []
  eincl : s.incl = []

/-- a heap in which the objects the state can see are still live with the same values; the context may shrink -/
theorem DRelO.heap {o : Ord} {ctx ctx' : List (Nat × List Nat)} {f : FO} {s : StO} {cc : List Pair} {st : St}
    (h : DRelO o ctx f s cc st) {h' : Heap} (hi' : HInvD o h')
    (hp : ∀ a, ((∃ x, x ∈ ctx' ∧ x.1 = a) ∨ (∃ x, x ∈ f.cc ∧ x.2 = a) ∨ (∃ x, x ∈ f.ant ∧ x.2 = a) ∨
        (∃ x, x ∈ s.nonIncl ∧ x.2.1 = a)) → Live s.h a → Live h' a ∧ hval h' a = hval s.h a)
    (hsub : ∀ x, x ∈ ctx' → x ∈ ctx) : DRelO o ctx' f { s with h := h' } cc st := by
  refine ⟨hi', ?_, ?_, ?_, ?_, ?_, ?_, h.etr, h.econs, h.eincl⟩
  · intro x hx
    obtain ⟨l, v⟩ := h.ok x (hsub x hx)
    obtain ⟨l', v'⟩ := hp x.1 (Or.inl ⟨x, hx, rfl⟩) l
    exact ⟨l', v'.trans v⟩
  · intro x hx
    exact (hp x.2 (Or.inr (Or.inl ⟨x, hx, rfl⟩)) (h.lcc x hx)).1
  · intro x hx
    exact (hp x.2 (Or.inr (Or.inr (Or.inl ⟨x, hx, rfl⟩))) (h.lant x hx)).1
  · intro x hx
    exact (hp x.2.1 (Or.inr (Or.inr (Or.inr ⟨x, hx, rfl⟩))) (h.lni x hx)).1
  · rw [← h.ecc]
    apply List.map_congr_left
    intro x hx
    simp only [derefP, (hp x.2 (Or.inr (Or.inl ⟨x, hx, rfl⟩)) (h.lcc x hx)).2]
  · rw [← h.eni]
    apply List.map_congr_left
    intro x hx
    simp only [derefN, (hp x.2.1 (Or.inr (Or.inr (Or.inr ⟨x, hx, rfl⟩))) (h.lni x hx)).2]

/-- a heap with the same objects (only `lteCache` grew) -/
theorem DRelO.sameStore {o : Ord} {ctx : List (Nat × List Nat)} {f : FO} {s : StO} {cc : List Pair} {st : St}
    (h : DRelO o ctx f s cc st) {h' : Heap} (hi' : HInvD o h') (hs : h'.store = s.h.store) :
    DRelO o ctx f { s with h := h' } cc st :=
  h.heap hi' (fun a _ ha => ⟨(FCU.live_store hs a).mpr ha, FCU.hval_store hs a⟩) (fun _ hx => hx)

/-- the functor may return other antecedents (live ones) -/
theorem DRelO.setAnt {o : Ord} {ctx : List (Nat × List Nat)} {f : FO} {s : StO} {cc : List Pair} {st : St}
    (h : DRelO o ctx f s cc st) {ant : List CP} (hl : ∀ x, x ∈ ant → Live s.h x.2) :
    DRelO o ctx ⟨f.cc, ant, []⟩ s cc st :=
  ⟨h.hi, h.ok, h.lcc, hl, h.lni, h.ecc, h.eni, h.etr, rfl, h.eincl⟩

/-! ### the merge of a returned antecedent -/

theorem antAddC_spec {o : Ord} (hr : ∀ q, o.leB q q = true) (ant : List CP) (p a : Nat) {h : Heap} (hi : HInvD o h)
    (ha : Live h a) (hl : ∀ x, x ∈ ant → Live h x.2) :
    HInvD o (antAddC o ant p a h).1 ∧ (antAddC o ant p a h).1.store = h.store ∧
    (∀ x, x ∈ (antAddC o ant p a h).2 → x ∈ ant ∨ x = (p, a)) := by
  obtain ⟨_, m1, c1⟩ := findC_spec hr false (fun x : CP => o.leA x.1 p) (·.2) a ant h hi ha hl
  unfold antAddC
  simp only
  split
  · exact ⟨m1, c1, fun x hx => Or.inl hx⟩
  · obtain ⟨e2, m2, c2⟩ := refC_spec hr false (fun x : CP => o.leA x.1 p) (·.2) a ant _ m1 ((FCU.live_store c1 _).mpr ha)
      (fun x hx => (FCU.live_store c1 _).mpr (hl x hx))
    refine ⟨m2, c2.trans c1, ?_⟩
    intro x hx
    rw [e2] at hx
    rcases List.mem_append.mp hx with hx | hx
    · exact Or.inl (List.mem_filter.mp hx).1
    · exact Or.inr (List.mem_singleton.mp hx)

theorem antMergeC_spec {o : Ord} (hr : ∀ q, o.leB q q = true) :
    ∀ (X ant : List CP) (h : Heap), HInvD o h → (∀ x, x ∈ X → Live h x.2) → (∀ x, x ∈ ant → Live h x.2) →
    HInvD o (antMergeC o X ant h).1 ∧ (antMergeC o X ant h).1.store = h.store ∧
    (∀ x, x ∈ (antMergeC o X ant h).2 → x ∈ ant ∨ x ∈ X)
  | [], ant, h, hi, _, _ => ⟨hi, rfl, fun x hx => Or.inl hx⟩
  | y :: X, ant, h, hi, hX, hl => by
    obtain ⟨m1, c1, s1⟩ := antAddC_spec hr ant y.1 y.2 hi (hX y List.mem_cons_self) hl
    obtain ⟨m2, c2, s2⟩ := antMergeC_spec hr X (antAddC o ant y.1 y.2 h).2 (antAddC o ant y.1 y.2 h).1 m1
      (fun x hx => (FCU.live_store c1 _).mpr (hX x (List.mem_cons_of_mem _ hx)))
      (fun x hx => (FCU.live_store c1 _).mpr (by
        rcases s1 x hx with hx | rfl
        · exact hl x hx
        · exact hX _ List.mem_cons_self))
    simp only [antMergeC]
    refine ⟨m2, c2.trans c1, ?_⟩
    intro x hx
    rcases s2 x hx with hx | hx
    · rcases s1 x hx with hx | rfl
      · exact Or.inl hx
      · exact Or.inr List.mem_cons_self
    · exact Or.inr (List.mem_cons_of_mem _ hx)

theorem globalInclO_nil (o : Ord) (ant incl : List CP) (h : Heap) : globalInclO o ant [] incl h = (h, incl, []) := by
  unfold globalInclO
  split <;> rfl

theorem mem_rootsO {roots : List Nat} {f : FO} {st : StO} {a : Nat} :
    a ∈ rootsO roots f st ↔ a ∈ roots ∨ (∃ x, x ∈ f.cc ∧ x.2 = a) ∨ (∃ x, x ∈ f.ant ∧ x.2 = a) ∨
      (∃ x, x ∈ f.cons ∧ x.2 = a) ∨ (∃ x, x ∈ st.nonIncl ∧ x.2.1 = a) ∨ (∃ x, x ∈ st.incl ∧ x.2 = a) := by
  simp only [rootsO, FO.handles, List.mem_append, List.mem_map, or_assoc]

/-! ### a call of `expand` as `operator()` makes it -/

/-- `std::tie(res, ant, cons) = expand(q, biggerTypeCache_.lookup(Q))` with the merge and the deaths, for any allocator: if
`expand` on the looked-up address – with the handles of `ant_` frozen – simulates the cache-free `expand` on the value, the
whole step does -/
theorem wrapO_rel {o : Ord} (hr : ∀ q, o.leB q q = true) (pick : List Nat → Nat) {ctx : List (Nat × List Nat)}
    {roots : List Nat} {e : List Nat → List CP → StO → Nat → Nat → RetG FO StO} {c : Call}
    (hroots : ∀ x, x ∈ ctx → x.1 ∈ roots)
    (he : ∀ q a Q (fz : List (Nat × List Nat)) ccC s cc st, DRelO o ((a, Q) :: (ctx ++ fz)) ⟨ccC, [], []⟩ s cc st →
      RetRelG (DRelO o ((a, Q) :: (ctx ++ fz))) (e (fz.map (·.1)) ccC s q a) (c cc st q Q)) :
    CallRelG (DRelO o ctx) (wrapO o .lib pick roots e) c := fun q Q f s cc st h => by
  obtain ⟨l1, l2, l3, l4⟩ := hLookupD_spec pick h.hi Q
  have h1 : DRelO o ctx f { s with h := (hLookup pick s.h Q).1 } cc st :=
    h.heap l1 (fun a _ ha => l4 a ha) (fun _ hx => hx)
  let fz : List (Nat × List Nat) := f.ant.map (fun x => (x.2, hval (hLookup pick s.h Q).1 x.2))
  have hfz : fz.map (·.1) = f.ant.map (·.2) ++ f.cons.map (·.2) := by
    simp only [fz, List.map_map, h.econs, List.map_nil, List.append_nil]
    rfl
  have h2 : DRelO o (((hLookup pick s.h Q).2, Q) :: (ctx ++ fz)) ⟨f.cc, [], []⟩
      { s with h := (hLookup pick s.h Q).1 } cc st := by
    refine ⟨l1, ?_, h1.lcc, (fun _ hx => by cases hx), h1.lni, h1.ecc, h1.eni, h1.etr, rfl, h1.eincl⟩
    intro x hx
    rcases List.mem_cons.mp hx with rfl | hx
    · exact ⟨l2, l3⟩
    · rcases List.mem_append.mp hx with hx | hx
      · exact h1.ok x hx
      · obtain ⟨y, hy, rfl⟩ := List.mem_map.mp hx
        exact ⟨h1.lant y hy, rfl⟩
  have hfzl : ∀ {h' : Heap}, CtxOK h' (((hLookup pick s.h Q).2, Q) :: (ctx ++ fz)) → ∀ x, x ∈ f.ant → Live h' x.2 :=
    fun hok x hx => (hok (x.2, hval (hLookup pick s.h Q).1 x.2)
      (List.mem_cons_of_mem _ (List.mem_append.mpr (Or.inr (List.mem_map.mpr ⟨x, hx, rfl⟩))))).1
  have hsub : ∀ x, x ∈ ctx → x ∈ ((hLookup pick s.h Q).2, Q) :: (ctx ++ fz) :=
    fun x hx => List.mem_cons_of_mem _ (List.mem_append.mpr (Or.inl hx))
  simp only [wrapO]
  rw [← hfz]
  rcases retRelG_elim (he q _ Q fz f.cc _ cc st h2) with ⟨e1, e2⟩ | ⟨v, r, s', cc', st', e1, e2, hrel⟩
  · simp only [e1, e2]; exact retRelG_none
  · simp only [e1, e2]
    cases v with
    | holds =>
      simp only []
      obtain ⟨m1, c1, s1⟩ := antMergeC_spec hr r.ant f.ant s'.h hrel.hi hrel.lant (hfzl hrel.ok)
      have hcons : consIns f.cons r.cons = [] := by rw [h.econs, hrel.econs]; rfl
      rw [hcons]
      have hrel1 : DRelO o ctx ⟨r.cc, (antMergeC o r.ant f.ant s'.h).2, []⟩
          { s' with h := (antMergeC o r.ant f.ant s'.h).1 } cc' st' := by
        have := (hrel.sameStore m1 c1)
        refine ⟨this.hi, fun x hx => this.ok x (hsub x hx), this.lcc, ?_, this.lni, this.ecc, this.eni, this.etr, rfl,
          this.eincl⟩
        intro x hx
        apply (FCU.live_store c1 _).mpr
        rcases s1 x hx with hx | hx
        · exact hfzl hrel.ok x hx
        · exact hrel.lant x hx
      obtain ⟨g1, g2⟩ := hCollectD_spec m1 (rootsO roots ⟨r.cc, (antMergeC o r.ant f.ant s'.h).2, []⟩ s')
      refine retRelG_some (hrel1.heap g1 (fun a ha hl => g2 a (mem_rootsO.mpr ?_) hl) (fun _ hx => hx))
      rcases ha with ⟨x, hx, rfl⟩ | hcc | hant | hni
      · exact Or.inl (hroots x hx)
      · exact Or.inr (Or.inl hcc)
      · exact Or.inr (Or.inr (Or.inl hant))
      · exact Or.inr (Or.inr (Or.inr (Or.inr (Or.inl hni))))
    | fails t =>
      simp only []
      have hrel1 : DRelO o ctx ⟨r.cc, f.ant, f.cons⟩ s' cc' st' :=
        ⟨hrel.hi, fun x hx => hrel.ok x (hsub x hx), hrel.lcc, hfzl hrel.ok, hrel.lni, hrel.ecc, hrel.eni, hrel.etr,
          h.econs, hrel.eincl⟩
      obtain ⟨g1, g2⟩ := hCollectD_spec hrel.hi (rootsO roots ⟨r.cc, f.ant, f.cons⟩ s')
      refine retRelG_some (hrel1.heap g1 (fun a ha hl => g2 a (mem_rootsO.mpr ?_) hl) (fun _ hx => hx))
      rcases ha with ⟨x, hx, rfl⟩ | hcc | hant | hni
      · exact Or.inl (hroots x hx)
      · exact Or.inr (Or.inl hcc)
      · exact Or.inr (Or.inr (Or.inl hant))
      · exact Or.inr (Or.inr (Or.inr (Or.inr (Or.inl hni))))

/-! ### `expand` -/

/-- **`OptDownwardInclusionFunctor::expand` with all its containers and caches simulates the cache-free `expand`**, for every
allocator, with the library's deleter; the returned antecedent consists of live handles, the returned consequent is empty and
`incl_` stays empty -/
theorem expandO_rel {o : Ord} (hr : ∀ q, o.leB q q = true) (pick : List Nat → Nat) (A B : TA) (wit : Wit) :
    ∀ (fuel : Nat) (ws : List CP) (outer : List Nat) (wsV : List Pair) (ctx : List (Nat × List Nat)),
    (∀ h, CtxOK h ctx → ws.map (derefP h) = wsV) → (∀ x, x ∈ ws → ∃ V, (x.2, V) ∈ ctx) →
    ∀ (p a : Nat) (P : List Nat), (a, P) ∈ ctx →
    (∀ x, x ∈ ctx → x.1 = a ∨ x.1 ∈ ws.map (·.2) ∨ x.1 ∈ outer) →
    ∀ ccC s cc st, DRelO o ctx ⟨ccC, [], []⟩ s cc st →
    RetRelG (DRelO o ctx) (expandO o .lib pick A B wit fuel ws outer ccC s p a) (expand o A B wit fuel wsV cc st p P)
  | 0, _, _, _, _, _, _, _, _, _, _, _ => fun _ _ _ _ _ => by simp only [expandO, expand]; exact retRelG_none
  | fuel+1, ws, outer, wsV, ctx, hws, hwc, p, a, P, hmem, hcov => fun ccC stC cc st h => by
    obtain ⟨ha, hP⟩ := h.ok _ hmem
    have hwsl : ∀ x, x ∈ ws → Live stC.h x.2 := fun x hx => by
      obtain ⟨V, hV⟩ := hwc x hx
      exact (h.ok _ hV).1
    -- isInWorkset
    obtain ⟨f1, _, _⟩ := findC_spec hr false (fun x : CP => o.leA p x.1) (·.2) a ws stC.h h.hi ha hwsl
    obtain ⟨e1, m1, c1⟩ := coversC_spec hr ws p a h.hi ha hwsl
    rw [hws _ h.ok, hP] at e1
    have e1' : ((findC o false (fun x : CP => o.leA p x.1) (·.2) a ws stC.h).2).isSome = covers o wsV p P := e1
    have m1' : HInvD o (findC o false (fun x : CP => o.leA p x.1) (·.2) a ws stC.h).1 := m1
    have c1' : (findC o false (fun x : CP => o.leA p x.1) (·.2) a ws stC.h).1.store = stC.h.store := c1
    simp only [expandO, expand]
    cases hf : (findC o false (fun x : CP => o.leA p x.1) (·.2) a ws stC.h).2 with
    | some x =>
      rw [hf] at e1'
      have hc1 : covers o wsV p P = true := by rw [← e1']; rfl
      rw [if_pos hc1]
      have hx : x ∈ ws := by rw [f1] at hf; exact List.mem_of_find?_eq_some hf
      exact retRelG_some ((h.sameStore m1' c1').setAnt (fun y hy => by
        rw [List.mem_singleton.mp hy]; exact (FCU.live_store c1' _).mpr (hwsl x hx)))
    | none =>
      rw [hf] at e1'
      have hc1 : ¬ covers o wsV p P = true := by rw [← e1']; simp
      rw [if_neg hc1]
      simp only []
      have h1 := h.sameStore m1' c1'
      -- isInclusionImplied: `incl_` is empty
      have hincl : ∀ hh, coversC o stC.incl p a hh = (hh, false) := fun hh => by rw [h.eincl]; rfl
      simp only [hincl]
      simp only [Bool.false_eq_true, if_false]
      -- isNoninclusionImplied
      obtain ⟨e2, m2, c2⟩ := niFindC_spec hr stC.nonIncl p a m1' ((FCU.live_store c1' _).mpr ha) h1.lni
      rw [h1.eni, FCU.hval_store c1', hP] at e2
      have c2' := c2.trans c1'
      cases hn : (niFindC o stC.nonIncl p a (findC o false (fun x : CP => o.leA p x.1) (·.2) a ws stC.h).1).2 with
      | some x =>
        rw [hn] at e2
        simp only [Option.map_some] at e2
        rw [← e2]
        exact retRelG_some (h.sameStore m2 c2')
      | none =>
        rw [hn] at e2
        simp only [Option.map_none] at e2
        rw [← e2]
        simp only []
        have h2 := h.sameStore m2 c2'
        -- isImpliedByChildren
        obtain ⟨e3, m3, c3⟩ := coversC_spec hr ccC p a m2 ((FCU.live_store c2' _).mpr ha) h2.lcc
        rw [h2.ecc, FCU.hval_store c2', hP] at e3
        have c3' := c3.trans c2'
        rw [e3]
        by_cases hc3 : covers o cc p P = true
        · rw [if_pos hc3, if_pos hc3]; exact retRelG_some (h.sameStore m3 c3')
        rw [if_neg hc3, if_neg hc3]
        -- IsImpliedByPreorder
        rw [FCU.hval_store c3', hP]
        by_cases hc4 : byPre o p P = true
        · rw [if_pos hc4, if_pos hc4]; exact retRelG_some (h.sameStore m3 c3')
        rw [if_neg hc4, if_neg hc4]
        have h3 := h.sameStore m3 c3'
        -- the body, run by `innerFctor`; the `childrenCache_` of `*this` is frozen meanwhile
        let ctx1 : List (Nat × List Nat) := ctx ++ ccC.map (fun x => (x.2, hval stC.h x.2))
        have hctx1 : ∀ x, x ∈ ctx1 ↔ x ∈ ctx ∨ ∃ y, y ∈ ccC ∧ x = (y.2, hval stC.h y.2) := by
          intro x
          simp only [ctx1, List.mem_append, List.mem_map]
          constructor
          · rintro (hx | ⟨y, hy, rfl⟩)
            · exact Or.inl hx
            · exact Or.inr ⟨y, hy, rfl⟩
          · rintro (hx | ⟨y, hy, rfl⟩)
            · exact Or.inl hx
            · exact Or.inr ⟨y, hy, rfl⟩
        have hcall : CallRelG (DRelO o ctx1)
            (wrapO o .lib pick (a :: ws.map (·.2) ++ (outer ++ ccC.map (·.2)))
              (fun fr => expandO o .lib pick A B wit fuel ((p, a) :: ws) (outer ++ ccC.map (·.2) ++ fr)))
            (expand o A B wit fuel ((p, P) :: wsV)) := by
          apply wrapO_rel hr pick
          · intro x hx
            simp only [List.cons_append, List.mem_cons, List.mem_append, List.mem_map]
            rcases (hctx1 x).mp hx with hx | ⟨y, hy, rfl⟩
            · rcases hcov x hx with hx | hx | hx
              · exact Or.inl hx
              · exact Or.inr (Or.inl (List.mem_map.mp hx))
              · exact Or.inr (Or.inr (Or.inl hx))
            · exact Or.inr (Or.inr (Or.inr ⟨y, hy, rfl⟩))
          · intro q a' Q fz
            apply expandO_rel hr pick A B wit fuel
            · intro hh hok
              have hok' : CtxOK hh ctx := fun x hx =>
                hok x (List.mem_cons_of_mem _ (List.mem_append.mpr (Or.inl ((hctx1 x).mpr (Or.inl hx)))))
              simp only [List.map_cons, hws hh hok', derefP, (hok' _ hmem).2]
            · intro x hx
              rcases List.mem_cons.mp hx with rfl | hx
              · exact ⟨P, List.mem_cons_of_mem _ (List.mem_append.mpr (Or.inl ((hctx1 _).mpr (Or.inl hmem))))⟩
              · obtain ⟨V, hV⟩ := hwc x hx
                exact ⟨V, List.mem_cons_of_mem _ (List.mem_append.mpr (Or.inl ((hctx1 _).mpr (Or.inl hV))))⟩
            · exact List.mem_cons_self
            · intro x hx
              simp only [List.map_cons, List.mem_cons, List.mem_append, List.mem_map]
              rcases List.mem_cons.mp hx with rfl | hx
              · exact Or.inl rfl
              · rcases List.mem_append.mp hx with hx | hx
                · rcases (hctx1 x).mp hx with hx | ⟨y, hy, rfl⟩
                  · rcases hcov x hx with hx | hx | hx
                    · exact Or.inr (Or.inl (Or.inl hx))
                    · exact Or.inr (Or.inl (Or.inr (List.mem_map.mp hx)))
                    · exact Or.inr (Or.inr (Or.inl (Or.inl hx)))
                  · exact Or.inr (Or.inr (Or.inl (Or.inr ⟨y, hy, rfl⟩)))
                · exact Or.inr (Or.inr (Or.inr ⟨x, hx, rfl⟩))
        have hb0 : DRelO o ctx1 ⟨[], [], []⟩
            { stC with h := (coversC o ccC p a (niFindC o stC.nonIncl p a
              (findC o false (fun x : CP => o.leA p x.1) (·.2) a ws stC.h).1).1).1 } [] st := by
          refine ⟨m3, ?_, (fun x hx => by cases hx), (fun x hx => by cases hx), h3.lni, rfl, h3.eni, h3.etr, rfl, h3.eincl⟩
          intro x hx
          rcases (hctx1 x).mp hx with hx | ⟨y, hy, rfl⟩
          · exact h3.ok x hx
          · exact ⟨h3.lcc y hy, FCU.hval_store c3' _⟩
        rcases retRelG_elim (bodyG_rel hcall hcall A B wit normS p P ⟨[], [], []⟩ _ [] st hb0) with ⟨e5, e6⟩ |
          ⟨v, f1, st', cc1V, stV, e5, e6, hb⟩
        · rw [e5, e6]; exact retRelG_none
        · rw [e5, e6]
          have hctxsub : ∀ x, x ∈ ctx → x ∈ ctx1 := fun x hx => (hctx1 x).mpr (Or.inl hx)
          obtain ⟨ha', hP'⟩ := hb.ok _ (hctxsub _ hmem)
          have hccl : ∀ x, x ∈ ccC → Live st'.h x.2 ∧ hval st'.h x.2 = hval stC.h x.2 := fun x hx =>
            hb.ok _ ((hctx1 _).mpr (Or.inr ⟨x, hx, rfl⟩))
          have hccv : ccC.map (derefP st'.h) = cc := by
            rw [← h.ecc]
            apply List.map_congr_left
            intro x hx
            simp only [derefP, (hccl x hx).2]
          have hfro : ∀ x, x ∈ ctx → ∀ l : List Nat,
              x.1 ∈ a :: ws.map (·.2) ++ (outer ++ ccC.map (·.2)) ++ l := by
            intro x hx l
            simp only [List.cons_append, List.mem_cons, List.mem_append]
            rcases hcov x hx with hx | hx | hx
            · exact Or.inl hx
            · exact Or.inr (Or.inl (Or.inl hx))
            · exact Or.inr (Or.inl (Or.inr (Or.inl hx)))
          cases v with
          | holds =>
            simp only [hb.econs, globalInclO_nil]
            obtain ⟨e4, m4, c4, s4⟩ := ccAddC_spec hr ccC p a hb.hi ha' (fun x hx => (hccl x hx).1)
            rw [hccv, hP'] at e4
            rw [hP']
            have hrel4 : DRelO o ctx ⟨(ccAddC o ccC p a st'.h).2, f1.ant, []⟩
                ⟨st'.nonIncl, st'.incl, addTrue st'.trues (p, P), (ccAddC o ccC p a st'.h).1⟩ (ccAdd o cc p P)
                ⟨stV.nonIncl, addTrue stV.trues (p, P)⟩ := by
              refine ⟨m4, ?_, ?_, ?_, ?_, ?_, ?_, ?_, rfl, hb.eincl⟩
              · intro x hx
                obtain ⟨l, v⟩ := hb.ok x (hctxsub x hx)
                exact ⟨(FCU.live_store c4 _).mpr l, (FCU.hval_store c4 _).trans v⟩
              · intro x hx
                apply (FCU.live_store c4 _).mpr
                rcases s4 x hx with hx | rfl
                · exact (hccl x hx).1
                · exact ha'
              · intro x hx
                exact (FCU.live_store c4 _).mpr (hb.lant x hx)
              · intro x hx
                exact (FCU.live_store c4 _).mpr (hb.lni x hx)
              · show (ccAddC o ccC p a st'.h).2.map (derefP (ccAddC o ccC p a st'.h).1) = _
                rw [derefP_store c4]; exact e4
              · show st'.nonIncl.map (derefN (ccAddC o ccC p a st'.h).1) = _
                rw [derefN_store c4]; exact hb.eni
              · show addTrue st'.trues (p, P) = addTrue stV.trues (p, P)
                rw [hb.etr]
            obtain ⟨g1, g2⟩ := hCollectD_spec m4 (rootsO
              (a :: ws.map (·.2) ++ (outer ++ ccC.map (·.2)) ++ FO.handles ⟨f1.cc, f1.ant, []⟩)
              ⟨(ccAddC o ccC p a st'.h).2, [], []⟩
              ⟨st'.nonIncl, st'.incl, addTrue st'.trues (p, P), (ccAddC o ccC p a st'.h).1⟩)
            refine retRelG_some (hrel4.heap g1 (fun a' ha'' hl => g2 a' (mem_rootsO.mpr ?_) hl) (fun _ hx => hx))
            rcases ha'' with ⟨x, hx, rfl⟩ | hcc | ⟨x, hx, rfl⟩ | hni
            · exact Or.inl (hfro x hx _)
            · exact Or.inr (Or.inl hcc)
            · refine Or.inl (List.mem_append.mpr (Or.inr ?_))
              simp only [FO.handles, List.mem_append, List.mem_map]
              exact Or.inl (Or.inr ⟨x, hx, rfl⟩)
            · exact Or.inr (Or.inr (Or.inr (Or.inr (Or.inl hni))))
          | fails t =>
            simp only [hb.econs, globalInclO_nil]
            obtain ⟨e4, m4, c4, s4⟩ := niAddC_spec hr st'.nonIncl p a t hb.hi ha' hb.lni
            rw [hb.eni, hP'] at e4
            have hrel4 : DRelO o ctx ⟨ccC, f1.ant, []⟩
                ⟨(niAddC o st'.nonIncl p a t st'.h).2, st'.incl, stC.trues, (niAddC o st'.nonIncl p a t st'.h).1⟩ cc
                ⟨niAdd o stV.nonIncl p P t, st.trues⟩ := by
              refine ⟨m4, ?_, ?_, ?_, ?_, ?_, ?_, ?_, rfl, hb.eincl⟩
              · intro x hx
                obtain ⟨l, v⟩ := hb.ok x (hctxsub x hx)
                exact ⟨(FCU.live_store c4 _).mpr l, (FCU.hval_store c4 _).trans v⟩
              · intro x hx
                exact (FCU.live_store c4 _).mpr (hccl x hx).1
              · intro x hx
                exact (FCU.live_store c4 _).mpr (hb.lant x hx)
              · intro x hx
                apply (FCU.live_store c4 _).mpr
                rcases s4 x hx with hx | rfl
                · exact hb.lni x hx
                · exact ha'
              · show ccC.map (derefP (niAddC o st'.nonIncl p a t st'.h).1) = _
                rw [derefP_store c4]; exact hccv
              · show (niAddC o st'.nonIncl p a t st'.h).2.map (derefN (niAddC o st'.nonIncl p a t st'.h).1) = _
                rw [derefN_store c4]; exact e4
              · exact h.etr
            obtain ⟨g1, g2⟩ := hCollectD_spec m4 (rootsO
              (a :: ws.map (·.2) ++ (outer ++ ccC.map (·.2)) ++ FO.handles ⟨f1.cc, f1.ant, []⟩)
              ⟨ccC, [], []⟩
              ⟨(niAddC o st'.nonIncl p a t st'.h).2, st'.incl, stC.trues, (niAddC o st'.nonIncl p a t st'.h).1⟩)
            refine retRelG_some (hrel4.heap g1 (fun a' ha'' hl => g2 a' (mem_rootsO.mpr ?_) hl) (fun _ hx => hx))
            rcases ha'' with ⟨x, hx, rfl⟩ | hcc | ⟨x, hx, rfl⟩ | hni
            · exact Or.inl (hfro x hx _)
            · exact Or.inr (Or.inl hcc)
            · refine Or.inl (List.mem_append.mpr (Or.inr ?_))
              simp only [FO.handles, List.mem_append, List.mem_map]
              exact Or.inl (Or.inr ⟨x, hx, rfl⟩)
            · exact Or.inr (Or.inr (Or.inr (Or.inr (Or.inl hni))))

end FCD
end Vata
