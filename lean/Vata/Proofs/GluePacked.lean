import Vata.Glue
/-!
# The packed representation of `SymbolicVarAsgn` (`vars_`, two bits per variable) implements the sequence of values

`Refines p a`: the private members `p` represent the assignment `a` – `variablesCount_` is its length, `vars_` has exactly
`numberOfChars(length)` characters and `GetIthVariableValue(i)` as coded (shift and mask on `vars_[i*2/8]`) yields the
code of `a[i]`.

* `field_get_set`: on one character, the mask-and-or of `SetIthVariableValue` followed by the shift-and-mask of
  `GetIthVariableValue` (all 256 characters × 4 positions × 4 positions × 4 values, by kernel evaluation).
* `getRaw_setRaw`: `Get(j)` after `Set(i, v)` is `v` for `j = i` and unchanged otherwise – a write never disturbs a
  neighbouring variable of the same character.
* `ofAsgn_refines` (every constructor), `setRaw_refines` (`SetIthVariableValue`), `extend_refines` (`AddVariablesUpTo`,
  `append`: `resize` + writes), `refines_abs`: reading all variables back gives the abstract sequence.
-/
set_option linter.unusedSimpArgs false
namespace Vata.Glue.Packed

set_option maxRecDepth 100000 in
theorem field_get_set_0 : ∀ (i : Fin 256) (k' v : Fin 4),
    getField (setField (BitVec.ofNat 8 i.val) 0 (BitVec.ofNat 8 v.val)) (2 * k'.val) =
      if (0 : Fin 4) = k' then BitVec.ofNat 8 v.val else getField (BitVec.ofNat 8 i.val) (2 * k'.val) := by
  decide +kernel

set_option maxRecDepth 100000 in
theorem field_get_set_1 : ∀ (i : Fin 256) (k' v : Fin 4),
    getField (setField (BitVec.ofNat 8 i.val) 2 (BitVec.ofNat 8 v.val)) (2 * k'.val) =
      if (1 : Fin 4) = k' then BitVec.ofNat 8 v.val else getField (BitVec.ofNat 8 i.val) (2 * k'.val) := by
  decide +kernel

set_option maxRecDepth 100000 in
theorem field_get_set_2 : ∀ (i : Fin 256) (k' v : Fin 4),
    getField (setField (BitVec.ofNat 8 i.val) 4 (BitVec.ofNat 8 v.val)) (2 * k'.val) =
      if (2 : Fin 4) = k' then BitVec.ofNat 8 v.val else getField (BitVec.ofNat 8 i.val) (2 * k'.val) := by
  decide +kernel

set_option maxRecDepth 100000 in
theorem field_get_set_3 : ∀ (i : Fin 256) (k' v : Fin 4),
    getField (setField (BitVec.ofNat 8 i.val) 6 (BitVec.ofNat 8 v.val)) (2 * k'.val) =
      if (3 : Fin 4) = k' then BitVec.ofNat 8 v.val else getField (BitVec.ofNat 8 i.val) (2 * k'.val) := by
  decide +kernel

/-- one character: write the field `k`, read the field `k'` -/
theorem field_get_set (c : BitVec 8) (k k' v : Nat) (hk : k < 4) (hk' : k' < 4) (hv : v < 4) :
    getField (setField c (2 * k) (BitVec.ofNat 8 v)) (2 * k') =
      if k = k' then BitVec.ofNat 8 v else getField c (2 * k') := by
  have hc : c = BitVec.ofNat 8 (⟨c.toNat, c.isLt⟩ : Fin 256).val := by simp
  rw [hc]
  have key : ∀ (kk : Fin 4), getField (setField (BitVec.ofNat 8 (⟨c.toNat, c.isLt⟩ : Fin 256).val) (2 * kk.val) (BitVec.ofNat 8 (⟨v, hv⟩ : Fin 4).val))
      (2 * (⟨k', hk'⟩ : Fin 4).val) = if kk = ⟨k', hk'⟩ then BitVec.ofNat 8 (⟨v, hv⟩ : Fin 4).val
        else getField (BitVec.ofNat 8 (⟨c.toNat, c.isLt⟩ : Fin 256).val) (2 * (⟨k', hk'⟩ : Fin 4).val) := by
    intro kk
    match kk with
    | ⟨0, _⟩ => exact field_get_set_0 _ _ _
    | ⟨1, _⟩ => exact field_get_set_1 _ _ _
    | ⟨2, _⟩ => exact field_get_set_2 _ _ _
    | ⟨3, _⟩ => exact field_get_set_3 _ _ _
  have := key ⟨k, hk⟩
  simp only [Fin.mk.injEq] at this
  exact this

theorem indexOfChar_eq (i : Nat) : indexOfChar i = i / 4 := by unfold indexOfChar; omega
theorem indexInsideChar_eq (i : Nat) : indexInsideChar i = 2 * (i % 4) := by unfold indexInsideChar; omega

theorem setRaw_length (p : Packed) (i v : Nat) : (p.setRaw i v).vars.length = p.vars.length ∧
    (p.setRaw i v).variablesCount = p.variablesCount := by
  unfold setRaw
  cases p.vars[indexOfChar i]? <;> simp

/-- `GetIthVariableValue(j)` after `SetIthVariableValue(i, v)` -/
theorem getRaw_setRaw (p : Packed) (i j v : Nat) (hv : v < 4) (hi : i / 4 < p.vars.length) :
    (p.setRaw i v).getRaw j = if i = j then some v else p.getRaw j := by
  unfold setRaw getRaw
  rw [indexOfChar_eq, indexOfChar_eq, indexInsideChar_eq, indexInsideChar_eq]
  have hc : p.vars[i / 4]? = some p.vars[i / 4] := List.getElem?_eq_getElem hi
  rw [hc]
  simp only
  by_cases hq : i / 4 = j / 4
  · rw [← hq, List.getElem?_set_self hi, hc]
    simp only
    rw [field_get_set _ _ _ _ (Nat.mod_lt _ (by decide)) (Nat.mod_lt _ (by decide)) hv]
    by_cases hij : i = j
    · subst hij; simp; omega
    · have : i % 4 ≠ j % 4 := by omega
      simp [this, hij]
  · rw [List.getElem?_set_ne hq]
    have : i ≠ j := by intro e; subst e; exact hq rfl
    simp [this]

/-- the private members represent the assignment -/
def Refines (p : Packed) (a : Asgn) : Prop :=
  p.variablesCount = a.length ∧ p.vars.length = numberOfChars a.length ∧
    ∀ (i : Nat) (v : Val), a[i]? = some v → p.getRaw i = some (valCode v)

theorem valCode_lt (v : Val) : valCode v < 4 := by
  cases v with
  | none => decide
  | some b => cases b <;> decide

theorem index_lt_numberOfChars {i n : Nat} (h : i < n) : i / 4 < numberOfChars n := by
  unfold numberOfChars
  split <;> omega

theorem numberOfChars_mono {n m : Nat} (h : n ≤ m) : numberOfChars n ≤ numberOfChars m := by
  unfold numberOfChars
  split <;> split <;> omega

/-- `SetIthVariableValue(i, v)` implements `set` -/
theorem setRaw_refines {p : Packed} {a : Asgn} (h : Refines p a) {i : Nat} (hi : i < a.length) (v : Val) :
    Refines (p.setRaw i (valCode v)) (Glue.set a i v) := by
  obtain ⟨h1, h2, h3⟩ := h
  have hl := setRaw_length p i (valCode v)
  refine ⟨by simp [hl.2, h1, Glue.set], by simp [hl.1, h2, Glue.set], ?_⟩
  intro j w hj
  rw [getRaw_setRaw p i j _ (valCode_lt v) (by rw [h2]; exact index_lt_numberOfChars hi)]
  simp only [Glue.set] at hj
  by_cases hij : i = j
  · subst hij
    rw [List.getElem?_set_self hi] at hj
    cases hj
    simp
  · rw [List.getElem?_set_ne hij] at hj
    simp [hij, h3 j w hj]

/-- the loop `for (i = from; …) SetIthVariableValue(i, vals[i - from])` -/
theorem setFrom_spec : ∀ (vals : List Val) (p : Packed) (i : Nat), (i + vals.length) ≤ p.variablesCount →
    p.vars.length = numberOfChars p.variablesCount →
    (setFrom p i vals).variablesCount = p.variablesCount ∧ (setFrom p i vals).vars.length = p.vars.length ∧
      ∀ j, (setFrom p i vals).getRaw j = if i ≤ j ∧ j < i + vals.length then (vals[j - i]?).map valCode else p.getRaw j
  | [], p, i, _, _ => by
    refine ⟨rfl, rfl, ?_⟩
    intro j
    have : ¬ (i ≤ j ∧ j < i + ([] : List Val).length) := by simp only [List.length_nil]; omega
    rw [if_neg this]
    rfl
  | v :: r, p, i, hb, hl => by
    simp only [List.length_cons] at hb
    have hlen := setRaw_length p i (valCode v)
    have ih := setFrom_spec r (p.setRaw i (valCode v)) (i + 1) (by rw [hlen.2]; omega) (by rw [hlen.1, hlen.2]; exact hl)
    simp only [setFrom]
    refine ⟨by rw [ih.1, hlen.2], by rw [ih.2.1, hlen.1], ?_⟩
    intro j
    rw [ih.2.2 j, getRaw_setRaw p i j _ (valCode_lt v) (by rw [hl]; exact index_lt_numberOfChars (by omega))]
    simp only [List.length_cons]
    by_cases h1 : i + 1 ≤ j ∧ j < i + 1 + r.length
    · have h2 : i ≤ j ∧ j < i + (r.length + 1) := by omega
      rw [if_pos h1, if_pos h2]
      have : j - i = (j - (i + 1)) + 1 := by omega
      rw [this, List.getElem?_cons_succ]
    · rw [if_neg h1]
      by_cases hij : i = j
      · subst hij
        have h2 : i ≤ i ∧ i < i + (r.length + 1) := by omega
        simp [h2]
      · have h2 : ¬ (i ≤ j ∧ j < i + (r.length + 1)) := by omega
        simp [hij, h2]

/-- every constructor (from a size, from (size, number), from a string, the copy): `vars_(numberOfChars(n))` zeroed, then
all variables written -/
theorem ofAsgn_refines (a : Asgn) : Refines (ofAsgn a) a := by
  unfold ofAsgn
  have := setFrom_spec a ⟨a.length, List.replicate (numberOfChars a.length) 0#8⟩ 0 (by simp) (by simp)
  refine ⟨this.1, by rw [this.2.1]; simp, ?_⟩
  intro i v hi
  rw [this.2.2 i]
  have hlt : i < a.length := by
    cases Nat.lt_or_ge i a.length with
    | inl h => exact h
    | inr h => rw [List.getElem?_eq_none h] at hi; cases hi
  rw [if_pos (by omega), Nat.sub_zero, hi]
  rfl

theorem resize_getElem? (l : List (BitVec 8)) (k m : Nat) (hk : l.length ≤ k) (hm : m < l.length) : (resize l k)[m]? = l[m]? := by
  unfold resize
  rw [List.take_of_length_le hk, List.getElem?_append_left hm]

theorem resize_length (l : List (BitVec 8)) (k : Nat) (hk : l.length ≤ k) : (resize l k).length = k := by
  unfold resize
  rw [List.take_of_length_le hk]
  simp; omega

/-- `AddVariablesUpTo` (the new values are `DONT_CARE`) and `append` (the new values are those of the argument) as coded:
enlarge `variablesCount_`, `vars_.resize(…)`, write the new variables -/
theorem extend_refines {p : Packed} {a : Asgn} (h : Refines p a) (vals : List Val) : Refines (p.extend vals) (a ++ vals) := by
  obtain ⟨h1, h2, h3⟩ := h
  unfold extend
  have hmono : p.vars.length ≤ numberOfChars (p.variablesCount + vals.length) := by
    rw [h2, h1]; exact numberOfChars_mono (by omega)
  have := setFrom_spec vals ⟨p.variablesCount + vals.length, resize p.vars (numberOfChars (p.variablesCount + vals.length))⟩
    p.variablesCount (by simp) (by simp [resize_length _ _ hmono])
  refine ⟨by rw [this.1]; simp [h1], ?_, ?_⟩
  · rw [this.2.1]
    show (resize p.vars (numberOfChars (p.variablesCount + vals.length))).length = numberOfChars (a ++ vals).length
    rw [resize_length _ _ hmono, h1, List.length_append]
  intro j v hj
  rw [this.2.2 j]
  by_cases hlt : j < a.length
  · rw [List.getElem?_append_left hlt] at hj
    have hn : ¬ (p.variablesCount ≤ j ∧ j < p.variablesCount + vals.length) := by omega
    rw [if_neg hn]
    have := h3 j v hj
    unfold getRaw at this ⊢
    simp only
    rw [resize_getElem? _ _ _ hmono (by rw [h2, indexOfChar_eq]; exact index_lt_numberOfChars hlt)]
    exact this
  · rw [List.getElem?_append_right (by omega)] at hj
    have hjl : j - a.length < vals.length := by
      cases Nat.lt_or_ge (j - a.length) vals.length with
      | inl h => exact h
      | inr h => rw [List.getElem?_eq_none h] at hj; cases hj
    have hp : p.variablesCount ≤ j ∧ j < p.variablesCount + vals.length := by omega
    rw [if_pos hp, h1, hj]
    rfl

theorem codeVal?_valCode (v : Val) : codeVal? (valCode v) = some v := by
  cases v with
  | none => rfl
  | some b => cases b <;> rfl

/-- reading all variables back (`GetIthVariableValue(0 … length()-1)`, what `ToString` does) gives the abstract sequence -/
theorem refines_abs {p : Packed} {a : Asgn} (h : Refines p a) : p.abs = a.map some := by
  obtain ⟨h1, _, h3⟩ := h
  unfold abs
  apply List.ext_getElem?
  intro i
  simp only [List.getElem?_map, List.getElem?_range', h1]
  by_cases hi : i < a.length
  · have : a[i]? = some a[i] := List.getElem?_eq_getElem hi
    rw [List.getElem?_range hi, this]
    simp [h3 i _ this, codeVal?_valCode]
  · rw [List.getElem?_eq_none (by simp; omega), List.getElem?_eq_none (by omega)]
    rfl

/-- example: five variables occupy two characters; the second write does not disturb the neighbours -/
example : (ofAsgn [some true, none, some false, none, some true]).vars = [0xde#8, 0x02#8] ∧
    ((ofAsgn [some true, none, some false, none, some true]).setRaw 1 (valCode (some false))).abs =
      [some (some true), some (some false), some (some false), some none, some (some true)] := by decide

end Vata.Glue.Packed
