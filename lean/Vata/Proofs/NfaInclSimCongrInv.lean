import Vata.NfaInclSim
import Vata.Proofs.NfaInclSimAC
import Vata.Proofs.NfaInclSimEquiv
/-!
# The exploration of the congruence functor with `NormalFormRelSimulation` is right by itself

For state-disjoint operands, `U = A ⊎ B` and a relation `R` that is a simulation on `U` (`NfaSim`; neither reflexivity nor
transitivity is used):

* `congrCl_applyRule`   : `applyRule` stays inside the congruence class once the simulation pairs are rules (`simRules`);
* `inClosureSim_sound`  : a pair skipped by `MakePost` is in the congruence closure of `simRules R ∪ next_ ∪ relation_`;
* `simRules_bisim`      : the simulation pairs are a bisimulation up to congruence;
* `congrSimFunctor_inv` : `return false` at `w` ⇒ `A` accepts `w`, `B` does not; `return true` ⇒ `simRules R ∪ relation_` is a
                          certificate (`CongrCert`);
* `closeLoopSim_not_stuck`, `congrSimFunctor_terminates` : the model is total above `fuelBoundCongr`;
* `nfaInclCongrSimRaw_iff`, `nfaInclCongrSim_total`.
-/
namespace Vata
open Vata.W
namespace NfaIncl

theorem mem_simRules {R : Rel} {p : CRule} : p ∈ simRules R ↔ ∃ r s, (r, s) ∈ R ∧ p = ([s], [s, r]) := by
  simp only [simRules, List.mem_map]
  constructor
  · rintro ⟨q, hq, rfl⟩; exact ⟨q.1, q.2, hq, rfl⟩
  · rintro ⟨r, s, h, rfl⟩; exact ⟨(r, s), h, rfl⟩

/-- adding states simulated by states of the set stays in the congruence class -/
theorem congrCl_add_sim {T : List CRule} {R : Rel} (hT : ∀ p, p ∈ simRules R → p ∈ T) {S : List Nat} :
    ∀ (l : List (Nat × Nat)), (∀ p, p ∈ l → p ∈ R ∧ p.2 ∈ S) → CongrCl T S (S ++ l.map (·.1))
  | [], _ => .refl (by simp)
  | p :: l, h => by
    have ih := congrCl_add_sim hT l (fun q hq => h q (List.mem_cons_of_mem _ hq))
    obtain ⟨hpR, hpS⟩ := h p List.mem_cons_self
    have hrule : ([p.2], [p.2, p.1]) ∈ T := hT _ (mem_simRules.mpr ⟨p.1, p.2, hpR, rfl⟩)
    have h1 : CongrCl T S (normS (S ++ [p.2] ++ [p.2, p.1])) :=
      congrCl_fire hrule (Or.inl (fun x hx => by rw [List.mem_singleton.mp hx]; exact hpS))
    have hu := CongrCl.union h1 ih
    refine .trans (.refl ?_) (.trans hu (.refl ?_))
    · intro x; simp only [List.mem_append]; exact ⟨Or.inl, fun h => h.elim id id⟩
    · intro x
      simp only [List.mem_append, mem_normS, List.mem_cons, List.map_cons, List.not_mem_nil, or_false]
      constructor
      · rintro (((h | h) | h | h) | h | h)
        · exact Or.inl h
        · exact Or.inl (h ▸ hpS)
        · exact Or.inl (h ▸ hpS)
        · exact Or.inr (Or.inl h)
        · exact Or.inl h
        · exact Or.inr (Or.inr h)
      · rintro (h | h | h)
        · exact Or.inl (Or.inl (Or.inl h))
        · exact Or.inl (Or.inr (Or.inr h))
        · exact Or.inr (Or.inr h)

theorem congrCl_applyRule {T : List CRule} {R : Rel} (hT : ∀ p, p ∈ simRules R → p ∈ T) (S : List Nat) :
    CongrCl T S (applyRuleSim R S) := by
  refine .trans (congrCl_add_sim hT (R.filter (fun p => S.contains p.2)) ?_) (.refl (fun x => mem_normS.symm))
  intro p hp
  simp only [List.mem_filter, List.contains_iff_mem] at hp
  exact hp

/-- firing a rule with `AddSubSet` -/
theorem congrCl_fire_sim {T : List CRule} {R : Rel} (hT : ∀ p, p ∈ simRules R → p ∈ T) {r : CRule} (hr : r ∈ T)
    {b set : List Nat} (hset : CongrCl T b set) (hm : matchPair set r.2 = true) :
    CongrCl T b (normS (set ++ applyRuleSim R r.1 ++ applyRuleSim R r.2)) := by
  have h1 : CongrCl T set (normS (set ++ r.1 ++ r.2)) := congrCl_fire hr (Or.inr (matchPair_sub hm))
  have h2 : CongrCl T (set ++ r.1 ++ r.2) (set ++ applyRuleSim R r.1 ++ applyRuleSim R r.2) :=
    .union (.union (.rfl' set) (congrCl_applyRule hT r.1)) (congrCl_applyRule hT r.2)
  exact .trans hset (.trans h1 (.trans (.refl (fun x => mem_normS)) (.trans h2 (.refl (fun x => mem_normS.symm)))))

theorem isSubSetB_sub {l r : List Nat} (h : isSubSetB l r = true) : ∀ x, x ∈ l → x ∈ r := by
  simp only [isSubSetB, Bool.and_eq_true, subB_iff] at h
  exact h.2

theorem sweepSim_sound {T : List CRule} {R : Rel} (hT : ∀ p, p ∈ simRules R → p ∈ T) {s b : List Nat} :
    ∀ (rs un : List CRule) (set : List Nat) (ap : Bool),
    (∀ r, r ∈ rs → r ∈ T) → (∀ r, r ∈ un → r ∈ T) → CongrCl T b set →
    (∀ un' set' ap', sweepSim R s rs un set ap = some (un', set', ap') → (∀ r, r ∈ un' → r ∈ T) ∧ CongrCl T b set') ∧
    (sweepSim R s rs un set ap = none → ∃ set', CongrCl T b set' ∧ ∀ x, x ∈ s → x ∈ set')
  | [], un, set, ap, _, hun, hset => by
    constructor
    · intro un' set' ap' h
      simp only [sweepSim, Option.some.injEq, Prod.mk.injEq] at h
      obtain ⟨rfl, rfl, _⟩ := h
      exact ⟨fun r hr => hun r (List.mem_reverse.mp hr), hset⟩
    · intro h; simp [sweepSim] at h
  | r :: rs, un, set, ap, hrs, hun, hset => by
    have hrs' : ∀ r', r' ∈ rs → r' ∈ T := fun r' h => hrs r' (List.mem_cons_of_mem _ h)
    have hr : r ∈ T := hrs r List.mem_cons_self
    unfold sweepSim
    split
    · next hm =>
      have hset' := congrCl_fire_sim hT hr hset hm
      simp only
      split
      · next hsub =>
        constructor
        · intro _ _ _ h; cases h
        · intro _; exact ⟨_, hset', isSubSetB_sub hsub⟩
      · exact sweepSim_sound hT rs un _ true hrs' hun hset'
    · exact sweepSim_sound hT rs (r :: un) set ap hrs'
        (fun r' h => by rcases List.mem_cons.mp h with rfl | h; exact hr; exact hun r' h) hset

theorem closeLoopSim_sound {T : List CRule} {R : Rel} (hT : ∀ p, p ∈ simRules R → p ∈ T) {s b : List Nat} :
    ∀ (n : Nat) (rules : List CRule) (set : List Nat),
    (∀ r, r ∈ rules → r ∈ T) → CongrCl T b set → closeLoopSim R s n rules set = some true →
      ∃ set', CongrCl T b set' ∧ ∀ x, x ∈ s → x ∈ set'
  | 0, _, _, _, _, h => by simp [closeLoopSim] at h
  | n+1, rules, set, hrules, hset, h => by
    obtain ⟨h1, h2⟩ := sweepSim_sound hT (s := s) rules [] set false hrules (fun _ h => by simp at h) hset
    unfold closeLoopSim at h
    split at h
    · next hsw => exact h2 hsw
    · next un set' ap hsw =>
      obtain ⟨hun, hset'⟩ := h1 un set' ap hsw
      split at h
      · exact closeLoopSim_sound hT n un set' hun hset' h
      · simp only [Option.some.injEq] at h
        exact ⟨set', hset', isSubSetB_sub h⟩

/-- a pair with `b ⊆ s` that passes the test of `MakePost` is in the congruence closure of the rules and the simulation -/
theorem inClosureSim_sound {R : Rel} {rules : List CRule} {s b : List Nat} (hbs : ∀ x, x ∈ b → x ∈ s)
    (h : inClosureSim R rules s b = some true) : CongrCl (simRules R ++ rules) s b := by
  have hT : ∀ p, p ∈ simRules R → p ∈ simRules R ++ rules := fun p hp => List.mem_append_left _ hp
  obtain ⟨set, hset, hs⟩ := closeLoopSim_sound hT (b := b) _ rules _ (fun _ h => List.mem_append_right _ h)
    (congrCl_applyRule hT b) h
  have h1 : CongrCl (simRules R ++ rules) (s ++ b) (s ++ set) := .union (.rfl' s) hset
  have e1 : CongrCl (simRules R ++ rules) s (s ++ b) := by
    refine .refl ?_
    intro x; simp only [List.mem_append]
    exact ⟨Or.inl, fun h => h.elim id (hbs x)⟩
  have e2 : CongrCl (simRules R ++ rules) (s ++ set) set := by
    refine .refl ?_
    intro x; simp only [List.mem_append]
    exact ⟨fun h => h.elim (hs x) id, Or.inr⟩
  exact .trans e1 (.trans h1 (.trans e2 hset.symm))

/-- the simulation pairs, read as rules, are a bisimulation up to congruence -/
theorem simRules_bisim {U : NFA} {R : Rel} (hR : NfaSim U R) {T : List CRule} (hT : ∀ p, p ∈ simRules R → p ∈ T)
    {p : CRule} (hp : p ∈ simRules R) :
    W.accepting U p.1 = W.accepting U p.2 ∧ ∀ a, CongrCl T (stepW U p.1 a) (stepW U p.2 a) := by
  obtain ⟨r, s, hrs, rfl⟩ := mem_simRules.mp hp
  constructor
  · rw [Bool.eq_iff_iff]
    simp only [accepting_iff, List.mem_cons, List.not_mem_nil, or_false]
    constructor
    · rintro ⟨q, rfl, hf⟩; exact ⟨q, Or.inl rfl, hf⟩
    · rintro ⟨q, rfl | rfl, hf⟩
      · exact ⟨q, rfl, hf⟩
      · exact ⟨s, rfl, (hR q s hrs).1 hf⟩
  · intro a
    -- every successor of `r` is simulated by a successor of `s`
    have hl : ∀ (l : List Nat), (∀ x, x ∈ l → x ∈ stepW U [r] a) →
        ∃ l' : List (Nat × Nat), (∀ q, q ∈ l' → q ∈ R ∧ q.2 ∈ stepW U [s] a) ∧ l'.map (·.1) = l := by
      intro l
      induction l with
      | nil => intro _; exact ⟨[], fun _ h => by simp at h, rfl⟩
      | cons x l ih =>
        intro hx
        obtain ⟨l', h1, h2⟩ := ih (fun y hy => hx y (List.mem_cons_of_mem _ hy))
        obtain ⟨p0, hp0, he⟩ := mem_stepW.mp (hx x List.mem_cons_self)
        rw [List.mem_singleton.mp hp0] at he
        obtain ⟨s', he', hr'⟩ := (hR r s hrs).2 a x he
        refine ⟨(x, s') :: l', ?_, by simp [h2]⟩
        intro q hq
        rcases List.mem_cons.mp hq with rfl | hq
        · exact ⟨hr', mem_stepW.mpr ⟨s, List.mem_singleton.mpr rfl, he'⟩⟩
        · exact h1 q hq
    obtain ⟨l', h1, h2⟩ := hl (stepW U [r] a) (fun _ h => h)
    have := congrCl_add_sim hT (S := stepW U [s] a) l' h1
    rw [h2] at this
    refine .trans this (.refl ?_)
    intro x
    have := mem_stepW_append U [s] [r] a x
    simp only [List.singleton_append] at this
    exact this.symm

/-! ### the invariant of the exploration -/

/-- the loop: a `return false` is justified, a `return true` leaves a certificate (with the simulation pairs as rules) -/
theorem loopCongrSim_inv {A B : NFA} (hdis : ∀ q, q ∈ nfaStates A → q ∈ nfaStates B → False) {R : Rel}
    (hR : NfaSim (nfaUnionDisjoint A B) R) :
    ∀ (n : Nat) (st : CSt), CInv A B (rulesE (simRules R) st) st →
    (∀ w, loopCongrSim (nfaUnionDisjoint A B) B R n st = some (.error w) →
      acceptsW A w = true ∧ acceptsW B w = false) ∧
    (∀ Rl, loopCongrSim (nfaUnionDisjoint A B) B R n st = some (.ok Rl) → CongrCert A B (simRules R ++ rulesOf Rl))
  | 0, _, _ => by constructor <;> intro _ h <;> simp [loopCongrSim] at h
  | n+1, st, hI => by
    unfold loopCongrSim
    split
    · next hn =>
      constructor
      · intro w h; simp at h
      · intro Rl h
        simp only [Option.some.injEq, Except.ok.injEq] at h
        subst h
        have hT : ∀ p, p ∈ rulesE (simRules R) st → p ∈ simRules R ++ rulesOf st.relation := by
          intro p hp
          rcases mem_rulesE.mp hp with hp | ⟨i, hi, rfl⟩
          · exact List.mem_append_left _ hp
          · rcases hi with hi | hi
            · rw [hn] at hi; simp at hi
            · exact List.mem_append_right _ (mem_rulesOf.mpr ⟨i, hi, rfl⟩)
        refine ⟨hdis, hI.init.mono hT, ?_⟩
        intro p hp
        rcases List.mem_append.mp hp with hp | hp
        · exact simRules_bisim hR (fun q hq => List.mem_append_left _ hq) hp
        · obtain ⟨i, hi, rfl⟩ := mem_rulesOf.mp hp
          exact ⟨(hI.bisim i hi).1, fun a => ((hI.bisim i hi).2 a).mono hT⟩
    · next it rest hn =>
      have hit : CWordOK (nfaUnionDisjoint A B) B it := hI.words it (by rw [hn]; exact List.mem_cons_self)
      have hitacc := hI.acc it (by rw [hn]; exact List.mem_cons_self)
      -- the state after the pop, with the picked pair as an extra rule
      have hI1 : CInv A B (rulesE ((it.X, it.Y) :: simRules R) ⟨st.relation, rest, st.visited⟩)
          ⟨st.relation, rest, st.visited⟩ := by
        have := hI.transfer (T' := rulesE ((it.X, it.Y) :: simRules R) ⟨st.relation, rest, st.visited⟩) (by
          intro p hp
          refine .base ?_
          rcases mem_rulesE.mp hp with hp | ⟨i, hi, rfl⟩
          · exact mem_rulesE.mpr (Or.inl (List.mem_cons_of_mem _ hp))
          · rcases hi with hi | hi
            · rw [hn] at hi
              rcases List.mem_cons.mp hi with rfl | hi
              · exact mem_rulesE.mpr (Or.inl List.mem_cons_self)
              · exact mem_rulesE.mpr (Or.inr ⟨i, Or.inl hi, rfl⟩)
            · exact mem_rulesE.mpr (Or.inr ⟨i, Or.inr hi, rfl⟩))
        exact ⟨fun i hi => hI.words i (by rw [hn]; exact List.mem_cons_of_mem _ hi), this.init,
          fun i hi => hI.acc i (by rw [hn]; exact List.mem_cons_of_mem _ hi), this.bisim, this.visited⟩
      split
      · constructor <;> intro _ h <;> cases h
      · next hcl =>
        -- the pair is in the congruence closure of the other pairs and the simulation: it is dropped
        refine loopCongrSim_inv hdis hR n ⟨st.relation, rest, st.visited⟩ ?_
        have hc : CongrCl (simRules R ++ rulesOf (rest.reverse ++ st.relation)) it.X it.Y :=
          inClosureSim_sound hit.y_sub_x hcl
        apply hI1.transfer
        intro p hp
        have hsub : ∀ p, p ∈ simRules R ++ rulesOf (rest.reverse ++ st.relation) →
            p ∈ rulesE (simRules R) ⟨st.relation, rest, st.visited⟩ := by
          intro p hp
          rcases List.mem_append.mp hp with hp | hp
          · exact mem_rulesE.mpr (Or.inl hp)
          · obtain ⟨i, hi, rfl⟩ := mem_rulesOf.mp hp
            refine mem_rulesE.mpr (Or.inr ⟨i, ?_, rfl⟩)
            rcases List.mem_append.mp hi with hi | hi
            · exact Or.inl (List.mem_reverse.mp hi)
            · exact Or.inr hi
        rcases mem_rulesE.mp hp with hp | ⟨i, hi, rfl⟩
        · rcases List.mem_cons.mp hp with rfl | hp
          · exact hc.mono hsub
          · exact .base (mem_rulesE.mpr (Or.inl hp))
        · exact .base (mem_rulesE.mpr (Or.inr ⟨i, hi, rfl⟩))
      · split
        · next w hw =>
          constructor
          · intro w' h
            simp only [Option.some.injEq, Except.error.injEq] at h
            subst h
            obtain ⟨a, hne, rfl⟩ := congrPost_error _ _ _ hw
            exact cbad_counterexample hdis (csucc_ok hit a) hne
          · intro Rl h; simp at h
        · next st' h' =>
          obtain ⟨h1, h2, _, h4⟩ := congrPost_inv hdis hit _ _ st' hI1 h'
          refine loopCongrSim_inv hdis hR n ⟨st'.relation ++ [it], st'.next, st'.visited⟩ ?_
          -- the picked pair moves from the extra rules to the relation
          have hT : ∀ p, p ∈ rulesE ((it.X, it.Y) :: simRules R) st' →
              p ∈ rulesE (simRules R) ⟨st'.relation ++ [it], st'.next, st'.visited⟩ := by
            intro p hp
            rcases mem_rulesE.mp hp with hp | ⟨i, hi, rfl⟩
            · rcases List.mem_cons.mp hp with rfl | hp
              · exact mem_rulesE.mpr
                  (Or.inr ⟨it, Or.inr (List.mem_append_right _ (List.mem_singleton.mpr rfl)), rfl⟩)
              · exact mem_rulesE.mpr (Or.inl hp)
            · refine mem_rulesE.mpr (Or.inr ⟨i, ?_, rfl⟩)
              rcases hi with hi | hi
              · exact Or.inl hi
              · exact Or.inr (List.mem_append_left _ hi)
          have h1' := h1.transfer (fun p hp => CongrCl.base (hT p hp))
          refine ⟨h1.words, h1'.init, h1.acc, ?_, h1'.visited⟩
          intro i hi
          rcases List.mem_append.mp hi with hi | hi
          · exact h1'.bisim i hi
          · rw [List.mem_singleton.mp hi]
            refine ⟨hitacc, fun a => ?_⟩
            have hY : ∀ x, x ∈ stepW (nfaUnionDisjoint A B) it.Y a ↔ x ∈ stepW B it.Y a :=
              stepW_union_right hdis hit.y_states a
            have e2 : CongrCl (rulesE (simRules R) ⟨st'.relation ++ [it], st'.next, st'.visited⟩)
                (csucc (nfaUnionDisjoint A B) B it a).Y (stepW (nfaUnionDisjoint A B) it.Y a) :=
              .refl (fun x => by
                show x ∈ normS (stepW B it.Y a) ↔ _
                rw [mem_normS, hY])
            have e1 : CongrCl (rulesE (simRules R) ⟨st'.relation ++ [it], st'.next, st'.visited⟩)
                (stepW (nfaUnionDisjoint A B) it.X a) (csucc (nfaUnionDisjoint A B) B it a).X :=
              .refl (fun x => by
                show _ ↔ x ∈ normS (stepW (nfaUnionDisjoint A B) it.X a)
                rw [mem_normS])
            refine .trans e1 (.trans ?_ e2)
            by_cases ha : a ∈ postSyms (nfaUnionDisjoint A B) B it.X it.Y
            · rcases (h4 a ha).2 with ⟨hx, hy⟩ | hv
              · rw [hx, hy]; exact .rfl' []
              · exact h1'.visited _ hv
            · obtain ⟨hx, hy⟩ := stepW_nil_of_not_postSym ha
              have hx' : (csucc (nfaUnionDisjoint A B) B it a).X = [] := by
                show normS (stepW (nfaUnionDisjoint A B) it.X a) = []
                rw [hx]; rfl
              have hy' : (csucc (nfaUnionDisjoint A B) B it a).Y = [] := by
                show normS (stepW B it.Y a) = []
                rw [hy]; rfl
              rw [hx', hy']; exact .rfl' []

theorem congrSimFunctor_inv {A B : NFA} (hdis : ∀ q, q ∈ nfaStates A → q ∈ nfaStates B → False) {R : Rel}
    (hR : NfaSim (nfaUnionDisjoint A B) R) {fuel : Nat} :
    (∀ w, congrSimFunctor (nfaUnionDisjoint A B) B R fuel = some (.error w) →
      acceptsW A w = true ∧ acceptsW B w = false) ∧
    (∀ Rl, congrSimFunctor (nfaUnionDisjoint A B) B R fuel = some (.ok Rl) →
      CongrCert A B (simRules R ++ rulesOf Rl)) := by
  have hw0 : CWordOK (nfaUnionDisjoint A B) B ⟨normS (nfaUnionDisjoint A B).start, normS B.start, []⟩ :=
    ⟨fun _ => mem_normS, fun _ => mem_normS⟩
  unfold congrSimFunctor
  simp only
  split
  · next hne =>
    constructor
    · intro w h
      simp only [Option.some.injEq, Except.error.injEq] at h
      subst h
      exact cbad_counterexample hdis hw0 (by simpa using hne)
    · intro Rl h; simp at h
  · next hacc =>
    have hacc' : W.accepting (nfaUnionDisjoint A B) (normS (nfaUnionDisjoint A B).start) =
        W.accepting B (normS B.start) := by simpa using hacc
    apply loopCongrSim_inv hdis hR fuel
    refine ⟨?_, ?_, ?_, fun _ h => by simp at h, ?_⟩
    · intro i hi; rw [List.mem_singleton.mp hi]; exact hw0
    · have hb : CongrCl (rulesE (simRules R) ⟨[], [⟨normS (nfaUnionDisjoint A B).start, normS B.start, []⟩],
          [(normS (nfaUnionDisjoint A B).start, normS B.start)]⟩)
          (normS (nfaUnionDisjoint A B).start) (normS B.start) :=
        .base (mem_rulesE.mpr (Or.inr ⟨_, Or.inl (List.mem_singleton.mpr rfl), rfl⟩))
      exact .trans (.refl (fun x => (mem_normS (l := A.start ++ B.start)).symm))
        (.trans hb (.refl (fun x => mem_normS)))
    · intro i hi
      rw [List.mem_singleton.mp hi]
      show W.accepting _ (normS (nfaUnionDisjoint A B).start) = W.accepting _ (normS B.start)
      rw [hacc', accepting_union_right hdis hw0.y_states]
    · intro v hv
      rw [List.mem_singleton.mp hv]
      exact .base (mem_rulesE.mpr (Or.inr ⟨_, Or.inl (List.mem_singleton.mpr rfl), rfl⟩))

/-! ### termination -/

theorem sweepSim_length {R : Rel} {s : List Nat} :
    ∀ (rs un : List CRule) (set : List Nat) (ap : Bool) un' set' ap',
    sweepSim R s rs un set ap = some (un', set', ap') →
      un'.length ≤ un.length + rs.length ∧ (ap' = true → ap = true ∨ un'.length < un.length + rs.length)
  | [], un, set, ap, un', set', ap', h => by
    simp only [sweepSim, Option.some.injEq, Prod.mk.injEq] at h
    obtain ⟨rfl, _, rfl⟩ := h
    simp only [List.length_reverse, List.length_nil, Nat.add_zero, Nat.le_refl, true_and]
    exact Or.inl
  | r :: rs, un, set, ap, un', set', ap', h => by
    unfold sweepSim at h
    split at h
    · simp only at h
      split at h
      · cases h
      · have := sweepSim_length rs un _ true un' set' ap' h
        simp only [List.length_cons]
        exact ⟨by omega, fun _ => Or.inr (by omega)⟩
    · have := sweepSim_length rs (r :: un) set ap un' set' ap' h
      simp only [List.length_cons] at this ⊢
      exact ⟨by omega, fun h' => (this.2 h').imp id (by omega)⟩

theorem closeLoopSim_not_stuck {R : Rel} {s : List Nat} : ∀ (n : Nat) (rules : List CRule) (set : List Nat),
    rules.length < n → ∃ b, closeLoopSim R s n rules set = some b
  | 0, _, _, h => absurd h (Nat.not_lt_zero _)
  | n+1, rules, set, h => by
    unfold closeLoopSim
    split
    · exact ⟨_, rfl⟩
    · next un set' ap hsw =>
      have hl := sweepSim_length rules [] set false un set' ap hsw
      split
      · next hap =>
        apply closeLoopSim_not_stuck n
        rcases hl.2 hap with h' | h'
        · cases h'
        · simp only [List.length_nil, Nat.zero_add] at h'; omega
      · exact ⟨_, rfl⟩

theorem loopCongrSim_terminates {U B : NFA} {R : Rel} : ∀ (n : Nat) (st : CSt), psi U B st < n →
    ∃ r, loopCongrSim U B R n st = some r
  | 0, _, h => absurd h (Nat.not_lt_zero _)
  | n+1, st, h => by
    unfold loopCongrSim
    split
    · exact ⟨_, rfl⟩
    · next it rest hn =>
      have h2 : psi U B ⟨st.relation, rest, st.visited⟩ + 1 = psi U B st := by
        unfold psi; rw [hn]; simp only [List.length_cons]; omega
      split
      · next hnone =>
        obtain ⟨b, hb⟩ := closeLoopSim_not_stuck (R := R) (s := it.X) _ (rulesOf (rest.reverse ++ st.relation))
          (applyRuleSim R it.Y) (Nat.lt_succ_self _)
        unfold inClosureSim at hnone
        rw [hb] at hnone; cases hnone
      · exact loopCongrSim_terminates n _ (by omega)
      · split
        · exact ⟨_, rfl⟩
        · next st' h' =>
          apply loopCongrSim_terminates n
          have h1 := (psi_congrPost _ _ st' h').1
          have h3 : psi U B ⟨st'.relation ++ [it], st'.next, st'.visited⟩ = psi U B st' := rfl
          omega

theorem congrSimFunctor_terminates {A B : NFA} {R : Rel} {fuel : Nat} (h : fuelBoundCongr A B < fuel) :
    ∃ r, congrSimFunctor (nfaUnionDisjoint A B) B R fuel = some r := by
  unfold congrSimFunctor
  simp only
  split
  · exact ⟨_, rfl⟩
  · apply loopCongrSim_terminates
    have : psi (nfaUnionDisjoint A B) B ⟨[], [⟨normS (nfaUnionDisjoint A B).start, normS B.start, []⟩],
        [(normS (nfaUnionDisjoint A B).start, normS B.start)]⟩ ≤ (cuniv (nfaUnionDisjoint A B) B).length + 1 := by
      unfold psi
      have := List.countP_le_length (l := cuniv (nfaUnionDisjoint A B) B)
        (p := fun p => !([(normS (nfaUnionDisjoint A B).start, normS B.start)] : List CRule).contains p)
      simp only [List.length_singleton]
      omega
    rw [length_cuniv] at this
    unfold fuelBoundCongr at h
    omega

end NfaIncl

open NfaIncl

/-! ### the verdicts -/

/-- the UNCHECKED verdict of the congruence functor with a simulation is exact (state-disjoint operands, `R` a simulation on
`A ⊎ B`) -/
theorem nfaInclCongrSimRaw_iff {A B : NFA} {R : Rel} (hdis : ∀ q, q ∈ nfaStates A → q ∈ nfaStates B → False)
    (hR : NfaSim (nfaUnionDisjoint A B) R) {fuel : Nat} {b : Bool}
    (h : nfaInclCongrSimRaw A B R fuel = some b) : b = true ↔ InclW A B := by
  unfold nfaInclCongrSimRaw at h
  split at h
  · cases h
  · next Rl hr =>
    simp only [Option.some.injEq] at h
    subst h
    exact ⟨fun _ => congr_cert_sound ((congrSimFunctor_inv hdis hR).2 Rl hr), fun _ => rfl⟩
  · next w hr =>
    simp only [Option.some.injEq] at h
    subst h
    obtain ⟨h1, h2⟩ := (congrSimFunctor_inv hdis hR).1 w hr
    constructor
    · intro h; cases h
    · intro hi
      have := hi w h1
      rw [h2] at this; cases this

/-- … and total above the bound (any relation, any operands) -/
theorem nfaInclCongrSimRaw_total (A B : NFA) (R : Rel) {fuel : Nat} (hf : fuelBoundCongr A B < fuel) :
    ∃ b, nfaInclCongrSimRaw A B R fuel = some b := by
  obtain ⟨r, hr⟩ := congrSimFunctor_terminates (R := R) hf
  unfold nfaInclCongrSimRaw
  rw [hr]
  cases r <;> exact ⟨_, rfl⟩

theorem CongrCert.congr {A B : NFA} {T T' : List CRule} (h : CongrCert A B T) (he : ∀ p, p ∈ T ↔ p ∈ T') :
    CongrCert A B T' :=
  ⟨h.1, h.2.1.mono (fun p hp => (he p).mp hp),
    fun p hp => ⟨(h.2.2 p ((he p).mpr hp)).1, fun a => ((h.2.2 p ((he p).mpr hp)).2 a).mono (fun p hp => (he p).mp hp)⟩⟩

/-- the final check of the certify-then-trust model never fails under the hypotheses: the checked model is total -/
theorem nfaInclCongrSim_total {A B : NFA} {R : Rel} (hdis : ∀ q, q ∈ nfaStates A → q ∈ nfaStates B → False)
    (hR : NfaSim (nfaUnionDisjoint A B) R) {fuel : Nat} (hf : fuelBoundCongr A B < fuel) :
    ∃ b, nfaInclCongrSim A B R fuel = some b := by
  obtain ⟨r, hr⟩ := congrSimFunctor_terminates (R := R) hf
  unfold nfaInclCongrSim
  rw [hr]
  cases r with
  | ok Rl =>
    have hc := (congrSimFunctor_inv hdis hR).2 Rl hr
    have hc' : CongrCert A B (rulesOf Rl ++ simRules R) :=
      hc.congr (fun p => by simp only [List.mem_append]; exact Or.comm)
    simp only
    rw [if_pos (congrCertB_complete hc')]
    exact ⟨_, rfl⟩
  | error w =>
    obtain ⟨h1, h2⟩ := (congrSimFunctor_inv hdis hR).1 w hr
    simp only
    rw [h1, h2]
    exact ⟨_, rfl⟩

end Vata
