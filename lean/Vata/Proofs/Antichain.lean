import Vata.Antichain
/-!
# Theorems about the antichain containers (`Vata/Antichain.lean`)

* this file: `Antichain1C` (`One`) and `SequentialAntichain1C` (`Seq`);
* `Vata/Proofs/AntichainTwo.lean`: `Antichain2Cv2` (`Two`) – members through `listOf`, the eraser callback, the
  combination `if !contains then refine; insert` (antichain invariant, represented closure), histories;
* `Vata/Proofs/AntichainOrd.lean`: `OrderedAntichain2C` (`Ord`) – the ordered set, `get` returns a least element,
  the work-list loop, "no dangling iterator" for any history;
* `Vata/Properties/Util_Antichain.lean`: summary (`Util_Antichain_…`), the instantiation of the correspondence check.
-/
namespace Vata.AC

/-! ## `Antichain1C` -/
namespace One
variable {κ : Type} [DecidableEq κ]

/-- `contains`: one of the candidates is stored -/
theorem contains_iff (d cands : List κ) : contains d cands = true ↔ ∃ p, p ∈ cands ∧ p ∈ d := by
  simp [contains, List.any_eq_true]

theorem nodup_refine {d : List κ} (cands : List κ) (hd : d.Nodup) : (refine d cands).Nodup := by
  induction cands generalizing d with
  | nil => simpa [refine] using hd
  | cons p c ih =>
    have : refine d (p :: c) = refine (d.erase p) c := by simp [refine]
    rw [this]; exact ih (hd.erase p)

/-- `refine` removes exactly the stored candidates -/
theorem mem_refine {d : List κ} (cands : List κ) (hd : d.Nodup) (x : κ) :
    x ∈ refine d cands ↔ x ∈ d ∧ x ∉ cands := by
  induction cands generalizing d with
  | nil => simp [refine]
  | cons p c ih =>
    have : refine d (p :: c) = refine (d.erase p) c := by simp [refine]
    rw [this, ih (hd.erase p), hd.mem_erase_iff]
    simp only [List.mem_cons, not_or]
    constructor
    · rintro ⟨⟨h1, h2⟩, h3⟩; exact ⟨h2, h1, h3⟩
    · rintro ⟨h2, h1, h3⟩; exact ⟨⟨h1, h2⟩, h3⟩

theorem mem_insert (d : List κ) (q x : κ) : x ∈ insert d q ↔ x ∈ d ∨ x = q := by
  unfold insert
  by_cases h : q ∈ d
  · simp only [h, if_true]
    constructor
    · exact Or.inl
    · rintro (h1 | h1)
      · exact h1
      · exact h1 ▸ h
  · simp [h]

theorem nodup_insert {d : List κ} (q : κ) (hd : d.Nodup) : (insert d q).Nodup := by
  unfold insert
  by_cases h : q ∈ d
  · simpa [h] using hd
  · simp only [h, if_false]
    rw [List.nodup_append]
    refine ⟨hd, by simp, ?_⟩
    intro a ha b hb
    simp only [List.mem_singleton] at hb
    subst hb
    intro hab; subst hab; exact h ha

/-- `next`: fails exactly on what is not stored; otherwise the picked element – and nothing else – goes -/
theorem next_spec {d d' : List κ} {pick : κ} (hd : d.Nodup) (h : next d pick = some d') :
    pick ∈ d ∧ d'.Nodup ∧ ∀ x, x ∈ d' ↔ x ∈ d ∧ x ≠ pick := by
  unfold next at h
  by_cases hp : pick ∈ d
  · simp only [hp, if_true, Option.some.injEq] at h
    subst h
    refine ⟨hp, hd.erase _, fun x => ?_⟩
    rw [hd.mem_erase_iff]; exact ⟨fun h => ⟨h.2, h.1⟩, fun h => ⟨h.2, h.1⟩⟩
  · simp [hp] at h

theorem next_none_iff (d : List κ) (pick : κ) : next d pick = none ↔ pick ∉ d := by
  unfold next; by_cases hp : pick ∈ d <;> simp [hp]

/-! ### the combination used by the algorithms: antichain invariant and represented closure -/

/-- no two different stored keys are related (`kle a b`: "a ≤ b") -/
def Anti (kle : κ → κ → Bool) (d : List κ) : Prop := ∀ a b, a ∈ d → b ∈ d → a ≠ b → kle a b = false

/-- the downward closure the container stands for -/
def Rep (kle : κ → κ → Bool) (d : List κ) (x : κ) : Prop := ∃ p, p ∈ d ∧ kle x p = true

/-- the candidate lists handed to `contains` / `refine` are right ON THE STORED KEYS: `up` lists the stored keys above
`q`, `down` those below (`ind[q]`, `inv[q]` of the tree algorithm; the filtered `singleAntichain_` of the word algorithm) -/
def CandOk (kle : κ → κ → Bool) (d up down : List κ) (q : κ) : Prop :=
  ∀ p, p ∈ d → ((p ∈ up ↔ kle q p = true) ∧ (p ∈ down ↔ kle p q = true))

theorem mem_offer {d up down : List κ} {q : κ} (hd : d.Nodup) (x : κ) :
    x ∈ offer d up down q ↔
      if contains d up then x ∈ d else (x ∈ d ∧ x ∉ down) ∨ x = q := by
  unfold offer
  by_cases hc : contains d up = true
  · simp [hc]
  · simp only [hc, if_false, Bool.false_eq_true]
    rw [mem_insert, mem_refine _ hd]

theorem nodup_offer {d : List κ} (up down : List κ) (q : κ) (hd : d.Nodup) : (offer d up down q).Nodup := by
  unfold offer
  by_cases hc : contains d up = true
  · simpa [hc] using hd
  · simp only [hc, if_false, Bool.false_eq_true]
    exact nodup_insert _ (nodup_refine _ hd)

/-- the antichain invariant is kept; needs only that the candidate lists are right (no reflexivity, no transitivity) -/
theorem offer_anti {kle : κ → κ → Bool} {d up down : List κ} {q : κ} (hd : d.Nodup)
    (hc : CandOk kle d up down q) (ha : Anti kle d) : Anti kle (offer d up down q) := by
  intro a b ha' hb' hab
  rw [mem_offer hd] at ha' hb'
  by_cases hcon : contains d up = true
  · simp only [hcon, if_true] at ha' hb'
    exact ha a b ha' hb' hab
  · simp only [hcon, if_false, Bool.false_eq_true] at ha' hb'
    have hno : ∀ p, p ∈ d → kle q p = false := by
      intro p hp
      cases hk : kle q p with
      | false => rfl
      | true =>
        exfalso; apply hcon
        rw [contains_iff]; exact ⟨p, ((hc p hp).1).2 hk, hp⟩
    rcases ha' with ⟨ha1, ha2⟩ | ha1 <;> rcases hb' with ⟨hb1, hb2⟩ | hb1
    · exact ha a b ha1 hb1 hab
    · subst hb1
      cases hk : kle a b with
      | false => rfl
      | true => exact absurd (((hc a ha1).2).2 hk) ha2
    · subst ha1; exact hno b hb1
    · subst ha1; subst hb1; exact absurd rfl hab

/-- the represented downward closure grows by exactly the cone of the offered key; needs transitivity (and that the
candidates are sound) -/
theorem offer_rep {kle : κ → κ → Bool} {d up down : List κ} {q : κ} (hd : d.Nodup)
    (htr : ∀ a b c, kle a b = true → kle b c = true → kle a c = true)
    (hc : CandOk kle d up down q) (x : κ) :
    Rep kle (offer d up down q) x ↔ Rep kle d x ∨ kle x q = true := by
  unfold Rep
  by_cases hcon : contains d up = true
  · have : offer d up down q = d := by simp [offer, hcon]
    rw [this]
    constructor
    · exact Or.inl
    · rintro (h | h)
      · exact h
      · obtain ⟨p, hp1, hp2⟩ := (contains_iff _ _).1 hcon
        exact ⟨p, hp2, htr _ _ _ h (((hc p hp2).1).1 hp1)⟩
  · constructor
    · rintro ⟨p, hp, hk⟩
      rw [mem_offer hd] at hp
      simp only [hcon, if_false, Bool.false_eq_true] at hp
      rcases hp with ⟨hp1, _⟩ | hp1
      · exact Or.inl ⟨p, hp1, hk⟩
      · subst hp1; exact Or.inr hk
    · rintro (⟨p, hp, hk⟩ | h)
      · by_cases hpd : p ∈ down
        · refine ⟨q, ?_, htr _ _ _ hk (((hc p hp).2).1 hpd)⟩
          rw [mem_offer hd]; simp [hcon]
        · refine ⟨p, ?_, hk⟩
          rw [mem_offer hd]; simp only [hcon, if_false, Bool.false_eq_true]; exact Or.inl ⟨hp, hpd⟩
      · refine ⟨q, ?_, h⟩
        rw [mem_offer hd]; simp [hcon]

/-- with a reflexive order the offered key is itself represented afterwards -/
theorem offer_rep_self {kle : κ → κ → Bool} {d up down : List κ} {q : κ} (hd : d.Nodup)
    (hrf : ∀ a, kle a a = true) (htr : ∀ a b c, kle a b = true → kle b c = true → kle a c = true)
    (hc : CandOk kle d up down q) : Rep kle (offer d up down q) q :=
  (offer_rep hd htr hc q).2 (Or.inr (hrf q))

/-- a history of offers with the index tables `up q = {p | q ≤ p}`, `down q = {p | p ≤ q}` -/
def runOffers (up down : κ → List κ) (d : List κ) (qs : List κ) : List κ :=
  qs.foldl (fun d q => offer d (up q) (down q) q) d

/-- history theorem: after any sequence of offers (from a duplicate-free antichain) the container is duplicate-free, an
antichain, and stands for the old closure plus the cones of everything that was ever offered -/
theorem runOffers_spec {kle : κ → κ → Bool} {up down : κ → List κ}
    (htr : ∀ a b c, kle a b = true → kle b c = true → kle a c = true)
    (hup : ∀ q p, p ∈ up q ↔ kle q p = true) (hdown : ∀ q p, p ∈ down q ↔ kle p q = true)
    (qs : List κ) {d : List κ} (hd : d.Nodup) (ha : Anti kle d) :
    (runOffers up down d qs).Nodup ∧ Anti kle (runOffers up down d qs) ∧
      ∀ x, Rep kle (runOffers up down d qs) x ↔ Rep kle d x ∨ ∃ q, q ∈ qs ∧ kle x q = true := by
  induction qs generalizing d with
  | nil => simp [runOffers, hd, ha]
  | cons q qs ih =>
    have hc : CandOk kle d (up q) (down q) q := fun p _ => ⟨hup q p, hdown q p⟩
    have h1 := nodup_offer (up q) (down q) q hd
    have h2 := offer_anti hd hc ha
    obtain ⟨i1, i2, i3⟩ := ih h1 h2
    have : runOffers up down d (q :: qs) = runOffers up down (offer d (up q) (down q) q) qs := by simp [runOffers]
    rw [this]
    refine ⟨i1, i2, fun x => ?_⟩
    rw [i3, offer_rep hd htr hc]
    simp only [List.mem_cons]
    constructor
    · rintro ((h | h) | ⟨q', h, h'⟩)
      · exact Or.inl h
      · exact Or.inr ⟨q, Or.inl rfl, h⟩
      · exact Or.inr ⟨q', Or.inr h, h'⟩
    · rintro (h | ⟨q', h | h, h'⟩)
      · exact Or.inl (Or.inl h)
      · subst h; exact Or.inl (Or.inr h')
      · exact Or.inr ⟨q', h, h'⟩

/-- from the empty container -/
theorem runOffers_empty {kle : κ → κ → Bool} {up down : κ → List κ}
    (htr : ∀ a b c, kle a b = true → kle b c = true → kle a c = true)
    (hup : ∀ q p, p ∈ up q ↔ kle q p = true) (hdown : ∀ q p, p ∈ down q ↔ kle p q = true) (qs : List κ) :
    (runOffers up down [] qs).Nodup ∧ Anti kle (runOffers up down [] qs) ∧
      ∀ x, Rep kle (runOffers up down [] qs) x ↔ ∃ q, q ∈ qs ∧ kle x q = true := by
  obtain ⟨h1, h2, h3⟩ := runOffers_spec htr hup hdown qs (d := []) List.nodup_nil (by intro a b h; simp at h)
  refine ⟨h1, h2, fun x => ?_⟩
  rw [h3]; simp [Rep]

/-- transitivity is needed for the closure: with `0 ≤ 1 ≤ 2` but not `0 ≤ 2`, offering 1 and then 2 forgets 0 -/
example :
    let kle : Nat → Nat → Bool := fun a b => a == b || (a, b) == (0, 1) || (a, b) == (1, 2)
    let up : Nat → List Nat := fun q => [0, 1, 2].filter (fun p => kle q p)
    let down : Nat → List Nat := fun q => [0, 1, 2].filter (fun p => kle p q)
    runOffers up down [] [1, 2] = [2] ∧ kle 0 1 = true ∧ kle 0 2 = false := by decide

/-! ### any history on a pool: the sets stay duplicate-free -/
theorem step_nodup (P : Pool κ) (op : Op κ) (h : ∀ d, d ∈ P → d.Nodup) : ∀ d, d ∈ (step P op).1 → d.Nodup := by
  have hobj : ∀ o, (obj P o).Nodup := by
    intro o
    unfold obj
    rw [List.getD_eq_getElem?_getD]
    cases ho : P[o]? with
    | none => simp
    | some d => simpa using h d (List.mem_of_getElem? ho)
  have hset : ∀ o (d' : List κ), d'.Nodup → ∀ d, d ∈ P.set o d' → d.Nodup := by
    intro o d' hd' d hd
    rcases List.mem_or_eq_of_mem_set hd with h1 | h1
    · exact h d h1
    · exact h1 ▸ hd'
  cases op with
  | contains o c => exact h
  | refine o c => exact hset o _ (nodup_refine _ (hobj o))
  | insert o q => exact hset o _ (nodup_insert _ (hobj o))
  | next o pick =>
    cases pick with
    | none => exact h
    | some k =>
      simp only [step]
      cases hn : next (obj P o) k with
      | none => exact h
      | some d' => exact hset o _ (next_spec (hobj o) hn).2.1
  | clear o => exact hset o _ List.nodup_nil
  | offer o up down q => exact hset o _ (nodup_offer _ _ _ (hobj o))

theorem run_nodup (ops : List (Op κ)) (P : Pool κ) (h : ∀ d, d ∈ P → d.Nodup) : ∀ d, d ∈ run P ops → d.Nodup := by
  induction ops generalizing P with
  | nil => simpa [run] using h
  | cons op ops ih =>
    have : run P (op :: ops) = run (step P op).1 ops := by simp [run]
    rw [this]; exact ih _ (step_nodup P op h)

end One

/-! ## `SequentialAntichain1C` -/
namespace Seq
variable {α : Type}

/-- what is left when the loop runs to its end: exactly the elements the new key does not dominate (no assumption) -/
theorem scan_some {cmp : α → α → Bool} {key : α} {d l : List α} (h : scan cmp key d = some l) :
    l = d.filter (fun y => !cmp y key) := by
  induction d generalizing l with
  | nil => simp [scan] at h; simp [h]
  | cons x xs ih =>
    unfold scan at h
    by_cases h1 : cmp key x = true
    · simp [h1] at h
    · simp only [h1, if_false, Bool.false_eq_true] at h
      by_cases h2 : cmp x key = true
      · simp only [h2, Bool.not_true, if_false, Bool.false_eq_true, Option.some.injEq] at h
        simp [List.filter, h2, ← h]
      · simp only [h2, Bool.not_false, if_true] at h
        cases hs : scan cmp key xs with
        | none => simp [hs] at h
        | some l' =>
          simp only [hs, Option.map_some, Option.some.injEq] at h
          have h2' : cmp x key = false := by simpa using h2
          simp [List.filter, h2', ← h, ih hs]

/-- `return false` happens only when the key is covered by a stored element (no assumption) -/
theorem scan_none {cmp : α → α → Bool} {key : α} {d : List α} (h : scan cmp key d = none) :
    ∃ x, x ∈ d ∧ cmp key x = true := by
  induction d with
  | nil => simp [scan] at h
  | cons x xs ih =>
    unfold scan at h
    by_cases h1 : cmp key x = true
    · exact ⟨x, by simp, h1⟩
    · simp only [h1, if_false, Bool.false_eq_true] at h
      by_cases h2 : cmp x key = true
      · simp [h2] at h
      · simp only [h2, Bool.not_false, if_true] at h
        cases hs : scan cmp key xs with
        | none => obtain ⟨y, hy, hc⟩ := ih hs; exact ⟨y, by simp [hy], hc⟩
        | some l' => simp [hs] at h

/-- pairwise incomparable, in list order -/
def Anti (cmp : α → α → Bool) (d : List α) : Prop := d.Pairwise (fun a b => cmp a b = false ∧ cmp b a = false)

/-- for a transitive comparator on an antichain the loop is right: a covered key is always refused -/
theorem scan_none_iff {cmp : α → α → Bool} {key : α} {d : List α}
    (htr : ∀ a b c, cmp a b = true → cmp b c = true → cmp a c = true) (ha : Anti cmp d) :
    scan cmp key d = none ↔ ∃ x, x ∈ d ∧ cmp key x = true := by
  refine ⟨scan_none, ?_⟩
  induction d with
  | nil => simp
  | cons x xs ih =>
    rintro ⟨y, hy, hc⟩
    unfold scan
    by_cases h1 : cmp key x = true
    · simp [h1]
    · simp only [h1, if_false, Bool.false_eq_true]
      have ha' := List.pairwise_cons.1 ha
      rcases List.mem_cons.1 hy with hyx | hyx
      · subst hyx; exact absurd hc h1
      · by_cases h2 : cmp x key = true
        · have := htr _ _ _ h2 hc
          rw [(ha'.1 y hyx).1] at this; exact absurd this (by simp)
        · simp only [h2, Bool.not_false, if_true]
          rw [ih ha'.2 ⟨y, hyx, hc⟩]; rfl

/-- the stored elements a key is compared with stand for: everything below one of them -/
def Rep (cmp : α → α → Bool) (d : List α) (x : α) : Prop := ∃ y, y ∈ d ∧ cmp x y = true

theorem insert_false {cmp : α → α → Bool} {key : α} {d : List α} (h : (insert cmp d key).1 = false) :
    (insert cmp d key).2 = d ∧ ∃ x, x ∈ d ∧ cmp key x = true := by
  unfold insert at h ⊢
  cases hs : scan cmp key d with
  | none => exact ⟨rfl, scan_none hs⟩
  | some l => simp [hs] at h

theorem insert_true {cmp : α → α → Bool} {key : α} {d : List α} (h : (insert cmp d key).1 = true) :
    (insert cmp d key).2 = d.filter (fun y => !cmp y key) ++ [key] := by
  unfold insert at h ⊢
  cases hs : scan cmp key d with
  | none => simp [hs] at h
  | some l => simp [scan_some hs]

/-- `insert` keeps the antichain (transitive comparator) -/
theorem insert_anti {cmp : α → α → Bool} {key : α} {d : List α}
    (htr : ∀ a b c, cmp a b = true → cmp b c = true → cmp a c = true) (ha : Anti cmp d) :
    Anti cmp (insert cmp d key).2 := by
  cases hb : (insert cmp d key).1 with
  | false => rw [(insert_false hb).1]; exact ha
  | true =>
    rw [insert_true hb]
    unfold Anti
    rw [List.pairwise_append]
    refine ⟨ha.sublist List.filter_sublist, by simp, ?_⟩
    intro a haf b hbk
    simp only [List.mem_singleton] at hbk
    subst hbk
    rw [List.mem_filter] at haf
    refine ⟨by simpa using haf.2, ?_⟩
    cases hk : cmp b a with
    | false => rfl
    | true =>
      have hn := (scan_none_iff (key := b) htr ha).2 ⟨a, haf.1, hk⟩
      unfold insert at hb
      simp [hn] at hb

/-- the represented closure grows by exactly the cone of the key (transitive comparator; the antichain invariant is
not needed here) -/
theorem insert_rep {cmp : α → α → Bool} {key : α} {d : List α}
    (htr : ∀ a b c, cmp a b = true → cmp b c = true → cmp a c = true) (x : α) :
    Rep cmp (insert cmp d key).2 x ↔ Rep cmp d x ∨ cmp x key = true := by
  unfold Rep
  cases hb : (insert cmp d key).1 with
  | false =>
    obtain ⟨h1, y, hy, hc⟩ := insert_false hb
    rw [h1]
    constructor
    · exact Or.inl
    · rintro (h | h)
      · exact h
      · exact ⟨y, hy, htr _ _ _ h hc⟩
  | true =>
    rw [insert_true hb]
    constructor
    · rintro ⟨y, hy, hc⟩
      rcases List.mem_append.1 hy with h | h
      · exact Or.inl ⟨y, (List.mem_filter.1 h).1, hc⟩
      · simp only [List.mem_singleton] at h; subst h; exact Or.inr hc
    · rintro (⟨y, hy, hc⟩ | h)
      · by_cases hyk : cmp y key = true
        · exact ⟨key, by simp, htr _ _ _ hc hyk⟩
        · exact ⟨y, List.mem_append.2 (Or.inl (List.mem_filter.2 ⟨hy, by simpa using hyk⟩)), hc⟩
      · exact ⟨key, by simp, h⟩

/-- history theorem: after any sequence of inserts the list is an antichain standing for the cones of all keys given -/
theorem run_spec {cmp : α → α → Bool} (htr : ∀ a b c, cmp a b = true → cmp b c = true → cmp a c = true)
    (ks : List α) {d : List α} (ha : Anti cmp d) :
    Anti cmp (run cmp d ks) ∧ ∀ x, Rep cmp (run cmp d ks) x ↔ Rep cmp d x ∨ ∃ k, k ∈ ks ∧ cmp x k = true := by
  induction ks generalizing d with
  | nil => simp [run, ha]
  | cons k ks ih =>
    have : run cmp d (k :: ks) = run cmp (insert cmp d k).2 ks := by simp [run]
    rw [this]
    obtain ⟨i1, i2⟩ := ih (insert_anti (key := k) htr ha)
    refine ⟨i1, fun x => ?_⟩
    rw [i2, insert_rep htr]
    simp only [List.mem_cons]
    constructor
    · rintro ((h | h) | ⟨q', h, h'⟩)
      · exact Or.inl h
      · exact Or.inr ⟨k, Or.inl rfl, h⟩
      · exact Or.inr ⟨q', Or.inr h, h'⟩
    · rintro (h | ⟨q', h | h, h'⟩)
      · exact Or.inl (Or.inl h)
      · subst h; exact Or.inl (Or.inr h')
      · exact Or.inr ⟨q', h, h'⟩

/-- non-vacuity: numbers under divisibility (both directions): 2, 3, then 6, then 3 again -/
example : run (fun a b : Nat => b % a == 0) [] [2, 3, 6, 3] = [6] := by decide
example : run (fun a b : Nat => a % b == 0) [] [2, 3, 6, 3] = [2, 3] := by decide

/-- transitivity is needed: with `0 ≤ 2`, `2 ≤ 1` but not `0 ≤ 1`, inserting 2 into the antichain `[0, 1]` erases 0,
never compares 2 with 1, and leaves the comparable pair `[1, 2]` -/
example :
    let cmp : Nat → Nat → Bool := fun a b => (a, b) == (0, 2) || (a, b) == (2, 1)
    insert cmp [0, 1] 2 = (true, [1, 2]) ∧ cmp 2 1 = true ∧ cmp 0 1 = false ∧ cmp 1 0 = false := by decide

end Seq

end Vata.AC
