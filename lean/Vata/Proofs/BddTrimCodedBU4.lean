import Vata.Proofs.BddTrimCodedBU3
/-!
# The bottom-up `RemoveUselessStates` as coded, 3: the traversal; the theorems (property C08)

The stack traversal from the nodes of the final states along `GetEgress`, with the erasing of the egress edges of the
ingress nodes as coded: the erased edges all point to a node whose state is already `useful`, so nothing is lost
(`TInv.eg_sup`).  At the end `useful` = `tdReach (restrict (skelBU T F) (prodStates (skelBU T F)))`
(`bu_useless_coded_useful`), hence `bu_useless_coded_spec`, `bu_useless_coded_lang`, `bu_useless_coded_noUseless`.
The `assert(false)` of `nodes.FindFwd(outNode)` is unreachable (every end of an edge has an entry in `nodes`); the
`assert(false)` of `GetEgress(inNode).erase(node) != 1` is not modelled (the erase of a missing edge is a no-op here; the
results do not depend on the ingress sets at all).
-/
namespace Vata
namespace BddTrimCoded
open M BddAbs BddAbsTD

/-! ### erasing -/

theorem mem_egr_eraseEgr {G : Graph} {i x n m : Nat} :
    m ∈ (G.eraseEgr i x).egr n ↔ m ∈ G.egr n ∧ ¬ (n = i ∧ m = x) := by
  unfold Graph.eraseEgr
  simp only
  split
  · next h => simp [List.mem_filter, h]
  · next h => simp [h]

theorem eraseIn_fold (node : Nat) : ∀ (L : List Nat) (G : Graph),
    (∀ n m, m ∈ (L.foldl (fun G i => G.eraseEgr i node) G).egr n → m ∈ G.egr n) ∧
    (∀ n m, m ∈ G.egr n → m ∈ (L.foldl (fun G i => G.eraseEgr i node) G).egr n ∨ m = node)
  | [], G => ⟨fun _ _ => id, fun _ _ => Or.inl⟩
  | i :: L, G => by
    obtain ⟨h1, h2⟩ := eraseIn_fold node L (G.eraseEgr i node)
    simp only [List.foldl_cons]
    refine ⟨fun n m hm => (mem_egr_eraseEgr.mp (h1 n m hm)).1, fun n m hm => ?_⟩
    by_cases hx : m = node
    · exact Or.inr hx
    · exact h2 n m (mem_egr_eraseEgr.mpr ⟨hm, fun h => hx h.2⟩)

theorem eraseIn_spec (G : Graph) (node : Nat) :
    (∀ n m, m ∈ (eraseIn G node).egr n → m ∈ G.egr n) ∧ (∀ n m, m ∈ G.egr n → m ∈ (eraseIn G node).egr n ∨ m = node) :=
  eraseIn_fold node _ G

/-! ### the loop over the egress edges -/

theorem outStep_fold (d : List (Nat × Nat)) (funN : ∀ n q q', (n, q) ∈ d → (n, q') ∈ d → q = q') :
    ∀ (L : List Nat) (s : List Nat × List Nat), (∀ m, m ∈ L → ∃ k, (m, k) ∈ d) →
    (∀ q, q ∈ s.2 → q ∈ (L.foldl (outStep d) s).2) ∧ (∀ n, n ∈ s.1 → n ∈ (L.foldl (outStep d) s).1) ∧
    (∀ q, q ∈ (L.foldl (outStep d) s).2 → q ∈ s.2 ∨ ∃ m, m ∈ L ∧ (m, q) ∈ d ∧ m ∈ (L.foldl (outStep d) s).1) ∧
    (∀ m, m ∈ L → ∀ k, (m, k) ∈ d → k ∈ (L.foldl (outStep d) s).2) ∧
    (∀ n, n ∈ (L.foldl (outStep d) s).1 → n ∈ s.1 ∨ ∃ q, (n, q) ∈ d ∧ q ∈ (L.foldl (outStep d) s).2)
  | [], s, _ => ⟨fun _ => id, fun _ => id, fun _ => Or.inl, fun _ h => (nomatch h), fun _ => Or.inl⟩
  | m :: L, s, hL => by
    obtain ⟨k, hk⟩ := hL m List.mem_cons_self
    obtain ⟨i1, i2, i3, i4, i5⟩ := outStep_fold d funN L (outStep d s m) (fun m' hm' => hL m' (List.mem_cons_of_mem _ hm'))
    -- one step
    have hf : findFwd d m = some k := by
      cases hf : findFwd d m with
      | none => exact absurd hk (findFwd_none hf k)
      | some k' => rw [funN m k k' hk (findFwd_some hf)]
    have st : (∀ q, q ∈ s.2 → q ∈ (outStep d s m).2) ∧ (∀ n, n ∈ s.1 → n ∈ (outStep d s m).1) ∧
        (∀ q, q ∈ (outStep d s m).2 → q ∈ s.2 ∨ (q = k ∧ m ∈ (outStep d s m).1)) ∧ k ∈ (outStep d s m).2 ∧
        (∀ n, n ∈ (outStep d s m).1 → n ∈ s.1 ∨ (n = m)) := by
      unfold outStep
      rw [hf]
      simp only
      split
      · next h => exact ⟨fun _ => id, fun _ => id, fun _ => Or.inl, by simpa using h, fun _ => Or.inl⟩
      · refine ⟨fun q hq => List.mem_append.mpr (Or.inl hq), fun n hn => List.mem_cons_of_mem _ hn, fun q hq => ?_,
          by simp, fun n hn => ?_⟩
        · rcases List.mem_append.mp hq with h | h
          · exact Or.inl h
          · exact Or.inr ⟨List.mem_singleton.mp h, List.mem_cons_self⟩
        · rcases List.mem_cons.mp hn with h | h
          · exact Or.inr h
          · exact Or.inl h
    obtain ⟨s1, s2, s3, s4, s5⟩ := st
    simp only [List.foldl_cons]
    refine ⟨fun q hq => i1 q (s1 q hq), fun n hn => i2 n (s2 n hn), fun q hq => ?_, fun m' hm' k' hk' => ?_, fun n hn => ?_⟩
    · rcases i3 q hq with h | ⟨m', h1, h2, h3⟩
      · rcases s3 q h with h | ⟨h1, h2⟩
        · exact Or.inl h
        · exact Or.inr ⟨m, List.mem_cons_self, h1 ▸ hk, i2 m h2⟩
      · exact Or.inr ⟨m', List.mem_cons_of_mem _ h1, h2, h3⟩
    · rcases List.mem_cons.mp hm' with rfl | hm'
      · rw [funN _ k' k hk' hk]; exact i1 k s4
      · exact i4 m' hm' k' hk'
    · rcases i5 n hn with h | h
      · rcases s5 n h with h | h
        · exact Or.inl h
        · exact Or.inr ⟨k, h ▸ hk, i1 k s4⟩
      · exact Or.inr h

/-! ### the traversal -/

structure TInv (T : Table) (F : List Nat) (G0 : Graph) (d : List (Nat × Nat)) (reach : List Nat) (tr : TrSt) : Prop where
  usound : ∀ q, q ∈ tr.useful → TdReachable (restrict (skelBU T F) (prodStates (skelBU T F))) q
  stk : ∀ n, n ∈ tr.stack → ∃ q, (n, q) ∈ d ∧ q ∈ tr.useful
  pend : ∀ q, q ∈ tr.useful → ∀ n, (n, q) ∈ d →
    n ∈ tr.stack ∨ ∀ m, m ∈ G0.egr n → ∀ k, (m, k) ∈ d → k ∈ tr.useful
  eg_sub : ∀ n m, m ∈ tr.graph.egr n → m ∈ G0.egr n
  eg_sup : ∀ n m, m ∈ G0.egr n → m ∈ tr.graph.egr n ∨ ∃ k, (m, k) ∈ d ∧ k ∈ tr.useful
  seed : ∀ f, f ∈ F → f ∈ reach → f ∈ tr.useful

theorem tInv_step {T : Table} {F : List Nat} {G0 : Graph} {d : List (Nat × Nat)} {reach : List Nat}
    (hG : GInv (EdgeS T F) reach G0 d) {node : Nat} {stk u : List Nat} {G : Graph}
    (h : TInv T F G0 d reach ⟨node :: stk, u, G⟩) :
    TInv T F G0 d reach ⟨(((eraseIn G node).egr node).foldl (outStep d) (stk, u)).1,
      (((eraseIn G node).egr node).foldl (outStep d) (stk, u)).2, eraseIn G node⟩ := by
  obtain ⟨q0, hq0d, hq0u⟩ := h.stk node List.mem_cons_self
  obtain ⟨e1, e2⟩ := eraseIn_spec G node
  have hL : ∀ m, m ∈ (eraseIn G node).egr node → ∃ k, (m, k) ∈ d := by
    intro m hm
    obtain ⟨p, k, _, h2, _⟩ := hG.sound node m (h.eg_sub node m (e1 node m hm))
    exact ⟨k, h2⟩
  obtain ⟨o1, o2, o3, o4, o5⟩ := outStep_fold d hG.funN ((eraseIn G node).egr node) (stk, u) hL
  refine ⟨fun q hq => ?_, fun n hn => ?_, fun q hq n hn => ?_, fun n m hm => h.eg_sub n m (e1 n m hm), fun n m hm => ?_,
    fun f hf hr => o1 f (h.seed f hf hr)⟩
  · rcases o3 q hq with h' | ⟨m, h1, h2, _⟩
    · exact h.usound q h'
    · obtain ⟨p, k, g1, g2, r, hr, hp, hk⟩ := hG.sound node m (h.eg_sub node m (e1 node m h1))
      have ep : p = q0 := hG.funN node p q0 g1 hq0d
      have ek : k = q := hG.funN m k q g2 h2
      subst ep ek
      exact TdReachable.step hr (by rw [hp]; exact h.usound p hq0u) hk
  · rcases o5 n hn with h' | h'
    · obtain ⟨q, h1, h2⟩ := h.stk n (List.mem_cons_of_mem _ h')
      exact ⟨q, h1, o1 q h2⟩
    · exact h'
  · rcases o3 q hq with h' | ⟨m, _, h2, h3⟩
    · rcases h.pend q h' n hn with h'' | h''
      · rcases List.mem_cons.mp h'' with rfl | h''
        · refine Or.inr (fun m hm k hk => ?_)
          rcases h.eg_sup n m hm with g | ⟨k', g1, g2⟩
          · rcases e2 n m g with g | rfl
            · exact o4 m g k hk
            · rw [hG.funN m k q0 hk hq0d]; exact o1 q0 hq0u
          · rw [hG.funN m k k' hk g1]; exact o1 k' g2
        · exact Or.inl (o2 n h'')
      · exact Or.inr (fun m hm k hk => o1 k (h'' m hm k hk))
    · rw [hG.funS n m q hn h2]; exact Or.inl h3
  · rcases h.eg_sup n m hm with g | ⟨k, g1, g2⟩
    · rcases e2 n m g with g | rfl
      · exact Or.inl g
      · exact Or.inr ⟨q0, hq0d, o1 q0 hq0u⟩
    · exact Or.inr ⟨k, g1, o1 k g2⟩

theorem traverse_inv {T : Table} {F : List Nat} {G0 : Graph} {d : List (Nat × Nat)} {reach : List Nat}
    (hG : GInv (EdgeS T F) reach G0 d) : ∀ (fuel : Nat) (tr tr' : TrSt), TInv T F G0 d reach tr →
    traverse d fuel tr = some tr' → TInv T F G0 d reach tr' ∧ tr'.stack = []
  | fuel, ⟨[], u, G⟩, tr', h, e => by
    have : traverse d fuel ⟨[], u, G⟩ = some ⟨[], u, G⟩ := by cases fuel <;> simp [traverse]
    rw [this] at e
    cases e
    exact ⟨h, rfl⟩
  | 0, ⟨_ :: _, u, G⟩, tr', _, e => by simp [traverse] at e
  | fuel + 1, ⟨node :: stk, u, G⟩, tr', h, e => by
    simp only [traverse] at e
    exact traverse_inv hG fuel _ tr' (tInv_step hG h) e

/-! ### the seeding -/

theorem seed_fold (d : List (Nat × Nat)) : ∀ (Fl : List Nat) (s : List Nat × List Nat),
    (∀ q, q ∈ s.2 → q ∈ (Fl.foldl (seedStep d) s).2) ∧ (∀ n, n ∈ s.1 → n ∈ (Fl.foldl (seedStep d) s).1) ∧
    (∀ q, q ∈ (Fl.foldl (seedStep d) s).2 → q ∈ s.2 ∨ (q ∈ Fl ∧ ∃ n, (n, q) ∈ d ∧ n ∈ (Fl.foldl (seedStep d) s).1)) ∧
    (∀ n, n ∈ (Fl.foldl (seedStep d) s).1 → n ∈ s.1 ∨ ∃ q, (n, q) ∈ d ∧ q ∈ (Fl.foldl (seedStep d) s).2) ∧
    (∀ f, f ∈ Fl → (∃ n, (n, f) ∈ d) → f ∈ (Fl.foldl (seedStep d) s).2)
  | [], s => ⟨fun _ => id, fun _ => id, fun _ => Or.inl, fun _ => Or.inl, fun _ h => nomatch h⟩
  | f :: Fl, s => by
    obtain ⟨i1, i2, i3, i4, i5⟩ := seed_fold d Fl (seedStep d s f)
    have st : (∀ q, q ∈ s.2 → q ∈ (seedStep d s f).2) ∧ (∀ n, n ∈ s.1 → n ∈ (seedStep d s f).1) ∧
        (∀ q, q ∈ (seedStep d s f).2 → q ∈ s.2 ∨ (q = f ∧ ∃ n, (n, f) ∈ d ∧ n ∈ (seedStep d s f).1)) ∧
        (∀ n, n ∈ (seedStep d s f).1 → n ∈ s.1 ∨ ((n, f) ∈ d ∧ f ∈ (seedStep d s f).2)) ∧
        ((∃ n, (n, f) ∈ d) → f ∈ (seedStep d s f).2) := by
      unfold seedStep
      cases hf : findBwd d f with
      | none =>
        exact ⟨fun _ => id, fun _ => id, fun _ => Or.inl, fun _ => Or.inl, fun ⟨n, hn⟩ => absurd hn (findBwdBU_none hf n)⟩
      | some n0 =>
        have hd := findBwdBU_some hf
        simp only
        refine ⟨fun q hq => mem_ins.mpr (Or.inl hq), fun n hn => List.mem_cons_of_mem _ hn, fun q hq => ?_, fun n hn => ?_,
          fun _ => mem_ins.mpr (Or.inr rfl)⟩
        · rcases mem_ins.mp hq with h | h
          · exact Or.inl h
          · exact Or.inr ⟨h, n0, hd, List.mem_cons_self⟩
        · rcases List.mem_cons.mp hn with h | h
          · exact Or.inr ⟨h ▸ hd, mem_ins.mpr (Or.inr rfl)⟩
          · exact Or.inl h
    obtain ⟨s1, s2, s3, s4, s5⟩ := st
    simp only [List.foldl_cons]
    refine ⟨fun q hq => i1 q (s1 q hq), fun n hn => i2 n (s2 n hn), fun q hq => ?_, fun n hn => ?_, fun f' hf' hn => ?_⟩
    · rcases i3 q hq with h | ⟨h1, h2⟩
      · rcases s3 q h with h | ⟨rfl, n, h1, h2⟩
        · exact Or.inl h
        · exact Or.inr ⟨List.mem_cons_self, n, h1, i2 n h2⟩
      · exact Or.inr ⟨List.mem_cons_of_mem _ h1, h2⟩
    · rcases i4 n hn with h | h
      · rcases s4 n h with h | ⟨h1, h2⟩
        · exact Or.inl h
        · exact Or.inr ⟨f, h1, i1 f h2⟩
      · exact Or.inr h
    · rcases List.mem_cons.mp hf' with rfl | hf'
      · exact i1 _ (s5 hn)
      · exact i5 f' hf' hn

theorem tInv_seed {T : Table} {F : List Nat} {G0 : Graph} {d : List (Nat × Nat)} {reach : List Nat}
    (hG : GInv (EdgeS T F) reach G0 d) (hr : ∀ q, q ∈ reach ↔ q ∈ prodStates (skelBU T F)) :
    TInv T F G0 d reach ⟨(F.foldl (seedStep d) ([], [])).1, (F.foldl (seedStep d) ([], [])).2, G0⟩ := by
  obtain ⟨_, _, i3, i4, i5⟩ := seed_fold d F ([], [])
  refine ⟨fun q hq => ?_, fun n hn => ?_, fun q hq n hn => ?_, fun _ _ => id, fun _ _ => Or.inl, fun f hf hfr => ?_⟩
  · rcases i3 q hq with h | ⟨h1, n, h2, _⟩
    · cases h
    · exact TdReachable.final (mem_restrict_final.mpr ⟨h1, (hr q).mp ((hG.dom q).mpr ⟨n, h2⟩)⟩)
  · rcases i4 n hn with h | h
    · cases h
    · exact h
  · rcases i3 q hq with h | ⟨_, n', h2, h3⟩
    · cases h
    · rw [hG.funS n n' q hn h2]; exact Or.inl h3
  · exact i5 f hf ((hG.dom f).mp hfr)

/-! ### the theorems -/

theorem buUselessSt_some {T : Table} {F : List Nat} {fuel : Nat} {g : BuGSt} {tr : TrSt}
    (h : buUselessSt T F fuel = some (g, tr)) :
    buGLoop fuel (buGInit T) = some g ∧
    traverse g.nodes fuel ⟨(F.foldl (seedStep g.nodes) ([], [])).1, (F.foldl (seedStep g.nodes) ([], [])).2, g.graph⟩ =
      some tr := by
  unfold buUselessSt at h
  split at h
  · cases h
  · next st hst =>
    simp only at h
    split at h
    · cases h
    · next tr' htr =>
      simp only [Option.some.injEq, Prod.mk.injEq] at h
      obtain ⟨h1, h2⟩ := h
      subst h1 h2
      exact ⟨hst, htr⟩

/-- **`RemoveUselessStates` (bottom-up) as coded, the states.**  `reachable` is the set of productive states, `nodes` has
a node exactly for them, and at the end of the traversal `useful` is the set of the states reached from the productive
final states through the tuples of productive states – the set `useful` of the abstract model `removeUselessBU`. -/
theorem bu_useless_coded_useful {T : Table} (hT : TableOk T) (F : List Nat) {fuel : Nat} {g : BuGSt} {tr : TrSt}
    (h : buUselessSt T F fuel = some (g, tr)) :
    (∀ q, q ∈ g.reach ↔ q ∈ prodStates (skelBU T F)) ∧
    (∀ q, (findBwd g.nodes q).isSome = true ↔ q ∈ g.reach) ∧
    (∀ q, q ∈ tr.useful ↔ q ∈ tdReach (restrict (skelBU T F) (prodStates (skelBU T F)))) ∧ tr.stack = [] := by
  obtain ⟨h1, h2⟩ := buUselessSt_some h
  obtain ⟨hr, _, _⟩ := buGLoop_reach hT F h1
  obtain ⟨hG, hC⟩ := gLoop_final hT F h1
  obtain ⟨hI, hs⟩ := traverse_inv hG fuel _ tr (tInv_seed hG hr) h2
  refine ⟨hr, fun q => ?_, fun q => ?_, hs⟩
  · rw [hG.dom]
    cases hf : findBwd g.nodes q with
    | none => simp only [Option.isSome_none, Bool.false_eq_true, false_iff]; exact fun ⟨n, hn⟩ => findBwdBU_none hf n hn
    | some n => simp only [Option.isSome_some, true_iff]; exact ⟨n, findBwdBU_some hf⟩
  · rw [tdReach_iff]
    refine ⟨hI.usound q, ?_⟩
    refine tdReachable_sub_closed (S := tr.useful) (fun f hf => ?_) (fun r hr' hp k hk => ?_) q
    · obtain ⟨f1, f2⟩ := mem_restrict_final.mp hf
      exact hI.seed f f1 ((hr f).mpr f2)
    · obtain ⟨n, m, c1, c2, c3⟩ := hC r.parent k ⟨r, hr', rfl, hk⟩
      rcases hI.pend _ hp n c1 with h' | h'
      · rw [hs] at h'; cases h'
      · exact h' m c3 k c2

/-- **`RemoveUselessStates` (bottom-up) as coded: every answer is the answer of the abstract model** `removeUselessBU`:
the same rules, the same list of final states. -/
theorem bu_useless_coded_spec {T : Table} (hT : TableOk T) (F : List Nat) {fuel : Nat} {R : Table × List Nat}
    (h : buUselessCoded T F fuel = some R) :
    (∀ ρ ks p, HasRule R.1 ρ ks p ↔ HasRule (removeUselessBU T F).1 ρ ks p) ∧ R.2 = (removeUselessBU T F).2 := by
  cases hst : buUselessSt T F fuel with
  | none => unfold buUselessCoded at h; rw [hst] at h; cases h
  | some p =>
    obtain ⟨g, tr⟩ := p
    obtain ⟨_, hN, hU, _⟩ := bu_useless_coded_useful hT F hst
    obtain ⟨R', e, h1, h2⟩ := bu_useless_coded_spec_partial hT F hst hU hN
    rw [h] at e
    cases e
    exact ⟨h1, h2⟩

/-- **`RemoveUselessStates` (bottom-up) as coded keeps the language** -/
theorem bu_useless_coded_lang {syms : List Nat} {T : Table} (hO : TableOk T) (hT : TableWF T)
    (hc : SymsCompleteBU syms T) (F : List Nat) {fuel : Nat} {R : Table × List Nat}
    (h : buUselessCoded T F fuel = some R) (t : Tree) :
    accepts (absBU syms R.1 R.2) t = accepts (absBU syms T F) t := by
  obtain ⟨h1, h2⟩ := bu_useless_coded_spec hO F h
  rw [(setEqTA_of_hasRule h1 h2).lang, removeUselessBU_lang F hT hc]

/-- the abstraction of the coded answer is `removeUseless` of the abstraction -/
theorem bu_useless_coded_abs {syms : List Nat} {T : Table} (hO : TableOk T) (hT : TableWF T)
    (hc : SymsCompleteBU syms T) (F : List Nat) {fuel : Nat} {R : Table × List Nat}
    (h : buUselessCoded T F fuel = some R) : SetEqTA (absBU syms R.1 R.2) (removeUseless (absBU syms T F)) := by
  obtain ⟨h1, h2⟩ := bu_useless_coded_spec hO F h
  exact (setEqTA_of_hasRule h1 h2).trans (absBU_removeUseless F hT hc)

/-- **"leaving no useless state"**: the bottom-up `RemoveUselessStates` as coded prunes BOTH the unproductive and the
top-down unreachable states: every state and every rule of the answer is useful -/
theorem bu_useless_coded_noUseless {syms : List Nat} {T : Table} (hO : TableOk T) (hT : TableWF T)
    (hc : SymsCompleteBU syms T) (F : List Nat) {fuel : Nat} {R : Table × List Nat}
    (h : buUselessCoded T F fuel = some R) :
    (∀ q, Occurs (absBU syms R.1 R.2) q → UsefulState (absBU syms R.1 R.2) q) ∧
    (∀ r, r ∈ (absBU syms R.1 R.2).rules → UsefulRule (absBU syms R.1 R.2) r) := by
  obtain ⟨h1, h2⟩ := bu_useless_coded_spec hO F h
  exact (setEqTA_of_hasRule (syms := syms) h1 h2).allUseful (removeUselessBU_useful F hT hc)

end BddTrimCoded
end Vata
