import Vata.LtsEngineCalls2
import Vata.Proofs.LtsEngineCalls
/-!
# The engine instrumented with `SharedCounter` / `SharedList` calls: trace erasure

Forgetting the histories of `Vata/LtsEngineCalls2.lean` gives the plain engine of `Vata/LtsEngine.lean`, function by function.
-/
namespace Vata.LEC2
open Vata.L Vata.LE Vata.LU Vata.LEC

theorem fastSplitStepJ_fst (L : LTS) (part0 : List (List Nat)) (rm : List Nat) (et : JE) (b : Nat) :
    (fastSplitStepJ L part0 rm et b).1 = fastSplitStep L part0 rm et.1 b := by
  unfold fastSplitStepJ fastSplitStep
  cases trySplit (et.1.block b) (tmpOf part0 rm b) with
  | none => rfl
  | some rn => rfl

theorem fastSplitJ_fst (L : LTS) (et : JE) (rm : List Nat) : (fastSplitJ L et rm).1 = fastSplit L et.1 rm := by
  unfold fastSplitJ fastSplit
  exact foldl_fst _ _ (fastSplitStepJ_fst L et.1.part rm) _ _

theorem initRefineJ_fst (L : LTS) (et : JE) : (initRefineJ L et).1 = initRefine L et.1 := by
  unfold initRefineJ initRefine
  exact foldl_fst _ _ (fun s a => fastSplitJ_fst L s (delta1 L a)) _ _

theorem splitStepJ_fst (L : LTS) (part0 : List (List Nat)) (rm : List Nat) (emt : (Eng × List Nat) × Tr2) (b : Nat) :
    (splitStepJ L part0 rm emt b).1 = splitStep L part0 rm emt.1 b := by
  unfold splitStepJ splitStep
  cases trySplit (emt.1.1.block b) (tmpOf part0 rm b) with
  | none => rfl
  | some rn => rfl

theorem splitJ_fst (L : LTS) (et : JE) (rm : List Nat) : (splitJ L et rm).1 = split L et.1 rm := by
  unfold splitJ split
  exact foldl_fst _ _ (splitStepJ_fst L et.1.part rm) _ _

theorem decrPreJ_fst (L : LTS) (b1 a : Nat) (l : List Nat) (et : JE) :
    (l.foldl (decrStepJ L b1 a) et).1 = l.foldl (decrStep b1 a) et.1 :=
  foldl_fst _ _ (fun _ _ => rfl) _ _

theorem decrBlkJ_fst (L : LTS) (b1 a : Nat) (blk : List Nat) (et : JE) :
    (blk.foldl (fun (et : JE) elem => (pre L a elem).foldl (decrStepJ L b1 a) et) et).1 =
      blk.foldl (fun (e : Eng) elem => (pre L a elem).foldl (decrStep b1 a) e) et.1 :=
  foldl_fst _ _ (fun s elem => decrPreJ_fst L b1 a (pre L a elem) s) _ _

theorem decrBlockJ_fst (L : LTS) (et : JE) (b1 b2 : Nat) : (decrBlockJ L et b1 b2).1 = decrBlock L et.1 b1 b2 := by
  unfold decrBlockJ decrBlock
  refine foldl_fst _ _ ?_ _ _
  intro s a
  split
  · exact decrBlkJ_fst L b1 a _ s
  · rfl

theorem pruneColJ_fst (L : LTS) (mask : List Nat) (b1 : Nat) (et : JE) (col : Nat) :
    (pruneColJ L mask b1 et col).1 = pruneCol L mask b1 et.1 col := by
  unfold pruneColJ pruneCol
  split
  · exact decrBlockJ_fst L _ b1 col
  · rfl

theorem pruneRowJ_fst (L : LTS) (mask : List Nat) (et : JE) (b1 : Nat) :
    (pruneRowJ L mask et b1).1 = pruneRow L mask et.1 b1 := by
  unfold pruneRowJ pruneRow
  exact foldl_fst _ _ (pruneColJ_fst L mask b1) _ _

theorem processRemoveJ_fst (L : LTS) (et : JE) (b a : Nat) : (processRemoveJ L et b a).1 = processRemove L et.1 b a := by
  unfold processRemoveJ processRemove
  cases et.1.remv b a with
  | none => rfl
  | some remove =>
    simp only
    rw [foldl_fst _ _ (pruneRowJ_fst L _)]
    simp only [splitJ_fst]

theorem stepOnceJ_fst (L : LTS) (et : JE) : (stepOnceJ L et).1 = stepOnce L et.1 := by
  unfold stepOnceJ stepOnce
  cases et.1.queue with
  | nil => rfl
  | cons k rest => obtain ⟨b, a⟩ := k; exact processRemoveJ_fst L _ b a

theorem engineRunJ_fst (L : LTS) : ∀ (fuel : Nat) (et : JE), (engineRunJ L fuel et).map (·.1) = engineRun L fuel et.1
  | 0, et => by
    unfold engineRunJ engineRun
    cases et.1.queue <;> rfl
  | fuel + 1, et => by
    unfold engineRunJ engineRun
    cases et.1.queue with
    | nil => rfl
    | cons k rest =>
      obtain ⟨b, a⟩ := k
      simp only
      rw [engineRunJ_fst L fuel, processRemoveJ_fst]

theorem initCountersJ_fst (L : LTS) (cfg : SC.Cfg) (et : JE) : (initCountersJ L cfg et).1 = initCounters L et.1 := by
  unfold initCountersJ initCounters
  rw [foldl_fst (f := fun e b1 => (e.ins b1).foldl (initSlot L b1) e)]
  intro s b1
  exact foldl_fst _ (initSlot L b1) (fun _ _ => rfl) _ _

theorem engineInitJ_fst (L : LTS) (cfg : SC.Cfg) (part : List (List Nat)) (rel : Rel) :
    (engineInitJ L cfg part rel).1 = engineInit L part rel := by
  unfold engineInitJ engineInit
  simp only [initCountersJ_fst, initRefineJ_fst, initBlocksJ]

theorem stateAfterJ_fst (L : LTS) (cfg : SC.Cfg) (part : List (List Nat)) (rel : Rel) :
    ∀ k, (stateAfterJ L cfg part rel k).1 = stateAfter L part rel k
  | 0 => engineInitJ_fst L cfg part rel
  | k + 1 => by
    show (stepOnceJ L (stateAfterJ L cfg part rel k)).1 = stepOnce L (stateAfter L part rel k)
    rw [stepOnceJ_fst, stateAfterJ_fst L cfg part rel k]

/-- **trace erasure**: the engine instrumented with counter / remove-list calls returns what the plain engine returns -/
theorem trace_erasure2 (L : LTS) (cfg : SC.Cfg) (part : List (List Nat)) (rel : Rel) (size : Nat) :
    (computeSimulationJ L cfg part rel size).map (·.1) = computeSimulation L part rel size := by
  unfold computeSimulationJ computeSimulation
  split
  · rfl
  · rw [Option.map_map, ← engineInitJ_fst L cfg, ← engineRunJ_fst L, Option.map_map]
    rfl

/-- `k` iterations of `run()` -/
def iterJ (L : LTS) : Nat → JE → JE
  | 0, et => et
  | k + 1, et => stepOnceJ L (iterJ L k et)

theorem iterJ_comm (L : LTS) : ∀ (k : Nat) (et : JE), iterJ L k (stepOnceJ L et) = stepOnceJ L (iterJ L k et)
  | 0, _ => rfl
  | k + 1, et => by show stepOnceJ L (iterJ L k (stepOnceJ L et)) = _; rw [iterJ_comm L k et]; rfl

/-- what `run()` returns is the state after some number of iterations, and its queue is empty -/
theorem engineRunJ_some {L : LTS} : ∀ (fuel : Nat) (et r : JE), engineRunJ L fuel et = some r →
    ∃ k, r = iterJ L k et ∧ r.1.queue = []
  | 0, et, r, h => by
    unfold engineRunJ at h
    split at h
    · rename_i hq
      refine ⟨0, (Option.some.inj h).symm, ?_⟩
      rw [← Option.some.inj h]
      simpa using hq
    · cases h
  | fuel + 1, et, r, h => by
    unfold engineRunJ at h
    cases hq : et.1.queue with
    | nil => rw [hq] at h; exact ⟨0, (Option.some.inj h).symm, by rw [← Option.some.inj h]; exact hq⟩
    | cons k rest =>
      obtain ⟨b, a⟩ := k
      rw [hq] at h
      obtain ⟨k, hk, hq'⟩ := engineRunJ_some fuel _ r h
      refine ⟨k + 1, ?_, hq'⟩
      have hs : stepOnceJ L et = processRemoveJ L ({ et.1 with queue := rest }, et.2) b a := by
        unfold stepOnceJ; rw [hq]
      rw [hk, ← hs, iterJ_comm]
      rfl

theorem stateAfterJ_iter (L : LTS) (cfg : SC.Cfg) (part : List (List Nat)) (rel : Rel) : ∀ k,
    stateAfterJ L cfg part rel k = iterJ L k (engineInitJ L cfg part rel)
  | 0 => rfl
  | k + 1 => by
    show stepOnceJ L (stateAfterJ L cfg part rel k) = stepOnceJ L _
    rw [stateAfterJ_iter L cfg part rel k]

end Vata.LEC2
