import Vata.Proofs.ComplOrd
/-!
# The FIFO order is the model `complTD`

`complTDOrd pickFifo A Sg fuel = complTD A Sg fuel` (same fuel, same automaton, `none` at the same time): with the first
element always taken, `todo` is the part `cache.drop k` of the cache behind the counter `k` of `Compl.loop`.
-/
namespace Vata
namespace Compl
open InclUp (normS)

theorem loopOrd_fifo {A : TA} {Sg : List (Nat × Nat)} : ∀ (fuel k : Nat) (st : St), Inv A Sg k st →
    (loopOrdS (onTodo pickFifo) A Sg fuel ⟨st, st.cache.drop k⟩).map (·.st) = loop A Sg fuel k st
  | 0, _, _, _ => rfl
  | fuel+1, k, st, hinv => by
    unfold loopOrdS loop
    cases hk : st.cache[k]? with
    | none =>
      have hlen : st.cache.length ≤ k := List.getElem?_eq_none_iff.mp hk
      have : st.cache.drop k = [] := List.drop_eq_nil_of_le hlen
      simp [this]
    | some P =>
      obtain ⟨hklen, hP⟩ := List.getElem?_eq_some_iff.mp hk
      have hdrop : st.cache.drop k = P :: st.cache.drop (k+1) := by
        rw [← hP]; exact List.drop_eq_getElem_cons hklen
      have hidx : st.cache.idxOf P = k := idxOf_of_getElem? hinv.1.1 hk
      obtain ⟨_, g2, _⟩ := symFold_spec (A := A) (Sg := Sg) ⟨hinv.1, hk⟩
      obtain ⟨suf, hsuf⟩ := g2.1
      have hstep : stepOrdS (onTodo pickFifo) A Sg ⟨st, st.cache.drop k⟩ =
          ⟨Sg.foldl (procSym A P k) st, (Sg.foldl (procSym A P k) st).cache.drop (k+1)⟩ := by
        unfold stepOrdS stepAt
        simp only [onTodo, pickFifo, hdrop, Nat.zero_mod, List.getD_cons_zero, hidx, List.eraseIdx_cons_zero, StO.mk.injEq,
          true_and]
        rw [← hsuf, List.drop_left, List.drop_append_of_le_length (by omega)]
      simp only [hdrop, List.isEmpty_cons, Bool.false_eq_true, if_false]
      rw [← hdrop, hstep]
      exact loopOrd_fifo fuel (k+1) _ (hinv.step hk)

theorem runOrd_fifo (A : TA) (Sg : List (Nat × Nat)) (fuel : Nat) :
    (runOrd pickFifo A Sg fuel).map (·.st) = tdRun A Sg fuel :=
  loopOrd_fifo fuel 0 _ (Inv.init A Sg)

/-- the FIFO order is the model `complTD` -/
theorem complTDOrd_fifo (A : TA) (Sg : List (Nat × Nat)) (fuel : Nat) :
    complTDOrd pickFifo A Sg fuel = complTD A Sg fuel := by
  rw [complTD_eq, ← runOrd_fifo]
  rw [Option.map_map]
  rfl

end Compl
end Vata
