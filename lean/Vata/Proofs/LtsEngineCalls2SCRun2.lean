import Vata.Proofs.LtsEngineCalls2SCInit
/-!
# The `SharedCounter` call discipline: `init`, the whole run, the destructors
-/
namespace Vata.LEC2
open Vata.L Vata.LE Vata.LU Vata.LEC

section
variable {L : LTS} {cfg : SC.Cfg}

/-! ### `fastSplit` and the initial refinement -/

/-- `fastSplitStepJ` with the mask of `gStep` -/
def fStepJ (L : LTS) (part0 : List (List Nat)) (rm : List Nat) (emt : (Eng × List Nat) × Tr2) (b : Nat) :
    (Eng × List Nat) × Tr2 :=
  match trySplit (emt.1.1.block b) (tmpOf part0 rm b) with
  | none => ((emt.1.1, b :: emt.1.2), emt.2)
  | some (rest, new) =>
    ((splitBlockCore L emt.1.1 b rest new, emt.1.1.part.length :: emt.1.2), emt.2.addSC [SC.Op.copyCtor b])

theorem fStepJ_fst (L : LTS) (part0 : List (List Nat)) (rm : List Nat) (emt : (Eng × List Nat) × Tr2) (b : Nat) :
    (fStepJ L part0 rm emt b).1 = gStep (splitBlockCore L) part0 rm emt.1 b := by
  unfold fStepJ gStep
  cases trySplit (emt.1.1.block b) (tmpOf part0 rm b) with
  | none => rfl
  | some rn => rfl

theorem fastSplitJ_fold (L : LTS) (part0 : List (List Nat)) (rm : List Nat) : ∀ (todo : List Nat) (et : JE) (m : List Nat),
    todo.foldl (fastSplitStepJ L part0 rm) et =
      ((todo.foldl (fStepJ L part0 rm) ((et.1, m), et.2)).1.1, (todo.foldl (fStepJ L part0 rm) ((et.1, m), et.2)).2)
  | [], _, _ => rfl
  | b :: todo, et, m => by
    simp only [List.foldl_cons]
    unfold fastSplitStepJ fStepJ
    cases trySplit (et.1.block b) (tmpOf part0 rm b) with
    | none => exact fastSplitJ_fold L part0 rm todo et (b :: m)
    | some rn => exact fastSplitJ_fold L part0 rm todo _ _

section phase
variable {e0 : Eng} {rm : List Nat} (P : Eng → (Nat → Nat) → Prop)

theorem fastJ_traceC (hs : StepOK L (splitBlockCore L) P) (w0 : WF L e0) (hrm : ∀ q, q ∈ rm → q < L.n) (hnd : rm.Nodup) :
    ∀ (todo done : List Nat) (emt : (Eng × List Nat) × Tr2) (par : Nat → Nat), todo.Nodup →
      (∀ b, b ∈ todo → b ∈ modifiedBlocks e0.part rm ∧ b ∉ done) →
      PhaseInv L e0 rm done emt.1 par → P emt.1.1 par → GC L cfg emt.1.1 emt.2 allFresh →
      GC L cfg (todo.foldl (fStepJ L e0.part rm) emt).1.1 (todo.foldl (fStepJ L e0.part rm) emt).2 allFresh
  | [], _, _, _, _, _, _, _, g => g
  | b :: todo, done, emt, par, hn, hto, inv, hP, g => by
    have hn' := List.nodup_cons.mp hn
    have hbm := (hto b List.mem_cons_self).1
    have hbd := (hto b List.mem_cons_self).2
    obtain ⟨par1, inv1, hP1⟩ := phase_step (splitBlockCore L) P hs w0 hrm hnd inv hP hbm hbd
    rw [← fStepJ_fst L] at inv1 hP1
    have g1 : GC L cfg (fStepJ L e0.part rm emt b).1.1 (fStepJ L e0.part rm emt b).2 allFresh := by
      obtain ⟨q0, _, hq0b⟩ := (mem_modifiedBlocks w0 hrm b).mp hbm
      have hb0 : b < e0.part.length := lt_of_mem_block hq0b
      have hbk : b < emt.1.1.part.length := Nat.lt_of_lt_of_le hb0 inv.rs.hlen
      unfold fStepJ
      cases hts : trySplit (emt.1.1.block b) (tmpOf e0.part rm b) with
      | none => exact g
      | some rn =>
        obtain ⟨rest, new⟩ := rn
        exact ctor_goodC g (Or.inr ⟨b, hbk, rfl⟩) core_length
    exact fastJ_traceC hs w0 hrm hnd todo (b :: done) _ par1 hn'.2
      (fun c hc => ⟨(hto c (List.mem_cons_of_mem _ hc)).1, fun h => by
        rcases List.mem_cons.mp h with h | h
        · exact hn'.1 (h ▸ hc)
        · exact (hto c (List.mem_cons_of_mem _ hc)).2 h⟩) inv1 hP1 g1

end phase

theorem fastSplitJ_goodC {et : JE} {rm : List Nat} (w0 : WF L et.1) (hrm : ∀ q, q ∈ rm → q < L.n) (hnd : rm.Nodup)
    (g : GC L cfg et.1 et.2 allFresh) : GC L cfg (fastSplitJ L et rm).1 (fastSplitJ L et rm).2 allFresh := by
  unfold fastSplitJ
  rw [fastSplitJ_fold L et.1.part rm _ et []]
  have inv0 : PhaseInv L et.1 rm [] (et.1, []) id := by
    refine ⟨w0, RefineS.refl L et.1, fun _ _ => rfl, fun _ _ _ => rfl, fun _ _ _ => rfl, ?_, ?_⟩
    · intro i hi hd
      rcases hd with hd | hd
      · cases hd
      · exact absurd hi (Nat.not_lt_of_le hd)
    · intro i
      constructor
      · intro h; cases h
      · rintro ⟨h1, h2 | h2, _⟩
        · cases h2
        · exact absurd h1 (Nat.not_lt_of_le h2)
  exact fastJ_traceC _ (stepF_ok L et.1) w0 hrm hnd (modifiedBlocks et.1.part rm) [] ((et.1, []), et.2) id
    (nodup_dedupF _ _) (fun b hb => ⟨hb, fun h => by cases h⟩) inv0 ⟨rfl, rfl, rfl, rfl⟩ g

theorem initRefineJ_goodC : ∀ (as : List Nat) (et : JE), WF L et.1 → GC L cfg et.1 et.2 allFresh →
    GC L cfg (as.foldl (fun et a => fastSplitJ L et (delta1 L a)) et).1
      (as.foldl (fun et a => fastSplitJ L et (delta1 L a)) et).2 allFresh
  | [], _, _, g => g
  | a :: as, et, w, g => by
    have hrm : ∀ q, q ∈ delta1 L a → q < L.n := fun q hq => ((mem_delta1 L a q).1 hq).1
    have g1 := fastSplitJ_goodC w hrm (nodup_delta1 L a) g
    obtain ⟨_, w1, _⟩ := fastSplit_spec w hrm (nodup_delta1 L a)
    rw [← fastSplitJ_fst L] at w1
    exact initRefineJ_goodC as _ w1 g1

/-! ### "initialize counters" -/

/-- the state inside "initialize counters": partition and insets are those of `e0`, the counters in `Z` are still zero -/
structure ICI (L : LTS) (cfg : SC.Cfg) (e0 : Eng) (Z : Nat → Nat → Prop) (ph : Nat → SC.Phase) (et : JE) : Prop where
  g : GC L cfg et.1 et.2 ph
  hp : et.1.part = e0.part
  hi : et.1.inset = e0.inset
  hZ : ∀ i a, Z i a → ∀ q, et.1.cntv i a q = 0

theorem initInnerC (ok : CfgOK L cfg) {e0 : Eng} (w : WF L e0) {b1 : Nat} (hb1 : b1 < e0.part.length)
    {ph : Nat → SC.Phase} (hph : ph b1 = .filling) (S : Nat → Nat → Prop) (hS1 : ∀ a, ¬ S b1 a) :
    ∀ (as : List Nat) (et : JE), as.Nodup → (∀ a, a ∈ as → a ∈ e0.ins b1) →
      ICI L cfg e0 (fun i a => (i = b1 ∧ a ∈ as) ∨ S i a) ph et → ICI L cfg e0 S ph (as.foldl (initSlotJ L b1) et)
  | [], et, _, _, h => ⟨h.g, h.hp, h.hi, fun i a hs => h.hZ i a (Or.inr hs)⟩
  | a :: as, et, hnd, hin, h => by
    have hnd' := List.nodup_cons.mp hnd
    have hins : et.1.ins b1 = e0.ins b1 := ins_congr h.hi b1
    have g1 := slot_goodC ok (et := et) (a := a) h.g (by rw [h.hp]; exact hb1) hph
      (fun a' ha' => w.ins_lt hb1 (by rw [← hins]; exact ha')) (by rw [hins]; exact hin a List.mem_cons_self)
      (h.hZ b1 a (Or.inl ⟨rfl, List.mem_cons_self⟩))
    obtain ⟨f1, _, f3⟩ := initSlot_frame L b1 et.1 a
    refine initInnerC ok w hb1 hph S hS1 as _ hnd'.2 (fun x hx => hin x (List.mem_cons_of_mem _ hx))
      ⟨g1, f1.trans h.hp, f3.trans h.hi, ?_⟩
    intro i a' hs q
    show (initSlot L b1 et.1 a).cntv i a' q = 0
    have hne : ¬ (i = b1 ∧ a' = a) := by
      rintro ⟨e1, e2⟩
      rcases hs with ⟨_, hm⟩ | hs
      · exact hnd'.1 (e2 ▸ hm)
      · exact hS1 a' (e1 ▸ hs)
    rw [initSlot_cntv, if_neg (fun hc => hne ⟨hc.1, hc.2.1⟩)]
    apply h.hZ
    rcases hs with ⟨e1, hm⟩ | hs
    · exact Or.inl ⟨e1, List.mem_cons_of_mem _ hm⟩
    · exact Or.inr hs

theorem initOuterC (ok : CfgOK L cfg) {e0 : Eng} (w : WF L e0) : ∀ (bs : List Nat) (et : JE), bs.Nodup →
    (∀ b, b ∈ bs → b < e0.part.length) → ICI L cfg e0 (fun i _ => i ∈ bs) (phO bs) et →
    ICI L cfg e0 (fun _ _ => False) (phO []) (bs.foldl (fun (et : JE) b1 =>
      let r := (et.1.ins b1).foldl (initSlotJ L b1) (et.1, et.2.addSC [SC.Op.resize b1 (resizeArg cfg (et.1.ins b1))])
      (r.1, r.2.addSC [SC.Op.init b1])) et)
  | [], et, _, _, h => ⟨h.g, h.hp, h.hi, fun _ _ hf => by cases hf⟩
  | b1 :: bs, et, hnd, hlt, h => by
    have hnd' := List.nodup_cons.mp hnd
    have hb1 := hlt b1 List.mem_cons_self
    have hins : et.1.ins b1 = e0.ins b1 := ins_congr h.hi b1
    have hb1' : b1 < et.1.part.length := by rw [h.hp]; exact hb1
    simp only [List.foldl_cons]
    have g1 : GC L cfg et.1 (et.2.addSC [SC.Op.resize b1 (resizeArg cfg (et.1.ins b1))]) (phI b1 bs) :=
      resize_goodC ok h.g hb1' (by simp [phO]) (fun a ha => w.ins_lt hb1 (by rw [← hins]; exact ha))
        (fun a q _ => h.hZ b1 a List.mem_cons_self q) (by simp [phI])
        (fun i hi => by simp [phI, phO, hi])
    have hinner := initInnerC ok w hb1 (ph := phI b1 bs) (by simp [phI]) (fun i _ => i ∈ bs) (fun _ => hnd'.1) (et.1.ins b1)
      (et.1, et.2.addSC [SC.Op.resize b1 (resizeArg cfg (et.1.ins b1))])
      (by rw [hins]; exact (w.hinset b1 hb1).1.1) (fun a ha => by rw [← hins]; exact ha)
      ⟨g1, h.hp, h.hi, fun i a hs => h.hZ i a (by
        rcases hs with ⟨e1, _⟩ | hs
        · rw [e1]; exact List.mem_cons_self
        · exact List.mem_cons_of_mem _ hs)⟩
    have g2 := init_goodC (ph' := phO bs) hinner.g (by rw [hinner.hp]; exact hb1) (by simp [phI])
      (by simp [phO, hnd'.1]) (fun i hi => by simp [phI, phO, hi])
    exact initOuterC ok w bs _ hnd'.2 (fun b hb => hlt b (List.mem_cons_of_mem _ hb))
      ⟨g2, hinner.hp, hinner.hi, hinner.hZ⟩

theorem init_goodJC (ok : CfgOK L cfg) {part : List (List Nat)} {rel : Rel}
    (hp : isPartition part L.n = true) (hc : isConsistent part rel = true) :
    GC L cfg (engineInitJ L cfg part rel).1 (engineInitJ L cfg part rel).2 running := by
  have wA := initBlocks_wf (L := L) hp hc
  obtain ⟨parB, wB, rB, uB, tc, tr, tq, _⟩ := initRefine_spec wA
  have wC := initPrune_wf wB uB
  have gB : GC L cfg (initRefineJ L (initBlocksJ L part rel Tr2.empty)).1 (initRefineJ L (initBlocksJ L part rel Tr2.empty)).2
      allFresh := initRefineJ_goodC _ _ wA (initBlocksJ_goodC cfg L part rel)
  unfold engineInitJ
  simp only []
  have h1 : (initRefineJ L (initBlocksJ L part rel Tr2.empty)).1 = initRefine L (initBlocks L part rel) := by
    rw [initRefineJ_fst]; rfl
  rw [h1] at gB ⊢
  generalize (initRefineJ L (initBlocksJ L part rel Tr2.empty)).2 = t1 at gB
  have hcnt : (initPrune L (initRefine L (initBlocks L part rel))).cnt = [] := by
    show (initRefine L (initBlocks L part rel)).cnt = []
    rw [tc]; rfl
  have gC : GC L cfg (initPrune L (initRefine L (initBlocks L part rel))) t1 allFresh :=
    gB.congr rfl rfl (fun _ _ _ => rfl) rfl
  generalize initPrune L (initRefine L (initBlocks L part rel)) = eC at wC hcnt gC
  have hzero : ∀ i a q, eC.cntv i a q = 0 := fun i a q => by simp [Eng.cntv, hcnt]
  unfold initCountersJ
  have res := initOuterC ok wC (List.range eC.part.length) (eC, t1) List.nodup_range
    (fun b hb => List.mem_range.mp hb)
    ⟨gC.phase (fun i hi => by simp [phO, hi]), rfl, rfl, fun i a _ q => hzero i a q⟩
  exact res.g.phase (fun i _ => by simp [phO])

/-! ### the whole run -/

theorem stateAfterJ_goodC (ok : CfgOK L cfg) (hL : LtsOK L) {part : List (List Nat)} {rel : Rel}
    (hp : isPartition part L.n = true) (hc : isConsistent part rel = true) (htr : RelTrans part rel) :
    ∀ k, GC L cfg (stateAfterJ L cfg part rel k).1 (stateAfterJ L cfg part rel k).2 running
  | 0 => init_goodJC ok hp hc
  | k + 1 => by
    have inv := engine_invariant_always hL hp hc htr k
    rw [← stateAfterJ_fst L cfg] at inv
    exact stepOnceJ_goodC ok hL inv (stateAfterJ_goodC ok hL hp hc htr k)

/-- `~SimulationEngine()`: every counter is destroyed once, in the running phase; afterwards no counter is live -/
theorem finish_goodC {e : Eng} {t : Tr2} (g : GC L cfg e t running) :
    SC.okAll cfg [] (t.addSC (finishT e)).sc = true ∧
    ∀ j, (SC.aRun cfg [] (t.addSC (finishT e)).sc).1.getD j none = none := by
  have gs : SCI L cfg e (SC.aRun cfg [] t.sc).1 running := g.2
  obtain ⟨h1, h2, h3⟩ := destroys_ok cfg (List.range e.part.length) (SC.aRun cfg [] t.sc).1 List.nodup_range
    (fun i hi => by
      obtain ⟨A, hA, hph, _⟩ := gs.blk i (List.mem_range.mp hi)
      exact ⟨A, hA, hph⟩)
  refine ⟨?_, fun j => ?_⟩
  · show SC.okAll cfg [] (t.sc ++ finishT e) = true
    rw [sc_okAll_append, g.1]; exact h1
  · show (SC.aRun cfg [] (t.sc ++ finishT e)).1.getD j none = none
    rw [sc_aRun_append]
    show (SC.aRun cfg (SC.aRun cfg [] t.sc).1 ((List.range e.part.length).map SC.Op.destroy)).1.getD j none = none
    rw [h3 j]
    split
    · rfl
    · rename_i hj
      exact getD_ge _ _ _ (by rw [gs.len]; exact Nat.le_of_not_lt (fun h => hj (List.mem_range.mpr h)))

end

end Vata.LEC2
