import Vata.Proofs.LtsEngineCallsSR
/-!
# The instrumented LTS engine: the `SplittingRelation` discipline for the whole run

`init_goodR` (`relation_.init(index)`, the splits of the initial refinement, the erase loops of "prune relation"),
`processRemove_goodR` (one iteration of `run()`: the splits of `split(removeMask, remove)`, one erase loop per block of
`preList`), `stateAfter_goodR` (after `init` and after every iteration).
-/
namespace Vata.LEC
open Vata.L Vata.LE Vata.LU

/-! ### `relation_.init(index)` -/

theorem hasDup_of_nodup : ∀ {l : List Nat}, l.Nodup → SR.hasDup l = false
  | [], _ => rfl
  | x :: r, h => by
    have h' := List.nodup_cons.mp h
    have : r.contains x = false := by simpa using h'.1
    simp only [SR.hasDup, this, hasDup_of_nodup h'.2, Bool.or_self]

/-- the rows of a well-formed engine state are an admissible argument of `init`: at most `L.n` rows, entries in range, no
duplicates -/
theorem init_okR {L : LTS} {e : Eng} (w : WF L e) : SR.ok ⟨[], L.n, false⟩ (SR.Op.init e.rel) = true := by
  have hlen := w.len_le
  simp only [SR.ok, Bool.not_false, Bool.true_and, Bool.and_eq_true, decide_eq_true_eq, List.all_eq_true,
    Bool.not_eq_true']
  refine ⟨by rw [w.hrel]; exact hlen, ?_⟩
  intro r hr
  obtain ⟨i, hi, rfl⟩ := List.getElem_of_mem hr
  have hrow : e.rel[i] = e.row i := by
    simp [Eng.row, List.getD_eq_getElem?_getD, List.getElem?_eq_getElem hi]
  rw [hrow]
  refine ⟨fun j hj => ?_, hasDup_of_nodup (w.hrownd i)⟩
  rw [w.hrel]
  exact w.hrow i j hj

theorem initBlocks_goodR {L : LTS} {obj : Nat → Nat} {part : List (List Nat)} {rel : Rel} (ss : List SS.Op)
    (hp : isPartition part L.n = true) (hc : isConsistent part rel = true) :
    GoodR L (initBlocksI L obj part rel ⟨ss, []⟩).1 (initBlocksI L obj part rel ⟨ss, []⟩).2 := by
  have w := initBlocks_wf (L := L) hp hc
  have hsr : (initBlocksI L obj part rel ⟨ss, []⟩).2.sr = [SR.Op.init (initBlocks L part rel).rel] := rfl
  refine ⟨?_, ?_⟩
  · rw [hsr]
    simp only [SR.okAll, init_okR w, Bool.and_self]
  · rw [hsr]; rfl

/-! ### "prune relation" -/

theorem erases_inner (N b1 : Nat) (m : Nat → List Nat) : ∀ (as : List Nat) (rel : List (List Nat)), b1 < rel.length →
    SR.okAll ⟨rel, N, true⟩ (as.map (fun a => SR.Op.eraseRow b1 (m a))) = true ∧
    (SR.aRun ⟨rel, N, true⟩ (as.map (fun a => SR.Op.eraseRow b1 (m a)))).1 =
      ⟨rel.set b1 (as.foldl (fun row a => row.filter (fun c => !(m a).contains c)) (rel.getD b1 [])), N, true⟩
  | [], rel, hb => by
    refine ⟨rfl, ?_⟩
    simp only [List.map_nil, SR.aRun, List.foldl_nil]
    congr 1
    symm
    apply set_of_get
    simp [List.getD_eq_getElem?_getD, List.getElem?_eq_getElem hb]
  | a :: as, rel, hb => by
    have hb' : b1 < (rel.set b1 ((rel.getD b1 []).filter (fun c => !(m a).contains c))).length := by
      rw [List.length_set]; exact hb
    obtain ⟨h1, h2⟩ := erases_inner N b1 m as _ hb'
    have hget : (rel.set b1 ((rel.getD b1 []).filter (fun c => !(m a).contains c))).getD b1 [] =
        (rel.getD b1 []).filter (fun c => !(m a).contains c) := by
      simp [List.getD_eq_getElem?_getD, List.getElem?_set_self hb]
    rw [hget, List.set_set] at h2
    refine ⟨?_, ?_⟩
    · simp only [List.map_cons, SR.okAll, SR.ok, SR.aStep, Bool.true_and, Bool.and_eq_true, decide_eq_true_eq]
      exact ⟨hb, h1⟩
    · simp only [List.map_cons, SR.aRun, SR.aStep, List.foldl_cons]
      exact h2

/-- the rows while the pruning phase runs: the rows `< k` are done -/
def prunedTo (rel0 : List (List Nat)) (F : Nat → List Nat → List Nat) (k : Nat) : List (List Nat) :=
  (List.range rel0.length).map (fun i => if i < k then F i (rel0.getD i []) else rel0.getD i [])

theorem prunedTo_zero (rel0 : List (List Nat)) (F : Nat → List Nat → List Nat) : prunedTo rel0 F 0 = rel0 := by
  apply List.ext_getElem?
  intro j
  unfold prunedTo
  by_cases hj : j < rel0.length
  · simp [hj, List.getD_eq_getElem?_getD]
  · rw [List.getElem?_eq_none (by simpa using hj), List.getElem?_eq_none (by simpa using hj)]

theorem prunedTo_getD (rel0 : List (List Nat)) (F : Nat → List Nat → List Nat) (k : Nat) {i : Nat} (hi : i < rel0.length) :
    (prunedTo rel0 F k).getD i [] = if i < k then F i (rel0.getD i []) else rel0.getD i [] := by
  simp [prunedTo, List.getD_eq_getElem?_getD, hi]

theorem prunedTo_succ (rel0 : List (List Nat)) (F : Nat → List Nat → List Nat) (k : Nat) :
    (prunedTo rel0 F k).set k (F k (rel0.getD k [])) = prunedTo rel0 F (k + 1) := by
  apply List.ext_getElem?
  intro j
  rw [List.getElem?_set]
  unfold prunedTo
  by_cases hj : j < rel0.length
  · by_cases hkj : k = j
    · subst hkj; simp [hj]
    · rw [if_neg hkj]
      simp only [List.getElem?_map, List.getElem?_range hj, Option.map_some]
      by_cases h1 : j < k
      · rw [if_pos h1, if_pos (by omega)]
      · rw [if_neg h1, if_neg (by omega)]
  · have hn : ∀ k', ((List.range rel0.length).map
        (fun i => if i < k' then F i (rel0.getD i []) else rel0.getD i []))[j]? = none := fun k' =>
      List.getElem?_eq_none (by simpa using hj)
    rw [hn, hn]
    split
    · rw [if_neg (by simp; omega)]
    · rfl

theorem erases_outer (N : Nat) (as : Nat → List Nat) (m : Nat → List Nat) (rel0 : List (List Nat)) : ∀ k, k ≤ rel0.length →
    SR.okAll ⟨rel0, N, true⟩ ((List.range k).flatMap (fun b1 => (as b1).map (fun a => SR.Op.eraseRow b1 (m a)))) = true ∧
    (SR.aRun ⟨rel0, N, true⟩ ((List.range k).flatMap (fun b1 => (as b1).map (fun a => SR.Op.eraseRow b1 (m a))))).1 =
      ⟨prunedTo rel0 (fun i row => (as i).foldl (fun row a => row.filter (fun c => !(m a).contains c)) row) k, N, true⟩
  | 0, _ => ⟨rfl, by rw [prunedTo_zero]; rfl⟩
  | k + 1, hk => by
    obtain ⟨h1, h2⟩ := erases_outer N as m rel0 k (by omega)
    have hlen : (prunedTo rel0 (fun i row => (as i).foldl (fun row a => row.filter (fun c => !(m a).contains c)) row) k).length =
        rel0.length := by simp [prunedTo]
    obtain ⟨g1, g2⟩ := erases_inner N k m (as k) _ (by rw [hlen]; omega)
    rw [prunedTo_getD _ _ _ (by omega), if_neg (Nat.lt_irrefl k),
      prunedTo_succ rel0 (fun i row => (as i).foldl (fun row a => row.filter (fun c => !(m a).contains c)) row) k] at g2
    rw [List.range_succ, List.flatMap_append, srOkAll_append, srARun_append, h1, h2]
    simp only [List.flatMap_cons, List.flatMap_nil, List.append_nil, g1, g2, Bool.and_self, and_self]

theorem foldl_filter_mask (n : Nat) (p : Nat → Nat → Bool) : ∀ (as : List Nat) (row : List Nat), (∀ c, c ∈ row → c < n) →
    as.foldl (fun row a => row.filter (fun c => !((List.range n).filter (p a)).contains c)) row =
      as.foldl (fun row a => row.filter (fun c => !p a c)) row
  | [], _, _ => rfl
  | a :: as, row, h => by
    simp only [List.foldl_cons]
    have : row.filter (fun c => !((List.range n).filter (p a)).contains c) = row.filter (fun c => !p a c) := by
      apply List.filter_congr
      intro c hc
      have hcn := h c hc
      cases hp : p a c <;> simp [hp, hcn]
    rw [this]
    exact foldl_filter_mask n p as _ (fun c hc => h c (List.mem_filter.1 hc).1)

theorem initPrune_goodR {L : LTS} {et : IE} (w : WF L et.1) (g : GoodR L et.1 et.2) :
    GoodR L (initPruneI L et).1 (initPruneI L et).2 := by
  obtain ⟨h1, h2⟩ := erases_outer L.n (fun b1 => outLabels L (et.1.block b1))
    (fun a => (List.range et.1.part.length).filter (fun col => noPre L et.1 a col)) et.1.rel et.1.rel.length (Nat.le_refl _)
  have hops : (initPruneI L et).2 = et.2.addSR ((List.range et.1.rel.length).flatMap (fun b1 =>
      (outLabels L (et.1.block b1)).map (fun a =>
        SR.Op.eraseRow b1 ((List.range et.1.part.length).filter (fun col => noPre L et.1 a col))))) := by
    rw [w.hrel]; rfl
  rw [hops]
  refine g.add h1 ?_
  rw [h2]
  congr 1
  show _ = (initPrune L et.1).rel
  unfold prunedTo initPrune
  rw [w.hrel]
  apply List.map_congr_left
  intro i hi
  rw [if_pos (List.mem_range.1 hi)]
  exact foldl_filter_mask et.1.part.length (noPre L et.1) _ _ (fun c hc => w.hrow i c hc)

/-! ### "initialize counters": no call on the relation -/

theorem initCountersI_frameR (L : LTS) (so : Nat) (et : IE) :
    (initCountersI L so et).1.rel = et.1.rel ∧ (initCountersI L so et).2.sr = et.2.sr := by
  have inner : ∀ (b1 : Nat) (as : List Nat) (et : IE),
      (as.foldl (fun (et : IE) a => (initSlot L b1 et.1 a, et.2.addSS (slotT L so et.1 b1 a))) et).1.rel = et.1.rel ∧
      (as.foldl (fun (et : IE) a => (initSlot L b1 et.1 a, et.2.addSS (slotT L so et.1 b1 a))) et).2.sr = et.2.sr := by
    intro b1 as
    induction as with
    | nil => intro et; exact ⟨rfl, rfl⟩
    | cons a as ih =>
      intro et
      obtain ⟨i1, i2⟩ := ih (initSlot L b1 et.1 a, et.2.addSS (slotT L so et.1 b1 a))
      exact ⟨i1.trans (initSlot_frame L b1 et.1 a).2.1, i2⟩
  have outer : ∀ (bs : List Nat) (et : IE),
      (bs.foldl (fun (et : IE) b1 =>
        (et.1.ins b1).foldl (fun (et : IE) a => (initSlot L b1 et.1 a, et.2.addSS (slotT L so et.1 b1 a))) et) et).1.rel =
        et.1.rel ∧
      (bs.foldl (fun (et : IE) b1 =>
        (et.1.ins b1).foldl (fun (et : IE) a => (initSlot L b1 et.1 a, et.2.addSS (slotT L so et.1 b1 a))) et) et).2.sr =
        et.2.sr := by
    intro bs
    induction bs with
    | nil => intro et; exact ⟨rfl, rfl⟩
    | cons b bs ih =>
      intro et
      obtain ⟨i1, i2⟩ := ih ((et.1.ins b).foldl
        (fun (et : IE) a => (initSlot L b et.1 a, et.2.addSS (slotT L so et.1 b a))) et)
      obtain ⟨j1, j2⟩ := inner b (et.1.ins b) et
      exact ⟨i1.trans j1, i2.trans j2⟩
  exact outer _ (et.1, et.2.addSS [SS.Op.new 0])

/-! ### `init` -/

theorem init_goodR {L : LTS} {part : List (List Nat)} {rel : Rel}
    (hp : isPartition part L.n = true) (hc : isConsistent part rel = true) :
    GoodR L (engineInitI L part rel).1 (engineInitI L part rel).2 := by
  have wA := initBlocks_wf (L := L) hp hc
  obtain ⟨_, wB, _, _, _⟩ := initRefine_spec wA
  have gA : GoodR L (initBlocksI L (objI L) part rel ⟨delta1T L, []⟩).1 (initBlocksI L (objI L) part rel ⟨delta1T L, []⟩).2 :=
    initBlocks_goodR (delta1T L) hp hc
  have gB : GoodR L (initRefineI L (objI L) (initBlocksI L (objI L) part rel ⟨delta1T L, []⟩)).1
      (initRefineI L (objI L) (initBlocksI L (objI L) part rel ⟨delta1T L, []⟩)).2 :=
    initRefine_goodR (List.range (labels L)) _ wA gA
  generalize hetB : initRefineI L (objI L) (initBlocksI L (objI L) part rel ⟨delta1T L, []⟩) = etB at gB
  have heB : etB.1 = initRefine L (initBlocks L part rel) := by rw [← hetB, initRefineI_fst]; rfl
  have hinit : engineInitI L part rel = initCountersI L (sObj L etB.1.part.length) (initPruneI L etB) := by
    unfold engineInitI
    simp only [hetB]
  rw [hinit]
  have gC := initPrune_goodR (et := etB) (by rw [heB]; exact wB) gB
  obtain ⟨f1, f2⟩ := initCountersI_frameR L (sObj L etB.1.part.length) (initPruneI L etB)
  exact gC.congr f1 f2

/-! ### `processRemove` -/

theorem processRemove_goodR {L : LTS} {S I : Nat → Nat → Prop} (hL : LtsOK L) {obj : Nat → Nat}
    {e : Eng} {t : Tr} {b a : Nat} {rest : List (Nat × Nat)} (inv : Inv L S I e)
    (hq : e.queue = (b, a) :: rest) (g : GoodR L e t) :
    GoodR L (processRemoveI L obj ({ e with queue := rest }, t) b a).1
      (processRemoveI L obj ({ e with queue := rest }, t) b a).2 := by
  have hb : b < e.part.length := inv.qk.hlt b a (by rw [hq]; exact List.mem_cons_self)
  have hsome : (e.remv b a).isSome = true := (inv.qk.hiff b a).mpr (by rw [hq]; exact List.mem_cons_self)
  obtain ⟨remove, hr⟩ := Option.isSome_iff_exists.mp hsome
  obtain ⟨w0, qk0, _, _⟩ := popState_facts hL inv hq hr
  have hrmN := inv.sem.hN b a hb
  rw [slotL_some hr] at hrmN
  rw [processRemoveI_eq L obj e t b a rest remove hr]
  have gs := split_goodR (obj := obj) (et := (popState e b a rest, t)) w0 qk0 hrmN.2 hrmN.1 (g.congr rfl rfl)
  obtain ⟨par, res, _, _⟩ := split_spec w0 qk0 hrmN.2 hrmN.1
  rw [← splitI_fst L obj (popState e b a rest, t)] at res
  refine pruneI_goodR _ _ _ ?_ gs
  intro c hc
  obtain ⟨s, _, p, hp, hpc⟩ := (mem_buildPre (L := L) (e := popState e b a rest) b a c).1 hc
  have h1 := (w0.blockOf_mem (hL _ hp).1).1
  rw [hpc] at h1
  have h2 := res.rs.hlen
  have h3 := res.wf.hrel
  show c < (splitI L obj (popState e b a rest, t) (flat remove)).1.1.rel.length
  rw [h3]
  exact Nat.lt_of_lt_of_le h1 h2

/-! ### the whole run -/

theorem stepOnce_goodR {L : LTS} {S I : Nat → Nat → Prop} (hL : LtsOK L) {obj : Nat → Nat}
    {et : IE} (inv : Inv L S I et.1) (g : GoodR L et.1 et.2) :
    GoodR L (stepOnceI L obj et).1 (stepOnceI L obj et).2 := by
  unfold stepOnceI
  cases hq : et.1.queue with
  | nil => exact g
  | cons k rest =>
    obtain ⟨b, a⟩ := k
    exact processRemove_goodR hL inv hq g

theorem stateAfter_goodR {L : LTS} (hL : LtsOK L) {part : List (List Nat)} {rel : Rel}
    (hp : isPartition part L.n = true) (hc : isConsistent part rel = true) (htr : RelTrans part rel) :
    ∀ k, GoodR L (stateAfterI L part rel k).1 (stateAfterI L part rel k).2
  | 0 => init_goodR hp hc
  | k + 1 => by
    have inv := engine_invariant_always hL hp hc htr k
    rw [← stateAfterI_fst] at inv
    exact stepOnce_goodR hL inv (stateAfter_goodR hL hp hc htr k)

/-- `run()` returns with an empty queue -/
theorem engineRunI_queue {L : LTS} {obj : Nat → Nat} : ∀ (fuel : Nat) (et r : IE), engineRunI L obj fuel et = some r →
    r.1.queue = []
  | 0, et, r, h => by
    unfold engineRunI at h
    split at h
    · rename_i hq
      cases h
      exact List.isEmpty_iff.1 hq
    · cases h
  | fuel + 1, et, r, h => by
    unfold engineRunI at h
    cases hq : et.1.queue with
    | nil => rw [hq] at h; cases h; exact hq
    | cons k rest =>
      obtain ⟨b, a⟩ := k
      rw [hq] at h
      exact engineRunI_queue fuel _ r h

end Vata.LEC
