import Vata.Proofs.LtsEngineCallsRun2
import Vata.Proofs.LtsUtilSR6
/-!
# The instrumented LTS engine: the `SplittingRelation` calls are inside the discipline `SR.ok` (phases)

`GoodR L e t`: the `SplittingRelation` history `t.sr` emitted so far is inside `SR.ok` from the object as constructed
(`SplittingRelation relation_(lts.states())`: capacity `L.n`, not initialised) and leads to the value `e.rel` – the rows of the
engine model.

* `split_okR`: `relation_.split(block->index_)` is inside the discipline – the index is a block, the block is in its own row
  (`WF.hrefl`; `split` keeps the diagonal and the pruning loops never erase it), and there is room for one more block
  (blocks are non-empty and disjoint: at most `L.n` of them AFTER the split).
* `phase_traceG`: the induction of `phase_trace` (`Vata/Proofs/LtsEngineCallsRun.lean`) for an arbitrary predicate on
  (engine state, trace) that every split step keeps; instantiated with `GoodR` for `fastSplit` and `split`.
* `pruneRow_rel`: one erase loop over row `b1` with a mask has the effect of `SR.Op.eraseRow b1 mask` on the value.
-/
namespace Vata.LEC
open Vata.L Vata.LE Vata.LU

/-! ### histories of `SplittingRelation` -/

theorem srOkAll_append : ∀ (t u : List SR.Op) (a : SR.A),
    SR.okAll a (t ++ u) = (SR.okAll a t && SR.okAll (SR.aRun a t).1 u)
  | [], _, _ => by simp [SR.okAll, SR.aRun]
  | op :: t, u, a => by simp only [List.cons_append, SR.okAll, SR.aRun, srOkAll_append t u, Bool.and_assoc]

theorem srARun_append : ∀ (t u : List SR.Op) (a : SR.A), (SR.aRun a (t ++ u)).1 = (SR.aRun (SR.aRun a t).1 u).1
  | [], _, _ => rfl
  | op :: t, u, a => by simp only [List.cons_append, SR.aRun, srARun_append t u]

/-- the `SplittingRelation` history so far is inside the discipline and leads to the rows of the engine model -/
def GoodR (L : LTS) (e : Eng) (t : Tr) : Prop :=
  SR.okAll ⟨[], L.n, false⟩ t.sr = true ∧ (SR.aRun ⟨[], L.n, false⟩ t.sr).1 = ⟨e.rel, L.n, true⟩

theorem GoodR.add {L : LTS} {e e' : Eng} {t : Tr} {ops : List SR.Op} (g : GoodR L e t)
    (h1 : SR.okAll ⟨e.rel, L.n, true⟩ ops = true) (h2 : (SR.aRun ⟨e.rel, L.n, true⟩ ops).1 = ⟨e'.rel, L.n, true⟩) :
    GoodR L e' (t.addSR ops) := by
  refine ⟨?_, ?_⟩
  · show SR.okAll _ (t.sr ++ ops) = true
    rw [srOkAll_append, g.1, g.2, h1]; rfl
  · show (SR.aRun _ (t.sr ++ ops)).1 = _
    rw [srARun_append, g.2, h2]

theorem GoodR.congr {L : LTS} {e e' : Eng} {t t' : Tr} (g : GoodR L e t) (h1 : e'.rel = e.rel) (h2 : t'.sr = t.sr) :
    GoodR L e' t' := by
  unfold GoodR; rw [h1, h2]; exact g

/-! ### `relation_.split(block->index_)` -/

theorem split_okR {L : LTS} {e : Eng} {t : Tr} {b : Nat} {rest new : List Nat} (w : WF L e) (s : SplitOK e b rest new)
    (e' : Eng) (hrel : e'.rel = (splitBlockCore L e b rest new).rel) (g : GoodR L e t) :
    GoodR L e' (t.addSR [SR.Op.split b]) := by
  have hlen := (core_wf w s).len_le
  rw [core_length] at hlen
  have hrefl : (e.rel.getD b []).contains b = true := by
    have := w.hrefl b s.hb
    simpa [Eng.row] using this
  refine g.add ?_ ?_
  · simp only [SR.okAll, SR.ok, Bool.and_true, Bool.true_and, Bool.and_eq_true, decide_eq_true_eq, hrefl, w.hrel]
    exact ⟨s.hb, by omega⟩
  · rw [hrel]; rfl

/-! ### one phase, for an arbitrary predicate -/

section phase
variable {L : LTS} {e0 : Eng} {rm : List Nat} {obj : Nat → Nat} (step : Eng → Nat → List Nat → List Nat → Eng)
  (P : Eng → (Nat → Nat) → Prop) (G : Eng → Tr → Prop)

theorem phase_traceG (hs : StepOK L step P) (w0 : WF L e0) (hrm : ∀ q, q ∈ rm → q < L.n) (hnd : rm.Nodup)
    (hG : ∀ e par t b rest new, WF L e → P e par → SplitOK e b rest new → G e t →
      G (step e b rest new) ((t.addSS (ctor2T L (obj b) (obj e.part.length) new)).addSR [SR.Op.split b])) :
    ∀ (todo done : List Nat) (emt : (Eng × List Nat) × Tr) (par : Nat → Nat), todo.Nodup →
      (∀ b, b ∈ todo → b ∈ modifiedBlocks e0.part rm ∧ b ∉ done) →
      PhaseInv L e0 rm done emt.1 par → P emt.1.1 par → G emt.1.1 emt.2 →
      G (todo.foldl (gStepI L obj step e0.part rm) emt).1.1 (todo.foldl (gStepI L obj step e0.part rm) emt).2
  | [], _, _, _, _, _, _, _, g => g
  | b :: todo, done, emt, par, hn, hto, inv, hP, g => by
    have hn' := List.nodup_cons.mp hn
    have hbm := (hto b List.mem_cons_self).1
    have hbd := (hto b List.mem_cons_self).2
    obtain ⟨par1, inv1, hP1⟩ := phase_step step P hs w0 hrm hnd inv hP hbm hbd
    rw [← gStepI_fst L obj] at inv1 hP1
    have g1 : G (gStepI L obj step e0.part rm emt b).1.1 (gStepI L obj step e0.part rm emt b).2 := by
      obtain ⟨q0, hq0rm, hq0b⟩ := (mem_modifiedBlocks w0 hrm b).mp hbm
      have hb0 : b < e0.part.length := lt_of_mem_block hq0b
      have hbk : b < emt.1.1.part.length := Nat.lt_of_lt_of_le hb0 inv.rs.hlen
      have hblk : emt.1.1.block b = e0.block b := inv.hkeep b hb0 hbd
      have htmp := mem_tmpOf w0 hrm b
      have htnd : (tmpOf e0.part rm b).Nodup := nodup_filter _ hnd
      have htsub : ∀ x, x ∈ tmpOf e0.part rm b → x ∈ emt.1.1.block b := fun x hx => hblk ▸ ((htmp x).mp hx).2
      unfold gStepI
      cases hts : trySplit (emt.1.1.block b) (tmpOf e0.part rm b) with
      | none => exact g
      | some rn =>
        obtain ⟨rest, new⟩ := rn
        obtain ⟨t1, t2, t3, t4, t5, t6⟩ := trySplit_some (inv.wf.hnd b) htnd htsub hts
        have sok : SplitOK emt.1.1 b rest new := by
          refine ⟨hbk, fun q hq => htsub q ((t1 q).mp hq), ?_, t3, t4, t5, t6⟩
          intro q
          rw [t2 q, t1 q]
        exact hG emt.1.1 par emt.2 b rest new inv.wf hP sok g
    exact phase_traceG hs w0 hrm hnd hG todo (b :: done) _ par1 hn'.2
      (fun c hc => ⟨(hto c (List.mem_cons_of_mem _ hc)).1, fun h => by
        rcases List.mem_cons.mp h with h | h
        · exact hn'.1 (h ▸ hc)
        · exact (hto c (List.mem_cons_of_mem _ hc)).2 h⟩) inv1 hP1 g1

theorem phase_traceG_all (hs : StepOK L step P) (w0 : WF L e0) (hrm : ∀ q, q ∈ rm → q < L.n) (hnd : rm.Nodup)
    (hG : ∀ e par t b rest new, WF L e → P e par → SplitOK e b rest new → G e t →
      G (step e b rest new) ((t.addSS (ctor2T L (obj b) (obj e.part.length) new)).addSR [SR.Op.split b]))
    (hP : P e0 id) (t : Tr) (g : G e0 t) :
    G ((modifiedBlocks e0.part rm).foldl (gStepI L obj step e0.part rm) ((e0, []), t)).1.1
      ((modifiedBlocks e0.part rm).foldl (gStepI L obj step e0.part rm) ((e0, []), t)).2 := by
  have inv0 : PhaseInv L e0 rm [] (e0, []) id := by
    refine ⟨w0, RefineS.refl L e0, fun _ _ => rfl, fun _ _ _ => rfl, fun _ _ _ => rfl, ?_, ?_⟩
    · intro i hi hd
      rcases hd with hd | hd
      · cases hd
      · exact absurd hi (Nat.not_lt_of_le hd)
    · intro i
      constructor
      · intro h; cases h
      · rintro ⟨h1, h2 | h2, _⟩
        · cases h2
        · exact absurd h1 (Nat.not_lt_of_le h2)
  exact phase_traceG step P G hs w0 hrm hnd hG (modifiedBlocks e0.part rm) [] ((e0, []), t) id
    (nodup_dedupF _ _) (fun b hb => ⟨hb, fun h => by cases h⟩) inv0 hP g

/-- every step that changes `rel` like `splitBlockCore` keeps `GoodR` -/
theorem stepG_goodR (hs : StepOK L step P) :
    ∀ e par t b rest new, WF L e → P e par → SplitOK e b rest new → GoodR L e t →
      GoodR L (step e b rest new) ((t.addSS (ctor2T L (obj b) (obj e.part.length) new)).addSR [SR.Op.split b]) := by
  intro e par t b rest new w hP sok g
  obtain ⟨_, s2, _, _⟩ := hs e par b rest new w hP sok
  exact split_okR w sok _ s2 (g.congr rfl rfl)

end phase

/-! ### `fastSplit`, the initial refinement, `split` -/

theorem fastSplit_goodR {L : LTS} {obj : Nat → Nat} {et : IE} {rm : List Nat}
    (w0 : WF L et.1) (hrm : ∀ q, q ∈ rm → q < L.n) (hnd : rm.Nodup) (g : GoodR L et.1 et.2) :
    GoodR L (fastSplitI L obj et rm).1 (fastSplitI L obj et rm).2 := by
  unfold fastSplitI
  rw [fastSplitI_fold L obj et.1.part rm _ et []]
  exact phase_traceG_all (splitBlockCore L) _ (GoodR L) (stepF_ok L et.1) w0 hrm hnd
    (stepG_goodR (splitBlockCore L) _ (stepF_ok L et.1)) ⟨rfl, rfl, rfl, rfl⟩ et.2 g

theorem initRefine_goodR {L : LTS} {obj : Nat → Nat} : ∀ (as : List Nat) (et : IE),
    WF L et.1 → GoodR L et.1 et.2 →
    GoodR L (as.foldl (fun et a => fastSplitI L obj et (delta1 L a)) et).1
      (as.foldl (fun et a => fastSplitI L obj et (delta1 L a)) et).2
  | [], _, _, g => g
  | a :: as, et, w, g => by
    have hrm : ∀ q, q ∈ delta1 L a → q < L.n := fun q hq => ((mem_delta1 L a q).1 hq).1
    have g1 := fastSplit_goodR (obj := obj) w hrm (nodup_delta1 L a) g
    obtain ⟨_, w1, _⟩ := fastSplit_spec w hrm (nodup_delta1 L a)
    rw [← fastSplitI_fst L obj] at w1
    exact initRefine_goodR as _ w1 g1

theorem split_goodR {L : LTS} {obj : Nat → Nat} {et : IE} {rm : List Nat}
    (w0 : WF L et.1) (qk : QOK et.1) (hrm : ∀ q, q ∈ rm → q < L.n) (hnd : rm.Nodup) (g : GoodR L et.1 et.2) :
    GoodR L (splitI L obj et rm).1.1 (splitI L obj et rm).2 := by
  unfold splitI
  rw [splitStepI_eq]
  exact phase_traceG_all (stepS L) _ (GoodR L) (stepS_ok L et.1) w0 hrm hnd
    (stepG_goodR (stepS L) _ (stepS_ok L et.1)) ⟨qk, w0, Refine.refl L et.1, rfl⟩ et.2 g

/-! ### the erase loops -/

theorem decrBlock_rel (L : LTS) (e : Eng) (b1 b2 : Nat) : (decrBlock L e b1 b2).rel = e.rel := by
  rw [decrBlock_eq]; exact (decrAll_frame b1 _ e).2.1

/-- the loop over (a part of) the row: the elements of the mask that were visited are gone -/
theorem pruneCols_rel (L : LTS) (mask : List Nat) (b1 : Nat) : ∀ (cols : List Nat) (e : Eng), b1 < e.rel.length →
    (cols.foldl (pruneCol L mask b1) e).rel =
      e.rel.set b1 ((e.row b1).filter (fun c => !(mask.contains c && cols.contains c)))
  | [], e, hb => by
    have : (e.row b1).filter (fun c => !(mask.contains c && ([] : List Nat).contains c)) = e.row b1 :=
      List.filter_eq_self.2 (by intro x _; simp)
    rw [this]
    symm
    apply set_of_get
    simp [Eng.row, List.getD_eq_getElem?_getD, List.getElem?_eq_getElem hb]
  | c :: cols, e, hb => by
    simp only [List.foldl_cons]
    rw [pruneCol_eq]
    by_cases hm : mask.contains c = true
    · rw [if_pos hm]
      have hrel : (decrBlock L (eraseRel e b1 c) b1 c).rel = e.rel.set b1 ((e.row b1).filter (fun x => x != c)) :=
        decrBlock_rel L _ b1 c
      have hrow : (decrBlock L (eraseRel e b1 c) b1 c).row b1 = (e.row b1).filter (fun x => x != c) := by
        simp only [Eng.row, hrel, List.getD_eq_getElem?_getD, List.getElem?_set_self hb, Option.getD_some]
      rw [pruneCols_rel L mask b1 cols _ (by rw [hrel, List.length_set]; exact hb), hrel, hrow, List.set_set, List.filter_filter]
      congr 1
      apply List.filter_congr
      intro x _
      by_cases hxc : x = c
      · subst hxc
        have hm' : x ∈ mask := by simpa using hm
        simp [hm']
      · simp [hxc]
    · rw [if_neg hm, pruneCols_rel L mask b1 cols e hb]
      congr 1
      apply List.filter_congr
      intro x _
      by_cases hxc : x = c
      · subst hxc
        have hm' : x ∉ mask := by simpa using hm
        simp [hm']
      · simp [hxc]

/-- `for (col = row.begin(); col != row.end(); ++col) if (mask[*col]) relation_.erase(col)` on the rows of the engine model
is `SR.Op.eraseRow b1 mask` on the value of `Vata/LtsUtil.lean` -/
theorem pruneRow_rel (L : LTS) (mask : List Nat) (e : Eng) (b1 : Nat) (hb : b1 < e.rel.length) :
    (pruneRow L mask e b1).rel = e.rel.set b1 ((e.rel.getD b1 []).filter (fun c => !mask.contains c)) := by
  unfold pruneRow
  rw [pruneCols_rel L mask b1 (e.row b1) e hb]
  congr 1
  apply List.filter_congr
  intro x hx
  have : (e.row b1).contains x = true := by simpa using hx
  rw [this, Bool.and_true]

theorem eraseRow_goodR {L : LTS} {e : Eng} {t : Tr} (mask : List Nat) {b1 : Nat} (hb : b1 < e.rel.length)
    (g : GoodR L e t) : GoodR L (pruneRow L mask e b1) (t.addSR [SR.Op.eraseRow b1 mask]) := by
  refine g.add ?_ ?_
  · simp [SR.okAll, SR.ok, hb]
  · rw [pruneRow_rel L mask e b1 hb]; rfl

/-- the loop over `preList` of `processRemove` -/
theorem pruneI_goodR {L : LTS} (mask : List Nat) : ∀ (pl : List Nat) (et : IE), (∀ b, b ∈ pl → b < et.1.rel.length) →
    GoodR L et.1 et.2 →
    GoodR L (pl.foldl (fun (et : IE) b1 => (pruneRow L mask et.1 b1, et.2.addSR [SR.Op.eraseRow b1 mask])) et).1
      (pl.foldl (fun (et : IE) b1 => (pruneRow L mask et.1 b1, et.2.addSR [SR.Op.eraseRow b1 mask])) et).2
  | [], _, _, g => g
  | b :: pl, et, hpl, g => by
    simp only [List.foldl_cons]
    have hb := hpl b List.mem_cons_self
    refine pruneI_goodR mask pl _ ?_ (eraseRow_goodR mask hb g)
    intro c hc
    show c < (pruneRow L mask et.1 b).rel.length
    rw [pruneRow_rel L mask et.1 b hb, List.length_set]
    exact hpl c (List.mem_cons_of_mem _ hc)

end Vata.LEC
