import Vata.UnionIsectMapsBU
import Vata.Proofs.IsectBUTotal
import Vata.Proofs.UnionIsectMapsBUInv
/-!
# Property C02 – `IntersectionBU` started from ANY caller-supplied map returns within the fuel `isectBUFromFuel`

No hypothesis on the entry map `m0` (it need not be `MapOk`, its keys need not be distinct, they need not be pairs of
states).  The loop keeps the map of the form `m0 ++ new` where the keys of `new` are distinct pairs of states (`TInv`; the
`erase` of the C++ removes only the entry inserted tentatively in the same iteration, `Ibu.buProcPair_notready`).  Every
number on the stack is in the list `allowed A B m0` = the numbers carried by `m0` followed by the possible fresh numbers
`|m0|, …, |m0| + |Q_A|·|Q_B| − 1`; `newStates` is a duplicate-free sublist of it.  Hence
`|stack| + (|allowed| − |newStates|)·pushBound` decreases with every pop.

* `Ibt.loop_total`            the loop ends within that many pops
* `isectBUFrom_total`         `isectBUFrom A B m0 fuel` returns for every `fuel ≥ isectBUFromFuel A B m0`
* `isectBUFromRef_lang`       for a `MapOk` entry map the call with that fuel returns the exact product
-/
namespace Vata
namespace Ibt
open Isx Ibu

/-- the numbers an entry of the stack can carry -/
def allowed (A B : TA) (m0 : PMap) : List Nat :=
  m0.map Prod.snd ++ (List.range (A.states.length * B.states.length)).map (· + m0.length)

theorem length_allowed (A B : TA) (m0 : PMap) : (allowed A B m0).length = m0.length + A.states.length * B.states.length := by
  simp [allowed]

/-- the map is the entry map followed by entries for distinct pairs of states that carry allowed numbers -/
def TInv (A B : TA) (m0 m : PMap) : Prop :=
  ∃ new : PMap, m = m0 ++ new ∧ new.dom.Nodup ∧ (∀ p, p ∈ new.dom → p ∈ allPairs2 A.states B.states) ∧
    ∀ e, e ∈ new → e.2 ∈ allowed A B m0

theorem tinv_init (A B : TA) (m0 : PMap) : TInv A B m0 m0 :=
  ⟨[], by simp, List.nodup_nil, fun p hp => by simp [PMap.dom] at hp, fun e he => by simp at he⟩

theorem tinv_insert {A B : TA} {m0 m : PMap} (h : TInv A B m0 m) {p : Nat × Nat} (hp : p ∈ allPairs2 A.states B.states) :
    TInv A B m0 (buInsert m p).1 ∧ (buInsert m p).2.1 ∈ allowed A B m0 := by
  obtain ⟨new, hm, hnd, hsub, hval⟩ := h
  cases hl : m.lookup p with
  | some n =>
    rw [buInsert_some hl]
    refine ⟨⟨new, hm, hnd, hsub, hval⟩, ?_⟩
    have hmem : (p, n) ∈ m := mem_of_lookup hl
    rw [hm] at hmem
    rcases List.mem_append.mp hmem with h1 | h1
    · exact List.mem_append_left _ (List.mem_map.mpr ⟨(p, n), h1, rfl⟩)
    · exact hval _ h1
  | none =>
    rw [buInsert_none hl]
    have hpm : p ∉ m.dom := lookup_none_iff.mp hl
    have hpn : p ∉ new.dom := by
      intro hc
      apply hpm
      rw [hm]
      simp only [PMap.dom, List.map_append, List.mem_append]
      exact Or.inr hc
    have hnd' : (new ++ [(p, m.length)]).dom.Nodup := by
      show ((new ++ [(p, m.length)]).map Prod.fst).Nodup
      rw [List.map_append, List.nodup_append]
      refine ⟨hnd, by simp, ?_⟩
      intro a ha b hb hab
      simp only [List.map_cons, List.map_nil, List.mem_singleton] at hb
      subst hb
      subst hab
      exact hpn ha
    have hsub' : ∀ x, x ∈ (new ++ [(p, m.length)]).dom → x ∈ allPairs2 A.states B.states := by
      intro x hx
      rcases dom_snoc.mp hx with h1 | h1
      · exact hsub x h1
      · rw [h1]; exact hp
    have hlen : new.length + 1 ≤ A.states.length * B.states.length := by
      have := hnd'.length_le_of_subset (fun x hx => hsub' x hx)
      rw [length_allPairs2] at this
      simpa [PMap.dom] using this
    have hfresh : m.length ∈ allowed A B m0 := by
      apply List.mem_append_right
      refine List.mem_map.mpr ⟨new.length, List.mem_range.mpr (by omega), ?_⟩
      rw [hm, List.length_append]
      omega
    refine ⟨⟨new ++ [(p, m.length)], by rw [hm, List.append_assoc], hnd', hsub', ?_⟩, hfresh⟩
    intro e he
    rcases List.mem_append.mp he with h1 | h1
    · exact hval e h1
    · rw [List.mem_singleton.mp h1]; exact hfresh

/-- one pair of rules: the map keeps its form and a pushed entry carries an allowed number -/
theorem tinv_procPair {A B : TA} {m0 m : PMap} {r r' : Rule} (hm : Matching A B r r') (h : TInv A B m0 m)
    (st : List BUEntry) (rs : List Rule) (hst : ∀ e, e ∈ st → e.2 ∈ allowed A B m0) :
    TInv A B m0 (buProcPair r r' m st rs).1 ∧ ∀ e, e ∈ (buProcPair r r' m st rs).2.1 → e.2 ∈ allowed A B m0 := by
  by_cases hk : ∀ c, c ∈ r.kids.zip r'.kids → c ∈ m.dom
  · rw [buProcPair_ready st rs hk]
    obtain ⟨h1, h2⟩ := tinv_insert h (parents_mem hm)
    refine ⟨h1, ?_⟩
    intro e he
    rcases List.mem_cons.mp he with h3 | h3
    · rw [h3]; exact h2
    · exact hst e h3
  · have hk' : ∃ c, c ∈ r.kids.zip r'.kids ∧ c ∉ m.dom := by
      apply Classical.byContradiction
      intro hne
      apply hk
      intro c hc
      apply Classical.byContradiction
      intro hcd
      exact hne ⟨c, hc, hcd⟩
    rw [buProcPair_notready st rs hk']
    exact ⟨h, hst⟩

theorem tinv_procAll {A B : TA} {m0 : PMap} : ∀ (L : List (Rule × Rule)) (m : PMap) (st : List BUEntry) (rs : List Rule),
    (∀ rr, rr ∈ L → Matching A B rr.1 rr.2) → TInv A B m0 m → (∀ e, e ∈ st → e.2 ∈ allowed A B m0) →
    TInv A B m0 (buProcAll L m st rs).1 ∧ ∀ e, e ∈ (buProcAll L m st rs).2.1 → e.2 ∈ allowed A B m0
  | [], m, st, rs, _, h, hst => by simpa only [buProcAll] using ⟨h, hst⟩
  | rr :: rest, m, st, rs, hL, h, hst => by
    simp only [buProcAll]
    obtain ⟨h1, h2⟩ := tinv_procPair (hL rr List.mem_cons_self) h st rs hst
    exact tinv_procAll rest _ _ _ (fun x hx => hL x (List.mem_cons_of_mem _ hx)) h1 h2

theorem tinv_leafPhase {A B : TA} {m0 : PMap} : ∀ (L : List (Rule × Rule)) (m : PMap) (st : List BUEntry) (rs : List Rule)
    (fs : List Nat), (∀ rr, rr ∈ L → Matching A B rr.1 rr.2) → TInv A B m0 m → (∀ e, e ∈ st → e.2 ∈ allowed A B m0) →
    TInv A B m0 (buLeafPhase A B L m st rs fs).1 ∧ ∀ e, e ∈ (buLeafPhase A B L m st rs fs).2.1 → e.2 ∈ allowed A B m0
  | [], m, st, rs, fs, _, h, hst => by simpa only [buLeafPhase] using ⟨h, hst⟩
  | rr :: rest, m, st, rs, fs, hL, h, hst => by
    simp only [buLeafPhase]
    obtain ⟨h1, h2⟩ := tinv_insert h (parents_mem (hL rr List.mem_cons_self))
    apply tinv_leafPhase rest _ _ _ _ (fun x hx => hL x (List.mem_cons_of_mem _ hx)) h1
    intro e he
    rcases List.mem_cons.mp he with h3 | h3
    · rw [h3]; exact h2
    · exact hst e h3

/-- the loop ends, whatever the entry map was -/
theorem loop_total {A B : TA} {m0 : PMap} : ∀ (n : Nat) (m : PMap) (st : List BUEntry) (ns : List Nat) (rs : List Rule)
    (fs : List Nat), TInv A B m0 m → (∀ e, e ∈ st → e.2 ∈ allowed A B m0) → (∀ k, k ∈ ns → k ∈ allowed A B m0) → ns.Nodup →
    st.length + ((allowed A B m0).length - ns.length) * pushBound A B ≤ n →
    (buLoop A B n m st ns rs fs).isSome = true
  | 0, m, st, ns, rs, fs, _, _, _, _, hn => by
    have : st = [] := List.length_eq_zero_iff.mp (by omega)
    subst this
    simp [buLoop]
  | n+1, m, [], ns, rs, fs, _, _, _, _, _ => by simp [buLoop]
  | n+1, m, e :: st, ns, rs, fs, h, hst, hns, hnd, hn => by
    simp only [buLoop]
    split
    · apply loop_total n m st ns rs fs h (fun x hx => hst x (List.mem_cons_of_mem _ hx)) hns hnd
      simp only [List.length_cons] at hn
      omega
    · rename_i hc
      have hk : e.2 ∉ ns := fun hmem => hc (List.contains_iff_mem.mpr hmem)
      have hnd' : (e.2 :: ns).Nodup := List.nodup_cons.mpr ⟨hk, hnd⟩
      have hns' : ∀ k, k ∈ e.2 :: ns → k ∈ allowed A B m0 := by
        intro k hk'
        rcases List.mem_cons.mp hk' with h1 | h1
        · rw [h1]; exact hst e List.mem_cons_self
        · exact hns k h1
      obtain ⟨h1, h2⟩ := tinv_procAll (A := A) (B := B) (m0 := m0) (buMatching A B e.1) m st rs
        (fun rr hrr => (mem_buMatching.mp hrr).1) h (fun x hx => hst x (List.mem_cons_of_mem _ hx))
      have hlen := hnd'.length_le_of_subset (fun x hx => hns' x hx)
      have hstl := length_buProcAll_le (buMatching A B e.1) m st rs
      have hM := length_buMatching_le A B e.1
      apply loop_total n _ _ _ _ _ h1 h2 hns' hnd'
      simp only [List.length_cons] at hn hlen ⊢
      obtain ⟨d, hdd⟩ : ∃ d, (allowed A B m0).length - ns.length = d + 1 :=
        ⟨(allowed A B m0).length - ns.length - 1, by omega⟩
      have hd2 : (allowed A B m0).length - (ns.length + 1) = d := by omega
      rw [hdd, Nat.succ_mul] at hn
      rw [hd2]
      omega

end Ibt

/-- **totality for every entry map**: with at least `isectBUFromFuel A B m0` units of fuel `isectBUFrom A B m0` returns -/
theorem isectBUFrom_total (A B : TA) (m0 : PMap) (fuel : Nat) (hf : isectBUFromFuel A B m0 ≤ fuel) :
    (isectBUFrom A B m0 fuel).isSome = true := by
  obtain ⟨h1, h2⟩ := Ibt.tinv_leafPhase (A := A) (B := B) (m0 := m0) (buLeafPairs A B) m0 [] [] []
    (fun rr hrr => (Ibu.mem_buLeafPairs.mp hrr).1) (Ibt.tinv_init A B m0) (fun e he => by simp at he)
  have hlen := Ibu.length_buLeafPhase A B (buLeafPairs A B) m0 [] [] []
  have hL := Ibu.length_buLeafPairs_le A B
  have ht := Ibt.loop_total (A := A) (B := B) (m0 := m0) fuel _ _ [] (buLeafPhase A B (buLeafPairs A B) m0 [] [] []).2.2.1
    (buLeafPhase A B (buLeafPairs A B) m0 [] [] []).2.2.2 h1 h2 (fun k hk => by simp at hk) List.nodup_nil (by
    rw [hlen, Ibt.length_allowed]
    unfold isectBUFromFuel at hf
    unfold Ibu.pushBound Ibu.maxAr
    simp only [List.length_nil, Nat.sub_zero, Nat.zero_add]
    omega)
  unfold isectBUFrom
  simp only
  split
  · rename_i hl; rw [hl] at ht; simp at ht
  · rfl

theorem isectBUFromRef_isSome (A B : TA) (m0 : PMap) : (isectBUFromRef A B m0).isSome = true :=
  isectBUFrom_total A B m0 _ (Nat.le_refl _)

/-- for a `MapOk` entry map the call with the fuel `isectBUFromFuel` returns the exact product -/
theorem isectBUFromRef_lang (A B : TA) (m0 : PMap) (hok : Isx.MapOk m0) :
    ∃ P m, isectBUFromRef A B m0 = some (P, m) ∧ (∀ t, accepts P t = (accepts A t && accepts B t)) ∧
      InjOn (lookupF m) m.dom ∧ Isx.Ext m0 m := by
  cases h : isectBUFromRef A B m0 with
  | none => have := isectBUFromRef_isSome A B m0; rw [h] at this; simp at this
  | some r =>
    exact ⟨r.1, r.2, rfl, isectBUFrom_lang (fuel := isectBUFromFuel A B m0) hok h,
      isectBUFrom_map_inj (fuel := isectBUFromFuel A B m0) hok h, isectBUFrom_ext (fuel := isectBUFromFuel A B m0) hok h⟩

theorem isectBUFromFuel_nil (A B : TA) : isectBUFromFuel A B [] = isectBUFuel A B := by
  simp [isectBUFromFuel, isectBUFuel]

end Vata
