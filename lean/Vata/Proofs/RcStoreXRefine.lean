import Vata.Proofs.RcStoreXOps
import Vata.Proofs.StoreRefine
/-!
# The new store operations compute the tree-level operations (C17 at store level)

`diagram s n` is the tree below node `n` (`Vata/Proofs/StoreRefine.lean`).  For each builder of `Vata/RcStoreX.lean` the
diagram of the result is the tree-level operation of `Vata/MtbddOps.lean` applied to the diagrams of the arguments; only
the invariant `WInv` is needed (so the theorems hold in stores with garbage left by `Project`, and for non-monotone
renamers).
-/
namespace Vata.RcSX
open Vata.R (Data Closed)
open Vata.RcS

theorem joinNode_diagram {s : Store} {a b var : Nat} (w : WInv s []) (ha : a ∈ s.ids) (hb : b ∈ s.ids) :
    diagram (joinNode s a b var).1 (joinNode s a b var).2 = M.mk var (diagram s a) (diagram s b) := by
  unfold joinNode M.mk
  split
  · rename_i heq
    rw [if_pos (by rw [heq])]
  · rename_i hne
    obtain ⟨w3, e3, m3, d3, _⟩ := spawnInternal_inv (var := var) w ha hb
    rw [if_neg (fun e => hne (w.diagram_inj ha hb e)), w3.diagram_int m3 d3, w.diagram_ext e3 ha, w.diagram_ext e3 hb]

/-! ## unary apply -/

theorem recDescend1_diagram (f : Nat → Nat) : ∀ (fuel : Nat) (s : Store) (n : Nat), WInv s [] → n ∈ s.ids → n < fuel →
    diagram (recDescend1 f fuel s n).1 (recDescend1 f fuel s n).2 = M.apply1 f (diagram s n)
  | 0, _, _, _, _, hf => by omega
  | fuel+1, s, n, h, hn, hf => by
    simp only [recDescend1]
    split
    · rename_i v hd
      obtain ⟨_, _, _, dl, _⟩ := spawnLeaf_inv (v := f v) h
      rw [diagram_leaf dl, diagram_leaf hd, M.apply1]
    · rename_i lo hi var hd
      obtain ⟨c1, c2⟩ := h.closed n hn lo hi var hd
      obtain ⟨o1, o2⟩ := h.ordered n hn lo hi var hd
      obtain ⟨w1, e1, m1, _⟩ := recDescend1_inv f fuel s lo h c1 (by omega)
      obtain ⟨w2, e2, m2, _⟩ := recDescend1_inv f fuel _ hi w1 (e1.ids _ c2) (by omega)
      have i1 := recDescend1_diagram f fuel s lo h c1 (by omega)
      have i2 := recDescend1_diagram f fuel _ hi w1 (e1.ids _ c2) (by omega)
      rw [h.diagram_ext e1 c2] at i2
      rw [joinNode_diagram w2 (e2.ids _ m1) m2, w1.diagram_ext e2 m1, i1, i2, h.diagram_int hn hd, M.apply1]

/-! ## ternary apply -/

theorem leafOrLe_diagram {s : Store} {P : List Nat} (h : WInv s P) {n : Nat} (hn : n ∈ s.ids) (x : Nat) :
    M.leafOrLe x (diagram s n) = leOrLeaf x (s.dat n) := by
  cases hd : s.dat n with
  | leaf v => rw [diagram_leaf hd]; rfl
  | int lo hi y => rw [h.diagram_int hn hd]; rfl

theorem branch3_diagram {s : Store} {P : List Nat} (h : WInv s P) {n1 n2 n3 : Nat} (h1 : n1 ∈ s.ids) (h2 : n2 ∈ s.ids)
    (h3 : n3 ∈ s.ids) : M.branch3 (diagram s n1) (diagram s n2) (diagram s n3) = br3 (s.dat n1) (s.dat n2) (s.dat n3) := by
  cases hd : s.dat n1 with
  | leaf v => rw [diagram_leaf hd]; rfl
  | int lo hi y =>
    rw [h.diagram_int h1 hd]
    simp only [M.branch3, br3]
    rw [leafOrLe_diagram h h2, leafOrLe_diagram h h3]

theorem lowIf_diagram {s : Store} {P : List Nat} (h : WInv s P) {n : Nat} (hn : n ∈ s.ids) (b : Bool) :
    M.lowIf b (diagram s n) = diagram s (kids (s.dat n) b n).1 ∧ M.highIf b (diagram s n) = diagram s (kids (s.dat n) b n).2 := by
  cases hd : s.dat n with
  | leaf v => cases b <;> simp only [kids, diagram_leaf hd, M.lowIf, M.highIf] <;> exact ⟨trivial, trivial⟩
  | int lo hi y =>
    cases b
    · simp only [kids, M.lowIf, M.highIf]; exact ⟨trivial, trivial⟩
    · simp only [kids, h.diagram_int hn hd, M.lowIf, M.highIf]; exact ⟨trivial, trivial⟩

theorem varOf_diagram {s : Store} {P : List Nat} (h : WInv s P) {n : Nat} (hn : n ∈ s.ids) :
    M.varOf (diagram s n) = varOf (s.dat n) := by
  cases hd : s.dat n with
  | leaf v => rw [diagram_leaf hd]; rfl
  | int lo hi y => rw [h.diagram_int hn hd]; rfl

theorem leafVal_diagram {s : Store} {P : List Nat} (h : WInv s P) {n : Nat} (hn : n ∈ s.ids)
    (hl : diagram s n = .leaf (M.leafVal (diagram s n))) : M.leafVal (diagram s n) = valOf (s.dat n) := by
  cases hd : s.dat n with
  | leaf v => rw [diagram_leaf hd]; rfl
  | int lo hi y => rw [h.diagram_int hn hd] at hl; cases hl

theorem recDescend3_diagram (f : Nat → Nat → Nat → Nat) : ∀ (fuel : Nat) (s : Store) (n1 n2 n3 : Nat), WInv s [] →
    n1 ∈ s.ids → n2 ∈ s.ids → n3 ∈ s.ids → n1 + n2 + n3 < fuel →
    diagram (recDescend3 f fuel s n1 n2 n3).1 (recDescend3 f fuel s n1 n2 n3).2 =
      M.apply3 f (diagram s n1) (diagram s n2) (diagram s n3)
  | 0, _, _, _, _, _, _, _, _, hf => by omega
  | fuel+1, s, n1, n2, n3, h, h1, h2, h3, hf => by
    have eb1 := branch3_diagram h h1 h2 h3
    have eb2 := branch3_diagram h h2 h1 h3
    have eb3 := branch3_diagram h h3 h1 h2
    simp only [recDescend3]
    rw [M.apply3]
    split
    · rename_i hb
      have hnb : ¬ (M.branch3 (diagram s n1) (diagram s n2) (diagram s n3) ||
          M.branch3 (diagram s n2) (diagram s n1) (diagram s n3) ||
          M.branch3 (diagram s n3) (diagram s n1) (diagram s n2)) = true := by
        rw [eb1, eb2, eb3, hb.1, hb.2.1, hb.2.2]; simp
      obtain ⟨l1, l2, l3⟩ := M.branch3_none hnb
      obtain ⟨_, _, _, dl, _⟩ := spawnLeaf_inv (v := f (valOf (s.dat n1)) (valOf (s.dat n2)) (valOf (s.dat n3))) h
      rw [if_neg hnb, diagram_leaf dl, leafVal_diagram h h1 l1, leafVal_diagram h h2 l2, leafVal_diagram h h3 l3]
    · rename_i hb
      have hpb : (M.branch3 (diagram s n1) (diagram s n2) (diagram s n3) ||
          M.branch3 (diagram s n2) (diagram s n1) (diagram s n3) ||
          M.branch3 (diagram s n3) (diagram s n1) (diagram s n2)) = true := by
        rw [eb1, eb2, eb3]
        cases e1 : br3 (s.dat n1) (s.dat n2) (s.dat n3) <;> cases e2 : br3 (s.dat n2) (s.dat n1) (s.dat n3) <;>
          cases e3 : br3 (s.dat n3) (s.dat n1) (s.dat n2) <;> simp_all
      obtain ⟨k11, k12, k21, k22, k31, k32, l1, l2⟩ := kids3_ok h h1 h2 h3 _ _ _ br3_true_isInt br3_true_isInt
        br3_true_isInt hb
      obtain ⟨w1, e1, m1, _⟩ := recDescend3_inv f fuel s _ _ _ h k11 k21 k31 (by omega)
      obtain ⟨w2, e2, m2, _⟩ := recDescend3_inv f fuel _ _ _ _ w1 (e1.ids _ k12) (e1.ids _ k22) (e1.ids _ k32) (by omega)
      have i1 := recDescend3_diagram f fuel s _ _ _ h k11 k21 k31 (by omega)
      have i2 := recDescend3_diagram f fuel _ _ _ _ w1 (e1.ids _ k12) (e1.ids _ k22) (e1.ids _ k32) (by omega)
      rw [h.diagram_ext e1 k12, h.diagram_ext e1 k22, h.diagram_ext e1 k32] at i2
      rw [if_pos hpb, joinNode_diagram w2 (e2.ids _ m1) m2, w1.diagram_ext e2 m1, i1, i2]
      rw [(lowIf_diagram h h1 _).1, (lowIf_diagram h h2 _).1, (lowIf_diagram h h3 _).1,
        (lowIf_diagram h h1 _).2, (lowIf_diagram h h2 _).2, (lowIf_diagram h h3 _).2, eb1, eb2, eb3]
      unfold M.topVar3
      rw [eb3, eb2, varOf_diagram h h1, varOf_diagram h h2, varOf_diagram h h3]

/-! ## Project, Rename -/

theorem projectNode_diagram (f : Nat → Nat → Nat) (pred : Nat → Bool) : ∀ (fuel : Nat) (s : Store) (n : Nat), WInv s [] →
    n ∈ s.ids → n < fuel →
    diagram (projectNode f pred fuel s n).1 (projectNode f pred fuel s n).2 = M.project pred f (diagram s n)
  | 0, _, _, _, _, hf => by omega
  | fuel+1, s, n, h, hn, hf => by
    simp only [projectNode]
    split
    · rename_i v hd
      obtain ⟨_, _, _, dl, _⟩ := spawnLeaf_inv (v := v) h
      rw [diagram_leaf dl, diagram_leaf hd, M.project]
    · rename_i lo hi var hd
      obtain ⟨c1, c2⟩ := h.closed n hn lo hi var hd
      obtain ⟨o1, o2⟩ := h.ordered n hn lo hi var hd
      obtain ⟨w1, e1, m1⟩ := projectNode_inv f pred fuel s lo h c1 (by omega)
      obtain ⟨w2, e2, m2⟩ := projectNode_inv f pred fuel _ hi w1 (e1.ids _ c2) (by omega)
      have i1 := projectNode_diagram f pred fuel s lo h c1 (by omega)
      have i2 := projectNode_diagram f pred fuel _ hi w1 (e1.ids _ c2) (by omega)
      rw [h.diagram_ext e1 c2] at i2
      rw [h.diagram_int hn hd, M.project]
      split
      · rw [recDescend_diagram f _ _ _ _ w2 (e2.ids _ m1) m2 (Nat.lt_succ_self _), w1.diagram_ext e2 m1, i1, i2]
      · rw [joinNode_diagram w2 (e2.ids _ m1) m2, w1.diagram_ext e2 m1, i1, i2]

theorem renameNode_diagram (ren : Nat → Nat) : ∀ (fuel : Nat) (s : Store) (n : Nat), WInv s [] → n ∈ s.ids → n < fuel →
    diagram (renameNode ren fuel s n).1 (renameNode ren fuel s n).2 = M.rename ren (diagram s n)
  | 0, _, _, _, _, hf => by omega
  | fuel+1, s, n, h, hn, hf => by
    simp only [renameNode]
    split
    · rename_i v hd
      obtain ⟨_, _, _, dl, _⟩ := spawnLeaf_inv (v := v) h
      rw [diagram_leaf dl, diagram_leaf hd, M.rename]
    · rename_i lo hi var hd
      obtain ⟨c1, c2⟩ := h.closed n hn lo hi var hd
      obtain ⟨o1, o2⟩ := h.ordered n hn lo hi var hd
      obtain ⟨w1, e1, m1, _⟩ := renameNode_inv ren fuel s lo h c1 (by omega)
      obtain ⟨w2, e2, m2, _⟩ := renameNode_inv ren fuel _ hi w1 (e1.ids _ c2) (by omega)
      have i1 := renameNode_diagram ren fuel s lo h c1 (by omega)
      have i2 := renameNode_diagram ren fuel _ hi w1 (e1.ids _ c2) (by omega)
      rw [h.diagram_ext e1 c2] at i2
      obtain ⟨w3, e3, m3, d3, _⟩ := spawnInternal_inv (var := ren var) w2 (e2.ids _ m1) m2
      rw [w3.diagram_int m3 d3, w2.diagram_ext e3 (e2.ids _ m1), w2.diagram_ext e3 m2, w1.diagram_ext e2 m1, i1, i2,
        h.diagram_int hn hd, M.rename]

/-! ## GetMtbddForPrefix -/

theorem prefixWalk_diagram {s : Store} (h : WInv s []) (asgn : List (Option Bool)) (off : Nat) : ∀ (fuel n : Nat),
    n ∈ s.ids → n < fuel → diagram s (prefixWalk s.dat asgn off fuel n) = M.getPrefix asgn off (diagram s n)
  | 0, _, _, hf => by omega
  | fuel+1, n, hn, hf => by
    simp only [prefixWalk]
    split
    · rename_i v hd
      rw [diagram_leaf hd, M.getPrefix]
    · rename_i lo hi var hd
      obtain ⟨c1, c2⟩ := h.closed n hn lo hi var hd
      obtain ⟨o1, o2⟩ := h.ordered n hn lo hi var hd
      rw [h.diagram_int hn hd, M.getPrefix]
      split
      · rw [h.diagram_int hn hd]
      · split
        · exact prefixWalk_diagram h asgn off fuel hi c2 (by omega)
        · exact prefixWalk_diagram h asgn off fuel lo c1 (by omega)

/-! ## ExtendWith -/

theorem constructLoop_shift {α : Type} (off : Nat) (sink : M.Node α) : ∀ (as : List (Option Bool)) (i : Nat) (p : M.Node α),
    M.constructLoop (fun x => x + off) sink as i p = M.constructLoop (fun x => x) sink as (i + off) p
  | [], _, _ => rfl
  | none :: as, i, p => by
    simp only [M.constructLoop]; rw [constructLoop_shift off sink as (i+1) p, Nat.add_right_comm]
  | some true :: as, i, p => by
    simp only [M.constructLoop]; rw [constructLoop_shift off sink as (i+1) _, Nat.add_right_comm]
  | some false :: as, i, p => by
    simp only [M.constructLoop]; rw [constructLoop_shift off sink as (i+1) _, Nat.add_right_comm]

theorem cubeFinish_dat (r : Store × Nat) (node sink d : Nat) : (cubeFinish r node sink d).dat = r.1.dat := by
  unfold cubeFinish
  split
  · split <;> rfl
  · rfl

theorem cubeFinish_hs (r : Store × Nat) (node sink d : Nat) : (cubeFinish r node sink d).hs = r.1.hs := by
  unfold cubeFinish
  split
  · split <;> rfl
  · rfl

/-! ## the handle-level operations -/

theorem apply1_refines (f : Nat → Nat) {s : Store} {a dst ra : Nat} (hw : WInv s []) (ha : find a s.hs = some ra)
    (hd : find dst s.hs = none) :
    ∃ r, find dst (apply1 f s a dst).hs = some r ∧ diagram (apply1 f s a dst) r = M.apply1 f (diagram s ra) ∧
      ∀ ρ, denote (apply1 f s a dst) r ρ = f (denote s ra ρ) := by
  have hra : ra ∈ s.ids := hw.rin ra (root_mem ha)
  have key : diagram (apply1 f s a dst) (recDescend1 f (ra + 1) s ra).2 = M.apply1 f (diagram s ra) := by
    simp only [apply1, ha, hd]
    rw [diagram_addHandle, recDescend1_diagram f _ s ra hw hra (Nat.lt_succ_self _)]
  refine ⟨_, ?_, key, fun ρ => ?_⟩
  · simp only [apply1, ha, hd]; exact find_addHandle _ _ _
  · rw [denote_eq_eval, key, M.apply1_eval]; rfl

theorem apply3_refines (f : Nat → Nat → Nat → Nat) {s : Store} {a b c dst ra rb rc : Nat} (hw : WInv s [])
    (ha : find a s.hs = some ra) (hb : find b s.hs = some rb) (hc : find c s.hs = some rc) (hd : find dst s.hs = none) :
    ∃ r, find dst (apply3 f s a b c dst).hs = some r ∧
      diagram (apply3 f s a b c dst) r = M.apply3 f (diagram s ra) (diagram s rb) (diagram s rc) ∧
      ∀ ρ, denote (apply3 f s a b c dst) r ρ = f (denote s ra ρ) (denote s rb ρ) (denote s rc ρ) := by
  have hra : ra ∈ s.ids := hw.rin ra (root_mem ha)
  have hrb : rb ∈ s.ids := hw.rin rb (root_mem hb)
  have hrc : rc ∈ s.ids := hw.rin rc (root_mem hc)
  have key : diagram (apply3 f s a b c dst) (recDescend3 f (ra + rb + rc + 1) s ra rb rc).2 =
      M.apply3 f (diagram s ra) (diagram s rb) (diagram s rc) := by
    simp only [apply3, ha, hb, hc, hd]
    rw [diagram_addHandle, recDescend3_diagram f _ s ra rb rc hw hra hrb hrc (Nat.lt_succ_self _)]
  refine ⟨_, ?_, key, fun ρ => ?_⟩
  · simp only [apply3, ha, hb, hc, hd]; exact find_addHandle _ _ _
  · rw [denote_eq_eval, key, M.apply3_eval]; rfl

theorem project_refines (f : Nat → Nat → Nat) (pred : Nat → Bool) {s : Store} {a dst ra : Nat} (hw : WInv s [])
    (ha : find a s.hs = some ra) (hd : find dst s.hs = none) :
    ∃ r, find dst (project f pred s a dst).hs = some r ∧
      diagram (project f pred s a dst) r = M.project pred f (diagram s ra) := by
  have hra : ra ∈ s.ids := hw.rin ra (root_mem ha)
  refine ⟨(projectNode f pred (ra + 1) s ra).2, ?_, ?_⟩
  · simp only [project, ha, hd]; exact find_addHandle _ _ _
  · simp only [project, ha, hd]
    rw [diagram_addHandle, projectNode_diagram f pred _ s ra hw hra (Nat.lt_succ_self _)]

theorem rename_refines (ren : Nat → Nat) {s : Store} {a dst ra : Nat} (hw : WInv s [])
    (ha : find a s.hs = some ra) (hd : find dst s.hs = none) :
    ∃ r, find dst (rename ren s a dst).hs = some r ∧ diagram (rename ren s a dst) r = M.rename ren (diagram s ra) ∧
      ∀ σ, denote (rename ren s a dst) r σ = denote s ra (σ ∘ ren) := by
  have hra : ra ∈ s.ids := hw.rin ra (root_mem ha)
  have key : diagram (rename ren s a dst) (renameNode ren (ra + 1) s ra).2 = M.rename ren (diagram s ra) := by
    simp only [rename, ha, hd]
    rw [diagram_addHandle, renameNode_diagram ren _ s ra hw hra (Nat.lt_succ_self _)]
  refine ⟨_, ?_, key, fun σ => ?_⟩
  · simp only [rename, ha, hd]; exact find_addHandle _ _ _
  · rw [denote_eq_eval, key, M.rename_eval]; rfl

theorem getPrefix_refines {s : Store} {a dst ra : Nat} (asgn : List (Option Bool)) (off : Nat) (hw : WInv s [])
    (ha : find a s.hs = some ra) (hd : find dst s.hs = none) :
    ∃ r, find dst (getPrefix s a dst asgn off).hs = some r ∧
      diagram (getPrefix s a dst asgn off) r = M.getPrefix asgn off (diagram s ra) := by
  have hra : ra ∈ s.ids := hw.rin ra (root_mem ha)
  refine ⟨prefixWalk s.dat asgn off (ra + 1) ra, ?_, ?_⟩
  · simp only [getPrefix, ha, hd]; exact find_addHandle _ _ _
  · simp only [getPrefix, ha, hd]
    rw [diagram_addHandle, prefixWalk_diagram hw asgn off (ra + 1) ra hra (Nat.lt_succ_self _)]

theorem extendWith_refines {s : Store} {a dst ra : Nat} (asgn : List (Option Bool)) (off d : Nat) (hw : WInv s [])
    (ha : find a s.hs = some ra) (hd : find dst s.hs = none) :
    ∃ r, find dst (extendWith s a dst asgn off d).hs = some r ∧
      diagram (extendWith s a dst asgn off d) r = M.extendWith asgn off (diagram s ra) d ∧
      ∀ ρ, denote (extendWith s a dst asgn off d) r ρ =
        if M.agrees (fun j => ρ (j + off)) asgn 0 = true then denote s ra ρ else d := by
  have hra : ra ∈ s.ids := hw.rin ra (root_mem ha)
  have main : ∃ r, find dst (extendWith s a dst asgn off d).hs = some r ∧
      diagram (extendWith s a dst asgn off d) r = M.extendWith asgn off (diagram s ra) d := by
    simp only [extendWith, ha, hd]
    split
    · rename_i hl
      refine ⟨ra, find_addHandle _ _ _, ?_⟩
      rw [diagram_addHandle, diagram_leaf hl]
      simp [M.extendWith, M.constructOn]
    · rename_i hl
      have hne : diagram s ra ≠ .leaf d := by
        intro e
        cases hdr : s.dat ra with
        | leaf v => rw [diagram_leaf hdr] at e; cases e; exact hl hdr
        | int lo hi var => rw [hw.diagram_int hra hdr] at e; cases e
      obtain ⟨w2, e2, m2, d2, _⟩ := spawnLeaf_inv (v := d) hw
      refine ⟨_, find_addHandle _ _ _, ?_⟩
      rw [diagram_addHandle, diagram_congr (cubeFinish_dat _ _ _ _), buildCubeT_eq,
        buildCube_diagram _ d asgn _ _ _ w2 m2 (e2.ids _ hra) d2, hw.diagram_ext e2 hra]
      simp only [M.extendWith, M.constructOn, hne, if_false]
      rw [constructLoop_shift]
  obtain ⟨r, h1, h2⟩ := main
  refine ⟨r, h1, h2, fun ρ => ?_⟩
  rw [denote_eq_eval, h2, M.extendWith_eval]; rfl

end Vata.RcSX
