import Vata.UnionIsectMaps
import Vata.Proofs.UnionModel
import Vata.Proofs.PropAux
/-!
# Property C02 – `Union` with ONE translation map for both operands (`unionSameMap`, `Vata/UnionIsectMaps.lean`)

With one map a state NUMBER is translated once, whichever operand it comes from.  So the result is the image, under one
injective map, of the plain juxtaposition `unionDisjoint A B` of the two rule sets – the operands GLUED on their common
state numbers:

* `unionSameMapOrd_glues`         `result = reindex (applyMap M) (unionDisjoint A B)` (equality of automata), the final map
                                  `M` is injective, extends the entry map and is defined on all states of both operands
* `unionSameMapOrd_lang_glued`    hence `L(result) = L(unionDisjoint A B)`
* `unionSameMapOrd_lang`          `= L(A) ∪ L(B)` when the operands have disjoint state sets
* `unionSameMapOrd_exact_iff`     in general: exact iff the juxtaposition is exact
* `UnionSameEx.same_map_counterexample`   overlapping state numbers: the language is too large
All theorems hold for every visiting order that covers the states (hash order of the C++) and for every injective
pre-filled map.
-/
namespace Vata
namespace Usm

theorem reindex_congr {f g : Nat → Nat} {A : TA} (h : ∀ q, q ∈ A.states → f q = g q) : reindex f A = reindex g A := by
  unfold reindex
  congr 1
  · apply List.map_congr_left
    intro r hr
    unfold mapRule
    congr 1
    · exact List.map_congr_left (fun k hk => h k (Rn.kid_mem_states hr hk))
    · exact h _ (Rn.parent_mem_states hr)
  · exact List.map_congr_left (fun q hq => h q (Rn.final_mem_states hq))

theorem reindex_unionDisjoint (f : Nat → Nat) (A B : TA) :
    reindex f (unionDisjoint A B) = unionWith f f A B := by
  simp only [reindex, unionDisjoint, unionWith, List.map_append]

theorem applyMap_ext {m m' : SMap} (h : Um.Ext m m') {q : Nat} (hq : ∃ n, m.lookup q = some n) :
    applyMap m' q = applyMap m q := by
  obtain ⟨n, hn⟩ := hq
  rw [Um.applyMap_of_lookup hn, Um.applyMap_of_lookup (h q n hn)]

/-- the two passes over ONE map -/
theorem passes {oA oB : List Nat} {m0 : SMap} {c : Nat} (hb : Um.Below m0 c) (hi : Um.Inj m0) :
    Um.Inj (weakTrAll oB (weakTrAll oA m0 c).1 (weakTrAll oA m0 c).2).1 ∧
    Um.Ext m0 (weakTrAll oA m0 c).1 ∧
    Um.Ext (weakTrAll oA m0 c).1 (weakTrAll oB (weakTrAll oA m0 c).1 (weakTrAll oA m0 c).2).1 ∧
    (∀ q, q ∈ oA → ∃ n, (weakTrAll oA m0 c).1.lookup q = some n) ∧
    (∀ q, q ∈ oB → ∃ n, (weakTrAll oB (weakTrAll oA m0 c).1 (weakTrAll oA m0 c).2).1.lookup q = some n) := by
  have g1 := Um.weakTrAll_grow oA m0 c hb
  have hb1 := g1.below hb
  have g2 := Um.weakTrAll_grow oB _ _ hb1
  exact ⟨g2.inj (g1.inj hi), g1.ext, g2.ext, Um.weakTrAll_total oA m0 c hb, Um.weakTrAll_total oB _ _ hb1⟩

end Usm

/-- **one map glues**: the result of `Union(lhs, rhs, &m, &m)` is the image of the juxtaposed rule sets
`unionDisjoint A B` under the ONE final map, which is injective (as an association list and on the states of both
operands), extends the map on entry and knows every state of both operands -/
theorem unionSameMapOrd_glues (oA oB : List Nat) (A B : TA) (m0 : SMap)
    (hoA : ∀ q, q ∈ A.states → q ∈ oA) (hoB : ∀ q, q ∈ B.states → q ∈ oB) (hi : Um.Inj m0) :
    (unionSameMapOrd oA oB A B m0).1 = reindex (applyMap (unionSameMapOrd oA oB A B m0).2) (unionDisjoint A B) ∧
    Um.Inj (unionSameMapOrd oA oB A B m0).2 ∧ Um.Ext m0 (unionSameMapOrd oA oB A B m0).2 ∧
    InjOnStates (applyMap (unionSameMapOrd oA oB A B m0).2) (unionDisjoint A B) ∧
    (∀ q, q ∈ A.states ∨ q ∈ B.states → ∃ n, (unionSameMapOrd oA oB A B m0).2.lookup q = some n) := by
  obtain ⟨h1, h2, h3, h4, h5⟩ := Usm.passes (oA := oA) (oB := oB) (Um.below_unionCnt_left m0 m0) hi
  have htot : ∀ q, q ∈ A.states ∨ q ∈ B.states →
      ∃ n, (weakTrAll oB (weakTrAll oA m0 (unionCnt m0 m0)).1 (weakTrAll oA m0 (unionCnt m0 m0)).2).1.lookup q = some n := by
    rintro q (hq | hq)
    · obtain ⟨n, hn⟩ := h4 q (hoA q hq)
      exact ⟨n, h3 q n hn⟩
    · exact h5 q (hoB q hq)
  refine ⟨?_, h1, fun p n hp => h3 p n (h2 p n hp), ?_, htot⟩
  · show unionWith _ _ A B = _
    rw [Usm.reindex_unionDisjoint, unionWith_eq, unionWith_eq]
    congr 1
    exact Usm.reindex_congr (fun q hq => (Usm.applyMap_ext h3 (h4 q (hoA q hq))).symm)
  · exact Um.injOn_of h1 (fun q hq => htot q (PropAux.mem_states_unionDisjoint.mp hq))

/-- the language of the result is the language of the glued automaton -/
theorem unionSameMapOrd_lang_glued (oA oB : List Nat) (A B : TA) (m0 : SMap)
    (hoA : ∀ q, q ∈ A.states → q ∈ oA) (hoB : ∀ q, q ∈ B.states → q ∈ oB) (hi : Um.Inj m0) (t : Tree) :
    accepts (unionSameMapOrd oA oB A B m0).1 t = accepts (unionDisjoint A B) t := by
  obtain ⟨h1, _, _, h4, _⟩ := unionSameMapOrd_glues oA oB A B m0 hoA hoB hi
  rw [h1]
  exact reindex_inj_lang _ _ h4 t

/-- exactly the union when no state number occurs in both operands: the API precondition of calling `Union` with one
map object -/
theorem unionSameMapOrd_lang (oA oB : List Nat) (A B : TA) (m0 : SMap)
    (hoA : ∀ q, q ∈ A.states → q ∈ oA) (hoB : ∀ q, q ∈ B.states → q ∈ oB) (hi : Um.Inj m0)
    (hdis : ∀ q, q ∈ A.states → q ∉ B.states) (t : Tree) :
    accepts (unionSameMapOrd oA oB A B m0).1 t = (accepts A t || accepts B t) := by
  rw [unionSameMapOrd_lang_glued oA oB A B m0 hoA hoB hi t, unionDisjoint_lang A B hdis t]

/-- in general the call is exact if and only if juxtaposing the two rule sets is -/
theorem unionSameMapOrd_exact_iff (oA oB : List Nat) (A B : TA) (m0 : SMap)
    (hoA : ∀ q, q ∈ A.states → q ∈ oA) (hoB : ∀ q, q ∈ B.states → q ∈ oB) (hi : Um.Inj m0) :
    (∀ t, accepts (unionSameMapOrd oA oB A B m0).1 t = (accepts A t || accepts B t)) ↔
    (∀ t, accepts (unionDisjoint A B) t = (accepts A t || accepts B t)) := by
  constructor
  · intro h t; rw [← unionSameMapOrd_lang_glued oA oB A B m0 hoA hoB hi t]; exact h t
  · intro h t; rw [unionSameMapOrd_lang_glued oA oB A B m0 hoA hoB hi t]; exact h t

/-! ### the list-order instance -/

theorem unionSameMap_glues (A B : TA) (m0 : SMap) (hi : Um.Inj m0) :
    (unionSameMap A B m0).1 = reindex (applyMap (unionSameMap A B m0).2) (unionDisjoint A B) ∧
    Um.Inj (unionSameMap A B m0).2 ∧ Um.Ext m0 (unionSameMap A B m0).2 ∧
    InjOnStates (applyMap (unionSameMap A B m0).2) (unionDisjoint A B) ∧
    (∀ q, q ∈ A.states ∨ q ∈ B.states → ∃ n, (unionSameMap A B m0).2.lookup q = some n) :=
  unionSameMapOrd_glues _ _ A B m0 (fun _ h => Um.mem_visitOrder.mpr h) (fun _ h => Um.mem_visitOrder.mpr h) hi

theorem unionSameMap_lang_glued (A B : TA) (m0 : SMap) (hi : Um.Inj m0) (t : Tree) :
    accepts (unionSameMap A B m0).1 t = accepts (unionDisjoint A B) t :=
  unionSameMapOrd_lang_glued _ _ A B m0 (fun _ h => Um.mem_visitOrder.mpr h) (fun _ h => Um.mem_visitOrder.mpr h) hi t

theorem unionSameMap_lang (A B : TA) (m0 : SMap) (hi : Um.Inj m0) (hdis : ∀ q, q ∈ A.states → q ∉ B.states) (t : Tree) :
    accepts (unionSameMap A B m0).1 t = (accepts A t || accepts B t) :=
  unionSameMapOrd_lang _ _ A B m0 (fun _ h => Um.mem_visitOrder.mpr h) (fun _ h => Um.mem_visitOrder.mpr h) hi hdis t

/-! ### examples and the counterexample -/
namespace UnionSameEx

/-- `a → 0`, `h(0) → 1`, final `1`: the language is `{h(a)}` -/
def exA : TA := ⟨[⟨0, [], 0⟩, ⟨2, [0], 1⟩], [1]⟩
/-- `b → 0`, final `0`: the language is `{b}`; the state number `0` also occurs in `exA` -/
def exB : TA := ⟨[⟨1, [], 0⟩], [0]⟩
/-- `b → 7`, final `7`: the same language with a state number that does not occur in `exA` -/
def exB7 : TA := ⟨[⟨1, [], 7⟩], [7]⟩
def tA : Tree := .node 0 []
def tB : Tree := .node 1 []
def tHA : Tree := .node 2 [.node 0 []]
def tHB : Tree := .node 2 [.node 1 []]

def obs (r : TA × SMap) : List Rule × List Nat × SMap := (r.1.rules, r.1.final, r.2)

-- one map: the state `0` of `exB` is known when the second pass reaches it and keeps the number `1` of `exA`'s state `0`
example : obs (unionSameMap exA exB []) = ([⟨0, [], 1⟩, ⟨2, [1], 0⟩, ⟨1, [], 1⟩], [0, 1], [(1, 0), (0, 1)]) := by decide
-- two maps (the existing model): it gets the fresh number `2`
example : (unionModel exA exB [] []).1.rules = [⟨0, [], 1⟩, ⟨2, [1], 0⟩, ⟨1, [], 2⟩] := by decide
-- disjoint state numbers: one map behaves like two
example : obs (unionSameMap exA exB7 []) = ([⟨0, [], 1⟩, ⟨2, [1], 0⟩, ⟨1, [], 2⟩], [0, 2], [(1, 0), (0, 1), (7, 2)]) := by
  decide
-- a pre-filled map: fresh numbers start above its numbers
example : obs (unionSameMap exA exB7 [(0, 4)]) = ([⟨0, [], 4⟩, ⟨2, [4], 5⟩, ⟨1, [], 6⟩], [5, 6], [(0, 4), (1, 5), (7, 6)]) := by
  decide

/-- **overlapping state numbers, one map: the language is too large.**  `Union(A, B, &m, &m)` with `A = {h(a)}`,
`B = {b}` whose states are both numbered from `0` accepts `a` and `h(b)`, which are in neither language; with two maps
(or with no maps) the same operands give exactly the union -/
theorem same_map_counterexample :
    accepts (unionSameMap exA exB []).1 tA = true ∧ accepts exA tA = false ∧ accepts exB tA = false ∧
    accepts (unionSameMap exA exB []).1 tHB = true ∧ accepts exA tHB = false ∧ accepts exB tHB = false ∧
    accepts (unionModel exA exB [] []).1 tA = false ∧ accepts (unionModel exA exB [] []).1 tHB = false := by decide

/-- the hypothesis "disjoint state sets" of `unionSameMap_lang` is satisfiable, and the theorem applies -/
example : ∀ q, q ∈ exA.states → q ∉ exB7.states := by decide
example (t : Tree) : accepts (unionSameMap exA exB7 []).1 t = (accepts exA t || accepts exB7 t) :=
  unionSameMap_lang exA exB7 [] Um.inj_nil (by decide) t
example : accepts (unionSameMap exA exB7 []).1 tHA = true ∧ accepts (unionSameMap exA exB7 []).1 tB = true ∧
    accepts (unionSameMap exA exB7 []).1 tA = false ∧ accepts (unionSameMap exA exB7 []).1 tHB = false := by decide

end UnionSameEx

end Vata
