import Vata.SymbolCounter
import Vata.Proofs.GlueAsgn
/-!
# Proofs about the symbol-code counter (`Vata/SymbolCounter.lean`)

* `incLoop_spec`            the index loop with the condition `i < stop`, started at `i = |pre|` on `pre ++ mid ++ suf` with
                            `stop = |pre| + |mid|`, is `pre ++ Glue.inc mid ++ suf`, for every fuel `≥ |mid|`
* `incCoded_eq`             `operator++` as coded is `Glue.inc`;  `incCoded_fuel` the fuel is not observable
* `incNoTopCarry_snoc`      the seeded loop increments the low variables only: `low ++ [top] ↦ Glue.inc low ++ [top]`
* `iter_inc_zero`           the `k`-th value of the counter is the binary code of `k`;  `handOut_inc`, `handOut_inc_nodup`
* `iter_noTop_zero`         the seeded counter: the code of `k` on `n` low variables, the top variable stays `ZERO`;
                            `iter_noTop_period` after `2^n` steps it is `0…0` again
* `trsWith_spec`            the dictionary after translating distinct new names: the names zipped with `handOut`
-/
namespace Vata
namespace SymbolCounter
open Glue BddLoad

/-! ## the loop -/

theorem get_mid (pre : Asgn) (v : Val) (r : Asgn) : get (pre ++ v :: r) pre.length = some v := by
  simp [Glue.get]

theorem set_mid (pre : Asgn) (v w : Val) (r : Asgn) : set (pre ++ v :: r) pre.length w = pre ++ w :: r := by
  simp [Glue.set]

/-- the loop from index `|pre|` up to `stop = |pre| + |mid|`: the variables of `mid` are incremented (carry out of `mid`
dropped), the rest is untouched.  Any fuel `≥ |mid|` gives this result. -/
theorem incLoop_spec : ∀ (mid pre suf : Asgn) (stop fuel : Nat), stop = pre.length + mid.length → mid.length ≤ fuel →
    incLoop (fun i => decide (i < stop)) fuel pre.length (pre ++ (mid ++ suf)) = pre ++ (inc mid ++ suf)
  | [], pre, suf, stop, fuel, hs, _ => by
    cases fuel with
    | zero => rfl
    | succ fuel =>
      have : ¬ pre.length < stop := by simp at hs; omega
      simp [incLoop, this, inc]
  | v :: r, pre, suf, stop, fuel, hs, hf => by
    cases fuel with
    | zero => simp at hf
    | succ fuel =>
      have hc : pre.length < stop := by simp at hs; omega
      have hs' : stop = (pre ++ [v]).length + r.length := by simp at hs ⊢; omega
      have hf' : r.length ≤ fuel := by simp at hf; omega
      have e1 : ∀ w : Val, pre ++ w :: (r ++ suf) = (pre ++ [w]) ++ (r ++ suf) := by intro w; simp
      have e2 : pre.length + 1 = (pre ++ [v]).length := by simp
      simp only [incLoop, hc, decide_true, if_true, List.cons_append, get_mid]
      match v with
      | some false => simp only [set_mid, inc, List.cons_append]
      | some true =>
        have hs'' : stop = (pre ++ [some false]).length + r.length := by simpa using hs'
        have e3 : pre.length + 1 = (pre ++ [some false]).length := by simp
        simp only [set_mid, inc, List.cons_append]
        rw [e1, e3, incLoop_spec r (pre ++ [some false]) suf stop fuel hs'' hf']
        simp
      | none =>
        simp only [inc, List.cons_append]
        rw [e1, e2, incLoop_spec r (pre ++ [none]) suf stop fuel hs' hf']
        simp

/-- `operator++` as coded (index loop, `i < length()`) is `Glue.inc`, for every fuel `≥ length()` -/
theorem incCoded_fuel (a : Asgn) (fuel : Nat) (h : a.length ≤ fuel) :
    incLoop (fun i => decide (i < length a)) fuel 0 a = inc a := by
  have := incLoop_spec a [] [] (length a) fuel (by simp [length]) h
  simpa using this

theorem incCoded_eq (a : Asgn) : incCoded a = inc a := incCoded_fuel a _ (Nat.le_refl _)

/-- the seeded loop (`i + 1 < length()`), for every fuel `≥ length() - 1`: only the variables below the top one are
incremented -/
theorem incNoTopCarry_fuel (low : Asgn) (top : Val) (fuel : Nat) (h : low.length ≤ fuel) :
    incLoop (fun i => decide (i + 1 < length (low ++ [top]))) fuel 0 (low ++ [top]) = inc low ++ [top] := by
  have e : (fun i => decide (i + 1 < length (low ++ [top]))) = (fun i => decide (i < low.length)) := by
    funext i; simp [length]
  rw [e]
  have := incLoop_spec low [] [top] low.length fuel (by simp) h
  simpa using this

theorem incNoTopCarry_snoc (low : Asgn) (top : Val) : incNoTopCarry (low ++ [top]) = inc low ++ [top] :=
  incNoTopCarry_fuel low top _ (by simp [length])

theorem incNoTopCarry_nil : incNoTopCarry [] = [] := rfl

/-- the seeded `operator++` differs from the real one exactly on `1…1 0`-like inputs; the smallest: -/
theorem incNoTopCarry_ne : incNoTopCarry [some true, some false] ≠ inc [some true, some false] := by decide

/-! ## the sequence of counter values -/

theorem zero_eq_bitsLE : ∀ n, zero n = bitsLE n 0
  | 0 => rfl
  | n + 1 => by
    have := zero_eq_bitsLE n
    simp only [zero] at this ⊢
    simp [List.replicate_succ, bitsLE, this]

theorem zero_succ (n : Nat) : zero (n + 1) = zero n ++ [some false] := by
  simp [zero, List.replicate_succ']

theorem bitsLE_mod (n j : Nat) : bitsLE n (j % 2 ^ n) = bitsLE n j := by
  have := bitsLE_toNum (bitsLE n j) (isConcrete_bitsLE n j)
  rwa [bitsLE_length, toNum_bitsLE] at this

theorem bitsLE_inj {n j k : Nat} (hj : j < 2 ^ n) (hk : k < 2 ^ n) (h : bitsLE n j = bitsLE n k) : j = k := by
  have := congrArg toNum h
  rwa [toNum_bitsLE, toNum_bitsLE, Nat.mod_eq_of_lt hj, Nat.mod_eq_of_lt hk] at this

theorem iter_inc_bitsLE (n : Nat) : ∀ (k j : Nat), iter inc k (bitsLE n j) = bitsLE n (j + k)
  | 0, _ => rfl
  | k + 1, j => by
    rw [iter, inc_bitsLE, iter_inc_bitsLE n k (j + 1)]
    congr 1; omega

/-- after `k` increments the counter is the binary code of `k` (variable 0 = least significant bit; modulo `2^n`) -/
theorem iter_inc_zero (n k : Nat) : iter inc k (zero n) = bitsLE n k := by
  rw [zero_eq_bitsLE, iter_inc_bitsLE, Nat.zero_add]

theorem iter_noTop_bitsLE (n : Nat) (top : Val) : ∀ (k j : Nat),
    iter incNoTopCarry k (bitsLE n j ++ [top]) = bitsLE n (j + k) ++ [top]
  | 0, _ => rfl
  | k + 1, j => by
    rw [iter, incNoTopCarry_snoc, inc_bitsLE, iter_noTop_bitsLE n top k (j + 1)]
    congr 2; omega

/-- the seeded counter on `n + 1` variables: the code of `k` on the `n` low variables, the top variable stays `ZERO` -/
theorem iter_noTop_zero (n k : Nat) : iter incNoTopCarry k (zero (n + 1)) = bitsLE n k ++ [some false] := by
  rw [zero_succ, zero_eq_bitsLE, iter_noTop_bitsLE, Nat.zero_add]

/-- … hence it has period `2^n`, not `2^(n+1)` -/
theorem iter_noTop_period (n k : Nat) :
    iter incNoTopCarry (k + 2 ^ n) (zero (n + 1)) = iter incNoTopCarry k (zero (n + 1)) := by
  rw [iter_noTop_zero, iter_noTop_zero, ← bitsLE_mod n (k + 2 ^ n), Nat.add_mod_right, bitsLE_mod]

theorem handOut_eq (step : Asgn → Asgn) : ∀ (m : Nat) (a : Asgn),
    handOut step m a = (List.range m).map (fun k => iter step k a)
  | 0, _ => rfl
  | m + 1, a => by
    rw [handOut, handOut_eq step m (step a), List.range_succ_eq_map]
    simp [iter, Function.comp_def]

theorem handOut_length (step : Asgn → Asgn) (m : Nat) (a : Asgn) : (handOut step m a).length = m := by
  rw [handOut_eq]; simp

theorem handOut_getElem (step : Asgn → Asgn) (m : Nat) (a : Asgn) (k : Nat) (h : k < (handOut step m a).length) :
    (handOut step m a)[k] = iter step k a := by
  simp [handOut_eq]

theorem handOut_inc (n m : Nat) : handOut inc m (zero n) = (List.range m).map (bitsLE n) := by
  rw [handOut_eq]
  apply List.map_congr_left
  intro k _
  exact iter_inc_zero n k

theorem map_bitsLE_nodup (n m : Nat) (h : m ≤ 2 ^ n) : ((List.range m).map (bitsLE n)).Nodup := by
  unfold List.Nodup
  rw [List.pairwise_map]
  refine List.Pairwise.imp_of_mem ?_ (List.nodup_range (n := m))
  intro i j hi hj hij e
  exact hij (bitsLE_inj (Nat.lt_of_lt_of_le (List.mem_range.mp hi) h) (Nat.lt_of_lt_of_le (List.mem_range.mp hj) h) e)

theorem handOut_inc_nodup (n m : Nat) (h : m ≤ 2 ^ n) : (handOut inc m (zero n)).Nodup := by
  rw [handOut_inc]; exact map_bitsLE_nodup n m h

/-! ## the dictionary -/

theorem lookup_none_of_not_mem {d : List (String × Asgn)} {f : String} (h : f ∉ d.map (·.1)) : d.lookup f = none := by
  induction d with
  | nil => rfl
  | cons e d ih =>
    obtain ⟨k, v⟩ := e
    simp only [List.map_cons, List.mem_cons, not_or] at h
    have : (f == k) = false := by simp [h.1]
    simp only [List.lookup_cons, this]
    exact ih h.2

/-- translating distinct names that the dictionary does not know: the names get the successive counter values -/
theorem trsWith_spec (step : Asgn → Asgn) : ∀ (fs : List String) (d : List (String × Asgn)) (z : Asgn), fs.Nodup →
    (∀ f ∈ fs, f ∉ d.map (·.1)) →
    trsWith step ⟨d, z⟩ fs = ⟨d ++ fs.zip (handOut step fs.length z), iter step fs.length z⟩
  | [], d, z, _, _ => by simp [trsWith, handOut, iter]
  | f :: fs, d, z, hn, hd => by
    have hf : d.lookup f = none := lookup_none_of_not_mem (hd f (List.mem_cons_self ..))
    have hn' := List.nodup_cons.mp hn
    have step1 : (trWith step ⟨d, z⟩ f).2 = ⟨d ++ [(f, z)], step z⟩ := by simp [trWith, hf]
    rw [trsWith, step1, trsWith_spec step fs (d ++ [(f, z)]) (step z) hn'.2]
    · simp [handOut, iter]
    · intro g hg
      simp only [List.map_append, List.map_cons, List.map_nil, List.mem_append, List.mem_singleton, not_or]
      exact ⟨hd g (List.mem_cons_of_mem _ hg), fun e => hn'.1 (e ▸ hg)⟩

/-- from the fresh alphabet: the `i`-th name has the `i`-th counter value -/
theorem trsWith_init_mem (step : Asgn → Asgn) (n : Nat) (fs : List String) (hn : fs.Nodup) (i : Nat) (hi : i < fs.length) :
    (fs[i], iter step i (zero n)) ∈ (trsWith step (initW n) fs).dict := by
  rw [initW, trsWith_spec step fs [] (zero n) hn (by simp)]
  simp only [List.nil_append]
  rw [List.mem_iff_getElem]
  refine ⟨i, by simp [handOut_length, hi], ?_⟩
  simp [handOut_getElem]

theorem trsWith_init_dict (step : Asgn → Asgn) (n : Nat) (fs : List String) (hn : fs.Nodup) :
    (trsWith step (initW n) fs).dict = fs.zip (handOut step fs.length (zero n)) ∧
    (trsWith step (initW n) fs).next = iter step fs.length (zero n) := by
  rw [initW, trsWith_spec step fs [] (zero n) hn (by simp)]
  simp

/-- in a zip with a duplicate-free right side, the right component determines the entry -/
theorem zip_right_inj {α β : Type} : ∀ {l : List α} {r : List β}, r.Nodup → ∀ {a b : α} {c : β},
    (a, c) ∈ l.zip r → (b, c) ∈ l.zip r → a = b
  | [], _, _, _, _, _, h, _ => by simp at h
  | _ :: _, [], _, _, _, _, h, _ => by simp at h
  | x :: l, y :: r, hr, a, b, c, h1, h2 => by
    have hr' := List.nodup_cons.mp hr
    simp only [List.zip_cons_cons, List.mem_cons, Prod.mk.injEq] at h1 h2
    rcases h1 with ⟨h1a, h1c⟩ | h1
    · rcases h2 with ⟨h2a, _⟩ | h2
      · rw [h1a, h2a]
      · exact absurd (h1c ▸ (List.of_mem_zip h2).2) hr'.1
    · rcases h2 with ⟨_, h2c⟩ | h2
      · exact absurd (h2c ▸ (List.of_mem_zip h1).2) hr'.1
      · exact zip_right_inj hr'.2 h1 h2

theorem trWith_inc : trWith Glue.inc = AlphaC.tr := by
  funext a f
  unfold trWith AlphaC.tr
  cases a.dict.lookup f <;> rfl

theorem initW_16 : AlphaC.init = some (initW 16) := by
  rw [alphaC_init]; rfl

theorem symAsgn_inj {j k : Nat} (hj : j < symbolCodes) (hk : k < symbolCodes) (h : BddAbs.symAsgn j = BddAbs.symAsgn k) :
    j = k := by
  rw [symAsgn_eq_bitsLE, symAsgn_eq_bitsLE] at h
  exact bitsLE_inj (n := 16) hj hk h

theorem incCoded_eq_inc : incCoded = inc := funext incCoded_eq

/-! ## the seeded counter: the values handed out -/

theorem handOut_noTop (n m : Nat) :
    handOut incNoTopCarry m (zero (n + 1)) = (List.range m).map (fun k => bitsLE n k ++ [some false]) := by
  rw [handOut_eq]
  apply List.map_congr_left
  intro k _
  exact iter_noTop_zero n k

/-- the first `2^n` values of the seeded counter on `n + 1` variables are distinct … -/
theorem handOut_noTop_nodup (n m : Nat) (h : m ≤ 2 ^ n) : (handOut incNoTopCarry m (zero (n + 1))).Nodup := by
  rw [handOut_noTop]
  have := map_bitsLE_nodup n m h
  have h2 : (List.range m).map (fun k => bitsLE n k ++ [some false]) =
      ((List.range m).map (bitsLE n)).map (· ++ [some false]) := by simp
  rw [h2]
  exact List.Pairwise.map _ (fun a b hab e => hab (List.append_cancel_right e)) this

/-- … and the next one is the first again -/
theorem handOut_noTop_not_nodup (n m : Nat) (h : 2 ^ n < m) : ¬ (handOut incNoTopCarry m (zero (n + 1))).Nodup := by
  have hp : 0 < 2 ^ n := Nat.pow_pos (by decide)
  obtain ⟨m', rfl⟩ : ∃ m', m = m' + 1 := ⟨m - 1, by omega⟩
  intro hn
  rw [handOut] at hn
  apply (List.nodup_cons.mp hn).1
  rw [handOut_eq]
  refine List.mem_map.mpr ⟨2 ^ n - 1, List.mem_range.mpr (by omega), ?_⟩
  show iter incNoTopCarry (2 ^ n - 1 + 1) (zero (n + 1)) = zero (n + 1)
  have := iter_noTop_period n 0
  rw [Nat.zero_add] at this
  rw [Nat.sub_add_cancel hp, this]; rfl

/-! ## looking up a known name -/

theorem lookup_of_mem_nodup : ∀ {d : List (String × Asgn)} {f : String} {c : Asgn}, (d.map (·.1)).Nodup → (f, c) ∈ d →
    d.lookup f = some c
  | [], _, _, _, h => by simp at h
  | (k, v) :: d, f, c, hn, h => by
    simp only [List.map_cons] at hn
    have hn' := List.nodup_cons.mp hn
    simp only [List.mem_cons, Prod.mk.injEq] at h
    rcases h with ⟨rfl, rfl⟩ | h
    · simp
    · have hne : f ≠ k := by
        rintro rfl
        exact hn'.1 (List.mem_map.mpr ⟨_, h, rfl⟩)
      have : (f == k) = false := by simp [hne]
      simp only [List.lookup_cons, this]
      exact lookup_of_mem_nodup hn'.2 h

/-- a name that was translated as the `i`-th new name of a fresh alphabet is translated to the `i`-th counter value
ever after (the alphabet is not changed) -/
theorem trWith_known (step : Asgn → Asgn) (n : Nat) (fs : List String) (hn : fs.Nodup) (i : Nat) (hi : i < fs.length) :
    trWith step (trsWith step (initW n) fs) fs[i] = (iter step i (zero n), trsWith step (initW n) fs) := by
  have hm := trsWith_init_mem step n fs hn i hi
  have hk : ((trsWith step (initW n) fs).dict.map (·.1)).Nodup := by
    rw [(trsWith_init_dict step n fs hn).1, List.map_fst_zip (by simp [handOut_length])]
    exact hn
  simp only [trWith, lookup_of_mem_nodup hk hm]

end SymbolCounter
end Vata
