import Vata.Proofs.InclUpInv
import Vata.Proofs.TrimModel
/-!
# Totality of `inclUp` on trimmed operands

* `run_terminates`   : the exploration ends within `2 · |Δ_A| · 2^|Δ_B|` picked pairs (`|Δ|` = number of rules);
* `complete_ok`      : the completion of the tree of a `return false` is accepted by `A` and not by `B`, provided the
                       upward search finds a final state;
* `search_complete`  : it does when the children of all rules of `A` are productive and the state is reachable
                       top-down from a final state;
* `inclUp_total`     : on a trimmed `A` (`Trimmed A`, e.g. `removeUseless A'` or `allUsefulB A = true`) and any `B`,
                       `inclUp A B fuel` returns a verdict (hence the right one) for every `fuel` above the bound;
* `checkInclUp_total`, `checkInclUp_iff` : the model of `CheckInclusion` (operands sanitised first).
-/
namespace Vata
namespace InclUp

/-! ### termination of the exploration -/

def subsets : List Nat → List (List Nat)
  | [] => [[]]
  | x :: l => subsets l ++ (subsets l).map (fun T => x :: T)

theorem filter_mem_subsets (p : Nat → Bool) : ∀ l : List Nat, l.filter p ∈ subsets l
  | [] => by simp [subsets]
  | x :: l => by
    simp only [subsets, List.mem_append, List.mem_map, List.filter_cons]
    split
    · exact Or.inr ⟨_, filter_mem_subsets p l, rfl⟩
    · exact Or.inl (filter_mem_subsets p l)

theorem length_subsets : ∀ l : List Nat, (subsets l).length = 2 ^ l.length
  | [] => rfl
  | x :: l => by
    simp only [subsets, List.length_append, List.length_map, length_subsets l, List.length_cons, Nat.pow_succ]
    omega

def parents (A : TA) : List Nat := A.rules.map (·.parent)

/-- all pairs of a parent of `A` and a set of parents of `B` -/
def univ (A B : TA) : List (Nat × List Nat) :=
  (parents A).flatMap (fun q => (subsets (parents B)).map (fun T => (q, T)))

theorem length_flatMap_const {α β : Type} (f : α → List β) (n : Nat) (hf : ∀ a, (f a).length = n) :
    ∀ l : List α, (l.flatMap f).length = l.length * n
  | [] => by simp
  | a :: l => by
    simp only [List.flatMap_cons, List.length_append, hf a, length_flatMap_const f n hf l, List.length_cons]
    rw [Nat.add_mul, Nat.one_mul, Nat.add_comm]

theorem length_univ (A B : TA) : (univ A B).length = A.rules.length * 2 ^ B.rules.length := by
  unfold univ
  rw [length_flatMap_const _ (2 ^ B.rules.length)]
  · simp [parents]
  · intro a
    simp [length_subsets, parents]

/-- the pairs of the universe that are not yet subsumed -/
def mu (A B : TA) (P : List Item) : Nat := (univ A B).countP (fun p => !subsumed P p.1 p.2)

def phi (A B : TA) (st : St) : Nat := 2 * mu A B st.processed + st.next.length

/-- the pair lives in the universe -/
def Dom (A B : TA) (i : Item) : Prop := i.q ∈ parents A ∧ ∀ x, x ∈ i.S → x ∈ parents B

theorem mu_addTmp_le (A B : TA) (P : List Item) (it : Item) : mu A B (addTmp P it) ≤ mu A B P := by
  apply List.countP_mono_left
  intro p _ hp
  simp only [Bool.not_eq_true'] at hp ⊢
  cases hs : subsumed P p.1 p.2 with
  | false => rfl
  | true =>
    have := subsumed_iff.mpr (addTmp_mono (it := it) (subsumed_iff.mp hs))
    rw [hp] at this; cases this

theorem mu_addTmp_lt {A B : TA} {P : List Item} {it : Item} (hd : Dom A B it)
    (hs : subsumed P it.q it.S = false) : mu A B (addTmp P it) < mu A B P := by
  apply countP_lt_of_new
  · intro p _ hp
    simp only [Bool.not_eq_true'] at hp ⊢
    cases hs' : subsumed P p.1 p.2 with
    | false => rfl
    | true =>
      have := subsumed_iff.mpr (addTmp_mono (it := it) (subsumed_iff.mp hs'))
      rw [hp] at this; cases this
  · refine ⟨(it.q, (parents B).filter (fun x => it.S.contains x)), ?_, ?_, ?_⟩
    · simp only [univ, List.mem_flatMap, List.mem_map, Prod.mk.injEq]
      exact ⟨it.q, hd.1, _, filter_mem_subsets _ _, rfl, rfl⟩
    · simp only [Bool.not_eq_true']
      cases hs' : subsumed P it.q ((parents B).filter (fun x => it.S.contains x)) with
      | false => rfl
      | true =>
        have : Subsumed P it.q it.S := (subsumed_iff.mp hs').mono (fun x hx => by
          simp only [List.mem_filter, List.contains_iff_mem] at hx
          exact hx.2)
        rw [subsumed_iff.mpr this] at hs; cases hs
    · simp only [ne_eq, Bool.not_eq_true', Bool.not_eq_false]
      apply subsumed_iff.mpr
      exact (addTmp_self P it).mono (fun x hx => by
        simp only [List.mem_filter, List.contains_iff_mem]
        exact ⟨hd.2 x hx, hx⟩)

theorem length_refine_le (N : List Item) (q : Nat) (S : List Nat) : (refine N q S).length ≤ N.length :=
  List.length_filter_le _ _

theorem phi_addItem {A B : TA} {st : St} {it : Item} (hd : Dom A B it) : phi A B (addItem st it) ≤ phi A B st := by
  unfold phi
  rw [addItem_processed]
  cases hs : subsumed st.processed it.q it.S with
  | true =>
    have h1 : addTmp st.processed it = st.processed := by unfold addTmp; rw [if_pos hs]
    have h2 : (addItem st it).next = st.next := by unfold addItem; rw [if_pos hs]
    rw [h1, h2]; exact Nat.le_refl _
  | false =>
    have h1 := mu_addTmp_lt hd hs
    have h2 : (addItem st it).next = insNext it (refine st.next it.q it.S) := by
      unfold addItem; rw [if_neg (by rw [hs]; exact Bool.false_ne_true)]
    rw [h2, length_insNext]
    have := length_refine_le st.next it.q it.S
    omega

theorem phi_foldl_addItem {A B : TA} : ∀ (tmp : List Item) (st : St), (∀ i, i ∈ tmp → Dom A B i) →
    phi A B (tmp.foldl addItem st) ≤ phi A B st
  | [], _, _ => Nat.le_refl _
  | it :: tmp, st, h =>
    Nat.le_trans (phi_foldl_addItem tmp (addItem st it) (fun i hi => h i (List.mem_cons_of_mem _ hi)))
      (phi_addItem (h it List.mem_cons_self))

theorem dom_mkItem {A B : TA} {ρ : Rule} (hρ : ρ ∈ A.rules) (is : List Item) : Dom A B (mkItem B ρ is) := by
  constructor
  · exact List.mem_map.mpr ⟨ρ, hρ, rfl⟩
  · intro x hx
    obtain ⟨r, hr, _, _, hp⟩ := mem_post'.mp (mem_macroPost.mp hx)
    exact List.mem_map.mpr ⟨r, hr, hp⟩

theorem phi_procTask {A B : TA} {it : Item} {ρ : Rule} {j : Nat} {st st' : St} (hρ : ρ ∈ A.rules)
    (h : procTask A B it ρ j st = .ok st') : phi A B st' ≤ phi A B st := by
  unfold procTask at h
  split at h
  · cases h
  · next tmp htmp =>
    simp only [Except.ok.injEq] at h
    subst h
    apply phi_foldl_addItem
    intro i hi
    rcases (stepChoices_ok htmp).2.2 i hi with hi | ⟨is, _, rfl, _⟩
    · simp at hi
    · exact dom_mkItem hρ is

theorem phi_procTasks {A B : TA} {it : Item} : ∀ {T : List (Rule × Nat)} {st st' : St},
    (∀ p, p ∈ T → p.1 ∈ A.rules) → procTasks A B it T st = .ok st' → phi A B st' ≤ phi A B st
  | [], st, st', _, h => by
    simp only [procTasks, Except.ok.injEq] at h
    subst h; exact Nat.le_refl _
  | (ρ, j) :: T, st, st', hT, h => by
    unfold procTasks at h
    split at h
    · cases h
    · next st₁ h₁ =>
      exact Nat.le_trans (phi_procTasks (fun p hp => hT p (List.mem_cons_of_mem _ hp)) h)
        (phi_procTask (hT _ List.mem_cons_self) h₁)

theorem loop_terminates {A B : TA} : ∀ (n : Nat) (st : St), phi A B st < n → ∃ r, loop A B n st = some r
  | 0, _, h => absurd h (Nat.not_lt_zero _)
  | n+1, st, h => by
    unfold loop
    split
    · exact ⟨_, rfl⟩
    · next it rest hn =>
      split
      · exact ⟨_, rfl⟩
      · next st' h' =>
        apply loop_terminates n st'
        have h1 := phi_procTasks (A := A) (B := B) (fun p hp => (mem_tasks.mp (by exact hp)).1) h'
        have h2 : phi A B ⟨st.processed, rest⟩ + 1 = phi A B st := by
          unfold phi; rw [hn]; simp only [List.length_cons]; omega
        omega

theorem phi_leafPhase {A B : TA} : ∀ {ρs : List Rule} {st st' : St}, (∀ ρ, ρ ∈ ρs → ρ ∈ A.rules) →
    leafPhase A B ρs st = .ok st' → phi A B st' ≤ phi A B st
  | [], st, st', _, h => by
    simp only [leafPhase, Except.ok.injEq] at h
    subst h; exact Nat.le_refl _
  | ρ :: ρs, st, st', hρs, h => by
    have hρs' : ∀ ρ', ρ' ∈ ρs → ρ' ∈ A.rules := fun ρ' h => hρs ρ' (List.mem_cons_of_mem _ h)
    unfold leafPhase at h
    split at h
    · simp only at h
      split at h
      · cases h
      · exact Nat.le_trans (phi_leafPhase hρs' h)
          (phi_addItem (dom_mkItem (B := B) (hρs ρ List.mem_cons_self) []))
    · exact phi_leafPhase hρs' h

/-- the number of picked pairs is bounded by twice the number of pairs (state of `A`, set of states of `B`) -/
def fuelBound (A B : TA) : Nat := 2 * (A.rules.length * 2 ^ B.rules.length)

theorem run_terminates {A B : TA} {fuel : Nat} (h : fuelBound A B < fuel) : ∃ r, run A B fuel = some r := by
  unfold run
  split
  · exact ⟨_, rfl⟩
  · split
    · exact ⟨_, rfl⟩
    · next st hst =>
      apply loop_terminates
      have h1 := phi_leafPhase (A := A) (B := B) (fun _ h => h) hst
      have h2 : phi A B ⟨[], []⟩ ≤ 2 * (univ A B).length := by
        unfold phi mu
        have := List.countP_le_length (p := fun p : Nat × List Nat => !subsumed [] p.1 p.2) (l := univ A B)
        simp only [List.length_nil]
        omega
      rw [length_univ] at h2
      unfold fuelBound at h
      omega

/-! ### the growing tables (`prodWit`, the upward search of `complete`) -/

def states (L : Wit) : List Nat := L.map (·.1)

theorem lookupT_some {L : Wit} {q : Nat} {t : Tree} (h : lookupT L q = some t) : (q, t) ∈ L := by
  unfold lookupT at h
  split at h
  · next p hp =>
    have h1 := List.mem_of_find?_eq_some hp
    have h2 := List.find?_some hp
    simp only [beq_iff_eq] at h2
    simp only [Option.some.injEq] at h
    rw [← h2, ← h]; exact h1
  · cases h

theorem lookupT_isSome {L : Wit} {q : Nat} : (lookupT L q).isSome = true ↔ q ∈ states L := by
  unfold lookupT states
  split
  · next p hp =>
    have h1 := List.mem_of_find?_eq_some hp
    have h2 := List.find?_some hp
    simp only [beq_iff_eq] at h2
    simp only [Option.isSome_some, List.mem_map, true_iff]
    exact ⟨p, h1, h2⟩
  · next hn =>
    simp only [Option.isSome_none, Bool.false_eq_true, List.mem_map, false_iff]
    rintro ⟨p, hp, hq⟩
    have := List.find?_eq_none.mp hn p hp
    simp [hq] at this

theorem lookupT_of_mem {L : Wit} {q : Nat} (h : q ∈ states L) : ∃ t, lookupT L q = some t :=
  Option.isSome_iff_exists.mp (lookupT_isSome.mpr h)

theorem lookupT_cons_self (q : Nat) (t : Tree) (W : Wit) : lookupT ((q, t) :: W) q = some t := by
  simp [lookupT]

theorem kidsWit_some_of_states {W : Wit} : ∀ {ks : List Nat}, (∀ k, k ∈ ks → k ∈ states W) →
    ∃ ts, kidsWit W ks = some ts
  | [], _ => ⟨[], rfl⟩
  | k :: ks, h => by
    obtain ⟨t, ht⟩ := lookupT_of_mem (h k List.mem_cons_self)
    obtain ⟨ts, hts⟩ := kidsWit_some_of_states (ks := ks) (fun k' hk' => h k' (List.mem_cons_of_mem _ hk'))
    exact ⟨t :: ts, by simp only [kidsWit, ht, hts]⟩

theorem kidsWit_cons {W : Wit} {k : Nat} {ks : List Nat} {ts' : List Tree} (h : kidsWit W (k :: ks) = some ts') :
    ∃ t ts, lookupT W k = some t ∧ kidsWit W ks = some ts ∧ ts' = t :: ts := by
  unfold kidsWit at h
  split at h
  · next t ts h1 h2 =>
    simp only [Option.some.injEq] at h
    exact ⟨t, ts, h1, h2, h.symm⟩
  · cases h

theorem states_of_kidsWit {W : Wit} : ∀ {ks : List Nat} {ts : List Tree}, kidsWit W ks = some ts →
    ∀ k, k ∈ ks → k ∈ states W
  | [], _, _, k, hk => by simp at hk
  | k' :: ks, ts', h, k, hk => by
    obtain ⟨t, ts, h1, h2, _⟩ := kidsWit_cons h
    rcases List.mem_cons.mp hk with rfl | hk
    · exact lookupT_isSome.mp (by rw [h1]; rfl)
    · exact states_of_kidsWit h2 k hk

/-- the trees found for the children match them -/
theorem kidsWit_match {A : TA} {W : Wit} (hW : ∀ e, e ∈ W → e.1 ∈ reach A e.2) :
    ∀ {ks : List Nat} {ts : List Tree}, kidsWit W ks = some ts → matchKids ks (reachL A ts) = true
  | [], ts, h => by
    simp only [kidsWit, Option.some.injEq] at h
    subst h; rfl
  | k :: ks, ts', h => by
    obtain ⟨t, ts, h1, h2, rfl⟩ := kidsWit_cons h
    simp only [reachL, matchKids, Bool.and_eq_true, List.contains_iff_mem]
    exact ⟨hW _ (lookupT_some h1), kidsWit_match hW h2⟩

/-- the tree looked up for a child is among the trees -/
theorem kidsWit_mem {W : Wit} : ∀ {ks : List Nat} {ts : List Tree}, kidsWit W ks = some ts →
    ∀ k t, k ∈ ks → lookupT W k = some t → t ∈ ts
  | [], _, _, k, _, hk, _ => by simp at hk
  | k' :: ks, ts', h, k, t, hk, ht => by
    obtain ⟨t', ts, h1, h2, rfl⟩ := kidsWit_cons h
    rcases List.mem_cons.mp hk with rfl | hk
    · rw [h1] at ht
      simp only [Option.some.injEq] at ht
      subst ht; exact List.mem_cons_self
    · exact List.mem_cons_of_mem _ (kidsWit_mem h2 k t hk ht)

/-- one rule of a round -/
def growOne (build : Wit → Rule → Option Tree) (L : Wit) (ρ : Rule) : Wit :=
  if (lookupT L ρ.parent).isSome then L else
    match build L ρ with
    | some t => L ++ [(ρ.parent, t)]
    | none => L

theorem growStep_eq (A : TA) (build : Wit → Rule → Option Tree) (L : Wit) :
    growStep A build L = A.rules.foldl (growOne build) L := rfl

theorem growOne_cases (build : Wit → Rule → Option Tree) (L : Wit) (ρ : Rule) :
    (growOne build L ρ = L ∧ (ρ.parent ∈ states L ∨ build L ρ = none)) ∨
    ∃ t, ρ.parent ∉ states L ∧ build L ρ = some t ∧ growOne build L ρ = L ++ [(ρ.parent, t)] := by
  unfold growOne
  split
  · next h => exact Or.inl ⟨rfl, Or.inl (lookupT_isSome.mp h)⟩
  · next h =>
    split
    · next t ht => exact Or.inr ⟨t, fun hm => h (lookupT_isSome.mpr hm), ht, rfl⟩
    · next hn => exact Or.inl ⟨rfl, Or.inr hn⟩

theorem growFold_sub (build : Wit → Rule → Option Tree) : ∀ (Rs : List Rule) (L : Wit),
    (∀ e, e ∈ L → e ∈ Rs.foldl (growOne build) L) ∧ L.length ≤ (Rs.foldl (growOne build) L).length
  | [], L => ⟨fun _ h => h, Nat.le_refl _⟩
  | ρ :: Rs, L => by
    obtain ⟨h1, h2⟩ := growFold_sub build Rs (growOne build L ρ)
    simp only [List.foldl_cons]
    rcases growOne_cases build L ρ with ⟨he, _⟩ | ⟨t, _, _, he⟩
    · rw [he] at h1 h2 ⊢; exact ⟨h1, h2⟩
    · rw [he] at h1 h2 ⊢
      refine ⟨fun e h => h1 e (List.mem_append_left _ h), ?_⟩
      simp only [List.length_append, List.length_cons, List.length_nil] at h2
      omega

theorem growFold_inv (build : Wit → Rule → Option Tree) (Q : Nat × Tree → Prop) : ∀ (Rs : List Rule) (L : Wit),
    (∀ L ρ t, ρ ∈ Rs → (∀ e, e ∈ L → Q e) → build L ρ = some t → Q (ρ.parent, t)) → (∀ e, e ∈ L → Q e) →
      ∀ e, e ∈ Rs.foldl (growOne build) L → Q e
  | [], _, _, hL => hL
  | ρ :: Rs, L, hb, hL => by
    simp only [List.foldl_cons]
    apply growFold_inv build Q Rs _ (fun L ρ' t h => hb L ρ' t (List.mem_cons_of_mem _ h))
    rcases growOne_cases build L ρ with ⟨he, _⟩ | ⟨t, _, ht, he⟩
    · rw [he]; exact hL
    · rw [he]
      intro e h
      rcases List.mem_append.mp h with h | h
      · exact hL e h
      · rw [List.mem_singleton.mp h]; exact hb L ρ t List.mem_cons_self hL ht

/-- a round that adds nothing: every rule has its parent in the table or cannot be used -/
theorem growFold_fix (build : Wit → Rule → Option Tree) : ∀ (Rs : List Rule) (L : Wit),
    (Rs.foldl (growOne build) L).length = L.length → ∀ ρ, ρ ∈ Rs → ρ.parent ∈ states L ∨ build L ρ = none
  | [], _, _, _, h => by simp at h
  | ρ :: Rs, L, hlen, ρ', hρ' => by
    simp only [List.foldl_cons] at hlen
    have h2 := (growFold_sub build Rs (growOne build L ρ)).2
    rcases growOne_cases build L ρ with ⟨he, hc⟩ | ⟨t, _, _, he⟩
    · rw [he] at hlen
      rcases List.mem_cons.mp hρ' with rfl | hρ'
      · exact hc
      · exact growFold_fix build Rs L hlen ρ' hρ'
    · rw [he] at h2
      simp only [List.length_append, List.length_cons, List.length_nil] at h2
      rw [he] at hlen
      omega

/-- a round that adds something adds the parent of a rule -/
theorem growFold_new (build : Wit → Rule → Option Tree) : ∀ (Rs : List Rule) (L : Wit),
    (Rs.foldl (growOne build) L).length ≠ L.length →
      ∃ ρ, ρ ∈ Rs ∧ ρ.parent ∉ states L ∧ ρ.parent ∈ states (Rs.foldl (growOne build) L)
  | [], _, h => absurd rfl h
  | ρ :: Rs, L, hlen => by
    simp only [List.foldl_cons] at hlen ⊢
    rcases growOne_cases build L ρ with ⟨he, _⟩ | ⟨t, hn, _, he⟩
    · rw [he] at hlen ⊢
      obtain ⟨ρ', h1, h2, h3⟩ := growFold_new build Rs L hlen
      exact ⟨ρ', List.mem_cons_of_mem _ h1, h2, h3⟩
    · refine ⟨ρ, List.mem_cons_self, hn, ?_⟩
      have := (growFold_sub build Rs (growOne build L ρ)).1 (ρ.parent, t) (by rw [he]; simp)
      exact List.mem_map.mpr ⟨_, this, rfl⟩

/-- rules whose parent is in the table -/
def pCount (Rs : List Rule) (S : List Nat) : Nat := Rs.countP (fun r => S.contains r.parent)

theorem growIter_succ (step : Wit → Wit) (n : Nat) (W : Wit) :
    growIter step (n+1) W = if (step W).length == W.length then W else growIter step n (step W) := rfl

theorem growIter_sub (step : Wit → Wit) (hstep : ∀ L e, e ∈ L → e ∈ step L) : ∀ (n : Nat) (L : Wit),
    ∀ e, e ∈ L → e ∈ growIter step n L
  | 0, _, _, h => h
  | n+1, L, e, h => by
    rw [growIter_succ]
    split
    · exact h
    · exact growIter_sub step hstep n _ e (hstep L e h)

theorem growIter_inv (step : Wit → Wit) (Q : Nat × Tree → Prop)
    (hstep : ∀ L, (∀ e, e ∈ L → Q e) → ∀ e, e ∈ step L → Q e) : ∀ (n : Nat) (L : Wit),
    (∀ e, e ∈ L → Q e) → ∀ e, e ∈ growIter step n L → Q e
  | 0, _, h => h
  | n+1, L, h => by
    rw [growIter_succ]
    split
    · exact h
    · exact growIter_inv step Q hstep n _ (hstep L h)

/-- `|rules| + 1` rounds reach a table to which a further round adds nothing -/
theorem growIter_fix (A : TA) (build : Wit → Rule → Option Tree) : ∀ (n : Nat) (L : Wit),
    A.rules.length < n + pCount A.rules (states L) →
      (growStep A build (growIter (growStep A build) n L)).length = (growIter (growStep A build) n L).length
  | 0, L, h => by
    have : pCount A.rules (states L) ≤ A.rules.length := List.countP_le_length
    omega
  | n+1, L, h => by
    rw [growIter_succ]
    split
    · next he => exact beq_iff_eq.mp he
    · next hne =>
      apply growIter_fix A build n
      have hne' : (A.rules.foldl (growOne build) L).length ≠ L.length := by
        intro he; apply hne; rw [growStep_eq]; exact beq_iff_eq.mpr he
      obtain ⟨ρ, h1, h2, h3⟩ := growFold_new build A.rules L hne'
      have hlt : pCount A.rules (states L) < pCount A.rules (states (growStep A build L)) := by
        apply countP_lt_of_new
        · intro r _ hr
          simp only [List.contains_iff_mem, states, List.mem_map] at hr ⊢
          obtain ⟨e, he, hq⟩ := hr
          exact ⟨e, (growFold_sub build A.rules L).1 e he, hq⟩
        · exact ⟨ρ, h1, List.contains_iff_mem.mpr h3, fun hc => h2 (List.contains_iff_mem.mp hc)⟩
      omega

/-- the table of `growIter` after `|rules| + 1` rounds is closed under `build` -/
theorem growIter_closed (A : TA) (build : Wit → Rule → Option Tree) (L : Wit) :
    ∀ ρ, ρ ∈ A.rules → ρ.parent ∈ states (growIter (growStep A build) (A.rules.length + 1) L) ∨
      build (growIter (growStep A build) (A.rules.length + 1) L) ρ = none :=
  growFold_fix build A.rules _ (growIter_fix A build (A.rules.length + 1) L (by omega))

/-! ### the trees of the productive states -/

theorem buildWit_sound {A : TA} {W : Wit} {ρ : Rule} {t : Tree} (hρ : ρ ∈ A.rules)
    (hW : ∀ e, e ∈ W → e.1 ∈ reach A e.2) (h : buildWit W ρ = some t) : ρ.parent ∈ reach A t := by
  unfold buildWit at h
  obtain ⟨ts, hts, rfl⟩ := Option.map_eq_some_iff.mp h
  rw [reach, mem_post']
  exact ⟨ρ, hρ, rfl, kidsWit_match hW hts, rfl⟩

theorem prodWit_sound (A : TA) : ∀ e, e ∈ prodWit A → e.1 ∈ reach A e.2 := by
  apply growIter_inv _ (fun e => e.1 ∈ reach A e.2)
  · intro L hL
    rw [growStep_eq]
    exact growFold_inv buildWit _ A.rules L (fun L ρ t hρ hL' ht => buildWit_sound hρ hL' ht) hL
  · intro e h; simp at h

theorem prodWit_complete {A : TA} {q : Nat} (h : Productive A q) : q ∈ states (prodWit A) := by
  obtain ⟨t, ht⟩ := h
  apply reach_sub_closed A (states (prodWit A)) _ t q ht
  intro r hr hk
  rcases growIter_closed A buildWit [] r hr with h | h
  · exact h
  · obtain ⟨ts, hts⟩ := kidsWit_some_of_states (W := prodWit A) hk
    have : buildWit (prodWit A) r = some (Tree.node r.sym ts) := by
      unfold buildWit; rw [hts]; rfl
    rw [show growIter (growStep A buildWit) (A.rules.length + 1) [] = prodWit A from rfl, this] at h
    cases h

/-! ### the upward search of `complete` -/

/-- the table of the upward search from `(q, t)` -/
def searchTable (A : TA) (q : Nat) (t : Tree) : Wit :=
  growIter (growStep A (buildCtx (prodWit A))) (A.rules.length + 1) [(q, t)]

theorem not_reach_of_kid {B : TA} {f : Nat} {ts : List Tree} {t : Tree} (ht : t ∈ ts)
    (he : ∀ x, x ∉ reach B t) : ∀ x, x ∉ reach B (.node f ts) := by
  intro x hx
  rw [reach, mem_post'] at hx
  obtain ⟨r, _, _, hm, _⟩ := hx
  have hall := matchKids_mem hm
  have hmem : reach B t ∈ reachL B ts := by
    rw [reachL_eq_map]; exact List.mem_map.mpr ⟨t, ht, rfl⟩
  have : ∀ {qs : List Nat} {ss : List (List Nat)}, All2 (fun q s => q ∈ s) qs ss → ∀ s, s ∈ ss → ∃ q, q ∈ s := by
    intro qs ss h
    induction h with
    | nil => intro s hs; simp at hs
    | cons hd _ ih =>
      intro s hs
      rcases List.mem_cons.mp hs with rfl | hs
      · exact ⟨_, hd⟩
      · exact ih s hs
  obtain ⟨y, hy⟩ := this hall _ hmem
  exact he y hy

/-- entries of the search table: the tree reaches the state in `A` and nothing in `B` -/
def CtxOK (A B : TA) (e : Nat × Tree) : Prop := e.1 ∈ reach A e.2 ∧ ∀ x, x ∉ reach B e.2

theorem buildCtx_some {W L : Wit} {ρ : Rule} {t : Tree} (h : buildCtx W L ρ = some t) :
    ∃ pt ts, pt ∈ L ∧ pt.1 ∈ ρ.kids ∧ kidsWit (pt :: W) ρ.kids = some ts ∧ t = .node ρ.sym ts := by
  unfold buildCtx at h
  obtain ⟨ts, hts, rfl⟩ := Option.map_eq_some_iff.mp h
  obtain ⟨pt, hpt, hf⟩ := List.exists_of_findSome?_eq_some hts
  split at hf
  · next hc => exact ⟨pt, ts, hpt, List.contains_iff_mem.mp hc, hf, rfl⟩
  · cases hf

theorem buildCtx_sound {A B : TA} {W L : Wit} {ρ : Rule} {t : Tree} (hρ : ρ ∈ A.rules)
    (hW : ∀ e, e ∈ W → e.1 ∈ reach A e.2) (hL : ∀ e, e ∈ L → CtxOK A B e) (h : buildCtx W L ρ = some t) :
    CtxOK A B (ρ.parent, t) := by
  obtain ⟨pt, ts, hpt, hk, hts, rfl⟩ := buildCtx_some h
  have hW' : ∀ e, e ∈ pt :: W → e.1 ∈ reach A e.2 := by
    intro e he
    rcases List.mem_cons.mp he with rfl | he
    · exact (hL _ hpt).1
    · exact hW e he
  constructor
  · show ρ.parent ∈ reach A (.node ρ.sym ts)
    rw [reach, mem_post']
    exact ⟨ρ, hρ, rfl, kidsWit_match hW' hts, rfl⟩
  · have : pt.2 ∈ ts := kidsWit_mem hts pt.1 pt.2 hk (lookupT_cons_self pt.1 pt.2 W)
    exact not_reach_of_kid this (hL _ hpt).2

theorem searchTable_ok {A B : TA} {q : Nat} {t : Tree} (h : CtxOK A B (q, t)) :
    ∀ e, e ∈ searchTable A q t → CtxOK A B e := by
  apply growIter_inv _ (CtxOK A B)
  · intro L hL
    rw [growStep_eq]
    exact growFold_inv _ _ A.rules L
      (fun L ρ t hρ hL' ht => buildCtx_sound hρ (prodWit_sound A) hL' ht) hL
  · intro e he
    rw [List.mem_singleton.mp he]; exact h

theorem searchTable_start (A : TA) (q : Nat) (t : Tree) : q ∈ states (searchTable A q t) := by
  have : (q, t) ∈ searchTable A q t := by
    apply growIter_sub
    · intro L e he
      rw [growStep_eq]; exact (growFold_sub _ A.rules L).1 e he
    · simp
  exact List.mem_map.mpr ⟨_, this, rfl⟩

/-- the search table is closed upwards through rules whose children are productive -/
theorem searchTable_closed {A : TA} {q : Nat} {t : Tree} {ρ : Rule} (hρ : ρ ∈ A.rules) {k : Nat} (hk : k ∈ ρ.kids)
    (hkL : k ∈ states (searchTable A q t)) (hprod : ∀ k', k' ∈ ρ.kids → Productive A k') :
    ρ.parent ∈ states (searchTable A q t) := by
  rcases growIter_closed A (buildCtx (prodWit A)) [(q, t)] ρ hρ with h | h
  · exact h
  · exfalso
    change buildCtx (prodWit A) (searchTable A q t) ρ = none at h
    unfold buildCtx at h
    have h' := Option.map_eq_none_iff.mp h
    obtain ⟨pt, hpt, hq⟩ := List.mem_map.mp hkL
    have := List.findSome?_eq_none_iff.mp h' pt hpt
    rw [if_pos (by rw [hq]; exact List.contains_iff_mem.mpr hk)] at this
    obtain ⟨ts, hts⟩ := kidsWit_some_of_states (W := pt :: prodWit A) (ks := ρ.kids) (fun k' hk' => by
      have := prodWit_complete (hprod k' hk')
      exact List.mem_map.mpr (by
        obtain ⟨e, he, hq'⟩ := List.mem_map.mp this
        exact ⟨e, List.mem_cons_of_mem _ he, hq'⟩))
    rw [hts] at this; cases this

/-- on a trimmed automaton the search finds a final state -/
theorem search_complete {A : TA} (hprod : ∀ r, r ∈ A.rules → ∀ k, k ∈ r.kids → Productive A k) {q : Nat}
    (t : Tree) (hq : TdReachable A q) : ∃ p, p ∈ states (searchTable A q t) ∧ p ∈ A.final := by
  have : ∀ p, TdReachable A p → p ∈ states (searchTable A q t) →
      ∃ p', p' ∈ states (searchTable A q t) ∧ p' ∈ A.final := by
    intro p hp
    induction hp with
    | final hf => exact fun h => ⟨_, h, hf⟩
    | @step r k hr _ hk ih => exact fun h => ih (searchTable_closed hr hk h (hprod r hr))
  exact this q hq (searchTable_start A q t)

theorem accepts_false_of_empty {B : TA} {t : Tree} (h : ∀ x, x ∉ reach B t) : accepts B t = false := by
  unfold accepts accepting
  rw [List.eq_nil_iff_forall_not_mem.mpr h]; rfl

theorem accepts_of_reach {A : TA} {t : Tree} {q : Nat} (h : q ∈ reach A t) (hf : q ∈ A.final) :
    accepts A t = true := by
  simp only [accepts, accepting, List.any_eq_true, List.contains_iff_mem]
  exact ⟨q, h, hf⟩

/-- the completed tree separates `A` from `B` whenever the search reaches a final state -/
theorem complete_ok {A B : TA} {q : Nat} {t : Tree} (h : ErrOK A B (q, t))
    (hf : q ∈ A.final ∨ ∃ p, p ∈ states (searchTable A q t) ∧ p ∈ A.final) :
    accepts A (complete A q t) = true ∧ accepts B (complete A q t) = false := by
  unfold complete
  split
  · next hc =>
    have hqf := List.contains_iff_mem.mp hc
    refine ⟨accepts_of_reach h.1 hqf, ?_⟩
    rcases h.2 with h2 | h2
    · exact h2.2
    · exact accepts_false_of_empty h2
  · next hc =>
    have hqf : q ∉ A.final := fun hm => hc (List.contains_iff_mem.mpr hm)
    have hctx : CtxOK A B (q, t) := by
      refine ⟨h.1, ?_⟩
      rcases h.2 with h2 | h2
      · exact absurd h2.1 hqf
      · exact h2
    have hall := searchTable_ok hctx
    rcases hf with hf | ⟨p, hp, hpf⟩
    · exact absurd hf hqf
    · simp only
      have hL : growIter (growStep A (buildCtx (prodWit A))) (A.rules.length + 1) [(q, t)] = searchTable A q t :=
        rfl
      rw [hL]
      split
      · next pt hpt =>
        have h1 := List.mem_of_find?_eq_some hpt
        have h2 := List.find?_some hpt
        exact ⟨accepts_of_reach (hall pt h1).1 (List.contains_iff_mem.mp h2),
          accepts_false_of_empty (hall pt h1).2⟩
      · next hn =>
        obtain ⟨e, he, hq⟩ := List.mem_map.mp hp
        have := List.find?_eq_none.mp hn e he
        rw [hq] at this
        exact absurd (List.contains_iff_mem.mpr hpf) this

/-! ### totality -/

/-- the children of all rules are productive and the parents are reachable top-down from a final state -/
def Trimmed (A : TA) : Prop :=
  (∀ r, r ∈ A.rules → ∀ k, k ∈ r.kids → Productive A k) ∧ (∀ r, r ∈ A.rules → TdReachable A r.parent)

theorem trimmed_removeUseless (A : TA) : Trimmed (removeUseless A) :=
  ⟨removeUseless_kids_productive A, fun _ hr => (removeUseless_rule hr).1⟩

theorem trimmed_of_allUsefulB {A : TA} (h : allUsefulB A = true) : Trimmed A := by
  simp only [allUsefulB, Bool.and_eq_true, List.all_eq_true, List.contains_iff_mem] at h
  obtain ⟨hst, _⟩ := h
  have hB : ∀ q, Occurs A q → TdReachable (restrict A (prodStates A)) q := by
    intro q hq
    have := hst q (mem_states.mpr hq)
    rw [usefulStates_eq] at this
    exact (tdReach_iff _ q).mp this
  constructor
  · intro r hr k hk
    exact (prodStates_iff A k).mp (tdReachable_restrict_mem (hB k (Or.inr ⟨r, hr, Or.inr hk⟩)))
  · intro r hr
    exact tdReachable_of_restrict (hB _ (Or.inr ⟨r, hr, Or.inl rfl⟩))

theorem inclUp_of_run_error {A B : TA} (hA : Trimmed A) {fuel : Nat} {q : Nat} {t : Tree}
    (h : run A B fuel = some (.error (q, t))) : inclUp A B fuel = some (false, .witness (complete A q t)) := by
  have he := run_error_ok h
  have hq : TdReachable A q := by
    have := he.1
    cases t with
    | node f ts =>
      rw [reach, mem_post'] at this
      obtain ⟨r, hr, _, _, hp⟩ := this
      have hp' : r.parent = q := hp
      exact hp' ▸ hA.2 r hr
  obtain ⟨h1, h2⟩ := complete_ok he (Or.inr (search_complete hA.1 t hq))
  unfold inclUp
  rw [h]
  simp only
  rw [if_pos (by rw [h1, h2]; rfl)]

/-- on a trimmed `A` the model returns a verdict for every fuel above the bound -/
theorem inclUp_total {A B : TA} (hA : Trimmed A) {fuel : Nat} (hf : fuelBound A B < fuel) :
    ∃ b c, inclUp A B fuel = some (b, c) := by
  obtain ⟨r, hr⟩ := run_terminates hf
  cases r with
  | ok P => exact ⟨_, _, inclUp_of_run_ok hr⟩
  | error e => exact ⟨_, _, inclUp_of_run_error hA (q := e.1) (t := e.2) hr⟩

/-- … and it is the right one -/
theorem inclUp_complete {A B : TA} (hA : Trimmed A) {fuel : Nat} (hf : fuelBound A B < fuel) :
    (Incl A B → ∃ c, inclUp A B fuel = some (true, c)) ∧ (¬ Incl A B → ∃ c, inclUp A B fuel = some (false, c)) := by
  obtain ⟨b, c, h⟩ := inclUp_total hA hf
  have := inclUp_iff h
  cases b with
  | true => exact ⟨fun _ => ⟨c, h⟩, fun hn => absurd (this.mp rfl) hn⟩
  | false => exact ⟨fun hi => (by cases this.mpr hi), fun _ => ⟨c, h⟩⟩

/-! ### the model of `CheckInclusion` (operands sanitised first) -/

theorem incl_removeUseless (A B : TA) : Incl (removeUseless A) (removeUseless B) ↔ Incl A B := by
  unfold Incl
  constructor
  · intro h t ht
    rw [← removeUseless_lang] at ht ⊢
    exact h t ht
  · intro h t ht
    rw [removeUseless_lang] at ht ⊢
    exact h t ht

theorem checkInclUp_iff {A B : TA} {fuel : Nat} {b : Bool} {c : Cert} (h : checkInclUp A B fuel = some (b, c)) :
    b = true ↔ Incl A B :=
  (inclUp_iff h).trans (incl_removeUseless A B)

theorem checkInclUp_total (A B : TA) {fuel : Nat}
    (hf : fuelBound (removeUseless A) (removeUseless B) < fuel) : ∃ b c, checkInclUp A B fuel = some (b, c) :=
  inclUp_total (trimmed_removeUseless A) hf

theorem checkInclUp_complete (A B : TA) {fuel : Nat} (hf : fuelBound (removeUseless A) (removeUseless B) < fuel) :
    (Incl A B → ∃ c, checkInclUp A B fuel = some (true, c)) ∧
    (¬ Incl A B → ∃ c, checkInclUp A B fuel = some (false, c)) := by
  have := inclUp_complete (trimmed_removeUseless A) hf
  rw [incl_removeUseless] at this
  exact this

/-! ### examples (non-vacuity) -/
namespace TotalEx
open InclUpEx

/-- `{a}` with the extra rule `g(1) → 5`: state 5 is useless, and `g(a)` has an empty macro-state in `{a}` -/
def exU : TA := ⟨[⟨0, [], 1⟩, ⟨2, [1], 5⟩], [1]⟩

example : Trimmed exG := trimmed_of_allUsefulB (by decide)
example : Trimmed exDeep := trimmed_of_allUsefulB (by decide)
example : fuelBound exG exH = 96 := by decide
example : ∃ b c, inclUp exG exH 97 = some (b, c) := inclUp_total (trimmed_of_allUsefulB (by decide)) (by decide)
example : ∃ c, inclUp exG exH 97 = some (false, c) :=
  (inclUp_complete (trimmed_of_allUsefulB (by decide)) (by decide)).2
    (inclUp_false (fuel := 10) (c := .witness (.node 2 [.node 0 [], .node 1 []])) rfl)
example : ∃ c, inclUp exH exG 97 = some (true, c) :=
  (inclUp_complete (trimmed_of_allUsefulB (by decide)) (by decide)).1
    (upCertB_incl (X := [(3, [1]), (4, [1]), (9, [2])]) (by decide))
-- the upward search: `g(a)` at state 5 is completed to `h(g(a))`
#guard showTree (complete exDeep 5 (.node 2 [.node 0 []])) == "3(2(0))"
#guard (prodWit exDeep).map (fun e => (e.1, showTree e.2)) == [(1, "0"), (5, "2(0)"), (2, "3(2(0))")]
-- `Trimmed` is needed: on `exU ⊆ {a}` (true) the code's exit on the empty macro-state of `g(a)` cannot be justified,
-- the model answers `none`; the sanitising wrapper answers `true`
example : allUsefulB exU = false := by decide
#guard verdict (inclUp exU exA 100) == none
#guard verdict (checkInclUp exU exA 100) == some true
example : Incl exU exA := (checkInclUp_iff (A := exU) (B := exA) (fuel := 100) (c := .closed [(1, [1])]) rfl).mp rfl

end TotalEx

end InclUp
end Vata
