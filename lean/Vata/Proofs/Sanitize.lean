import Vata.Sanitize
import Vata.Proofs.UnionModel
import Vata.Proofs.InclUpTotal
import Vata.Proofs.PropAux
/-!
# Property C01 – `SanitizeAutsForInclusion` (`Vata/Sanitize.lean`): trimming and dense disjoint renumbering of the operands

* `sanitize_lang`            both languages are preserved
* `sanitize_trimmed`         both results pass `allUsefulB` (every state and rule lies on an accepting run)
* `sanitize_disjoint`        the two state sets are disjoint
* `sanitize_bound`           all states are below the returned counter `n`
* `sanitize_dense`           the states of the first result are exactly `0..k-1`, those of the second exactly `k..n-1`
* `sanitize_count`           `n = |Q_A'| + |Q_B'|`
* `checkIncl_sanitized`      `Incl (sanitize A B).1 (sanitize A B).2.1 ↔ Incl A B`
* `checkInclUpSan_iff`, `checkInclUpSan_complete`   the upward inclusion model run on the fully sanitised operands is exact
                             and total
* `allUsefulB_complete`      completeness of the Boolean check `allUsefulB`, `allUsefulB_reindex` its invariance under renaming
The `sanitizeOrd_*` versions hold for ALL visiting orders that enumerate exactly the states of the (trimmed) operands.
-/
namespace Vata
namespace San

/-! ### the trimmed-ness check is complete and invariant under renaming -/

/-- every occurring state is productive and reachable top-down from a final state -/
def AllGood (A : TA) : Prop := ∀ q, Occurs A q → Productive A q ∧ TdReachable A q

theorem restrict_eq_self {A : TA} (h : AllGood A) : restrict A (prodStates A) = A := by
  have hP : ∀ q, Occurs A q → q ∈ prodStates A := fun q hq => (prodStates_iff A q).mpr (h q hq).1
  unfold restrict
  have h1 : A.rules.filter (fun r => (prodStates A).contains r.parent && r.kids.all (fun k => (prodStates A).contains k)) = A.rules := by
    rw [List.filter_eq_self]
    intro r hr
    simp only [Bool.and_eq_true, List.contains_iff_mem, List.all_eq_true]
    exact ⟨hP _ (Or.inr ⟨r, hr, Or.inl rfl⟩), fun k hk => hP k (Or.inr ⟨r, hr, Or.inr hk⟩)⟩
  have h2 : A.final.filter (fun q => (prodStates A).contains q) = A.final := by
    rw [List.filter_eq_self]
    intro q hq
    simp only [List.contains_iff_mem]
    exact hP q (Or.inl hq)
  rw [h1, h2]

/-- completeness of `allUsefulB` -/
theorem allUsefulB_complete {A : TA} (h : AllGood A) : allUsefulB A = true := by
  have hU : ∀ q, Occurs A q → q ∈ usefulStates A := by
    intro q hq
    rw [usefulStates_eq, restrict_eq_self h]
    exact (tdReach_iff A q).mpr (h q hq).2
  simp only [allUsefulB, Bool.and_eq_true, List.all_eq_true, List.contains_iff_mem]
  refine ⟨fun q hq => hU q (mem_states.mp hq), ?_⟩
  intro r hr
  exact ⟨hU _ (Or.inr ⟨r, hr, Or.inl rfl⟩), fun k hk => hU k (Or.inr ⟨r, hr, Or.inr hk⟩)⟩

theorem allGood_removeUseless (A : TA) : AllGood (removeUseless A) := by
  rintro q (hf | ⟨r, hr, h⟩)
  · have hf' : q ∈ (restrict A (prodStates A)).final := hf
    have hqP : q ∈ prodStates A := by
      simp only [restrict, List.mem_filter, List.contains_iff_mem] at hf'
      exact hf'.2
    exact ⟨productive_removeUnreachable (productive_restrict hqP) (TdReachable.final hf'), TdReachable.final hf⟩
  · obtain ⟨h1, h2, h3⟩ := removeUseless_rule hr
    rcases h with h | h
    · rw [← h]; exact ⟨h2, h1⟩
    · exact ⟨(h3 q h).2, (h3 q h).1⟩

theorem tdReachable_reindex (h : Nat → Nat) {A : TA} {q : Nat} (hq : TdReachable A q) : TdReachable (reindex h A) (h q) := by
  induction hq with
  | final hf => exact TdReachable.final ((reindex_final h A _).mpr ⟨_, hf, rfl⟩)
  | @step r k hr _ hk ih =>
    exact TdReachable.step (r := mapRule h r) ((reindex_rules h A _).mpr ⟨r, hr, rfl⟩) ih (List.mem_map.mpr ⟨k, hk, rfl⟩)

/-- trimmed-ness is preserved by ANY renaming of the states -/
theorem allGood_reindex (h : Nat → Nat) {A : TA} (hA : AllGood A) : AllGood (reindex h A) := by
  intro q' hq'
  obtain ⟨q, hq, rfl⟩ := mem_states_reindex.mp (mem_states.mpr hq')
  obtain ⟨⟨t, ht⟩, h2⟩ := hA q (mem_states.mp hq)
  exact ⟨⟨t, reindex_mono h A t q ht⟩, tdReachable_reindex h h2⟩

theorem allUsefulB_reindex (h : Nat → Nat) (A : TA) : allUsefulB (reindex h (removeUseless A)) = true :=
  allUsefulB_complete (allGood_reindex h (allGood_removeUseless A))

/-! ### the two passes of the translator -/

/-- the facts about the two maps built by `sanitizeOrd` -/
structure Maps (oA oB : List Nat) : Prop where
  injA : Um.Inj (weakTrAll oA [] 0).1
  injB : Um.Inj (weakTrAll oB [] (weakTrAll oA [] 0).2).1
  totA : ∀ q, q ∈ oA → ∃ n, (weakTrAll oA [] 0).1.lookup q = some n
  totB : ∀ q, q ∈ oB → ∃ n, (weakTrAll oB [] (weakTrAll oA [] 0).2).1.lookup q = some n
  keyA : ∀ p n, (weakTrAll oA [] 0).1.lookup p = some n → p ∈ oA
  keyB : ∀ p n, (weakTrAll oB [] (weakTrAll oA [] 0).2).1.lookup p = some n → p ∈ oB
  rngA : ∀ p n, (weakTrAll oA [] 0).1.lookup p = some n → n < (weakTrAll oA [] 0).2
  rngB : ∀ p n, (weakTrAll oB [] (weakTrAll oA [] 0).2).1.lookup p = some n →
    (weakTrAll oA [] 0).2 ≤ n ∧ n < (weakTrAll oB [] (weakTrAll oA [] 0).2).2
  le : (weakTrAll oA [] 0).2 ≤ (weakTrAll oB [] (weakTrAll oA [] 0).2).2
  ontoA : ∀ n, n < (weakTrAll oA [] 0).2 → ∃ p, (weakTrAll oA [] 0).1.lookup p = some n
  ontoB : ∀ n, (weakTrAll oA [] 0).2 ≤ n → n < (weakTrAll oB [] (weakTrAll oA [] 0).2).2 →
    ∃ p, (weakTrAll oB [] (weakTrAll oA [] 0).2).1.lookup p = some n
  lenA : (weakTrAll oA [] 0).1.length = (weakTrAll oA [] 0).2
  lenB : (weakTrAll oB [] (weakTrAll oA [] 0).2).1.length + (weakTrAll oA [] 0).2 = (weakTrAll oB [] (weakTrAll oA [] 0).2).2
  ndA : ((weakTrAll oA [] 0).1.map Prod.fst).Nodup
  ndB : ((weakTrAll oB [] (weakTrAll oA [] 0).2).1.map Prod.fst).Nodup

theorem maps (oA oB : List Nat) : Maps oA oB := by
  have ga := Um.weakTrAll_grow oA [] 0 (Um.below_nil 0)
  have gb := Um.weakTrAll_grow oB [] (weakTrAll oA [] 0).2 (Um.below_nil _)
  refine ⟨ga.inj Um.inj_nil, gb.inj Um.inj_nil, Um.weakTrAll_total oA [] 0 (Um.below_nil 0),
    Um.weakTrAll_total oB [] _ (Um.below_nil _), ?_, ?_, ga.below (Um.below_nil 0), ?_, gb.le, ?_, gb.onto, ?_, ?_,
    ga.nodup List.nodup_nil, gb.nodup List.nodup_nil⟩
  · intro p n hp
    rcases Um.weakTrAll_keys oA [] 0 p n hp with h | h
    · simp at h
    · exact h
  · intro p n hp
    rcases Um.weakTrAll_keys oB [] _ p n hp with h | h
    · simp at h
    · exact h
  · intro p n hp
    rcases gb.new p n hp with h | h
    · simp at h
    · exact h
  · intro n hn
    exact ga.onto n (Nat.zero_le _) hn
  · have := ga.len; simpa using this
  · have := gb.len; simpa using this

/-- two duplicate-free lists with the same members have the same length -/
theorem length_eq_of_mem_iff {l₁ l₂ : List Nat} (h₁ : l₁.Nodup) (h₂ : l₂.Nodup) (h : ∀ a, a ∈ l₁ ↔ a ∈ l₂) :
    l₁.length = l₂.length :=
  ((List.perm_ext_iff_of_nodup h₁ h₂).mpr h).length_eq

theorem mem_keys {m : SMap} {p : Nat} : p ∈ m.map Prod.fst ↔ ∃ n, m.lookup p = some n := by
  constructor
  · intro hp
    cases hl : m.lookup p with
    | none => exact absurd hp (Um.lookup_none_iff.mp hl)
    | some n => exact ⟨n, rfl⟩
  · rintro ⟨n, hn⟩
    exact List.mem_map.mpr ⟨(p, n), Um.mem_of_lookup hn, rfl⟩

end San

/-! ## the theorems for arbitrary visiting orders -/

/-- languages are preserved by the renumbering -/
theorem sanitizeOrd_lang (oA oB : List Nat) (A' B' : TA) (hoA : ∀ q, q ∈ A'.states → q ∈ oA)
    (hoB : ∀ q, q ∈ B'.states → q ∈ oB) (t : Tree) :
    accepts (sanitizeOrd oA oB A' B').1 t = accepts A' t ∧ accepts (sanitizeOrd oA oB A' B').2.1 t = accepts B' t := by
  have M := San.maps oA oB
  exact ⟨reindex_inj_lang _ A' (Um.injOn_of M.injA (fun q hq => M.totA q (hoA q hq))) t,
    reindex_inj_lang _ B' (Um.injOn_of M.injB (fun q hq => M.totB q (hoB q hq))) t⟩

/-- the maps are injective on the states of their operand -/
theorem sanitizeOrd_inj (oA oB : List Nat) (A' B' : TA) (hoA : ∀ q, q ∈ A'.states → q ∈ oA)
    (hoB : ∀ q, q ∈ B'.states → q ∈ oB) :
    InjOnStates (applyMap (weakTrAll oA [] 0).1) A' ∧ InjOnStates (applyMap (weakTrAll oB [] (weakTrAll oA [] 0).2).1) B' :=
  have M := San.maps oA oB
  ⟨Um.injOn_of M.injA (fun q hq => M.totA q (hoA q hq)), Um.injOn_of M.injB (fun q hq => M.totB q (hoB q hq))⟩

/-- where the states of the two results lie: those of the first are exactly the numbers below
`k = (weakTrAll oA [] 0).2`, those of the second exactly the numbers from `k` up to the returned counter -/
theorem sanitizeOrd_states (oA oB : List Nat) (A' B' : TA) (hoA : ∀ q, q ∈ oA ↔ q ∈ A'.states)
    (hoB : ∀ q, q ∈ oB ↔ q ∈ B'.states) (x : Nat) :
    (x ∈ (sanitizeOrd oA oB A' B').1.states ↔ x < (weakTrAll oA [] 0).2) ∧
    (x ∈ (sanitizeOrd oA oB A' B').2.1.states ↔ (weakTrAll oA [] 0).2 ≤ x ∧ x < (sanitizeOrd oA oB A' B').2.2) := by
  have M := San.maps oA oB
  constructor
  · show x ∈ (reindex _ A').states ↔ _
    rw [mem_states_reindex]
    constructor
    · rintro ⟨q, hq, rfl⟩
      obtain ⟨n, hn⟩ := M.totA q ((hoA q).mpr hq)
      rw [Um.applyMap_of_lookup hn]
      exact M.rngA q n hn
    · intro hx
      obtain ⟨p, hp⟩ := M.ontoA x hx
      exact ⟨p, (hoA p).mp (M.keyA p x hp), (Um.applyMap_of_lookup hp).symm⟩
  · show x ∈ (reindex _ B').states ↔ _ ∧ x < (weakTrAll oB [] (weakTrAll oA [] 0).2).2
    rw [mem_states_reindex]
    constructor
    · rintro ⟨q, hq, rfl⟩
      obtain ⟨n, hn⟩ := M.totB q ((hoB q).mpr hq)
      rw [Um.applyMap_of_lookup hn]
      exact M.rngB q n hn
    · rintro ⟨h1, h2⟩
      obtain ⟨p, hp⟩ := M.ontoB x h1 h2
      exact ⟨p, (hoB p).mp (M.keyB p x hp), (Um.applyMap_of_lookup hp).symm⟩

/-- the numbers of states: `k = |Q_A'|` and the returned counter is `|Q_A'| + |Q_B'|` (also for the results) -/
theorem sanitizeOrd_count (oA oB : List Nat) (A' B' : TA) (hoA : ∀ q, q ∈ oA ↔ q ∈ A'.states)
    (hoB : ∀ q, q ∈ oB ↔ q ∈ B'.states) :
    (weakTrAll oA [] 0).2 = A'.states.length ∧
    (sanitizeOrd oA oB A' B').2.2 = A'.states.length + B'.states.length ∧
    (sanitizeOrd oA oB A' B').1.states.length = A'.states.length ∧
    (sanitizeOrd oA oB A' B').2.1.states.length = B'.states.length := by
  have M := San.maps oA oB
  obtain ⟨iA, iB⟩ := sanitizeOrd_inj oA oB A' B' (fun q hq => (hoA q).mpr hq) (fun q hq => (hoB q).mpr hq)
  have hA : (weakTrAll oA [] 0).1.length = A'.states.length := by
    rw [← List.length_map (f := Prod.fst)]
    apply San.length_eq_of_mem_iff M.ndA (PropAux.nodup_states A')
    intro a
    rw [San.mem_keys, ← hoA]
    exact ⟨fun ⟨n, hn⟩ => M.keyA a n hn, M.totA a⟩
  have hB : (weakTrAll oB [] (weakTrAll oA [] 0).2).1.length = B'.states.length := by
    rw [← List.length_map (f := Prod.fst)]
    apply San.length_eq_of_mem_iff M.ndB (PropAux.nodup_states B')
    intro a
    rw [San.mem_keys, ← hoB]
    exact ⟨fun ⟨n, hn⟩ => M.keyB a n hn, M.totB a⟩
  have hk : (weakTrAll oA [] 0).2 = A'.states.length := by rw [← M.lenA, hA]
  refine ⟨hk, ?_, reindex_states_length _ A' iA, reindex_states_length _ B' iB⟩
  show (weakTrAll oB [] (weakTrAll oA [] 0).2).2 = _
  rw [← M.lenB, hB, hk, Nat.add_comm]

/-! ## the theorems for the model `sanitize` -/

namespace San
theorem ordA (A : TA) : ∀ q, q ∈ visitOrder (removeUseless A) ↔ q ∈ (removeUseless A).states := fun _ => Um.mem_visitOrder
end San

/-- the languages of both operands are preserved -/
theorem sanitize_lang (A B : TA) (t : Tree) :
    accepts (sanitize A B).1 t = accepts A t ∧ accepts (sanitize A B).2.1 t = accepts B t := by
  obtain ⟨h1, h2⟩ := sanitizeOrd_lang _ _ (removeUseless A) (removeUseless B) (fun q hq => (San.ordA A q).mpr hq)
    (fun q hq => (San.ordA B q).mpr hq) t
  exact ⟨h1.trans (removeUseless_lang A t), h2.trans (removeUseless_lang B t)⟩

/-- both results are trimmed: they pass the check `allUsefulB` (every state and every rule lies on an accepting run) -/
theorem sanitize_trimmed (A B : TA) : allUsefulB (sanitize A B).1 = true ∧ allUsefulB (sanitize A B).2.1 = true :=
  ⟨San.allUsefulB_reindex _ A, San.allUsefulB_reindex _ B⟩

/-- … in terms of the specification: every state and every rule of both results is useful -/
theorem sanitize_useful (A B : TA) :
    ((∀ q, Occurs (sanitize A B).1 q → UsefulState (sanitize A B).1 q) ∧
      (∀ r, r ∈ (sanitize A B).1.rules → UsefulRule (sanitize A B).1 r)) ∧
    ((∀ q, Occurs (sanitize A B).2.1 q → UsefulState (sanitize A B).2.1 q) ∧
      (∀ r, r ∈ (sanitize A B).2.1.rules → UsefulRule (sanitize A B).2.1 r)) :=
  ⟨allUsefulB_sound _ (sanitize_trimmed A B).1, allUsefulB_sound _ (sanitize_trimmed A B).2⟩

/-- dense renumbering: the first result has exactly the states `0..k-1` (`k` its number of states), the second exactly
`k..n-1`, where `n` is the returned counter -/
theorem sanitize_dense (A B : TA) (x : Nat) :
    (x ∈ (sanitize A B).1.states ↔ x < (sanitize A B).1.states.length) ∧
    (x ∈ (sanitize A B).2.1.states ↔ (sanitize A B).1.states.length ≤ x ∧ x < (sanitize A B).2.2) := by
  obtain ⟨h1, h2⟩ := sanitizeOrd_states _ _ (removeUseless A) (removeUseless B) (San.ordA A) (San.ordA B) x
  obtain ⟨c1, _, c3, _⟩ := sanitizeOrd_count _ _ (removeUseless A) (removeUseless B) (San.ordA A) (San.ordA B)
  have hk : (sanitize A B).1.states.length = (weakTrAll (visitOrder (removeUseless A)) [] 0).2 := c3.trans c1.symm
  rw [hk]
  exact ⟨h1, h2⟩

/-- the state sets of the two results are disjoint -/
theorem sanitize_disjoint (A B : TA) : ∀ q, q ∈ (sanitize A B).1.states → q ∉ (sanitize A B).2.1.states := by
  intro q h1 h2
  have := ((sanitize_dense A B q).1.mp h1)
  have := ((sanitize_dense A B q).2.mp h2).1
  omega

/-- the returned counter is the total number of states … -/
theorem sanitize_count (A B : TA) :
    (sanitize A B).2.2 = (sanitize A B).1.states.length + (sanitize A B).2.1.states.length ∧
    (sanitize A B).1.states.length = (removeUseless A).states.length ∧
    (sanitize A B).2.1.states.length = (removeUseless B).states.length := by
  obtain ⟨_, c2, c3, c4⟩ := sanitizeOrd_count _ _ (removeUseless A) (removeUseless B) (San.ordA A) (San.ordA B)
  refine ⟨?_, c3, c4⟩
  show (sanitizeOrd _ _ (removeUseless A) (removeUseless B)).2.2 =
    (sanitizeOrd _ _ (removeUseless A) (removeUseless B)).1.states.length +
    (sanitizeOrd _ _ (removeUseless A) (removeUseless B)).2.1.states.length
  rw [c3, c4]
  exact c2

/-- … and all states of both results are below it -/
theorem sanitize_bound (A B : TA) :
    ∀ q, q ∈ (sanitize A B).1.states ∨ q ∈ (sanitize A B).2.1.states → q < (sanitize A B).2.2 := by
  intro q hq
  rcases hq with h | h
  · have := (sanitize_dense A B q).1.mp h
    have := (sanitize_count A B).1
    omega
  · exact ((sanitize_dense A B q).2.mp h).2

/-- sanitising does not change the question asked -/
theorem checkIncl_sanitized (A B : TA) : Incl (sanitize A B).1 (sanitize A B).2.1 ↔ Incl A B := by
  unfold Incl
  constructor
  · intro h t ht
    rw [← (sanitize_lang A B t).1] at ht
    rw [← (sanitize_lang A B t).2]
    exact h t ht
  · intro h t ht
    rw [(sanitize_lang A B t).1] at ht
    rw [(sanitize_lang A B t).2]
    exact h t ht

/-- the upward inclusion model on the fully sanitised operands: every verdict is exact -/
theorem checkInclUpSan_iff {A B : TA} {fuel : Nat} {b : Bool} {c : InclUp.Cert}
    (h : checkInclUpSan A B fuel = some (b, c)) : b = true ↔ Incl A B :=
  (inclUp_iff h).trans (checkIncl_sanitized A B)

/-- … and a verdict is returned for every fuel above the bound -/
theorem checkInclUpSan_complete (A B : TA) {fuel : Nat}
    (hf : InclUp.fuelBound (sanitize A B).1 (sanitize A B).2.1 < fuel) :
    (Incl A B → ∃ c, checkInclUpSan A B fuel = some (true, c)) ∧
    (¬ Incl A B → ∃ c, checkInclUpSan A B fuel = some (false, c)) := by
  have := InclUp.inclUp_complete (InclUp.trimmed_of_allUsefulB (sanitize_trimmed A B).1) hf
  rw [checkIncl_sanitized] at this
  exact this

/-! ## non-vacuity -/
namespace SanEx

/-- `a → 7`, `f(7,7) → 3`, `g(2) → 9` (unproductive), `b → 4` (unreachable); final `3`, `9` -/
def exA : TA := ⟨[⟨0, [], 7⟩, ⟨1, [7, 7], 3⟩, ⟨2, [2], 9⟩, ⟨3, [], 4⟩], [3, 9]⟩
/-- `a → 7`, `b → 7`, `f(7,7) → 7`; final `7` (the state numbers overlap with those of `exA`) -/
def exB : TA := ⟨[⟨0, [], 7⟩, ⟨3, [], 7⟩, ⟨1, [7, 7], 7⟩], [7]⟩
def exT : Tree := .node 1 [.node 0 [], .node 0 []]

example : ((sanitize exA exB).1.rules, (sanitize exA exB).1.final) = ([⟨0, [], 1⟩, ⟨1, [1, 1], 0⟩], [0]) := by decide
example : ((sanitize exA exB).2.1.rules, (sanitize exA exB).2.1.final, (sanitize exA exB).2.2) =
    ([⟨0, [], 2⟩, ⟨3, [], 2⟩, ⟨1, [2, 2], 2⟩], [2], 3) := by decide
example : (sanitize exA exB).1.states = [1, 0] ∧ (sanitize exA exB).2.1.states = [2] := by decide
example : allUsefulB exA = false ∧ allUsefulB (sanitize exA exB).1 = true := by decide
example : accepts (sanitize exA exB).1 exT = true ∧ accepts exA exT = true := by decide
-- both directions of the inclusion question are exercised
example : ∃ c, checkInclUpSan exA exB 20 = some (true, c) := ⟨_, rfl⟩
example : ∃ c, checkInclUpSan exB exA 20 = some (false, c) := ⟨_, rfl⟩
example : Incl exA exB := (checkInclUpSan_iff (A := exA) (B := exB) (fuel := 20) rfl).mp rfl
example : ¬ Incl exB exA := fun h => by
  have := (checkInclUpSan_iff (A := exB) (B := exA) (fuel := 20) rfl).mpr h
  cases this

end SanEx

end Vata
