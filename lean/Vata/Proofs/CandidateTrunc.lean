import Vata.CandidateTrunc
import Vata.Proofs.Candidate
/-!
# `candidateTrunc w` is the unbounded model when the parents fit into `w` bits; the two failure modes when they do not
-/
namespace Vata

theorem truncRule_eq {w : Nat} {r : Rule} (h : r.parent < 2 ^ w) : truncRule w r = r := by
  cases r with
  | mk s k p => simp only [truncRule]; congr 1; exact Nat.mod_eq_of_lt h

theorem candInitStepT_eq {w : Nat} {r : Rule} (h : r.parent < 2 ^ w) (acc : CState × List CInfo) :
    candInitStepT w acc r = candInitStep acc r := by
  simp only [candInitStepT, candInitStep, truncRule_eq h]

theorem candInitT_eq {w : Nat} (l : List Rule) (h : ∀ r, r ∈ l → r.parent < 2 ^ w) (acc : CState × List CInfo) :
    candInitT w l acc = candInit l acc := by
  induction l generalizing acc with
  | nil => rfl
  | cons r rs ih =>
    simp only [candInitT, candInit]
    rw [candInitStepT_eq (h r List.mem_cons_self), ih (fun r' hr' => h r' (List.mem_cons_of_mem _ hr'))]

theorem candSearchT_eq {w : Nat} (A : TA) (h : ∀ r, r ∈ A.rules → r.parent < 2 ^ w) :
    candSearchT w A = candSearch A := by
  simp only [candSearchT, candSearch, candInitT_eq A.rules h]

/-- only the PARENTS have to fit: children are never stored in a narrowed field -/
theorem candidateTrunc_eq {w : Nat} (A : TA) (h : ∀ r, r ∈ A.rules → r.parent < 2 ^ w) :
    candidateTrunc w A = candidate A := by
  simp only [candidateTrunc, candidate, candRawT, candRaw, candSearchT_eq A h]

namespace CandTruncEx

/-- `a → 8`, `g(5) → 5` (never fires, keeps `remaining ≠ 0`); final `8` -/
def exLost : TA := ⟨[⟨0, [], 8⟩, ⟨1, [5], 5⟩], [8]⟩
/-- `a → 8`, `b → 0`, `f(0) → 1`, `g(1) → 2`; final `1` (the search stops at `1`, `g(1) → 2` stays open) -/
def exWrong : TA := ⟨[⟨0, [], 8⟩, ⟨1, [], 0⟩, ⟨2, [0], 1⟩, ⟨3, [1], 2⟩], [1]⟩
/-- `a` -/
def tA : Tree := .node 0 []
/-- `f(a)` -/
def tFA : Tree := .node 2 [.node 0 []]

-- the 3-bit record of `a → 8` is `a → 0`; phase 1 marked the map key `8`
example : (candSearchT 3 exLost).recorded = [⟨0, [], 0⟩] ∧ (candSearchT 3 exLost).reached = [8] ∧
    (candSearchT 3 exLost).remaining = 1 := by decide
example : (candRawT 3 exWrong).rules = [⟨0, [], 0⟩, ⟨1, [], 0⟩, ⟨2, [0], 1⟩] ∧ (candRawT 3 exWrong).final = [1] := by decide

end CandTruncEx
end Vata
