import Vata.Proofs.TrimCodedLoop
import Vata.Proofs.TrimCodedUnreach
/-!
# `RemoveUselessStates` as coded, part 3: the results

`prodCoded A` is `prodStates A` (as a set); `uselessCoded A` / `unreachCoded A` have the final states of
`removeUseless A` / `removeUnreachable A` (equal lists) and the same rules (as sets: `TAEquiv`); languages, the
specification notions `TdReachable`, `Occurs`, `UsefulState`, `UsefulRule` only depend on the sets.
-/
namespace Vata.TrimCoded
open Vata

/-! ### automata with the same sets of rules and final states -/

def TAEquiv (A B : TA) : Prop := (∀ r, r ∈ A.rules ↔ r ∈ B.rules) ∧ (∀ q, q ∈ A.final ↔ q ∈ B.final)

theorem TAEquiv.refl (A : TA) : TAEquiv A A := ⟨fun _ => Iff.rfl, fun _ => Iff.rfl⟩
theorem TAEquiv.symm {A B : TA} (h : TAEquiv A B) : TAEquiv B A := ⟨fun r => (h.1 r).symm, fun q => (h.2 q).symm⟩
theorem TAEquiv.trans {A B C : TA} (h : TAEquiv A B) (h' : TAEquiv B C) : TAEquiv A C :=
  ⟨fun r => (h.1 r).trans (h'.1 r), fun q => (h.2 q).trans (h'.2 q)⟩

theorem TAEquiv.lang {A B : TA} (h : TAEquiv A B) (t : Tree) : accepts A t = accepts B t := by
  rw [Bool.eq_iff_iff]
  simp only [accepts, accepting, List.any_eq_true, List.contains_iff_mem]
  constructor
  · rintro ⟨q, hq, hf⟩
    exact ⟨q, reach_mono A B (fun r hr => (h.1 r).mp hr) t q hq, (h.2 q).mp hf⟩
  · rintro ⟨q, hq, hf⟩
    exact ⟨q, reach_mono B A (fun r hr => (h.1 r).mpr hr) t q hq, (h.2 q).mpr hf⟩

theorem TAEquiv.tdReachable {A B : TA} (h : TAEquiv A B) {q : Nat} (hq : TdReachable A q) : TdReachable B q := by
  induction hq with
  | final hf => exact TdReachable.final ((h.2 _).mp hf)
  | step hr _ hk ih => exact TdReachable.step ((h.1 _).mp hr) ih hk

theorem TAEquiv.occurs {A B : TA} (h : TAEquiv A B) {q : Nat} (hq : Occurs A q) : Occurs B q := by
  rcases hq with hf | ⟨r, hr, hh⟩
  · exact Or.inl ((h.2 q).mp hf)
  · exact Or.inr ⟨r, (h.1 r).mp hr, hh⟩

mutual
theorem valid_congr {A B : TA} (h : ∀ r, r ∈ A.rules ↔ r ∈ B.rules) : ∀ ρ : RunT, ρ.valid A = ρ.valid B
  | .node r ks => by
    simp only [RunT.valid]
    rw [validL_congr h ks r.kids]
    congr 1
    rw [Bool.eq_iff_iff, List.contains_iff_mem, List.contains_iff_mem]
    exact h r
theorem validL_congr {A B : TA} (h : ∀ r, r ∈ A.rules ↔ r ∈ B.rules) :
    ∀ (ρs : List RunT) (qs : List Nat), RunT.validL A ρs qs = RunT.validL B ρs qs
  | [], [] => by simp only [RunT.validL]
  | ρ :: ρs, q :: qs => by
    simp only [RunT.validL]
    rw [valid_congr h ρ, validL_congr h ρs qs]
  | [], _ :: _ => by simp only [RunT.validL]
  | _ :: _, [] => by simp only [RunT.validL]
end

theorem TAEquiv.acceptingRun {A B : TA} (h : TAEquiv A B) {ρ : RunT} (hρ : AcceptingRun A ρ) : AcceptingRun B ρ :=
  ⟨by rw [← valid_congr h.1 ρ]; exact hρ.1, (h.2 _).mp hρ.2⟩

theorem TAEquiv.usefulState {A B : TA} (h : TAEquiv A B) {q : Nat} (hq : UsefulState A q) : UsefulState B q := by
  obtain ⟨ρ, h1, h2⟩ := hq
  exact ⟨ρ, h.acceptingRun h1, h2⟩

theorem TAEquiv.usefulRule {A B : TA} (h : TAEquiv A B) {r : Rule} (hr : UsefulRule A r) : UsefulRule B r := by
  obtain ⟨ρ, h1, h2⟩ := hr
  exact ⟨ρ, h.acceptingRun h1, h2⟩

theorem TAEquiv.removeUnreachable {A B : TA} (h : TAEquiv A B) : TAEquiv (removeUnreachable A) (removeUnreachable B) := by
  constructor
  · intro r
    simp only [Vata.removeUnreachable, List.mem_filter, List.contains_iff_mem, tdReach_iff]
    constructor
    · rintro ⟨h1, h2⟩; exact ⟨(h.1 r).mp h1, h.tdReachable h2⟩
    · rintro ⟨h1, h2⟩; exact ⟨(h.1 r).mpr h1, h.symm.tdReachable h2⟩
  · exact h.2

/-! ### `RemoveUnreachableStates` -/

theorem unreachCoded_equiv (A : TA) : TAEquiv (unreachCoded A) (removeUnreachable A) :=
  ⟨mem_unreachCoded_rules A, fun q => by rw [unreachCoded, unreachWith_final]; exact Iff.rfl⟩

theorem unreachCoded_final (A : TA) : (unreachCoded A).final = (removeUnreachable A).final :=
  unreachWith_final testOwners A

/-! ### the productive states -/

/-- the converse pigeonhole: a duplicate-free list of at least `n` numbers below `n` contains all of them -/
theorem mem_of_nodup_full {n : Nat} {l : List Nat} (hnd : l.Nodup) (hlt : ∀ j, j ∈ l → j < n) (hlen : n ≤ l.length)
    {j : Nat} (hj : j < n) : j ∈ l := by
  by_cases hm : j ∈ l
  · exact hm
  · have := nodup_length_le n (j :: l) (List.nodup_cons.mpr ⟨hm, hnd⟩) (by
      intro x hx
      rcases List.mem_cons.mp hx with h | h
      · rw [h]; exact hj
      · exact hlt x h)
    simp only [List.length_cons] at this
    omega

section final
variable {A : TA} {σ : St} {s1 : Nat} (h : Inv A σ s1 []) (hw : σ.work = [])
include h hw

omit h in
theorem done_of_final {x : Nat} (hx : x ∈ σ.reach) : Done σ x := ⟨hx, by rw [hw]; exact List.not_mem_nil⟩

/-- the transition `j` fired (is in `reachableTransitions`) iff all its children are in `reachableStates` -/
theorem fired_iff {j : Nat} {r : Rule} (hr : A.rules[j]? = some r) : j ∈ σ.rtrans ↔ ∀ k, k ∈ r.kids → k ∈ σ.reach := by
  obtain ⟨c, hc, hmem, hnil⟩ := h.cs j r hr
  constructor
  · intro hj k hk
    obtain ⟨r', hr', hi⟩ := h.rt j hj
    rw [hc] at hi
    have hce : c = [] := (Info.mk.inj (Option.some.inj hi)).2
    by_cases hd : Done σ k
    · exact hd.1
    · have := (hmem k).mpr ⟨hk, Or.inl hd⟩
      rw [hce] at this
      exact absurd this List.not_mem_nil
  · intro hk
    refine (hnil ?_).1
    rw [List.eq_nil_iff_forall_not_mem]
    intro x hx
    obtain ⟨h1, h2⟩ := (hmem x).mp hx
    rcases h2 with h2 | ⟨_, h2⟩
    · exact h2 (done_of_final hw (hk x h1))
    · exact absurd h2 List.not_mem_nil

omit hw in
theorem fired_parent {j : Nat} {r : Rule} (hr : A.rules[j]? = some r) (hj : j ∈ σ.rtrans) : r.parent ∈ σ.reach := by
  obtain ⟨c, hc, _, hnil⟩ := h.cs j r hr
  obtain ⟨r', hr', hi⟩ := h.rt j hj
  rw [hc] at hi
  exact (hnil (Info.mk.inj (Option.some.inj hi)).2).2

theorem reach_closed : ProdClosed A σ.reach := by
  intro r hr hk
  obtain ⟨j, hj⟩ := List.getElem?_of_mem hr
  exact fired_parent h hj ((fired_iff h hw hj).mpr hk)

theorem mem_reach_iff (q : Nat) : q ∈ σ.reach ↔ q ∈ prodStates A := by
  constructor
  · exact h.sound q
  · intro hq
    obtain ⟨t, ht⟩ := prodStates_sound A q hq
    exact reach_sub_closed A _ (reach_closed h hw) t q ht

/-- the rules handed to `RemoveUnreachableStates` on the slow path are those of the restriction to the productive states -/
theorem mem_slow_rules (r : Rule) :
    r ∈ σ.rtrans.filterMap (fun j => (σ.infos[j]?).map (·.rule)) ↔ r ∈ (restrict A (prodStates A)).rules := by
  simp only [restrict, List.mem_filterMap, List.mem_filter, Bool.and_eq_true, List.contains_iff_mem, List.all_eq_true]
  constructor
  · rintro ⟨j, hj, he⟩
    obtain ⟨r', hr', hi⟩ := h.rt j hj
    rw [hi] at he
    have hrr : r' = r := by simpa using he
    subst hrr
    refine ⟨List.mem_of_getElem? hr', ?_, ?_⟩
    · exact (mem_reach_iff h hw _).mp (fired_parent h hr' hj)
    · intro k hk
      exact (mem_reach_iff h hw _).mp ((fired_iff h hw hr').mp hj k hk)
  · rintro ⟨hrA, _, hk⟩
    obtain ⟨j, hj⟩ := List.getElem?_of_mem hrA
    have hjf : j ∈ σ.rtrans := (fired_iff h hw hj).mpr (fun k hk' => (mem_reach_iff h hw _).mpr (hk k hk'))
    obtain ⟨r', hr', hi⟩ := h.rt j hjf
    refine ⟨j, hjf, ?_⟩
    rw [hi, ← getElem?_inj hj hr']
    rfl

/-- when `remaining == 0` every transition fired: sharing `transitions_` is the same as adding the fired ones -/
theorem mem_fast_rules (hrem : σ.remaining = 0) (r : Rule) : r ∈ A.rules ↔ r ∈ (restrict A (prodStates A)).rules := by
  simp only [restrict, List.mem_filter, Bool.and_eq_true, List.contains_iff_mem, List.all_eq_true]
  constructor
  · intro hrA
    obtain ⟨j, hj⟩ := List.getElem?_of_mem hrA
    have hjlt : j < A.rules.length := (List.getElem?_eq_some_iff.mp hj).1
    have hjf : j ∈ σ.rtrans := by
      apply mem_of_nodup_full h.rtnd _ _ hjlt
      · intro j' hj'
        obtain ⟨r', hr', _⟩ := h.rt j' hj'
        exact (List.getElem?_eq_some_iff.mp hr').1
      · have := h.cnt
        omega
    refine ⟨hrA, ?_, ?_⟩
    · exact (mem_reach_iff h hw _).mp (fired_parent h hj hjf)
    · intro k hk
      exact (mem_reach_iff h hw _).mp ((fired_iff h hw hj).mp hjf k hk)
  · exact fun hh => hh.1

end final

/-- the two loops of `RemoveUselessStates` compute exactly the productive states -/
theorem mem_prodCoded (A : TA) (q : Nat) : q ∈ prodCoded A ↔ q ∈ prodStates A := by
  obtain ⟨⟨s1, h⟩, hw⟩ := finalSt_inv A (dec := decOne) (fun _ => Nat.le_refl 1)
  exact mem_reach_iff h hw q

/-- the work-list is empty when the fuel `|rules|` is used up (totality of `finalSt`) -/
theorem finalSt_work (A : TA) : (finalSt decOne A).work = [] :=
  (finalSt_inv A (dec := decOne) (fun _ => Nat.le_refl 1)).2

/-- `remaining == 0` implies that every transition fired, i.e. the restriction removes nothing -/
theorem remaining_zero_sound (A : TA) (h0 : (finalSt decOne A).remaining = 0) (r : Rule) (hr : r ∈ A.rules) :
    r ∈ (restrict A (prodStates A)).rules := by
  obtain ⟨⟨s1, h⟩, hw⟩ := finalSt_inv A (dec := decOne) (fun _ => Nat.le_refl 1)
  exact (mem_fast_rules h hw h0 r).mp hr

/-- the automaton handed to `RemoveUnreachableStates` -/
def preUnreach (A : TA) : TA :=
  let σ := finalSt decOne A
  ⟨if σ.remaining == 0 then A.rules else σ.rtrans.filterMap (fun j => (σ.infos[j]?).map (·.rule)),
    A.final.filter (fun q => σ.reach.contains q)⟩

theorem uselessCoded_eq (A : TA) : uselessCoded A = unreachCoded (preUnreach A) := by
  unfold uselessCoded uselessWith finish preUnreach unreachCoded
  simp only
  split <;> rfl

theorem preUnreach_final (A : TA) : (preUnreach A).final = (restrict A (prodStates A)).final := by
  unfold preUnreach restrict
  simp only
  apply List.filter_congr
  intro q _
  rw [Bool.eq_iff_iff, List.contains_iff_mem, List.contains_iff_mem]
  exact mem_prodCoded A q

theorem preUnreach_equiv (A : TA) : TAEquiv (preUnreach A) (restrict A (prodStates A)) := by
  obtain ⟨⟨s1, h⟩, hw⟩ := finalSt_inv A (dec := decOne) (fun _ => Nat.le_refl 1)
  constructor
  · intro r
    unfold preUnreach
    simp only
    by_cases h0 : (finalSt decOne A).remaining = 0
    · rw [if_pos (by simpa using h0)]
      exact mem_fast_rules h hw h0 r
    · rw [if_neg (by simpa using h0)]
      exact mem_slow_rules h hw r
  · intro q
    rw [preUnreach_final]

/-- `RemoveUselessStates` as coded returns the final states of `removeUseless` (equal lists) … -/
theorem uselessCoded_final (A : TA) : (uselessCoded A).final = (removeUseless A).final := by
  rw [uselessCoded_eq, unreachCoded_final, removeUseless_eq]
  exact preUnreach_final A

/-- … and the same set of rules -/
theorem uselessCoded_equiv (A : TA) : TAEquiv (uselessCoded A) (removeUseless A) := by
  rw [uselessCoded_eq, removeUseless_eq]
  exact (unreachCoded_equiv _).trans (preUnreach_equiv A).removeUnreachable

end Vata.TrimCoded
