import Vata.Proofs.InclDown
import Vata.Proofs.InclUpTotal
/-!
# The exploration of the downward inclusion models: the final check never refuses

`Vata/Proofs/InclDown.lean` shows that every verdict the models return is right, whatever the exploration did.  Here the
exploration itself (`InclDown.run`, `InclDown.runN`) is analysed, for any preorder that is reflexive and sound for the
languages of the states (`LangOrd`), and any table `wit` of trees for the children of the rules of `A`:

* `expand_spec`, `expandN_spec` : a call returns `holds` only for a pair subsumed by the collected pairs and the pending
  calls, all collected pairs being closed (relative to the collected pairs and the pending calls), and `fails w` only
  with a tree `w ∈ L(A, p) \ L(B, P)`;
* `run_ok_cert`, `runN_ok_cert` : the set returned by a `true` run passes `downCertRB` (`downCertB` for the identity);
* `run_error_sound`, `runN_error_sound` : the tree returned by a `false` run is accepted by `A` and not by `B`;
* `inclDownRec_of_run` … : on a trimmed `A` the models return a verdict exactly when the exploration ends within the
  fuel (recursion depth): the certificate check is never the reason for `none`.
-/
namespace Vata
namespace InclDown
open InclUp (Wit prodWit lookupT normS Cert)

/-! ### specifications -/

/-- subsumption modulo the relations of `o` -/
abbrev SubO (o : Ord) (X : List Pair) (k : Nat) (S : List Nat) : Prop := SubR (leAP o) (leBP o) (leABP o) X k S

/-- the closure condition for one pair -/
def ClosedAt (o : Ord) (A B : TA) (X : List Pair) (x : Pair) : Prop :=
  ∀ ρ, ρ ∈ A.rules → ρ.parent = x.1 →
    ∀ c : Rule → Nat, (∀ r, r ∈ rulesOf B x.2 ρ.sym ρ.kids.length → c r < ρ.kids.length) →
      ∃ i k, ρ.kids[i]? = some k ∧ SubO o X k (sset (rulesOf B x.2 ρ.sym ρ.kids.length) c i)

/-- `w ∈ L(A, p) \ L(B, P)` -/
def Refutes (A B : TA) (p : Nat) (P : List Nat) (w : Tree) : Prop := p ∈ reach A w ∧ ∀ s, s ∈ P → s ∉ reach B w

/-- everything covered by the cached pair `x` is subsumed by `X` -/
def CcOK (o : Ord) (X : List Pair) (x : Pair) : Prop :=
  ∀ p P, o.leA p x.1 = true → setLe o x.2 P = true → SubO o X p P

/-- the invariant of the exploration: what the cache of the functor covers is subsumed by `trues` and the work-set,
every pair of `trues` is closed relative to `trues` and the work-set, every entry of `nonincluded` carries a separating
tree -/
structure Inv (o : Ord) (A B : TA) (ws cc : List Pair) (st : St) : Prop where
  cc_sub : ∀ x, x ∈ cc → CcOK o (st.trues ++ ws) x
  closed : ∀ x, x ∈ st.trues → ClosedAt o A B (st.trues ++ ws) x
  ni : ∀ e, e ∈ st.nonIncl → Refutes A B e.1 e.2.1 e.2.2

/-- postcondition by verdict -/
def Post (Qh : List Pair → Prop) (Qf : Tree → Prop) (T : List Pair) : Verdict → Prop
  | .holds => Qh T
  | .fails w => Qf w

/-- a state-threading step keeps the invariant, only adds to `trues`, and establishes the postcondition -/
def Spec (o : Ord) (A B : TA) (ws : List Pair) (F : List Pair → St → Ret) (Qh : List Pair → Prop)
    (Qf : Tree → Prop) : Prop :=
  ∀ cc st v cc' st', F cc st = some (v, cc', st') → Inv o A B ws cc st →
    Inv o A B ws cc' st' ∧ (∀ x, x ∈ st.trues → x ∈ st'.trues) ∧ Post Qh Qf st'.trues v

def Mono (Q : List Pair → Prop) : Prop := ∀ T T', (∀ x, x ∈ T → x ∈ T') → Q T → Q T'

/-- a call decides its pair -/
def CallSpec (o : Ord) (A B : TA) (ws : List Pair) (call : Call) : Prop :=
  ∀ p P, Spec o A B ws (fun cc st => call cc st p P) (fun T => SubO o (T ++ ws) p P) (Refutes A B p P)

theorem subO_mono {o : Ord} {X X' : List Pair} {k : Nat} {S S' : List Nat} (hX : ∀ x, x ∈ X → x ∈ X')
    (hS : ∀ s, s ∈ S → s ∈ S') (h : SubO o X k S) : SubO o X' k S' := by
  rcases h with ⟨s, hs, hks⟩ | ⟨k', S₀, hx, hkk', hall⟩
  · exact Or.inl ⟨s, hS s hs, hks⟩
  · refine Or.inr ⟨k', S₀, hX _ hx, hkk', fun s' hs' => ?_⟩
    obtain ⟨s, hs, hss⟩ := hall s' hs'
    exact ⟨s, hS s hs, hss⟩

theorem ccOK_mono {o : Ord} {X X' : List Pair} {x : Pair} (hX : ∀ y, y ∈ X → y ∈ X') (h : CcOK o X x) :
    CcOK o X' x := fun p P h1 h2 => subO_mono hX (fun _ hs => hs) (h p P h1 h2)

theorem ccOK_of_mem {o : Ord} {X : List Pair} {x : Pair} (hx : x ∈ X) : CcOK o X x := by
  intro p P h1 h2
  simp only [setLe, List.all_eq_true, List.any_eq_true] at h2
  exact Or.inr ⟨x.1, x.2, hx, h1, h2⟩

theorem covers_ccOK {o : Ord} {X cc : List Pair} {p : Nat} {P : List Nat} (h : covers o cc p P = true)
    (hcc : ∀ x, x ∈ cc → CcOK o X x) : SubO o X p P := by
  simp only [covers, List.any_eq_true, Bool.and_eq_true] at h
  obtain ⟨x, hx, h1, h2⟩ := h
  exact hcc x hx p P h1 h2

theorem closedAt_mono {o : Ord} {A B : TA} {X X' : List Pair} {x : Pair} (hX : ∀ y, y ∈ X → y ∈ X')
    (h : ClosedAt o A B X x) : ClosedAt o A B X' x := by
  intro ρ hρ hp c hc
  obtain ⟨i, k, hk, hs⟩ := h ρ hρ hp c hc
  exact ⟨i, k, hk, subO_mono hX (fun s hs => hs) hs⟩

theorem app_mono {T T' ws : List Pair} (h : ∀ x, x ∈ T → x ∈ T') : ∀ x, x ∈ T ++ ws → x ∈ T' ++ ws := by
  intro x hx
  rcases List.mem_append.mp hx with h1 | h1
  · exact List.mem_append_left _ (h x h1)
  · exact List.mem_append_right _ h1

theorem mono_subO (o : Ord) (ws : List Pair) (k : Nat) (S : List Nat) : Mono (fun T => SubO o (T ++ ws) k S) :=
  fun _ _ h hs => subO_mono (app_mono h) (fun _ hs => hs) hs

theorem spec_weaken {o : Ord} {A B : TA} {ws : List Pair} {F : List Pair → St → Ret} {Qh Qh' : List Pair → Prop}
    {Qf Qf' : Tree → Prop} (hh : ∀ T, Qh T → Qh' T) (hf : ∀ w, Qf w → Qf' w) (h : Spec o A B ws F Qh Qf) :
    Spec o A B ws F Qh' Qf' := by
  intro cc st v cc' st' he hI
  obtain ⟨h1, h2, h3⟩ := h cc st v cc' st' he hI
  refine ⟨h1, h2, ?_⟩
  cases v with
  | holds => exact hh _ h3
  | fails w => exact hf _ h3

/-! ### the loops -/

theorem forAllL_spec {o : Ord} {A B : TA} {ws : List Pair} {α : Type} {f : α → List Pair → St → Ret}
    {Qh : α → List Pair → Prop} {Qf : Tree → Prop} (hmono : ∀ a, Mono (Qh a)) :
    ∀ (as : List α), (∀ a, a ∈ as → Spec o A B ws (f a) (Qh a) Qf) →
      Spec o A B ws (forAllL f as) (fun T => ∀ a, a ∈ as → Qh a T) Qf
  | [], _ => by
    intro cc st v cc' st' h hI
    simp only [forAllL, Option.some.injEq, Prod.mk.injEq] at h
    obtain ⟨hv, hcc, hst⟩ := h
    subst hv hcc hst
    exact ⟨hI, fun x hx => hx, fun a ha => by simp at ha⟩
  | a :: as, hs => by
    intro cc st v cc' st' h hI
    simp only [forAllL] at h
    split at h
    · cases h
    · next cc1 st1 heq =>
      obtain ⟨hI1, hm1, hq1⟩ := hs a List.mem_cons_self cc st _ cc1 st1 heq hI
      obtain ⟨hI2, hm2, hq2⟩ := forAllL_spec hmono as (fun a' ha' => hs a' (List.mem_cons_of_mem _ ha'))
        cc1 st1 v cc' st' h hI1
      refine ⟨hI2, fun x hx => hm2 x (hm1 x hx), ?_⟩
      cases v with
      | holds =>
        intro a' ha'
        rcases List.mem_cons.mp ha' with he | ha'
        · rw [he]; exact hmono a _ _ hm2 hq1
        · exact hq2 a' ha'
      | fails w => exact hq2
    · next w cc1 st1 heq =>
      simp only [Option.some.injEq, Prod.mk.injEq] at h
      obtain ⟨hv, hcc, hst⟩ := h
      subst hv hcc hst
      exact hs a List.mem_cons_self cc st _ _ _ heq hI


theorem allPos_spec {o : Ord} {A B : TA} {ws : List Pair} {call : Call} (hc : CallSpec o A B ws call)
    (lhs rhs : List Nat) :
    Spec o A B ws (allPos call lhs rhs) (fun T => ∀ lr, lr ∈ lhs.zip rhs → SubO o (T ++ ws) lr.1 [lr.2])
      (fun _ => True) := by
  unfold allPos
  exact forAllL_spec (α := Nat × Nat) (Qh := fun (lr : Nat × Nat) T => SubO o (T ++ ws) lr.1 [lr.2])
    (fun lr => mono_subO o ws lr.1 [lr.2]) (lhs.zip rhs)
    (fun lr _ => spec_weaken (fun _ h => h) (fun _ _ => trivial) (hc lr.1 [lr.2]))

theorem anyTuple_spec {o : Ord} {A B : TA} {ws : List Pair} {call : Call} (hc : CallSpec o A B ws call)
    (lhs : List Nat) : ∀ (W : List (List Nat)) (cc : List Pair) (st : St) (b : Bool) (cc' : List Pair) (st' : St),
      anyTuple call lhs W cc st = some (b, cc', st') → Inv o A B ws cc st →
        Inv o A B ws cc' st' ∧ (∀ x, x ∈ st.trues → x ∈ st'.trues) ∧
          (b = true → ∃ w, w ∈ W ∧ ∀ lr, lr ∈ lhs.zip w → SubO o (st'.trues ++ ws) lr.1 [lr.2])
  | [], cc, st, b, cc', st', h, hI => by
    simp only [anyTuple, Option.some.injEq, Prod.mk.injEq] at h
    obtain ⟨hb, hcc, hst⟩ := h
    subst hb hcc hst
    exact ⟨hI, fun x hx => hx, fun hb => by cases hb⟩
  | w :: W, cc, st, b, cc', st', h, hI => by
    simp only [anyTuple] at h
    split at h
    · cases h
    · next cc1 st1 heq =>
      simp only [Option.some.injEq, Prod.mk.injEq] at h
      obtain ⟨hb, hcc, hst⟩ := h
      subst hb hcc hst
      obtain ⟨h1, h2, h3⟩ := allPos_spec hc lhs w cc st _ _ _ heq hI
      exact ⟨h1, h2, fun _ => ⟨w, List.mem_cons_self, h3⟩⟩
    · next w' cc1 st1 heq =>
      obtain ⟨h1, h2, _⟩ := allPos_spec hc lhs w cc st _ _ _ heq hI
      obtain ⟨h4, h5, h6⟩ := anyTuple_spec hc lhs W cc1 st1 b cc' st' h h1
      refine ⟨h4, fun x hx => h5 x (h2 x hx), fun hb => ?_⟩
      obtain ⟨w₀, hw₀, hall⟩ := h6 hb
      exact ⟨w₀, List.mem_cons_of_mem _ hw₀, hall⟩

/-! ### the sets of a choice function -/

theorem mem_rawSet {W : List (List Nat)} {cs : List Nat} {i s : Nat} :
    s ∈ rawSet W cs i ↔ ∃ w c, (w, c) ∈ W.zip cs ∧ c = i ∧ w[i]? = some s := by
  simp only [rawSet, List.mem_filterMap]
  constructor
  · rintro ⟨wc, hwc, h⟩
    split at h
    · next hi => exact ⟨wc.1, wc.2, hwc, hi, h⟩
    · cases h
  · rintro ⟨w, c, hwc, hi, h⟩
    exact ⟨(w, c), hwc, by rw [if_pos hi]; exact h⟩

theorem zip_mem_of_length : ∀ {W : List (List Nat)} {cs : List Nat} {w : List Nat}, w ∈ W → cs.length = W.length →
    ∃ c, (w, c) ∈ W.zip cs ∧ c ∈ cs
  | [], _, _, h, _ => by simp at h
  | _ :: _, [], _, _, hl => by simp at hl
  | w' :: W, c :: cs, w, h, hl => by
    rcases List.mem_cons.mp h with he | h
    · exact ⟨c, by rw [he]; simp, List.mem_cons_self⟩
    · obtain ⟨c', h1, h2⟩ := zip_mem_of_length (cs := cs) h (by simpa using hl)
      exact ⟨c', by simp only [List.zip_cons_cons]; exact List.mem_cons_of_mem _ h1, List.mem_cons_of_mem _ h2⟩

theorem zip_map_mem {g : List Nat → Nat} : ∀ {W : List (List Nat)} {w : List Nat} {c : Nat},
    (w, c) ∈ W.zip (W.map g) → w ∈ W ∧ c = g w
  | [], _, _, h => by simp at h
  | w' :: W, w, c, h => by
    simp only [List.map_cons, List.zip_cons_cons, List.mem_cons, Prod.mk.injEq] at h
    rcases h with ⟨h1, h2⟩ | h
    · exact ⟨by rw [h1]; exact List.mem_cons_self, by rw [h2, h1]⟩
    · obtain ⟨h1, h2⟩ := zip_map_mem h
      exact ⟨List.mem_cons_of_mem _ h1, h2⟩

/-- the trees of the positions `i, i+1, …` separate the children from the sets of the choice function -/
def RefAll (A B : TA) (W : List (List Nat)) (cs : List Nat) : Nat → List Nat → List Tree → Prop
  | _, [], [] => True
  | i, l :: ls, t :: ts => Refutes A B l (rawSet W cs i) t ∧ RefAll A B W cs (i+1) ls ts
  | _, _, _ => False

theorem refAll_matchA {A B : TA} {W : List (List Nat)} {cs : List Nat} : ∀ (i : Nat) (ls : List Nat) (ts : List Tree),
    RefAll A B W cs i ls ts → matchKids ls (reachL A ts) = true
  | _, [], [], _ => by simp [reachL, matchKids]
  | _, [], _ :: _, h => by simp [RefAll] at h
  | _, _ :: _, [], h => by simp [RefAll] at h
  | i, l :: ls, t :: ts, h => by
    simp only [RefAll] at h
    simp only [reachL, matchKids, Bool.and_eq_true, List.contains_iff_mem]
    exact ⟨h.1.1, refAll_matchA (i+1) ls ts h.2⟩

theorem refAll_length {A B : TA} {W : List (List Nat)} {cs : List Nat} : ∀ (i : Nat) (ls : List Nat) (ts : List Tree),
    RefAll A B W cs i ls ts → ts.length = ls.length
  | _, [], [], _ => rfl
  | _, [], _ :: _, h => by simp [RefAll] at h
  | _, _ :: _, [], h => by simp [RefAll] at h
  | i, l :: ls, t :: ts, h => by
    simp only [RefAll] at h
    simp [refAll_length (i+1) ls ts h.2]

/-- a tuple with a component in the set of its position does not match -/
theorem refAll_matchB {A B : TA} {W : List (List Nat)} {cs : List Nat} : ∀ (i : Nat) (ls : List Nat) (ts : List Tree),
    RefAll A B W cs i ls ts → ∀ (ks : List Nat) (j k : Nat), ks[j]? = some k → k ∈ rawSet W cs (i + j) →
      matchKids ks (reachL B ts) = false
  | _, [], [], _, ks, j, k, hk, _ => by
    cases ks with
    | nil => simp at hk
    | cons k' ks => simp [reachL, matchKids]
  | _, [], _ :: _, h, _, _, _, _, _ => by simp [RefAll] at h
  | _, _ :: _, [], h, _, _, _, _, _ => by simp [RefAll] at h
  | i, l :: ls, t :: ts, h, ks, j, k, hk, hmem => by
    simp only [RefAll] at h
    cases ks with
    | nil => simp at hk
    | cons k' ks =>
      simp only [reachL, matchKids]
      cases j with
      | zero =>
        simp only [List.getElem?_cons_zero, Option.some.injEq] at hk
        subst hk
        have : k' ∉ reach B t := h.1.2 k' (by simpa using hmem)
        simp [this]
      | succ j =>
        simp only [List.getElem?_cons_succ] at hk
        have := refAll_matchB (i+1) ls ts h.2 ks j k hk (by rw [show i + 1 + j = i + (j + 1) by omega]; exact hmem)
        simp [this]


/-! ### one choice function -/

/-- what the set construction `post` must satisfy: a subset that dominates the given list -/
structure PostOK (o : Ord) (post : List Nat → List Nat) : Prop where
  sub : ∀ l s, s ∈ post l → s ∈ l
  dom : ∀ l s, s ∈ l → ∃ s', s' ∈ post l ∧ o.leB s s' = true

/-- the preorder is reflexive -/
structure OrdRefl (o : Ord) : Prop where
  reflA : ∀ q, o.leA q q = true
  reflB : ∀ s, o.leB s s = true

theorem postOK_normS {o : Ord} (hr : OrdRefl o) : PostOK o normS :=
  ⟨fun _ _ h => InclUp.mem_normS.mp h, fun _ s h => ⟨s, InclUp.mem_normS.mpr h, hr.reflB s⟩⟩

theorem refutes_post {o : Ord} {A B : TA} (hO : LangOrd A B (leAP o) (leBP o) (leABP o))
    {post : List Nat → List Nat} (hp : PostOK o post) {l : Nat} {S : List Nat} {w : Tree}
    (h : Refutes A B l (post S) w) : Refutes A B l S w := by
  refine ⟨h.1, fun s hs hsB => ?_⟩
  obtain ⟨s', hs', hle⟩ := hp.dom S s hs
  exact h.2 s' hs' (hO.hB w s s' hle hsB)

theorem consT_some {t : Tree} {r : Option (Option (List Tree) × List Pair × St)} {r' : Option (List Tree)}
    {cc' : List Pair} {st' : St} (h : consT t r = some (r', cc', st')) :
    (r = some (none, cc', st') ∧ r' = none) ∨ ∃ ts, r = some (some ts, cc', st') ∧ r' = some (t :: ts) := by
  unfold consT at h
  split at h
  · next ts cc st =>
    simp only [Option.some.injEq, Prod.mk.injEq] at h
    obtain ⟨h1, h2, h3⟩ := h
    subst h1 h2 h3
    exact Or.inr ⟨ts, rfl, rfl⟩
  · next hne =>
    subst h
    cases r' with
    | none => exact Or.inl ⟨rfl, rfl⟩
    | some ts => exact absurd rfl (hne ts cc' st')

/-- postcondition of `tryPos` -/
def TryPost (o : Ord) (A B : TA) (ws : List Pair) (W : List (List Nat)) (cs : List Nat) (i : Nat) (ls : List Nat)
    (T : List Pair) : Option (List Tree) → Prop
  | none => ∃ j k, ls[j]? = some k ∧ SubO o (T ++ ws) k (rawSet W cs (i + j))
  | some ts => RefAll A B W cs i ls ts

theorem tryPos_spec {o : Ord} {A B : TA} {ws : List Pair} {call : Call} {wit : Wit} {post : List Nat → List Nat}
    (hO : LangOrd A B (leAP o) (leBP o) (leABP o)) (hc : CallSpec o A B ws call) (hp : PostOK o post)
    (W : List (List Nat)) (cs : List Nat) :
    ∀ (ls : List Nat) (i : Nat) (cc : List Pair) (st : St) (r : Option (List Tree)) (cc' : List Pair) (st' : St),
      tryPos call wit post W cs i ls cc st = some (r, cc', st') → Inv o A B ws cc st →
      (∀ l, l ∈ ls → l ∈ reach A (treeOf wit l)) →
        Inv o A B ws cc' st' ∧ (∀ x, x ∈ st.trues → x ∈ st'.trues) ∧ TryPost o A B ws W cs i ls st'.trues r
  | [], i, cc, st, r, cc', st', h, hI, _ => by
    simp only [tryPos, Option.some.injEq, Prod.mk.injEq] at h
    obtain ⟨h1, h2, h3⟩ := h
    subst h1 h2 h3
    exact ⟨hI, fun x hx => hx, trivial⟩
  | l :: ls, i, cc, st, r, cc', st', h, hI, hw => by
    have hw' : ∀ l', l' ∈ ls → l' ∈ reach A (treeOf wit l') := fun l' hl' => hw l' (List.mem_cons_of_mem _ hl')
    simp only [tryPos] at h
    split at h
    · next hemp =>
      -- the set of the position is empty: a tree of the productive child
      have hraw : ∀ s, s ∉ rawSet W cs i := by
        intro s hs
        obtain ⟨s', hs', _⟩ := hp.dom _ s hs
        have : posSet post W cs i = [] := List.isEmpty_iff.mp hemp
        unfold posSet at this
        rw [this] at hs'
        simp at hs'
      have href : Refutes A B l (rawSet W cs i) (treeOf wit l) :=
        ⟨hw l List.mem_cons_self, fun s hs => absurd hs (hraw s)⟩
      rcases consT_some h with ⟨h1, h2⟩ | ⟨ts, h1, h2⟩
      · obtain ⟨h3, h4, h5⟩ := tryPos_spec hO hc hp W cs ls (i+1) cc st none cc' st' h1 hI hw'
        subst h2
        obtain ⟨j, k, hk, hs⟩ := h5
        exact ⟨h3, h4, j + 1, k, by simpa using hk, by rw [show i + (j + 1) = i + 1 + j by omega]; exact hs⟩
      · obtain ⟨h3, h4, h5⟩ := tryPos_spec hO hc hp W cs ls (i+1) cc st (some ts) cc' st' h1 hI hw'
        subst h2
        exact ⟨h3, h4, href, h5⟩
    · split at h
      · cases h
      · next cc1 st1 heq =>
        simp only [Option.some.injEq, Prod.mk.injEq] at h
        obtain ⟨h1, h2, h3⟩ := h
        subst h1 h2 h3
        obtain ⟨h4, h5, h6⟩ := hc l _ cc st _ _ _ heq hI
        refine ⟨h4, h5, 0, l, by simp, ?_⟩
        exact subO_mono (fun x hx => hx) (fun s hs => hp.sub _ s hs) h6
      · next w cc1 st1 heq =>
        obtain ⟨h4, h5, h6⟩ := hc l _ cc st _ _ _ heq hI
        have href : Refutes A B l (rawSet W cs i) w := refutes_post hO hp h6
        rcases consT_some h with ⟨h1, h2⟩ | ⟨ts, h1, h2⟩
        · obtain ⟨h7, h8, h9⟩ := tryPos_spec hO hc hp W cs ls (i+1) cc1 st1 none cc' st' h1 h4 hw'
          subst h2
          obtain ⟨j, k, hk, hs⟩ := h9
          exact ⟨h7, fun x hx => h8 x (h5 x hx), j + 1, k, by simpa using hk,
            by rw [show i + (j + 1) = i + 1 + j by omega]; exact hs⟩
        · obtain ⟨h7, h8, h9⟩ := tryPos_spec hO hc hp W cs ls (i+1) cc1 st1 (some ts) cc' st' h1 h4 hw'
          subst h2
          exact ⟨h7, fun x hx => h8 x (h5 x hx), href, h9⟩

theorem oneCf_spec {o : Ord} {A B : TA} {ws : List Pair} {call : Call} {wit : Wit} {post : List Nat → List Nat}
    (hO : LangOrd A B (leAP o) (leBP o) (leABP o)) (hc : CallSpec o A B ws call) (hp : PostOK o post)
    (f : Nat) (lhs : List Nat) (W : List (List Nat)) (cs : List Nat)
    (hw : ∀ l, l ∈ lhs → l ∈ reach A (treeOf wit l)) :
    Spec o A B ws (oneCf call wit post f lhs W cs)
      (fun T => ∃ j k, lhs[j]? = some k ∧ SubO o (T ++ ws) k (rawSet W cs j))
      (fun w => ∃ ts, w = .node f ts ∧ RefAll A B W cs 0 lhs ts) := by
  intro cc st v cc' st' h hI
  unfold oneCf at h
  split at h
  · cases h
  · next ts cc1 st1 heq =>
    simp only [Option.some.injEq, Prod.mk.injEq] at h
    obtain ⟨h1, h2, h3⟩ := h
    subst h1 h2 h3
    obtain ⟨h4, h5, h6⟩ := tryPos_spec hO hc hp W cs lhs 0 cc st _ _ _ heq hI hw
    exact ⟨h4, h5, ts, rfl, h6⟩
  · next cc1 st1 heq =>
    simp only [Option.some.injEq, Prod.mk.injEq] at h
    obtain ⟨h1, h2, h3⟩ := h
    subst h1 h2 h3
    obtain ⟨h4, h5, j, k, hk, hs⟩ := tryPos_spec hO hc hp W cs lhs 0 cc st _ _ _ heq hI hw
    exact ⟨h4, h5, j, k, hk, by simpa using hs⟩

/-- the loop over the choice functions visits all of them -/
theorem cfAll_spec {o : Ord} {A B : TA} {ws : List Pair} {one : List Nat → List Pair → St → Ret} {n : Nat}
    {Qh : List Nat → List Pair → Prop} {Qf : List Nat → Tree → Prop} (hmono : ∀ cs, Mono (Qh cs))
    (hone : ∀ cs, Spec o A B ws (one cs) (Qh cs) (Qf cs)) :
    ∀ (m : Nat) (cs : List Nat), Spec o A B ws (cfAll one n m cs)
      (fun T => ∀ cs' : List Nat, cs'.length = m → (∀ c, c ∈ cs' → c < n) → Qh (cs'.reverse ++ cs) T)
      (fun w => ∃ cs' : List Nat, cs'.length = m ∧ (∀ c, c ∈ cs' → c < n) ∧ Qf (cs'.reverse ++ cs) w)
  | 0, cs => by
    have he : cfAll one n 0 cs = one cs := by funext cc st; simp only [cfAll]
    rw [he]
    refine spec_weaken ?_ ?_ (hone cs)
    · intro T h cs' hl _
      have : cs' = [] := List.length_eq_zero_iff.mp hl
      subst this
      simpa using h
    · intro w h
      exact ⟨[], rfl, fun c hc => by simp at hc, by simpa using h⟩
  | m+1, cs => by
    have he : cfAll one n (m + 1) cs = forAllL (fun i cc st => cfAll one n m (i :: cs) cc st) (List.range n) := by
      funext cc st; simp only [cfAll]
    rw [he]
    have key := forAllL_spec (o := o) (A := A) (B := B) (ws := ws)
      (f := fun i cc st => cfAll one n m (i :: cs) cc st)
      (Qh := fun i T => ∀ cs' : List Nat, cs'.length = m → (∀ c, c ∈ cs' → c < n) → Qh (cs'.reverse ++ i :: cs) T)
      (Qf := fun w => ∃ cs' : List Nat, cs'.length = m + 1 ∧ (∀ c, c ∈ cs' → c < n) ∧ Qf (cs'.reverse ++ cs) w)
      (fun i T T' hT h cs' hl hc => hmono _ T T' hT (h cs' hl hc)) (List.range n)
      (fun i hi => spec_weaken (fun _ h => h) (fun w h => by
        obtain ⟨cs', hl, hc, hq⟩ := h
        refine ⟨i :: cs', by simp [hl], ?_, by simpa using hq⟩
        intro c hc'
        rcases List.mem_cons.mp hc' with he | hc'
        · rw [he]; exact List.mem_range.mp hi
        · exact hc c hc') (cfAll_spec hmono hone m (i :: cs)))
    refine spec_weaken ?_ (fun _ h => h) key
    intro T h cs' hl hc
    cases cs' with
    | nil => simp at hl
    | cons i cs'' =>
      have := h i (List.mem_range.mpr (hc i List.mem_cons_self)) cs'' (by simpa using hl)
        (fun c hc' => hc c (List.mem_cons_of_mem _ hc'))
      simpa using this


/-! ### tuples, symbols, the body of a call -/

theorem mem_dedup {α : Type} [BEq α] [LawfulBEq α] {x : α} : ∀ {l : List α}, x ∈ dedup l ↔ x ∈ l
  | [] => by simp [dedup]
  | y :: l => by
    simp only [dedup, List.mem_cons, List.mem_filter, mem_dedup (l := l), Bool.not_eq_true', beq_eq_false_iff_ne, ne_eq]
    constructor
    · rintro (h | ⟨h, _⟩)
      · exact Or.inl h
      · exact Or.inr h
    · intro h
      by_cases he : x = y
      · exact Or.inl he
      · rcases h with h | h
        · exact absurd h he
        · exact Or.inr ⟨h, he⟩

theorem mem_rulesOf {B : TA} {P : List Nat} {f n : Nat} {σ : Rule} :
    σ ∈ rulesOf B P f n ↔ σ ∈ B.rules ∧ σ.parent ∈ P ∧ σ.sym = f ∧ σ.kids.length = n := by
  simp only [rulesOf, List.mem_filter, Bool.and_eq_true, List.contains_iff_mem, beq_iff_eq]
  constructor
  · rintro ⟨h1, ⟨h2, h3⟩, h4⟩; exact ⟨h1, h2, h3, h4⟩
  · rintro ⟨h1, h2, h3, h4⟩; exact ⟨h1, ⟨h2, h3⟩, h4⟩

theorem mem_rhsTuples {B : TA} {P : List Nat} {f n : Nat} {w : List Nat} :
    w ∈ rhsTuples B P f n ↔ ∃ σ, σ ∈ rulesOf B P f n ∧ σ.kids = w := by
  simp only [rhsTuples, mem_dedup, List.mem_map]

theorem mem_lhsTuples {A : TA} {p f n : Nat} {lhs : List Nat} :
    lhs ∈ lhsTuples A p f n ↔ ∃ ρ, ρ ∈ A.rules ∧ ρ.parent = p ∧ ρ.sym = f ∧ ρ.kids.length = n ∧ ρ.kids = lhs := by
  simp only [lhsTuples, mem_dedup, List.mem_map, List.mem_filter, Bool.and_eq_true, beq_iff_eq]
  constructor
  · rintro ⟨ρ, ⟨h1, ⟨h2, h3⟩, h4⟩, h5⟩; exact ⟨ρ, h1, h2, h3, h4, h5⟩
  · rintro ⟨ρ, h1, h2, h3, h4, h5⟩; exact ⟨ρ, ⟨h1, ⟨h2, h3⟩, h4⟩, h5⟩

theorem mem_lhsGroups {A : TA} {p : Nat} {g : Nat × Nat} :
    g ∈ lhsGroups A p ↔ ∃ ρ, ρ ∈ A.rules ∧ ρ.parent = p ∧ ρ.sym = g.1 ∧ ρ.kids.length = g.2 := by
  simp only [lhsGroups, mem_dedup, List.mem_map, List.mem_filter, beq_iff_eq]
  constructor
  · rintro ⟨ρ, ⟨h1, h2⟩, h3⟩
    exact ⟨ρ, h1, h2, by rw [← h3], by rw [← h3]⟩
  · rintro ⟨ρ, h1, h2, h3, h4⟩
    exact ⟨ρ, ⟨h1, h2⟩, by rw [h3, h4]⟩

/-- the table `wit` has a tree for every child of a rule of `A` -/
def WitOK (A : TA) (wit : Wit) : Prop := ∀ r, r ∈ A.rules → ∀ k, k ∈ r.kids → k ∈ reach A (treeOf wit k)

theorem matchKids_treeOf {A : TA} {wit : Wit} : ∀ (ls : List Nat), (∀ l, l ∈ ls → l ∈ reach A (treeOf wit l)) →
    matchKids ls (reachL A (ls.map (treeOf wit))) = true
  | [], _ => by simp [reachL, matchKids]
  | l :: ls, h => by
    simp only [List.map_cons, reachL, matchKids, Bool.and_eq_true, List.contains_iff_mem]
    exact ⟨h l List.mem_cons_self, matchKids_treeOf ls (fun l' hl' => h l' (List.mem_cons_of_mem _ hl'))⟩

/-- a tree whose root rule is in `A` and which no rule of the states of `P` matches -/
theorem refutes_node {A B : TA} {p : Nat} {P : List Nat} {f : Nat} {lhs : List Nat} {ts : List Tree}
    (hρ : ∃ ρ, ρ ∈ A.rules ∧ ρ.parent = p ∧ ρ.sym = f ∧ ρ.kids = lhs)
    (hA : matchKids lhs (reachL A ts) = true)
    (hB : ∀ σ, σ ∈ rulesOf B P f ts.length → matchKids σ.kids (reachL B ts) = false) :
    Refutes A B p P (.node f ts) := by
  obtain ⟨ρ, h1, h2, h3, h4⟩ := hρ
  constructor
  · rw [reach, mem_post']
    exact ⟨ρ, h1, h3, by rw [h4]; exact hA, h2⟩
  · intro s hs hsB
    rw [reach, mem_post'] at hsB
    obtain ⟨σ, g1, g2, g3, g4⟩ := hsB
    have hl : σ.kids.length = ts.length := by
      rw [matchKids_length g3, reachL_eq_map]; simp
    have := hB σ (mem_rulesOf.mpr ⟨g1, by rw [g4]; exact hs, g2, hl⟩)
    rw [this] at g3
    cases g3

/-- all valid choice functions on the rules of the states of `P` have a subsumed position of `lhs` -/
def TupleOK (o : Ord) (B : TA) (ws : List Pair) (P : List Nat) (f : Nat) (lhs : List Nat) (T : List Pair) : Prop :=
  ∀ c : Rule → Nat, (∀ r, r ∈ rulesOf B P f lhs.length → c r < lhs.length) →
    ∃ i k, lhs[i]? = some k ∧ SubO o (T ++ ws) k (sset (rulesOf B P f lhs.length) c i)

theorem mono_tupleOK (o : Ord) (B : TA) (ws : List Pair) (P : List Nat) (f : Nat) (lhs : List Nat) :
    Mono (TupleOK o B ws P f lhs) := by
  intro T T' hT h c hc
  obtain ⟨i, k, hk, hs⟩ := h c hc
  exact ⟨i, k, hk, subO_mono (app_mono hT) (fun _ hs => hs) hs⟩

theorem zip_get_mem {l w : List Nat} {i k x : Nat} (hk : l[i]? = some k) (hx : w[i]? = some x) : (k, x) ∈ l.zip w := by
  obtain ⟨h1, h2⟩ := List.getElem?_eq_some_iff.mp hk
  obtain ⟨h3, h4⟩ := List.getElem?_eq_some_iff.mp hx
  have hl : i < (l.zip w).length := by simp; omega
  have : (l.zip w)[i] = (k, x) := by rw [List.getElem_zip, h2, h4]
  rw [← this]
  exact List.getElem_mem hl

theorem procTuple_spec {o : Ord} {A B : TA} {ws : List Pair} {call1 call2 : Call} {wit : Wit}
    {post : List Nat → List Nat} (hO : LangOrd A B (leAP o) (leBP o) (leABP o))
    (hc1 : CallSpec o A B ws call1) (hc2 : CallSpec o A B ws call2) (hp : PostOK o post) (hW : WitOK A wit)
    (p : Nat) (P : List Nat) (f : Nat) (lhs : List Nat)
    (hρ : ∃ ρ, ρ ∈ A.rules ∧ ρ.parent = p ∧ ρ.sym = f ∧ ρ.kids = lhs) :
    Spec o A B ws (procTuple call1 call2 wit post f (rhsTuples B P f lhs.length) lhs)
      (TupleOK o B ws P f lhs) (Refutes A B p P) := by
  have hw : ∀ l, l ∈ lhs → l ∈ reach A (treeOf wit l) := by
    obtain ⟨ρ, h1, _, _, h4⟩ := hρ
    intro l hl
    exact hW ρ h1 l (by rw [h4]; exact hl)
  intro cc st v cc' st' h hI
  unfold procTuple at h
  split at h
  · cases h
  · next cc1 st1 heq =>
    -- phase 1 found a bigger tuple
    simp only [Option.some.injEq, Prod.mk.injEq] at h
    obtain ⟨h1, h2, h3⟩ := h
    subst h1 h2 h3
    obtain ⟨g1, g2, g3⟩ := anyTuple_spec hc1 lhs _ cc st _ _ _ heq hI
    refine ⟨g1, g2, ?_⟩
    obtain ⟨w, hw', hall⟩ := g3 rfl
    obtain ⟨σ, hσ, hσw⟩ := mem_rhsTuples.mp hw'
    intro c hc
    have hi := hc σ hσ
    have hσl : σ.kids.length = lhs.length := (mem_rulesOf.mp hσ).2.2.2
    have hk : lhs[c σ]? = some lhs[c σ] := List.getElem?_eq_getElem hi
    have hx : σ.kids[c σ]? = some (σ.kids[c σ]'(by omega)) := List.getElem?_eq_getElem (by omega)
    refine ⟨c σ, _, hk, ?_⟩
    have hm := hall _ (zip_get_mem hk (by rw [← hσw]; exact hx))
    refine subO_mono (fun x hx => hx) ?_ hm
    intro s hs
    simp only [List.mem_singleton] at hs
    subst hs
    exact mem_sset.mpr ⟨σ, hσ, rfl, hx⟩
  · next cc1 st1 heq =>
    obtain ⟨g1, g2, _⟩ := anyTuple_spec hc1 lhs _ cc st _ _ _ heq hI
    have key := cfAll_spec (o := o) (A := A) (B := B) (ws := ws) (n := lhs.length)
      (one := oneCf call2 wit post f lhs (rhsTuples B P f lhs.length))
      (Qh := fun cs T => ∃ j k, lhs[j]? = some k ∧ SubO o (T ++ ws) k (rawSet (rhsTuples B P f lhs.length) cs j))
      (Qf := fun cs w => ∃ ts, w = .node f ts ∧ RefAll A B (rhsTuples B P f lhs.length) cs 0 lhs ts)
      (fun cs T T' hT h => by
        obtain ⟨j, k, hk, hs⟩ := h
        exact ⟨j, k, hk, subO_mono (app_mono hT) (fun _ hs => hs) hs⟩)
      (fun cs => oneCf_spec hO hc2 hp f lhs _ cs hw) (rhsTuples B P f lhs.length).length []
    obtain ⟨k1, k2, k3⟩ := key cc1 st1 v cc' st' h g1
    refine ⟨k1, fun x hx => k2 x (g2 x hx), ?_⟩
    cases v with
    | holds =>
      -- every choice function on the rules induces one on the tuples
      intro c hc
      let rep : List Nat → Rule := fun w =>
        ((rulesOf B P f lhs.length).find? (fun σ => σ.kids == w)).getD ⟨0, [], 0⟩
      have hrep : ∀ w, w ∈ rhsTuples B P f lhs.length → rep w ∈ rulesOf B P f lhs.length ∧ (rep w).kids = w := by
        intro w hw'
        obtain ⟨σ, hσ, hσw⟩ := mem_rhsTuples.mp hw'
        cases hf : (rulesOf B P f lhs.length).find? (fun σ => σ.kids == w) with
        | none =>
          have := List.find?_eq_none.mp hf σ hσ
          simp [hσw] at this
        | some τ =>
          have h1 := List.mem_of_find?_eq_some hf
          have h2 := List.find?_some hf
          simp only [beq_iff_eq] at h2
          simp only [rep, hf, Option.getD_some]
          exact ⟨h1, h2⟩
      let cs : List Nat := (rhsTuples B P f lhs.length).map (fun w => c (rep w))
      have hcs := k3 cs.reverse (by simp [cs]) (by
        intro x hx
        simp only [cs, List.mem_reverse, List.mem_map] at hx
        obtain ⟨w, hw', rfl⟩ := hx
        exact hc _ (hrep w hw').1)
      simp only [List.reverse_reverse, List.append_nil] at hcs
      obtain ⟨j, k, hk, hs⟩ := hcs
      refine ⟨j, k, hk, subO_mono (fun x hx => hx) ?_ hs⟩
      intro s hs'
      obtain ⟨w, c0, hz, hc0, hget⟩ := mem_rawSet.mp hs'
      obtain ⟨hwW, hc0'⟩ := zip_map_mem (g := fun w => c (rep w)) hz
      obtain ⟨hr1, hr2⟩ := hrep w hwW
      exact mem_sset.mpr ⟨rep w, hr1, by rw [← hc0, hc0'], by rw [hr2]; exact hget⟩
    | fails w =>
      obtain ⟨cs', hl, hlt, ts, hw', href⟩ := k3
      subst hw'
      simp only [List.append_nil] at href
      have hlen := refAll_length 0 lhs ts href
      refine refutes_node hρ (refAll_matchA 0 lhs ts href) ?_
      intro σ hσ
      rw [hlen] at hσ
      obtain ⟨c0, hz, hc0⟩ := zip_mem_of_length (cs := cs'.reverse) (mem_rhsTuples.mpr ⟨σ, hσ, rfl⟩)
        (by simp [hl])
      have hc0lt : c0 < lhs.length := hlt c0 (by simpa using hc0)
      have hσl : σ.kids.length = lhs.length := (mem_rulesOf.mp hσ).2.2.2
      have hx : σ.kids[c0]? = some (σ.kids[c0]'(by omega)) := List.getElem?_eq_getElem (by omega)
      exact refAll_matchB 0 lhs ts href σ.kids c0 _ hx
        (by rw [Nat.zero_add]; exact mem_rawSet.mpr ⟨σ.kids, c0, hz, rfl, hx⟩)


/-- the closure condition for the rules of one symbol/arity -/
def GroupOK (o : Ord) (A B : TA) (ws : List Pair) (p : Nat) (P : List Nat) (f n : Nat) (T : List Pair) : Prop :=
  ∀ ρ, ρ ∈ A.rules → ρ.parent = p → ρ.sym = f → ρ.kids.length = n →
    ∀ c : Rule → Nat, (∀ r, r ∈ rulesOf B P ρ.sym ρ.kids.length → c r < ρ.kids.length) →
      ∃ i k, ρ.kids[i]? = some k ∧ SubO o (T ++ ws) k (sset (rulesOf B P ρ.sym ρ.kids.length) c i)

theorem mono_groupOK (o : Ord) (A B : TA) (ws : List Pair) (p : Nat) (P : List Nat) (f n : Nat) :
    Mono (GroupOK o A B ws p P f n) := by
  intro T T' hT h ρ h1 h2 h3 h4 c hc
  obtain ⟨i, k, hk, hs⟩ := h ρ h1 h2 h3 h4 c hc
  exact ⟨i, k, hk, subO_mono (app_mono hT) (fun _ hs => hs) hs⟩

theorem procGroup_spec {o : Ord} {A B : TA} {ws : List Pair} {call1 call2 : Call} {wit : Wit}
    {post : List Nat → List Nat} (hO : LangOrd A B (leAP o) (leBP o) (leABP o))
    (hc1 : CallSpec o A B ws call1) (hc2 : CallSpec o A B ws call2) (hp : PostOK o post) (hW : WitOK A wit)
    (p : Nat) (P : List Nat) (f n : Nat) (hg : (f, n) ∈ lhsGroups A p) :
    Spec o A B ws (procGroup call1 call2 A B wit post p P f n) (GroupOK o A B ws p P f n) (Refutes A B p P) := by
  intro cc st v cc' st' h hI
  unfold procGroup at h
  simp only at h
  split at h
  · next hn =>
    -- a leaf symbol
    subst hn
    split at h
    · next hemp =>
      simp only [Option.some.injEq, Prod.mk.injEq] at h
      obtain ⟨h1, h2, h3⟩ := h
      subst h1 h2 h3
      refine ⟨hI, fun x hx => hx, ?_⟩
      obtain ⟨ρ, g1, g2, g3, g4⟩ := mem_lhsGroups.mp hg
      refine refutes_node (lhs := []) ⟨ρ, g1, g2, g3, List.length_eq_zero_iff.mp g4⟩ (by simp [reachL, matchKids]) ?_
      intro σ hσ
      have : σ.kids ∈ rhsTuples B P f 0 := mem_rhsTuples.mpr ⟨σ, hσ, rfl⟩
      rw [List.isEmpty_iff.mp hemp] at this
      simp at this
    · next hne =>
      simp only [Option.some.injEq, Prod.mk.injEq] at h
      obtain ⟨h1, h2, h3⟩ := h
      subst h1 h2 h3
      refine ⟨hI, fun x hx => hx, ?_⟩
      intro ρ g1 g2 g3 g4 c hc
      exfalso
      cases hW' : rhsTuples B P f 0 with
      | nil => rw [hW'] at hne; simp at hne
      | cons w W =>
        obtain ⟨σ, hσ, _⟩ := mem_rhsTuples.mp (show w ∈ rhsTuples B P f 0 by rw [hW']; exact List.mem_cons_self)
        have := hc σ (by rw [g3, g4]; exact hσ)
        omega
  · next hn =>
    split at h
    · next hemp =>
      -- no rule of the states of `P`
      simp only [Option.some.injEq, Prod.mk.injEq] at h
      obtain ⟨h1, h2, h3⟩ := h
      subst h1 h2 h3
      refine ⟨hI, fun x hx => hx, ?_⟩
      obtain ⟨ρ, g1, g2, g3, g4⟩ := mem_lhsGroups.mp hg
      have hmem : ρ.kids ∈ lhsTuples A p f n := mem_lhsTuples.mpr ⟨ρ, g1, g2, g3, g4, rfl⟩
      cases hL : lhsTuples A p f n with
      | nil => rw [hL] at hmem; simp at hmem
      | cons lhs L =>
        simp only [List.headD_cons]
        obtain ⟨ρ', k1, k2, k3, k4, k5⟩ := mem_lhsTuples.mp (show lhs ∈ lhsTuples A p f n by rw [hL]; exact List.mem_cons_self)
        refine refutes_node (lhs := lhs) ⟨ρ', k1, k2, k3, k5⟩
          (matchKids_treeOf lhs (fun l hl => hW ρ' k1 l (by rw [k5]; exact hl))) ?_
        intro σ hσ
        simp only [List.length_map] at hσ
        have : σ.kids ∈ rhsTuples B P f n := mem_rhsTuples.mpr ⟨σ, by rw [← k4, k5]; exact hσ, rfl⟩
        rw [List.isEmpty_iff.mp hemp] at this
        simp at this
    · next hne =>
      have key := forAllL_spec (o := o) (A := A) (B := B) (ws := ws)
        (f := procTuple call1 call2 wit post f (rhsTuples B P f n))
        (Qh := fun lhs T => TupleOK o B ws P f lhs T) (Qf := Refutes A B p P)
        (fun lhs => mono_tupleOK o B ws P f lhs) (lhsTuples A p f n)
        (fun lhs hl => by
          obtain ⟨ρ, k1, k2, k3, k4, k5⟩ := mem_lhsTuples.mp hl
          have hlen : lhs.length = n := by rw [← k5]; exact k4
          have := procTuple_spec hO hc1 hc2 hp hW p P f lhs ⟨ρ, k1, k2, k3, k5⟩
          rw [hlen] at this
          exact this)
      obtain ⟨k1, k2, k3⟩ := key cc st v cc' st' h hI
      refine ⟨k1, k2, ?_⟩
      cases v with
      | fails w => exact k3
      | holds =>
        intro ρ g1 g2 g3 g4 c hc
        have := k3 ρ.kids (mem_lhsTuples.mpr ⟨ρ, g1, g2, g3, g4, rfl⟩) c (by rw [← g3]; exact hc)
        rw [← g3] at this
        exact this

theorem body_spec {o : Ord} {A B : TA} {ws : List Pair} {call1 call2 : Call} {wit : Wit}
    {post : List Nat → List Nat} (hO : LangOrd A B (leAP o) (leBP o) (leABP o))
    (hc1 : CallSpec o A B ws call1) (hc2 : CallSpec o A B ws call2) (hp : PostOK o post) (hW : WitOK A wit)
    (p : Nat) (P : List Nat) :
    Spec o A B ws (body call1 call2 A B wit post p P) (fun T => ClosedAt o A B (T ++ ws) (p, P))
      (Refutes A B p P) := by
  unfold body
  have key := forAllL_spec (o := o) (A := A) (B := B) (ws := ws)
    (f := fun (g : Nat × Nat) => procGroup call1 call2 A B wit post p P g.1 g.2)
    (Qh := fun (g : Nat × Nat) T => GroupOK o A B ws p P g.1 g.2 T) (Qf := Refutes A B p P)
    (fun g => mono_groupOK o A B ws p P g.1 g.2) (lhsGroups A p)
    (fun g hg => procGroup_spec hO hc1 hc2 hp hW p P g.1 g.2 hg)
  refine spec_weaken ?_ (fun _ h => h) key
  intro T h ρ g1 g2 c hc
  exact h (ρ.sym, ρ.kids.length) (mem_lhsGroups.mpr ⟨ρ, g1, g2, rfl, rfl⟩) ρ g1 g2 rfl rfl c hc


/-! ### the calls -/

theorem covers_subO {o : Ord} {X X' : List Pair} {p : Nat} {P : List Nat} (h : covers o X p P = true)
    (hX : ∀ x, x ∈ X → x ∈ X') : SubO o X' p P :=
  subO_mono hX (fun _ hs => hs) (subXR_iff.mp (by simp only [subXR, h, Bool.or_true]))

theorem byPre_subO {o : Ord} {X : List Pair} {p : Nat} {P : List Nat} (h : byPre o p P = true) : SubO o X p P :=
  subXR_iff.mp (by simp only [subXR, h, Bool.true_or])

theorem niFind_refutes {o : Ord} {A B : TA} (hO : LangOrd A B (leAP o) (leBP o) (leABP o))
    {ni : List (Nat × List Nat × Tree)} {p : Nat} {P : List Nat} {x : Nat × List Nat × Tree}
    (h : niFind o ni p P = some x) (hni : ∀ e, e ∈ ni → Refutes A B e.1 e.2.1 e.2.2) : Refutes A B p P x.2.2 := by
  unfold niFind at h
  have hx := List.mem_of_find?_eq_some h
  have hc := List.find?_some h
  simp only [Bool.and_eq_true, setLe, List.all_eq_true, List.any_eq_true] at hc
  obtain ⟨h1, h2⟩ := hni x hx
  refine ⟨hO.hA _ _ _ hc.1 h1, fun s hs hsB => ?_⟩
  obtain ⟨s', hs', hle⟩ := hc.2 s hs
  exact h2 s' hs' (hO.hB _ s s' hle hsB)

theorem mem_ccAdd {o : Ord} {cc : List Pair} {p : Nat} {P : List Nat} {x : Pair} (h : x ∈ ccAdd o cc p P) :
    x ∈ cc ∨ x = (p, P) := by
  unfold ccAdd at h
  split at h
  · exact Or.inl h
  · rcases List.mem_append.mp h with h | h
    · exact Or.inl (List.mem_filter.mp h).1
    · exact Or.inr (by simpa using h)

theorem mem_niAdd {o : Ord} {ni : List (Nat × List Nat × Tree)} {p : Nat} {P : List Nat} {w : Tree}
    {e : Nat × List Nat × Tree} (h : e ∈ niAdd o ni p P w) : e ∈ ni ∨ e = (p, P, w) := by
  unfold niAdd at h
  split at h
  · exact Or.inl h
  · rcases List.mem_append.mp h with h | h
    · exact Or.inl (List.mem_filter.mp h).1
    · exact Or.inr (by simpa using h)

theorem mem_addTrue {X : List Pair} {x y : Pair} : y ∈ addTrue X x ↔ y ∈ X ∨ y = x := by
  unfold addTrue
  split
  · next hc =>
    constructor
    · exact Or.inl
    · rintro (h | h)
      · exact h
      · rw [h]; exact List.contains_iff_mem.mp hc
  · simp

/-- the end of a call that explored its pair -/
theorem finish_call {o : Ord} {A B : TA} {ws cc : List Pair} {st : St} {p : Nat} {P : List Nat}
    (hr : OrdRefl o) (hI : Inv o A B ws cc st) {v : Verdict} {cc1 : List Pair} {st1 : St}
    (hb : Inv o A B ((p, P) :: ws) cc1 st1 ∧ (∀ x, x ∈ st.trues → x ∈ st1.trues) ∧
      Post (fun T => ClosedAt o A B (T ++ (p, P) :: ws) (p, P)) (Refutes A B p P) st1.trues v) :
    match v with
    | .holds =>
      Inv o A B ws (ccAdd o cc p P) ⟨st1.nonIncl, addTrue st1.trues (p, P)⟩ ∧
        (∀ x, x ∈ st.trues → x ∈ addTrue st1.trues (p, P)) ∧ SubO o (addTrue st1.trues (p, P) ++ ws) p P
    | .fails w =>
      Inv o A B ws cc ⟨niAdd o st1.nonIncl p P w, st.trues⟩ ∧ Refutes A B p P w := by
  obtain ⟨h1, h2, h3⟩ := hb
  cases v with
  | holds =>
    have hsub : ∀ x, x ∈ st1.trues ++ (p, P) :: ws → x ∈ addTrue st1.trues (p, P) ++ ws := by
      intro x hx
      rcases List.mem_append.mp hx with h | h
      · exact List.mem_append_left _ (mem_addTrue.mpr (Or.inl h))
      · rcases List.mem_cons.mp h with h | h
        · exact List.mem_append_left _ (mem_addTrue.mpr (Or.inr h))
        · exact List.mem_append_right _ h
    refine ⟨⟨?_, ?_, h1.ni⟩, fun x hx => mem_addTrue.mpr (Or.inl (h2 x hx)), ?_⟩
    · intro x hx
      rcases mem_ccAdd hx with h | h
      · exact ccOK_mono (app_mono (fun y hy => mem_addTrue.mpr (Or.inl (h2 y hy)))) (hI.cc_sub x h)
      · exact ccOK_of_mem (List.mem_append_left _ (mem_addTrue.mpr (Or.inr h)))
    · intro x hx
      rcases mem_addTrue.mp hx with h | h
      · exact closedAt_mono hsub (h1.closed x h)
      · rw [h]; exact closedAt_mono hsub h3
    · exact Or.inr ⟨p, P, List.mem_append_left _ (mem_addTrue.mpr (Or.inr rfl)), hr.reflA p,
        fun s hs => ⟨s, hs, hr.reflB s⟩⟩
  | fails w =>
    refine ⟨⟨hI.cc_sub, hI.closed, ?_⟩, h3⟩
    intro e he
    rcases mem_niAdd he with h | h
    · exact h1.ni e h
    · rw [h]; exact h3

theorem inv_push {o : Ord} {A B : TA} {ws cc : List Pair} {st : St} (x : Pair) (hI : Inv o A B ws cc st) :
    Inv o A B (x :: ws) [] st :=
  ⟨fun _ h => by simp at h,
   fun y hy => closedAt_mono (fun z hz => by
      rcases List.mem_append.mp hz with h | h
      · exact List.mem_append_left _ h
      · exact List.mem_append_right _ (List.mem_cons_of_mem _ h)) (hI.closed y hy),
   hI.ni⟩

/-- the recursive call decides its pair -/
theorem expand_spec {o : Ord} {A B : TA} {wit : Wit} (hO : LangOrd A B (leAP o) (leBP o) (leABP o))
    (hr : OrdRefl o) (hW : WitOK A wit) :
    ∀ (fuel : Nat) (ws : List Pair), CallSpec o A B ws (expand o A B wit fuel ws)
  | 0, ws => by
    intro p P cc st v cc' st' h
    simp [expand] at h
  | fuel+1, ws => by
    intro p P cc st v cc' st' h hI
    simp only [expand] at h
    split at h
    · next hws =>
      simp only [Option.some.injEq, Prod.mk.injEq] at h
      obtain ⟨h1, h2, h3⟩ := h
      subst h1 h2 h3
      exact ⟨hI, fun x hx => hx, covers_subO hws (fun x hx => List.mem_append_right _ hx)⟩
    · split at h
      · next x hx =>
        simp only [Option.some.injEq, Prod.mk.injEq] at h
        obtain ⟨h1, h2, h3⟩ := h
        subst h1 h2 h3
        exact ⟨hI, fun x hx => hx, niFind_refutes hO hx hI.ni⟩
      · split at h
        · next hcc =>
          simp only [Option.some.injEq, Prod.mk.injEq] at h
          obtain ⟨h1, h2, h3⟩ := h
          subst h1 h2 h3
          exact ⟨hI, fun x hx => hx, covers_ccOK hcc hI.cc_sub⟩
        · split at h
          · next hpre =>
            simp only [Option.some.injEq, Prod.mk.injEq] at h
            obtain ⟨h1, h2, h3⟩ := h
            subst h1 h2 h3
            exact ⟨hI, fun x hx => hx, byPre_subO hpre⟩
          · have hcall := expand_spec hO hr hW fuel ((p, P) :: ws)
            have hbody := body_spec hO hcall hcall (postOK_normS hr) hW p P
            split at h
            · cases h
            · next cc1 st1 heq =>
              simp only [Option.some.injEq, Prod.mk.injEq] at h
              obtain ⟨h1, h2, h3⟩ := h
              subst h1 h2 h3
              exact finish_call hr hI (v := .holds) (hbody [] st _ _ _ heq (inv_push (p, P) hI))
            · next w cc1 st1 heq =>
              simp only [Option.some.injEq, Prod.mk.injEq] at h
              obtain ⟨h1, h2, h3⟩ := h
              subst h1 h2 h3
              have := finish_call hr hI (v := .fails w) (hbody [] st _ _ _ heq (inv_push (p, P) hI))
              exact ⟨this.1, fun x hx => hx, this.2⟩


/-! ### the recursive algorithm -/

/-- postcondition of the loop over the final states -/
def RootPost (o : Ord) (A B : TA) (FB : List Nat) (fs : List Nat) (st : St) : Except Tree St → Prop
  | .ok st' => (∃ cc', Inv o A B [] cc' st') ∧ (∀ x, x ∈ st.trues → x ∈ st'.trues) ∧
      ∀ f, f ∈ fs → SubO o st'.trues f FB
  | .error w => ∃ f, f ∈ fs ∧ Refutes A B f FB w

theorem rootLoop_spec {o : Ord} {A B : TA} {wit : Wit} (hO : LangOrd A B (leAP o) (leBP o) (leABP o))
    (hr : OrdRefl o) (hW : WitOK A wit) (fuel : Nat) (FB : List Nat) :
    ∀ (fs : List Nat) (cc : List Pair) (st : St) (res : Except Tree St),
      rootLoop o A B wit fuel FB fs cc st = some res → Inv o A B [] cc st → RootPost o A B FB fs st res
  | [], cc, st, res, h, hI => by
    simp only [rootLoop, Option.some.injEq] at h
    subst h
    exact ⟨⟨cc, hI⟩, fun x hx => hx, fun f hf => by simp at hf⟩
  | f :: fs, cc, st, res, h, hI => by
    simp only [rootLoop] at h
    split at h
    · next hpre =>
      have := rootLoop_spec hO hr hW fuel FB fs cc st res h hI
      cases res with
      | ok st' =>
        obtain ⟨h1, h2, h3⟩ := this
        refine ⟨h1, h2, fun f' hf' => ?_⟩
        rcases List.mem_cons.mp hf' with he | hf'
        · rw [he]; exact byPre_subO hpre
        · exact h3 f' hf'
      | error w =>
        obtain ⟨f', hf', href⟩ := this
        exact ⟨f', List.mem_cons_of_mem _ hf', href⟩
    · have hcall := expand_spec hO hr hW fuel []
      have hbody := body_spec hO hcall hcall (postOK_normS hr) hW f FB
      split at h
      · cases h
      · next cc1 st1 heq =>
        obtain ⟨g1, g2, g3⟩ := hbody cc st _ _ _ heq hI
        have hsub : ∀ x, x ∈ st1.trues ++ [] → x ∈ addTrue st1.trues (f, FB) ++ [] := by
          intro x hx
          simp only [List.append_nil] at hx ⊢
          exact mem_addTrue.mpr (Or.inl hx)
        have hI2 : Inv o A B [] cc1 ⟨st1.nonIncl, addTrue st1.trues (f, FB)⟩ := by
          refine ⟨fun x hx => ccOK_mono hsub (g1.cc_sub x hx), ?_, g1.ni⟩
          intro x hx
          rcases mem_addTrue.mp hx with h' | h'
          · exact closedAt_mono hsub (g1.closed x h')
          · rw [h']; exact closedAt_mono hsub g3
        have := rootLoop_spec hO hr hW fuel FB fs cc1 _ res h hI2
        cases res with
        | ok st' =>
          obtain ⟨h1, h2, h3⟩ := this
          refine ⟨h1, fun x hx => h2 x (mem_addTrue.mpr (Or.inl (g2 x hx))), fun f' hf' => ?_⟩
          rcases List.mem_cons.mp hf' with he | hf'
          · rw [he]
            exact Or.inr ⟨f, FB, h2 _ (mem_addTrue.mpr (Or.inr rfl)), hr.reflA f, fun s hs => ⟨s, hs, hr.reflB s⟩⟩
          · exact h3 f' hf'
        | error w =>
          obtain ⟨f', hf', href⟩ := this
          exact ⟨f', List.mem_cons_of_mem _ hf', href⟩
      · next w cc1 st1 heq =>
        simp only [Option.some.injEq] at h
        subst h
        obtain ⟨_, _, g3⟩ := hbody cc st _ _ _ heq hI
        exact ⟨f, List.mem_cons_self, g3⟩

theorem inv_init (o : Ord) (A B : TA) : Inv o A B [] [] ⟨[], []⟩ :=
  ⟨fun _ h => by simp at h, fun _ h => by simp at h, fun _ h => by simp at h⟩

/-- the table of the productive states serves when the children of all rules are productive -/
theorem witOK_prodWit {A : TA} (hA : ∀ r, r ∈ A.rules → ∀ k, k ∈ r.kids → Productive A k) : WitOK A (prodWit A) := by
  intro r hr k hk
  obtain ⟨t, ht⟩ := InclUp.lookupT_of_mem (InclUp.prodWit_complete (hA r hr k hk))
  have := InclUp.prodWit_sound A _ (InclUp.lookupT_some ht)
  simp only [treeOf, ht, Option.getD_some]
  exact this

/-- the closure and root conditions for the collected set -/
theorem cert_of_rootPost {o : Ord} {A B : TA} {st₀ st : St}
    (h : RootPost o A B (normS B.final) (dedup A.final) st₀ (.ok st)) : downCertRB o A B st.trues = true := by
  obtain ⟨⟨cc, hI⟩, _, hroot⟩ := h
  refine (downCertRB_iff o A B st.trues).mpr ⟨?_, ?_⟩
  · intro p P hpP ρ hρ hpar c hc
    have := hI.closed (p, P) hpP ρ hρ hpar c hc
    simpa using this
  · intro f hf
    exact subO_mono (fun x hx => hx) (fun s hs => InclUp.mem_normS.mp hs) (hroot f (mem_dedup.mpr hf))

theorem accepts_of_rootPost {o : Ord} {A B : TA} {st₀ : St} {w : Tree}
    (h : RootPost o A B (normS B.final) (dedup A.final) st₀ (.error w)) :
    accepts A w = true ∧ accepts B w = false := by
  obtain ⟨f, hf, h1, h2⟩ := h
  constructor
  · simp only [accepts, accepting, List.any_eq_true, List.contains_iff_mem]
    exact ⟨f, h1, mem_dedup.mp hf⟩
  · cases hb : accepts B w with
    | false => rfl
    | true =>
      simp only [accepts, accepting, List.any_eq_true, List.contains_iff_mem] at hb
      obtain ⟨s, hs, hsf⟩ := hb
      exact absurd hs (h2 s (InclUp.mem_normS.mpr hsf))

/-- what a finished run returns: a set that passes the check, or a separating tree -/
def RunPost (certOk : List Pair → Bool) (A B : TA) : Except Tree (List Pair) → Prop
  | .ok X => certOk X = true
  | .error w => accepts A w = true ∧ accepts B w = false

theorem run_spec {o : Ord} {A B : TA} (hO : LangOrd A B (leAP o) (leBP o) (leABP o)) (hr : OrdRefl o)
    (hA : ∀ r, r ∈ A.rules → ∀ k, k ∈ r.kids → Productive A k) {fuel : Nat} {res : Except Tree (List Pair)}
    (h : run o A B fuel = some res) : RunPost (downCertRB o A B) A B res := by
  unfold run at h
  split at h
  · cases h
  · next st heq =>
    simp only [Option.some.injEq] at h
    subst h
    exact cert_of_rootPost (rootLoop_spec hO hr (witOK_prodWit hA) fuel _ _ _ _ _ heq (inv_init o A B))
  · next w heq =>
    simp only [Option.some.injEq] at h
    subst h
    exact accepts_of_rootPost (rootLoop_spec hO hr (witOK_prodWit hA) fuel _ _ _ _ _ heq (inv_init o A B))

/-- the set collected by a `true` run passes the certificate check -/
theorem run_ok_cert {o : Ord} {A B : TA} (hO : LangOrd A B (leAP o) (leBP o) (leABP o)) (hr : OrdRefl o)
    (hA : ∀ r, r ∈ A.rules → ∀ k, k ∈ r.kids → Productive A k) {fuel : Nat} {X : List Pair}
    (h : run o A B fuel = some (.ok X)) : downCertRB o A B X = true := run_spec hO hr hA h

/-- the tree returned by a `false` run separates the languages -/
theorem run_error_sound {o : Ord} {A B : TA} (hO : LangOrd A B (leAP o) (leBP o) (leABP o)) (hr : OrdRefl o)
    (hA : ∀ r, r ∈ A.rules → ∀ k, k ∈ r.kids → Productive A k) {fuel : Nat} {w : Tree}
    (h : run o A B fuel = some (.error w)) : accepts A w = true ∧ accepts B w = false := run_spec hO hr hA h


/-! ### the non-recursive algorithm -/

/-- the preorder is transitive (also across the operands) -/
structure OrdTrans (o : Ord) : Prop where
  transA : ∀ a b c, o.leA a b = true → o.leA b c = true → o.leA a c = true
  transB : ∀ a b c, o.leB a b = true → o.leB b c = true → o.leB a c = true
  transAAB : ∀ a b s, o.leA a b = true → o.leAB b s = true → o.leAB a s = true
  transABB : ∀ a s s', o.leAB a s = true → o.leB s s' = true → o.leAB a s' = true

theorem mem_maxElems {o : Ord} : ∀ {l acc : List Nat} {s : Nat}, s ∈ maxElems o l acc → s ∈ l ∨ s ∈ acc
  | [], _, _, h => Or.inr h
  | r :: rs, acc, s, h => by
    simp only [maxElems] at h
    split at h
    · rcases mem_maxElems h with h | h
      · exact Or.inl (List.mem_cons_of_mem _ h)
      · exact Or.inr h
    · rcases mem_maxElems h with h | h
      · exact Or.inl (List.mem_cons_of_mem _ h)
      · rcases List.mem_append.mp h with h | h
        · exact Or.inr (List.mem_filter.mp h).1
        · exact Or.inl (by simp only [List.mem_singleton] at h; rw [h]; exact List.mem_cons_self)

theorem maxElems_dom {o : Ord} (hr : OrdRefl o) (ht : OrdTrans o) : ∀ (l acc : List Nat) (s : Nat),
    s ∈ l ∨ s ∈ acc → ∃ s', s' ∈ maxElems o l acc ∧ o.leB s s' = true
  | [], acc, s, h => by
    rcases h with h | h
    · simp at h
    · exact ⟨s, h, hr.reflB s⟩
  | r :: rs, acc, s, h => by
    simp only [maxElems]
    split
    · next hany =>
      rcases h with h | h
      · rcases List.mem_cons.mp h with he | h
        · obtain ⟨a, ha, hle⟩ := List.any_eq_true.mp hany
          obtain ⟨s', hs', hle'⟩ := maxElems_dom hr ht rs acc a (Or.inr ha)
          exact ⟨s', hs', ht.transB _ _ _ (by rw [he]; exact hle) hle'⟩
        · exact maxElems_dom hr ht rs acc s (Or.inl h)
      · exact maxElems_dom hr ht rs acc s (Or.inr h)
    · have hrmem : r ∈ acc.filter (fun s => !(o.leB s r)) ++ [r] := by simp
      rcases h with h | h
      · rcases List.mem_cons.mp h with he | h
        · rw [he]; exact maxElems_dom hr ht rs _ r (Or.inr hrmem)
        · exact maxElems_dom hr ht rs _ s (Or.inl h)
      · cases hle : o.leB s r with
        | true =>
          obtain ⟨s', hs', hle'⟩ := maxElems_dom hr ht rs _ r (Or.inr hrmem)
          exact ⟨s', hs', ht.transB _ _ _ hle hle'⟩
        | false =>
          exact maxElems_dom hr ht rs _ s (Or.inr (List.mem_append_left _
            (List.mem_filter.mpr ⟨h, by simp [hle]⟩)))

theorem postOK_maxElems {o : Ord} (hr : OrdRefl o) (ht : OrdTrans o) :
    PostOK o (fun l => normS (maxElems o l [])) := by
  constructor
  · intro l s hs
    rcases mem_maxElems (InclUp.mem_normS.mp hs) with h | h
    · exact h
    · simp at h
  · intro l s hs
    obtain ⟨s', hs', hle⟩ := maxElems_dom hr ht l [] s (Or.inl hs)
    exact ⟨s', InclUp.mem_normS.mpr hs', hle⟩

/-- subsumption is downward closed in the pair -/
theorem subO_trans {o : Ord} (ht : OrdTrans o) {X : List Pair} {p q : Nat} {P Q : List Nat}
    (h1 : o.leA p q = true) (h2 : setLe o Q P = true) (h : SubO o X q Q) : SubO o X p P := by
  simp only [setLe, List.all_eq_true, List.any_eq_true] at h2
  rcases h with ⟨s, hs, hqs⟩ | ⟨k', S', hx, hqk, hall⟩
  · obtain ⟨s', hs', hle⟩ := h2 s hs
    exact Or.inl ⟨s', hs', ht.transABB _ _ _ (ht.transAAB _ _ _ h1 hqs) hle⟩
  · refine Or.inr ⟨k', S', hx, ht.transA _ _ _ h1 hqk, fun s' hs' => ?_⟩
    obtain ⟨s, hs, hle⟩ := hall s' hs'
    obtain ⟨s'', hs'', hle'⟩ := h2 s hs
    exact ⟨s'', hs'', ht.transB _ _ _ hle hle'⟩

theorem cachedCall_spec {o : Ord} {A B : TA} {ws : List Pair} {call : Call} (ht : OrdTrans o)
    (hc : CallSpec o A B ws call) : CallSpec o A B ws (cachedCall o call) := by
  intro q Q cc st v cc' st' h hI
  unfold cachedCall at h
  simp only at h
  split at h
  · next hcc =>
    simp only [Option.some.injEq, Prod.mk.injEq] at h
    obtain ⟨h1, h2, h3⟩ := h
    subst h1 h2 h3
    exact ⟨hI, fun x hx => hx, covers_ccOK hcc hI.cc_sub⟩
  · split at h
    · cases h
    · next cc1 st1 heq =>
      simp only [Option.some.injEq, Prod.mk.injEq] at h
      obtain ⟨h1, h2, h3⟩ := h
      subst h1 h2 h3
      obtain ⟨g1, g2, g3⟩ := hc q Q cc st _ _ _ heq hI
      refine ⟨⟨?_, g1.closed, g1.ni⟩, g2, g3⟩
      intro x hx
      rcases List.mem_append.mp hx with h' | h'
      · exact ccOK_mono (app_mono g2) (hI.cc_sub x (List.mem_filter.mp h').1)
      · simp only [List.mem_singleton] at h'
        rw [h']
        exact fun p P h1 h2 => subO_trans ht h1 h2 g3
    · next w cc1 st1 heq =>
      simp only [Option.some.injEq, Prod.mk.injEq] at h
      obtain ⟨h1, h2, h3⟩ := h
      subst h1 h2 h3
      obtain ⟨g1, g2, g3⟩ := hc q Q cc st _ _ _ heq hI
      refine ⟨⟨fun x hx => ccOK_mono (app_mono g2) (hI.cc_sub x hx), g1.closed, ?_⟩, g2, g3⟩
      intro e he
      rcases mem_niAdd he with h' | h'
      · exact g1.ni e h'
      · rw [h']; exact g3

/-- the call of the non-recursive variant decides its pair -/
theorem expandN_spec {o : Ord} {A B : TA} {wit : Wit} (hO : LangOrd A B (leAP o) (leBP o) (leABP o))
    (hr : OrdRefl o) (ht : OrdTrans o) (hW : WitOK A wit) :
    ∀ (fuel : Nat) (ws : List Pair), CallSpec o A B ws (expandN o A B wit fuel ws)
  | 0, ws => by
    intro p P cc st v cc' st' h
    simp [expandN] at h
  | fuel+1, ws => by
    intro p P cc st v cc' st' h hI
    simp only [expandN] at h
    split at h
    · next hpre =>
      simp only [Option.some.injEq, Prod.mk.injEq] at h
      obtain ⟨h1, h2, h3⟩ := h
      subst h1 h2 h3
      exact ⟨hI, fun x hx => hx, byPre_subO hpre⟩
    · split at h
      · next hws =>
        simp only [Option.some.injEq, Prod.mk.injEq] at h
        obtain ⟨h1, h2, h3⟩ := h
        subst h1 h2 h3
        exact ⟨hI, fun x hx => hx, covers_subO hws (fun x hx => List.mem_append_right _ hx)⟩
      · split at h
        · next x hx =>
          simp only [Option.some.injEq, Prod.mk.injEq] at h
          obtain ⟨h1, h2, h3⟩ := h
          subst h1 h2 h3
          exact ⟨hI, fun x hx => hx, niFind_refutes hO hx hI.ni⟩
        · have hcall := expandN_spec hO hr ht hW fuel ((p, P) :: ws)
          have hbody := body_spec hO hcall (cachedCall_spec ht hcall) (postOK_maxElems hr ht) hW p P
          split at h
          · cases h
          · next cc1 st1 heq =>
            simp only [Option.some.injEq, Prod.mk.injEq] at h
            obtain ⟨h1, h2, h3⟩ := h
            subst h1 h2 h3
            have hb := hbody [] st _ _ _ heq (inv_push (p, P) hI)
            have := finish_call hr hI (v := .holds) hb
            exact ⟨⟨fun x hx => ccOK_mono (app_mono this.2.1) (hI.cc_sub x hx), this.1.closed, this.1.ni⟩,
              this.2.1, this.2.2⟩
          · next w cc1 st1 heq =>
            simp only [Option.some.injEq, Prod.mk.injEq] at h
            obtain ⟨h1, h2, h3⟩ := h
            subst h1 h2 h3
            have hb := hbody [] st _ _ _ heq (inv_push (p, P) hI)
            exact ⟨⟨hI.cc_sub, hI.closed, hb.1.ni⟩, fun x hx => hx, hb.2.2⟩

theorem rootLoopN_spec {o : Ord} {A B : TA} {wit : Wit} (hO : LangOrd A B (leAP o) (leBP o) (leABP o))
    (hr : OrdRefl o) (ht : OrdTrans o) (hW : WitOK A wit) (fuel : Nat) (FB : List Nat) :
    ∀ (fs : List Nat) (st : St) (res : Except Tree St),
      rootLoopN o A B wit fuel FB fs st = some res → Inv o A B [] [] st → RootPost o A B FB fs st res
  | [], st, res, h, hI => by
    simp only [rootLoopN, Option.some.injEq] at h
    subst h
    exact ⟨⟨[], hI⟩, fun x hx => hx, fun f hf => by simp at hf⟩
  | f :: fs, st, res, h, hI => by
    simp only [rootLoopN] at h
    have hcall := expandN_spec hO hr ht hW fuel [] f FB
    split at h
    · cases h
    · next cc1 st1 heq =>
      obtain ⟨g1, g2, g3⟩ := hcall [] st _ _ _ heq hI
      have hI1 : Inv o A B [] [] st1 := ⟨fun _ h => by simp at h, g1.closed, g1.ni⟩
      have := rootLoopN_spec hO hr ht hW fuel FB fs st1 res h hI1
      cases res with
      | ok st' =>
        obtain ⟨h1, h2, h3⟩ := this
        refine ⟨h1, fun x hx => h2 x (g2 x hx), fun f' hf' => ?_⟩
        rcases List.mem_cons.mp hf' with he | hf'
        · rw [he]
          have g3' : SubO o (st1.trues ++ []) f FB := g3
          exact subO_mono (fun x hx => h2 x (by simpa using hx)) (fun _ hs => hs) g3'
        · exact h3 f' hf'
      | error w =>
        obtain ⟨f', hf', href⟩ := this
        exact ⟨f', List.mem_cons_of_mem _ hf', href⟩
    · next w cc1 st1 heq =>
      simp only [Option.some.injEq] at h
      subst h
      obtain ⟨_, _, g3⟩ := hcall [] st _ _ _ heq hI
      exact ⟨f, List.mem_cons_self, g3⟩

theorem runN_spec {o : Ord} {A B : TA} (hO : LangOrd A B (leAP o) (leBP o) (leABP o)) (hr : OrdRefl o)
    (ht : OrdTrans o) (hA : ∀ r, r ∈ A.rules → ∀ k, k ∈ r.kids → Productive A k) {fuel : Nat}
    {res : Except Tree (List Pair)} (h : runN o A B fuel = some res) : RunPost (downCertRB o A B) A B res := by
  unfold runN at h
  split at h
  · cases h
  · next st heq =>
    simp only [Option.some.injEq] at h
    subst h
    exact cert_of_rootPost (rootLoopN_spec hO hr ht (witOK_prodWit hA) fuel _ _ _ _ heq (inv_init o A B))
  · next w heq =>
    simp only [Option.some.injEq] at h
    subst h
    exact accepts_of_rootPost (rootLoopN_spec hO hr ht (witOK_prodWit hA) fuel _ _ _ _ heq (inv_init o A B))

theorem runN_ok_cert {o : Ord} {A B : TA} (hO : LangOrd A B (leAP o) (leBP o) (leABP o)) (hr : OrdRefl o)
    (ht : OrdTrans o) (hA : ∀ r, r ∈ A.rules → ∀ k, k ∈ r.kids → Productive A k) {fuel : Nat} {X : List Pair}
    (h : runN o A B fuel = some (.ok X)) : downCertRB o A B X = true := runN_spec hO hr ht hA h

theorem runN_error_sound {o : Ord} {A B : TA} (hO : LangOrd A B (leAP o) (leBP o) (leABP o)) (hr : OrdRefl o)
    (ht : OrdTrans o) (hA : ∀ r, r ∈ A.rules → ∀ k, k ∈ r.kids → Productive A k) {fuel : Nat} {w : Tree}
    (h : runN o A B fuel = some (.error w)) : accepts A w = true ∧ accepts B w = false := runN_spec hO hr ht hA h


/-! ### the preorders of the models -/

theorem ordRefl_id : OrdRefl idOrd := ⟨fun q => by simp [idOrd], fun s => by simp [idOrd]⟩

theorem ordTrans_id : OrdTrans idOrd := by
  refine ⟨?_, ?_, ?_, ?_⟩
  · intro a b c h1 h2
    simp only [idOrd, beq_iff_eq] at h1 h2 ⊢
    rw [h1, h2]
  · intro a b c h1 h2
    simp only [idOrd, beq_iff_eq] at h1 h2 ⊢
    rw [h1, h2]
  · intro a b s _ h2
    simp [idOrd] at h2
  · intro a s s' h1 _
    simp [idOrd] at h1

theorem ordRefl_ordOf (R : Rel) (A B : TA) : OrdRefl (ordOf R A B) :=
  ⟨fun q => by simp [ordOf], fun s => by simp [ordOf]⟩

theorem ordTrans_ordOf {R : Rel} (A B : TA) (hR : ∀ a b c, (a, b) ∈ R → (b, c) ∈ R → (a, c) ∈ R) :
    OrdTrans (ordOf R A B) := by
  refine ⟨?_, ?_, ?_, ?_⟩
  · intro a b c h1 h2
    simp only [ordOf, Bool.or_eq_true, beq_iff_eq, Bool.and_eq_true, List.contains_iff_mem] at h1 h2 ⊢
    rcases h1 with h1 | ⟨h1, _⟩
    · rw [h1]; exact h2
    · rcases h2 with h2 | ⟨h2, h3⟩
      · rw [← h2]; exact Or.inr ⟨h1, by assumption⟩
      · exact Or.inr ⟨hR a b c h1 h2, h3⟩
  · intro a b c h1 h2
    simp only [ordOf, Bool.or_eq_true, beq_iff_eq, Bool.and_eq_true, List.contains_iff_mem] at h1 h2 ⊢
    rcases h1 with h1 | ⟨h1, _⟩
    · rw [h1]; exact h2
    · rcases h2 with h2 | ⟨h2, h3⟩
      · rw [← h2]; exact Or.inr ⟨h1, by assumption⟩
      · exact Or.inr ⟨hR a b c h1 h2, h3⟩
  · intro a b s h1 h2
    simp only [ordOf, Bool.or_eq_true, beq_iff_eq, Bool.and_eq_true, List.contains_iff_mem] at h1 h2 ⊢
    rcases h1 with h1 | ⟨h1, _⟩
    · rw [h1]; exact h2
    · exact ⟨hR a b s h1 h2.1, h2.2⟩
  · intro a s s' h1 h2
    simp only [ordOf, Bool.or_eq_true, beq_iff_eq, Bool.and_eq_true, List.contains_iff_mem] at h1 h2 ⊢
    rcases h2 with h2 | ⟨h2, h3⟩
    · rw [← h2]; exact h1
    · exact ⟨hR a s s' h1.1 h2, h3⟩

/-- Boolean test of transitivity of a relation given as a list -/
def transRelB (R : Rel) : Bool :=
  R.all (fun ab => R.all (fun bc => !(ab.2 == bc.1) || R.contains (ab.1, bc.2)))

theorem transRelB_sound {R : Rel} (h : transRelB R = true) : ∀ a b c, (a, b) ∈ R → (b, c) ∈ R → (a, c) ∈ R := by
  intro a b c h1 h2
  simp only [transRelB, List.all_eq_true, Bool.or_eq_true, Bool.not_eq_true', beq_eq_false_iff_ne, ne_eq,
    List.contains_iff_mem] at h
  rcases h (a, b) h1 (b, c) h2 with h3 | h3
  · exact absurd rfl h3
  · exact h3

theorem subR_id_iff {X : List Pair} {k : Nat} {S : List Nat} : SubO idOrd X k S ↔ Sub X k S := by
  constructor
  · rintro (⟨s, _, h⟩ | ⟨k', S', hx, hk, hall⟩)
    · simp [leABP, idOrd] at h
    · simp only [leAP, idOrd, beq_iff_eq] at hk
      refine ⟨S', by rw [hk]; exact hx, fun s' hs' => ?_⟩
      obtain ⟨s, hs, hle⟩ := hall s' hs'
      simp only [leBP, idOrd, beq_iff_eq] at hle
      rw [hle]; exact hs
  · rintro ⟨S', hx, hall⟩
    exact Or.inr ⟨k, S', hx, by simp [leAP, idOrd], fun s' hs' => ⟨s', hall s' hs', by simp [leBP, idOrd]⟩⟩

/-- for the identity the check modulo the preorder is the plain check -/
theorem downCertRB_id (A B : TA) (X : List Pair) : downCertRB idOrd A B X = downCertB A B X := by
  rw [Bool.eq_iff_iff, downCertRB_iff, downCertB_iff]
  constructor
  · rintro ⟨h1, h2⟩
    refine ⟨fun p P hpP ρ hρ hpar c hc => ?_, fun f hf => subR_id_iff.mp (h2 f hf)⟩
    obtain ⟨i, k, hk, hs⟩ := h1 p P hpP ρ hρ hpar c hc
    exact ⟨i, k, hk, subR_id_iff.mp hs⟩
  · rintro ⟨h1, h2⟩
    refine ⟨fun p P hpP ρ hρ hpar c hc => ?_, fun f hf => subR_id_iff.mpr (h2 f hf)⟩
    obtain ⟨i, k, hk, hs⟩ := h1 p P hpP ρ hρ hpar c hc
    exact ⟨i, k, hk, subR_id_iff.mpr hs⟩

/-! ### the models answer whenever the exploration ends -/

/-- the children of all rules of `A` are productive (the precondition "no useless states" of the code, as far as it
is used) -/
def KidsProductive (A : TA) : Prop := ∀ r, r ∈ A.rules → ∀ k, k ∈ r.kids → Productive A k

theorem kidsProductive_removeUseless (A : TA) : KidsProductive (removeUseless A) :=
  (InclUp.trimmed_removeUseless A).1

theorem finish_of_spec {certOk : List Pair → Bool} {A B : TA} {res : Except Tree (List Pair)}
    (h : RunPost certOk A B res) :
    finish certOk A B (some res) =
      match res with
      | .ok X => some (true, .closed X)
      | .error w => some (false, .witness w) := by
  cases res with
  | ok X =>
    have h' : certOk X = true := h
    simp only [finish, h', if_true]
  | error w =>
    have h' : accepts A w = true ∧ accepts B w = false := h
    simp only [finish, h'.1, h'.2, Bool.not_false, Bool.and_self, if_true]

/-- the result of a finished run, as a verdict with its certificate -/
def verdictOf : Option (Except Tree (List Pair)) → Option (Bool × Cert)
  | none => none
  | some (.ok X) => some (true, .closed X)
  | some (.error w) => some (false, .witness w)

theorem finish_eq_verdictOf {certOk : List Pair → Bool} {A B : TA} {r : Option (Except Tree (List Pair))}
    (h : ∀ res, r = some res → RunPost certOk A B res) :
    finish certOk A B r = verdictOf r := by
  cases r with
  | none => rfl
  | some res =>
    rw [finish_of_spec (h res rfl)]
    cases res <;> rfl

end InclDown

open InclDown

/-- on an `A` without unproductive children the recursive model returns exactly what its exploration found: the final
check never refuses, `none` means that the fuel (the nesting depth of the calls) was exhausted -/
theorem inclDownRec_eq_run {A B : TA} (hA : KidsProductive A) (fuel : Nat) :
    inclDownRec A B fuel = verdictOf (run idOrd A B fuel) := by
  unfold inclDownRec
  apply finish_eq_verdictOf
  intro res hres
  have := run_spec (idOrd_langOrd A B) ordRefl_id hA hres
  cases res with
  | ok X => exact (downCertRB_id A B X).symm.trans this
  | error w => exact this

theorem inclDownNonrec_eq_run {A B : TA} (hA : KidsProductive A) (fuel : Nat) :
    inclDownNonrec A B fuel = verdictOf (runN idOrd A B fuel) := by
  unfold inclDownNonrec
  apply finish_eq_verdictOf
  intro res hres
  have := runN_spec (idOrd_langOrd A B) ordRefl_id ordTrans_id hA hres
  cases res with
  | ok X => exact (downCertRB_id A B X).symm.trans this
  | error w => exact this

/-- the models of `CheckInclusion` (operands sanitised first) need no hypothesis -/
theorem checkInclDownRec_eq_run (A B : TA) (fuel : Nat) :
    checkInclDownRec A B fuel = verdictOf (run idOrd (removeUseless A) (removeUseless B) fuel) :=
  inclDownRec_eq_run (kidsProductive_removeUseless A) fuel

theorem checkInclDownNonrec_eq_run (A B : TA) (fuel : Nat) :
    checkInclDownNonrec A B fuel = verdictOf (runN idOrd (removeUseless A) (removeUseless B) fuel) :=
  inclDownNonrec_eq_run (kidsProductive_removeUseless A) fuel

/-- with a validated simulation on disjoint operands -/
theorem inclDownSim_eq_run {A B : TA} {R : Rel} (hA : KidsProductive A)
    (hsim : isDownSimB (unionDisjoint A B) R = true) (hdis : disjointB A B = true) (fuel : Nat) :
    inclDownSim A B R fuel = verdictOf (run (ordOf R A B) A B fuel) := by
  unfold inclDownSim
  rw [hsim, hdis]
  simp only [Bool.and_self, if_true]
  apply finish_eq_verdictOf
  intro res hres
  exact run_spec (ordOf_langOrd hsim hdis) (ordRefl_ordOf R A B) hA hres

/-- the non-recursive variant prunes the sets of the choice functions and caches subsumed pairs: the relation must be
transitive -/
theorem inclDownNonrecSim_eq_run {A B : TA} {R : Rel} (hA : KidsProductive A)
    (hsim : isDownSimB (unionDisjoint A B) R = true) (hdis : disjointB A B = true)
    (hR : ∀ a b c, (a, b) ∈ R → (b, c) ∈ R → (a, c) ∈ R) (fuel : Nat) :
    inclDownNonrecSim A B R fuel = verdictOf (runN (ordOf R A B) A B fuel) := by
  unfold inclDownNonrecSim
  rw [hsim, hdis]
  simp only [Bool.and_self, if_true]
  apply finish_eq_verdictOf
  intro res hres
  exact runN_spec (ordOf_langOrd hsim hdis) (ordRefl_ordOf R A B) (ordTrans_ordOf A B hR) hA hres

/-! ### examples (non-vacuity) -/
namespace InclDownInvEx
open InclDownEx InclUp

-- the hypotheses are satisfiable: trimmed operands, the identity, a validated simulation
example : KidsProductive exG := (trimmed_of_allUsefulB (by decide)).1
example : KidsProductive exS1 := (trimmed_of_allUsefulB (by decide)).1
example : OrdRefl (ordOf [(5, 6)] exS1 exS2) ∧ OrdTrans (ordOf [(5, 6)] exS1 exS2) :=
  ⟨ordRefl_ordOf _ _ _, ordTrans_ordOf _ _ (transRelB_sound (by decide))⟩
example : WitOK exG (prodWit exG) := witOK_prodWit (trimmed_of_allUsefulB (by decide)).1
-- the invariant on a concrete call: `(1, {3,4})` of `exS1`/`exS2` from the initial state
example : CallSpec idOrd exS1 exS2 [] (expand idOrd exS1 exS2 (prodWit exS1) 5 []) :=
  expand_spec (idOrd_langOrd _ _) ordRefl_id (witOK_prodWit (trimmed_of_allUsefulB (by decide)).1) 5 []
-- the runs of the examples, and what the theorems say about them
example : run idOrd exH exG 10 = some (.ok [(3, [1]), (4, [1]), (9, [2])]) := rfl
example : downCertRB idOrd exH exG [(3, [1]), (4, [1]), (9, [2])] = true :=
  run_ok_cert (idOrd_langOrd _ _) ordRefl_id (trimmed_of_allUsefulB (by decide)).1 (fuel := 10) rfl
example : run idOrd exG exH 10 = some (.error (.node 2 [.node 0 [], .node 1 []])) := rfl
example : accepts exG (.node 2 [.node 0 [], .node 1 []]) = true ∧ accepts exH (.node 2 [.node 0 [], .node 1 []]) = false :=
  run_error_sound (idOrd_langOrd _ _) ordRefl_id (trimmed_of_allUsefulB (by decide)).1 (fuel := 10) rfl
example : inclDownRec exG exH 10 = verdictOf (run idOrd exG exH 10) :=
  inclDownRec_eq_run (trimmed_of_allUsefulB (by decide)).1 10
example : inclDownNonrec exU1 exU2 10 = verdictOf (runN idOrd exU1 exU2 10) :=
  inclDownNonrec_eq_run (trimmed_of_allUsefulB (by decide)).1 10
example : inclDownSim exS1 exS2 [(5, 6)] 10 = verdictOf (run (ordOf [(5, 6)] exS1 exS2) exS1 exS2 10) :=
  inclDownSim_eq_run (trimmed_of_allUsefulB (by decide)).1 (by decide) (by decide) 10
example : inclDownNonrecSim exS1 exS2 [(5, 6)] 10 = verdictOf (runN (ordOf [(5, 6)] exS1 exS2) exS1 exS2 10) :=
  inclDownNonrecSim_eq_run (trimmed_of_allUsefulB (by decide)).1 (by decide) (by decide)
    (transRelB_sound (by decide)) 10
-- the hypothesis on `A` is needed: `h(7) → 1` with the unproductive state 7 makes the exploration answer `false` with
-- a tree that `A` does not accept, and the model refuses
example : run idOrd exUs exA 10 = some (.error (.node 3 [.node 0 []])) := rfl
example : accepts exUs (.node 3 [.node 0 []]) = false := by decide
example : inclDownRec exUs exA 10 = none := rfl

end InclDownInvEx

end Vata
