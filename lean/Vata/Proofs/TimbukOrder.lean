import Vata.Timbuk
/-!
# The C++ comparisons of the Timbuk description are strict total orders (property C13)

`AutDescription` keeps `std::set`s of `std::string`, `std::pair<std::string, int>` and
`Triple<std::vector<std::string>, std::string, std::string>`; the model (`Vata/Timbuk.lean`) transcribes their
`operator<`: `ltChar` (unsigned bytes), `lexLt` (`std::lexicographical_compare`, i.e. `std::string::operator<` and
`std::vector::operator<`), `ltSym` (`std::pair::operator<`), `ltTrans` (`Triple::operator<`, a chain of `if`s).

This file proves, for the comparisons **as the model defines them**, that each is a strict total order: irreflexive,
transitive, and trichotomous (`StrictTotal`).  The two constructions are proved once, generically:

* `lexLt_strictTotal`: `lexLt lt` is a strict total order on lists when `lt` is one on the elements;
* `pairLt_strictTotal`: the `std::pair` comparison `a.1 < b.1 || (!(b.1 < a.1) && a.2 < b.2)` of two strict total orders.

`ltSym` is literally a `pairLt`, `ltTrans` is one after rewriting the chain of `if`s (`ltTrans_eq_pairLt`).
-/
namespace Vata.Timbuk

/-- a Boolean comparison that is a strict total order: irreflexive, transitive, and two elements neither of which is
below the other are equal (this is what `std::set` needs of its `Compare`, plus totality) -/
structure StrictTotal {α : Type} (lt : α → α → Bool) : Prop where
  irrefl : ∀ a, lt a a = false
  trans : ∀ {a b c}, lt a b = true → lt b c = true → lt a c = true
  total : ∀ {a b}, lt a b = false → lt b a = false → a = b

namespace StrictTotal
variable {α : Type} {lt : α → α → Bool}

theorem asymm (h : StrictTotal lt) {a b : α} (hab : lt a b = true) : lt b a = false := by
  cases hba : lt b a with
  | false => rfl
  | true =>
    have := h.trans hab hba
    rw [h.irrefl] at this; cases this

/-- `¬ (b < a)` means `a < b` or `a = b` -/
theorem le_cases (h : StrictTotal lt) {a b : α} (hba : lt b a = false) : lt a b = true ∨ a = b := by
  cases hab : lt a b with
  | true => exact Or.inl rfl
  | false => exact Or.inr (h.total hab hba)

/-- trichotomy -/
theorem trichotomy (h : StrictTotal lt) (a b : α) : lt a b = true ∨ a = b ∨ lt b a = true := by
  cases hab : lt a b with
  | true => exact Or.inl rfl
  | false =>
    cases hba : lt b a with
    | true => exact Or.inr (Or.inr rfl)
    | false => exact Or.inr (Or.inl (h.total hab hba))

theorem ne_of_lt (h : StrictTotal lt) {a b : α} (hab : lt a b = true) : a ≠ b := by
  intro e; subst e; rw [h.irrefl] at hab; cases hab

end StrictTotal

/-! ## characters -/

theorem ltChar_strictTotal : StrictTotal ltChar where
  irrefl := by intro a; simp [ltChar]
  trans := by
    intro a b c h1 h2
    simp only [ltChar, decide_eq_true_eq] at *
    omega
  total := by
    intro a b h1 h2
    simp only [ltChar, decide_eq_false_iff_not] at *
    exact Char.toNat_inj.mp (by omega)

/-! ## `std::lexicographical_compare` -/

section lex
variable {α : Type} {lt : α → α → Bool}

theorem lexLt_cons_cons (lt : α → α → Bool) (a b : α) (as bs : List α) :
    lexLt lt (a :: as) (b :: bs) = (lt a b || (!lt b a && lexLt lt as bs)) := rfl

/-- the two ways in which `a :: as < b :: bs` -/
theorem lexLt_cons_iff (h : StrictTotal lt) (a b : α) (as bs : List α) :
    lexLt lt (a :: as) (b :: bs) = true ↔ lt a b = true ∨ (a = b ∧ lexLt lt as bs = true) := by
  rw [lexLt_cons_cons]
  constructor
  · intro hh
    cases hab : lt a b with
    | true => exact Or.inl rfl
    | false =>
      rw [hab] at hh
      simp only [Bool.false_or, Bool.and_eq_true, Bool.not_eq_true'] at hh
      exact Or.inr ⟨h.total hab hh.1, hh.2⟩
  · rintro (hab | ⟨rfl, hl⟩)
    · simp [hab]
    · simp [h.irrefl, hl]

theorem lexLt_irrefl (h : StrictTotal lt) : ∀ l : List α, lexLt lt l l = false
  | [] => rfl
  | a :: as => by rw [lexLt_cons_cons, h.irrefl, lexLt_irrefl h as]; rfl

theorem lexLt_trans (h : StrictTotal lt) : ∀ {a b c : List α},
    lexLt lt a b = true → lexLt lt b c = true → lexLt lt a c = true
  | [], [], _, h1, _ => by simp [lexLt] at h1
  | [], _ :: _, [], _, h2 => by simp [lexLt] at h2
  | [], _ :: _, _ :: _, _, _ => rfl
  | _ :: _, [], _, h1, _ => by simp [lexLt] at h1
  | _ :: _, _ :: _, [], _, h2 => by simp [lexLt] at h2
  | x :: xs, y :: ys, z :: zs, h1, h2 => by
    rw [lexLt_cons_iff h] at h1 h2 ⊢
    rcases h1 with h1 | ⟨rfl, h1⟩
    · rcases h2 with h2 | ⟨rfl, _⟩
      · exact Or.inl (h.trans h1 h2)
      · exact Or.inl h1
    · rcases h2 with h2 | ⟨rfl, h2⟩
      · exact Or.inl h2
      · exact Or.inr ⟨rfl, lexLt_trans h h1 h2⟩

theorem lexLt_total (h : StrictTotal lt) : ∀ {a b : List α},
    lexLt lt a b = false → lexLt lt b a = false → a = b
  | [], [], _, _ => rfl
  | [], _ :: _, h1, _ => by simp [lexLt] at h1
  | _ :: _, [], _, h2 => by simp [lexLt] at h2
  | x :: xs, y :: ys, h1, h2 => by
    have n1 : ¬ (lt x y = true ∨ (x = y ∧ lexLt lt xs ys = true)) := by
      rw [← lexLt_cons_iff h, h1]; simp
    have n2 : ¬ (lt y x = true ∨ (y = x ∧ lexLt lt ys xs = true)) := by
      rw [← lexLt_cons_iff h, h2]; simp
    have e1 : lt x y = false := by
      cases hh : lt x y with
      | false => rfl
      | true => exact absurd (Or.inl hh) n1
    have e2 : lt y x = false := by
      cases hh : lt y x with
      | false => rfl
      | true => exact absurd (Or.inl hh) n2
    have exy : x = y := h.total e1 e2
    subst exy
    have e3 : lexLt lt xs ys = false := by
      cases hh : lexLt lt xs ys with
      | false => rfl
      | true => exact absurd (Or.inr ⟨rfl, hh⟩) n1
    have e4 : lexLt lt ys xs = false := by
      cases hh : lexLt lt ys xs with
      | false => rfl
      | true => exact absurd (Or.inr ⟨rfl, hh⟩) n2
    rw [lexLt_total h e3 e4]

/-- `std::lexicographical_compare` over a strict total order is a strict total order on sequences -/
theorem lexLt_strictTotal (h : StrictTotal lt) : StrictTotal (lexLt lt) where
  irrefl := lexLt_irrefl h
  trans := lexLt_trans h
  total := lexLt_total h

end lex

/-- `std::string::operator<` -/
theorem ltStr_strictTotal : StrictTotal ltStr := lexLt_strictTotal ltChar_strictTotal

/-- `std::vector<std::string>::operator<` -/
theorem ltTuple_strictTotal : StrictTotal ltTuple := lexLt_strictTotal ltStr_strictTotal

/-! ## `std::pair::operator<` -/

/-- `std::pair::operator<`: `a.first < b.first || (!(b.first < a.first) && a.second < b.second)` -/
def pairLt {α β : Type} (lt₁ : α → α → Bool) (lt₂ : β → β → Bool) (a b : α × β) : Bool :=
  lt₁ a.1 b.1 || (!lt₁ b.1 a.1 && lt₂ a.2 b.2)

section pair
variable {α β : Type} {lt₁ : α → α → Bool} {lt₂ : β → β → Bool}

theorem pairLt_iff (h₁ : StrictTotal lt₁) (a b : α × β) :
    pairLt lt₁ lt₂ a b = true ↔ lt₁ a.1 b.1 = true ∨ (a.1 = b.1 ∧ lt₂ a.2 b.2 = true) := by
  unfold pairLt
  constructor
  · intro hh
    cases hab : lt₁ a.1 b.1 with
    | true => exact Or.inl rfl
    | false =>
      rw [hab] at hh
      simp only [Bool.false_or, Bool.and_eq_true, Bool.not_eq_true'] at hh
      exact Or.inr ⟨h₁.total hab hh.1, hh.2⟩
  · rintro (hab | ⟨e, hl⟩)
    · simp [hab]
    · rw [e]; simp [h₁.irrefl, hl]

theorem pairLt_strictTotal (h₁ : StrictTotal lt₁) (h₂ : StrictTotal lt₂) : StrictTotal (pairLt lt₁ lt₂) where
  irrefl := by intro a; simp [pairLt, h₁.irrefl, h₂.irrefl]
  trans := by
    intro a b c h1 h2
    rw [pairLt_iff h₁] at h1 h2 ⊢
    rcases h1 with h1 | ⟨e1, h1⟩
    · rcases h2 with h2 | ⟨e2, _⟩
      · exact Or.inl (h₁.trans h1 h2)
      · exact Or.inl (e2 ▸ h1)
    · rcases h2 with h2 | ⟨e2, h2⟩
      · exact Or.inl (e1 ▸ h2)
      · exact Or.inr ⟨e1.trans e2, h₂.trans h1 h2⟩
  total := by
    intro a b h1 h2
    have n1 : ¬ (lt₁ a.1 b.1 = true ∨ (a.1 = b.1 ∧ lt₂ a.2 b.2 = true)) := by
      rw [← pairLt_iff h₁, h1]; simp
    have n2 : ¬ (lt₁ b.1 a.1 = true ∨ (b.1 = a.1 ∧ lt₂ b.2 a.2 = true)) := by
      rw [← pairLt_iff h₁, h2]; simp
    have e1 : lt₁ a.1 b.1 = false := by
      cases hh : lt₁ a.1 b.1 with
      | false => rfl
      | true => exact absurd (Or.inl hh) n1
    have e2 : lt₁ b.1 a.1 = false := by
      cases hh : lt₁ b.1 a.1 with
      | false => rfl
      | true => exact absurd (Or.inl hh) n2
    have exy : a.1 = b.1 := h₁.total e1 e2
    have e3 : lt₂ a.2 b.2 = false := by
      cases hh : lt₂ a.2 b.2 with
      | false => rfl
      | true => exact absurd (Or.inr ⟨exy, hh⟩) n1
    have e4 : lt₂ b.2 a.2 = false := by
      cases hh : lt₂ b.2 a.2 with
      | false => rfl
      | true => exact absurd (Or.inr ⟨exy.symm, hh⟩) n2
    exact Prod.ext exy (h₂.total e3 e4)

end pair

/-- `int::operator<` -/
def ltInt (a b : Int) : Bool := decide (a < b)

theorem ltInt_strictTotal : StrictTotal ltInt where
  irrefl := by intro a; simp [ltInt]
  trans := by
    intro a b c h1 h2
    simp only [ltInt, decide_eq_true_eq] at *
    omega
  total := by
    intro a b h1 h2
    simp only [ltInt, decide_eq_false_iff_not] at *
    omega

theorem ltSym_eq_pairLt : ltSym = pairLt ltStr ltInt := rfl

/-- `std::pair<std::string, int>::operator<` -/
theorem ltSym_strictTotal : StrictTotal ltSym := by
  rw [ltSym_eq_pairLt]; exact pairLt_strictTotal ltStr_strictTotal ltInt_strictTotal

/-- the chain of `if`s of `Triple::operator<` is the nested `std::pair` comparison -/
theorem ltTrans_eq_pairLt : ltTrans = pairLt ltTuple (pairLt ltStr ltStr) := by
  funext a b
  simp only [ltTrans, pairLt]
  cases ltTuple a.1 b.1 <;> cases ltTuple b.1 a.1 <;> cases ltStr a.2.1 b.2.1 <;> cases ltStr b.2.1 a.2.1 <;> simp

/-- `Triple<StateTuple, std::string, State>::operator<` -/
theorem ltTrans_strictTotal : StrictTotal ltTrans := by
  rw [ltTrans_eq_pairLt]
  exact pairLt_strictTotal ltTuple_strictTotal (pairLt_strictTotal ltStr_strictTotal ltStr_strictTotal)

end Vata.Timbuk
