import Vata.InclDownTables
import Vata.Proofs.InclDownInv
/-!
# `expandT` on the tables against `InclDown.expand`: the refinement from an agreement of the GROUPS

`GroupsAgree TA TB A B`: for every pair `(p, P)` the calls of the traversal with a non-empty left leaf are – in the same order,
with the same leaves as LISTS – the groups of `p` in `A` with their `lhsTuples` / `rhsTuples`.  From it the two runs are
equal (`expandT_eq`, `runTD_eq`).  `Vata/Proofs/InclDownTablesCalls.lean` derives the agreement for the dump in path order.
-/
namespace Vata
namespace InclDownTables
open M BddAbs BddAbsTD BddTraverse InclDown
open InclUp (normS prodWit Wit)

/-- the calls with a non-empty left leaf (the others return at once) -/
def neCalls (l : List LeafCall) : List LeafCall := l.filter (fun c => !c.2.1.isEmpty)

/-- what a call hands to the functor, with the ghost symbol -/
def callItem (c : LeafCall) : Nat × List (List Nat) × List (List Nat) := (reprSym c.1, c.2.1, c.2.2)

/-- the groups of `p` in `A` with the two tuple sets the abstract model computes -/
def groupItems (A B : Vata.TA) (p : Nat) (P : List Nat) : List (Nat × List (List Nat) × List (List Nat)) :=
  (lhsGroups A p).map (fun g => (g.1, lhsTuples A p g.1 g.2, rhsTuples B P g.1 g.2))

def GroupsAgree (TA TB : TableTD) (A B : Vata.TA) : Prop :=
  ∀ p P, (neCalls (travDown TA TB p P)).map callItem = groupItems A B p P

/-! ### `forAllL` -/

theorem forAllL_congr {α : Type} {f f' : α → List Pair → St → Ret} :
    ∀ {l : List α}, (∀ a, a ∈ l → f a = f' a) → ∀ cc st, forAllL f l cc st = forAllL f' l cc st
  | [], _, _, _ => rfl
  | a :: l, h, cc, st => by
    simp only [forAllL]
    rw [h a List.mem_cons_self]
    cases f' a cc st with
    | none => rfl
    | some r =>
      obtain ⟨v, cc', st'⟩ := r
      cases v with
      | holds => exact forAllL_congr (fun b hb => h b (List.mem_cons_of_mem _ hb)) cc' st'
      | fails w => rfl

theorem forAllL_map {α β : Type} (g : α → β) (f : β → List Pair → St → Ret) :
    ∀ (l : List α) cc st, forAllL f (l.map g) cc st = forAllL (fun a => f (g a)) l cc st
  | [], _, _ => rfl
  | a :: l, cc, st => by
    simp only [List.map_cons, forAllL]
    cases f (g a) cc st with
    | none => rfl
    | some r =>
      obtain ⟨v, cc', st'⟩ := r
      cases v with
      | holds => exact forAllL_map g f l cc' st'
      | fails w => rfl

theorem forAllL_filter {α : Type} (f : α → List Pair → St → Ret) (keep : α → Bool)
    (h : ∀ a, keep a = false → ∀ cc st, f a cc st = some (.holds, cc, st)) :
    ∀ (l : List α) cc st, forAllL f (l.filter keep) cc st = forAllL f l cc st
  | [], _, _ => rfl
  | a :: l, cc, st => by
    cases hk : keep a with
    | false =>
      rw [List.filter_cons_of_neg (by simp [hk])]
      simp only [forAllL, h a hk cc st]
      exact forAllL_filter f keep h l cc st
    | true =>
      rw [List.filter_cons_of_pos hk]
      simp only [forAllL]
      cases f a cc st with
      | none => rfl
      | some r =>
        obtain ⟨v, cc', st'⟩ := r
        cases v with
        | holds => exact forAllL_filter f keep h l cc' st'
        | fails w => rfl

/-! ### one group = one call -/

theorem procLeaf_nil (call1 call2 : Call) (wit : Wit) (post : List Nat → List Nat) (f : Nat) (W : List (List Nat))
    (cc : List Pair) (st : St) : procLeaf call1 call2 wit post f [] W cc st = some (.holds, cc, st) := rfl

/-- for a group of `p`, `procGroup` of the abstract model IS the functor on the two tuple sets: the arity the functor reads
off the first tuple is the arity of the group -/
theorem procGroup_eq_procLeaf (call1 call2 : Call) (A B : Vata.TA) (wit : Wit) (post : List Nat → List Nat) (p : Nat)
    (P : List Nat) {g : Nat × Nat} (hg : g ∈ lhsGroups A p) (cc : List Pair) (st : St) :
    procGroup call1 call2 A B wit post p P g.1 g.2 cc st =
      procLeaf call1 call2 wit post g.1 (lhsTuples A p g.1 g.2) (rhsTuples B P g.1 g.2) cc st := by
  obtain ⟨ρ, h1, h2, h3, h4⟩ := mem_lhsGroups.mp hg
  have hmem : ρ.kids ∈ lhsTuples A p g.1 g.2 := mem_lhsTuples.mpr ⟨ρ, h1, h2, h3, h4, rfl⟩
  cases hL : lhsTuples A p g.1 g.2 with
  | nil => rw [hL] at hmem; cases hmem
  | cons l L =>
    have hl : l.length = g.2 := by
      have : l ∈ lhsTuples A p g.1 g.2 := by rw [hL]; exact List.mem_cons_self
      obtain ⟨ρ', _, _, _, e4, e5⟩ := mem_lhsTuples.mp this
      rw [← e5]; exact e4
    unfold procGroup procLeaf
    simp only [hL, List.isEmpty_cons, Bool.false_eq_true, if_false, List.headD_cons, hl]

/-- the refinement of the traversal: on agreeing groups `bodyT` is `InclDown.body` -/
theorem bodyT_eq {TA TB : TableTD} {A B : Vata.TA} (h : GroupsAgree TA TB A B) (call1 call2 : Call) (wit : Wit)
    (post : List Nat → List Nat) (p : Nat) (P : List Nat) (cc : List Pair) (st : St) :
    bodyT call1 call2 TA TB wit post p P cc st = body call1 call2 A B wit post p P cc st := by
  unfold bodyT body
  have e1 : forAllL (actLeaf call1 call2 wit post) (travDown TA TB p P) cc st =
      forAllL (actLeaf call1 call2 wit post) (neCalls (travDown TA TB p P)) cc st := by
    unfold neCalls
    refine (forAllL_filter _ _ ?_ _ cc st).symm
    intro c hc cc st
    have : c.2.1 = [] := by
      cases hcl : c.2.1 with
      | nil => rfl
      | cons a l => rw [hcl] at hc; simp at hc
    unfold actLeaf
    rw [this]; rfl
  have e2 : forAllL (actLeaf call1 call2 wit post) (neCalls (travDown TA TB p P)) cc st =
      forAllL (fun i : Nat × List (List Nat) × List (List Nat) => procLeaf call1 call2 wit post i.1 i.2.1 i.2.2)
        ((neCalls (travDown TA TB p P)).map callItem) cc st := by
    rw [forAllL_map]; rfl
  rw [e1, e2, h p P]
  unfold groupItems
  rw [forAllL_map]
  exact forAllL_congr (fun g hg => by
    funext cc st
    exact (procGroup_eq_procLeaf call1 call2 A B wit post p P hg cc st).symm) cc st

/-- **run for run**: `expand` on the tables is `expand` of the abstract model – same verdict, same `childrenCache`, same
antichain `nonincluded` (with the witness trees), same set of concluded pairs, same fuel -/
theorem expandT_eq {TA TB : TableTD} {A B : Vata.TA} (h : GroupsAgree TA TB A B) (o : Ord) (wit : Wit) :
    ∀ fuel, expandT o TA TB wit fuel = expand o A B wit fuel := by
  intro fuel
  induction fuel with
  | zero => funext ws cc st p P; rfl
  | succ n ih =>
    funext ws cc st p P
    simp only [expandT, expand, ih, bodyT_eq h]
    rfl

theorem rootLoopT_eq {TA TB : TableTD} {A B : Vata.TA} (h : GroupsAgree TA TB A B) (o : Ord) (wit : Wit) (fuel : Nat)
    (FB : List Nat) : ∀ (fs : List Nat) (cc : List Pair) (st : St),
    rootLoopT o TA TB wit fuel FB fs cc st = rootLoop o A B wit fuel FB fs cc st
  | [], _, _ => rfl
  | f :: fs, cc, st => by
    simp only [rootLoopT, rootLoop, expandT_eq h, bodyT_eq h]
    split
    · exact rootLoopT_eq h o wit fuel FB fs cc st
    · cases body (expand o A B wit fuel []) (expand o A B wit fuel []) A B wit normS f FB cc st with
      | none => rfl
      | some r =>
        obtain ⟨v, cc', st'⟩ := r
        cases v with
        | holds => exact rootLoopT_eq h o wit fuel FB fs cc' _
        | fails w => rfl

theorem runTD_eq {TA TB : TableTD} {A B : Vata.TA} (h : GroupsAgree TA TB A B) (o : Ord) (fuel : Nat) :
    runTD o TA A.final TB B.final (prodWit A) fuel = run o A B fuel := by
  unfold runTD run
  rw [rootLoopT_eq h]
  rfl

end InclDownTables
end Vata
