import Vata.Proofs.TimbukGrammarTrim
/-!
# A transition line of the grammar is exactly what the reader reads (property C13)

`KidList` ⇔ the `split_delim` / `trim` / `contains_whitespace` computation, `Lhs` ⇔ `readLhs`, `TransLine` ⇔ `readTransLine`.
-/
namespace Vata.Timbuk
open Vata.T (splitDelim joinWith splitDelim_joinWith)

theorem noWs_of_containsWs {s : Str} (h : containsWs s = false) : NoWs s := by
  unfold containsWs at h
  rw [List.any_eq_false] at h
  intro c hc
  simpa using h c hc

/-! ## the children -/

/-- comma-free strings whose trimmed cores contain no white space are pieces `pad kid pad` -/
theorem pieces_exist : ∀ ps : List Str, (∀ x ∈ ps, ',' ∉ x ∧ containsWs (trim x) = false) →
    ∃ pieces : List (Str × Str × Str), pieces.map (fun p => p.1 ++ p.2.1 ++ p.2.2) = ps ∧
      pieces.map (·.2.1) = ps.map trim ∧ ∀ p ∈ pieces, AllWs p.1 ∧ NoWs p.2.1 ∧ ',' ∉ p.2.1 ∧ AllWs p.2.2
  | [], _ => ⟨[], rfl, rfl, by intro p hp; cases hp⟩
  | x :: r, h => by
    obtain ⟨pieces, h1, h2, h3⟩ := pieces_exist r (fun y hy => h y (List.mem_cons_of_mem _ hy))
    obtain ⟨pre, post, hx, hpre, hpost, _, _⟩ := trim_decomp x
    have hx' := h x List.mem_cons_self
    refine ⟨(pre, trim x, post) :: pieces, ?_, ?_, ?_⟩
    · simp only [List.map_cons, h1]
      rw [← hx]
    · simp only [List.map_cons, h2]
    · intro p hp
      rcases List.mem_cons.mp hp with rfl | hp
      · refine ⟨hpre, noWs_of_containsWs hx'.2, ?_, hpost⟩
        intro hc
        apply hx'.1
        rw [hx]
        simp [hc]
      · exact h3 p hp

/-- the text between the parentheses is a `KidList` iff no trimmed piece contains white space; the children are the trimmed
pieces (none when there is exactly one, empty, piece) -/
theorem kidList_iff (body : Str) (kids : List Str) :
    KidList body kids ↔ (((splitDelim ',' body).map trim).any containsWs = false ∧
       kids = (if (splitDelim ',' body).map trim = [[]] then [] else (splitDelim ',' body).map trim)) := by
  constructor
  · intro h
    cases h with
    | none hg =>
      rw [Vata.T.splitDelim_nodelim ',' body (hg.not_mem (by decide))]
      simp [trim_allWs hg, containsWs]
    | some hne hp hk =>
      rename_i pieces
      have hsplit : splitDelim ',' (joinWith ',' (pieces.map (fun p => p.1 ++ p.2.1 ++ p.2.2))) =
          pieces.map (fun p => p.1 ++ p.2.1 ++ p.2.2) := by
        apply splitDelim_joinWith
        · simpa using hne
        · intro x hx
          obtain ⟨p, hpm, rfl⟩ := List.mem_map.mp hx
          obtain ⟨h1, h2, h3, h4⟩ := hp p hpm
          intro hc
          rcases List.mem_append.mp hc with hc | hc
          · rcases List.mem_append.mp hc with hc | hc
            · exact h1.not_mem (by decide) hc
            · exact h3 hc
          · exact h4.not_mem (by decide) hc
      have htrim : (pieces.map (fun p => p.1 ++ p.2.1 ++ p.2.2)).map trim = pieces.map (·.2.1) := by
        rw [List.map_map]
        apply List.map_congr_left
        intro p hpm
        obtain ⟨h1, h2, h3, h4⟩ := hp p hpm
        exact trim_pad _ h1 h4 h2.headOk h2.lastOk
      rw [hsplit, htrim]
      refine ⟨?_, by rw [if_neg hk]⟩
      rw [List.any_eq_false]
      intro x hx
      obtain ⟨p, hpm, rfl⟩ := List.mem_map.mp hx
      simp [containsWs_noWs (hp p hpm).2.1]
  · rintro ⟨hany, rfl⟩
    obtain ⟨hfree, hjoin⟩ := splitDelim_spec ',' body
    have hps0 := Vata.T.splitDelim_ne_nil ',' body
    generalize splitDelim ',' body = ps at *
    by_cases hnil : ps.map trim = [[]]
    · rw [if_pos hnil]
      cases ps with
      | nil => exact absurd rfl hps0
      | cons x r =>
        cases r with
        | nil =>
          simp only [List.map_cons, List.map_nil, List.cons.injEq, and_true] at hnil
          simp only [joinWith] at hjoin
          subst hjoin
          exact KidList.none ((trim_eq_nil_iff x).mp hnil)
        | cons y r' => simp at hnil
    · rw [if_neg hnil]
      have hall : ∀ x ∈ ps, ',' ∉ x ∧ containsWs (trim x) = false := by
        intro x hx
        refine ⟨hfree x hx, ?_⟩
        rw [List.any_eq_false] at hany
        simpa using hany (trim x) (List.mem_map_of_mem hx)
      obtain ⟨pieces, h1, h2, h3⟩ := pieces_exist ps hall
      have hne : pieces ≠ [] := by
        rintro rfl
        simp only [List.map_nil] at h1
        exact hps0 h1.symm
      have := KidList.some hne h3 (by rw [h2]; exact hnil)
      rw [h1, h2, hjoin] at this
      exact this

/-! ## the left-hand side -/

theorem readLhs_leaf {lab : Str} (hne : lab ≠ []) (hws : NoWs lab) (hlp : '(' ∉ lab) (hrp : ')' ∉ lab) :
    readLhs lab = some ([], lab) := by
  unfold readLhs
  have : lab.isEmpty = false := by simpa using hne
  simp only [dropWhile_all (ne_colon_all hlp), contains_false hrp, containsWs_noWs hws, this]
  simp

theorem readLhs_app {lab g body : Str} {kids : List Str} (hne : lab ≠ []) (hh : HeadOk lab) (hl : LastOk lab)
    (hlp : '(' ∉ lab) (hrp : ')' ∉ lab) (hg : AllWs g) (hb : ')' ∉ body) (hk : KidList body kids) :
    readLhs (lab ++ g ++ '(' :: (body ++ [')'])) = some (kids, lab) := by
  have hlpA : '(' ∉ lab ++ g := by
    intro hc
    rcases List.mem_append.mp hc with hc | hc
    · exact hlp hc
    · exact hg.not_mem (by decide) hc
  have hrpA : ')' ∉ lab ++ g := by
    intro hc
    rcases List.mem_append.mp hc with hc | hc
    · exact hrp hc
    · exact hg.not_mem (by decide) hc
  have e1 : (lab ++ g ++ '(' :: (body ++ [')'])).dropWhile (fun c => c != '(') = '(' :: (body ++ [')']) := by
    rw [List.dropWhile_append_of_pos (ne_colon_all hlpA), List.dropWhile_cons_of_neg (by simp)]
  have e2 : (lab ++ g ++ '(' :: (body ++ [')'])).takeWhile (fun c => c != '(') = lab ++ g := by
    rw [List.takeWhile_append_of_pos (ne_colon_all hlpA), List.takeWhile_cons_of_neg (by simp), List.append_nil]
  have e3 : (body ++ [')']).dropWhile (fun c => c != ')') = [')'] := by
    rw [List.dropWhile_append_of_pos (ne_colon_all hb), List.dropWhile_cons_of_neg (by simp)]
  have e4 : (body ++ [')']).takeWhile (fun c => c != ')') = body := by
    rw [List.takeWhile_append_of_pos (ne_colon_all hb), List.takeWhile_cons_of_neg (by simp), List.append_nil]
  have e6 : trim (lab ++ g) = lab := by
    have := trim_pad (pre := []) (post := g) lab allWs_nil hg hh hl
    simpa using this
  have e7 : lab.isEmpty = false := by simpa using hne
  obtain ⟨k1, k2⟩ := (kidList_iff body kids).mp hk
  unfold readLhs
  simp only [e1, e2, e3, e4, e6, e7, k1, contains_false hrpA]
  rw [← k2]
  simp

/-- grammar → reader, the left-hand side -/
theorem lhs_read {lhs lab : Str} {kids : List Str} (h : Lhs lhs lab kids) : readLhs lhs = some (kids, lab) := by
  cases h with
  | leaf h1 h2 h3 h4 => exact readLhs_leaf h1 h2 h3 h4
  | app h1 h2 h3 h4 h5 h6 h7 h8 => exact readLhs_app h1 h2 h3 h4 h5 h6 h7 h8

theorem not_mem_of_contains {c : Char} {s : Str} (h : ¬ s.contains c = true) : c ∉ s := by
  simpa using h

/-- reader → grammar, the left-hand side (which is trimmed: it does not start with a white character) -/
theorem read_lhs {x lab : Str} {kids : List Str} (hh : HeadOk x) (h : readLhs x = some (kids, lab)) :
    Lhs x lab kids := by
  unfold readLhs at h
  rcases find_char '(' x with ⟨hd, hno⟩ | ⟨inner, hd, hx, hno⟩
  · rw [hd] at h
    simp only at h
    split at h
    · cases h
    · rename_i hc
      simp only [Option.some.injEq, Prod.mk.injEq] at h
      obtain ⟨rfl, rfl⟩ := h
      simp only [Bool.or_eq_true, not_or, Bool.not_eq_true] at hc
      obtain ⟨⟨h1, h2⟩, h3⟩ := hc
      exact Lhs.leaf (by simpa using h3) (noWs_of_containsWs h2) hno (by simpa using h1)
  · rw [hd] at h
    simp only at h
    generalize x.takeWhile (fun c => c != '(') = lab0 at *
    split at h
    · cases h
    · rename_i hc
      rcases find_char ')' inner with ⟨hd2, _⟩ | ⟨after, hd2, hin, hno2⟩
      · rw [hd2] at h
        cases h
      · rw [hd2] at h
        simp only at h
        generalize inner.takeWhile (fun c => c != ')') = body at *
        split at h
        · cases h
        · rename_i hafter
          split at h
          · cases h
          · rename_i hlabne
            split at h
            · cases h
            · rename_i hany
              simp only [Option.some.injEq, Prod.mk.injEq] at h
              obtain ⟨hkids, hlab⟩ := h
              have hafter' : after = [] := Decidable.byContradiction hafter
              subst hafter'
              obtain ⟨p, q, hl0, hp, hq, hho, hlo⟩ := trim_decomp lab0
              rw [hlab] at hl0 hho hlo hlabne
              have hlabne' : lab ≠ [] := by simpa using hlabne
              have hp' : p = [] := by
                cases p with
                | nil => rfl
                | cons c p' =>
                  have := hh c (by rw [hx, hl0]; rfl)
                  rw [hp c List.mem_cons_self] at this
                  cases this
              subst hp'
              have hsub : ∀ c, c ∈ lab → c ∈ lab0 := by
                intro c hc'
                rw [hl0]
                simp [hc']
              have hk : KidList body kids := by
                refine (kidList_iff body kids).mpr ⟨?_, hkids.symm⟩
                simpa using hany
              have := Lhs.app hlabne' hho hlo (fun h' => hno (hsub _ h'))
                (fun h' => not_mem_of_contains hc (hsub _ h')) hq hno2 hk
              rw [hx, hin, hl0]
              simpa using this

/-- **the left-hand side of the grammar is exactly what `readLhs` reads** (on a string that does not start with a white
character: `readLhs` is applied to a `trim`; `Lhs` has no leading pad, `readLhs " a(q)"` trims the label) -/
theorem lhs_iff (lhs lab : Str) (kids : List Str) (hh : HeadOk lhs) :
    Lhs lhs lab kids ↔ readLhs lhs = some (kids, lab) :=
  ⟨lhs_read, read_lhs hh⟩

/-- a left-hand side is non-empty and neither starts nor ends with a white character -/
theorem lhs_shape {lhs lab : Str} {kids : List Str} (h : Lhs lhs lab kids) : lhs ≠ [] ∧ HeadOk lhs ∧ LastOk lhs := by
  cases h with
  | leaf h1 h2 h3 h4 => exact ⟨h1, h2.headOk, h2.lastOk⟩
  | app h1 h2 h3 h4 h5 h6 h7 h8 =>
    rename_i g body
    refine ⟨by simp, ?_, ?_⟩
    · rw [List.append_assoc]
      exact headOk_append h1 h2
    · have e : lab ++ g ++ '(' :: (body ++ [')']) = (lab ++ g ++ '(' :: body) ++ [')'] := by simp
      rw [e]
      exact lastOk_append (by simp) (by intro c hc; simp at hc; subst hc; decide)

/-! ## the transition line -/

/-- grammar → reader -/
theorem transLine_read {l lab rhs : Str} {kids : List Str} (h : TransLine l lab kids rhs) :
    readTransLine l = some (kids, lab, rhs) := by
  cases h with
  | mk hpre hb ha hpost hlhs hno hrne hrws =>
    rename_i pre lhs b a post
    obtain ⟨hlne, hlh, hll⟩ := lhs_shape hlhs
    have e0 : pre ++ lhs ++ b ++ '-' :: '>' :: (a ++ rhs ++ post) =
        pre ++ (lhs ++ b ++ '-' :: '>' :: (a ++ rhs)) ++ post := by simp
    have t0 : trim (pre ++ lhs ++ b ++ '-' :: '>' :: (a ++ rhs ++ post)) = lhs ++ b ++ '-' :: '>' :: (a ++ rhs) := by
      rw [e0]
      apply trim_pad _ hpre hpost
      · rw [List.append_assoc]
        exact headOk_append hlne hlh
      · have e1 : lhs ++ b ++ '-' :: '>' :: (a ++ rhs) = (lhs ++ b ++ '-' :: '>' :: a) ++ rhs := by simp
        rw [e1]
        exact lastOk_append hrne hrws.lastOk
    have t1 : trim (lhs ++ b) = lhs := by
      simpa using trim_pad (pre := []) (post := b) lhs allWs_nil hb hlh hll
    have t2 : trim (a ++ rhs) = rhs := by
      simpa using trim_pad (pre := a) (post := []) rhs ha allWs_nil hrws.headOk hrws.lastOk
    have t3 : rhs.isEmpty = false := by simpa using hrne
    unfold readTransLine
    rw [t0, (splitArrow_eq_some_iff _ _ _).mpr ⟨rfl, hno⟩]
    simp only [t1, t2, t3, containsWs_noWs hrws, lhs_read hlhs]
    simp

theorem noArrowIn_suffix {p s : Str} (h : NoArrowIn (p ++ s)) : NoArrowIn s := by
  rintro ⟨u, v, rfl⟩
  exact h ⟨p ++ u, v, by simp⟩

/-- reader → grammar -/
theorem read_transLine {l lab rhs : Str} {kids : List Str} (h : readTransLine l = some (kids, lab, rhs)) :
    TransLine l lab kids rhs := by
  unfold readTransLine at h
  cases hs : splitArrow (trim l) with
  | none => rw [hs] at h; cases h
  | some ab =>
    obtain ⟨a', b'⟩ := ab
    rw [hs] at h
    simp only at h
    split at h
    · cases h
    · rename_i hc
      cases hr : readLhs (trim a') with
      | none => rw [hr] at h; cases h
      | some kl =>
        obtain ⟨kids', lab'⟩ := kl
        rw [hr] at h
        simp only [Option.some.injEq, Prod.mk.injEq] at h
        obtain ⟨rfl, rfl, hrhs⟩ := h
        obtain ⟨htl, hnoa⟩ := (splitArrow_eq_some_iff _ _ _).mp hs
        obtain ⟨pre, post, hl, hpre, hpost, _, _⟩ := trim_decomp l
        obtain ⟨p1, q1, ha, hp1, hq1, hh1, _⟩ := trim_decomp a'
        obtain ⟨p2, q2, hb, hp2, hq2, _, _⟩ := trim_decomp b'
        have hlhs := read_lhs hh1 hr
        simp only [Bool.or_eq_true, not_or, Bool.not_eq_true] at hc
        subst hrhs
        have hrne : trim b' ≠ [] := by simpa using hc.1
        have hrws : NoWs (trim b') := noWs_of_containsWs hc.2
        have hno : NoArrowIn (trim a' ++ q1) := by
          apply noArrowIn_suffix (p := p1)
          rw [← List.append_assoc, ← ha]
          exact hnoa
        have := TransLine.mk (allWs_append hpre hp1) hq1 hp2 (allWs_append hq2 hpost) hlhs hno hrne hrws
        have e : l = pre ++ p1 ++ trim a' ++ q1 ++ '-' :: '>' :: (p2 ++ trim b' ++ (q2 ++ post)) := by
          calc l = pre ++ trim l ++ post := hl
            _ = pre ++ (a' ++ '-' :: '>' :: b') ++ post := by rw [← htl]
            _ = pre ++ ((p1 ++ trim a' ++ q1) ++ '-' :: '>' :: (p2 ++ trim b' ++ q2)) ++ post := by rw [← ha, ← hb]
            _ = _ := by simp
        rw [e]
        exact this

/-- a transition line of the grammar is exactly what the reader reads -/
theorem transLine_iff (l lab : Str) (kids : List Str) (rhs : Str) :
    TransLine l lab kids rhs ↔ readTransLine l = some (kids, lab, rhs) :=
  ⟨transLine_read, read_transLine⟩

end Vata.Timbuk
