import Vata.Proofs.NfaOpsCodedBase
/-!
# `Intersection` as coded: the stack loop explores exactly the reachable pairs, numbers them injectively and builds the
product on them (`isectLoop_inv`), and terminates within `isectFuel` turns (`isectLoop_total`)
-/
namespace Vata.NfaC
open Vata.W

/-! ### the translation map -/

def tmKeys (tm : TranslMap) : List (Nat × Nat) := tm.map (·.1)

/-- the numbers are the positions: what `insert (…, size ())` guarantees -/
def TmWF (tm : TranslMap) : Prop := tm = (tmKeys tm).zipIdx

theorem tmFind_zipIdx (p : Nat × Nat) : ∀ (K : List (Nat × Nat)) (n : Nat),
    ((K.zipIdx n).find? (fun e => e.1 == p)).map (·.2) = if p ∈ K then some (n + K.idxOf p) else none
  | [], n => by simp
  | q :: K, n => by
    rw [List.zipIdx_cons, List.find?_cons]
    by_cases h : q = p
    · subst h; simp
    · have h' : (q == p) = false := by simpa using h
      have h'' : ¬ p = q := fun e => h e.symm
      simp only [h', List.mem_cons, h'', false_or, List.idxOf_cons]
      rw [tmFind_zipIdx p K (n + 1)]
      split
      · congr 1; simp only [cond_false]; omega
      · rfl

theorem tmFind_wf {tm : TranslMap} (h : TmWF tm) (p : Nat × Nat) :
    tmFind tm p = if p ∈ tmKeys tm then some ((tmKeys tm).idxOf p) else none := by
  have := tmFind_zipIdx p (tmKeys tm) 0
  rw [← h] at this
  simpa [tmFind] using this

theorem tmFind_mem_keys {tm : TranslMap} {p : Nat × Nat} {n : Nat} (h : tmFind tm p = some n) : p ∈ tmKeys tm := by
  simp only [tmFind, Option.map_eq_some_iff] at h
  obtain ⟨e, he, _⟩ := h
  have h1 := List.mem_of_find?_eq_some he
  have h2 := List.find?_some he
  simp only [beq_iff_eq] at h2
  exact List.mem_map.mpr ⟨e, h1, h2⟩

theorem tmFind_none_iff {tm : TranslMap} {p : Nat × Nat} : tmFind tm p = none ↔ p ∉ tmKeys tm := by
  simp only [tmFind, Option.map_eq_none_iff, List.find?_eq_none, tmKeys, List.mem_map, beq_iff_eq, not_exists, not_and]

theorem tmFind_append_of_some {tm ext : TranslMap} {p : Nat × Nat} {n : Nat} (h : tmFind tm p = some n) :
    tmFind (tm ++ ext) p = some n := by
  simp only [tmFind, Option.map_eq_some_iff] at h ⊢
  obtain ⟨e, he, hn⟩ := h
  exact ⟨e, by rw [List.find?_append, he]; rfl, hn⟩

theorem tmFind_append_new {tm : TranslMap} {p : Nat × Nat} {k : Nat} (h : tmFind tm p = none) :
    tmFind (tm ++ [(p, k)]) p = some k := by
  simp only [tmFind, Option.map_eq_none_iff] at h
  simp [tmFind, List.find?_append, h]

theorem tmFind_append_other {tm : TranslMap} {p q : Nat × Nat} {k : Nat} (h : q ≠ p) :
    tmFind (tm ++ [(p, k)]) q = tmFind tm q := by
  have h' : (p == q) = false := by simpa using fun e => h e.symm
  simp only [tmFind, List.find?_append, List.find?_cons, h', List.find?_nil, Option.or_none]

theorem TmWF.append {tm : TranslMap} (h : TmWF tm) (p : Nat × Nat) : TmWF (tm ++ [(p, tm.length)]) := by
  unfold TmWF at h ⊢
  simp only [tmKeys, List.map_append, List.map_cons, List.map_nil, List.zipIdx_append, List.zipIdx_cons,
    List.zipIdx_nil, List.length_map, Nat.zero_add]
  congr 1

/-- the number of a key is its position -/
theorem tmFind_inj {tm : TranslMap} (h : TmWF tm) {p q : Nat × Nat} {n : Nat} (hp : tmFind tm p = some n)
    (hq : tmFind tm q = some n) : p = q := by
  have kp := tmFind_mem_keys hp
  have kq := tmFind_mem_keys hq
  rw [tmFind_wf h, if_pos kp] at hp
  rw [tmFind_wf h, if_pos kq] at hq
  exact idxOf_inj' kp ((Option.some.inj hp).trans (Option.some.inj hq).symm)

/-! ### the measure of the loop -/

/-- joint transitions whose target pair has no number yet -/
def isectUnseen (A B : NFA) (tm : TranslMap) : Nat := nfaPairOut A B (tmKeys tm)

/-! ### the inner loops -/

/-- the inner loops of one turn, flattened: `(symbol, target pair)` in the order of the three nested `for`s -/
def isectFlat (o : NfaOrd) (A B : NFA) (l r : Nat) : List (Nat × (Nat × Nat)) :=
  (isectSymList o A B l r).flatMap (fun c => c.2.map (fun q => (c.1, q)))

theorem isectSymList_nil_left {o : NfaOrd} {A B : NFA} {l r : Nat} (h : (nfaClusterOf o A l).isEmpty = true) :
    isectSymList o A B l r = [] := by
  rw [List.isEmpty_iff] at h
  simp [isectSymList, h]

theorem isectSymList_nil_right {o : NfaOrd} {A B : NFA} {l r : Nat} (h : (nfaClusterOf o B r).isEmpty = true) :
    isectSymList o A B l r = [] := by
  rw [List.isEmpty_iff] at h
  simp [isectSymList, h]

theorem mem_isectFlat {o : NfaOrd} (ho : o.Ok) {A B : NFA} {l r : Nat} {x : Nat × (Nat × Nat)} :
    x ∈ isectFlat o A B l r ↔ x ∈ nfaJoint A B (l, r) := by
  rw [mem_nfaJoint]
  simp only [isectFlat, isectSymList, List.mem_flatMap, List.mem_filterMap, List.mem_map]
  constructor
  · rintro ⟨c, ⟨cl, hcl, hm⟩, q, hq, rfl⟩
    split at hm
    · cases hm
    · rename_i d hd
      cases hm
      simp only [List.mem_flatMap, List.mem_map] at hq
      obtain ⟨x1, hx1, y, hy, rfl⟩ := hq
      have hd1 := List.find?_some hd
      simp only [beq_iff_eq] at hd1
      refine ⟨(mem_nfaClusterOf ho).mp ⟨cl, hcl, rfl, hx1⟩, ?_⟩
      exact (mem_nfaClusterOf ho).mp ⟨d, List.mem_of_find?_eq_some hd, hd1, hy⟩
  · rintro ⟨h1, h2⟩
    obtain ⟨cl, hcl, ha, hx1⟩ := (mem_nfaClusterOf ho).mpr h1
    obtain ⟨d, hd, hda, hy⟩ := (mem_nfaClusterOf ho).mpr h2
    have hf := nfaClusterOf_find hd
    rw [hda, ← ha] at hf
    refine ⟨(cl.1, cl.2.flatMap (fun x => d.2.map (fun y => (x, y)))), ⟨cl, hcl, by rw [hf]⟩, x.2, ?_, ?_⟩
    · simp only [List.mem_flatMap, List.mem_map]
      exact ⟨x.2.1, hx1, x.2.2, hy, rfl⟩
    · simp only [ha]

theorem foldl_nested_flat {σ : Type} (f : Nat → σ → (Nat × Nat) → σ) :
    ∀ (L : List (Nat × List (Nat × Nat))) (s : σ),
      L.foldl (fun st c => c.2.foldl (f c.1) st) s
        = (L.flatMap (fun c => c.2.map (fun q => (c.1, q)))).foldl (fun st x => f x.1 st x.2) s
  | [], _ => rfl
  | c :: L, s => by
    simp only [List.foldl_cons, List.flatMap_cons, List.foldl_append, List.foldl_map]
    exact foldl_nested_flat f L _

/-- one turn of the loop of the CURRENT code: final marking, then the flattened inner loops -/
theorem isectBody_fixed (o : NfaOrd) (A B : NFAS) (act : (Nat × Nat) × Nat) (st : IsectSt) :
    isectBody o .fixed A B act st =
      (isectFlat o A.toNFA B.toNFA act.1.1 act.1.2).foldl (fun st x => isectIns act.2 x.1 st x.2)
        (if A.final.contains act.1.1 && B.final.contains act.1.2 then ⟨st.tm, st.stack, nfasSetFinal st.res act.2⟩
          else st) := by
  unfold isectBody
  simp only []
  split
  · rename_i h; simp [isectFlat, isectSymList_nil_left h]
  · split
    · rename_i h; simp [isectFlat, isectSymList_nil_right h]
    · simp only [isectD4Hook]
      exact foldl_nested_flat (fun a st q => isectIns act.2 a st q) _ _

/-- what a segment `xs` of the inner loops does to the state (`n` = number of the pair being expanded) -/
structure IsectStep (A B : NFA) (n : Nat) (xs : List (Nat × (Nat × Nat))) (st st' : IsectSt) : Prop where
  mono : ∀ q k, tmFind st.tm q = some k → tmFind st'.tm q = some k
  wf : TmWF st.tm → TmWF st'.tm
  stk : (∀ e, e ∈ st.stack → tmFind st.tm e.1 = some e.2) → ∀ e, e ∈ st'.stack → tmFind st'.tm e.1 = some e.2
  sub : ∀ e, e ∈ st.stack → e ∈ st'.stack
  new : ∀ q k, tmFind st'.tm q = some k → tmFind st.tm q = some k ∨ ((q, k) ∈ st'.stack ∧ ∃ x, x ∈ xs ∧ x.2 = q)
  did : ∀ x, x ∈ xs → ∃ k, tmFind st'.tm x.2 = some k ∧ (n, x.1, k) ∈ st'.res.trans
  tsub : ∀ t, t ∈ st.res.trans → t ∈ st'.res.trans
  tnew : ∀ t, t ∈ st'.res.trans → t ∈ st.res.trans ∨ ∃ x, x ∈ xs ∧ ∃ k, tmFind st'.tm x.2 = some k ∧ t = (n, x.1, k)
  same : st'.res.start = st.res.start ∧ st'.res.final = st.res.final ∧ st'.res.startSyms = st.res.startSyms
  meas : (∀ x, x ∈ xs → ∃ p, (p, x.1, x.2) ∈ nfaJointAll A B) →
    st'.stack.length + isectUnseen A B st'.tm ≤ st.stack.length + isectUnseen A B st.tm

theorem IsectStep.refl (A B : NFA) (n : Nat) (st : IsectSt) : IsectStep A B n [] st st :=
  { mono := fun _ _ h => h, wf := fun h => h, stk := fun h => h, sub := fun _ h => h, new := fun _ _ h => Or.inl h,
    did := fun _ h => (nomatch h), tsub := fun _ h => h, tnew := fun _ h => Or.inl h, same := ⟨rfl, rfl, rfl⟩,
    meas := fun _ => Nat.le_refl _ }

theorem IsectStep.trans {A B : NFA} {n : Nat} {xs ys : List (Nat × (Nat × Nat))} {s0 s1 s2 : IsectSt}
    (h1 : IsectStep A B n xs s0 s1) (h2 : IsectStep A B n ys s1 s2) : IsectStep A B n (xs ++ ys) s0 s2 where
  mono q k h := h2.mono q k (h1.mono q k h)
  wf h := h2.wf (h1.wf h)
  stk h := h2.stk (h1.stk h)
  sub e h := h2.sub e (h1.sub e h)
  new q k h := by
    rcases h2.new q k h with h | ⟨h, x, hx, e⟩
    · rcases h1.new q k h with h | ⟨h, x, hx, e⟩
      · exact Or.inl h
      · exact Or.inr ⟨h2.sub _ h, x, List.mem_append_left _ hx, e⟩
    · exact Or.inr ⟨h, x, List.mem_append_right _ hx, e⟩
  did x hx := by
    rcases List.mem_append.mp hx with h | h
    · obtain ⟨k, hk, ht⟩ := h1.did x h
      exact ⟨k, h2.mono _ _ hk, h2.tsub _ ht⟩
    · exact h2.did x h
  tsub t h := h2.tsub t (h1.tsub t h)
  tnew t h := by
    rcases h2.tnew t h with h | ⟨x, hx, k, hk, e⟩
    · rcases h1.tnew t h with h | ⟨x, hx, k, hk, e⟩
      · exact Or.inl h
      · exact Or.inr ⟨x, List.mem_append_left _ hx, k, h2.mono _ _ hk, e⟩
    · exact Or.inr ⟨x, List.mem_append_right _ hx, k, hk, e⟩
  same := ⟨h2.same.1.trans h1.same.1, h2.same.2.1.trans h1.same.2.1, h2.same.2.2.trans h1.same.2.2⟩
  meas h := Nat.le_trans (h2.meas (fun x hx => h x (List.mem_append_right _ hx)))
    (h1.meas (fun x hx => h x (List.mem_append_left _ hx)))

theorem isectUnseen_append_lt {A B : NFA} {tm : TranslMap} {p q : Nat × Nat} {a k : Nat}
    (hj : (p, a, q) ∈ nfaJointAll A B) (hq : q ∉ tmKeys tm) :
    isectUnseen A B (tm ++ [(q, k)]) < isectUnseen A B tm := by
  unfold isectUnseen nfaPairOut
  apply length_filter_lt_of_imp _ _ _ (p, a, q) _ _ _ hj
  · intro x hx
    rw [not_contains_iff] at hx ⊢
    intro hxD; apply hx
    simp only [tmKeys, List.map_append, List.mem_append]
    exact Or.inl hxD
  · exact not_contains_iff.mpr hq
  · rw [not_contains_iff]
    intro hn; apply hn
    simp [tmKeys]

theorem IsectStep.one (A B : NFA) (n : Nat) (x : Nat × (Nat × Nat)) (st : IsectSt) :
    IsectStep A B n [x] st (isectIns n x.1 st x.2) := by
  cases hf : tmFind st.tm x.2 with
  | some k =>
    have e : isectIns n x.1 st x.2 =
        ⟨st.tm, st.stack, ⟨⟨st.res.start, st.res.final, insT st.res.trans (n, x.1, k)⟩, st.res.startSyms⟩⟩ := by
      simp [isectIns, tmInsert, hf]
    rw [e]
    refine ⟨fun _ _ h => h, fun h => h, fun h => h, fun _ h => h, fun _ _ h => Or.inl h, ?_,
      fun t h => mem_insT.mpr (Or.inl h), ?_, ⟨rfl, rfl, rfl⟩, fun _ => Nat.le_refl _⟩
    · intro y hy
      rw [List.mem_singleton] at hy; subst hy
      exact ⟨k, hf, mem_insT.mpr (Or.inr rfl)⟩
    · intro t ht
      rcases mem_insT.mp ht with h | h
      · exact Or.inl h
      · exact Or.inr ⟨x, List.mem_singleton.mpr rfl, k, hf, h⟩
  | none =>
    have e : isectIns n x.1 st x.2 =
        ⟨st.tm ++ [(x.2, st.tm.length)], (x.2, st.tm.length) :: st.stack,
          ⟨⟨st.res.start, st.res.final, insT st.res.trans (n, x.1, st.tm.length)⟩, st.res.startSyms⟩⟩ := by
      simp [isectIns, tmInsert, hf]
    rw [e]
    have hnew : tmFind (st.tm ++ [(x.2, st.tm.length)]) x.2 = some st.tm.length := tmFind_append_new hf
    refine ⟨fun _ _ h => tmFind_append_of_some h, fun h => h.append _, ?_, fun _ h => List.mem_cons_of_mem _ h, ?_, ?_,
      fun t h => mem_insT.mpr (Or.inl h), ?_, ⟨rfl, rfl, rfl⟩, ?_⟩
    · intro h e he
      rcases List.mem_cons.mp he with h' | h'
      · rw [h']; exact hnew
      · exact tmFind_append_of_some (h e h')
    · intro q k hq
      by_cases hqx : q = x.2
      · subst hqx
        rw [hnew] at hq
        cases hq
        exact Or.inr ⟨List.mem_cons_self, x, List.mem_singleton.mpr rfl, rfl⟩
      · rw [tmFind_append_other hqx] at hq
        exact Or.inl hq
    · intro y hy
      rw [List.mem_singleton] at hy; subst hy
      exact ⟨_, hnew, mem_insT.mpr (Or.inr rfl)⟩
    · intro t ht
      rcases mem_insT.mp ht with h | h
      · exact Or.inl h
      · exact Or.inr ⟨x, List.mem_singleton.mpr rfl, _, hnew, h⟩
    · intro hx
      obtain ⟨p, hp⟩ := hx x (List.mem_singleton.mpr rfl)
      have := isectUnseen_append_lt (k := st.tm.length) hp (tmFind_none_iff.mp hf)
      simp only [List.length_cons]
      omega

theorem isectStep_fold (A B : NFA) (n : Nat) : ∀ (xs : List (Nat × (Nat × Nat))) (st : IsectSt),
    IsectStep A B n xs st (xs.foldl (fun st x => isectIns n x.1 st x.2) st)
  | [], st => IsectStep.refl A B n st
  | x :: xs, st => by
    rw [List.foldl_cons]
    exact (IsectStep.one A B n x st).trans (isectStep_fold A B n xs _)

end Vata.NfaC
