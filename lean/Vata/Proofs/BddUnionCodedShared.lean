import Vata.Proofs.BddUnionCodedBU
import Vata.Proofs.BddShare
/-!
# The `ShareTransTable` branch of the bottom-up `Union` / `UnionDisjointStates` (property C08) – part 4

The abstraction of a bottom-up handle splits into the rules of the shared table object and the rules of the object's own
nullary MTBDD (`absBU_split`); the shared branch yields the handle `BddShare.sharedRes`, so clause S of `BddShare.pre` gives
the exact language (`buShared_lang`, from `BddShare.shared_lang`).
-/
namespace Vata
namespace BddUnionCoded
open M BddAbs BddAbsTD Um

theorem mem_tblRules {syms : List Nat} {T : Table} {r : Rule} :
    r ∈ tblRules syms T ↔ r.kids ≠ [] ∧ r.sym ∈ syms ∧ HasRule T (bits r.sym) r.kids r.parent := by
  unfold tblRules
  rw [mem_absRules]
  unfold HasRule Table.get
  by_cases hk : r.kids = []
  · simp [hk, eval]
  · simp [hk]

theorem mem_nulRules {syms : List Nat} {T : Table} {r : Rule} :
    r ∈ (nulRules syms T).map BddShare.leafRule ↔ r.kids = [] ∧ r.sym ∈ syms ∧ HasRule T (bits r.sym) r.kids r.parent := by
  unfold nulRules HasRule
  simp only [List.mem_map, List.mem_flatMap]
  constructor
  · rintro ⟨x, ⟨f, hf, p, hp, rfl⟩, rfl⟩
    exact ⟨rfl, hf, by simpa [BddShare.leafRule, Table.get] using hp⟩
  · rintro ⟨hk, hs, h⟩
    obtain ⟨s, k, q⟩ := r
    simp only at hk hs h
    subst hk
    exact ⟨(s, q), ⟨s, hs, q, by simpa [Table.get] using h, rfl⟩, rfl⟩

/-- table rules and own leaf rules -/
theorem absBU_split (syms : List Nat) (T : Table) (F : List Nat) :
    SetEqTA (absBU syms T F) ⟨tblRules syms T ++ (nulRules syms T).map BddShare.leafRule, F⟩ := by
  refine ⟨fun r => ?_, fun q => Iff.rfl⟩
  show r ∈ absRules syms T ↔ _
  rw [List.mem_append, mem_tblRules, mem_nulRules, mem_absRules]
  by_cases hk : r.kids = []
  · simp [hk]
  · simp [hk]

theorem tblRules_congr (syms : List Nat) {T T' : Table} (h : T.entries = T'.entries) : tblRules syms T = tblRules syms T' := by
  unfold tblRules; rw [h]

/-- **the shared branch under clause S**: the result accepts exactly the union -/
theorem buShared_lang (syms : List Nat) (lhs rhs : AutBU) (hs : lhs.T.entries = rhs.T.entries)
    (hS : sharedClauseS syms lhs rhs = true) (t : Tree) :
    accepts ((buShared lhs rhs).abs syms) t = (accepts (lhs.abs syms) t || accepts (rhs.abs syms) t) := by
  have h := BddShare.shared_lang (σ := shareSt syms lhs) (hi := shareHnd syms lhs) (hj := shareHnd syms rhs) rfl hS t
  have e1 : accepts (lhs.abs syms) t = (shareSt syms lhs).lang (shareHnd syms lhs) t :=
    (absBU_split syms lhs.T lhs.fin).lang t
  have e2 : accepts (rhs.abs syms) t = (shareSt syms lhs).lang (shareHnd syms rhs) t := by
    have := (absBU_split syms rhs.T rhs.fin).lang t
    rw [← tblRules_congr syms hs] at this
    exact this
  rw [e1, e2, ← h]
  show accepts ((buShared lhs rhs).abs syms) t = accepts ⟨tblRules syms lhs.T ++
    (nulRules syms lhs.T ++ nulRules syms rhs.T).map BddShare.leafRule, lhs.fin ++ rhs.fin⟩ t
  refine Isx.accepts_congr_sets (fun r => ?_) (fun q => ?_) t
  case refine_2 => exact Iff.rfl
  show r ∈ absRules syms _ ↔ r ∈ tblRules syms lhs.T ++ (nulRules syms lhs.T ++ nulRules syms rhs.T).map BddShare.leafRule
  rw [List.map_append, List.mem_append, List.mem_append, mem_tblRules, mem_nulRules, mem_nulRules, mem_absRules]
  unfold HasRule
  have eT : (buShared lhs rhs).T = lhs.T.set [] (apply2 unionS (lhs.T.get []) (rhs.T.get [])) := rfl
  rw [eT]
  by_cases hk : r.kids = []
  · rw [hk, get_set, if_pos rfl, apply2_eval, mem_unionS]
    simp only [ne_eq, not_true_eq_false, false_and, true_and, false_or]
    constructor
    · rintro ⟨h1, h2 | h2⟩
      · exact Or.inl ⟨h1, h2⟩
      · exact Or.inr ⟨h1, h2⟩
    · rintro (⟨h1, h2⟩ | ⟨h1, h2⟩)
      · exact ⟨h1, Or.inl h2⟩
      · exact ⟨h1, Or.inr h2⟩
  · rw [get_set, if_neg (fun e => hk e.symm)]
    simp [hk]

end BddUnionCoded
end Vata
