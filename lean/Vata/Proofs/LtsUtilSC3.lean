import Vata.Proofs.LtsUtilSC2

/-!
# `SharedCounter` as coded refines a table of numbers (part 3: `init`, `destroy`)
-/
namespace Vata.LU.SC
namespace P

/-! ## `init()` -/

/-- what `init()` does to one row (the decision reads the memory before the call: `reclaim` writes no cell) -/
def keepRow (cfg : Cfg) (m : Mem) (row : Row) : Row :=
  match row.data with
  | none => row
  | some p => if cell m p cfg.rowSize = 1 then row else ⟨row.master, none⟩

theorem initRows_spec (cfg : Cfg) : ∀ (m : Mem) (c : List Row),
    (initRows cfg m c).2 = c.map (keepRow cfg m) ∧ (initRows cfg m c).1.cells = m.cells ∧
    (initRows cfg m c).1.next = m.next ∧
    (∀ x, x ∈ (initRows cfg m c).1.free ↔
      x ∈ m.free ∨ ∃ row, row ∈ c ∧ row.data = some x ∧ cell m x cfg.rowSize ≠ 1)
  | m, [] => by simp [initRows]
  | m, row :: rest => by
    obtain ⟨ih1, ih2, ih3, ih4⟩ := initRows_spec cfg m rest
    cases hd : row.data with
    | none =>
      have hk : keepRow cfg m row = row := by simp [keepRow, hd]
      simp only [initRows, hd, List.map_cons, hk, ih1, ih2, ih3, true_and]
      intro x
      rw [ih4 x]
      simp [hd]
    | some p =>
      by_cases hcell : cell m p cfg.rowSize = 1
      · have hk : keepRow cfg m row = row := by simp [keepRow, hd, hcell]
        simp only [initRows, hd, if_pos hcell, List.map_cons, hk, ih1, ih2, ih3, true_and]
        intro x
        rw [ih4 x]
        constructor
        · rintro (h | ⟨row', h1, h2, h3⟩)
          · exact Or.inl h
          · exact Or.inr ⟨row', List.mem_cons_of_mem _ h1, h2, h3⟩
        · rintro (h | ⟨row', h1, h2, h3⟩)
          · exact Or.inl h
          · rcases List.mem_cons.mp h1 with h1 | h1
            · subst h1; rw [hd] at h2; cases h2; exact absurd hcell h3
            · exact Or.inr ⟨row', h1, h2, h3⟩
      · obtain ⟨jh1, jh2, jh3, jh4⟩ := initRows_spec cfg (reclaim m p) rest
        have hk : keepRow cfg m row = ⟨row.master, none⟩ := by simp [keepRow, hd, hcell]
        have hkk : keepRow cfg (reclaim m p) = keepRow cfg m := rfl
        simp only [initRows, hd, if_neg hcell, List.map_cons, hk, jh1, jh2, jh3, hkk, true_and]
        refine ⟨rfl, rfl, ?_⟩
        intro x
        rw [jh4 x]
        simp only [reclaim_free, List.mem_cons, cell_reclaim]
        constructor
        · rintro ((h | h) | ⟨row', h1, h2, h3⟩)
          · subst h; exact Or.inr ⟨row, Or.inl rfl, hd, hcell⟩
          · exact Or.inl h
          · exact Or.inr ⟨row', Or.inr h1, h2, h3⟩
        · rintro (h | ⟨row', h1 | h1, h2, h3⟩)
          · exact Or.inl (Or.inr h)
          · subst h1; rw [hd] at h2; cases h2; exact Or.inl (Or.inl rfl)
          · exact Or.inr ⟨row', h1, h2, h3⟩

theorem initRows_nodup (cfg : Cfg) : ∀ (m : Mem) (c : List Row), m.free.Nodup → (∀ x, rowRefs x c ≤ 1) →
    (∀ x, x ∈ m.free → rowRefs x c = 0) → (initRows cfg m c).1.free.Nodup
  | m, [], h, _, _ => by simpa [initRows] using h
  | m, row :: rest, h, h1, h0 => by
    have h1' : ∀ x, rowRefs x rest ≤ 1 := fun x => by have := h1 x; simp only [rowRefs] at this; omega
    have h0' : ∀ x, x ∈ m.free → rowRefs x rest = 0 := fun x hx => by
      have := h0 x hx; simp only [rowRefs] at this; omega
    cases hd : row.data with
    | none =>
      simp only [initRows, hd]
      exact initRows_nodup cfg m rest h h1' h0'
    | some p =>
      by_cases hcell : cell m p cfg.rowSize = 1
      · simp only [initRows, hd, if_pos hcell]
        exact initRows_nodup cfg m rest h h1' h0'
      · simp only [initRows, hd, if_neg hcell]
        have hp1 := h1 p
        simp only [rowRefs, hd, if_true] at hp1
        refine initRows_nodup cfg (reclaim m p) rest ?_ h1' ?_
        · rw [reclaim_free, List.nodup_cons]
          refine ⟨fun hm => ?_, h⟩
          have := h0 p hm
          simp only [rowRefs, hd, if_true] at this
          omega
        · intro x hx
          rw [reclaim_free, List.mem_cons] at hx
          rcases hx with hx | hx
          · subst hx; omega
          · exact h0' x hx

theorem rowRefs_map_keep (cfg : Cfg) (m : Mem) (x : Nat) : ∀ (c : List Row),
    rowRefs x (c.map (keepRow cfg m)) = if cell m x cfg.rowSize = 1 then rowRefs x c else 0
  | [] => by simp [rowRefs]
  | row :: rest => by
    simp only [List.map_cons, rowRefs, rowRefs_map_keep cfg m x rest]
    cases hd : row.data with
    | none =>
      have hk : keepRow cfg m row = row := by simp [keepRow, hd]
      rw [hk, hd]; simp
    | some p =>
      by_cases hcell : cell m p cfg.rowSize = 1
      · have hk : keepRow cfg m row = row := by simp [keepRow, hd, hcell]
        rw [hk, hd]
        by_cases hpx : p = x
        · subst hpx; simp [hcell]
        · simp [hpx]
      · have hk : keepRow cfg m row = ⟨row.master, none⟩ := by simp [keepRow, hd, hcell]
        rw [hk]
        by_cases hpx : p = x
        · subst hpx; simp [hcell]
        · simp [hpx]


/-- a row of a filling counter that has data is referenced exactly once, from this counter -/
theorem filling_row_refs {cfg : Cfg} {m : Mem} {cs : List (Option Cnt)} {aw : AWorld} {i : Nat} {c : Cnt} {a : A}
    (hinv : Inv cfg ⟨m, cs⟩ aw) (hc : cs.getD i none = some c) (ha : aw.getD i none = some a)
    (hph : a.phase = .filling) {x : Nat} (hx : 0 < rowRefs x c) : refs x cs = 1 ∧ rowRefs x c = 1 ∧ x < m.next := by
  have hold : CntInv cfg m cs c a := hinv.cnt i c a hc ha
  obtain ⟨row, hm, hd⟩ := rowRefs_pos_iff.mp hx
  obtain ⟨r, hr⟩ := List.getElem?_of_mem hm
  have hdi := (hold.rows r row hr).data x hd
  have h1 := (hdi.fill hph).1
  have h2 := crefs_le_refs (p := x) (cs := cs) i
  rw [hc] at h2
  simp only [crefs] at h2
  exact ⟨h1, by omega, hdi.lt⟩

/-- `init()` inside the discipline -/
theorem init_inv {cfg : Cfg} {m : Mem} {cs : List (Option Cnt)} {aw : AWorld} {i : Nat} {c : Cnt} {a : A}
    (hinv : Inv cfg ⟨m, cs⟩ aw) (hc : cs.getD i none = some c) (ha : aw.getD i none = some a)
    (hph : a.phase = .filling) :
    Inv cfg ⟨(initRows cfg m c).1, cs.set i (some (initRows cfg m c).2)⟩
      (aw.set i (some { a with phase := .running })) := by
  have hold : CntInv cfg m cs c a := hinv.cnt i c a hc ha
  obtain ⟨h1, h2, h3, h4⟩ := initRows_spec cfg m c
  have hnd := initRows_nodup cfg m c hinv.nodup
    (fun x => by
      by_cases hx : 0 < rowRefs x c
      · have := (filling_row_refs hinv hc ha hph hx).2.1; omega
      · omega)
    (fun x hx => by
      have h0 : refs x cs = 0 := (hinv.free x hx).2
      have h2 := crefs_le_refs (p := x) (cs := cs) i
      rw [hc] at h2
      simp only [crefs] at h2
      omega)
  generalize (initRows cfg m c).1 = m' at *
  rw [h1]
  have hrefs : ∀ x, refs x (cs.set i (some (c.map (keepRow cfg m)))) + rowRefs x c =
      refs x cs + (if cell m x cfg.rowSize = 1 then rowRefs x c else 0) := by
    intro x
    have := refs_replace (p := x) (some (c.map (keepRow cfg m))) hc
    simp only [crefs, rowRefs_map_keep] at this
    exact this
  refine replace_cnt hinv hc (by simp) (by omega) ?_ ?_ hnd ?_
  · intro j cj aj r' rowj p hji hcj haj hrj hdj
    have h0 : rowRefs p c = 0 := by
      apply Classical.byContradiction
      intro hne
      have hx : 0 < rowRefs p c := by omega
      have hp1 := (filling_row_refs hinv hc ha hph hx).1
      obtain ⟨row, hm, hd⟩ := rowRefs_pos_iff.mp hx
      obtain ⟨r, hr⟩ := List.getElem?_of_mem hm
      have := refs_ge_two hc hr hd hcj hrj hdj (Or.inl (fun e => hji e.symm))
      omega
    have hrf := hrefs p
    rw [h0] at hrf
    have hrf' : refs p (cs.set i (some (c.map (keepRow cfg m)))) = refs p cs := by
      split at hrf <;> omega
    exact ⟨Same.rfl' (by rw [h2]), by rw [cell_of_cells h2, hrf'], fun _ => hrf'⟩
  · intro c' a' hc' ha'
    cases hc'; cases ha'
    refine ⟨by rw [List.length_map]; exact hold.len, hold.vlen, (fun h => by cases h), ?_⟩
    intro r row' hr'
    rw [List.getElem?_map] at hr'
    cases hr : c[r]? with
    | none => rw [hr] at hr'; cases hr'
    | some row =>
      rw [hr] at hr'
      simp only [Option.map_some, Option.some.injEq] at hr'
      subst hr'
      have hrow := hold.rows r row hr
      rw [hph] at hrow
      show RowInv cfg m' _ .running (fun col => a.at (r * cfg.rowSize + col)) (keepRow cfg m row)
      cases hd : row.data with
      | none =>
        have hk : keepRow cfg m row = row := by simp [keepRow, hd]
        rw [hk]
        refine ⟨hrow.master, fun _ => ⟨(fun h => by cases h), ?_⟩, fun p hp => by rw [hd] at hp; cases hp⟩
        have hz := sumTo_eq_zero (by rw [← hrow.master]; exact (hrow.noData hd).1 rfl)
        exact atMostOne_of_zero (j := 0) (fun k hk _ => hz k hk)
      | some p =>
        have hdi := hrow.data p hd
        obtain ⟨hf1, hf2, hf3⟩ := hdi.fill rfl
        by_cases hcell : cell m p cfg.rowSize = 1
        · have hk : keepRow cfg m row = row := by simp [keepRow, hd, hcell]
          rw [hk]
          refine ⟨hrow.master, (fun h => by rw [hd] at h; cases h), ?_⟩
          intro p' hp'
          rw [hd] at hp'; cases hp'
          refine ⟨by rw [h3]; exact hdi.lt, by rw [h2]; exact hdi.len, ?_, fun _ => ?_, (fun h => by cases h),
            (fun h => by cases h)⟩
          · intro col hc' hpos
            rw [cell_of_cells h2]; exact hdi.cols col hc' hpos
          · have hrf := hrefs p
            rw [if_pos hcell] at hrf
            rw [cell_of_cells h2, hcell]; omega
        · have hk : keepRow cfg m row = ⟨row.master, none⟩ := by simp [keepRow, hd, hcell]
          rw [hk]
          refine ⟨hrow.master, fun _ => ⟨(fun h => by cases h), ?_⟩, fun p hp => by cases hp⟩
          rcases hf3 with h | h
          · exact absurd h hcell
          · exact h.2
  · intro x hx
    rw [h3]
    have hrf := hrefs x
    rcases (h4 x).mp hx with h | ⟨row, hm, hd, hcell⟩
    · have : x < m.next ∧ refs x cs = 0 := hinv.free x h
      refine ⟨this.1, ?_⟩
      split at hrf <;> omega
    · have hpos : 0 < rowRefs x c := rowRefs_pos_iff.mpr ⟨row, hm, hd⟩
      obtain ⟨g1, g2, g3⟩ := filling_row_refs hinv hc ha hph hpos
      rw [if_neg hcell] at hrf
      exact ⟨g3, by omega⟩


/-! ## `~SharedCounter()` -/

/-- one iteration of the destructor's loop on a row with `data_ = p` -/
def destroyStep (cfg : Cfg) (m : Mem) (p : Nat) : Mem :=
  if dec64 (cell m p cfg.rowSize) = 0 then reclaim (setCell m p cfg.rowSize (dec64 (cell m p cfg.rowSize))) p
  else setCell m p cfg.rowSize (dec64 (cell m p cfg.rowSize))

theorem destroyRows_cons (cfg : Cfg) (m : Mem) (row : Row) (rest : List Row) :
    destroyRows cfg m (row :: rest) =
      match row.data with
      | none => destroyRows cfg m rest
      | some p => destroyRows cfg (destroyStep cfg m p) rest := by
  cases hd : row.data <;> simp [destroyRows, hd, destroyStep]

theorem destroyStep_cells (cfg : Cfg) (m : Mem) (p : Nat) :
    (destroyStep cfg m p).cells = (setCell m p cfg.rowSize (dec64 (cell m p cfg.rowSize))).cells := by
  unfold destroyStep; split <;> rfl

theorem destroyStep_next (cfg : Cfg) (m : Mem) (p : Nat) : (destroyStep cfg m p).next = m.next := by
  unfold destroyStep; split <;> rfl

theorem destroyStep_free (cfg : Cfg) (m : Mem) (p x : Nat) :
    x ∈ (destroyStep cfg m p).free ↔ x ∈ m.free ∨ (x = p ∧ dec64 (cell m p cfg.rowSize) = 0) := by
  unfold destroyStep; split
  · rename_i h; simp [h]; exact Or.comm
  · rename_i h; simp [h]

theorem destroyStep_nodup (cfg : Cfg) (m : Mem) (p : Nat) (h : m.free.Nodup) (hp : p ∉ m.free) :
    (destroyStep cfg m p).free.Nodup := by
  unfold destroyStep; split
  · rw [reclaim_free, setCell_free, List.nodup_cons]; exact ⟨hp, h⟩
  · exact h

/-- the part of the destructor's effect that needs no hypothesis: only reference count cells are written -/
theorem destroyRows_frame (cfg : Cfg) : ∀ (c : List Row) (m : Mem),
    (destroyRows cfg m c).next = m.next ∧
    (∀ p, ((destroyRows cfg m c).cells.get p).length = (m.cells.get p).length) ∧
    (∀ p col, col ≠ cfg.rowSize → cell (destroyRows cfg m c) p col = cell m p col)
  | [], m => by simp [destroyRows]
  | row :: rest, m => by
    rw [destroyRows_cons]
    cases hd : row.data with
    | none => exact destroyRows_frame cfg rest m
    | some p =>
      obtain ⟨h1, h2, h3⟩ := destroyRows_frame cfg rest (destroyStep cfg m p)
      refine ⟨by rw [h1, destroyStep_next], ?_, ?_⟩
      · intro x; rw [h2, destroyStep_cells, setCell_len]
      · intro x col hcol
        rw [h3 x col hcol, cell_of_cells (destroyStep_cells cfg m p), cell_setCell_ne_col _ _ _ _ _ hcol]

/-- what the destructor needs: enough count for the rows of this counter, rows well-formed and not in the free list -/
def DestroyPre (cfg : Cfg) (m : Mem) (c : List Row) : Prop :=
  ∀ p, 0 < rowRefs p c → rowRefs p c ≤ cell m p cfg.rowSize ∧ (m.cells.get p).length = cfg.rowSize + 1 ∧ p ∉ m.free

theorem destroyRows_spec (cfg : Cfg) : ∀ (c : List Row) (m : Mem), DestroyPre cfg m c →
    (∀ x, cell (destroyRows cfg m c) x cfg.rowSize = cell m x cfg.rowSize - rowRefs x c) ∧
    (∀ x, x ∈ (destroyRows cfg m c).free ↔ x ∈ m.free ∨ (0 < rowRefs x c ∧ cell m x cfg.rowSize = rowRefs x c)) ∧
    (m.free.Nodup → (destroyRows cfg m c).free.Nodup)
  | [], m, _ => by simp [destroyRows, rowRefs]
  | row :: rest, m, hpre => by
    rw [destroyRows_cons]
    cases hd : row.data with
    | none =>
      have hrr : ∀ x, rowRefs x (row :: rest) = rowRefs x rest := fun x => by simp [rowRefs, hd]
      have := destroyRows_spec cfg rest m (fun p hp => by have := hpre p (by rw [hrr]; exact hp); rw [hrr] at this; exact this)
      simpa only [hrr] using this
    | some p =>
      have hrr : ∀ x, rowRefs x (row :: rest) = (if p = x then 1 else 0) + rowRefs x rest := fun x => by
        simp [rowRefs, hd]
      have hp := hpre p (by rw [hrr, if_pos rfl]; omega)
      rw [hrr, if_pos rfl] at hp
      obtain ⟨hp1, hp2, hp3⟩ := hp
      have hdec : dec64 (cell m p cfg.rowSize) = cell m p cfg.rowSize - 1 := dec64_pos (by omega)
      have hcp : cell (destroyStep cfg m p) p cfg.rowSize = cell m p cfg.rowSize - 1 := by
        rw [cell_of_cells (destroyStep_cells cfg m p), hdec]
        exact cell_setCell_same (by rw [hp2]; omega)
      have hco : ∀ x, x ≠ p → cell (destroyStep cfg m p) x cfg.rowSize = cell m x cfg.rowSize := fun x hx => by
        rw [cell_of_cells (destroyStep_cells cfg m p), cell_setCell_ne_addr _ _ _ _ _ hx]
      have hpre' : DestroyPre cfg (destroyStep cfg m p) rest := by
        intro x hx
        by_cases hxp : x = p
        · subst hxp
          refine ⟨by rw [hcp]; omega, by rw [destroyStep_cells, setCell_len]; exact hp2, ?_⟩
          rw [destroyStep_free, hdec]
          rintro (h | ⟨_, h⟩)
          · exact hp3 h
          · omega
        · have := hpre x (by rw [hrr, if_neg (fun e => hxp e.symm)]; omega)
          rw [hrr, if_neg (fun e => hxp e.symm)] at this
          refine ⟨by rw [hco x hxp]; omega, by rw [destroyStep_cells, setCell_len]; exact this.2.1, ?_⟩
          rw [destroyStep_free]
          rintro (h | ⟨h, _⟩)
          · exact this.2.2 h
          · exact hxp h
      obtain ⟨ih1, ih2, ih3⟩ := destroyRows_spec cfg rest (destroyStep cfg m p) hpre'
      refine ⟨?_, ?_, ?_⟩
      · intro x
        rw [ih1 x, hrr]
        by_cases hxp : x = p
        · subst hxp; rw [hcp, if_pos rfl]; omega
        · rw [hco x hxp, if_neg (fun e => hxp e.symm)]; omega
      · intro x
        rw [ih2 x, hrr, destroyStep_free, hdec]
        by_cases hxp : x = p
        · subst hxp
          rw [hcp, if_pos rfl]
          constructor
          · rintro ((h | ⟨_, h⟩) | ⟨h1, h2⟩)
            · exact Or.inl h
            · exact Or.inr ⟨by omega, by omega⟩
            · exact Or.inr ⟨by omega, by omega⟩
          · rintro (h | ⟨_, h2⟩)
            · exact absurd h hp3
            · by_cases h0 : cell m x cfg.rowSize - 1 = 0
              · exact Or.inl (Or.inr ⟨rfl, h0⟩)
              · exact Or.inr ⟨by omega, by omega⟩
        · rw [hco x hxp, if_neg (fun e => hxp e.symm)]
          constructor
          · rintro ((h | ⟨h, _⟩) | ⟨h1, h2⟩)
            · exact Or.inl h
            · exact absurd h hxp
            · exact Or.inr ⟨by omega, by omega⟩
          · rintro (h | ⟨h1, h2⟩)
            · exact Or.inl (Or.inl h)
            · exact Or.inr ⟨by omega, by omega⟩
      · intro hnd
        exact ih3 (destroyStep_nodup cfg m p hnd hp3)


/-- a row with data of a counter that is not filling: the count cell is the number of sharers -/
theorem running_row_refs {cfg : Cfg} {m : Mem} {cs : List (Option Cnt)} {aw : AWorld} {i : Nat} {c : Cnt} {a : A}
    (hinv : Inv cfg ⟨m, cs⟩ aw) (hc : cs.getD i none = some c) (ha : aw.getD i none = some a)
    (hph : a.phase ≠ .filling) {x : Nat} (hx : 0 < rowRefs x c) :
    cell m x cfg.rowSize = refs x cs ∧ rowRefs x c ≤ refs x cs ∧ x < m.next ∧
      (m.cells.get x).length = cfg.rowSize + 1 := by
  have hold : CntInv cfg m cs c a := hinv.cnt i c a hc ha
  obtain ⟨row, hm, hd⟩ := rowRefs_pos_iff.mp hx
  obtain ⟨r, hr⟩ := List.getElem?_of_mem hm
  have hdi := (hold.rows r row hr).data x hd
  have h2 := crefs_le_refs (p := x) (cs := cs) i
  rw [hc] at h2
  simp only [crefs] at h2
  have hrun : a.phase = .running := by
    cases hp : a.phase with
    | fresh => exact absurd hp hdi.notFresh
    | filling => exact absurd hp hph
    | running => rfl
  exact ⟨hdi.run hrun, h2, hdi.lt, hdi.len⟩

/-- `~SharedCounter()` inside the discipline -/
theorem destroy_inv {cfg : Cfg} {m : Mem} {cs : List (Option Cnt)} {aw : AWorld} {i : Nat} {c : Cnt} {a : A}
    (hinv : Inv cfg ⟨m, cs⟩ aw) (hc : cs.getD i none = some c) (ha : aw.getD i none = some a)
    (hph : a.phase ≠ .filling) :
    Inv cfg ⟨destroyRows cfg m c, cs.set i none⟩ (aw.set i none) := by
  have hpre : DestroyPre cfg m c := by
    intro p hp
    obtain ⟨g1, g2, _, g4⟩ := running_row_refs hinv hc ha hph hp
    exact ⟨by omega, g4, hinv.free_not_ref (w := ⟨m, cs⟩) (by show 0 < refs p cs; omega)⟩
  obtain ⟨f1, f2, f3⟩ := destroyRows_frame cfg c m
  obtain ⟨s1, s2, s3⟩ := destroyRows_spec cfg c m hpre
  have hrefs : ∀ x, refs x (cs.set i none) + rowRefs x c = refs x cs := by
    intro x
    have := refs_replace (p := x) none hc
    simpa only [crefs, Nat.add_zero] using this
  refine replace_cnt hinv hc (by simp) (by omega) ?_ ?_ (s3 hinv.nodup) ?_
  · intro j cj aj r' rowj p hji hcj haj hrj hdj
    have hrf := hrefs p
    have hle : rowRefs p c ≤ cell m p cfg.rowSize := by
      by_cases h0 : 0 < rowRefs p c
      · exact (hpre p h0).1
      · omega
    refine ⟨⟨f2 p, fun col hcol => f3 p col (by omega)⟩, by rw [s1 p]; omega, ?_⟩
    intro hfill
    have hold : CntInv cfg m cs cj aj := hinv.cnt j cj aj hcj haj
    have h1 := (((hold.rows r' rowj hrj).data p hdj).fill hfill).1
    have h2 : 0 < refs p (cs.set i none) := by
      refine refs_pos_of_get (i := j) (c := cj) ?_ hrj hdj
      rw [getD_set, if_neg (fun h => hji h.1)]; exact hcj
    omega
  · intro c' a' hc'; cases hc'
  · intro x hx
    rw [f1]
    have hrf := hrefs x
    rcases (s2 x).mp hx with h | ⟨h1, h2⟩
    · have : x < m.next ∧ refs x cs = 0 := hinv.free x h
      exact ⟨this.1, by omega⟩
    · obtain ⟨g1, _, g3, _⟩ := running_row_refs hinv hc ha hph h1
      exact ⟨g3, by omega⟩

end P
end Vata.LU.SC
