import Vata.Proofs.InclDownStackTop
/-!
# Counting the transitions of the stack machine of `expand` — the loops inside a frame (property C01)

`Vata/Proofs/InclDownStack*.lean` prove that the call emulator refines the recursive model with `Reach` (SOME number of
transitions).  Here every simulation lemma is re-proved with a count: `ReachN n m m'` = the machine gets from `m` to `m'`
in AT MOST `n` transitions.  `t` is the bound for one simulated call (`_call` … `EXPAND_RETURN`) the induction on the
fuel provides (`CallOKN t`); the costs of the loops are

* phase 1, the positions of one rhs tuple (`reach_simI_n`): `len * (t + 3) + 1` (`forSimI`, the call, `ret`, `simret` per
  position, the final test);
* phase 1, the rhs tuples (`reach_tuple2_n`): `|W| * (n * (t + 3) + 3) + 1`;
* one choice function (`reach_cfI_n`): `len * (t + 3) + 1` (`forCfI`, the call, `ret`, `stdret` per position).

The file `InclDownStackStepsMain.lean` continues with the choice functions, the lhs tuples, the symbols and the call.
-/
namespace Vata
namespace InclDownStack
open InclDown
open InclUp (normS Wit)

/-- at most `n` transitions (of the machine with the `pop` of the C++), none of them final -/
def ReachN (o : Ord) (A B : TA) (wit : Wit) (n : Nat) (m m' : Machine) : Prop :=
  ∃ k, k ≤ n ∧ stepsM o A B wit popAll k m = some m'

section
variable {o : Ord} {A B : TA} {wit : Wit}

theorem ReachN.refl (m : Machine) : ReachN o A B wit 0 m m := ⟨0, Nat.le_refl _, rfl⟩

theorem ReachN.step {m m' : Machine} (h : stepM o A B wit popAll m = .inl m') : ReachN o A B wit 1 m m' :=
  ⟨1, Nat.le_refl _, by simp [stepsM, h]⟩

theorem ReachN.trans {a b : Nat} {m m' m'' : Machine} (h1 : ReachN o A B wit a m m') (h2 : ReachN o A B wit b m' m'') :
    ReachN o A B wit (a + b) m m'' := by
  obtain ⟨x, hx, h1⟩ := h1
  obtain ⟨y, hy, h2⟩ := h2
  exact ⟨x + y, by omega, stepsM_trans x h1 h2⟩

theorem ReachN.head {b : Nat} {m m' m'' : Machine} (h : stepM o A B wit popAll m = .inl m')
    (h2 : ReachN o A B wit b m' m'') : ReachN o A B wit (b + 1) m m'' := by
  have := (ReachN.step h).trans h2
  rwa [Nat.add_comm] at this

theorem ReachN.mono {a b : Nat} {m m' : Machine} (h : ReachN o A B wit a m m') (hab : a ≤ b) :
    ReachN o A B wit b m m' := by
  obtain ⟨x, hx, h⟩ := h
  exact ⟨x, by omega, h⟩

theorem ReachN.toReach {a : Nat} {m m' : Machine} (h : ReachN o A B wit a m m') : Reach o A B wit m m' := by
  obtain ⟨x, _, h⟩ := h
  exact ⟨x, h⟩

/-- the counting version of `CallOK`: a call costs at most `t` transitions from `_call` to `EXPAND_RETURN` -/
def CallOKN (o : Ord) (A B : TA) (wit : Wit) (t : Nat) (call : Call) (ws : List Pair) : Prop :=
  ∀ cc st q Q v cc' st', call cc st q Q = some (v, cc', st') →
    cc' = cc ∧ ∀ (top : Frame) (K : List Frame) (k : Nat) (f0 : Verdict),
      ReachN o A B wit t ⟨.call, top, K, ws, st, q, Q, k, f0⟩ ⟨.ret, top, K, ws, st', q, Q, k, v⟩

/-! ### phase 1: `for (top.i …) { EXPAND_CALL(2) _simret: … }` = `allPos` -/

theorem reach_simI_n {t : Nat} {call1 : Call} {ws : List Pair} (H : CallOKN o A B wit t call1 ws) (K : List Frame)
    (top : Frame) (lhs w : List Nat) (r1 r2 : List (List Nat))
    (h1 : top.tupleSetIter = lhs :: r1) (h2 : top.tupleSetIter2 = w :: r2) :
    ∀ (zs : List (Nat × Nat)) (i : Nat), (lhs.zip w).drop i = zs →
    ∀ (cc : List Pair) (st : St) (v : Verdict) (cc' : List Pair) (st' : St) (r : Nat) (S : List Nat) (ra : Nat)
      (fnd : Verdict), (zs ≠ [] ∨ fnd = Verdict.holds) →
      forAllL (fun (lr : Nat × Nat) cc st => call1 cc st lr.1 [lr.2]) zs cc st = some (v, cc', st') →
      cc' = cc ∧ ∃ i' r' S' ra', ReachN o A B wit (zs.length * (t + 3) + 1)
        ⟨.forSimI, { top with i := i }, K, ws, st, r, S, ra, fnd⟩
        ⟨.afterSim, { top with i := i' }, K, ws, st', r', S', ra', v⟩ := by
  intro zs
  induction zs with
  | nil =>
    intro i hd cc st v cc' st' r S ra fnd hf h
    simp only [forAllL, Option.some.injEq, Prod.mk.injEq] at h
    obtain ⟨rfl, rfl, rfl⟩ := h
    have hfnd : fnd = .holds := by
      cases hf with
      | inl h => exact absurd rfl h
      | inr h => exact h
    subst hfnd
    refine ⟨rfl, i, r, S, ra, (ReachN.step ?_).mono (by omega)⟩
    have : (lhs.zip w)[i]? = none := by
      rw [List.getElem?_eq_none_iff]; exact List.drop_eq_nil_iff.mp hd
    simp [stepM, h1, h2, this]
  | cons z zs ih =>
    intro i hd cc st v cc' st' r S ra fnd _ h
    obtain ⟨hz, hd'⟩ := drop_cons_inv hd
    have s1 : stepM o A B wit popAll ⟨.forSimI, { top with i := i }, K, ws, st, r, S, ra, fnd⟩
        = .inl ⟨.call, { top with i := i }, K, ws, st, z.1, [z.2], 2, fnd⟩ := by
      simp [stepM, h1, h2, hz]
    have hlen : (z :: zs).length * (t + 3) = zs.length * (t + 3) + (t + 3) := by
      rw [List.length_cons, Nat.add_mul, Nat.one_mul]
    simp only [forAllL] at h
    split at h
    · cases h
    · next cc1 st1 heq =>
      obtain ⟨rfl, hr⟩ := H _ _ _ _ _ _ _ heq
      have s2 : stepM o A B wit popAll ⟨.ret, { top with i := i }, K, ws, st1, z.1, [z.2], 2, .holds⟩
          = .inl ⟨.simret, { top with i := i }, K, ws, st1, z.1, [z.2], 2, .holds⟩ := by
        simp [stepM]
      have s3 : stepM o A B wit popAll ⟨.simret, { top with i := i }, K, ws, st1, z.1, [z.2], 2, .holds⟩
          = .inl ⟨.forSimI, { top with i := i + 1 }, K, ws, st1, z.1, [z.2], 2, .holds⟩ := by
        simp [stepM]
      obtain ⟨hcc, i', r', S', ra', hR⟩ := ih (i + 1) hd' _ st1 v cc' st' z.1 [z.2] 2 .holds (Or.inr rfl) h
      exact ⟨hcc, i', r', S', ra',
        (ReachN.head s1 ((hr _ K 2 fnd).trans (ReachN.head s2 (ReachN.head s3 hR)))).mono (by rw [hlen]; omega)⟩
    · next w0 cc1 st1 heq =>
      obtain ⟨rfl, hr⟩ := H _ _ _ _ _ _ _ heq
      simp only [Option.some.injEq, Prod.mk.injEq] at h
      obtain ⟨rfl, rfl, rfl⟩ := h
      have s2 : stepM o A B wit popAll ⟨.ret, { top with i := i }, K, ws, st1, z.1, [z.2], 2, .fails w0⟩
          = .inl ⟨.simret, { top with i := i }, K, ws, st1, z.1, [z.2], 2, .fails w0⟩ := by
        simp [stepM]
      have s3 : stepM o A B wit popAll ⟨.simret, { top with i := i }, K, ws, st1, z.1, [z.2], 2, .fails w0⟩
          = .inl ⟨.afterSim, { top with i := i }, K, ws, st1, z.1, [z.2], 2, .fails w0⟩ := by
        simp [stepM]
      exact ⟨rfl, i, _, _, _,
        (ReachN.head s1 ((hr _ K 2 fnd).trans (ReachN.head s2 (ReachN.step s3)))).mono (by rw [hlen]; omega)⟩

theorem zip_cost_le (lhs w : List Nat) (t : Nat) : (lhs.zip w).length * (t + 3) + 1 ≤ lhs.length * (t + 3) + 1 := by
  have : (lhs.zip w).length ≤ lhs.length := by rw [List.length_zip]; exact Nat.min_le_left _ _
  have := Nat.mul_le_mul_right (t + 3) this
  omega

/-! ### phase 1: `for (top.tupleSetIter2 …)` = `anyTuple` -/

theorem reach_tuple2_n {t : Nat} {call1 : Call} {ws : List Pair} (H : CallOKN o A B wit t call1 ws) (K : List Frame)
    (top : Frame) (lhs : List Nat) (r1 : List (List Nat)) (h1 : top.tupleSetIter = lhs :: r1) :
    ∀ (Wr : List (List Nat)), (∀ w, w ∈ Wr → lhs.zip w ≠ []) →
    ∀ (cc : List Pair) (st : St) (b : Bool) (cc' : List Pair) (st' : St) (i : Nat) (r : Nat) (S : List Nat)
      (ra : Nat) (fnd : Verdict),
      anyTuple call1 lhs Wr cc st = some (b, cc', st') →
      cc' = cc ∧ ∃ i' ti2' r' S' ra' fnd', ReachN o A B wit (Wr.length * (lhs.length * (t + 3) + 3) + 1)
        ⟨.forTuple2, { top with tupleSetIter2 := Wr, i := i }, K, ws, st, r, S, ra, fnd⟩
        ⟨(if b then PC.nexttuple else PC.choiceInit), { top with tupleSetIter2 := ti2', i := i' }, K, ws, st',
          r', S', ra', fnd'⟩ := by
  intro Wr
  induction Wr with
  | nil =>
    intro _ cc st b cc' st' i r S ra fnd h
    simp only [anyTuple, Option.some.injEq, Prod.mk.injEq] at h
    obtain ⟨rfl, rfl, rfl⟩ := h
    exact ⟨rfl, i, [], r, S, ra, fnd, (ReachN.step (by simp [stepM])).mono (by omega)⟩
  | cons w Wr ih =>
    intro hW cc st b cc' st' i r S ra fnd h
    have s1 : stepM o A B wit popAll ⟨.forTuple2, { top with tupleSetIter2 := w :: Wr, i := i }, K, ws, st, r, S, ra, fnd⟩
        = .inl ⟨.forSimI, { ({ top with tupleSetIter2 := w :: Wr } : Frame) with i := 0 }, K, ws, st, r, S, ra, fnd⟩ := by
      simp [stepM]
    have hz : lhs.zip w ≠ [] := hW w List.mem_cons_self
    have hlen : (w :: Wr).length * (lhs.length * (t + 3) + 3)
        = Wr.length * (lhs.length * (t + 3) + 3) + (lhs.length * (t + 3) + 3) := by
      rw [List.length_cons, Nat.add_mul, Nat.one_mul]
    have hzc := zip_cost_le lhs w t
    simp only [anyTuple, allPos] at h
    split at h
    · cases h
    · next cc1 st1 heq =>
      simp only [Option.some.injEq, Prod.mk.injEq] at h
      obtain ⟨rfl, rfl, rfl⟩ := h
      obtain ⟨hcc, i', r', S', ra', hR⟩ := reach_simI_n H K { top with tupleSetIter2 := w :: Wr } lhs w r1 Wr h1 rfl
        (lhs.zip w) 0 rfl cc st .holds cc1 st1 r S ra fnd (Or.inl hz) heq
      have s2 : stepM o A B wit popAll
          ⟨.afterSim, { ({ top with tupleSetIter2 := w :: Wr } : Frame) with i := i' }, K, ws, st1, r', S', ra', .holds⟩
          = .inl ⟨.nexttuple, { top with tupleSetIter2 := w :: Wr, i := i' }, K, ws, st1, r', S', ra', .holds⟩ := by
        simp [stepM]
      exact ⟨hcc, i', w :: Wr, r', S', ra', .holds,
        (ReachN.head s1 (hR.trans (ReachN.step s2))).mono (by rw [hlen]; omega)⟩
    · next w0 cc1 st1 heq =>
      obtain ⟨hcc, i', r', S', ra', hR⟩ := reach_simI_n H K { top with tupleSetIter2 := w :: Wr } lhs w r1 Wr h1 rfl
        (lhs.zip w) 0 rfl cc st (.fails w0) cc1 st1 r S ra fnd (Or.inl hz) heq
      subst hcc
      have s2 : stepM o A B wit popAll
          ⟨.afterSim, { ({ top with tupleSetIter2 := w :: Wr } : Frame) with i := i' }, K, ws, st1, r', S', ra', .fails w0⟩
          = .inl ⟨.forTuple2, { top with tupleSetIter2 := Wr, i := i' }, K, ws, st1, r', S', ra', .fails w0⟩ := by
        simp [stepM]
      obtain ⟨hcc2, i'', ti2', r'', S'', ra'', fnd'', hR2⟩ :=
        ih (fun w' hw' => hW w' (List.mem_cons_of_mem _ hw')) cc1 st1 b cc' st' i' r' S' ra' (.fails w0) h
      exact ⟨hcc2, i'', ti2', r'', S'', ra'', fnd'',
        (ReachN.head s1 (hR.trans (ReachN.head s2 hR2))).mono (by rw [hlen]; omega)⟩

/-! ### one choice function: `for (top.i …) { … EXPAND_CALL(1) _stdret: … }` = `tryPos` with `cachedCall` -/

theorem reach_cfI_n {t : Nat} {call1 : Call} {ws : List Pair} (H : CallOKN o A B wit t call1 ws) (K : List Frame)
    (top : Frame) (lhs : List Nat) (r1 : List (List Nat)) (f n0 : Nat) (ra0 : List (Nat × Nat))
    (h1 : top.tupleSetIter = lhs :: r1) (h2 : top.cfArity = lhs.length) (h3 : top.a = (f, n0) :: ra0) :
    ∀ (ls : List Nat) (i : Nat), lhs.drop i = ls →
    ∀ (cc : List Pair) (st : St) (trees : List Tree) (res : Option (List Tree)) (cc' : List Pair) (st' : St)
      (r : Nat) (S : List Nat) (ra : Nat) (w0 : Tree),
      tryPos (cachedCall o call1) wit (fun l => normS (maxElems o l [])) top.W top.choiceFunction i ls cc st
        = some (res, cc', st') →
      match res with
      | none => ∃ i' trees' r' S' ra' fnd', ReachN o A B wit (ls.length * (t + 3) + 1)
          ⟨.forCfI, { top with i := i, trees := trees, childrenCache := cc }, K, ws, st, r, S, ra, .fails w0⟩
          ⟨.nextchoice, { top with i := i', trees := trees', childrenCache := cc' }, K, ws, st', r', S', ra', fnd'⟩
      | some ts => ∃ i' trees' r' S' ra', ReachN o A B wit (ls.length * (t + 3) + 1)
          ⟨.forCfI, { top with i := i, trees := trees, childrenCache := cc }, K, ws, st, r, S, ra, .fails w0⟩
          ⟨.popReturn, { top with i := i', trees := trees', childrenCache := cc' }, K, ws, st', r', S', ra',
            .fails (.node f (trees.reverse ++ ts))⟩ := by
  intro ls
  induction ls with
  | nil =>
    intro i hd cc st trees res cc' st' r S ra w0 h
    simp only [tryPos, Option.some.injEq, Prod.mk.injEq] at h
    obtain ⟨rfl, rfl, rfl⟩ := h
    have hi : ¬ i < lhs.length := by
      have := List.drop_eq_nil_iff.mp hd
      omega
    exact ⟨i, trees, r, S, ra, (ReachN.step (by simp [stepM, h2, hi, curSym, h3])).mono (by omega)⟩
  | cons l ls ih =>
    intro i hd cc st trees res cc' st' r S ra w0 h
    obtain ⟨hl, hd'⟩ := drop_cons_inv hd
    have hi : i < lhs.length := by
      rcases Nat.lt_or_ge i lhs.length with h' | h'
      · exact h'
      · rw [List.getElem?_eq_none_iff.mpr h'] at hl; cases hl
    have hl' : lhs[i] = l := by
      obtain ⟨_, h'⟩ := List.getElem?_eq_some_iff.mp hl
      exact h'
    have hlen : (l :: ls).length * (t + 3) = ls.length * (t + 3) + (t + 3) := by
      rw [List.length_cons, Nat.add_mul, Nat.one_mul]
    have hrev : ∀ (x : Tree) (ts : List Tree), (x :: trees).reverse ++ ts = trees.reverse ++ x :: ts := by
      intro x ts; simp
    simp only [tryPos] at h
    split at h
    · next hemp =>
      obtain ⟨res0, hx, rfl⟩ := consT_eq_some h
      have s1 : stepM o A B wit popAll
          ⟨.forCfI, { top with i := i, trees := trees, childrenCache := cc }, K, ws, st, r, S, ra, .fails w0⟩
          = .inl ⟨.forCfI, { top with i := i + 1, trees := treeOf wit l :: trees, childrenCache := cc }, K, ws, st,
              r, S, ra, .fails w0⟩ := by
        simp [stepM, h1, h2, hi, hl', hemp]
      have := ih (i + 1) hd' cc st (treeOf wit l :: trees) res0 cc' st' r S ra w0 hx
      cases res0 with
      | none =>
        obtain ⟨i', trees', r', S', ra', fnd', hR⟩ := this
        exact ⟨i', trees', r', S', ra', fnd', (ReachN.head s1 hR).mono (by rw [hlen]; omega)⟩
      | some ts =>
        obtain ⟨i', trees', r', S', ra', hR⟩ := this
        refine ⟨i', trees', r', S', ra', ?_⟩
        rw [hrev] at hR
        exact (ReachN.head s1 hR).mono (by rw [hlen]; omega)
    · next hemp =>
      split at h
      · cases h
      · next cc1 st1 heq =>
        simp only [Option.some.injEq, Prod.mk.injEq] at h
        obtain ⟨rfl, rfl, rfl⟩ := h
        unfold cachedCall at heq
        split at heq
        · next hcov =>
          simp only [Option.some.injEq, Prod.mk.injEq, true_and] at heq
          obtain ⟨rfl, rfl⟩ := heq
          exact ⟨i, trees, l, posSet (fun l => normS (maxElems o l [])) top.W top.choiceFunction i, ra, .fails w0,
            (ReachN.step (by simp [stepM, h1, h2, hi, hl', hemp, hcov])).mono (by omega)⟩
        · next hcov =>
          split at heq
          · cases heq
          · next cc2 st2 hcall =>
            simp only [Option.some.injEq, Prod.mk.injEq, true_and] at heq
            obtain ⟨rfl, rfl⟩ := heq
            obtain ⟨_, hr⟩ := H _ _ _ _ _ _ _ hcall
            have s1 : stepM o A B wit popAll
                ⟨.forCfI, { top with i := i, trees := trees, childrenCache := cc }, K, ws, st, r, S, ra, .fails w0⟩
                = .inl ⟨.call, { top with i := i, trees := trees, childrenCache := cc }, K, ws, st, l,
                    posSet (fun l => normS (maxElems o l [])) top.W top.choiceFunction i, 1, .fails w0⟩ := by
              simp [stepM, h1, h2, hi, hl', hemp, hcov]
            have s2 : stepM o A B wit popAll
                ⟨.ret, { top with i := i, trees := trees, childrenCache := cc }, K, ws, st2, l,
                    posSet (fun l => normS (maxElems o l [])) top.W top.choiceFunction i, 1, .holds⟩
                = .inl ⟨.stdret, { top with i := i, trees := trees, childrenCache := cc }, K, ws, st2, l,
                    posSet (fun l => normS (maxElems o l [])) top.W top.choiceFunction i, 1, .holds⟩ := by
              simp [stepM]
            have s3 : stepM o A B wit popAll
                ⟨.stdret, { top with i := i, trees := trees, childrenCache := cc }, K, ws, st2, l,
                    posSet (fun l => normS (maxElems o l [])) top.W top.choiceFunction i, 1, .holds⟩
                = .inl ⟨.nextchoice, { top with i := i, trees := trees, childrenCache := (cc.filter (fun x => !(o.leA x.1 l && setLe o
                        (posSet (fun l => normS (maxElems o l [])) top.W top.choiceFunction i) x.2)) ++
                      [(l, posSet (fun l => normS (maxElems o l [])) top.W top.choiceFunction i)]) }, K, ws, st2, l,
                    posSet (fun l => normS (maxElems o l [])) top.W top.choiceFunction i, 1, .holds⟩ := by
              simp [stepM]
            exact ⟨i, trees, _, _, _, _,
              (ReachN.head s1 ((hr _ K 1 _).trans (ReachN.head s2 (ReachN.step s3)))).mono (by rw [hlen]; omega)⟩
          · simp at heq
      · next w1 cc1 st1 heq =>
        unfold cachedCall at heq
        split at heq
        · simp at heq
        · next hcov =>
          split at heq
          · cases heq
          · simp at heq
          · next w2 cc2 st2 hcall =>
            simp only [Option.some.injEq, Prod.mk.injEq, Verdict.fails.injEq] at heq
            obtain ⟨rfl, rfl, rfl⟩ := heq
            obtain ⟨_, hr⟩ := H _ _ _ _ _ _ _ hcall
            obtain ⟨res0, hx, rfl⟩ := consT_eq_some h
            have s1 : stepM o A B wit popAll
                ⟨.forCfI, { top with i := i, trees := trees, childrenCache := cc }, K, ws, st, r, S, ra, .fails w0⟩
                = .inl ⟨.call, { top with i := i, trees := trees, childrenCache := cc }, K, ws, st, l,
                    posSet (fun l => normS (maxElems o l [])) top.W top.choiceFunction i, 1, .fails w0⟩ := by
              simp [stepM, h1, h2, hi, hl', hemp, hcov]
            have s2 : stepM o A B wit popAll
                ⟨.ret, { top with i := i, trees := trees, childrenCache := cc }, K, ws, st2, l,
                    posSet (fun l => normS (maxElems o l [])) top.W top.choiceFunction i, 1, .fails w2⟩
                = .inl ⟨.stdret, { top with i := i, trees := trees, childrenCache := cc }, K, ws, st2, l,
                    posSet (fun l => normS (maxElems o l [])) top.W top.choiceFunction i, 1, .fails w2⟩ := by
              simp [stepM]
            have s3 : stepM o A B wit popAll
                ⟨.stdret, { top with i := i, trees := trees, childrenCache := cc }, K, ws, st2, l,
                    posSet (fun l => normS (maxElems o l [])) top.W top.choiceFunction i, 1, .fails w2⟩
                = .inl ⟨.forCfI, { top with i := i + 1, trees := w2 :: trees, childrenCache := cc }, K, ws,
                  ⟨niAdd o st2.nonIncl l (posSet (fun l => normS (maxElems o l [])) top.W top.choiceFunction i) w2,
                    st2.trues⟩, l, posSet (fun l => normS (maxElems o l [])) top.W top.choiceFunction i, 1,
                  .fails w2⟩ := by
              simp [stepM]
            have hR0 := ReachN.head s1 ((hr _ K 1 _).trans (ReachN.head s2 (ReachN.step s3)))
            have := ih (i + 1) hd' cc _ (w2 :: trees) res0 cc' st' l
              (posSet (fun l => normS (maxElems o l [])) top.W top.choiceFunction i) 1 w2 hx
            cases res0 with
            | none =>
              obtain ⟨i', trees', r', S', ra', fnd', hR⟩ := this
              exact ⟨i', trees', r', S', ra', fnd', (hR0.trans hR).mono (by rw [hlen]; omega)⟩
            | some ts =>
              obtain ⟨i', trees', r', S', ra', hR⟩ := this
              refine ⟨i', trees', r', S', ra', ?_⟩
              rw [hrev] at hR
              exact (hR0.trans hR).mono (by rw [hlen]; omega)

end
end InclDownStack
end Vata
