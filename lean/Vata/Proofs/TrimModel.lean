import Vata.Proofs.TrimAux
import Vata.Proofs.RunBridge
/-!
# Property C03 – trimming: the executable models of `Vata/Ref.lean` meet the L0 notions of `Vata/Spec.lean`

`prodStates`, `tdReach` compute exactly the productive / top-down reachable states (the fixed number of rounds
`|rules| + 1` suffices, by the counting argument of `Vata/Proofs/TrimAux.lean`); `removeUnreachable`, `removeUseless`
keep the language and establish their postconditions; `isEmptyRef` decides emptiness; the Boolean checkers
`allReachableB`, `allUsefulB` are sound.
-/
namespace Vata

/-! ### 1, 2: the fixed points -/

theorem prodStates_iff (A : TA) (q : Nat) : q ∈ prodStates A ↔ Productive A q := by
  constructor
  · exact prodStates_sound A q
  · rintro ⟨t, ht⟩
    exact reach_sub_closed A _ (prodStates_closed A) t q ht

theorem tdReach_iff (A : TA) (q : Nat) : q ∈ tdReach A ↔ TdReachable A q := by
  constructor
  · exact tdReach_sound A q
  · exact tdReachable_sub_closed (tdReach_final A) (tdReach_closed A) q

/-- the closure checks of `Vata/Ref.lean` always succeed on the computed sets -/
theorem isProdClosedB_prodStates (A : TA) : isProdClosedB A (prodStates A) = true :=
  isProdClosedB_iff.mpr (prodStates_closed A)

theorem isTdClosedB_tdReach (A : TA) : isTdClosedB A.rules (tdReach A) = true :=
  isTdClosedB_iff.mpr (tdReach_closed A)

/-! ### 7: emptiness -/

theorem isEmptyRef_iff (A : TA) : isEmptyRef A = true ↔ ∀ t, accepts A t = false := by
  unfold isEmptyRef
  rw [Bool.not_eq_true', ← Bool.not_eq_true, List.any_eq_true]
  constructor
  · intro h t
    rw [← Bool.not_eq_true]
    simp only [accepts, accepting, List.any_eq_true, List.contains_iff_mem]
    rintro ⟨q, hq, hf⟩
    exact h ⟨q, hf, List.contains_iff_mem.mpr ((prodStates_iff A q).mpr ⟨t, hq⟩)⟩
  · rintro h ⟨q, hf, hq⟩
    obtain ⟨t, ht⟩ := (prodStates_iff A q).mp (List.contains_iff_mem.mp hq)
    have := h t
    rw [← Bool.not_eq_true] at this
    apply this
    simp only [accepts, accepting, List.any_eq_true, List.contains_iff_mem]
    exact ⟨q, ht, hf⟩

/-! ### 3, 4: removal of unreachable states -/

/-- keep the rules whose parent is in `S` -/
def keepParents (A : TA) (S : List Nat) : TA := ⟨A.rules.filter (fun r => S.contains r.parent), A.final⟩

theorem removeUnreachable_eq (A : TA) : removeUnreachable A = keepParents A (tdReach A) := rfl

mutual
theorem reach_keep (A : TA) (S : List Nat) (hc : TdClosed A.rules S) :
    ∀ (t : Tree) (q : Nat), q ∈ S → q ∈ reach A t → q ∈ reach (keepParents A S) t
  | .node f ts, q => by
    intro hS
    rw [reach, reach, mem_post', mem_post']
    rintro ⟨r, hr, hs, hm, hp⟩
    have hpS : r.parent ∈ S := by rw [hp]; exact hS
    refine ⟨r, ?_, hs, reachL_keep A S hc ts r.kids (hc r hr hpS) hm, hp⟩
    simp only [keepParents, List.mem_filter, List.contains_iff_mem]
    exact ⟨hr, hpS⟩
theorem reachL_keep (A : TA) (S : List Nat) (hc : TdClosed A.rules S) :
    ∀ (ts : List Tree) (ks : List Nat), (∀ k, k ∈ ks → k ∈ S) → matchKids ks (reachL A ts) = true →
      matchKids ks (reachL (keepParents A S) ts) = true
  | [], [] => fun _ _ => rfl
  | [], _ :: _ => fun _ h => by simp [reachL, matchKids] at h
  | _ :: _, [] => fun _ h => by simp [reachL, matchKids] at h
  | t :: ts, k :: ks => fun hS h => by
    simp only [reachL, matchKids, Bool.and_eq_true, List.contains_iff_mem] at h ⊢
    exact ⟨reach_keep A S hc t k (hS k List.mem_cons_self) h.1,
      reachL_keep A S hc ts ks (fun k' hk' => hS k' (List.mem_cons_of_mem _ hk')) h.2⟩
end

/-- removing the rules whose parent is outside a set that contains the final states and is closed top-down keeps the language -/
theorem keepParents_lang (A : TA) (S : List Nat) (hf : ∀ q, q ∈ A.final → q ∈ S) (hc : TdClosed A.rules S) (t : Tree) :
    accepts (keepParents A S) t = accepts A t := by
  rw [Bool.eq_iff_iff]
  simp only [accepts, accepting, List.any_eq_true, List.contains_iff_mem]
  constructor
  · rintro ⟨q, hq, hfin⟩
    exact ⟨q, reach_mono (keepParents A S) A (fun r hr => (List.mem_filter.mp hr).1) t q hq, hfin⟩
  · rintro ⟨q, hq, hfin⟩
    exact ⟨q, reach_keep A S hc t q (hf q hfin) hq, hfin⟩

theorem removeUnreachable_lang (A : TA) (t : Tree) : accepts (removeUnreachable A) t = accepts A t :=
  keepParents_lang A (tdReach A) (tdReach_final A) (tdReach_closed A) t

/-- top-down reachability is not affected by removing the rules with unreachable parent -/
theorem tdReachable_removeUnreachable {A : TA} {q : Nat} (h : TdReachable A q) : TdReachable (removeUnreachable A) q := by
  induction h with
  | final hq => exact TdReachable.final hq
  | @step r k hr hp hk ih =>
    refine TdReachable.step (r := r) ?_ ih hk
    simp only [removeUnreachable, List.mem_filter, List.contains_iff_mem]
    exact ⟨hr, (tdReach_iff A _).mpr hp⟩

theorem tdReachable_of_removeUnreachable {A : TA} {q : Nat} (h : TdReachable (removeUnreachable A) q) : TdReachable A q := by
  induction h with
  | final hq => exact TdReachable.final hq
  | @step r k hr _ hk ih => exact TdReachable.step (List.mem_filter.mp hr).1 ih hk

theorem removeUnreachable_post (A : TA) (q : Nat) : Occurs (removeUnreachable A) q → TdReachable (removeUnreachable A) q := by
  rintro (hf | ⟨r, hr, h⟩)
  · exact TdReachable.final hf
  · have hr' := hr
    simp only [removeUnreachable, List.mem_filter, List.contains_iff_mem] at hr'
    have hp : TdReachable (removeUnreachable A) r.parent :=
      tdReachable_removeUnreachable ((tdReach_iff A _).mp hr'.2)
    rcases h with h | h
    · rw [← h]; exact hp
    · exact TdReachable.step hr hp h

/-! ### 5, 6: removal of useless states -/

theorem removeUseless_eq (A : TA) : removeUseless A = removeUnreachable (restrict A (prodStates A)) := rfl

theorem removeUseless_lang (A : TA) (t : Tree) : accepts (removeUseless A) t = accepts A t := by
  rw [removeUseless_eq, removeUnreachable_lang, restrict_lang A _ (prodStates_closed A)]

/-- every state of the restriction to the productive states is productive in the restriction -/
theorem productive_restrict {A : TA} {q : Nat} (h : q ∈ prodStates A) : Productive (restrict A (prodStates A)) q := by
  obtain ⟨t, ht⟩ := (prodStates_iff A q).mp h
  exact ⟨t, reach_restrict A _ (prodStates_closed A) t q ht⟩

/-- a state that is productive and top-down reachable stays productive after removing the unreachable states -/
theorem productive_removeUnreachable {A : TA} {q : Nat} (hp : Productive A q) (hr : TdReachable A q) :
    Productive (removeUnreachable A) q := by
  obtain ⟨t, ht⟩ := hp
  exact ⟨t, reach_keep A (tdReach A) (tdReach_closed A) t q ((tdReach_iff A q).mpr hr) ht⟩

/-- what holds of every rule of `removeUseless A` -/
theorem removeUseless_rule {A : TA} {r : Rule} (hr : r ∈ (removeUseless A).rules) :
    TdReachable (removeUseless A) r.parent ∧ Productive (removeUseless A) r.parent ∧
      ∀ k, k ∈ r.kids → TdReachable (removeUseless A) k ∧ Productive (removeUseless A) k := by
  have hr' := hr
  rw [removeUseless_eq] at hr'
  simp only [removeUnreachable, List.mem_filter, List.contains_iff_mem] at hr'
  obtain ⟨hrB, hpS⟩ := hr'
  have hrB' := hrB
  simp only [restrict, List.mem_filter, Bool.and_eq_true, List.contains_iff_mem, List.all_eq_true] at hrB'
  obtain ⟨_, hpP, hkP⟩ := hrB'
  have hpB : TdReachable (restrict A (prodStates A)) r.parent := (tdReach_iff _ _).mp hpS
  have hpC : TdReachable (removeUseless A) r.parent := tdReachable_removeUnreachable hpB
  refine ⟨hpC, productive_removeUnreachable (productive_restrict hpP) hpB, ?_⟩
  intro k hk
  have hkB : TdReachable (restrict A (prodStates A)) k := TdReachable.step hrB hpB hk
  exact ⟨TdReachable.step hr hpC hk, productive_removeUnreachable (productive_restrict (hkP k hk)) hkB⟩

theorem removeUseless_kids_productive (A : TA) :
    ∀ r, r ∈ (removeUseless A).rules → ∀ k, k ∈ r.kids → Productive (removeUseless A) k :=
  fun _ hr k hk => ((removeUseless_rule hr).2.2 k hk).2

theorem removeUseless_post_state (A : TA) (q : Nat) : Occurs (removeUseless A) q → UsefulState (removeUseless A) q := by
  rintro (hf | ⟨r, hr, h⟩)
  · have hf' : q ∈ (restrict A (prodStates A)).final := hf
    have hqP : q ∈ prodStates A := by
      simp only [restrict, List.mem_filter, List.contains_iff_mem] at hf'
      exact hf'.2
    exact useful_state_of (removeUseless_kids_productive A) (TdReachable.final hf)
      (productive_removeUnreachable (productive_restrict hqP) (TdReachable.final hf'))
  · obtain ⟨h1, h2, h3⟩ := removeUseless_rule hr
    rcases h with h | h
    · rw [← h]; exact useful_state_of (removeUseless_kids_productive A) h1 h2
    · exact useful_state_of (removeUseless_kids_productive A) (h3 q h).1 (h3 q h).2

theorem removeUseless_post_rule (A : TA) (r : Rule) : r ∈ (removeUseless A).rules → UsefulRule (removeUseless A) r :=
  fun hr => useful_rule_of (removeUseless_kids_productive A) hr (removeUseless_rule hr).1

/-! ### 8: the Boolean checkers -/

theorem allReachableB_sound (A : TA) : allReachableB A = true → ∀ q, Occurs A q → TdReachable A q := by
  intro h q hq
  simp only [allReachableB, List.all_eq_true, List.contains_iff_mem] at h
  exact (tdReach_iff A q).mp (h q (mem_states.mpr hq))

theorem usefulStates_eq (A : TA) : usefulStates A = tdReach (restrict A (prodStates A)) := rfl

/-- the states reachable in the restriction to `P` are in `P` -/
theorem tdReachable_restrict_mem {A : TA} {P : List Nat} {q : Nat} (h : TdReachable (restrict A P) q) : q ∈ P := by
  induction h with
  | final hq =>
    simp only [restrict, List.mem_filter, List.contains_iff_mem] at hq
    exact hq.2
  | @step r k hr _ hk _ =>
    simp only [restrict, List.mem_filter, Bool.and_eq_true, List.contains_iff_mem, List.all_eq_true] at hr
    exact hr.2.2 k hk

theorem tdReachable_of_restrict {A : TA} {P : List Nat} {q : Nat} (h : TdReachable (restrict A P) q) : TdReachable A q := by
  induction h with
  | final hq => exact TdReachable.final (List.mem_filter.mp hq).1
  | @step r k hr _ hk ih => exact TdReachable.step (List.mem_filter.mp hr).1 ih hk

/-- members of `usefulStates` are useful; no hypothesis on `A` -/
theorem allUsefulB_sound (A : TA) :
    allUsefulB A = true → (∀ q, Occurs A q → UsefulState A q) ∧ (∀ r, r ∈ A.rules → UsefulRule A r) := by
  intro h
  simp only [allUsefulB, Bool.and_eq_true, List.all_eq_true, List.contains_iff_mem] at h
  obtain ⟨hst, _⟩ := h
  have hB : ∀ q, Occurs A q → TdReachable (restrict A (prodStates A)) q := by
    intro q hq
    have := hst q (mem_states.mpr hq)
    rw [usefulStates_eq] at this
    exact (tdReach_iff _ q).mp this
  have htd : ∀ q, Occurs A q → TdReachable A q := fun q hq => tdReachable_of_restrict (hB q hq)
  have hpr : ∀ q, Occurs A q → Productive A q :=
    fun q hq => (prodStates_iff A q).mp (tdReachable_restrict_mem (hB q hq))
  have hkids : ∀ r, r ∈ A.rules → ∀ k, k ∈ r.kids → Productive A k :=
    fun r hr k hk => hpr k (Or.inr ⟨r, hr, Or.inr hk⟩)
  constructor
  · intro q hq
    exact useful_state_of hkids (htd q hq) (hpr q hq)
  · intro r hr
    exact useful_rule_of hkids hr (htd _ (Or.inr ⟨r, hr, Or.inl rfl⟩))

/-! ### non-vacuity: a concrete automaton with an unproductive state (2, hence 3), an unreachable state (4),
and an automaton with empty language although it has rules and a final state -/

/-- `a → 0`, `f(0,0) → 1`, `g(2) → 3`, `b → 4`, `h(1,4) → 5`; final `1`, `3` -/
def TrimEx.exA : TA := ⟨[⟨0, [], 0⟩, ⟨1, [0, 0], 1⟩, ⟨2, [2], 3⟩, ⟨3, [], 4⟩, ⟨4, [1, 4], 5⟩], [1, 3]⟩
/-- `a → 0`, `g(2) → 3`, `g(3) → 2`; final `3` -/
def TrimEx.exEmpty : TA := ⟨[⟨0, [], 0⟩, ⟨2, [2], 3⟩, ⟨2, [3], 2⟩], [3]⟩
/-- the tree `f(a,a)` -/
def TrimEx.exT : Tree := .node 1 [.node 0 [], .node 0 []]

-- 1: both directions are exercised
example : Productive TrimEx.exA 5 := (prodStates_iff TrimEx.exA 5).mp (by decide)
example : ¬ Productive TrimEx.exA 3 := fun h => absurd ((prodStates_iff TrimEx.exA 3).mpr h) (by decide)
example : isProdClosedB TrimEx.exA (prodStates TrimEx.exA) = true := by decide
-- 2
example : TdReachable TrimEx.exA 2 := (tdReach_iff TrimEx.exA 2).mp (by decide)
example : ¬ TdReachable TrimEx.exA 5 := fun h => absurd ((tdReach_iff TrimEx.exA 5).mpr h) (by decide)
example : isTdClosedB TrimEx.exA.rules (tdReach TrimEx.exA) = true := by decide
-- 3, 4: two rules are removed, the language is not empty, the states 0, 1, 2, 3 remain
example : (removeUnreachable TrimEx.exA).rules = [⟨0, [], 0⟩, ⟨1, [0, 0], 1⟩, ⟨2, [2], 3⟩] := by decide
example : accepts (removeUnreachable TrimEx.exA) TrimEx.exT = true := by decide
example : Occurs (removeUnreachable TrimEx.exA) 2 := Or.inr ⟨⟨2, [2], 3⟩, by decide, Or.inr (by decide)⟩
example : TdReachable (removeUnreachable TrimEx.exA) 2 :=
  removeUnreachable_post TrimEx.exA 2 (Or.inr ⟨⟨2, [2], 3⟩, by decide, Or.inr (by decide)⟩)
-- 5, 6: three rules and a final state are removed
example : (removeUseless TrimEx.exA).rules = [⟨0, [], 0⟩, ⟨1, [0, 0], 1⟩] ∧ (removeUseless TrimEx.exA).final = [1] := by decide
example : accepts (removeUseless TrimEx.exA) TrimEx.exT = true := by decide
example : UsefulState (removeUseless TrimEx.exA) 0 :=
  removeUseless_post_state TrimEx.exA 0 (Or.inr ⟨⟨1, [0, 0], 1⟩, by decide, Or.inr (by decide)⟩)
example : UsefulRule (removeUseless TrimEx.exA) ⟨1, [0, 0], 1⟩ := removeUseless_post_rule TrimEx.exA _ (by decide)
-- 7: both outcomes occur
example : isEmptyRef TrimEx.exEmpty = true := by decide
example : ∀ t, accepts TrimEx.exEmpty t = false := (isEmptyRef_iff TrimEx.exEmpty).mp (by decide)
example : isEmptyRef TrimEx.exA = false := by decide
-- 8: the checkers accept the trimmed automata and reject the untrimmed one
example : allReachableB (removeUnreachable TrimEx.exA) = true := by decide
example : allReachableB TrimEx.exA = false := by decide
example : allUsefulB (removeUseless TrimEx.exA) = true := by decide
example : allUsefulB (removeUnreachable TrimEx.exA) = false := by decide
example : UsefulState (removeUseless TrimEx.exA) 1 :=
  (allUsefulB_sound (removeUseless TrimEx.exA) (by decide)).1 1 (Or.inl (by decide))

end Vata
