import Vata.ClearShared
import Vata.Proofs.CowHeapX
/-!
# `Clear()` on a shared container – proofs for `Vata/ClearShared.lean`

* `clearCoded_eq` : the written-out `Clear()` is `stepX _ (.clear h)`;
* `clear_shared_shape` / `clear_unique_shape` : what happens on the heap on the two paths;
* `clear_exact` : value of the cleared handle is `Store.empty`, every other handle keeps its value;
* `stepClearEarly_core`, `stepClearEarly_inv` : the seeded variant does the same pointer work (reference counts stay right);
* `absX_clearEarly_self`, `absX_clearEarly_other`, `clearEarly_eq_iff`, `clearEarly_absX_eq_iff` : it differs from `Clear()`
  exactly on heaps with `sharedWithFinals`;
* `single_object_history` : histories in which only one handle is ever a target cannot tell the variant from `Clear()`.
-/
namespace Vata.ClearShared

open Vata.CowHeap (upd upd_same upd_other)
open Vata.CowHeap3 (Heap allocMap retarget releaseMap releaseCluster clearEntries mout hout Inv)
open Vata.CowHeapX

variable {H : HeapX}

theorem clearCoded_eq (H : HeapX) (h : Nat) : clearCoded H h = stepX H (.clear h) := by
  simp only [clearCoded, stepX, CowHeap3.step, clearUniqueCore, clearSharedCore]
  by_cases hh : h ∈ H.core.hl
  · simp only [if_pos hh]
  · simp only [if_neg hh]

/-! ### the pointer work is the same in the variant -/

theorem stepClearEarly_core (H : HeapX) (h : Nat) : (stepClearEarly H h).core = (stepX H (.clear h)).core := by
  simp only [stepClearEarly, stepX, CowHeap3.step, clearUniqueCore, clearSharedCore]
  by_cases hh : h ∈ H.core.hl
  · simp only [if_pos hh]
    by_cases hu : H.core.mrc (H.core.hmap h) = 1
    · simp only [if_pos hu]
    · simp only [if_neg hu]
  · simp only [if_neg hh]

theorem stepClearEarly_fin (H : HeapX) (h : Nat) :
    (stepClearEarly H h).fin =
      if h ∈ H.core.hl ∧ H.core.mrc (H.core.hmap h) ≠ 1 then H.fin else (stepX H (.clear h)).fin := by
  simp only [stepClearEarly, stepX]
  by_cases hh : h ∈ H.core.hl
  · by_cases hu : H.core.mrc (H.core.hmap h) = 1
    · simp [hh, hu]
    · simp [hh, hu]
  · simp [hh]

/-- the variant keeps the reference-count invariant: nothing is wrong with the `shared_ptr` plumbing, only with the value -/
theorem stepClearEarly_inv (hI : InvX H) (h : Nat) : InvX (stepClearEarly H h) := by
  have := (cowX_refines_values hI (.clear h)).2
  simp only [InvX] at this ⊢
  rw [stepClearEarly_core]; exact this

/-- `Clear()` keeps the set of live handles -/
theorem clear_hl (hI : InvX H) (h : Nat) (x : Nat) : x ∈ (stepX H (.clear h)).core.hl ↔ x ∈ H.core.hl := by
  rw [← absX_isSome, ← absX_isSome, (cowX_refines_values hI (.clear h)).1]
  simp only [specStepX]
  cases e : absX H h with
  | none => simp
  | some s =>
    by_cases hx : x = h
    · subst hx; simp [e]
    · simp [upd_other _ _ hx]

/-! ### use counts under the invariant -/

theorem mrc_pos (hI : InvX H) {h : Nat} (hh : h ∈ H.core.hl) : 0 < H.core.mrc (H.core.hmap h) :=
  hI.hm.pos _ (CowHeap3.hmap_mem hI hh)

/-- `!transitions_.unique()` on a live object of a well-formed heap: the use count is at least 2 -/
theorem shared_iff (hI : InvX H) {h : Nat} (hh : h ∈ H.core.hl) :
    H.core.mrc (H.core.hmap h) ≠ 1 ↔ 1 < H.core.mrc (H.core.hmap h) := by
  have := mrc_pos hI hh
  omega

/-! ### what `Clear()` does on the heap -/

/-- shared path: `h` points to a node that did not exist before and is empty; the old node keeps its entries and loses
    exactly one reference; no other handle is re-pointed -/
theorem clear_shared_shape (hI : InvX H) {h : Nat} (hh : h ∈ H.core.hl) (hs : H.core.mrc (H.core.hmap h) ≠ 1) :
    let H' := stepX H (.clear h)
    H'.core.hmap h = H.core.next ∧ H.core.next ∉ H.core.ml ∧ H'.core.ment H.core.next = [] ∧
    H'.core.ment (H.core.hmap h) = H.core.ment (H.core.hmap h) ∧
    H'.core.mrc (H.core.hmap h) = H.core.mrc (H.core.hmap h) - 1 ∧
    (∀ x, x ≠ h → H'.core.hmap x = H.core.hmap x) ∧ H'.fin h = [] := by
  have hm := CowHeap3.hmap_mem hI hh
  have hfresh : H.core.next ∉ H.core.ml := hI.hm.fresh
  have hne : H.core.hmap h ≠ H.core.next := fun e => hfresh (e ▸ hm)
  have hpos := mrc_pos hI hh
  have hrel : ¬ ((retarget (allocMap H.core []) h H.core.next).mrc (H.core.hmap h) - 1 = 0) := by
    simp only [retarget, allocMap, upd_other _ _ hne]; omega
  simp only [stepX, CowHeap3.step, if_pos hh, if_neg hs, releaseMap, if_neg hrel]
  refine ⟨by simp [retarget], hfresh, by simp [retarget, allocMap], ?_, ?_, ?_, by simp⟩
  · simp [retarget, allocMap, upd_other _ _ hne]
  · simp [retarget, allocMap, upd_other _ _ hne]
  · intro x hx; simp [retarget, allocMap, upd_other _ _ hx]

/-- unique path: `h` keeps its node, which is emptied in place -/
theorem clear_unique_shape {h : Nat} (hh : h ∈ H.core.hl) (hu : H.core.mrc (H.core.hmap h) = 1) :
    let H' := stepX H (.clear h)
    H'.core.hmap = H.core.hmap ∧ H'.core.ment (H.core.hmap h) = [] ∧ H'.fin h = [] := by
  simp only [stepX, CowHeap3.step, if_pos hh, if_pos hu]
  have hs := CowHeap3.releaseClusters_same (mout H.core (H.core.hmap h)) (clearEntries H.core (H.core.hmap h))
  refine ⟨by rw [hs.hmap]; rfl, by rw [hs.ment]; simp [clearEntries], by simp⟩

/-! ### `Clear()` is exact -/

theorem clear_exact (hI : InvX H) {h : Nat} (hh : h ∈ H.core.hl) :
    absX (stepX H (.clear h)) h = some Store.empty ∧ ∀ x, x ≠ h → absX (stepX H (.clear h)) x = absX H x := by
  rw [(cowX_refines_values hI (.clear h)).1]
  simp only [specStepX, absX_of_mem hh]
  exact ⟨by simp [Store.clear, Store.empty], fun x hx => upd_other _ _ hx⟩

theorem clear_dead (hI : InvX H) {h : Nat} (hh : h ∉ H.core.hl) : absX (stepX H (.clear h)) = absX H := by
  rw [(cowX_refines_values hI (.clear h)).1]
  simp only [specStepX, absX_of_not_mem hh]

/-! ### the variant -/

/-- other handles do not see a difference -/
theorem absX_clearEarly_other (H : HeapX) (h : Nat) {x : Nat} (hx : x ≠ h) :
    absX (stepClearEarly H h) x = absX (stepX H (.clear h)) x := by
  have hf : (stepClearEarly H h).fin x = (stepX H (.clear h)).fin x := by
    rw [stepClearEarly_fin]
    split
    · simp only [stepX]; split
      · rw [upd_other _ _ hx]
      · rfl
    · rfl
  simp only [absX, stepClearEarly_core, hf]

/-- the value of the cleared handle under the variant: no rules, and the final states are erased only on the unique path -/
theorem absX_clearEarly_self (hI : InvX H) {h : Nat} (hh : h ∈ H.core.hl) :
    absX (stepClearEarly H h) h =
      some ⟨[], if H.core.mrc (H.core.hmap h) = 1 then [] else H.fin h⟩ := by
  have h1 := (clear_exact hI hh).1
  have hl := (clear_hl hI h h).mpr hh
  rw [absX_of_mem hl] at h1
  have hl' : h ∈ (stepClearEarly H h).core.hl := by rw [stepClearEarly_core]; exact hl
  rw [absX_of_mem hl', stepClearEarly_fin]
  simp only [stepClearEarly_core]
  have hc : CowHeap3.valM (stepX H (.clear h)).core ((stepX H (.clear h)).core.hmap h) = [] := by
    have := congrArg (fun o => o.map (·.clusters)) h1
    simpa [Store.empty] using this
  rw [hc]
  by_cases hu : H.core.mrc (H.core.hmap h) = 1
  · simp [hu, hh, stepX]
  · simp [hu, hh]

/-- where the variant goes wrong: the old final states survive -/
theorem clearEarly_keeps_finals (hI : InvX H) {h : Nat} (hs : sharedWithFinals H h) :
    absX (stepClearEarly H h) h = some ⟨[], H.fin h⟩ ∧ absX (stepClearEarly H h) h ≠ some Store.empty := by
  obtain ⟨hh, hm, hf⟩ := hs
  have hne : H.core.mrc (H.core.hmap h) ≠ 1 := by omega
  rw [absX_clearEarly_self hI hh, if_neg hne]
  refine ⟨rfl, ?_⟩
  intro e
  simp only [Store.empty, Option.some.injEq, Store.Store.mk.injEq, true_and] at e
  exact hf e

/-- outside `sharedWithFinals` the two heaps are EQUAL -/
theorem clearEarly_eq_of_not (hI : InvX H) {h : Nat} (hs : ¬ sharedWithFinals H h) :
    stepClearEarly H h = stepX H (.clear h) := by
  have hc := stepClearEarly_core H h
  have hf : (stepClearEarly H h).fin = (stepX H (.clear h)).fin := by
    rw [stepClearEarly_fin]
    split
    · rename_i hc'
      have hfin : H.fin h = [] := by
        apply Classical.byContradiction
        intro hf
        exact hs ⟨hc'.1, (shared_iff hI hc'.1).mp hc'.2, hf⟩
      simp only [stepX, if_pos hc'.1]
      funext x
      by_cases hx : x = h
      · subst hx; simp [hfin]
      · rw [upd_other _ _ hx]
    · rfl
  cases hA : stepClearEarly H h with
  | mk c f =>
    cases hB : stepX H (.clear h) with
    | mk c' f' =>
      rw [hA, hB] at hc
      rw [hA, hB] at hf
      simp only at hc hf
      rw [hc, hf]

/-- the variant differs from `Clear()` exactly on heaps where the map node of `h` has use count > 1 and `h` has final
    states (equality of heaps) -/
theorem clearEarly_eq_iff (hI : InvX H) (h : Nat) :
    stepClearEarly H h = stepX H (.clear h) ↔ ¬ sharedWithFinals H h := by
  constructor
  · intro e hs
    have h1 := (clearEarly_keeps_finals hI hs).2
    rw [e] at h1
    exact h1 (clear_exact hI hs.1).1
  · exact clearEarly_eq_of_not hI

/-- … and the difference is always observable: equality of the handle values -/
theorem clearEarly_absX_eq_iff (hI : InvX H) (h : Nat) :
    absX (stepClearEarly H h) = absX (stepX H (.clear h)) ↔ ¬ sharedWithFinals H h := by
  constructor
  · intro e hs
    have h1 := (clearEarly_keeps_finals hI hs).2
    rw [e] at h1
    exact h1 (clear_exact hI hs.1).1
  · intro hs; rw [clearEarly_eq_of_not hI hs]

/-! ### histories with the variant -/

theorem invX_stepV (hI : InvX H) (o : OpV) : InvX (stepV H o) := by
  cases o with
  | std op => exact invX_step hI op
  | clearEarly h => exact stepClearEarly_inv hI h

theorem history_invV (ops : List OpV) : InvX (ops.foldl stepV initX) := by
  suffices h : ∀ (H : HeapX), InvX H → InvX (ops.foldl stepV H) from h _ invX_init
  induction ops with
  | nil => intro H hI; exact hI
  | cons o ops ih => intro H hI; exact ih _ (invX_stepV hI o)

/-- only `h` is alive -/
def OnlyLive (H : HeapX) (h : Nat) : Prop := ∀ x, x ∈ H.core.hl → x = h

theorem onlyLive_unique (hI : InvX H) {h : Nat} (ho : OnlyLive H h) (hh : h ∈ H.core.hl) :
    H.core.mrc (H.core.hmap h) = 1 := by
  have hnd : H.core.hl.Nodup := hI.hm.rnd
  have hl : H.core.hl = [h] := by
    cases e : H.core.hl with
    | nil => rw [e] at hh; cases hh
    | cons a l =>
      rw [e] at hnd
      have ha : a = h := ho a (by rw [e]; exact List.mem_cons_self)
      cases l with
      | nil => rw [ha]
      | cons b l =>
        have hb : b = h := ho b (by rw [e]; simp)
        rw [ha, hb] at hnd
        simp at hnd
  have := hI.hm.cnt _ (CowHeap3.hmap_mem hI hh)
  rw [this, hl]
  simp [CowHeap.indeg, hout]

theorem onlyLive_step (hI : InvX H) {h : Nat} (ho : OnlyLive H h) (op : HOpX) (ht : ∀ x, x ∈ targets op → x = h) :
    OnlyLive (stepX H op) h := by
  intro x hx
  apply Classical.byContradiction
  intro hne
  have hnt : x ∉ targets op := fun hm => hne (ht x hm)
  have h1 := stepX_other hI op x hnt
  have h2 : x ∉ H.core.hl := fun hm => hne (ho x hm)
  rw [absX_of_not_mem h2] at h1
  have := absX_isSome.mpr hx
  rw [h1] at this
  cases this

/-- a history in which only the handle `h` is ever a target (a single automaton object: `new`, `AddTransition`,
    `SetStateFinal`, `Clear`, …, destroyed and constructed again) runs the same with the seeded `Clear()` : the container
    is never shared at the moment of a `Clear`, the early return is never taken -/
theorem single_object_history (ops : List OpV) (h : Nat) (ht : ∀ o, o ∈ ops → ∀ x, x ∈ o.targets → x = h) :
    ops.foldl stepV initX = (ops.map OpV.toStd).foldl stepX initX := by
  suffices hs : ∀ (H : HeapX), InvX H → OnlyLive H h → ops.foldl stepV H = (ops.map OpV.toStd).foldl stepX H from
    hs _ invX_init (by intro x hx; cases hx)
  induction ops with
  | nil => intro H _ _; rfl
  | cons o ops ih =>
    intro H hI ho
    have hstep : stepV H o = stepX H o.toStd := by
      cases o with
      | std op => rfl
      | clearEarly h' =>
        have e : h' = h := ht _ List.mem_cons_self h' (by simp [OpV.targets, OpV.toStd, targets])
        subst e
        apply clearEarly_eq_of_not hI
        intro hs
        have := onlyLive_unique hI ho hs.1
        have := hs.2.1
        omega
    rw [List.foldl_cons, List.map_cons, List.foldl_cons, hstep]
    exact ih (fun o' ho' => ht o' (List.mem_cons_of_mem _ ho')) _ (invX_step hI _)
      (onlyLive_step hI ho _ (ht o List.mem_cons_self))

end Vata.ClearShared
