import Vata.CowInterned
import Vata.Proofs.CowHeapX
import Vata.Proofs.StoreInterned
/-!
# Named automata over one tuple cache (`Vata/CowInterned.lean`) – the threaded primitives

1. every threaded primitive acts on the heap exactly like the primitive of `Vata/CowHeap3.lean` (`…_fst`);
2. `Sub c' c` : the acquire / release primitives of the cache create no entry (so a pointer that is live afterwards points
   to the tuple it pointed to before);
3. `CI S E` : the cache is consistent with the `TuplePtr`s in the live tuple-set nodes (every shared node ONCE) plus the
   outside holders `E`; the release cascades keep it (`releaseTsI_ok`, `releaseClusterI_ok`, `releaseMapI_ok`), using the
   pending-reference form `InvP` of the heap invariant to know that a released node is allocated.
-/
namespace Vata.CowI
open Vata.Store (upsert insN insTuple TupleSet)
open Vata.CM (aget aset adel byId mem_aset mem_adel)
open Vata.CowHeap (upd upd_same upd_other)
open Vata.CowHeap3 (Heap allocMap incMap retarget addHandle dropHandle allocCluster setEntry clearEntries allocTs
  setCEntry writeTs releaseTs releaseCluster releaseMap mout cout uniqueMap uniqueCluster addToClusterUnique addUnique
  InvP Inv)
open Vata.StoreI (CacheSt lookupC acquireC releaseC derefC CInv)

/-! ### 1. heap projections -/

theorem foldl_releaseTsI_fst (l : List Nat) (S : HC) : (l.foldl releaseTsI S).1 = l.foldl releaseTs S.1 := by
  induction l generalizing S with
  | nil => rfl
  | cons t l ih => simp only [List.foldl_cons]; rw [ih]; rfl

theorem releaseClusterI_fst (S : HC) (c : Nat) : (releaseClusterI S c).1 = releaseCluster S.1 c := by
  unfold releaseClusterI releaseCluster
  split
  · rw [foldl_releaseTsI_fst]
  · rfl

theorem foldl_releaseClusterI_fst (l : List Nat) (S : HC) :
    (l.foldl releaseClusterI S).1 = l.foldl releaseCluster S.1 := by
  induction l generalizing S with
  | nil => rfl
  | cons t l ih => simp only [List.foldl_cons]; rw [ih, releaseClusterI_fst]

theorem releaseMapI_fst (S : HC) (m : Nat) : (releaseMapI S m).1 = releaseMap S.1 m := by
  unfold releaseMapI releaseMap
  split
  · rw [foldl_releaseClusterI_fst]
  · rfl

theorem uniqueMapI_fst (S : HC) (h : Nat) : (uniqueMapI S h).1 = uniqueMap S.1 h := by
  unfold uniqueMapI uniqueMap
  simp only
  split
  · rfl
  · rw [releaseMapI_fst]

theorem uniqueClusterI_fst (S : HC) (m q : Nat) :
    (uniqueClusterI S m q).1.1 = (uniqueCluster S.1 m q).1 ∧ (uniqueClusterI S m q).2 = (uniqueCluster S.1 m q).2 := by
  unfold uniqueClusterI uniqueCluster
  cases hl : (S.1.ment m).lookup q with
  | none => exact ⟨rfl, rfl⟩
  | some c =>
    simp only
    by_cases hu : S.1.crc c = 1
    · simp only [hu, if_true]; simp
    · simp only [hu, if_false]
      simp [releaseClusterI_fst]

theorem addToClusterUniqueI_fst (md : Mode) (S : HC) (c f p : Nat) :
    (addToClusterUniqueI md S c f p).1 = addToClusterUnique S.1 c f (cell p) := by
  unfold addToClusterUniqueI addToClusterUnique
  cases hl : (S.1.cent c).lookup f with
  | none => rfl
  | some ts =>
    simp only
    by_cases hu : S.1.trc ts = 1
    · simp only [hu, if_true]
    · simp only [hu, if_false]
      rfl

theorem addUniqueI_fst (md : Mode) (S : HC) (h q f p : Nat) :
    (addUniqueI md S h q f p).1 = addUnique S.1 h q (f, cell p) := by
  unfold addUniqueI addUnique
  simp only
  rw [addToClusterUniqueI_fst, (uniqueClusterI_fst S (S.1.hmap h) q).1, (uniqueClusterI_fst S (S.1.hmap h) q).2]

theorem internalAddI_fst (md : Mode) (S : HC) (h q f p : Nat) (hh : h ∈ S.1.hl) :
    (internalAddI md S h q f p).1 = CowHeap3.step S.1 (.add h q (f, cell p)) := by
  unfold internalAddI
  rw [addUniqueI_fst, uniqueMapI_fst]
  simp [CowHeap3.step, hh]

theorem assignI_fst (S : HC) (src dst : Nat) : (assignI S src dst).1 = CowHeap3.step S.1 (.assign src dst) := by
  unfold assignI
  simp only [CowHeap3.step]
  split
  · rw [releaseMapI_fst]
  · rfl

theorem clearI_fst (S : HC) (h : Nat) : (clearI S h).1 = CowHeap3.step S.1 (.clear h) := by
  unfold clearI
  simp only [CowHeap3.step]
  split
  · split
    · rw [foldl_releaseClusterI_fst]
    · rw [releaseMapI_fst]
  · rfl

theorem destroyI_fst (S : HC) (h : Nat) : (destroyI S h).1 = CowHeap3.step S.1 (.destroy h) := by
  unfold destroyI
  simp only [CowHeap3.step]
  split
  · rw [releaseMapI_fst]
  · rfl

/-! ### 2. acquire / release create no cache entry -/

/-- every entry of `c'` is an entry of `c` (up to the use count) -/
def Sub (c' c : CacheSt) : Prop := ∀ v id rc', (v, id, rc') ∈ c' → ∃ rc, (v, id, rc) ∈ c

theorem Sub.refl (c : CacheSt) : Sub c c := fun _ _ rc h => ⟨rc, h⟩
theorem Sub.trans {a b c : CacheSt} (h1 : Sub a b) (h2 : Sub b c) : Sub a c := fun v id rc h => by
  obtain ⟨r1, h3⟩ := h1 v id rc h
  exact h2 v id r1 h3

theorem sub_aset {c : CacheSt} {v : List Nat} {id rc n : Nat} (hm : (v, id, rc) ∈ c) : Sub (aset c v (id, n)) c := by
  intro w i r h
  rw [mem_aset] at h
  rcases h with ⟨h, _⟩ | h
  · exact ⟨r, h⟩
  · simp only [Prod.mk.injEq] at h
    obtain ⟨e1, e2, _⟩ := h
    subst e1; subst e2
    exact ⟨rc, hm⟩

theorem acquireC_sub (c : CacheSt) (p : Nat) : Sub (acquireC c p) c := by
  unfold StoreI.acquireC
  cases hb : byId c p with
  | none => exact Sub.refl c
  | some x =>
    obtain ⟨v, rc⟩ := x
    exact sub_aset (StoreI.byId_mem hb)

theorem releaseC_sub (c : CacheSt) (p : Nat) : Sub (releaseC .lib c p) c := by
  unfold StoreI.releaseC
  cases hb : byId c p with
  | none => exact Sub.refl c
  | some x =>
    obtain ⟨v, rc⟩ := x
    simp only
    split
    · simp only [show (StoreI.Mode.lib = StoreI.Mode.noErase) = False from by simp, if_false]
      intro w i r h
      rw [mem_adel] at h
      exact ⟨r, h.1⟩
    · exact sub_aset (StoreI.byId_mem hb)

theorem foldl_acquireC_sub (l : List Nat) (c : CacheSt) : Sub (l.foldl acquireC c) c := by
  induction l generalizing c with
  | nil => exact Sub.refl c
  | cons p l ih => exact (ih _).trans (acquireC_sub c p)

theorem foldl_releaseC_sub (l : List Nat) (c : CacheSt) : Sub (l.foldl (releaseC .lib) c) c := by
  induction l generalizing c with
  | nil => exact Sub.refl c
  | cons p l ih => exact (ih _).trans (releaseC_sub c p)

/-- a pointer that is live after acquire / release steps points to the tuple it pointed to before -/
theorem deref_of_sub {c c' : CacheSt} {R R' : List Nat} (h : CInv c R) (h' : CInv c' R') (hs : Sub c' c) {p : Nat}
    (hp : p ∈ R') : derefC c' p = derefC c p := by
  obtain ⟨v, rc', hm'⟩ := h'.live p hp
  obtain ⟨rc, hm⟩ := hs v p rc' hm'
  rw [h.derefC_eq hm, h'.derefC_eq hm']

/-! ### 3. the cache is consistent with the live tuple-set nodes -/

/-- use count of an entry = number of cells of live tuple-set nodes holding its address + number of holders in `E` -/
def CI (S : HC) (E : List Nat) : Prop := CInv S.2 (refsT S.1 ++ E)

theorem count_flatMap_erase {l : List Nat} (g : Nat → List Nat) {t : Nat} (ht : t ∈ l) (x : Nat) :
    List.count x (l.flatMap g) = List.count x (g t) + List.count x ((l.erase t).flatMap g) := by
  induction l with
  | nil => cases ht
  | cons a l ih =>
    by_cases e : a = t
    · subst e
      simp [List.flatMap_cons, List.count_append]
    · have ht' : t ∈ l := by
        rcases List.mem_cons.1 ht with h | h
        · exact absurd h.symm e
        · exact h
      have e' : (a == t) = false := by simpa using e
      rw [List.erase_cons, e']
      simp only [List.flatMap_cons, List.count_append, ih ht', Bool.false_eq_true, if_false]
      omega

variable {pm pc pt : List Nat} {E : List Nat}

theorem releaseTsI_ok {S : HC} {t : Nat} (h : InvP S.1 pm pc (t :: pt)) (hc : CI S E) :
    CI (releaseTsI S t) E ∧ Sub (releaseTsI S t).2 S.2 ∧ InvP (releaseTsI S t).1 pm pc pt := by
  refine ⟨?_, ?_, CowHeap3.releaseTs_inv h⟩
  · unfold CI releaseTsI releaseTs
    by_cases h0 : S.1.trc t - 1 = 0
    · simp only [h0, if_true]
      have ht : t ∈ S.1.tl := h.ct.pp t List.mem_cons_self
      have h1 : CInv S.2 (idsOf (S.1.tdat t) ++
          (refsT { S.1 with tl := S.1.tl.erase t, trc := upd S.1.trc t 0 } ++ E)) := by
        apply CInv.congr hc
        intro id
        unfold refsT
        simp only [List.count_append]
        rw [count_flatMap_erase (fun t => idsOf (S.1.tdat t)) ht id]
        omega
      exact (CInv.foldl_releaseC _ h1).1
    · simp only [h0, if_false]
      exact hc
  · unfold releaseTsI
    simp only
    split
    · exact foldl_releaseC_sub _ _
    · exact Sub.refl _

theorem foldl_releaseTsI_ok (l : List Nat) {S : HC} (h : InvP S.1 pm pc (l ++ pt)) (hc : CI S E) :
    CI (l.foldl releaseTsI S) E ∧ Sub (l.foldl releaseTsI S).2 S.2 ∧ InvP (l.foldl releaseTsI S).1 pm pc pt := by
  induction l generalizing S with
  | nil => exact ⟨hc, Sub.refl _, h⟩
  | cons t l ih =>
    obtain ⟨a1, a2, a3⟩ := releaseTsI_ok (S := S) (t := t) (pt := l ++ pt) h hc
    obtain ⟨b1, b2, b3⟩ := ih a3 a1
    exact ⟨b1, b2.trans a2, b3⟩

theorem releaseClusterI_ok {S : HC} {c : Nat} (h : InvP S.1 pm (c :: pc) pt) (hc : CI S E) :
    CI (releaseClusterI S c) E ∧ Sub (releaseClusterI S c).2 S.2 ∧ InvP (releaseClusterI S c).1 pm pc pt := by
  unfold releaseClusterI
  split
  · rename_i h0
    have h1 : InvP ({ S.1 with cl := S.1.cl.erase c, crc := upd S.1.crc c 0 } : Heap) pm pc (cout S.1 c ++ pt) :=
      ⟨h.hm, h.mc.relFree h0, h.ct.dropR (h.mc.pp c List.mem_cons_self)⟩
    exact foldl_releaseTsI_ok (S := (({ S.1 with cl := S.1.cl.erase c, crc := upd S.1.crc c 0 } : Heap), S.2))
      (cout S.1 c) h1 hc
  · rename_i h0
    exact ⟨hc, Sub.refl _, ⟨h.hm, h.mc.relDec h0, h.ct⟩⟩

theorem foldl_releaseClusterI_ok (l : List Nat) {S : HC} (h : InvP S.1 pm (l ++ pc) pt) (hc : CI S E) :
    CI (l.foldl releaseClusterI S) E ∧ Sub (l.foldl releaseClusterI S).2 S.2 ∧
      InvP (l.foldl releaseClusterI S).1 pm pc pt := by
  induction l generalizing S with
  | nil => exact ⟨hc, Sub.refl _, h⟩
  | cons t l ih =>
    obtain ⟨a1, a2, a3⟩ := releaseClusterI_ok (S := S) (c := t) (pc := l ++ pc) h hc
    obtain ⟨b1, b2, b3⟩ := ih a3 a1
    exact ⟨b1, b2.trans a2, b3⟩

theorem releaseMapI_ok {S : HC} {m : Nat} (h : InvP S.1 (m :: pm) pc pt) (hc : CI S E) :
    CI (releaseMapI S m) E ∧ Sub (releaseMapI S m).2 S.2 ∧ InvP (releaseMapI S m).1 pm pc pt := by
  unfold releaseMapI
  split
  · rename_i h0
    have h1 : InvP ({ S.1 with ml := S.1.ml.erase m, mrc := upd S.1.mrc m 0 } : Heap) pm (mout S.1 m ++ pc) pt :=
      ⟨h.hm.relFree h0, h.mc.dropR (h.hm.pp m List.mem_cons_self), h.ct⟩
    exact foldl_releaseClusterI_ok (S := (({ S.1 with ml := S.1.ml.erase m, mrc := upd S.1.mrc m 0 } : Heap), S.2))
      (mout S.1 m) h1 hc
  · rename_i h0
    exact ⟨hc, Sub.refl _, ⟨h.hm.relDec h0, h.mc, h.ct⟩⟩

end Vata.CowI
