import Vata.ComplOrd
import Vata.Proofs.Compl
import Vata.Proofs.ComplTotal
/-!
# Complementation with an arbitrary exploration order: the invariant, the certificate, totality

* `InvO A Sg s`: the invariant of `loopOrdS` – the FIFO invariant `Inv` with "the macro-states with a number below `k`"
  replaced by "the macro-states of the cache that are not in `todo`", plus: every macro-state of the cache is one the
  construction must meet (`MReach`), the rules are duplicate-free, the macro-states are small (for the fuel bound).
* `runOrd_cert`: a finished run passes the certificate check `tdCertB` of the FIFO model, whatever `pick`.
* `complTDOrd_spec`: every answer of `complTDOrdS pick` is the complement.
* `complTDOrd_total`: `2 ^ |states A| + 1` units of fuel suffice, whatever `pick`.
-/
namespace Vata
namespace Compl
open InclUp (normS mem_normS)

/-! ### the macro-states the construction must meet -/

/-- the least set that contains the set of final states and is closed under "the macro-states of a choice function" -/
inductive MReach (A : TA) (Sg : List (Nat × Nat)) : List Nat → Prop
  | init : MReach A Sg (normS A.final)
  | step {P : List Nat} {f n : Nat} {c : List Nat} {i : Nat} : MReach A Sg P → (f, n) ∈ Sg →
      c ∈ choices (tdW A P f n).length n → i < n → MReach A Sg (macroAt (tdW A P f n) c i)

def AllReach (A : TA) (Sg : List (Nat × Nat)) (L : List (List Nat)) : Prop := ∀ P, P ∈ L → MReach A Sg P

/-- what the body of the loop keeps besides `GoodAt` -/
def Side (A : TA) (Sg : List (Nat × Nat)) (st : St) : Prop :=
  AllReach A Sg st.cache ∧ st.rules.Nodup ∧ AllSmall A st.cache

theorem foldl_pres_mem {α σ : Type} (step : σ → α → σ) (I : σ → Prop) :
    ∀ (l : List α) (s : σ), I s → (∀ s x, x ∈ l → I s → I (step s x)) → I (l.foldl step s)
  | [], _, h, _ => h
  | x :: l, s, h, hstep =>
    foldl_pres_mem step I l (step s x) (hstep s x List.mem_cons_self h)
      (fun s y hy => hstep s y (List.mem_cons_of_mem _ hy))

theorem insRule_nodup {r : Rule} {rs : List Rule} (h : rs.Nodup) : (insRule r rs).Nodup := by
  unfold insRule
  split
  · exact h
  · next hx =>
    have hx' : r ∉ rs := fun hm => hx (List.contains_iff_mem.mpr hm)
    rw [List.nodup_append]
    refine ⟨h, by simp, ?_⟩
    intro a ha b hb
    rw [List.mem_singleton.mp hb]
    rintro rfl
    exact hx' ha

theorem procChoice_side {A : TA} {Sg : List (Nat × Nat)} {P : List Nat} {f n k : Nat} {st : St} {c : List Nat}
    (hP : MReach A Sg P) (hfa : (f, n) ∈ Sg) (hc : c ∈ choices (tdW A P f n).length n) (h : Side A Sg st) :
    Side A Sg (procChoice f n (tdW A P f n) k st c) := by
  refine ⟨?_, ?_, procChoice_small h.2.2⟩
  · intro Q hQ
    unfold procChoice at hQ
    rcases addMacros_mem hQ with hQ | hQ
    · exact h.1 Q hQ
    · simp only [macros, List.mem_map, List.mem_range] at hQ
      obtain ⟨i, hi, rfl⟩ := hQ
      exact MReach.step hP hfa hc hi
  · unfold procChoice
    exact insRule_nodup h.2.1

theorem procSym_side {A : TA} {Sg : List (Nat × Nat)} {P : List Nat} {k : Nat} {st : St} {fa : Nat × Nat}
    (hP : MReach A Sg P) (hfa : fa ∈ Sg) (h : Side A Sg st) : Side A Sg (procSym A P k st fa) := by
  refine ⟨?_, ?_, procSym_small h.2.2⟩
  · obtain ⟨f, n⟩ := fa
    unfold procSym
    simp only
    split
    · next hW =>
      split
      · exact h.1
      · next hn =>
        have hW' : tdW A P f n = [] := List.isEmpty_iff.mp hW
        have hn' : 0 < n := by
          apply Nat.pos_of_ne_zero
          intro h0; apply hn; simp [h0]
        intro Q hQ
        rcases addMacro_mem hQ with hQ | hQ
        · exact h.1 Q hQ
        · have hnil : ([] : List Nat) ∈ choices (tdW A P f n).length n := by
            rw [hW']; exact mem_choices.mpr ⟨rfl, fun _ h => nomatch h⟩
          have := MReach.step (i := 0) hP hfa hnil hn'
          rw [hW', macroAt_nil] at this
          rw [hQ]; exact this
    · split
      · exact h.1
      · exact (foldl_pres_mem _ (Side A Sg) _ st h (fun s c hc hs => procChoice_side hP hfa hc hs)).1
  · obtain ⟨f, n⟩ := fa
    unfold procSym
    simp only
    split
    · split
      · exact insRule_nodup h.2.1
      · exact insRule_nodup h.2.1
    · split
      · exact h.2.1
      · exact (foldl_pres_mem _ (Side A Sg) _ st h (fun s c hc hs => procChoice_side hP hfa hc hs)).2.1

theorem symFold_side {A : TA} {Sg : List (Nat × Nat)} {P : List Nat} {k : Nat} {st : St}
    (hP : MReach A Sg P) (h : Side A Sg st) : Side A Sg (Sg.foldl (procSym A P k) st) :=
  foldl_pres_mem _ (Side A Sg) Sg st h (fun _ _ hfa hs => procSym_side hP hfa hs)

/-! ### the loop invariant -/

structure InvO (A : TA) (Sg : List (Nat × Nat)) (s : StO) : Prop where
  good : Good A Sg s.st
  head : s.st.cache[0]? = some (normS A.final)
  todo_sub : ∀ P, P ∈ s.todo → P ∈ s.st.cache
  len : s.todo.length ≤ s.st.cache.length
  done : ∀ P, P ∈ s.st.cache → P ∉ s.todo → ∀ f n c, (f, n) ∈ Sg → c ∈ choices (tdW A P f n).length n →
    Done A s.st P f n c
  side : Side A Sg s.st

theorem InvO.init (A : TA) (Sg : List (Nat × Nat)) : InvO A Sg (initOrd A) where
  good := ⟨by simp [initOrd], fun r h => nomatch h⟩
  head := rfl
  todo_sub := fun P h => h
  len := Nat.le_refl _
  done := fun P h1 h2 => absurd h1 h2
  side := ⟨fun P hP => by
      have : P = normS A.final := by simpa [initOrd] using hP
      rw [this]; exact MReach.init, List.nodup_nil, fun P hP => by
      have : P = normS A.final := by simpa [initOrd] using hP
      rw [this]; exact small_final A⟩

theorem getElem?_idxOf_of_mem {c : List (List Nat)} {P : List Nat} (h : P ∈ c) : c[c.idxOf P]? = some P := by
  have hlt : c.idxOf P < c.length := List.idxOf_lt_length_of_mem h
  rw [List.getElem?_eq_getElem hlt, List.getElem_idxOf hlt]

/-- the facts about one round in which the element with index `i` is taken from `todo` -/
theorem stepAt_facts {i : Nat} {A : TA} {Sg : List (Nat × Nat)} {s : StO} (h : InvO A Sg s)
    (hi : i < s.todo.length) :
    InvO A Sg (stepAt i A Sg s) ∧
      (stepAt i A Sg s).st.cache.length - (stepAt i A Sg s).todo.length =
        s.st.cache.length - s.todo.length + 1 := by
  have hPeq : s.todo.getD i [] = s.todo[i] := by
    rw [List.getD_eq_getElem?_getD, List.getElem?_eq_getElem hi]; rfl
  have hPtodo : s.todo.getD i [] ∈ s.todo := by rw [hPeq]; exact List.getElem_mem hi
  have hPc := h.todo_sub _ hPtodo
  have hk := getElem?_idxOf_of_mem hPc
  obtain ⟨g1, g2, g3⟩ := symFold_spec (A := A) (Sg := Sg) ⟨h.good, hk⟩
  have hside := symFold_side (k := s.st.cache.idxOf (s.todo.getD i [])) (h.side.1 _ hPc) h.side
  obtain ⟨suf, hsuf⟩ := g2.1
  have hdrop : (stepAt i A Sg s).todo = s.todo.eraseIdx i ++ suf := by
    show s.todo.eraseIdx _ ++ List.drop s.st.cache.length (Sg.foldl (procSym A _ _) s.st).cache = _
    rw [← hsuf, List.drop_left]
  have hcache : (stepAt i A Sg s).st.cache = s.st.cache ++ suf := hsuf.symm
  have hst : (stepAt i A Sg s).st =
      Sg.foldl (procSym A (s.todo.getD i [])
        (s.st.cache.idxOf (s.todo.getD i []))) s.st := rfl
  have hlenE : (s.todo.eraseIdx i).length = s.todo.length - 1 := by
    rw [List.length_eraseIdx, if_pos hi]
  constructor
  · refine ⟨by rw [hst]; exact g1.1, by rw [hst]; exact getElem?_prefix h.head g2.1, ?_, ?_, ?_, by rw [hst]; exact hside⟩
    · intro Q hQ
      rw [hdrop] at hQ
      rw [hcache]
      rcases List.mem_append.mp hQ with hQ | hQ
      · exact List.mem_append_left _ (h.todo_sub Q (List.mem_of_mem_eraseIdx hQ))
      · exact List.mem_append_right _ hQ
    · rw [hdrop, hcache, List.length_append, List.length_append, hlenE]
      have := h.len
      omega
    · intro Q hQ hQn f n c hfa hc
      rw [hdrop] at hQn
      rw [hcache] at hQ
      have hQc : Q ∈ s.st.cache := by
        rcases List.mem_append.mp hQ with hQ | hQ
        · exact hQ
        · exact absurd (List.mem_append_right _ hQ) hQn
      rw [hst]
      by_cases hQP : Q = s.todo.getD i []
      · subst hQP; exact g3 (f, n) hfa c hc
      · have hQt : Q ∉ s.todo := by
          intro hQt
          obtain ⟨j, hj, rfl⟩ := List.getElem_of_mem hQt
          apply hQn
          apply List.mem_append_left
          apply List.mem_eraseIdx_iff_getElem.mpr
          refine ⟨j, hj, ?_, rfl⟩
          rintro rfl
          exact hQP hPeq.symm
        exact (h.done Q hQc hQt f n c hfa hc).mono hQc g2
  · rw [hdrop, hcache, List.length_append, List.length_append, hlenE]
    have := h.len
    omega

/-- … in particular for the index chosen by `pick` -/
theorem stepOrd_facts (pick : StO → Nat) {A : TA} {Sg : List (Nat × Nat)} {s : StO} (h : InvO A Sg s)
    (hne : s.todo ≠ []) :
    InvO A Sg (stepOrdS pick A Sg s) ∧
      (stepOrdS pick A Sg s).st.cache.length - (stepOrdS pick A Sg s).todo.length =
        s.st.cache.length - s.todo.length + 1 :=
  stepAt_facts h (Nat.mod_lt _ (List.length_pos_iff.mpr hne))

theorem loopOrd_inv (pick : StO → Nat) {A : TA} {Sg : List (Nat × Nat)} :
    ∀ (fuel : Nat) (s s' : StO), InvO A Sg s → loopOrdS pick A Sg fuel s = some s' → InvO A Sg s' ∧ s'.todo = []
  | 0, _, _, _, h => by simp [loopOrdS] at h
  | fuel+1, s, s', hinv, h => by
    unfold loopOrdS at h
    split at h
    · next he =>
      simp only [Option.some.injEq] at h
      subst h
      exact ⟨hinv, List.isEmpty_iff.mp he⟩
    · next he =>
      have hne : s.todo ≠ [] := fun e => he (List.isEmpty_iff.mpr e)
      exact loopOrd_inv pick fuel _ s' (stepOrd_facts pick hinv hne).1 h

/-- what a finished run satisfies -/
structure Final (A : TA) (Sg : List (Nat × Nat)) (st : St) : Prop where
  nodup : st.cache.Nodup
  head : st.cache[0]? = some (normS A.final)
  mem : ∀ P, P ∈ st.cache ↔ MReach A Sg P
  rules : ∀ r, r ∈ st.rules ↔ r ∈ tdExpected A Sg st.cache
  closed : tdClosedB A Sg st.cache = true
  nodupR : st.rules.Nodup

theorem final_of_inv {A : TA} {Sg : List (Nat × Nat)} {s : StO} (h : InvO A Sg s) (ht : s.todo = []) :
    Final A Sg s.st := by
  have hall : ∀ P f n c, P ∈ s.st.cache → (f, n) ∈ Sg → c ∈ choices (tdW A P f n).length n → Done A s.st P f n c := by
    intro P f n c hP hfa hc
    exact h.done P hP (by rw [ht]; exact List.not_mem_nil) f n c hfa hc
  refine ⟨h.good.1, h.head, ?_, ?_, ?_, h.side.2.1⟩
  · intro P
    constructor
    · exact h.side.1 P
    · intro hP
      induction hP with
      | init => exact mem_of_getElem? h.head
      | step _ hfa hc hi ih => exact (hall _ _ _ _ ih hfa hc).1 _ hi
  · intro r
    constructor
    · intro hr
      obtain ⟨P, f, n, c, hP, hfa, hc, _, rfl⟩ := h.good.2 r hr
      exact mem_tdExpected.mpr ⟨P, f, n, c, hP, hfa, hc, rfl⟩
    · intro hr
      obtain ⟨P, f, n, c, hP, hfa, hc, rfl⟩ := mem_tdExpected.mp hr
      exact (hall P f n c hP hfa hc).2
  · apply tdClosedB_iff.mpr
    intro P f n c hP hfa hc
    exact (hall P f n c hP hfa hc).1

theorem runOrd_final {pick : StO → Nat} {A : TA} {Sg : List (Nat × Nat)} {fuel : Nat} {s : StO}
    (h : runOrdS pick A Sg fuel = some s) : Final A Sg s.st := by
  obtain ⟨h1, h2⟩ := loopOrd_inv pick fuel _ s (InvO.init A Sg) h
  exact final_of_inv h1 h2

/-- EVERY execution of the loop (any element may be taken in any round) keeps the invariant … -/
theorem Runs.inv {A : TA} {Sg : List (Nat × Nat)} {s s' : StO} (h : Runs A Sg s s') (hinv : InvO A Sg s) :
    InvO A Sg s' ∧ s'.todo = [] := by
  induction h with
  | done ht => exact ⟨hinv, ht⟩
  | step hi _ ih => exact ih (stepAt_facts hinv hi).1

/-- … and ends in a canonical state -/
theorem Runs.final {A : TA} {Sg : List (Nat × Nat)} {s : StO} (h : Runs A Sg (initOrd A) s) : Final A Sg s.st := by
  obtain ⟨h1, h2⟩ := h.inv (InvO.init A Sg)
  exact final_of_inv h1 h2

/-- the run with a choice function is one of these executions -/
theorem loopOrd_runs (pick : StO → Nat) {A : TA} {Sg : List (Nat × Nat)} :
    ∀ (fuel : Nat) (s s' : StO), loopOrdS pick A Sg fuel s = some s' → Runs A Sg s s'
  | 0, _, _, h => by simp [loopOrdS] at h
  | fuel+1, s, s', h => by
    unfold loopOrdS at h
    split at h
    · next he =>
      simp only [Option.some.injEq] at h
      subst h
      exact Runs.done (List.isEmpty_iff.mp he)
    · next he =>
      have hne : s.todo ≠ [] := fun e => he (List.isEmpty_iff.mpr e)
      exact Runs.step (Nat.mod_lt _ (List.length_pos_iff.mpr hne)) (loopOrd_runs pick fuel _ s' h)

/-- every execution is the run with some choice function (a schedule by round number), given enough fuel: the number of
processed macro-states `|cache| - |todo|` identifies the round -/
theorem Runs.realised {A : TA} {Sg : List (Nat × Nat)} {s s' : StO} (h : Runs A Sg s s') (hinv : InvO A Sg s) :
    ∃ sched : Nat → Nat, ∃ fuel, loopOrdS (onRound sched) A Sg fuel s = some s' := by
  induction h with
  | @done s ht => exact ⟨fun _ => 0, 1, by simp [loopOrdS, ht]⟩
  | @step s s' i hi _ ih =>
    obtain ⟨h1, h2⟩ := stepAt_facts (A := A) (Sg := Sg) hinv hi
    obtain ⟨sched, fuel, hrun⟩ := ih h1
    let j := s.st.cache.length - s.todo.length
    refine ⟨fun n => if n = j then i else sched n, fuel + 1, ?_⟩
    have hne : s.todo.isEmpty = false := by
      cases ht : s.todo with
      | nil => rw [ht] at hi; simp at hi
      | cons _ _ => rfl
    have hstep : stepOrdS (onRound (fun n => if n = j then i else sched n)) A Sg s = stepAt i A Sg s := by
      unfold stepOrdS onRound
      simp only [j, if_true, Nat.mod_eq_of_lt hi]
    unfold loopOrdS
    rw [hne, hstep]
    simp only [Bool.false_eq_true, if_false]
    -- from the next state on, all round numbers are larger than `j`, so the new schedule agrees with `sched`
    have key : ∀ (fuel : Nat) (t : StO), InvO A Sg t → j < t.st.cache.length - t.todo.length →
        loopOrdS (onRound (fun n => if n = j then i else sched n)) A Sg fuel t = loopOrdS (onRound sched) A Sg fuel t := by
      intro fuel
      induction fuel with
      | zero => intro t _ _; rfl
      | succ fuel ihf =>
        intro t ht hlt
        have hs : stepOrdS (onRound (fun n => if n = j then i else sched n)) A Sg t = stepOrdS (onRound sched) A Sg t := by
          unfold stepOrdS onRound
          have : t.st.cache.length - t.todo.length ≠ j := by omega
          simp only [if_neg this]
        unfold loopOrdS
        split
        · rfl
        · next he =>
          have hne : t.todo ≠ [] := fun e => he (List.isEmpty_iff.mpr e)
          obtain ⟨g1, g2⟩ := stepOrd_facts (onRound sched) ht hne
          rw [hs]
          exact ihf _ g1 (by omega)
    rw [key fuel _ h1 (by omega)]
    exact hrun

/-- a finished run passes the certificate check of the FIFO model, whatever the order -/
theorem runOrd_cert {pick : StO → Nat} {A : TA} {Sg : List (Nat × Nat)} {fuel : Nat} {s : StO}
    (h : runOrdS pick A Sg fuel = some s) : tdCertB A Sg s.st = true := by
  have hf := runOrd_final h
  apply tdCertB_iff.mpr
  exact ⟨by rw [List.head?_eq_getElem?]; exact hf.head, hf.closed, hf.rules⟩

/-- every answer of `complTDOrdS pick` is the complement of `A` over `Sg` -/
theorem complTDOrd_spec {pick : StO → Nat} {A : TA} {Sg : List (Nat × Nat)} {fuel : Nat} {C : TA}
    (h : complTDOrdS pick A Sg fuel = some C) :
    ∀ t, (overSig Sg t = true → accepts C t = !accepts A t) ∧ (overSig Sg t = false → accepts C t = false) := by
  intro t
  unfold complTDOrdS at h
  cases hr : runOrdS pick A Sg fuel with
  | none => rw [hr] at h; cases h
  | some s =>
    rw [hr] at h
    simp only [Option.map_some, Option.some.injEq] at h
    subst h
    rw [removeUseless_lang]
    exact tdCert_spec (runOrd_cert hr) t

/-! ### totality -/

theorem loopOrd_total (pick : StO → Nat) {A : TA} {Sg : List (Nat × Nat)} :
    ∀ (fuel : Nat) (s : StO), InvO A Sg s → 2 ^ (stU A).length < fuel + (s.st.cache.length - s.todo.length) →
      ∃ s', loopOrdS pick A Sg fuel s = some s'
  | 0, s, hinv, hf => by
    have := hinv.side.2.2.length_le hinv.good.1
    omega
  | fuel+1, s, hinv, hf => by
    unfold loopOrdS
    split
    · exact ⟨s, rfl⟩
    · next he =>
      have hne : s.todo ≠ [] := fun e => he (List.isEmpty_iff.mpr e)
      obtain ⟨h1, h2⟩ := stepOrd_facts pick hinv hne
      apply loopOrd_total pick fuel _ h1
      rw [h2]
      omega

theorem runOrd_total (pick : StO → Nat) {A : TA} {Sg : List (Nat × Nat)} {fuel : Nat}
    (h : 2 ^ A.states.length + 1 ≤ fuel) : ∃ s, runOrdS pick A Sg fuel = some s := by
  apply loopOrd_total pick fuel _ (InvO.init A Sg)
  have := pow_stU_le A
  omega

/-- with `2 ^ |states A| + 1` units of fuel `complTDOrdS pick` returns an automaton, whatever `pick` -/
theorem complTDOrd_total (pick : StO → Nat) {A : TA} {Sg : List (Nat × Nat)} {fuel : Nat}
    (h : 2 ^ A.states.length + 1 ≤ fuel) : ∃ C, complTDOrdS pick A Sg fuel = some C := by
  obtain ⟨s, hs⟩ := runOrd_total pick (A := A) (Sg := Sg) h
  unfold complTDOrdS
  rw [hs]
  exact ⟨_, rfl⟩

end Compl
end Vata
