import Vata.BddSim
import Vata.Proofs.SimModel
import Vata.Proofs.BddAbsTD
/-!
# The downward simulation computed on bottom-up BDD automata: theorems (property C07)

Model: `Vata/BddSim.lean` (`bddDownSim A n fuel`, `bddDownSimOrd A n o fuel` with the iteration orders `o` as a parameter), a
step-by-step transcription of `BDDBUTreeAutCore::ComputeDownwardSimulation(size)` at the abstraction "a table maps a
children tuple to the function symbol ↦ set of parents".

Main results (namespace `Vata` for the standard order of a table without ghost keys; `BddSim.bddDownSimOrd_…` for an
arbitrary admissible order `o.Ok A`, which may also contain "ghost" keys – tuples whose MTBDD is empty everywhere):

* `bddDownSim_downSim`, `BddSim.bddDownSimOrd_spec`   (a) the returned relation is a downward simulation on the automaton
                              (`isDownSimB`, i.e. `DownSim A (RelOf R)`): what the pruning of the downward inclusion needs;
                              it relates only states with a top-down entry and contains EVERY downward simulation
                              between such states;
* `BddSim.bddDownSimOrd_greatest`   (b) `(q, r) ∈ R ↔ q ∈ o.Q ∧ r ∈ o.Q ∧ ∃ S, DownSim A S ∧ S q r`;
* `bddDownSim_char`, `BddSim.bddDownSimOrd_char`   (b) `(q, r) ∈ R ↔ q ∈ tdStates A ∧ r ∈ tdStates A ∧ (q, r) ∈ downSimRef A`: the
                              GREATEST downward simulation, restricted to the states that own a top-down entry (final,
                              or a child of some rule);
* `bddDownSim_refl`, `bddDownSim_trans`, `bddDownSim_no_entry`   reflexive exactly on the states with an entry, transitive;
                              a state that is only a parent of rules (not final, never a child) is unrelated to
                              everything, itself included;
* `bddDownSim_eq_downSimRef`  on automata all of whose states are final or children (sanitised ones) it IS `downSimRef`;
* `BddSim.bddDownSimOrd_order_indep`, `…_order_indep_exact`, `bddDownSim_order_indep`, `BddSim.bddDownSimOrd_ghost_indep`
                              the result does not depend on the iteration order of the hash containers, on the order in
                              which the apply meets the symbols, on the sequence of picks from "remove", on the matrix
                              size, on the fuel – nor on ghost keys over states that own an entry anyway;
* `bddDownSim_total`, `bddDownSim_none`, `BddSim.bddDownSimOrd_total`, `…_none`   (c) termination: `fuelBound A = |table|²`
                              iterations suffice (the measure `BddSim.mu`, the number of live pairs of tuples, drops by
                              exactly one per iteration: `BddSim.refine_inv`); `none` iff a state is outside the matrix;
* `BddSim.pending_pos`        the decrement never wraps for a state WITH a top-down entry (the C++ `assert(result[s] > 0)`
                              holds for them); for a state without one the slot is `0` from the start
                              (`BddSim.initCnt_no_entry`), so the first decrement wraps: the assertion fails in a build with
                              assertions exactly when a pair `(t₁, t₂)` is processed and some rule over `t₂` has such a parent;
* `BddSim.tuples_bridge`, `BddSim.tdStates_bridge`, `BddSim.up_bridge`   the three views of the automaton the model uses are
                              what the MTBDD-level models of the tables (C08: `ofRules`, `getTopDownAut`) contain.

The invariant (`BddSim.Inv`): "remove" holds exactly pairs of tuples of the table, of equal length, not componentwise
related, without duplicates; the counter of `(t, a, s)` (for `s` with an entry) is the number of LIVE tuples `t'` with
`a(t') → s` (`live`: of the length of `t` and componentwise related to it, or still waiting in "remove"), plus one for the
slots whose decrement for the pair just taken is pending; `sim(p, s)` with `a(t) → p` implies a non-zero counter of a
non-pending slot; every simulation between states with entries is contained in "sim".
-/
namespace Vata
namespace BddSim

/-! ### duplicate-free lists -/
section Generic
variable {α : Type} [BEq α] [LawfulBEq α]

theorem mem_insG {x y : α} {l : List α} : y ∈ insG x l ↔ y ∈ l ∨ y = x := by
  unfold insG
  split
  · rename_i h
    have hx : x ∈ l := List.contains_iff_mem.mp h
    constructor
    · exact Or.inl
    · rintro (h | rfl)
      · exact h
      · exact hx
  · simp

theorem nodup_insG {x : α} {l : List α} (h : l.Nodup) : (insG x l).Nodup := by
  unfold insG
  split
  · exact h
  · rename_i hc
    have hx : x ∉ l := fun hm => hc (List.contains_iff_mem.mpr hm)
    rw [List.nodup_append]
    refine ⟨h, List.pairwise_singleton _ x, ?_⟩
    intro a ha b hb
    rw [List.mem_singleton] at hb
    subst hb
    intro e; subst e; exact hx ha

theorem mem_unionG {y : α} : ∀ {l₂ l₁ : List α}, y ∈ unionG l₁ l₂ ↔ y ∈ l₁ ∨ y ∈ l₂
  | [], l₁ => by simp [unionG]
  | x :: l₂, l₁ => by
    have ih := mem_unionG (y := y) (l₂ := l₂) (l₁ := insG x l₁)
    simp only [unionG, List.foldl_cons] at ih ⊢
    rw [ih, mem_insG, List.mem_cons]
    constructor
    · rintro ((h | h) | h)
      · exact Or.inl h
      · exact Or.inr (Or.inl h)
      · exact Or.inr (Or.inr h)
    · rintro (h | h | h)
      · exact Or.inl (Or.inl h)
      · exact Or.inl (Or.inr h)
      · exact Or.inr h

theorem nodup_unionG : ∀ (l₂ l₁ : List α), l₁.Nodup → (unionG l₁ l₂).Nodup
  | [], _, h => h
  | x :: l₂, l₁, h => by
    have ih := nodup_unionG l₂ (insG x l₁) (nodup_insG h)
    simpa only [unionG, List.foldl_cons] using ih

end Generic

/-! ### the views of the automaton -/

theorem mem_up {A : TA} {t : Tup} {a p : Nat} : p ∈ up A t a ↔ (⟨a, t, p⟩ : Rule) ∈ A.rules := by
  simp only [up, mem_unionG, List.not_mem_nil, false_or, List.mem_map, List.mem_filter, Bool.and_eq_true, beq_iff_eq]
  constructor
  · rintro ⟨r, ⟨hr, h1, h2⟩, h3⟩
    cases r; simp only at h1 h2 h3; subst h1 h2 h3; exact hr
  · intro h; exact ⟨_, ⟨h, rfl, rfl⟩, rfl⟩

theorem nodup_up (A : TA) (t : Tup) (a : Nat) : (up A t a).Nodup := nodup_unionG _ _ List.nodup_nil

theorem mem_tuplesA {A : TA} {t : Tup} : t ∈ tuples A ↔ t = [] ∨ ∃ r, r ∈ A.rules ∧ r.kids = t := by
  simp only [tuples, mem_unionG, List.mem_singleton, List.mem_map]

theorem mem_tdStates {A : TA} {q : Nat} : q ∈ tdStates A ↔ q ∈ A.final ∨ ∃ r, r ∈ A.rules ∧ q ∈ r.kids := by
  simp only [tdStates, mem_unionG, List.not_mem_nil, false_or, List.mem_append, List.mem_flatMap]

theorem mem_syms {A : TA} {a : Nat} : a ∈ syms A ↔ ∃ r, r ∈ A.rules ∧ r.sym = a := by
  simp only [syms, mem_unionG, List.not_mem_nil, false_or, List.mem_map]

/-- the iteration orders enumerate what the C++ containers hold.  The table may have GHOST keys – tuples whose MTBDD maps
every symbol to ∅ (`RemoveUselessStates` leaves such keys behind) –: only `kidsT` is asked of `o.T`; the states with a
top-down entry are the final states and the components of ALL keys -/
structure Order.Ok (A : TA) (o : Order) : Prop where
  kidsT : ∀ r, r ∈ A.rules → r.kids ∈ o.T
  ndT : o.T.Nodup
  memQ : ∀ q, q ∈ o.Q ↔ q ∈ A.final ∨ ∃ t, t ∈ o.T ∧ q ∈ t
  memSy : ∀ r, r ∈ A.rules → r.sym ∈ o.Sy
  ndSy : o.Sy.Nodup

/-- no ghost keys: the table has the nullary key and the children tuples of the rules only (a table built by
`AddTransition`) -/
def Order.Exact (A : TA) (o : Order) : Prop := ∀ t, t ∈ o.T → t = [] ∨ ∃ r, r ∈ A.rules ∧ r.kids = t

theorem Order.Ok.memQ_exact {A : TA} {o : Order} (ok : o.Ok A) (ex : o.Exact A) (q : Nat) :
    q ∈ o.Q ↔ q ∈ A.final ∨ ∃ r, r ∈ A.rules ∧ q ∈ r.kids := by
  rw [ok.memQ]
  constructor
  · rintro (h | ⟨t, ht, hq⟩)
    · exact Or.inl h
    · rcases ex t ht with h | ⟨r, hr, h⟩
      · subst h; cases hq
      · subst h; exact Or.inr ⟨r, hr, hq⟩
  · rintro (h | ⟨r, hr, hq⟩)
    · exact Or.inl h
    · exact Or.inr ⟨r.kids, ok.kidsT r hr, hq⟩

theorem stdOrder_exact (A : TA) : (stdOrder A).Exact A := fun _ h => mem_tuplesA.mp h

theorem stdOrder_ok (A : TA) : (stdOrder A).Ok A where
  kidsT := fun r hr => mem_tuplesA.mpr (Or.inr ⟨r, hr, rfl⟩)
  ndT := nodup_unionG _ _ (List.pairwise_singleton _ _)
  memQ := fun q => by
    show q ∈ tdStates A ↔ _
    rw [mem_tdStates]
    constructor
    · rintro (h | ⟨r, hr, hq⟩)
      · exact Or.inl h
      · exact Or.inr ⟨r.kids, mem_tuplesA.mpr (Or.inr ⟨r, hr, rfl⟩), hq⟩
    · rintro (h | ⟨t, ht, hq⟩)
      · exact Or.inl h
      · rcases mem_tuplesA.mp ht with h | ⟨r, hr, h⟩
        · subst h; cases hq
        · subst h; exact Or.inr ⟨r, hr, hq⟩
  memSy := fun r hr => mem_syms.mpr ⟨r, hr, rfl⟩
  ndSy := nodup_unionG _ _ List.nodup_nil

theorem Order.Ok.kids_mem {A : TA} {o : Order} (ok : o.Ok A) {r : Rule} (hr : r ∈ A.rules) : r.kids ∈ o.T :=
  ok.kidsT r hr

theorem Order.Ok.comp_mem {A : TA} {o : Order} (ok : o.Ok A) {t : Tup} (ht : t ∈ o.T) {q : Nat} (hq : q ∈ t) : q ∈ o.Q :=
  (ok.memQ q).mpr (Or.inr ⟨t, ht, hq⟩)

/-! ### `matchAt`, `matching`, `kidsRel` -/

theorem matchAt_mem : ∀ {t t' : Tup} {p s : Nat}, matchAt t t' p s = true → p ∈ t ∧ s ∈ t'
  | [], _, _, _, h => by simp [matchAt] at h
  | _ :: _, [], _, _, h => by simp [matchAt] at h
  | x :: xs, y :: ys, p, s, h => by
    simp only [matchAt, Bool.or_eq_true, Bool.and_eq_true, beq_iff_eq] at h
    rcases h with ⟨h1, h2⟩ | h
    · subst h1 h2; exact ⟨List.mem_cons_self, List.mem_cons_self⟩
    · have := matchAt_mem h
      exact ⟨List.mem_cons_of_mem _ this.1, List.mem_cons_of_mem _ this.2⟩

theorem mem_matching {T : List Tup} {p s : Nat} {e : RemEl} :
    e ∈ matching T p s ↔ e.1 ∈ T ∧ e.2 ∈ T ∧ e.2.length = e.1.length ∧ matchAt e.1 e.2 p s = true := by
  obtain ⟨t, t'⟩ := e
  simp only [matching, List.mem_flatMap, List.mem_filter, List.mem_map, Bool.and_eq_true, beq_iff_eq, Prod.mk.injEq,
    List.contains_iff_mem]
  constructor
  · rintro ⟨t₁, ⟨h1, _⟩, t₂, ⟨h3, h4, h5⟩, rfl, rfl⟩
    exact ⟨h1, h3, h4, h5⟩
  · rintro ⟨h1, h3, h4, h5⟩
    exact ⟨t, ⟨h1, (matchAt_mem h5).1⟩, t', ⟨h3, h4, h5⟩, rfl, rfl⟩

/-- clearing the bit `(p, s)` breaks exactly the pairs of tuples that match `(p, s)` -/
theorem kidsRel_filter (R : Rel) (p s : Nat) : ∀ t t' : Tup,
    kidsRel (R.filter (fun x => !(x == (p, s)))) t t' = (kidsRel R t t' && !matchAt t t' p s)
  | [], [] => by simp [kidsRel, matchAt]
  | [], _ :: _ => by simp [kidsRel]
  | _ :: _, [] => by simp [kidsRel]
  | x :: xs, y :: ys => by
    simp only [kidsRel, matchAt, kidsRel_filter R p s xs ys]
    rw [Bool.eq_iff_iff]
    simp only [Bool.and_eq_true, List.contains_iff_mem, List.mem_filter, Bool.or_eq_false_iff,
      Bool.and_eq_false_iff, beq_eq_false_iff_ne, ne_eq, Prod.mk.injEq, not_and, Bool.not_eq_eq_eq_not, Bool.not_true]
    constructor
    · rintro ⟨⟨h1, h2⟩, h3, h4⟩
      refine ⟨⟨h1, h3⟩, ?_, h4⟩
      by_cases hx : x = p
      · exact Or.inr (h2 hx)
      · exact Or.inl hx
    · rintro ⟨⟨h1, h3⟩, h2, h4⟩
      refine ⟨⟨h1, ?_⟩, h3, h4⟩
      intro hx
      rcases h2 with h2 | h2
      · exact absurd hx h2
      · exact h2

/-- a pair of tuples of equal length that is not componentwise related has a position with an unrelated pair -/
theorem exists_matchAt_of_not_kidsRel (R : Rel) : ∀ t t' : Tup, t'.length = t.length → kidsRel R t t' = false →
    ∃ p s, matchAt t t' p s = true ∧ (p, s) ∉ R
  | [], [], _, h => by simp [kidsRel] at h
  | [], _ :: _, hl, _ => by simp at hl
  | _ :: _, [], hl, _ => by simp at hl
  | x :: xs, y :: ys, hl, h => by
    simp only [kidsRel, Bool.and_eq_false_iff] at h
    rcases h with h | h
    · refine ⟨x, y, by simp [matchAt], ?_⟩
      intro hm
      rw [List.contains_iff_mem.mpr hm] at h
      cases h
    · obtain ⟨p, s, h1, h2⟩ := exists_matchAt_of_not_kidsRel R xs ys (by simpa using hl) h
      exact ⟨p, s, by simp [matchAt, h1], h2⟩

theorem not_kidsRel_of_matchAt (R : Rel) {p s : Nat} (hps : (p, s) ∉ R) : ∀ t t' : Tup, matchAt t t' p s = true →
    kidsRel R t t' = false
  | [], _, h => by simp [matchAt] at h
  | _ :: _, [], h => by simp [matchAt] at h
  | x :: xs, y :: ys, h => by
    simp only [matchAt, Bool.or_eq_true, Bool.and_eq_true, beq_iff_eq] at h
    simp only [kidsRel, Bool.and_eq_false_iff]
    rcases h with ⟨h1, h2⟩ | h
    · subst h1 h2
      left
      cases hc : R.contains (x, y)
      · rfl
      · exact absurd (List.contains_iff_mem.mp hc) hps
    · exact Or.inr (not_kidsRel_of_matchAt R hps xs ys h)

theorem kidsRel_mono {R R' : Rel} (h : ∀ x, x ∈ R' → x ∈ R) : ∀ t t' : Tup, kidsRel R' t t' = true → kidsRel R t t' = true
  | [], [], _ => rfl
  | [], _ :: _, h' => by simp [kidsRel] at h'
  | _ :: _, [], h' => by simp [kidsRel] at h'
  | x :: xs, y :: ys, h' => by
    simp only [kidsRel, Bool.and_eq_true, List.contains_iff_mem] at h' ⊢
    exact ⟨h _ h'.1, kidsRel_mono h xs ys h'.2⟩

theorem kidsRel_length {R : Rel} : ∀ {t t' : Tup}, kidsRel R t t' = true → t'.length = t.length
  | [], [], _ => rfl
  | [], _ :: _, h' => by simp [kidsRel] at h'
  | _ :: _, [], h' => by simp [kidsRel] at h'
  | x :: xs, y :: ys, h' => by
    simp only [kidsRel, Bool.and_eq_true] at h'
    simp [kidsRel_length h'.2]


/-! ### the live pairs and the `cut` -/

/-- `t'` still counts for `t`: componentwise related, or waiting in "remove" -/
def live (sim : Rel) (rem : List RemEl) (t t' : Tup) : Bool :=
  t'.length == t.length && (kidsRel sim t t' || rem.contains (t, t'))

/-- what the counter of `(t, a, s)` must be -/
def cntOf (A : TA) (T : List Tup) (sim : Rel) (rem : List RemEl) (t : Tup) (a s : Nat) : Nat :=
  (T.filter (fun t' => live sim rem t t' && (up A t' a).contains s)).length

/-- the invariant of "remove" -/
structure RemInv (T : List Tup) (sim : Rel) (rem : List RemEl) : Prop where
  ok : ∀ e, e ∈ rem → e.1 ∈ T ∧ e.2 ∈ T ∧ e.2.length = e.1.length ∧ kidsRel sim e.1 e.2 = false
  nd : rem.Nodup

theorem cut_spec {T : List Tup} {s : Nat} {sim : Rel} {rem : List RemEl} (p : Nat) (hI : RemInv T sim rem) :
    (∀ x, x ∈ (cut T s (sim, rem) p).1 ↔ x ∈ sim ∧ x ≠ (p, s)) ∧
    RemInv T (cut T s (sim, rem) p).1 (cut T s (sim, rem) p).2 ∧
    (∀ t t', t ∈ T → t' ∈ T → live (cut T s (sim, rem) p).1 (cut T s (sim, rem) p).2 t t' = live sim rem t t') := by
  unfold cut
  by_cases hc : sim.contains (p, s) = true
  · simp only [hc, if_true]
    have hmem : ∀ x, x ∈ sim.filter (fun x => !(x == (p, s))) ↔ x ∈ sim ∧ x ≠ (p, s) := by
      intro x; simp [List.mem_filter]
    refine ⟨hmem, ⟨?_, nodup_unionG _ _ hI.nd⟩, ?_⟩
    · intro e he
      rw [mem_unionG] at he
      rcases he with he | he
      · obtain ⟨h1, h2, h3, h4⟩ := hI.ok e he
        refine ⟨h1, h2, h3, ?_⟩
        rw [kidsRel_filter, h4]; rfl
      · rw [List.mem_filter, mem_matching] at he
        obtain ⟨⟨h1, h2, h3, h4⟩, _⟩ := he
        refine ⟨h1, h2, h3, ?_⟩
        rw [kidsRel_filter, h4]; simp
    · intro t t' ht ht'
      unfold live
      by_cases hl : t'.length = t.length
      · simp only [hl, beq_self_eq_true, Bool.true_and]
        rw [Bool.eq_iff_iff]
        simp only [Bool.or_eq_true, List.contains_iff_mem, mem_unionG, List.mem_filter, mem_matching, kidsRel_filter,
          Bool.and_eq_true, Bool.not_eq_true']
        constructor
        · rintro (⟨h, _⟩ | h | ⟨_, h⟩)
          · exact Or.inl h
          · exact Or.inr h
          · exact Or.inl h
        · rintro (h | h)
          · by_cases hm : matchAt t t' p s = true
            · exact Or.inr (Or.inr ⟨⟨ht, ht', hl, hm⟩, h⟩)
            · exact Or.inl ⟨h, by simpa using hm⟩
          · exact Or.inr (Or.inl h)
      · have : (t'.length == t.length) = false := by simpa using hl
        simp [this]
  · simp only [hc]
    refine ⟨?_, hI, fun _ _ _ _ => rfl⟩
    intro x
    constructor
    · intro hx
      refine ⟨hx, ?_⟩
      intro e; subst e
      exact hc (List.contains_iff_mem.mpr hx)
    · exact fun h => h.1

theorem cuts_spec {T : List Tup} {s : Nat} : ∀ (ps : List Nat) {sim : Rel} {rem : List RemEl}, RemInv T sim rem →
    (∀ x, x ∈ (ps.foldl (cut T s) (sim, rem)).1 ↔ x ∈ sim ∧ ∀ p, p ∈ ps → x ≠ (p, s)) ∧
    RemInv T (ps.foldl (cut T s) (sim, rem)).1 (ps.foldl (cut T s) (sim, rem)).2 ∧
    (∀ t t', t ∈ T → t' ∈ T →
      live (ps.foldl (cut T s) (sim, rem)).1 (ps.foldl (cut T s) (sim, rem)).2 t t' = live sim rem t t')
  | [], sim, rem, hI => ⟨fun x => by simp, hI, fun _ _ _ _ => rfl⟩
  | p :: ps, sim, rem, hI => by
    obtain ⟨h1, h2, h3⟩ := cut_spec (s := s) p hI
    obtain ⟨k1, k2, k3⟩ := cuts_spec ps h2
    simp only [List.foldl_cons]
    refine ⟨?_, k2, ?_⟩
    · intro x
      rw [k1, h1]
      constructor
      · rintro ⟨⟨a, b⟩, c⟩
        refine ⟨a, ?_⟩
        intro q hq
        rcases List.mem_cons.mp hq with rfl | hq
        · exact b
        · exact c q hq
      · rintro ⟨a, c⟩
        exact ⟨⟨a, c p List.mem_cons_self⟩, fun q hq => c q (List.mem_cons_of_mem _ hq)⟩
    · intro t t' ht ht'
      rw [k3 t t' ht ht', h3 t t' ht ht']


/-! ### the invariant of the refinement -/

theorem getCnt_cons (A : TA) (o : Order) (c : List (Key × Nat)) (k k' : Key) (v : Nat) :
    getCnt A o ((k, v) :: c) k' = if k' = k then v else getCnt A o c k' := by
  unfold getCnt
  rw [List.lookup_cons]
  by_cases h : k' = k
  · simp [h]
  · have : (k' == k) = false := by simpa using h
    simp [h, this]

theorem wrapDec_succ (x : Nat) : wrapDec (x + 1) = x := by simp [wrapDec]

theorem cntOf_congr {A : TA} {T : List Tup} {sim sim' : Rel} {rem rem' : List RemEl} {t : Tup}
    (h : ∀ t', t' ∈ T → live sim' rem' t t' = live sim rem t t') (a s : Nat) :
    cntOf A T sim' rem' t a s = cntOf A T sim rem t a s := by
  unfold cntOf
  congr 1
  apply List.filter_congr
  intro t' ht'
  rw [h t' ht']

/-- `pend`: the slots `(t₁, a, s)` whose decrement for the pair just taken out of "remove" is still due -/
structure Inv (A : TA) (o : Order) (S : Nat → Nat → Prop) (t₁ : Tup) (pend : List (Nat × Nat)) (st : St) : Prop where
  simQ : ∀ q r, (q, r) ∈ st.sim → q ∈ o.Q ∧ r ∈ o.Q
  rem : RemInv o.T st.sim st.rem
  cntOk : ∀ t, t ∈ o.T → ∀ a s, s ∈ o.Q →
    getCnt A o st.cnt (t, a, s) = cntOf A o.T st.sim st.rem t a s + (if t = t₁ ∧ (a, s) ∈ pend then 1 else 0)
  pos : ∀ t, t ∈ o.T → ∀ a p s, p ∈ up A t a → (p, s) ∈ st.sim → ¬(t = t₁ ∧ (a, s) ∈ pend) →
    getCnt A o st.cnt (t, a, s) ≠ 0
  compl : ∀ q r, S q r → (q, r) ∈ st.sim

theorem inv_step {A : TA} {o : Order} {S : Nat → Nat → Prop} {t₁ : Tup} {a s : Nat} {pend : List (Nat × Nat)}
    (hnp : (a, s) ∉ pend) {st : St} (hI : Inv A o S t₁ ((a, s) :: pend) st) {sim' : Rel} {rem' : List RemEl}
    (hsub : ∀ x, x ∈ sim' → x ∈ st.sim)
    (hlive : ∀ t t', t ∈ o.T → t' ∈ o.T → live sim' rem' t t' = live st.sim st.rem t t')
    (hrem : RemInv o.T sim' rem')
    (hdead : wrapDec (getCnt A o st.cnt (t₁, a, s)) = 0 → ∀ p, p ∈ up A t₁ a → (p, s) ∉ sim')
    (hcompl : ∀ q r, S q r → (q, r) ∈ sim') :
    Inv A o S t₁ pend ⟨sim', ((t₁, a, s), wrapDec (getCnt A o st.cnt (t₁, a, s))) :: st.cnt, rem'⟩ := by
  have hkey : ∀ (t : Tup) (a' s' : Nat), ((t, a', s') : Key) = (t₁, a, s) ↔ t = t₁ ∧ a' = a ∧ s' = s := by
    intro t a' s'; simp [Prod.ext_iff]
  refine ⟨fun q r h => hI.simQ q r (hsub _ h), hrem, ?_, ?_, hcompl⟩
  · intro t ht a' s' hs'
    simp only [getCnt_cons]
    rw [cntOf_congr (fun t' ht' => hlive t t' ht ht')]
    by_cases hk : ((t, a', s') : Key) = (t₁, a, s)
    · obtain ⟨e1, e2, e3⟩ := (hkey t a' s').mp hk
      subst e1 e2 e3
      rw [if_pos rfl, hI.cntOk t ht a' s' hs', if_pos ⟨rfl, List.mem_cons_self⟩, wrapDec_succ]
      rw [if_neg (fun h => hnp h.2)]
      rfl
    · rw [if_neg hk, hI.cntOk t ht a' s' hs']
      congr 1
      have : (t = t₁ ∧ (a', s') ∈ (a, s) :: pend) ↔ (t = t₁ ∧ (a', s') ∈ pend) := by
        constructor
        · rintro ⟨h1, h2⟩
          refine ⟨h1, ?_⟩
          rcases List.mem_cons.mp h2 with h2 | h2
          · exfalso; apply hk; rw [hkey]
            have := Prod.ext_iff.mp h2
            exact ⟨h1, this.1, this.2⟩
          · exact h2
        · rintro ⟨h1, h2⟩; exact ⟨h1, List.mem_cons_of_mem _ h2⟩
      simp only [this]
  · intro t ht a' p s' hp hps hnpend
    simp only [getCnt_cons]
    by_cases hk : ((t, a', s') : Key) = (t₁, a, s)
    · obtain ⟨e1, e2, e3⟩ := (hkey t a' s').mp hk
      subst e1 e2 e3
      rw [if_pos rfl]
      intro h0
      exact hdead h0 p hp hps
    · rw [if_neg hk]
      apply hI.pos t ht a' p s' hp (hsub _ hps)
      rintro ⟨h1, h2⟩
      rcases List.mem_cons.mp h2 with h2 | h2
      · apply hk; rw [hkey]
        have := Prod.ext_iff.mp h2
        exact ⟨h1, this.1, this.2⟩
      · exact hnpend ⟨h1, h2⟩


theorem cntOf_pos {A : TA} {T : List Tup} {sim : Rel} {rem : List RemEl} {t t' : Tup} {a s : Nat} (ht' : t' ∈ T)
    (hl : live sim rem t t' = true) (hs : s ∈ up A t' a) : cntOf A T sim rem t a s ≠ 0 := by
  unfold cntOf
  intro h0
  have hm : t' ∈ T.filter (fun t' => live sim rem t t' && (up A t' a).contains s) := by
    rw [List.mem_filter]; exact ⟨ht', by simp [hl, hs]⟩
  rw [List.length_eq_zero_iff] at h0
  rw [h0] at hm
  cases hm

theorem kidsRel_of_all2 {R : Rel} {S : Nat → Nat → Prop} (h : ∀ q r, S q r → (q, r) ∈ R) {t t' : Tup}
    (hA : All2 S t t') : kidsRel R t t' = true :=
  (SimModel.kidsRel_iff R t t').mpr (SimModel.all2_mono (fun a b hab => h a b hab) hA)

/-- one leaf step of `RefineApplyFctor` -/
theorem procS_inv {A : TA} {o : Order} (ok : o.Ok A) {S : Nat → Nat → Prop} (hS : DownSim A S)
    (hSQ : ∀ q r, S q r → q ∈ o.Q ∧ r ∈ o.Q) {t₁ : Tup} (ht₁ : t₁ ∈ o.T) {a s : Nat} {pend : List (Nat × Nat)}
    (hnp : (a, s) ∉ pend) {st : St} (hI : Inv A o S t₁ ((a, s) :: pend) st) :
    Inv A o S t₁ pend (procS A o t₁ st (a, s)) ∧
    (∀ t t', t ∈ o.T → t' ∈ o.T →
      live (procS A o t₁ st (a, s)).sim (procS A o t₁ st (a, s)).rem t t' = live st.sim st.rem t t') := by
  unfold procS
  simp only
  by_cases hc : wrapDec (getCnt A o st.cnt (t₁, a, s)) = 0
  · simp only [hc, if_true]
    obtain ⟨k1, k2, k3⟩ := cuts_spec (T := o.T) (s := s) (up A t₁ a) hI.rem
    refine ⟨?_, k3⟩
    have := inv_step hnp hI (sim' := ((up A t₁ a).foldl (cut o.T s) (st.sim, st.rem)).1)
      (rem' := ((up A t₁ a).foldl (cut o.T s) (st.sim, st.rem)).2)
      (fun x hx => ((k1 x).mp hx).1) k3 k2
      (fun _ p hp hps => ((k1 _).mp hps).2 p hp rfl) ?_
    · rw [hc] at this; exact this
    · intro q r hqr
      rw [k1]
      refine ⟨hI.compl q r hqr, ?_⟩
      intro p hp e
      have e' := Prod.ext_iff.mp e
      simp only at e'
      obtain ⟨e1, e2⟩ := e'
      subst e1 e2
      -- `S q r` with `q ∈ up t₁ a`: `r` has a rule over a live tuple, so the counter cannot have reached 0
      obtain ⟨σ, hσ, hσp, hσs, hall⟩ := hS q r hqr ⟨a, t₁, q⟩ (mem_up.mp hp) rfl
      have hrQ := (hSQ q r hqr).2
      have hcnt := hI.cntOk t₁ ht₁ a r hrQ
      rw [if_pos ⟨rfl, List.mem_cons_self⟩] at hcnt
      rw [hcnt, wrapDec_succ] at hc
      have hk := kidsRel_of_all2 hI.compl hall
      have hlive : live st.sim st.rem t₁ σ.kids = true := by
        unfold live
        simp only at hk
        rw [hk]
        simp [kidsRel_length hk]
      refine cntOf_pos (ok.kids_mem hσ) hlive ?_ hc
      rw [mem_up]
      cases σ
      simp only at hσp hσs
      subst hσp hσs
      exact hσ
  · simp only [hc, if_false]
    refine ⟨?_, by intros; trivial⟩
    exact inv_step hnp hI (fun x hx => hx) (fun _ _ _ _ => rfl) hI.rem (fun h => absurd h hc) hI.compl


theorem inv_nil_irrel {A : TA} {o : Order} {S : Nat → Nat → Prop} {t t' : Tup} {st : St} (h : Inv A o S t [] st) :
    Inv A o S t' [] st :=
  ⟨h.simQ, h.rem, fun u hu a s hs => by simpa using h.cntOk u hu a s hs,
    fun u hu a p s hp hps _ => h.pos u hu a p s hp hps (by simp), h.compl⟩

theorem foldl_procS_inv {A : TA} {o : Order} (ok : o.Ok A) {S : Nat → Nat → Prop} (hS : DownSim A S)
    (hSQ : ∀ q r, S q r → q ∈ o.Q ∧ r ∈ o.Q) {t₁ : Tup} (ht₁ : t₁ ∈ o.T) :
    ∀ (pend : List (Nat × Nat)), pend.Nodup → ∀ st : St, Inv A o S t₁ pend st →
      Inv A o S t₁ [] (pend.foldl (procS A o t₁) st) ∧
      (∀ t t', t ∈ o.T → t' ∈ o.T →
        live (pend.foldl (procS A o t₁) st).sim (pend.foldl (procS A o t₁) st).rem t t' = live st.sim st.rem t t')
  | [], _, st, hI => ⟨hI, fun _ _ _ _ => rfl⟩
  | (a, s) :: pend, hnd, st, hI => by
    rw [List.nodup_cons] at hnd
    obtain ⟨h1, h2⟩ := procS_inv ok hS hSQ ht₁ hnd.1 hI
    obtain ⟨k1, k2⟩ := foldl_procS_inv ok hS hSQ ht₁ pend hnd.2 _ h1
    simp only [List.foldl_cons]
    exact ⟨k1, fun t t' ht ht' => by rw [k2 t t' ht ht', h2 t t' ht ht']⟩

/-! ### the leaf calls of one refinement -/

theorem mem_ops {A : TA} {o : Order} {t₂ : Tup} {a s : Nat} : (a, s) ∈ ops A o t₂ ↔ a ∈ o.Sy ∧ s ∈ up A t₂ a := by
  simp only [ops, List.mem_flatMap, List.mem_map, Prod.mk.injEq]
  constructor
  · rintro ⟨a', ha', s', hs', rfl, rfl⟩; exact ⟨ha', hs'⟩
  · rintro ⟨h1, h2⟩; exact ⟨a, h1, s, h2, rfl, rfl⟩

theorem nodup_map_pair (a : Nat) : ∀ (l : List Nat), l.Nodup → (l.map (fun s => (a, s))).Nodup
  | [], _ => List.nodup_nil
  | x :: l, h => by
    rw [List.nodup_cons] at h
    rw [List.map_cons, List.nodup_cons]
    refine ⟨?_, nodup_map_pair a l h.2⟩
    simp only [List.mem_map, Prod.mk.injEq, true_and, exists_eq_right]
    exact h.1

theorem nodup_ops_aux (A : TA) (t₂ : Tup) : ∀ (Sy : List Nat), Sy.Nodup →
    (Sy.flatMap (fun a => (up A t₂ a).map (fun s => (a, s)))).Nodup
  | [], _ => List.nodup_nil
  | a :: Sy, h => by
    rw [List.nodup_cons] at h
    rw [List.flatMap_cons, List.nodup_append]
    refine ⟨nodup_map_pair a _ (nodup_up A t₂ a), nodup_ops_aux A t₂ Sy h.2, ?_⟩
    intro x hx y hy e
    subst e
    simp only [List.mem_map] at hx
    obtain ⟨s, _, rfl⟩ := hx
    simp only [List.mem_flatMap, List.mem_map, Prod.mk.injEq] at hy
    obtain ⟨a', ha', _, _, rfl, _⟩ := hy
    exact h.1 ha'

theorem nodup_ops {A : TA} {o : Order} (ok : o.Ok A) (t₂ : Tup) : (ops A o t₂).Nodup := nodup_ops_aux A t₂ o.Sy ok.ndSy

/-! ### taking a pair out of "remove" -/

section Counting
variable {α : Type} [BEq α] [LawfulBEq α]

theorem length_filter_remove (P : α → Bool) (x : α) : ∀ (l : List α), l.Nodup → x ∈ l →
    (l.filter (fun y => P y && !(y == x))).length + (if P x = true then 1 else 0) = (l.filter P).length
  | [], _, h => by cases h
  | y :: l, hnd, hx => by
    rw [List.nodup_cons] at hnd
    by_cases hyx : y = x
    · subst hyx
      have hcongr : l.filter (fun z => P z && !(z == y)) = l.filter P := by
        apply List.filter_congr
        intro z hz
        have : z ≠ y := fun e => hnd.1 (e ▸ hz)
        have : (z == y) = false := by simpa using this
        simp [this]
      rw [List.filter_cons, List.filter_cons]
      simp only [beq_self_eq_true, Bool.not_true, Bool.and_false, Bool.false_eq_true, if_false, hcongr]
      by_cases hp : P y = true
      · simp [hp]
      · simp [hp]
    · have hx' : x ∈ l := by
        rcases List.mem_cons.mp hx with h | h
        · exact absurd h.symm hyx
        · exact h
      have ih := length_filter_remove P x l hnd.2 hx'
      have hb : (y == x) = false := by simpa using hyx
      rw [List.filter_cons, List.filter_cons]
      simp only [hb, Bool.not_false, Bool.and_true]
      by_cases hp : P y = true
      · simp only [hp, if_true, List.length_cons]; omega
      · simp only [hp]; exact ih

end Counting

theorem sum_map_succ {α : Type} [DecidableEq α] (f f' : α → Nat) (x : α) : ∀ (l : List α), l.Nodup → x ∈ l →
    (∀ y, y ∈ l → f' y + (if y = x then 1 else 0) = f y) → (l.map f').sum + 1 = (l.map f).sum
  | [], _, h, _ => by cases h
  | y :: l, hnd, hx, hf => by
    rw [List.nodup_cons] at hnd
    simp only [List.map_cons, List.sum_cons]
    by_cases hyx : y = x
    · subst hyx
      have h1 := hf y List.mem_cons_self
      simp only [if_true] at h1
      have h2 : l.map f' = l.map f := by
        apply List.map_congr_left
        intro z hz
        have := hf z (List.mem_cons_of_mem _ hz)
        have hne : z ≠ y := fun e => hnd.1 (e ▸ hz)
        simpa [hne] using this
      rw [h2]; omega
    · have hx' : x ∈ l := by
        rcases List.mem_cons.mp hx with h | h
        · exact absurd h.symm hyx
        · exact h
      have ih := sum_map_succ f f' x l hnd.2 hx' (fun z hz => hf z (List.mem_cons_of_mem _ hz))
      have h1 := hf y List.mem_cons_self
      simp only [hyx, if_false, Nat.add_zero] at h1
      omega

theorem sum_map_le {α : Type} (f : α → Nat) (B : Nat) : ∀ (l : List α), (∀ y, y ∈ l → f y ≤ B) → (l.map f).sum ≤ l.length * B
  | [], _ => by simp
  | y :: l, h => by
    have ih := sum_map_le f B l (fun z hz => h z (List.mem_cons_of_mem _ hz))
    have h1 := h y List.mem_cons_self
    simp only [List.map_cons, List.sum_cons, List.length_cons, Nat.succ_mul]
    omega


theorem live_erase {T : List Tup} {sim : Rel} {rem : List RemEl} (hI : RemInv T sim rem) {e : RemEl} (he : e ∈ rem)
    (t t' : Tup) : live sim (rem.erase e) t t' = (live sim rem t t' && !((t, t') == e)) := by
  unfold live
  by_cases hl : t'.length = t.length
  · simp only [hl, beq_self_eq_true, Bool.true_and]
    rw [Bool.eq_iff_iff]
    simp only [Bool.or_eq_true, List.contains_iff_mem, hI.nd.mem_erase_iff, Bool.and_eq_true, Bool.not_eq_true',
      beq_eq_false_iff_ne, ne_eq]
    constructor
    · rintro (h | ⟨h1, h2⟩)
      · refine ⟨Or.inl h, ?_⟩
        intro e'; subst e'
        rw [(hI.ok _ he).2.2.2] at h; cases h
      · exact ⟨Or.inr h2, h1⟩
    · rintro ⟨h | h, h1⟩
      · exact Or.inl h
      · exact Or.inr ⟨h1, h⟩
  · have : (t'.length == t.length) = false := by simpa using hl
    simp [this]

theorem live_self {T : List Tup} {sim : Rel} {rem : List RemEl} (hI : RemInv T sim rem) {e : RemEl} (he : e ∈ rem) :
    live sim rem e.1 e.2 = true := by
  unfold live
  simp [(hI.ok _ he).2.2.1, he]

theorem cntOf_erase {A : TA} {T : List Tup} (hT : T.Nodup) {sim : Rel} {rem : List RemEl} (hI : RemInv T sim rem)
    {e : RemEl} (he : e ∈ rem) (t : Tup) (a s : Nat) :
    cntOf A T sim (rem.erase e) t a s + (if t = e.1 ∧ s ∈ up A e.2 a then 1 else 0) = cntOf A T sim rem t a s := by
  unfold cntOf
  by_cases ht : t = e.1
  · subst ht
    have h := length_filter_remove (fun t' => live sim rem e.1 t' && (up A t' a).contains s) e.2 T hT (hI.ok _ he).2.1
    rw [← h]
    congr 1
    · congr 1
      apply List.filter_congr
      intro t' _
      rw [live_erase hI he]
      have : (((e.1, t') : RemEl) == e) = (t' == e.2) := by
        rw [Bool.eq_iff_iff]; simp [Prod.ext_iff]
      rw [this]
      cases live sim rem e.1 t' <;> cases (up A t' a).contains s <;> simp
    · simp [live_self hI he]
  · simp only [ht, false_and, if_false, Nat.add_zero]
    congr 1
    apply List.filter_congr
    intro t' _
    rw [live_erase hI he]
    have : (((t, t') : RemEl) == e) = false := by
      simp only [beq_eq_false_iff_ne, ne_eq, Prod.ext_iff, not_and]
      intro h; exact absurd h ht
    simp [this]

/-- the termination measure: the number of live pairs of tuples -/
def mu (T : List Tup) (sim : Rel) (rem : List RemEl) : Nat :=
  (T.map (fun t => (T.filter (fun t' => live sim rem t t')).length)).sum

theorem mu_congr {T : List Tup} {sim sim' : Rel} {rem rem' : List RemEl}
    (h : ∀ t t', t ∈ T → t' ∈ T → live sim' rem' t t' = live sim rem t t') : mu T sim' rem' = mu T sim rem := by
  unfold mu
  congr 1
  apply List.map_congr_left
  intro t ht
  congr 1
  apply List.filter_congr
  intro t' ht'
  exact h t t' ht ht'

theorem mu_erase {T : List Tup} (hT : T.Nodup) {sim : Rel} {rem : List RemEl} (hI : RemInv T sim rem)
    {e : RemEl} (he : e ∈ rem) : mu T sim (rem.erase e) + 1 = mu T sim rem := by
  unfold mu
  apply sum_map_succ _ _ e.1 T hT (hI.ok _ he).1
  intro t _
  by_cases ht : t = e.1
  · subst ht
    have h := length_filter_remove (fun t' => live sim rem e.1 t') e.2 T hT (hI.ok _ he).2.1
    simp only [live_self hI he, if_true] at h ⊢
    rw [← h]
    congr 2
    apply List.filter_congr
    intro t' _
    rw [live_erase hI he]
    have : (((e.1, t') : RemEl) == e) = (t' == e.2) := by
      rw [Bool.eq_iff_iff]; simp [Prod.ext_iff]
    rw [this]
  · simp only [ht, if_false, Nat.add_zero]
    congr 1
    apply List.filter_congr
    intro t' _
    rw [live_erase hI he]
    have : (((t, t') : RemEl) == e) = false := by
      simp only [beq_eq_false_iff_ne, ne_eq, Prod.ext_iff, not_and]
      intro h; exact absurd h ht
    simp [this]

theorem mu_le (T : List Tup) (sim : Rel) (rem : List RemEl) : mu T sim rem ≤ T.length * T.length :=
  sum_map_le _ _ T (fun _ _ => List.length_filter_le _ _)


/-! ### one iteration of the loop -/

theorem pick_inv {A : TA} {o : Order} (ok : o.Ok A) {S : Nat → Nat → Prop} {t₀ : Tup} {st : St}
    (hI : Inv A o S t₀ [] st) {e : RemEl} (he : e ∈ st.rem) :
    Inv A o S e.1 (ops A o e.2) ⟨st.sim, st.cnt, st.rem.erase e⟩ := by
  have hrem : RemInv o.T st.sim (st.rem.erase e) :=
    ⟨fun e' he' => hI.rem.ok e' (List.mem_of_mem_erase he'), hI.rem.nd.erase e⟩
  refine ⟨hI.simQ, hrem, ?_, ?_, hI.compl⟩
  · intro t ht a s hs
    have h1 := hI.cntOk t ht a s hs
    simp only [List.not_mem_nil, and_false, if_false, Nat.add_zero] at h1
    rw [h1, ← cntOf_erase ok.ndT hI.rem he t a s]
    congr 1
    have : (t = e.1 ∧ (a, s) ∈ ops A o e.2) ↔ (t = e.1 ∧ s ∈ up A e.2 a) := by
      rw [mem_ops]
      constructor
      · rintro ⟨h, _, h'⟩; exact ⟨h, h'⟩
      · rintro ⟨h, h'⟩; exact ⟨h, ok.memSy _ (mem_up.mp h'), h'⟩
    simp only [this]
  · intro t ht a p s hp hps _
    exact hI.pos t ht a p s hp hps (by simp)

theorem refine_inv {A : TA} {o : Order} (ok : o.Ok A) {S : Nat → Nat → Prop} (hS : DownSim A S)
    (hSQ : ∀ q r, S q r → q ∈ o.Q ∧ r ∈ o.Q) {t₀ : Tup} {st : St} (hI : Inv A o S t₀ [] st) {e : RemEl}
    (he : e ∈ st.rem) :
    Inv A o S t₀ [] (refine A o ⟨st.sim, st.cnt, st.rem.erase e⟩ e) ∧
    mu o.T (refine A o ⟨st.sim, st.cnt, st.rem.erase e⟩ e).sim (refine A o ⟨st.sim, st.cnt, st.rem.erase e⟩ e).rem + 1 =
      mu o.T st.sim st.rem := by
  have h0 := pick_inv ok hI he
  obtain ⟨h1, h2⟩ := foldl_procS_inv ok hS hSQ (hI.rem.ok e he).1 _ (nodup_ops ok e.2) _ h0
  refine ⟨inv_nil_irrel h1, ?_⟩
  unfold refine
  rw [mu_congr h2]
  exact mu_erase ok.ndT hI.rem he

theorem getD_mod_mem {α : Type} (l : List α) (i : Nat) (d : α) (h : l.isEmpty = false) : l.getD (i % l.length) d ∈ l := by
  have hl : 0 < l.length := by
    cases l with
    | nil => simp at h
    | cons _ _ => simp
  have hi : i % l.length < l.length := Nat.mod_lt _ hl
  rw [List.getD_eq_getElem?_getD, List.getElem?_eq_getElem hi]
  exact List.getElem_mem hi

/-- partial correctness of the loop: the invariant holds at the end and "remove" is empty -/
theorem loop_inv {A : TA} {o : Order} (ok : o.Ok A) {S : Nat → Nat → Prop} (hS : DownSim A S)
    (hSQ : ∀ q r, S q r → q ∈ o.Q ∧ r ∈ o.Q) {t₀ : Tup} : ∀ (fuel k : Nat) (st st' : St), Inv A o S t₀ [] st →
    loop A o fuel k st = some st' → Inv A o S t₀ [] st' ∧ st'.rem = []
  | 0, _, st, st', hI, h => by
    unfold loop at h
    split at h
    · rename_i he
      cases h
      exact ⟨hI, List.isEmpty_iff.mp he⟩
    · cases h
  | fuel+1, k, st, st', hI, h => by
    unfold loop at h
    split at h
    · rename_i he
      cases h
      exact ⟨hI, List.isEmpty_iff.mp he⟩
    · rename_i he
      have hm := getD_mod_mem st.rem (o.ch k) ([], []) (by simpa using he)
      exact loop_inv ok hS hSQ fuel (k+1) _ st' (refine_inv ok hS hSQ hI hm).1 h

/-- termination: as many iterations as there are live pairs -/
theorem loop_total {A : TA} {o : Order} (ok : o.Ok A) {S : Nat → Nat → Prop} (hS : DownSim A S)
    (hSQ : ∀ q r, S q r → q ∈ o.Q ∧ r ∈ o.Q) {t₀ : Tup} : ∀ (fuel k : Nat) (st : St), Inv A o S t₀ [] st →
    mu o.T st.sim st.rem ≤ fuel → ∃ st', loop A o fuel k st = some st'
  | 0, _, st, hI, hmu => by
    unfold loop
    by_cases he : st.rem.isEmpty = true
    · simp [he]
    · exfalso
      have hm := getD_mod_mem st.rem 0 ([], []) (by simpa using he)
      have := mu_erase ok.ndT hI.rem hm
      omega
  | fuel+1, k, st, hI, hmu => by
    unfold loop
    by_cases he : st.rem.isEmpty = true
    · simp [he]
    · simp only [he]
      have hm := getD_mod_mem st.rem (o.ch k) ([], []) (by simpa using he)
      obtain ⟨h1, h2⟩ := refine_inv ok hS hSQ hI hm
      exact loop_total ok hS hSQ fuel (k+1) _ h1 (by omega)


/-! ### the initial state -/

theorem sigOk_iff {A : TA} {q r : Nat} : sigOk A q r = true ↔ ∀ ρ, ρ ∈ A.rules → ρ.parent = q →
    ∃ σ, σ ∈ A.rules ∧ σ.parent = r ∧ σ.sym = ρ.sym ∧ σ.kids.length = ρ.kids.length := by
  simp only [sigOk, List.all_eq_true, Bool.or_eq_true, bne_iff_ne, ne_eq, List.any_eq_true, Bool.and_eq_true,
    beq_iff_eq]
  constructor
  · intro h ρ hρ hp
    rcases h ρ hρ with h1 | ⟨σ, hσ, ⟨h2, h3⟩, h4⟩
    · exact absurd hp h1
    · exact ⟨σ, hσ, h2, h3, h4⟩
  · intro h ρ hρ
    by_cases hp : ρ.parent = q
    · obtain ⟨σ, hσ, h2, h3, h4⟩ := h ρ hρ hp
      exact Or.inr ⟨σ, hσ, ⟨h2, h3⟩, h4⟩
    · exact Or.inl hp

theorem mem_initSim {A : TA} {Q : List Nat} {q r : Nat} :
    (q, r) ∈ initSim A Q ↔ q ∈ Q ∧ r ∈ Q ∧ sigOk A q r = true := by
  simp only [initSim, List.mem_filter, SimModel.mem_allPairs, and_assoc]

theorem mem_initRem {A : TA} {T : List Tup} {Q : List Nat} {e : RemEl} :
    e ∈ initRem A T Q ↔ ∃ q r, q ∈ Q ∧ r ∈ Q ∧ sigOk A q r = false ∧ e ∈ matching T q r := by
  simp only [initRem, mem_unionG, List.not_mem_nil, false_or, List.mem_flatMap, List.mem_filter, Bool.not_eq_true']
  constructor
  · rintro ⟨⟨q, r⟩, ⟨h1, h2⟩, h3⟩
    rw [SimModel.mem_allPairs] at h1
    exact ⟨q, r, h1.1, h1.2, h2, h3⟩
  · rintro ⟨q, r, h1, h2, h3, h4⟩
    exact ⟨(q, r), ⟨SimModel.mem_allPairs.mpr ⟨h1, h2⟩, h3⟩, h4⟩

theorem all2_length {α β : Type} {R : α → β → Prop} : ∀ {l : List α} {l' : List β}, All2 R l l' → l'.length = l.length
  | _, _, All2.nil => rfl
  | _, _, All2.cons _ tl => by simp [all2_length tl]

theorem init_live {A : TA} {o : Order} (ok : o.Ok A) {t t' : Tup} (ht : t ∈ o.T) (ht' : t' ∈ o.T)
    (hl : t'.length = t.length) : live (initSim A o.Q) (initRem A o.T o.Q) t t' = true := by
  unfold live
  simp only [hl, beq_self_eq_true, Bool.true_and, Bool.or_eq_true, List.contains_iff_mem]
  by_cases hk : kidsRel (initSim A o.Q) t t' = true
  · exact Or.inl hk
  · right
    obtain ⟨p, s, hm, hps⟩ := exists_matchAt_of_not_kidsRel _ t t' hl (by simpa using hk)
    have hp := ok.comp_mem ht (matchAt_mem hm).1
    have hs := ok.comp_mem ht' (matchAt_mem hm).2
    rw [mem_initRem]
    refine ⟨p, s, hp, hs, ?_, mem_matching.mpr ⟨ht, ht', hl, hm⟩⟩
    cases hc : sigOk A p s
    · rfl
    · exact absurd (mem_initSim.mpr ⟨hp, hs, hc⟩) hps

theorem init_inv {A : TA} {o : Order} (ok : o.Ok A) {S : Nat → Nat → Prop} (hS : DownSim A S)
    (hSQ : ∀ q r, S q r → q ∈ o.Q ∧ r ∈ o.Q) : Inv A o S [] [] (initSt A o) := by
  refine ⟨?_, ⟨?_, nodup_unionG _ _ List.nodup_nil⟩, ?_, ?_, ?_⟩
  · intro q r h
    have := mem_initSim.mp h
    exact ⟨this.1, this.2.1⟩
  · intro e he
    obtain ⟨q, r, _, _, hsig, hm⟩ := mem_initRem.mp he
    obtain ⟨h1, h2, h3, h4⟩ := mem_matching.mp hm
    refine ⟨h1, h2, h3, not_kidsRel_of_matchAt _ ?_ _ _ h4⟩
    intro hin
    rw [(mem_initSim.mp hin).2.2] at hsig
    cases hsig
  · intro t ht a s hs
    simp only [List.not_mem_nil, and_false, if_false, Nat.add_zero]
    simp only [initSt, getCnt, List.lookup_nil, initCnt, List.contains_iff_mem.mpr hs, if_true, cntOf]
    congr 1
    apply List.filter_congr
    intro t' ht'
    by_cases hl : t'.length = t.length
    · rw [init_live ok ht ht' hl]; simp [hl]
    · have : (t'.length == t.length) = false := by simpa using hl
      simp [live, this]
  · intro t ht a p s hp hps _
    obtain ⟨_, hsQ, hsig⟩ := mem_initSim.mp hps
    obtain ⟨σ, hσ, h1, h2, h3⟩ := sigOk_iff.mp hsig ⟨a, t, p⟩ (mem_up.mp hp) rfl
    simp only [initSt, getCnt, List.lookup_nil, initCnt, List.contains_iff_mem.mpr hsQ, if_true]
    intro h0
    have hm : σ.kids ∈ o.T.filter (fun t' => t'.length == t.length && (up A t' a).contains s) := by
      rw [List.mem_filter]
      refine ⟨ok.kids_mem hσ, ?_⟩
      simp only at h2 h3
      simp only [h3, beq_self_eq_true, Bool.true_and, List.contains_iff_mem, mem_up]
      cases σ
      simp only at h1 h2
      subst h1 h2
      exact hσ
    rw [List.length_eq_zero_iff] at h0
    rw [h0] at hm
    cases hm
  · intro q r hqr
    obtain ⟨hq, hr⟩ := hSQ q r hqr
    refine mem_initSim.mpr ⟨hq, hr, sigOk_iff.mpr ?_⟩
    intro ρ hρ hp
    obtain ⟨σ, hσ, h1, h2, h3⟩ := hS q r hqr ρ hρ hp
    exact ⟨σ, hσ, h1, h2, all2_length h3⟩

/-! ### the result -/

theorem final_downSim {A : TA} {o : Order} (ok : o.Ok A) {S : Nat → Nat → Prop} {t₀ : Tup} {st : St}
    (hI : Inv A o S t₀ [] st) (hr : st.rem = []) : DownSim A (RelOf st.sim) := by
  intro p s hps ρ hρ hp
  have ht := ok.kids_mem hρ
  have hup : p ∈ up A ρ.kids ρ.sym := by
    rw [mem_up]; cases ρ; simp only at hp; subst hp; exact hρ
  have hsQ := (hI.simQ p s hps).2
  have h1 := hI.pos ρ.kids ht ρ.sym p s hup hps (by simp)
  rw [hI.cntOk ρ.kids ht ρ.sym s hsQ] at h1
  simp only [List.not_mem_nil, and_false, if_false, Nat.add_zero, cntOf] at h1
  match hf : o.T.filter (fun t' => live st.sim st.rem ρ.kids t' && (up A t' ρ.sym).contains s) with
  | [] => rw [hf] at h1; exact absurd rfl h1
  | t' :: _ =>
    have hm : t' ∈ o.T.filter (fun t' => live st.sim st.rem ρ.kids t' && (up A t' ρ.sym).contains s) := by
      rw [hf]; exact List.mem_cons_self
    rw [List.mem_filter] at hm
    obtain ⟨_, hm⟩ := hm
    simp only [Bool.and_eq_true, List.contains_iff_mem, mem_up] at hm
    obtain ⟨hl, hσ⟩ := hm
    simp only [live, hr, List.contains_nil, Bool.or_false, Bool.and_eq_true] at hl
    exact ⟨⟨ρ.sym, t', s⟩, hσ, rfl, rfl, (SimModel.kidsRel_iff _ _ _).mp hl.2⟩


theorem downSim_false (A : TA) : DownSim A (fun _ _ => False) := fun _ _ h => h.elim

theorem bddDownSimOrd_some {A : TA} {n : Nat} {o : Order} {fuel : Nat} {R : Rel}
    (h : bddDownSimOrd A n o fuel = some R) :
    (∀ q, q ∈ A.states → q < n) ∧ (∀ q, q ∈ o.Q → q < n) ∧
      ∃ st, loop A o fuel 0 (initSt A o) = some st ∧ st.sim = R := by
  unfold bddDownSimOrd at h
  split at h
  · rename_i hn
    simp only [Bool.and_eq_true, List.all_eq_true, decide_eq_true_eq] at hn
    refine ⟨hn.1, hn.2, ?_⟩
    cases hl : loop A o fuel 0 (initSt A o) with
    | none => rw [hl] at h; cases h
    | some st =>
      rw [hl] at h
      simp only [Option.map_some, Option.some.injEq] at h
      exact ⟨st, rfl, h⟩
  · cases h

/-- **(a) + (b)** for every iteration order (ghost keys allowed): the result is a downward simulation on the automaton, it
relates only states with a top-down entry, and it contains every downward simulation between such states -/
theorem bddDownSimOrd_spec {A : TA} {n : Nat} {o : Order} (ok : o.Ok A) {fuel : Nat} {R : Rel}
    (h : bddDownSimOrd A n o fuel = some R) :
    DownSim A (RelOf R) ∧ (∀ q r, (q, r) ∈ R → q ∈ o.Q ∧ r ∈ o.Q) ∧
    ∀ S : Nat → Nat → Prop, DownSim A S → (∀ q r, S q r → q ∈ o.Q ∧ r ∈ o.Q) → ∀ q r, S q r → (q, r) ∈ R := by
  obtain ⟨_, _, st, hl, rfl⟩ := bddDownSimOrd_some h
  have h0 := loop_inv ok (downSim_false A) (fun _ _ h => h.elim) fuel 0 _ st
    (init_inv ok (downSim_false A) (fun _ _ h => h.elim)) hl
  refine ⟨final_downSim ok h0.1 h0.2, h0.1.simQ, ?_⟩
  intro S hS hSQ q r hqr
  exact (loop_inv ok hS hSQ fuel 0 _ st (init_inv ok hS hSQ) hl).1.compl q r hqr

/-- a downward simulation stays one when it is restricted to the states with a top-down entry -/
theorem downSim_restrict {A : TA} {o : Order} (ok : o.Ok A) {S : Nat → Nat → Prop} (hS : DownSim A S) :
    DownSim A (fun q r => q ∈ o.Q ∧ r ∈ o.Q ∧ S q r) := by
  intro q r ⟨_, _, hqr⟩ ρ hρ hp
  obtain ⟨σ, hσ, k1, k2, k3⟩ := hS q r hqr ρ hρ hp
  refine ⟨σ, hσ, k1, k2, SimModel.all2_mono_mem k3 ?_⟩
  intro a b ha hb hab
  exact ⟨ok.comp_mem (ok.kids_mem hρ) ha, ok.comp_mem (ok.kids_mem hσ) hb, hab⟩

/-- **(b)** exact characterisation, ghost keys allowed: `q` and `r` own a top-down entry and SOME downward simulation of
the automaton relates them -/
theorem bddDownSimOrd_greatest {A : TA} {n : Nat} {o : Order} (ok : o.Ok A) {fuel : Nat} {R : Rel}
    (h : bddDownSimOrd A n o fuel = some R) (q r : Nat) :
    (q, r) ∈ R ↔ q ∈ o.Q ∧ r ∈ o.Q ∧ ∃ S : Nat → Nat → Prop, DownSim A S ∧ S q r := by
  obtain ⟨h1, h2, h3⟩ := bddDownSimOrd_spec ok h
  constructor
  · intro hqr
    exact ⟨(h2 q r hqr).1, (h2 q r hqr).2, RelOf R, h1, hqr⟩
  · rintro ⟨hq, hr, S, hS, hqr⟩
    exact h3 _ (downSim_restrict ok hS) (fun _ _ h => ⟨h.1, h.2.1⟩) q r ⟨hq, hr, hqr⟩

theorem Order.Ok.Q_states {A : TA} {o : Order} (ok : o.Ok A) (ex : o.Exact A) {q : Nat} (hq : q ∈ o.Q) : q ∈ A.states := by
  rcases (ok.memQ_exact ex q).mp hq with h | ⟨r, hr, h⟩
  · exact SimModel.final_mem_states h
  · exact SimModel.kid_mem_states hr h

/-- **(b)** in terms of the reference: the greatest downward simulation `downSimRef A`, restricted to the states that own a
top-down entry (all of which occur in the automaton: e.g. no ghost keys) -/
theorem bddDownSimOrd_char {A : TA} {n : Nat} {o : Order} (ok : o.Ok A) (hQ : ∀ q, q ∈ o.Q → q ∈ A.states) {fuel : Nat}
    {R : Rel} (h : bddDownSimOrd A n o fuel = some R) (q r : Nat) :
    (q, r) ∈ R ↔ q ∈ o.Q ∧ r ∈ o.Q ∧ (q, r) ∈ downSimRef A := by
  rw [bddDownSimOrd_greatest ok h]
  constructor
  · rintro ⟨hq, hr, S, hS, hqr⟩
    exact ⟨hq, hr, downSimRef_contains A S hS q r (hQ q hq) (hQ r hr) hqr⟩
  · rintro ⟨hq, hr, hqr⟩
    exact ⟨hq, hr, RelOf (downSimRef A), downSimRef_sim A, hqr⟩

/-- the result does not depend on the iteration orders (of the hash containers, of the MTBDD traversal, of the picks
from "remove"), nor on the matrix size or the fuel, nor on ghost keys as long as the set of states with a top-down entry
is the same -/
theorem bddDownSimOrd_order_indep {A : TA} {n n' : Nat} {o o' : Order} (ok : o.Ok A) (ok' : o'.Ok A)
    (hQ : ∀ q, q ∈ o.Q ↔ q ∈ o'.Q) {fuel fuel' : Nat}
    {R R' : Rel} (h : bddDownSimOrd A n o fuel = some R) (h' : bddDownSimOrd A n' o' fuel' = some R') :
    relEq R R' = true := by
  have key : ∀ q r, (q, r) ∈ R ↔ (q, r) ∈ R' := by
    intro q r
    rw [bddDownSimOrd_greatest ok h, bddDownSimOrd_greatest ok' h', hQ, hQ]
  simp only [relEq, Bool.and_eq_true, List.all_eq_true, List.contains_iff_mem]
  exact ⟨fun p hp => (key p.1 p.2).mp hp, fun p hp => (key p.1 p.2).mpr hp⟩

/-- … in particular for any two orders of a table without ghost keys -/
theorem bddDownSimOrd_order_indep_exact {A : TA} {n n' : Nat} {o o' : Order} (ok : o.Ok A) (ok' : o'.Ok A)
    (ex : o.Exact A) (ex' : o'.Exact A) {fuel fuel' : Nat}
    {R R' : Rel} (h : bddDownSimOrd A n o fuel = some R) (h' : bddDownSimOrd A n' o' fuel' = some R') :
    relEq R R' = true :=
  bddDownSimOrd_order_indep ok ok' (fun q => by rw [ok.memQ_exact ex, ok'.memQ_exact ex']) h h'

/-- **(c)** termination: `|table|²` iterations always suffice (every pair of tuples leaves "remove" at most once) -/
theorem bddDownSimOrd_total {A : TA} {n : Nat} {o : Order} (ok : o.Ok A) (hn : ∀ q, q ∈ A.states → q < n)
    (hn' : ∀ q, q ∈ o.Q → q < n) {fuel : Nat}
    (hf : o.T.length * o.T.length ≤ fuel) : ∃ R, bddDownSimOrd A n o fuel = some R := by
  obtain ⟨st, hst⟩ := loop_total ok (downSim_false A) (fun _ _ h => h.elim) fuel 0 _
    (init_inv ok (downSim_false A) (fun _ _ h => h.elim)) (Nat.le_trans (mu_le _ _ _) hf)
  refine ⟨st.sim, ?_⟩
  unfold bddDownSimOrd
  have : (A.states.all (fun q => decide (q < n)) && o.Q.all (fun q => decide (q < n))) = true := by
    simp only [Bool.and_eq_true, List.all_eq_true, decide_eq_true_eq]; exact ⟨hn, hn'⟩
  rw [if_pos this, hst]
  rfl

/-- `none` is never a verdict: it means a state outside the matrix, or too little fuel -/
theorem bddDownSimOrd_none {A : TA} {n : Nat} {o : Order} (ok : o.Ok A) {fuel : Nat}
    (hf : o.T.length * o.T.length ≤ fuel) :
    bddDownSimOrd A n o fuel = none ↔ ∃ q, (q ∈ A.states ∨ q ∈ o.Q) ∧ n ≤ q := by
  constructor
  · intro h
    apply Classical.byContradiction
    intro hne
    have hn : ∀ q, (q ∈ A.states ∨ q ∈ o.Q) → q < n := by
      intro q hq
      apply Classical.byContradiction
      intro hlt
      exact hne ⟨q, hq, Nat.le_of_not_lt hlt⟩
    obtain ⟨R, hR⟩ := bddDownSimOrd_total ok (fun q hq => hn q (Or.inl hq)) (fun q hq => hn q (Or.inr hq)) hf
    rw [h] at hR; cases hR
  · rintro ⟨q, hq, hle⟩
    unfold bddDownSimOrd
    have : ¬ ((A.states.all (fun q => decide (q < n)) && o.Q.all (fun q => decide (q < n))) = true) := by
      simp only [Bool.and_eq_true, List.all_eq_true, decide_eq_true_eq]
      rintro ⟨h1, h2⟩
      rcases hq with hq | hq
      · exact absurd (h1 q hq) (Nat.not_lt.mpr hle)
      · exact absurd (h2 q hq) (Nat.not_lt.mpr hle)
    rw [if_neg this]


/-! ### bridge to the MTBDD-level models of the tables (C08) -/
section Bridge
open BddAbs BddAbsTD M

theorem mem_keys_set {T : Table} {ks ks' : List Nat} {m : MT} : ks' ∈ (T.set ks m).keys ↔ ks' ∈ T.keys ∨ ks' = ks := by
  unfold Table.set
  by_cases h : ks = []
  · subst h
    simp only [if_true, Table.keys, List.mem_cons]
    constructor
    · exact Or.inl
    · rintro (h | h)
      · exact h
      · exact Or.inl h
  · simp only [h, if_false, Table.keys, setE, List.mem_cons, List.map_cons, List.mem_map, List.mem_filter, bne_iff_ne, ne_eq]
    constructor
    · rintro (h1 | h1 | ⟨e, ⟨he, _⟩, rfl⟩)
      · exact Or.inl (Or.inl h1)
      · exact Or.inr h1
      · exact Or.inl (Or.inr ⟨e, he, rfl⟩)
    · rintro ((h1 | ⟨e, he, rfl⟩) | h1)
      · exact Or.inl h1
      · by_cases hk : e.1 = ks
        · exact Or.inr (Or.inl hk)
        · exact Or.inr (Or.inr ⟨e, ⟨he, hk⟩, rfl⟩)
      · exact Or.inr (Or.inl h1)

theorem mem_keys_foldl (rs : List Rule) : ∀ (T : Table) (ks : List Nat),
    ks ∈ (rs.foldl (fun T r => addTransition T r.kids r.sym r.parent) T).keys ↔ ks ∈ T.keys ∨ ∃ r, r ∈ rs ∧ r.kids = ks := by
  induction rs with
  | nil => intro T ks; simp
  | cons r rs ih =>
    intro T ks
    rw [List.foldl_cons, ih]
    unfold addTransition addCube
    rw [mem_keys_set]
    simp only [List.mem_cons]
    constructor
    · rintro ((h | h) | ⟨r', hr', h⟩)
      · exact Or.inl h
      · exact Or.inr ⟨r, Or.inl rfl, h.symm⟩
      · exact Or.inr ⟨r', Or.inr hr', h⟩
    · rintro (h | ⟨r', (rfl | hr'), h⟩)
      · exact Or.inl (Or.inl h)
      · exact Or.inl (Or.inr h.symm)
      · exact Or.inr ⟨r', hr', h⟩

/-- `o.T`: the keys of the table that `AddTransition` builds from the rules (`Vata/BddAbs.lean`) -/
theorem tuples_bridge (A : TA) (t : Tup) : t ∈ tuples A ↔ t ∈ (ofRules A.rules).keys := by
  unfold ofRules
  rw [mem_keys_foldl]
  simp only [tuples, mem_unionG, List.mem_singleton, List.mem_map, Table.empty, Table.keys, List.map_nil]

theorem mem_keysTD_setTD {R : TableTD} {p p' : Nat} {m : MTD} : p' ∈ keysTD (setTD R p m) ↔ p' = p ∨ p' ∈ keysTD R := by
  simp only [keysTD, setTD, List.map_cons, List.mem_cons, List.mem_map, List.mem_filter, bne_iff_ne, ne_eq]
  constructor
  · rintro (h | ⟨e, ⟨he, _⟩, rfl⟩)
    · exact Or.inl h
    · exact Or.inr ⟨e, he, rfl⟩
  · rintro (h | ⟨e, he, rfl⟩)
    · exact Or.inl h
    · by_cases hk : e.1 = p
      · exact Or.inl hk
      · exact Or.inr ⟨e, ⟨he, hk⟩, rfl⟩

theorem mem_keysTD_foldl (f : TableTD → Nat → MTD) : ∀ (L : List Nat) (R : TableTD) (p : Nat),
    p ∈ keysTD (L.foldl (fun R p => setTD R p (f R p)) R) ↔ p ∈ keysTD R ∨ p ∈ L
  | [], R, p => by simp
  | q :: L, R, p => by
    rw [List.foldl_cons, mem_keysTD_foldl f L, mem_keysTD_setTD, List.mem_cons]
    constructor
    · rintro ((h | h) | h)
      · exact Or.inr (Or.inl h)
      · exact Or.inl h
      · exact Or.inr (Or.inr h)
    · rintro (h | h | h)
      · exact Or.inl (Or.inr h)
      · exact Or.inl (Or.inl h)
      · exact Or.inr h

/-- `o.Q`: the states that have an entry in the table computed by the MTBDD-level model of `GetTopDownAut`
(`Vata/BddAbsTD.lean`) from the table of the rules -/
theorem tdStates_bridge (A : TA) (q : Nat) :
    q ∈ tdStates A ↔ q ∈ keysTD (getTopDownAut (ofRules A.rules) A.final) := by
  unfold getTopDownAut
  rw [mem_keysTD_foldl (fun R p => (pairs (ofRules A.rules)).foldl (invertStep p) (getTD R p))]
  simp only [keysTD, List.map_nil, List.not_mem_nil, false_or]
  rw [BddAbsTD.mem_tdStates, mem_tdStates]
  constructor
  · rintro (h | ⟨r, hr, hq⟩)
    · exact Or.inl h
    · exact Or.inr ⟨r.kids, (tuples_bridge A _).mp (mem_tuplesA.mpr (Or.inr ⟨r, hr, rfl⟩)), hq⟩
  · rintro (h | ⟨ks, hks, hq⟩)
    · exact Or.inl h
    · rcases mem_tuplesA.mp ((tuples_bridge A ks).mpr hks) with h | ⟨r, hr, h⟩
      · subst h; cases hq
      · subst h; exact Or.inr ⟨r, hr, hq⟩

/-- `up A t a`: the leaf of `GetMtbdd(t)` at the 16-bit symbol `a` -/
theorem up_bridge (A : TA) (hA : ∀ r, r ∈ A.rules → r.sym < 2 ^ 16) {a : Nat} (ha : a < 2 ^ 16) (t : Tup) (p : Nat) :
    p ∈ up A t a ↔ HasRule (ofRules A.rules) (bits a) t p := by
  rw [mem_up, absBU_ofRules A.rules hA a ha]

end Bridge

/-! ### the assertion of the C++ -/

/-- `assert(result[s] > 0)` holds whenever `s` owns a top-down entry: the pending slot counts the pair just taken -/
theorem pending_pos {A : TA} {o : Order} {S : Nat → Nat → Prop} {t₁ : Tup} {a s : Nat} {pend : List (Nat × Nat)} {st : St}
    (hI : Inv A o S t₁ ((a, s) :: pend) st) (ht₁ : t₁ ∈ o.T) (hs : s ∈ o.Q) : 0 < getCnt A o st.cnt (t₁, a, s) := by
  rw [hI.cntOk t₁ ht₁ a s hs, if_pos ⟨rfl, List.mem_cons_self⟩]
  omega

/-- the slot of a state without top-down entry is `0`: its first decrement wraps around -/
theorem initCnt_no_entry (A : TA) (T : List Tup) {Q : List Nat} {s : Nat} (hs : s ∉ Q) (k a : Nat) :
    initCnt A T Q k a s = 0 := by
  unfold initCnt
  rw [if_neg]
  intro h
  exact hs (List.contains_iff_mem.mp h)

/-! ### another admissible order -/

theorem nodup_reverse {α : Type} {l : List α} (h : l.Nodup) : l.reverse.Nodup := by
  unfold List.Nodup at *
  rw [List.pairwise_reverse]
  exact h.imp (fun h => h.symm)

theorem revOrder_ok {A : TA} (ch : Nat → Nat) : (revOrder A ch).Ok A where
  kidsT := fun r hr => by simp only [revOrder, List.mem_reverse]; exact (stdOrder_ok A).kidsT r hr
  ndT := by simp only [revOrder]; exact nodup_reverse (stdOrder_ok A).ndT
  memQ := fun q => by simp only [revOrder, List.mem_reverse]; exact (stdOrder_ok A).memQ q
  memSy := fun r hr => by simp only [revOrder, List.mem_reverse]; exact (stdOrder_ok A).memSy r hr
  ndSy := by simp only [revOrder]; exact nodup_reverse (stdOrder_ok A).ndSy

theorem revOrder_exact {A : TA} (ch : Nat → Nat) : (revOrder A ch).Exact A := fun t h => by
  simp only [revOrder, List.mem_reverse] at h
  exact mem_tuplesA.mp h

/-- ghost keys over states that have a top-down entry anyway (as `RemoveUselessStates` leaves them: a key is kept only if
all its states are useful) do not change the result -/
theorem bddDownSimOrd_ghost_indep {A : TA} {n n' : Nat} {o : Order} (ok : o.Ok A)
    (hg : ∀ t, t ∈ o.T → ∀ q, q ∈ t → q ∈ tdStates A) {fuel fuel' : Nat} {R R' : Rel}
    (h : bddDownSimOrd A n o fuel = some R) (h' : bddDownSim A n' fuel' = some R') : relEq R R' = true := by
  refine bddDownSimOrd_order_indep ok (stdOrder_ok A) ?_ h h'
  intro q
  rw [ok.memQ]
  show _ ↔ q ∈ tdStates A
  rw [mem_tdStates]
  constructor
  · rintro (hf | ⟨t, ht, hq⟩)
    · exact Or.inl hf
    · exact mem_tdStates.mp (hg t ht q hq)
  · rintro (hf | ⟨r, hr, hq⟩)
    · exact Or.inl hf
    · exact Or.inr ⟨r.kids, ok.kidsT r hr, hq⟩

end BddSim

/-! ### the function with its standard order -/
open BddSim

/-- (a) `ComputeDownwardSimulation(n)` returns a downward simulation on the automaton -/
theorem bddDownSim_downSim {A : TA} {n fuel : Nat} {R : Rel} (h : bddDownSim A n fuel = some R) :
    isDownSimB A R = true :=
  (isDownSimB_iff A R).mpr (bddDownSimOrd_spec (stdOrder_ok A) h).1

/-- (b) … namely the greatest one, restricted to the final states and the states that occur as children -/
theorem bddDownSim_char {A : TA} {n fuel : Nat} {R : Rel} (h : bddDownSim A n fuel = some R) (q r : Nat) :
    (q, r) ∈ R ↔ q ∈ tdStates A ∧ r ∈ tdStates A ∧ (q, r) ∈ downSimRef A :=
  bddDownSimOrd_char (stdOrder_ok A) (fun _ hq => (stdOrder_ok A).Q_states (stdOrder_exact A) hq) h q r

/-- the relation is reflexive exactly on the states with a top-down entry -/
theorem bddDownSim_refl {A : TA} {n fuel : Nat} {R : Rel} (h : bddDownSim A n fuel = some R) (q : Nat) :
    (q, q) ∈ R ↔ q ∈ tdStates A := by
  rw [bddDownSim_char h]
  constructor
  · exact fun h => h.1
  · intro hq
    exact ⟨hq, hq, (greatest_downSim_preorder A).1 q ((stdOrder_ok A).Q_states (stdOrder_exact A) hq)⟩

theorem bddDownSim_trans {A : TA} {n fuel : Nat} {R : Rel} (h : bddDownSim A n fuel = some R) {a b c : Nat}
    (hab : (a, b) ∈ R) (hbc : (b, c) ∈ R) : (a, c) ∈ R := by
  rw [bddDownSim_char h] at hab hbc ⊢
  exact ⟨hab.1, hbc.2.1, (greatest_downSim_preorder A).2 a b c hab.2.2 hbc.2.2⟩

/-- a state that is neither final nor a child of a rule (it can only be the parent of rules) is unrelated to every
state, itself included -/
theorem bddDownSim_no_entry {A : TA} {n fuel : Nat} {R : Rel} (h : bddDownSim A n fuel = some R) {q : Nat}
    (hq : q ∉ tdStates A) (r : Nat) : (q, r) ∉ R ∧ (r, q) ∉ R := by
  rw [bddDownSim_char h, bddDownSim_char h]
  exact ⟨fun h => hq h.1, fun h => hq h.2.1⟩

/-- every admissible iteration order yields the relation of the standard order -/
theorem bddDownSim_order_indep {A : TA} {n n' fuel fuel' : Nat} {o : Order} (ok : o.Ok A) (ex : o.Exact A) {R R' : Rel}
    (h : bddDownSim A n fuel = some R) (h' : bddDownSimOrd A n' o fuel' = some R') : relEq R R' = true :=
  bddDownSimOrd_order_indep_exact (stdOrder_ok A) ok (stdOrder_exact A) ex h h'

/-- (c) the loop runs at most `fuelBound A = |table|²` times -/
theorem bddDownSim_total {A : TA} {n fuel : Nat} (hn : ∀ q, q ∈ A.states → q < n) (hf : fuelBound A ≤ fuel) :
    ∃ R, bddDownSim A n fuel = some R :=
  bddDownSimOrd_total (stdOrder_ok A) hn
    (fun q hq => hn q ((stdOrder_ok A).Q_states (stdOrder_exact A) hq)) hf

theorem bddDownSim_none {A : TA} {n fuel : Nat} (hf : fuelBound A ≤ fuel) :
    bddDownSim A n fuel = none ↔ ∃ q, q ∈ A.states ∧ n ≤ q := by
  unfold bddDownSim
  rw [bddDownSimOrd_none (stdOrder_ok A) hf]
  constructor
  · rintro ⟨q, hq | hq, hle⟩
    · exact ⟨q, hq, hle⟩
    · exact ⟨q, (stdOrder_ok A).Q_states (stdOrder_exact A) hq, hle⟩
  · rintro ⟨q, hq, hle⟩
    exact ⟨q, Or.inl hq, hle⟩

/-- on an automaton all of whose states are final or children (e.g. without useless states) the result is the
greatest downward simulation -/
theorem bddDownSim_eq_downSimRef {A : TA} {n fuel : Nat} {R : Rel} (h : bddDownSim A n fuel = some R)
    (hA : ∀ q, q ∈ A.states → q ∈ tdStates A) : relEq R (downSimRef A) = true := by
  simp only [relEq, Bool.and_eq_true, List.all_eq_true, List.contains_iff_mem]
  refine ⟨fun p hp => ((bddDownSim_char h p.1 p.2).mp hp).2.2, fun p hp => ?_⟩
  have := downSimRef_sub A (q := p.1) (r := p.2) hp
  exact (bddDownSim_char h p.1 p.2).mpr ⟨hA _ this.1, hA _ this.2, hp⟩


/-! ### examples (non-vacuity) -/
namespace BddSimEx
open BddSim

/-- leaves `0 ≤ 1` (strictly), `2 = u(0)`, `3 = u(1)`: `(3, 2)` passes the initial test and is cut by the refinement; the
cut cascades to `(5, 4)` (`4 = f(2)`, `5 = f(3)`, both final); `6 = u(1)` is only a parent: no top-down entry, and the
pair of tuples `([2], [1])` makes its counter wrap -/
def exB : TA := ⟨[⟨0, [], 0⟩, ⟨0, [], 1⟩, ⟨1, [], 1⟩, ⟨2, [0], 2⟩, ⟨2, [1], 3⟩, ⟨3, [2], 4⟩, ⟨3, [3], 5⟩, ⟨2, [1], 6⟩], [4, 5]⟩

def exR : Rel := [(0, 0), (0, 1), (1, 1), (2, 2), (2, 3), (3, 3), (4, 4), (4, 5), (5, 5)]

theorem exB_run : (bddDownSim exB 7 (fuelBound exB)).map (fun R => relEq R exR) = some true := by decide

-- the initial relation is strictly bigger: the loop does cut
example : (initSim exB (tdStates exB)).length = 11 ∧ exR.length = 9 := by decide
-- state 6 has no top-down entry; the states are below 7; `fuelBound` is the square of the number of tuples
example : tdStates exB = [4, 5, 0, 1, 2, 3] ∧ fuelBound exB = 25 := by decide
-- hypotheses of `bddDownSim_total` / conclusion of `bddDownSim_none`
example : ∀ q, q ∈ exB.states → q < 7 := by decide
example : bddDownSim exB 6 (fuelBound exB) = none := by decide
-- a second order gives the same relation (`bddDownSim_order_indep` with `revOrder_ok`)
example : (bddDownSimOrd exB 9 (revOrder exB (fun k => 7 * k + 3)) 30).map (fun R => relEq R exR) = some true := by decide
-- (a), (b) on the example
example : isDownSimB exB exR = true ∧ relEq exR ((downSimRef exB).filter (fun p => p.1 != 6 && p.2 != 6)) = true := by
  decide
-- the greatest simulation itself relates 6 (to itself, to 3 and 3 to it): the code does not
example : (6, 6) ∈ downSimRef exB ∧ (3, 6) ∈ downSimRef exB ∧ (6, 3) ∈ downSimRef exB := by decide

end BddSimEx

end Vata
