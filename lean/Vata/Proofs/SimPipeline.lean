import Vata.SimPipeline
import Vata.Proofs.TaLts
import Vata.Proofs.LtsEngine
import Vata.Proofs.BinRel
import Vata.Proofs.ReduceModel
import Vata.Proofs.PropAux
/-!
# `ComputeSimulation` and `Reduce` end to end (C04, C05, C16): the composition theorems

Theorems about the executable models of `Vata/SimPipeline.lean`:

* the numberings of the fresh translators (`downOrder`, `upOrder`) satisfy `TaLts.IdxOk`;
* **the preconditions of the engine hold for both translations** (`LE.LtsOK`, `LE.isPartition`, `LE.isConsistent`,
  `LE.RelTrans`): `ltsOK_translateDownward`, `ltsOK_translateUpward`, `upPartition_isPartition`,
  `upBlockRel_consistent`, `upBlockRel_trans`; the relation induced by partition and block relation as the engine reads it
  (`LE.initRel`) is `TaLts.blockRel` (`initRel_iff_blockRel`);
* `computeSimDown_eq`, `computeSimDown_total`, `computeSimUp_eq`, `computeSimUp_total`: translation as coded → ENGINE MODEL →
  matrix filled by `buildResult` → `StateDiscontBinaryRelation` → pairs, is `downSimRef A` / `upSimRef A`;
* `reduceAsCoded_eq_reduceModel` (refinement: the class-level `RestrictToSymmetric` / `GetQuotientProjection` on the matrix
  the engine produced give the automaton of `reduceModel`), `reduceAsCoded_lang`, `reduceAsCoded_never_grows`,
  `reduceAsCoded_total`.
-/
namespace Vata.SimPipe
open Vata Vata.TaLts Vata.BinRel Vata.L

/-! ### the translations with shared tables are the translations of `Vata/TaLts.lean` -/

theorem translateDownwardFast_eq (A : TA) (n : Nat) (idx : Nat → Nat) :
    translateDownwardFast A n idx = translateDownward A n idx := rfl

theorem translateUpwardFast_eq (A : TA) (idx : Nat → Nat) : translateUpwardFast A idx = translateUpward A idx := rfl

/-! ### lists -/

theorem pos_getElem {α : Type} [DecidableEq α] : ∀ {l : List α} {i : Nat} {x : α}, l.Nodup → l[i]? = some x → pos x l = i
  | [], _, _, _, h => by simp at h
  | y :: ys, 0, x, _, h => by
    simp only [List.getElem?_cons_zero, Option.some.injEq] at h
    simp [pos, h]
  | y :: ys, i+1, x, hnd, h => by
    simp only [List.getElem?_cons_succ] at h
    obtain ⟨hy, hnd'⟩ := List.nodup_cons.mp hnd
    have hx : x ∈ ys := List.mem_of_getElem? h
    have hne : x ≠ y := fun e => hy (e ▸ hx)
    simp only [pos, if_neg hne, pos_getElem hnd' h]

theorem getElem?_pos {α : Type} [DecidableEq α] : ∀ {l : List α} {x : α}, x ∈ l → l[pos x l]? = some x
  | [], _, h => by cases h
  | y :: ys, x, h => by
    by_cases hx : x = y
    · simp [pos, hx]
    · have : x ∈ ys := by
        cases h with
        | head => exact absurd rfl hx
        | tail _ h' => exact h'
      simp only [pos, if_neg hx, List.getElem?_cons_succ]
      exact getElem?_pos this

theorem nodup_map_on {α β : Type} {f : α → β} : ∀ {l : List α}, l.Nodup → (∀ x y, x ∈ l → y ∈ l → f x = f y → x = y) →
    (l.map f).Nodup
  | [], _, _ => List.nodup_nil
  | a :: l, hnd, hinj => by
    obtain ⟨ha, hnd'⟩ := List.nodup_cons.mp hnd
    rw [List.map_cons, List.nodup_cons]
    refine ⟨?_, nodup_map_on hnd' (fun x y hx hy => hinj x y (List.mem_cons_of_mem _ hx) (List.mem_cons_of_mem _ hy))⟩
    intro hm
    obtain ⟨b, hb, he⟩ := List.mem_map.mp hm
    have := hinj b a (List.mem_cons_of_mem _ hb) List.mem_cons_self he
    exact ha (this ▸ hb)

/-- two duplicate-free lists with the same elements have the same length -/
theorem length_eq_of_nodup {l₁ l₂ : List Nat} (h₁ : l₁.Nodup) (h₂ : l₂.Nodup) (h : ∀ x, x ∈ l₁ ↔ x ∈ l₂) :
    l₁.length = l₂.length :=
  Nat.le_antisymm (h₁.length_le_of_subset (fun x hx => (h x).mp hx)) (h₂.length_le_of_subset (fun x hx => (h x).mpr hx))

/-- an injective map from a duplicate-free list of length `N` into `0..N-1` is onto -/
theorem surj_of_inj_lt {l : List Nat} {f : Nat → Nat} (hnd : l.Nodup)
    (hinj : ∀ x y, x ∈ l → y ∈ l → f x = f y → x = y) (hlt : ∀ x, x ∈ l → f x < l.length) :
    ∀ k, k < l.length → ∃ x, x ∈ l ∧ f x = k := by
  intro k hk
  have h := subset_of_nodup_length (l.map f) (List.range l.length) (nodup_map_on hnd hinj)
    (fun y hy => by
      obtain ⟨x, hx, rfl⟩ := List.mem_map.mp hy
      exact List.mem_range.mpr (hlt x hx))
    (by simp) k (List.mem_range.mpr hk)
  obtain ⟨x, hx, he⟩ := List.mem_map.mp h
  exact ⟨x, hx, he⟩

/-! ### the numberings of the fresh translators -/

theorem nodup_downOrder (A : TA) : (downOrder A).Nodup := nodup_dedupG _

theorem mem_downOrder {A : TA} {q : Nat} : q ∈ downOrder A ↔ q ∈ A.states := by
  simp only [downOrder, mem_dedupG, List.mem_append, List.mem_flatMap, List.mem_flatten, List.mem_cons]
  rw [SimModel.mem_states]
  constructor
  · rintro ((h | ⟨ρ, hρ, h⟩) | ⟨t, ht, hq⟩)
    · exact Or.inl h
    · rcases h with h | h
      · exact Or.inr ⟨ρ, hρ, Or.inl h.symm⟩
      · split at h
        · exact Or.inr ⟨ρ, hρ, Or.inr h⟩
        · cases h
    · obtain ⟨ρ, hρ, _, rfl⟩ := mem_lhsList.mp ht
      exact Or.inr ⟨ρ, hρ, Or.inr hq⟩
  · rintro (h | ⟨ρ, hρ, h | h⟩)
    · exact Or.inl (Or.inl h)
    · exact Or.inl (Or.inr ⟨ρ, hρ, Or.inl h.symm⟩)
    · by_cases h1 : ρ.kids.length = 1
      · exact Or.inl (Or.inr ⟨ρ, hρ, Or.inr (by rw [if_pos h1]; exact h)⟩)
      · exact Or.inr ⟨ρ.kids, mem_lhsList.mpr ⟨ρ, hρ, h1, rfl⟩, h⟩

theorem length_downOrder (A : TA) : (downOrder A).length = A.states.length :=
  length_eq_of_nodup (nodup_downOrder A) (PropAux.nodup_states A) (fun _ => mem_downOrder)

theorem downOrder_perm (A : TA) : (downOrder A).Perm A.states :=
  (List.perm_ext_iff_of_nodup (nodup_downOrder A) (PropAux.nodup_states A)).mpr (fun _ => mem_downOrder)

/-- a numbering by first occurrence in a list that contains the states is injective and stays below the length -/
theorem idxOk_of_order {A : TA} {order : List Nat} {n : Nat} (hcov : ∀ q, q ∈ A.states → q ∈ order)
    (hlen : order.length ≤ n) : IdxOk A n (idxOf order) :=
  ⟨fun q _ hq _ he => pos_inj (hcov q hq) he, fun q hq => Nat.lt_of_lt_of_le (pos_lt (hcov q hq)) hlen⟩

/-- the numbering of `ComputeDownwardSimulation(n)` meets the `assert(dest < numStates)` of the translation as soon as `n`
is at least the number of states -/
theorem idxOk_down (A : TA) {n : Nat} (hn : A.states.length ≤ n) : IdxOk A n (idxOf (downOrder A)) :=
  idxOk_of_order (fun _ hq => mem_downOrder.mpr hq) (by rw [length_downOrder]; exact hn)

theorem nodup_upOrder (A : TA) : (upOrder A).Nodup := nodup_dedupG _

theorem mem_upOrder_of_own {A : TA} (hown : AllOwnRule A) {q : Nat} : q ∈ upOrder A ↔ q ∈ A.states := by
  simp only [upOrder, mem_dedupG, List.mem_append, List.mem_flatMap]
  constructor
  · rintro (h | ⟨ρ, hρ, h⟩)
    · exact parents_mem_states h
    · exact SimModel.kid_mem_states hρ h
  · intro h
    exact Or.inl (mem_parents.mpr (hown q h))

/-- without useless states the first loop of `TranslateUpward` meets every state: the numbering is onto `0..N-1` -/
theorem length_upOrder_of_own {A : TA} (hown : AllOwnRule A) : (upOrder A).length = (parents A).length :=
  length_eq_of_nodup (nodup_upOrder A) (nodup_dedupG _)
    (fun q => (mem_upOrder_of_own hown).trans ⟨fun h => mem_parents.mpr (hown q h), parents_mem_states⟩)

theorem length_parents_of_own {A : TA} (hown : AllOwnRule A) : (parents A).length = A.states.length :=
  length_eq_of_nodup (nodup_dedupG _) (PropAux.nodup_states A)
    (fun q => ⟨parents_mem_states, fun h => mem_parents.mpr (hown q h)⟩)

/-- the numbering of `ComputeUpwardSimulation` meets `assert(stateIndex[…] < transitions_->size())` -/
theorem idxOk_up {A : TA} (hown : AllOwnRule A) : IdxOk A (parents A).length (idxOf (upOrder A)) :=
  idxOk_of_order (fun _ hq => (mem_upOrder_of_own hown).mpr hq) (by rw [length_upOrder_of_own hown]; exact Nat.le_refl _)

/-! ### the engine on the downward translation: `computeSimulation(size)` builds its own one-block partition -/

/-- **`LtsOK` for `TranslateDownward`**: every edge connects states below `states_` (`addTransition` grows `states_`) -/
theorem ltsOK_translateDownward (A : TA) (n : Nat) (idx : Nat → Nat) : LE.LtsOK (translateDownward A n idx) :=
  fun _ hed => lt_ltsSize hed n

theorem le_n_translateDownward (A : TA) (n : Nat) (idx : Nat → Nat) : n ≤ (translateDownward A n idx).n :=
  le_foldl_ltsSize _ _

theorem computeSimulation_zero (T : LTS) (part : List (List Nat)) (rel : L.Rel) : LE.computeSimulation T part rel 0 = some [] :=
  rfl

theorem not_mem_ltsSimOut_zero (T : LTS) (I : L.Rel) (x y : Nat) : (x, y) ∉ ltsSimOut T I 0 := by
  rw [restrict_output]
  omega

/-- the engine model on the LTS of `TranslateDownward`: what it returns is the reference, for every `n` -/
theorem down_engine_eq (A : TA) (n : Nat) (idx : Nat → Nat) (R : L.Rel)
    (h : LE.computeSimulation1 (translateDownward A n idx) n = some R) (x y : Nat) :
    (x, y) ∈ R ↔ (x, y) ∈ ltsSimOut (translateDownward A n idx) (fullRel (translateDownward A n idx).n) n := by
  by_cases hn : n = 0
  · subst hn
    have : R = [] := by
      have h' : some ([] : L.Rel) = some R := h
      injection h' with h'
      exact h'.symm
    subst this
    simp only [List.not_mem_nil, false_iff]
    exact not_mem_ltsSimOut_zero _ _ x y
  · have hpos : 0 < (translateDownward A n idx).n := by
      have := le_n_translateDownward A n idx
      omega
    exact LE.engine1_result_eq (ltsOK_translateDownward A n idx) hpos n R h x y

theorem down_engine_total (A : TA) (n : Nat) (idx : Nat → Nat) :
    ∃ R, LE.computeSimulation1 (translateDownward A n idx) n = some R := by
  by_cases hn : n = 0
  · subst hn
    exact ⟨[], rfl⟩
  · have hpos : 0 < (translateDownward A n idx).n := by
      have := le_n_translateDownward A n idx
      omega
    exact LE.engine1_total (ltsOK_translateDownward A n idx) hpos n

/-! ### the matrix filled by `buildResult`, the `StateDiscontBinaryRelation` around it, its pairs -/

/-- **`buildResult`**: a fresh relation resized to `n` and then set at the pairs of `R` (all below `n`) holds exactly `R` -/
theorem resultMat_spec (n : Nat) (R : L.Rel) (hR : ∀ p, p ∈ R → p.1 < n ∧ p.2 < n) :
    WF (resultMat n R) ∧ (resultMat n R).size = n ∧
    ∀ r c, r < n → c < n → (resultMat n R).get r c = decide ((r, c) ∈ R) := by
  obtain ⟨k1, k2, k3, k4, k5⟩ := Mat.mk'_spec 0 false (rs := 16) (by decide)
  obtain ⟨w1, w2⟩ := Mat.wf_resize k1 k2 n false
  have hsize : ((Mat.mk' 0 false 16).resize n false).size = n := rfl
  have hrs : (Mat.mk' 0 false 16).rowSize = 16 := by rw [k4]; rfl
  have hcell : ∀ r c, r < n → c < n → ((Mat.mk' 0 false 16).resize n false).get r c = false := by
    intro r c hr hc
    by_cases hg : (Mat.mk' 0 false 16).rowSize < n
    · exact Mat.get_resize_new k1 k2 false hg hr hc (Or.inl (by rw [k3]; exact Nat.zero_le _))
    · rw [Mat.get_resize_nogrow false (by omega)]
      exact k5 r c (by omega) (by omega)
  obtain ⟨i1, i2, i3, i4⟩ := Mat.foldl_set_fun (fun _ _ => true) R _ w1 (by rw [hsize]; exact hR)
  refine ⟨i3, by rw [← hsize]; exact i1, ?_⟩
  intro r c hr hc
  have hcr : c < ((Mat.mk' 0 false 16).resize n false).rowSize := by
    have := w1.1
    rw [hsize] at this
    omega
  have := i4 r c hcr
  unfold resultMat
  rw [this, hcell r c hr hc]
  by_cases hm : (r, c) ∈ R <;> simp [hm]

theorem translPairs_keys (order : List Nat) : (translPairs order).map (·.1) = order :=
  List.zipIdx_map_fst 0 order

theorem translPairs_nodup {order : List Nat} (hnd : order.Nodup) :
    ((translPairs order).map (·.1)).Nodup ∧ ((translPairs order).map (·.2)).Nodup := by
  refine ⟨by rw [translPairs_keys]; exact hnd, ?_⟩
  have : (translPairs order).map (·.2) = List.range' 0 order.length := List.zipIdx_map_snd 0 order
  rw [this]
  exact List.nodup_range' 1

theorem mem_translPairs {order : List Nat} {q : Nat} (hq : q ∈ order) : (q, idxOf order q) ∈ translPairs order :=
  List.mem_zipIdx_iff_getElem?.mpr (getElem?_pos hq)

theorem dict_simDisc {order : List Nat} (hnd : order.Nodup) (n : Nat) (R : L.Rel) :
    (simDisc order n R).dict.fwd = translPairs order ∧
    (simDisc order n R).dict.bwd = (translPairs order).map (fun p => (p.2, p.1)) :=
  Dict.ofList_spec (translPairs_nodup hnd).1 (translPairs_nodup hnd).2

/-- **`StateDiscontBinaryRelation(ltsSim, translMap)`**: its pairs are the pairs of states whose indices are related in
the matrix -/
theorem mem_discRel_simDisc {order : List Nat} (hnd : order.Nodup) (n : Nat) (R : L.Rel) (q r : Nat) :
    (q, r) ∈ discRel (simDisc order n R) ↔
      q ∈ order ∧ r ∈ order ∧ (resultMat n R).get (idxOf order q) (idxOf order r) = true := by
  obtain ⟨n1, n2⟩ := translPairs_nodup hnd
  have hget : ∀ x y, x ∈ order → y ∈ order →
      (simDisc order n R).get x y = .ok ((resultMat n R).get (idxOf order x) (idxOf order y)) :=
    fun x y hx hy => Disc.get_ofRel n1 n2 (mem_translPairs hx) (mem_translPairs hy)
  have hkey : ∀ p, p ∈ translPairs order → p.1 ∈ order := by
    intro p hp
    rw [← translPairs_keys order]
    exact List.mem_map.mpr ⟨p, hp, rfl⟩
  unfold discRel
  rw [(dict_simDisc hnd n R).1]
  simp only [List.mem_filter, List.mem_flatMap, List.mem_map, Prod.mk.injEq]
  constructor
  · rintro ⟨⟨p, hp, p', hp', rfl, rfl⟩, hb⟩
    have h1 := hkey p hp
    have h2 := hkey p' hp'
    rw [hget _ _ h1 h2] at hb
    exact ⟨h1, h2, hb⟩
  · rintro ⟨h1, h2, hb⟩
    refine ⟨⟨_, mem_translPairs h1, _, mem_translPairs h2, rfl, rfl⟩, ?_⟩
    rw [hget _ _ h1 h2]
    exact hb

/-- the two layers together: for a result `R` of the engine with output size `n` -/
theorem mem_discRel_of_engine {order : List Nat} (hnd : order.Nodup) (hlen : order.length ≤ n) (R : L.Rel)
    (hR : ∀ p, p ∈ R → p.1 < n ∧ p.2 < n) (q r : Nat) :
    (q, r) ∈ discRel (simDisc order n R) ↔ q ∈ order ∧ r ∈ order ∧ (idxOf order q, idxOf order r) ∈ R := by
  rw [mem_discRel_simDisc hnd]
  constructor
  · rintro ⟨hq, hr, hb⟩
    have h1 : idxOf order q < n := Nat.lt_of_lt_of_le (pos_lt hq) hlen
    have h2 : idxOf order r < n := Nat.lt_of_lt_of_le (pos_lt hr) hlen
    rw [(resultMat_spec n R hR).2.2 _ _ h1 h2] at hb
    exact ⟨hq, hr, of_decide_eq_true hb⟩
  · rintro ⟨hq, hr, hb⟩
    have h1 : idxOf order q < n := Nat.lt_of_lt_of_le (pos_lt hq) hlen
    have h2 : idxOf order r < n := Nat.lt_of_lt_of_le (pos_lt hr) hlen
    rw [(resultMat_spec n R hR).2.2 _ _ h1 h2]
    exact ⟨hq, hr, decide_eq_true hb⟩

theorem ltsSimOut_lt {T : LTS} {I : L.Rel} {n : Nat} {p : Nat × Nat} (h : p ∈ ltsSimOut T I n) : p.1 < n ∧ p.2 < n := by
  obtain ⟨x, y⟩ := p
  have := (restrict_output T I n x y).mp h
  exact ⟨this.1, this.2.1⟩

/-! ### C04, downward: the whole of `ComputeDownwardSimulation(n)` -/

/-- **`ComputeDownwardSimulation(n)` end to end**: for a ranked automaton with at most `n` states whatever the composition
(translation as coded, engine model, `buildResult`, `StateDiscontBinaryRelation`) returns is `downSimRef A` -/
theorem computeSimDown_eq (A : TA) (n : Nat) (hn : A.states.length ≤ n) (hrk : Ranked A) (R : Rel)
    (h : computeSimDown A n = some R) : ∀ q r, (q, r) ∈ R ↔ (q, r) ∈ downSimRef A := by
  intro q r
  unfold computeSimDown computeSimDownDisc at h
  simp only [Option.map_map, translateDownwardFast_eq] at h
  cases he : LE.computeSimulation1 (translateDownward A n (idxOf (downOrder A))) n with
  | none => rw [he] at h; cases h
  | some R0 =>
    rw [he] at h
    simp only [Option.map_some, Function.comp] at h
    injection h with h
    have heng := down_engine_eq A n _ R0 he
    have hR0 : ∀ p, p ∈ R0 → p.1 < n ∧ p.2 < n := fun p hp => ltsSimOut_lt ((heng p.1 p.2).mp hp)
    have hidx := idxOk_down A hn
    rw [← h, mem_discRel_of_engine (nodup_downOrder A) (by rw [length_downOrder]; exact hn) R0 hR0]
    constructor
    · rintro ⟨hq, hr, hb⟩
      have hq' := mem_downOrder.mp hq
      have hr' := mem_downOrder.mp hr
      exact (translateDownward_correct A n _ hidx hrk q r hq' hr').mp ((heng _ _).mp hb)
    · intro hqr
      obtain ⟨hq', hr'⟩ := downSimRef_sub A hqr
      exact ⟨mem_downOrder.mpr hq', mem_downOrder.mpr hr',
        (heng _ _).mpr ((translateDownward_correct A n _ hidx hrk q r hq' hr').mpr hqr)⟩

/-- … and it always returns (no hypothesis at all: the engine's fuel suffices on every LTS of `TranslateDownward`) -/
theorem computeSimDown_total (A : TA) (n : Nat) : ∃ R, computeSimDown A n = some R := by
  obtain ⟨R0, h⟩ := down_engine_total A n (idxOf (downOrder A))
  exact ⟨discRel (simDisc (downOrder A) n R0), by
    unfold computeSimDown computeSimDownDisc; simp only [translateDownwardFast_eq, h, Option.map_some]⟩

/-- non-vacuity: a ranked automaton with a binary symbol and five states -/
example : TaLtsEx.exA.states.length ≤ 5 ∧ Ranked TaLtsEx.exA ∧
    computeSimDown TaLtsEx.exA 5 = some [(2, 2), (2, 3), (3, 2), (3, 3), (0, 0), (0, 1), (1, 0), (1, 1), (4, 4)] :=
  ⟨by decide, rankedB_iff.mp (by decide), by decide +kernel⟩
-- a larger bound than the number of states, and the empty bound
example : computeSimDown TaLtsEx.exA 9 = computeSimDown TaLtsEx.exA 5 ∧ computeSimDown ⟨[], []⟩ 0 = some [] := by
  decide +kernel

/-- for states numbered below `n` (the way C04 states the precondition) -/
theorem length_states_le_of_lt (A : TA) (n : Nat) (h : ∀ q, q ∈ A.states → q < n) : A.states.length ≤ n := by
  have := (PropAux.nodup_states A).length_le_of_subset (l₂ := List.range n) (fun q hq => List.mem_range.mpr (h q hq))
  simpa using this

/-! ### the preconditions of the engine for `TranslateUpward` (what `C04.lean` listed as "only tested")

`N = (parents A).length` = `transitions_->size()`.  Hypotheses: `hidx` – the numbering is injective on the states with values
`< N` (what the code asserts); `hown` – every state owns a rule (no useless states); `hleaf` – there is a leaf rule (true for
an automaton without useless states that has a state at all; without it the leaf node `N` is in the partition but not a
state of the LTS, whose `states_` grows with the transitions only). -/

/-- **`LtsOK` for `TranslateUpward`** -/
theorem ltsOK_translateUpward (A : TA) (idx : Nat → Nat) : LE.LtsOK (translateUpward A idx).1 :=
  fun _ hed => lt_ltsSize hed 0

theorem ltsSize_le {B : Nat} : ∀ (edges : List (Nat × Nat × Nat)) (n0 : Nat), n0 ≤ B →
    (∀ e, e ∈ edges → e.1 < B ∧ e.2.2 < B) → ltsSize n0 edges ≤ B
  | [], n0, h0, _ => h0
  | e :: es, n0, h0, h => by
    have he := h e List.mem_cons_self
    have := ltsSize_le es (max n0 (max (e.1 + 1) (e.2.2 + 1))) (by omega) (fun e' he' => h e' (List.mem_cons_of_mem _ he'))
    simpa only [ltsSize, List.foldl_cons] using this

theorem envNode_lt {A : TA} {idx : Nat → Nat} {e : Env} (he : e ∈ envList A idx) :
    envNode A idx e < (parents A).length + 1 + (envList A idx).length := by
  have := pos_lt he
  unfold envNode
  omega

theorem env_state_lt {A : TA} {idx : Nat → Nat} (hidx : IdxOk A (parents A).length idx) {e : Env}
    (he : e ∈ envList A idx) : e.state < (parents A).length := by
  obtain ⟨ρ, hρ, _, i, _, rfl⟩ := mem_envList.mp he
  exact hidx.lt _ (SimModel.parent_mem_states hρ)

/-- the LTS has at most `N + 1 + #environments` states … -/
theorem up_n_le {A : TA} {idx : Nat → Nat} (hidx : IdxOk A (parents A).length idx) :
    (translateUpward A idx).1.n ≤ (parents A).length + 1 + (envList A idx).length := by
  apply ltsSize_le _ 0 (Nat.zero_le _)
  intro e he
  have he' : e ∈ (translateUpward A idx).1.edges := he
  rcases mem_upEdges.mp he' with ⟨ρ, hρ, h⟩ | ⟨env, henv, rfl⟩
  · rcases h with ⟨_, rfl⟩ | ⟨p, hk, rfl⟩ | ⟨hl, i, p, hip, rfl⟩
    · have := hidx.lt _ (SimModel.parent_mem_states hρ)
      simp only; omega
    · have h1 := hidx.lt _ (SimModel.parent_mem_states hρ)
      have h2 := hidx.lt p (SimModel.kid_mem_states hρ (by rw [hk]; exact List.mem_singleton.mpr rfl))
      simp only; omega
    · have h2 := hidx.lt p (SimModel.kid_mem_states hρ (List.mem_of_getElem? hip))
      have h3 := envNode_lt (mkEnv_mem (idx := idx) hρ hl hip)
      simp only; omega
  · have h1 := envNode_lt henv
    have h2 := env_state_lt hidx henv
    simp only; omega

/-- … and every state node, the leaf node (given a leaf rule) and every environment node is one of them -/
theorem up_state_lt_n {A : TA} {idx : Nat → Nat} {q : Nat} (hq : q ∈ parents A) : idx q < (translateUpward A idx).1.n := by
  obtain ⟨ρ, hρ, rfl⟩ := mem_parents.mp hq
  match hk : ρ.kids with
  | [] =>
    have he : ((parents A).length, pos ρ.sym (symList A), idx ρ.parent) ∈ (translateUpward A idx).1.edges :=
      mem_upEdges.mpr (Or.inl ⟨ρ, hρ, Or.inl ⟨hk, rfl⟩⟩)
    exact (lt_ltsSize he 0).2
  | [p] =>
    have he : (idx p, pos ρ.sym (symList A), idx ρ.parent) ∈ (translateUpward A idx).1.edges :=
      mem_upEdges.mpr (Or.inl ⟨ρ, hρ, Or.inr (Or.inl ⟨p, hk, rfl⟩)⟩)
    exact (lt_ltsSize he 0).2
  | p :: p' :: ks =>
    have hl : 2 ≤ ρ.kids.length := by rw [hk]; simp
    have hm : mkEnv A idx ρ 0 ∈ envList A idx := mkEnv_mem hρ hl (i := 0) (p := p) (by rw [hk]; rfl)
    exact (lt_ltsSize (env_edge_mem hm) 0).2

theorem up_leaf_lt_n {A : TA} {idx : Nat → Nat} (hleaf : ∃ ρ, ρ ∈ A.rules ∧ ρ.kids = []) :
    (parents A).length < (translateUpward A idx).1.n := by
  obtain ⟨ρ, hρ, hk⟩ := hleaf
  have he : ((parents A).length, pos ρ.sym (symList A), idx ρ.parent) ∈ (translateUpward A idx).1.edges :=
    mem_upEdges.mpr (Or.inl ⟨ρ, hρ, Or.inl ⟨hk, rfl⟩⟩)
  exact (lt_ltsSize he 0).1

theorem up_env_lt_n {A : TA} {idx : Nat → Nat} {e : Env} (he : e ∈ envList A idx) :
    envNode A idx e < (translateUpward A idx).1.n :=
  (lt_ltsSize (env_edge_mem he) 0).1

/-! #### the blocks -/

/-- the blocks of the state nodes -/
def stateBlocks (A : TA) (idx : Nat → Nat) : List (List Nat) :=
  if upBase A = 3 then
    [((parents A).filter (fun q => A.final.contains q)).map idx, ((parents A).filter (fun q => !A.final.contains q)).map idx]
  else [(parents A).map idx]

theorem upPartition_eq (A : TA) (idx : Nat → Nat) :
    upPartition A idx = stateBlocks A idx ++ [[(parents A).length]] ++ (headKeys A idx).map (envBlock A idx) := rfl

theorem length_stateBlocks (A : TA) (idx : Nat → Nat) : (stateBlocks A idx).length = upBase A - 1 := by
  unfold stateBlocks
  rcases upBase_cases A with ⟨h, _⟩ | ⟨h, _⟩ <;> simp [h]

theorem length_upPartition (A : TA) (idx : Nat → Nat) :
    (upPartition A idx).length = upBase A + (headKeys A idx).length := by
  rw [upPartition_eq]
  simp only [List.length_append, List.length_map, length_stateBlocks, List.length_cons, List.length_nil]
  rcases upBase_cases A with ⟨h, _⟩ | ⟨h, _⟩ <;> omega

/-- the state blocks together list the images of the states that own a rule, each once -/
theorem stateBlocks_flatten_perm (A : TA) (idx : Nat → Nat) : (stateBlocks A idx).flatten.Perm ((parents A).map idx) := by
  unfold stateBlocks
  split
  · simp only [List.flatten_cons, List.flatten_nil, List.append_nil, ← List.map_append]
    exact (List.filter_append_perm (fun q => A.final.contains q) (parents A)).map idx
  · simp only [List.flatten_cons, List.flatten_nil, List.append_nil]
    exact List.Perm.refl _

theorem nodup_parents_map {A : TA} {idx : Nat → Nat} (hidx : IdxOk A (parents A).length idx) :
    ((parents A).map idx).Nodup :=
  nodup_map_on (nodup_dedupG _) (fun x y hx hy => hidx.inj x y (parents_mem_states hx) (parents_mem_states hy))

theorem mem_envBlocks_flatten {A : TA} {idx : Nat → Nat} {x : Nat} :
    x ∈ ((headKeys A idx).map (envBlock A idx)).flatten ↔ ∃ e, e ∈ envList A idx ∧ x = envNode A idx e := by
  simp only [List.mem_flatten, List.mem_map]
  constructor
  · rintro ⟨b, ⟨k, _, rfl⟩, hx⟩
    obtain ⟨e, he, _, rfl⟩ := mem_envBlock.mp hx
    exact ⟨e, he, rfl⟩
  · rintro ⟨e, he, rfl⟩
    exact ⟨envBlock A idx e.key, ⟨e.key, mem_dedupG.mpr (List.mem_map.mpr ⟨e, he, rfl⟩), rfl⟩,
      mem_envBlock.mpr ⟨e, he, rfl, rfl⟩⟩

/-- grouping a duplicate-free list by a key, along a duplicate-free list of keys, repeats nothing -/
theorem nodup_grouped {ε κ : Type} [DecidableEq κ] (key : ε → κ) (f : ε → Nat) (elems : List ε) (hnd : elems.Nodup)
    (hinj : ∀ x y, x ∈ elems → y ∈ elems → f x = f y → x = y) : ∀ keys : List κ, keys.Nodup →
    ((keys.map (fun k => (elems.filter (fun e => decide (key e = k))).map f)).flatten).Nodup
  | [], _ => by simp
  | k :: ks, hk => by
    obtain ⟨hkn, hks⟩ := List.nodup_cons.mp hk
    rw [List.map_cons, List.flatten_cons, List.nodup_append]
    refine ⟨?_, nodup_grouped key f elems hnd hinj ks hks, ?_⟩
    · exact nodup_map_on (List.Nodup.sublist List.filter_sublist hnd)
        (fun x y hx hy => hinj x y (List.mem_filter.mp hx).1 (List.mem_filter.mp hy).1)
    · intro a ha b hb hab
      obtain ⟨e, he, rfl⟩ := List.mem_map.mp ha
      obtain ⟨bl, hbl, hbb⟩ := List.mem_flatten.mp hb
      obtain ⟨k', hk', rfl⟩ := List.mem_map.mp hbl
      obtain ⟨e', he', rfl⟩ := List.mem_map.mp hbb
      obtain ⟨h1, h2⟩ := List.mem_filter.mp he
      obtain ⟨h1', h2'⟩ := List.mem_filter.mp he'
      have : e = e' := hinj e e' h1 h1' hab
      subst this
      have e1 : key e = k := of_decide_eq_true h2
      have e2 : key e = k' := of_decide_eq_true h2'
      exact hkn (e1 ▸ e2 ▸ hk')

theorem nodup_envBlocks_flatten (A : TA) (idx : Nat → Nat) : ((headKeys A idx).map (envBlock A idx)).flatten.Nodup :=
  nodup_grouped Env.key (envNode A idx) (envList A idx) (nodup_dedupG _)
    (fun _ _ hx _ h => envNode_inj hx h) (headKeys A idx) (nodup_dedupG _)

theorem upPartition_flatten (A : TA) (idx : Nat → Nat) : (upPartition A idx).flatten =
    (stateBlocks A idx).flatten ++ ([(parents A).length] ++ ((headKeys A idx).map (envBlock A idx)).flatten) := by
  rw [upPartition_eq]
  simp only [List.flatten_append, List.flatten_cons, List.flatten_nil, List.append_nil, List.append_assoc]

theorem mem_upPartition_flatten {A : TA} {idx : Nat → Nat} {x : Nat} : x ∈ (upPartition A idx).flatten ↔
    (∃ q, q ∈ parents A ∧ x = idx q) ∨ x = (parents A).length ∨ ∃ e, e ∈ envList A idx ∧ x = envNode A idx e := by
  rw [upPartition_flatten, List.mem_append, List.mem_append, (stateBlocks_flatten_perm A idx).mem_iff, List.mem_map,
    List.mem_singleton, mem_envBlocks_flatten]
  constructor
  · rintro (⟨q, hq, rfl⟩ | h | h)
    · exact Or.inl ⟨q, hq, rfl⟩
    · exact Or.inr (Or.inl h)
    · exact Or.inr (Or.inr h)
  · rintro (⟨q, hq, rfl⟩ | h | h)
    · exact Or.inl ⟨q, hq, rfl⟩
    · exact Or.inr (Or.inl h)
    · exact Or.inr (Or.inr h)

theorem nodup_upPartition_flatten {A : TA} {idx : Nat → Nat} (hidx : IdxOk A (parents A).length idx) :
    (upPartition A idx).flatten.Nodup := by
  rw [upPartition_flatten, List.nodup_append]
  refine ⟨(stateBlocks_flatten_perm A idx).nodup_iff.mpr (nodup_parents_map hidx), ?_, ?_⟩
  · rw [List.nodup_append]
    refine ⟨by simp, nodup_envBlocks_flatten A idx, ?_⟩
    intro a ha b hb hab
    obtain ⟨e, _, rfl⟩ := mem_envBlocks_flatten.mp hb
    have := envNode_gt A idx e
    rw [List.mem_singleton] at ha
    omega
  · intro a ha b hb hab
    obtain ⟨q, hq, rfl⟩ := List.mem_map.mp ((stateBlocks_flatten_perm A idx).mem_iff.mp ha)
    have hlt := hidx.lt q (parents_mem_states hq)
    rcases List.mem_append.mp hb with hb | hb
    · rw [List.mem_singleton] at hb
      omega
    · obtain ⟨e, _, rfl⟩ := mem_envBlocks_flatten.mp hb
      have := envNode_gt A idx e
      omega

/-- no block is empty -/
theorem upPartition_nonempty {A : TA} {idx : Nat → Nat} (hown : AllOwnRule A) (hrule : A.rules ≠ []) :
    ∀ b, b ∈ upPartition A idx → b ≠ [] := by
  intro b hb
  rw [upPartition_eq, List.mem_append, List.mem_append] at hb
  rcases hb with (hb | hb) | hb
  · unfold stateBlocks at hb
    rcases upBase_cases A with ⟨h3, hpos, hlt⟩ | ⟨h2, _⟩
    · rw [if_pos h3] at hb
      simp only [List.mem_cons, List.not_mem_nil, or_false] at hb
      rcases hb with rfl | rfl
      · obtain ⟨f, hf⟩ := List.exists_mem_of_length_pos hpos
        have hf' : f ∈ A.final := mem_dedupG.mp hf
        have hp : f ∈ parents A := mem_parents.mpr (hown f (SimModel.final_mem_states hf'))
        exact List.ne_nil_of_mem (mem_finBlock.mpr ⟨f, hp, hf', rfl⟩)
      · -- some state that owns a rule is not final, else there would be at least as many final states
        have hex : ∃ p, p ∈ parents A ∧ p ∉ A.final := by
          refine Classical.byContradiction fun hn => ?_
          have hsub : parents A ⊆ dedupG A.final := by
            intro p hp
            refine mem_dedupG.mpr (Classical.byContradiction fun hpf => hn ⟨p, hp, hpf⟩)
          have := (nodup_dedupG (A.rules.map Rule.parent)).length_le_of_subset hsub
          unfold parents at hlt
          omega
        obtain ⟨p, hp, hpf⟩ := hex
        exact List.ne_nil_of_mem (mem_nonfinBlock.mpr ⟨p, hp, hpf, rfl⟩)
    · rw [if_neg (by omega)] at hb
      rw [List.mem_singleton] at hb
      subst hb
      obtain ⟨ρ, hρ⟩ := List.exists_mem_of_ne_nil _ hrule
      exact List.ne_nil_of_mem (List.mem_map.mpr ⟨ρ.parent, mem_parents.mpr ⟨ρ, hρ, rfl⟩, rfl⟩)
  · rw [List.mem_singleton] at hb
    subst hb
    simp
  · obtain ⟨k, hk, rfl⟩ := List.mem_map.mp hb
    obtain ⟨e, he, hek⟩ := List.mem_map.mp (mem_dedupG.mp hk)
    exact List.ne_nil_of_mem (mem_envBlock.mpr ⟨e, he, hek, rfl⟩)

/-- the converse of `LE.isPartition_spec` -/
theorem isPartition_of_spec {part : List (List Nat)} {n : Nat} (h1 : ∀ b, b ∈ part → b ≠ [])
    (h2 : ∀ q, q ∈ part.flatten ↔ q < n) (h3 : part.flatten.Nodup) : LE.isPartition part n = true := by
  simp only [LE.isPartition, Bool.and_eq_true, List.all_eq_true, Bool.not_eq_true', decide_eq_true_eq,
    List.mem_range, beq_iff_eq]
  refine ⟨⟨?_, fun q hq => (h2 q).mp hq⟩, ?_⟩
  · intro b hb
    cases hbe : b with
    | nil => exact absurd hbe (h1 b hb)
    | cons _ _ => rfl
  · intro q hq
    rw [h3.count, if_pos ((h2 q).mpr hq)]

/-- **`isPartition` for `TranslateUpward`**: the blocks are non-empty and list every state `0 … states_-1` of the LTS exactly
once -/
theorem upPartition_isPartition {A : TA} {idx : Nat → Nat} (hidx : IdxOk A (parents A).length idx) (hown : AllOwnRule A)
    (hleaf : ∃ ρ, ρ ∈ A.rules ∧ ρ.kids = []) :
    LE.isPartition (translateUpward A idx).2.1 (translateUpward A idx).1.n = true := by
  have hrule : A.rules ≠ [] := by
    obtain ⟨ρ, hρ, _⟩ := hleaf
    exact List.ne_nil_of_mem hρ
  refine isPartition_of_spec (upPartition_nonempty hown hrule) ?_ (nodup_upPartition_flatten hidx)
  intro x
  show x ∈ (upPartition A idx).flatten ↔ _
  rw [mem_upPartition_flatten]
  constructor
  · rintro (⟨q, hq, rfl⟩ | rfl | ⟨e, he, rfl⟩)
    · exact up_state_lt_n hq
    · exact up_leaf_lt_n hleaf
    · exact up_env_lt_n he
  · intro hx
    have hle := up_n_le hidx
    rcases Nat.lt_trichotomy x (parents A).length with hlt | heq | hgt
    · obtain ⟨q, hq, he⟩ := surj_of_inj_lt (nodup_dedupG (A.rules.map Rule.parent))
        (fun a b ha hb => hidx.inj a b (parents_mem_states ha) (parents_mem_states hb))
        (fun a ha => hidx.lt a (parents_mem_states ha)) x hlt
      exact Or.inl ⟨q, hq, he.symm⟩
    · exact Or.inr (Or.inl heq)
    · have hi : x - (parents A).length - 1 < (envList A idx).length := by omega
      refine Or.inr (Or.inr ⟨(envList A idx)[x - (parents A).length - 1], List.getElem_mem hi, ?_⟩)
      have hnd : (envList A idx).Nodup := nodup_dedupG _
      unfold envNode
      rw [pos_getElem hnd (List.getElem?_eq_getElem hi)]
      omega

/-- non-vacuity: the numbering of the fresh translator on `exB`; four environments in three classes -/
example : IdxOk TaLtsEx.exB (parents TaLtsEx.exB).length (idxOf (upOrder TaLtsEx.exB)) ∧ AllOwnRule TaLtsEx.exB ∧
    (∃ ρ, ρ ∈ TaLtsEx.exB.rules ∧ ρ.kids = []) ∧
    (translateUpward TaLtsEx.exB (idxOf (upOrder TaLtsEx.exB))).2.1 = [[1, 2, 3], [0], [4], [5, 7], [6], [8]] ∧
    (translateUpward TaLtsEx.exB (idxOf (upOrder TaLtsEx.exB))).1.n = 9 :=
  ⟨idxOkB_iff.mp (by decide), allOwnRuleB_iff.mp (by decide), ⟨⟨0, [], 0⟩, by decide, rfl⟩, by decide, by decide⟩

/-! #### the relation on the blocks -/

/-- the relation on the blocks in words: below `base` the diagonal and, with three state blocks, non-final ≤ final;
above it the pairs of equal environment classes -/
theorem mem_upBlockRel {A : TA} {idx : Nat → Nat} {i j : Nat} : (i, j) ∈ upBlockRel A idx ↔
    (i < upBase A ∧ j < upBase A ∧ (i = j ∨ (upBase A = 3 ∧ i = 1 ∧ j = 0))) ∨ (i, j) ∈ envPairs A idx (upBase A) := by
  rcases upBase_cases A with ⟨hb, _⟩ | ⟨hb, _⟩
  · rw [upBlockRel_three hb]
    simp only [List.mem_cons, Prod.mk.injEq]
    constructor
    · rintro (h | h | h | h | h)
      · exact Or.inl (by omega)
      · exact Or.inl (by omega)
      · exact Or.inl (by omega)
      · exact Or.inl (by omega)
      · exact Or.inr (hb ▸ h)
    · rintro (h | h)
      · have : (i = 0 ∧ j = 0) ∨ (i = 1 ∧ j = 0) ∨ (i = 1 ∧ j = 1) ∨ (i = 2 ∧ j = 2) := by omega
        rcases this with h | h | h | h
        · exact Or.inl h
        · exact Or.inr (Or.inl h)
        · exact Or.inr (Or.inr (Or.inl h))
        · exact Or.inr (Or.inr (Or.inr (Or.inl h)))
      · exact Or.inr (Or.inr (Or.inr (Or.inr (hb ▸ h))))
  · rw [upBlockRel_two hb]
    simp only [List.mem_cons, Prod.mk.injEq]
    constructor
    · rintro (h | h | h)
      · exact Or.inl (by omega)
      · exact Or.inl (by omega)
      · exact Or.inr (hb ▸ h)
    · rintro (h | h)
      · have : (i = 0 ∧ j = 0) ∨ (i = 1 ∧ j = 1) := by omega
        rcases this with h | h
        · exact Or.inl h
        · exact Or.inr (Or.inl h)
      · exact Or.inr (Or.inr (hb ▸ h))

/-- **`isConsistent` for `TranslateUpward`**: the relation on the block numbers is reflexive -/
theorem upBlockRel_consistent (A : TA) (idx : Nat → Nat) :
    LE.isConsistent (translateUpward A idx).2.1 (translateUpward A idx).2.2 = true := by
  show LE.isConsistent (upPartition A idx) (upBlockRel A idx) = true
  simp only [LE.isConsistent, List.all_eq_true, List.mem_range, List.contains_iff_mem, length_upPartition]
  intro i hi
  rw [mem_upBlockRel]
  by_cases hb : i < upBase A
  · exact Or.inl ⟨hb, hb, Or.inl rfl⟩
  · have hi' : i - upBase A < (headKeys A idx).length := by omega
    exact Or.inr (mem_envPairs'.mpr ⟨i - upBase A, i - upBase A, (headKeys A idx)[i - upBase A],
      List.getElem?_eq_getElem hi', List.getElem?_eq_getElem hi', by omega, by omega⟩)

/-- **`RelTrans` for `TranslateUpward`**: the relation on the block numbers is transitive (not asserted by the C++, needed
by the engine) -/
theorem upBlockRel_trans (A : TA) (idx : Nat → Nat) :
    LE.RelTrans (translateUpward A idx).2.1 (translateUpward A idx).2.2 := by
  intro i j k _ _ _ h1 h2
  show (i, k) ∈ upBlockRel A idx
  have h1' : (i, j) ∈ upBlockRel A idx := h1
  have h2' : (j, k) ∈ upBlockRel A idx := h2
  rw [mem_upBlockRel] at h1' h2' ⊢
  rcases h1' with h1' | h1'
  · rcases h2' with h2' | h2'
    · exact Or.inl (by omega)
    · obtain ⟨_, _, _, _, _, hj, _⟩ := mem_envPairs'.mp h2'
      omega
  · obtain ⟨a, b, c, ha, hb, hi, hj⟩ := mem_envPairs'.mp h1'
    rcases h2' with h2' | h2'
    · omega
    · obtain ⟨b', d, c', hb', hd, hj', hk⟩ := mem_envPairs'.mp h2'
      have : b = b' := by omega
      subst this
      rw [hb] at hb'
      cases hb'
      exact Or.inr (mem_envPairs'.mpr ⟨a, d, c, ha, hd, hi, hk⟩)

example : upBlockRel TaLtsEx.exB (idxOf (upOrder TaLtsEx.exB)) =
    [(0, 0), (1, 0), (1, 1), (2, 2), (3, 3), (4, 4), (5, 5)] := by decide

/-! #### the initial relation as the engine reads it is the one the translation theorem is about -/

/-- for a partition, "the block of `x` is related to the block of `y`" (`LE.initRel`, through `index_`) is "some related
blocks contain `x` and `y`" (`TaLts.blockRel`) -/
theorem initRel_iff_blockRel {part : List (List Nat)} {rel : L.Rel} {n : Nat} (hp : LE.isPartition part n = true)
    (p : Nat × Nat) : p ∈ LE.initRel part rel ↔ p ∈ blockRel part rel := by
  obtain ⟨x, y⟩ := p
  obtain ⟨_, _, hnd⟩ := LE.isPartition_spec hp
  obtain ⟨hdisj, _⟩ := LE.disjoint_of_flatten_nodup part hnd
  have hmem : ∀ z, z ∈ part.flatten → z ∈ part.getD (LE.blockOf part z) [] := by
    intro z hz
    obtain ⟨b, hb, hzb⟩ := List.mem_flatten.mp hz
    obtain ⟨i, _, he⟩ := (LE.mem_iff_getD [] part b).mp hb
    exact (LE.blockOf_lt part z ⟨i, by rw [he]; exact hzb⟩).2
  have hflat : ∀ z i, z ∈ part.getD i [] → z ∈ part.flatten := by
    intro z i hz
    have hi : i < part.length := by
      refine Classical.byContradiction fun hn => ?_
      rw [LE.getD_ge _ _ _ (Nat.le_of_not_lt hn)] at hz
      cases hz
    exact List.mem_flatten.mpr ⟨_, LE.getD_mem [] part i hi, hz⟩
  rw [LE.mem_initRel, mem_blockRel]
  constructor
  · rintro ⟨hx, hy, hr⟩
    exact ⟨_, _, hr, hmem x hx, hmem y hy⟩
  · rintro ⟨i, j, hr, hx, hy⟩
    refine ⟨hflat x i hx, hflat y j hy, ?_⟩
    rw [LE.blockOf_eq part x i hdisj hx, LE.blockOf_eq part y j hdisj hy]
    exact hr

/-! ### C04, upward: the whole of `ComputeUpwardSimulation(n)` -/

/-- the hypothesis of the upward route that `AllOwnRule` does not give: unless `n = 0` (then `computeSimulation` returns at
once) there is a leaf rule.  It is NEEDED: `ExplicitLTS::states_` grows with the transitions only, so without a leaf rule
the leaf node `N` is in the partition but not a state of the LTS; on `a(0) → 0`, `F = {0}`, `n = 1` the real library
writes behind `index_` in `makeBlock` (heap-buffer-overflow under ASan), and on the automaton without rules and `n = 1` it
is handed an empty block.  Both inputs are outside C04 (useless states, resp. `n` is not the number of states). -/
def LeafOk (A : TA) (n : Nat) : Prop := n = 0 ∨ ∃ ρ, ρ ∈ A.rules ∧ ρ.kids = []

theorem hasLeafB_iff {A : TA} : hasLeafB A = true ↔ ∃ ρ, ρ ∈ A.rules ∧ ρ.kids = [] := by
  simp only [hasLeafB, List.any_eq_true, List.isEmpty_iff]

/-- the engine model on the output of `TranslateUpward`: what it returns is the reference for the initial relation
`TaLts.blockRel` of `translateUpward_correct` -/
theorem up_engine_eq {A : TA} {idx : Nat → Nat} (hidx : IdxOk A (parents A).length idx) (hown : AllOwnRule A) {n : Nat}
    (hleaf : LeafOk A n) (R : L.Rel)
    (h : LE.computeSimulation (translateUpward A idx).1 (translateUpward A idx).2.1 (translateUpward A idx).2.2 n = some R)
    (x y : Nat) : (x, y) ∈ R ↔
      (x, y) ∈ ltsSimOut (translateUpward A idx).1 (blockRel (translateUpward A idx).2.1 (translateUpward A idx).2.2) n := by
  by_cases hn : n = 0
  · subst hn
    have : R = [] := by
      have h' : some ([] : L.Rel) = some R := h
      injection h' with h'
      exact h'.symm
    subst this
    simp only [List.not_mem_nil, false_iff]
    exact not_mem_ltsSimOut_zero _ _ x y
  · have hl : ∃ ρ, ρ ∈ A.rules ∧ ρ.kids = [] := hleaf.resolve_left hn
    have hp := upPartition_isPartition hidx hown hl
    rw [LE.engine_result_eq (ltsOK_translateUpward A idx) hp (upBlockRel_consistent A idx) (upBlockRel_trans A idx) n R h x y]
    exact LE.ltsSimOut_congr _ (initRel_iff_blockRel hp) n x y

theorem up_engine_total {A : TA} {idx : Nat → Nat} (hidx : IdxOk A (parents A).length idx) (hown : AllOwnRule A) {n : Nat}
    (hleaf : LeafOk A n) :
    ∃ R, LE.computeSimulation (translateUpward A idx).1 (translateUpward A idx).2.1 (translateUpward A idx).2.2 n = some R := by
  by_cases hn : n = 0
  · subst hn
    exact ⟨[], rfl⟩
  · have hl : ∃ ρ, ρ ∈ A.rules ∧ ρ.kids = [] := hleaf.resolve_left hn
    exact LE.engine_total (ltsOK_translateUpward A idx) (upPartition_isPartition hidx hown hl)
      (upBlockRel_consistent A idx) (upBlockRel_trans A idx) n

/-- **`ComputeUpwardSimulation(n)` end to end** (the repaired `TranslateUpward`): for an automaton in which every state owns
a rule, with at most `n` states (and a leaf rule unless `n = 0`), whatever the composition returns is `upSimRef A` -/
theorem computeSimUp_eq (A : TA) (n : Nat) (hown : AllOwnRule A) (hn : A.states.length ≤ n) (hleaf : LeafOk A n) (R : Rel)
    (h : computeSimUp A n = some R) : ∀ q r, (q, r) ∈ R ↔ (q, r) ∈ upSimRef A := by
  intro q r
  have hidx := idxOk_up hown
  have hsize : (parents A).length ≤ n := by rw [length_parents_of_own hown]; exact hn
  unfold computeSimUp computeSimUpDisc at h
  simp only [Option.map_map, translateUpwardFast_eq] at h
  cases he : LE.computeSimulation (translateUpward A (idxOf (upOrder A))).1 (translateUpward A (idxOf (upOrder A))).2.1
      (translateUpward A (idxOf (upOrder A))).2.2 n with
  | none => rw [he] at h; cases h
  | some R0 =>
    rw [he] at h
    simp only [Option.map_some, Function.comp] at h
    injection h with h
    have heng := up_engine_eq hidx hown hleaf R0 he
    have hR0 : ∀ p, p ∈ R0 → p.1 < n ∧ p.2 < n := fun p hp => ltsSimOut_lt ((heng p.1 p.2).mp hp)
    rw [← h, mem_discRel_of_engine (nodup_upOrder A) (by rw [length_upOrder_of_own hown]; exact hsize) R0 hR0]
    constructor
    · rintro ⟨hq, hr, hb⟩
      have hq' := (mem_upOrder_of_own hown).mp hq
      have hr' := (mem_upOrder_of_own hown).mp hr
      exact (translateUpward_correct A n _ hidx hsize hown q r hq' hr').mp ((heng _ _).mp hb)
    · intro hqr
      obtain ⟨hq', hr'⟩ := upSimRef_sub A hqr
      exact ⟨(mem_upOrder_of_own hown).mpr hq', (mem_upOrder_of_own hown).mpr hr',
        (heng _ _).mpr ((translateUpward_correct A n _ hidx hsize hown q r hq' hr').mpr hqr)⟩

/-- … and it returns -/
theorem computeSimUp_total (A : TA) (n : Nat) (hown : AllOwnRule A) (hleaf : LeafOk A n) :
    ∃ R, computeSimUp A n = some R := by
  obtain ⟨R0, h⟩ := up_engine_total (idxOk_up hown) hown hleaf
  exact ⟨discRel (simDisc (upOrder A) n R0), by
    unfold computeSimUp computeSimUpDisc
    simp only [translateUpwardFast_eq, h, Option.map_some]⟩

/-- non-vacuity: final and non-final states (three state blocks), binary rules, four states -/
example : AllOwnRule TaLtsEx.exB ∧ TaLtsEx.exB.states.length ≤ 4 ∧ LeafOk TaLtsEx.exB 4 ∧
    computeSimUp TaLtsEx.exB 4 = some [(0, 0), (2, 2), (3, 2), (3, 3), (3, 4), (4, 4)] :=
  ⟨allOwnRuleB_iff.mp (by decide), by decide, Or.inr (hasLeafB_iff.mp (by decide)), by decide +kernel⟩

/-! #### "without useless states" gives both hypotheses -/

/-- a state some tree reaches owns a rule -/
theorem own_of_productive {A : TA} {q : Nat} (h : Productive A q) : ∃ ρ, ρ ∈ A.rules ∧ ρ.parent = q := by
  obtain ⟨t, ht⟩ := h
  cases t with
  | node f ts =>
    simp only [reach] at ht
    obtain ⟨ρ, hρ, _, _, hp⟩ := mem_post'.mp ht
    exact ⟨ρ, hρ, hp⟩

/-- if some tree reaches some state there is a leaf rule (follow the first children down to a leaf) -/
theorem leaf_of_reach (A : TA) : ∀ (t : Tree) (q : Nat), q ∈ reach A t → ∃ ρ, ρ ∈ A.rules ∧ ρ.kids = []
  | .node f [], q, h => by
    simp only [reach, reachL] at h
    obtain ⟨ρ, hρ, _, hm, _⟩ := mem_post'.mp h
    refine ⟨ρ, hρ, ?_⟩
    cases hk : ρ.kids with
    | nil => rfl
    | cons k ks => rw [hk] at hm; simp [matchKids] at hm
  | .node f (t :: ts), q, h => by
    simp only [reach, reachL] at h
    obtain ⟨ρ, hρ, _, hm, _⟩ := mem_post'.mp h
    cases hk : ρ.kids with
    | nil => exact ⟨ρ, hρ, hk⟩
    | cons k ks =>
      rw [hk] at hm
      simp only [matchKids, Bool.and_eq_true, List.contains_iff_mem] at hm
      exact leaf_of_reach A t k hm.1

theorem allOwnRule_of_productive {A : TA} (h : ∀ q, q ∈ A.states → Productive A q) : AllOwnRule A :=
  fun q hq => own_of_productive (h q hq)

/-- with `n` the number of states (what C04 asks to be passed) -/
theorem leafOk_of_productive {A : TA} (h : ∀ q, q ∈ A.states → Productive A q) : LeafOk A A.states.length := by
  cases hs : A.states with
  | nil => exact Or.inl rfl
  | cons q qs =>
    obtain ⟨t, ht⟩ := h q (by rw [hs]; exact List.mem_cons_self)
    exact Or.inr (leaf_of_reach A t q ht)

/-! ### C05: `Reduce` as coded -/

theorem lookup_bwd {order : List Nat} (hnd : order.Nodup) (n : Nat) (R : L.Rel) (i : Nat) (hi : i < order.length) :
    (simDisc order n R).dict.bwd.lookup i = order[i]? := by
  rw [(dict_simDisc hnd n R).2, List.getElem?_eq_getElem hi]
  apply lookup_of_mem_nodup
  · rw [List.map_map]
    exact (translPairs_nodup hnd).2
  · exact List.mem_map.mpr ⟨(order[i], i), List.mem_zipIdx_iff_getElem?.mpr (List.getElem?_eq_getElem hi), rfl⟩

/-- the class-level part of `Reduce` (`RestrictToSymmetric`, `GetQuotientProjection` on the `StateDiscontBinaryRelation`
around the matrix of `buildResult`) refines the list-of-rows functions of `Vata/ReduceModel.lean`; no hypothesis on `A` -/
theorem collapseMapAsCoded_spec (A : TA) :
    ∃ R0, LE.computeSimulation1 (translateDownward A A.states.length (idxOf (downOrder A))) A.states.length = some R0 ∧
      collapseMapAsCoded A = some (projToMap (downOrder A)
        (quotientProjectionIdx (restrictToSymmetric (resultMat A.states.length R0).toBMat))) := by
  obtain ⟨R0, he⟩ := down_engine_total A A.states.length (idxOf (downOrder A))
  refine ⟨R0, he, ?_⟩
  have heng := down_engine_eq A _ _ R0 he
  have hR0 : ∀ p, p ∈ R0 → p.1 < A.states.length ∧ p.2 < A.states.length :=
    fun p hp => ltsSimOut_lt ((heng p.1 p.2).mp hp)
  obtain ⟨w, hsz, _⟩ := resultMat_spec A.states.length R0 hR0
  obtain ⟨_, k2, _, k4, _⟩ := Mat.restrictToSymmetric_refines w
  have hq := Disc.quotProj_eq_projToMap (simDisc (downOrder A) A.states.length R0).restrictToSymmetric (downOrder A)
    (by
      show (downOrder A).length = (resultMat A.states.length R0).restrictToSymmetric.size
      rw [k2, hsz, length_downOrder])
    (fun i hi => lookup_bwd (nodup_downOrder A) A.states.length R0 i hi)
  have hrel : (simDisc (downOrder A) A.states.length R0).restrictToSymmetric.rel.toBMat =
      restrictToSymmetric (resultMat A.states.length R0).toBMat := k4
  rw [hrel] at hq
  unfold collapseMapAsCoded computeSimDownDisc
  simp only [translateDownwardFast_eq, he, Option.map_some, hq]

/-- for a ranked automaton the matrix `buildResult` fills is the matrix of `downSimRef A` over the numbering -/
theorem resultMat_eq_relMatrix (A : TA) (hrk : Ranked A) (R0 : L.Rel)
    (he : LE.computeSimulation1 (translateDownward A A.states.length (idxOf (downOrder A))) A.states.length = some R0) :
    (resultMat A.states.length R0).toBMat = relMatrix (downSimRef A) (downOrder A) := by
  have heng := down_engine_eq A _ _ R0 he
  have hR0 : ∀ p, p ∈ R0 → p.1 < A.states.length ∧ p.2 < A.states.length :=
    fun p hp => ltsSimOut_lt ((heng p.1 p.2).mp hp)
  obtain ⟨_, hsz, hget⟩ := resultMat_spec A.states.length R0 hR0
  have hidx := idxOk_down A (Nat.le_refl _)
  have hlen := length_downOrder A
  have hsq1 := Mat.square_toBMat (resultMat A.states.length R0)
  rw [hsz] at hsq1
  have hsq2 := RM.square_relMatrix (downSimRef A) (downOrder A)
  rw [hlen] at hsq2
  apply Mat.bmat_ext hsq1 hsq2
  intro i j hi hj
  have hi' : i < (downOrder A).length := by rw [hlen]; exact hi
  have hj' : j < (downOrder A).length := by rw [hlen]; exact hj
  rw [Mat.mget_toBMat (by rw [hsz]; exact hi) (by rw [hsz]; exact hj), hget i j hi hj, RM.mget_relMatrix _ _ hi' hj']
  have gi : (downOrder A).getD i 0 = (downOrder A)[i] := by
    rw [List.getD_eq_getElem?_getD, List.getElem?_eq_getElem hi']; rfl
  have gj : (downOrder A).getD j 0 = (downOrder A)[j] := by
    rw [List.getD_eq_getElem?_getD, List.getElem?_eq_getElem hj']; rfl
  rw [gi, gj]
  have hqi : (downOrder A)[i] ∈ A.states := mem_downOrder.mp (List.getElem_mem hi')
  have hqj : (downOrder A)[j] ∈ A.states := mem_downOrder.mp (List.getElem_mem hj')
  have pi : idxOf (downOrder A) (downOrder A)[i] = i := pos_getElem (nodup_downOrder A) (List.getElem?_eq_getElem hi')
  have pj : idxOf (downOrder A) (downOrder A)[j] = j := pos_getElem (nodup_downOrder A) (List.getElem?_eq_getElem hj')
  have key := translateDownward_correct A A.states.length _ hidx hrk _ _ hqi hqj
  rw [pi, pj, ← heng i j] at key
  rw [Bool.eq_iff_iff, decide_eq_true_iff, List.contains_iff_mem]
  exact key

/-- the collapse map `Reduce` computes is the one of `Vata/ReduceModel.lean` for the numbering `downOrder A` -/
theorem collapseMapAsCoded_eq (A : TA) (hrk : Ranked A) : collapseMapAsCoded A = some (quotientMap A (downOrder A)) := by
  obtain ⟨R0, he, h⟩ := collapseMapAsCoded_spec A
  rw [h, resultMat_eq_relMatrix A hrk R0 he]
  rfl

/-- **refinement**: `Reduce` as coded (translation, engine model, `buildResult`, the flat matrix class, the two-way
dictionary) returns the automaton of `reduceModel` (`downSimRef` as a list-of-rows matrix) for the numbering `downOrder A` -/
theorem reduceAsCoded_eq_reduceModel (A : TA) (hrk : Ranked A) : reduceAsCoded A = some (reduceModel A (downOrder A)) := by
  unfold reduceAsCoded
  rw [collapseMapAsCoded_eq A hrk]
  rfl

/-- non-vacuity: `exA` (states `0 ≈ 1`, `2 ≈ 3`; the numbering is `2, 3, 0, 1, 4`) -/
example : Ranked TaLtsEx.exA ∧ downOrder TaLtsEx.exA = [2, 3, 0, 1, 4] ∧
    collapseMapAsCoded TaLtsEx.exA = some [(2, 2), (3, 2), (0, 0), (1, 0), (4, 4)] ∧
    (reduceAsCoded TaLtsEx.exA).map (fun B => (B.rules, B.final)) =
      some ([⟨0, [], 0⟩, ⟨0, [], 0⟩, ⟨1, [0, 0], 2⟩, ⟨1, [0, 0], 2⟩], [2, 2]) :=
  ⟨rankedB_iff.mp (by decide), by decide, by decide +kernel, by decide +kernel⟩

/-- **C05, language** -/
theorem reduceAsCoded_lang (A : TA) (hrk : Ranked A) (B : TA) (h : reduceAsCoded A = some B) : LangEq B A := by
  rw [reduceAsCoded_eq_reduceModel A hrk] at h
  injection h with h
  rw [← h]
  exact fun t => reduceModel_lang A (downOrder A) (downOrder_perm A) t

/-- whatever is returned is `RemoveUnreachableStates(CollapseStates(m))` for some map (no hypothesis) -/
theorem reduceAsCoded_shape (A : TA) (B : TA) (h : reduceAsCoded A = some B) :
    ∃ m, collapseMapAsCoded A = some m ∧ B = removeUnreachable (reindex (applyMap m) A) := by
  unfold reduceAsCoded at h
  cases hm : collapseMapAsCoded A with
  | none => rw [hm] at h; cases h
  | some m =>
    rw [hm] at h
    injection h with h
    exact ⟨m, rfl, h.symm⟩

/-- **C05, size**: never more states, never more distinct rules, never more rule-list entries, and every state of the
result is the image of a state of `A` under the collapse map – for every automaton, ranked or not -/
theorem reduceAsCoded_never_grows (A : TA) (B : TA) (h : reduceAsCoded A = some B) :
    B.states.length ≤ A.states.length ∧ B.rules.eraseDups.length ≤ A.rules.eraseDups.length ∧
    B.rules.length ≤ A.rules.length ∧
    ∃ m, collapseMapAsCoded A = some m ∧ ∀ x, x ∈ B.states → ∃ q, q ∈ A.states ∧ x = applyMap m q := by
  obtain ⟨m, hm, rfl⟩ := reduceAsCoded_shape A B h
  exact ⟨PropAux.states_reduce_length _ A,
    RM.distinct_le_of_image (mapRule (applyMap m)) _ _ (RM.rules_reduce_image _ A),
    PropAux.rules_reduce_length _ A, m, hm, fun _ hx => PropAux.states_reduce hx⟩

/-- **totality**: the engine's fuel suffices and no dictionary look-up of `GetQuotientProjection` fails -/
theorem reduceAsCoded_total (A : TA) : ∃ B, reduceAsCoded A = some B := by
  obtain ⟨R0, _, h⟩ := collapseMapAsCoded_spec A
  exact ⟨_, by unfold reduceAsCoded; rw [h]; rfl⟩

example : ∃ B, reduceAsCoded TaLtsEx.exU = some B := reduceAsCoded_total _

/-- the states of the result are states of `A`, images under the projection of `Vata/ReduceModel.lean` -/
theorem reduceAsCoded_states (A : TA) (hrk : Ranked A) (B : TA) (h : reduceAsCoded A = some B) {x : Nat}
    (hx : x ∈ B.states) : x ∈ A.states ∧ ∃ q, q ∈ A.states ∧ x = quotientProjection A (downOrder A) q := by
  rw [reduceAsCoded_eq_reduceModel A hrk] at h
  injection h with h
  rw [← h] at hx
  exact reduceModel_states_sub A (downOrder A) (downOrder_perm A) hx

end Vata.SimPipe
