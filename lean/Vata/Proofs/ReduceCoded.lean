import Vata.ReduceCoded
import Vata.Proofs.SimPipeline
import Vata.Proofs.RenameCodedMain
import Vata.Proofs.TrimCodedResult
/-!
# `Reduce` on the store, part 1: the composition refines `SimPipe.reduceAsCoded`

* the keys of the collapse map `GetQuotientProjection` writes are exactly the states (`keys_collapseMap`), so the strict look-ups
  `collapseMap.at(…)` of `CollapseStates` never throw (`collapse_strict_ok`);
* the store `CollapseStates` returns yields the rules / final states of the relation-level `reindex (applyMap m)`;
* the coded `RemoveUnreachableStates` on it yields those of the relation-level `removeUnreachable`
  (`reduceCodedOn_spec`).
-/
namespace Vata.ReduceCoded
open Vata Vata.Store Vata.RenameCoded Vata.TrimCoded Vata.SimPipe Vata.BinRel

/-! ### the keys of the collapse map -/

theorem length_foldl_of {α β : Type} (f : List α → β → List α) (hf : ∀ l b, (f l b).length = l.length) :
    ∀ (bs : List β) (l : List α), (bs.foldl f l).length = l.length
  | [], _ => rfl
  | b :: bs, l => by rw [List.foldl_cons, length_foldl_of f hf bs, hf]

theorem length_qpStep (m : BMat) (row : Nat) (proj : List (Option Nat)) (col : Nat) :
    (qpStep m row proj col).length = proj.length := by
  unfold qpStep
  split <;> simp

theorem length_qpRow (m : BMat) (n : Nat) (proj : List (Option Nat)) (row : Nat) :
    (qpRow m n proj row).length = proj.length := by
  unfold qpRow
  split
  · rfl
  · rw [length_foldl_of _ (length_qpStep m row)]
    simp

/-- `quotProj` has one entry per row, whatever the matrix -/
theorem length_quotientProjectionIdx (m : BMat) : (quotientProjectionIdx m).length = m.length := by
  unfold quotientProjectionIdx
  rw [length_foldl_of _ (length_qpRow m m.length)]
  simp

theorem keys_projToMap (order : List Nat) (proj : List (Option Nat)) (hl : proj.length = order.length) :
    (projToMap order proj).map Prod.fst = order := by
  unfold projToMap
  rw [List.map_map]
  have : (Prod.fst ∘ fun p : Nat × Option Nat => (p.1, projTarget order p.1 p.2)) = Prod.fst := rfl
  rw [this, List.map_fst_zip (by omega)]

/-- the collapse map `Reduce` hands to `CollapseStates` has exactly the states as keys, in the order of the translator -/
theorem keys_collapseMap (A : TA) (m : List (Nat × Nat)) (h : collapseMapAsCoded A = some m) :
    m.map Prod.fst = downOrder A := by
  obtain ⟨R0, he, hm⟩ := collapseMapAsCoded_spec A
  rw [hm] at h
  injection h with h
  subst h
  apply keys_projToMap
  rw [length_quotientProjectionIdx]
  have hsq := Mat.square_toBMat (resultMat A.states.length R0)
  have heng := down_engine_eq A _ _ R0 he
  have hR0 : ∀ p, p ∈ R0 → p.1 < A.states.length ∧ p.2 < A.states.length :=
    fun p hp => ltsSimOut_lt ((heng p.1 p.2).mp hp)
  obtain ⟨_, hsz, _⟩ := resultMat_spec A.states.length R0 hR0
  rw [(RM.restrictToSymmetric_spec hsq).1.1, hsz, length_downOrder]

theorem lookup_of_mem_keys : ∀ (m : List (Nat × Nat)) (q : Nat), q ∈ m.map Prod.fst → ∃ v, m.lookup q = some v
  | [], _, h => by cases h
  | (k, v) :: m, q, h => by
    by_cases hq : q = k
    · exact ⟨v, by simp [List.lookup, hq]⟩
    · have hb : (q == k) = false := by simp [hq]
      have : q ∈ m.map Prod.fst := by
        rcases List.mem_cons.mp h with e | e
        · exact absurd e hq
        · exact e
      obtain ⟨w, hw⟩ := lookup_of_mem_keys m q this
      exact ⟨w, by simp only [List.lookup, hb]; exact hw⟩

/-- every state of the automaton has an entry in the collapse map -/
theorem collapseMap_covers (A : TA) (m : List (Nat × Nat)) (h : collapseMapAsCoded A = some m) {q : Nat}
    (hq : q ∈ A.states) : ∃ v, m.lookup q = some v :=
  lookup_of_mem_keys m q (by rw [keys_collapseMap A m h]; exact mem_downOrder.mpr hq)

/-! ### `CollapseStates` with `unordered_map::at` -/

theorem mapRule_congr {h g : Nat → Nat} {r : Rule} (hp : h r.parent = g r.parent) (hk : ∀ k, k ∈ r.kids → h k = g k) :
    mapRule h r = mapRule g r := by
  unfold mapRule
  rw [hp, List.map_congr_left hk]

/-- if every used state of the store has an entry in the map, `CollapseStates(map)` (strict look-ups) does not throw, leaves the
map alone and returns a store that satisfies the weak invariant and yields exactly the images under `applyMap map` -/
theorem collapse_strict_ok (S : Store) (hS : Inv S) (m : List (Nat × Nat))
    (hm : ∀ q, q ∈ usedStates S → ∃ v, m.lookup q = some v) :
    ∃ d, collapseCoded strictT S m = .ok (d, m) ∧ WInv d ∧
      (∀ x, x ∈ iterate d ↔ ∃ r, r ∈ iterate S ∧ x = mapRule (applyMap m) r) ∧
      (∀ q, q ∈ d.final ↔ ∃ p, p ∈ S.final ∧ q = applyMap m p) := by
  have hg := (reindexInto_gen lawful_strictT S empty m true).1
  rw [appSeq_strict] at hg
  have hfind : (lookupOrder S true).find? (fun k => (m.lookup k).isNone) = none := by
    rw [List.find?_eq_none]
    intro k hk
    obtain ⟨v, hv⟩ := hm k ((mem_lookupOrder hS k).mp hk)
    simp [hv]
  rw [hfind] at hg
  have hthr : (reindexInto strictT S empty m true).thrown = none := congrArg Prod.fst hg
  have htr : (reindexInto strictT S empty m true).tr = m := congrArg Prod.snd hg
  have hl := reindexInto_lawful lawful_strictT S empty m true
  rw [htr, hthr] at hl
  obtain ⟨⟨fpre, fsuf, rpre, rsuf, e1, e2, e3, _, e5, e6⟩, hw⟩ := hl
  obtain ⟨h1, h2⟩ := e3 rfl
  subst h1; subst h2
  rw [List.append_nil] at e1 e2
  have hw' := hw winv_empty
  have hgd : ∀ q, q ∈ usedStates S → gd (fun k => m.lookup k) q = applyMap m q := by
    intro q hq
    obtain ⟨v, hv⟩ := hm q hq
    simp [gd, applyMap, hv]
  refine ⟨(reindexInto strictT S empty m true).dst, ?_, hw', ?_, ?_⟩
  · unfold collapseCoded reindexCoded Run.toExcept
    rw [hthr, htr]
  · intro x
    rw [← contains_iff_mem_iterate_w hw', e5, ← e2, contains_iff_mem_iterate_w winv_empty]
    simp only [iterate, empty, List.flatMap_nil, List.not_mem_nil, false_or]
    constructor
    · rintro ⟨r, hr, e⟩
      refine ⟨r, hr, ?_⟩
      rw [e]
      exact mapRule_congr (hgd _ (mem_usedStates.mpr (Or.inr ⟨r, hr, Or.inl rfl⟩)))
        (fun k hk => hgd _ (mem_usedStates.mpr (Or.inr ⟨r, hr, Or.inr hk⟩)))
    · rintro ⟨r, hr, e⟩
      refine ⟨r, hr, ?_⟩
      rw [e]
      exact (mapRule_congr (hgd _ (mem_usedStates.mpr (Or.inr ⟨r, hr, Or.inl rfl⟩)))
        (fun k hk => hgd _ (mem_usedStates.mpr (Or.inr ⟨r, hr, Or.inr hk⟩)))).symm
  · intro q
    rw [e6, ← e1]
    simp only [empty, List.not_mem_nil, false_or, if_true]
    constructor
    · rintro ⟨p, hp, e⟩
      exact ⟨p, hp, by rw [e, hgd _ (mem_usedStates.mpr (Or.inl hp))]⟩
    · rintro ⟨p, hp, e⟩
      exact ⟨p, hp, by rw [e, hgd _ (mem_usedStates.mpr (Or.inl hp))]⟩

/-! ### the composition -/

/-- `reduceCodedOn` in terms of the collapse map of `SimPipe` -/
theorem reduceCodedOn_eq (simA : TA) (S : Store) :
    reduceCodedOn simA S =
      match collapseMapAsCoded simA with
      | none => .simFailed
      | some m =>
        match collapseCoded strictT S m with
        | .error e => .threw e.1
        | .ok aut => .ok (unreachCoded (RenameCoded.toTA aut.1)) := by
  unfold reduceCodedOn collapseMapAsCoded
  simp only
  cases h : computeSimDownDisc simA simA.states.length with
  | none => rfl
  | some sim =>
    simp only
    cases h2 : sim.restrictToSymmetric.quotProj <;> rfl

theorem taEquiv_reindex {A B : TA} (h : TAEquiv A B) (f : Nat → Nat) : TAEquiv (reindex f A) (reindex f B) := by
  constructor
  · intro r
    rw [reindex_rules, reindex_rules]
    constructor
    · rintro ⟨x, hx, e⟩; exact ⟨x, (h.1 x).mp hx, e⟩
    · rintro ⟨x, hx, e⟩; exact ⟨x, (h.1 x).mpr hx, e⟩
  · intro q
    rw [reindex_final, reindex_final]
    constructor
    · rintro ⟨x, hx, e⟩; exact ⟨x, (h.2 x).mp hx, e⟩
    · rintro ⟨x, hx, e⟩; exact ⟨x, (h.2 x).mpr hx, e⟩

theorem taEquiv_states {A B : TA} (h : TAEquiv A B) (q : Nat) : q ∈ A.states ↔ q ∈ B.states := by
  rw [SimModel.mem_states, SimModel.mem_states]
  constructor
  · rintro (hf | ⟨ρ, hρ, hc⟩)
    · exact Or.inl ((h.2 q).mp hf)
    · exact Or.inr ⟨ρ, (h.1 ρ).mp hρ, hc⟩
  · rintro (hf | ⟨ρ, hρ, hc⟩)
    · exact Or.inl ((h.2 q).mpr hf)
    · exact Or.inr ⟨ρ, (h.1 ρ).mpr hρ, hc⟩

/-- the used states of a store are the states of the automaton it yields -/
theorem usedStates_toTA (S : Store) (q : Nat) : q ∈ usedStates S ↔ q ∈ (RenameCoded.toTA S).states := by
  rw [mem_usedStates, SimModel.mem_states]
  simp only [RenameCoded.toTA]
  constructor
  · rintro (hf | ⟨r, hr, hc | hc⟩)
    · exact Or.inl hf
    · exact Or.inr ⟨r, hr, Or.inl hc.symm⟩
    · exact Or.inr ⟨r, hr, Or.inr hc⟩
  · rintro (hf | ⟨r, hr, hc | hc⟩)
    · exact Or.inl hf
    · exact Or.inr ⟨r, hr, Or.inl hc.symm⟩
    · exact Or.inr ⟨r, hr, Or.inr hc⟩

/-- **the composition, step by step**: for a store that satisfies the store invariant and yields the rule / final sets of `simA`:
the simulation pipeline returns a collapse map `m`; `CollapseStates(m)` does not throw and returns a store `d` (weak invariant,
every rule once) that yields the sets of `reindex (applyMap m) simA`; the answer is `unreachCoded` of it, which yields the sets of
the answer of `SimPipe.reduceAsCoded simA` -/
theorem reduceCodedOn_spec (simA : TA) (S : Store) (hS : Inv S) (heq : TAEquiv (RenameCoded.toTA S) simA) :
    ∃ m d, collapseMapAsCoded simA = some m ∧ collapseCoded strictT S m = .ok (d, m) ∧ WInv d ∧
      TAEquiv (RenameCoded.toTA d) (reindex (applyMap m) simA) ∧
      reduceCodedOn simA S = .ok (unreachCoded (RenameCoded.toTA d)) ∧
      reduceAsCoded simA = some (removeUnreachable (reindex (applyMap m) simA)) ∧
      TAEquiv (unreachCoded (RenameCoded.toTA d)) (removeUnreachable (reindex (applyMap m) simA)) := by
  obtain ⟨B, hB⟩ := reduceAsCoded_total simA
  obtain ⟨m, hm, hBm⟩ := reduceAsCoded_shape simA B hB
  have hcov : ∀ q, q ∈ usedStates S → ∃ v, m.lookup q = some v := by
    intro q hq
    exact collapseMap_covers simA m hm ((taEquiv_states heq q).mp ((usedStates_toTA S q).mp hq))
  obtain ⟨d, hd, hw, hr, hf⟩ := collapse_strict_ok S hS m hcov
  have h1 : TAEquiv (RenameCoded.toTA d) (reindex (applyMap m) (RenameCoded.toTA S)) := by
    constructor
    · intro x
      rw [reindex_rules]
      exact hr x
    · intro q
      rw [reindex_final]
      exact hf q
  have h2 : TAEquiv (RenameCoded.toTA d) (reindex (applyMap m) simA) := h1.trans (taEquiv_reindex heq _)
  refine ⟨m, d, hm, hd, hw, h2, ?_, ?_, ?_⟩
  · rw [reduceCodedOn_eq, hm]
    simp only [hd]
  · rw [hB, hBm]
  · exact (unreachCoded_equiv (RenameCoded.toTA d)).trans h2.removeUnreachable

/-! ### the two instances -/

theorem specRun_add_rules : ∀ (rs : List Rule) (a : Abs),
    ((rs.map Op.add).foldl specStep a).rules = rs.reverse ++ a.rules ∧ ((rs.map Op.add).foldl specStep a).final = a.final
  | [], a => by simp
  | r :: rs, a => by
    rw [List.map_cons, List.foldl_cons]
    obtain ⟨h1, h2⟩ := specRun_add_rules rs (specStep a (Op.add r))
    rw [h1, h2]
    simp [specStep]

/-- the store the loader builds satisfies the store invariant and yields the rule / final sets of the automaton -/
theorem ofTA_spec (A : TA) : Inv (ofTA A) ∧ TAEquiv (RenameCoded.toTA (ofTA A)) A := by
  unfold ofTA
  have h := refines_run (A.rules.map Op.add ++ [Op.setFinals A.final])
  have e : specRun (A.rules.map Op.add ++ [Op.setFinals A.final]) = ⟨A.rules.reverse, A.final⟩ := by
    unfold specRun
    rw [List.foldl_append]
    obtain ⟨h1, h2⟩ := specRun_add_rules A.rules ⟨[], []⟩
    simp only [List.foldl_cons, List.foldl_nil, specStep]
    rw [h1, h2]
    simp
  rw [e] at h
  refine ⟨h.inv, ?_, ?_⟩
  · intro r
    simp only [RenameCoded.toTA]
    rw [h.rules]
    simp
  · intro q
    simp only [RenameCoded.toTA]
    rw [h.final]

theorem reduceFullyCoded_spec (A : TA) :
    ∃ m d, collapseMapAsCoded A = some m ∧ collapseCoded strictT (ofTA A) m = .ok (d, m) ∧ WInv d ∧
      TAEquiv (RenameCoded.toTA d) (reindex (applyMap m) A) ∧
      reduceFullyCoded A = .ok (unreachCoded (RenameCoded.toTA d)) ∧
      reduceAsCoded A = some (removeUnreachable (reindex (applyMap m) A)) ∧
      TAEquiv (unreachCoded (RenameCoded.toTA d)) (removeUnreachable (reindex (applyMap m) A)) :=
  reduceCodedOn_spec A (ofTA A) (ofTA_spec A).1 (ofTA_spec A).2

theorem reduceStoreCoded_spec (S : Store) (hS : Inv S) :
    ∃ m d, collapseMapAsCoded (RenameCoded.toTA S) = some m ∧ collapseCoded strictT S m = .ok (d, m) ∧ WInv d ∧
      TAEquiv (RenameCoded.toTA d) (reindex (applyMap m) (RenameCoded.toTA S)) ∧
      reduceStoreCoded S = .ok (unreachCoded (RenameCoded.toTA d)) ∧
      reduceAsCoded (RenameCoded.toTA S) = some (removeUnreachable (reindex (applyMap m) (RenameCoded.toTA S))) ∧
      TAEquiv (unreachCoded (RenameCoded.toTA d)) (removeUnreachable (reindex (applyMap m) (RenameCoded.toTA S))) :=
  reduceCodedOn_spec (RenameCoded.toTA S) S hS (TAEquiv.refl _)

end Vata.ReduceCoded
