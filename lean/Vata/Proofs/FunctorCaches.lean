import Vata.FunctorCaches
import Vata.Proofs.NfaInclTotal
import Vata.Proofs.NfaInclCongrTotal
/-!
# The caches of the two inclusion functors are transparent (properties C09)

Model: `Vata/FunctorCaches.lean`.  The method is the one of `Vata/Proofs/CacheModel.lean` (`memo_sound_noDeath`): the objects
of `MacroStateCache` never die and are never modified, so an invariant of the form "every entry of every memo table is a
TRUE fact about the VALUES at the two addresses" is kept by every step, and under it every cached answer equals the answer
computed from the values.

* antichain functor: `MemoOK` (an entry of `subsetMap_` is a true `⊆`, an entry of `subsetNotMap_` a true `⊄`);
  `runACc_eq`, `nfaInclAC_cached_eq`, `checkNfaInclAC_cached_eq`: for every operand pair, every fuel and both variants of
  `areEqual` the cached functor returns EXACTLY what `nfaInclAC` returns (verdict and certificate / witness);
* congruence functor: `UsedOK` (an entry `b ↦ y` of `usedRules_` is a true `*y ⊆ *b`) together with the structural fact
  `Struct` that makes this the right reading (in `U = A ⊎ B` a rule adds no state of `B` that its left-hand side did not
  have; so "the rule fired in an earlier closure of `*b`" implies "its left-hand side is inside `*b`");
  `runCongrC_eq`, `nfaInclCongr_cached_eq`, `checkNfaInclCongr_cached_eq`: exact equality with `nfaInclCongr` for operands with
  disjoint states, when the cache interns the empty set (`se = true`) or no pair with exactly one empty component is
  reachable (`NoHalfEmpty`); `cached_real_ne` shows that without this the library's cache (`se = false`) really does more
  work (a pair with an empty component is enqueued again and again because the empty set gets a new address every time);
* the regressions: `d8_*` (the pre-repair memo of the antichain functor) and `swapped_*` (`usedRules_.contains` with the
  arguments exchanged) on concrete pairs.
-/
namespace Vata
open Vata.W
namespace FC
open NfaIncl

/-! ### `MapToList` -/

theorem mlHas_iff {m : PtrMap} {k v : Nat} : mlHas m k v = true ↔ (k, v) ∈ m := by
  simp [mlHas]

theorem mlHas_false_iff {m : PtrMap} {k v : Nat} : mlHas m k v = false ↔ (k, v) ∉ m := by
  rw [← mlHas_iff]; cases mlHas m k v <;> simp

theorem mem_mlAdd {m : PtrMap} {k v : Nat} {e : Nat × Nat} : e ∈ mlAdd m k v ↔ e = (k, v) ∨ e ∈ m := by
  unfold mlAdd
  split
  · next h =>
    have h' : (k, v) ∈ m := by simpa using h
    constructor
    · exact Or.inr
    · rintro (rfl | h)
      · exact h'
      · exact h
  · simp

theorem mlAdd_of_not_has {m : PtrMap} {k v : Nat} (h : mlHas m k v = false) : mlAdd m k v = (k, v) :: m := by
  unfold mlAdd; unfold mlHas at h; rw [if_neg (by rw [h]; simp)]

theorem mlHasKey_iff {m : PtrMap} {k : Nat} : mlHasKey m k = true ↔ ∃ v, (k, v) ∈ m := by
  simp only [mlHasKey, List.any_eq_true, beq_iff_eq]
  constructor
  · rintro ⟨e, he, rfl⟩; exact ⟨e.2, he⟩
  · rintro ⟨v, hv⟩; exact ⟨(k, v), hv, rfl⟩

/-! ### strictly increasing lists are canonical -/

theorem sorted_eq_of_sub : ∀ (r l : List Nat), List.Pairwise (· < ·) l → List.Pairwise (· < ·) r →
    (∀ x, x ∈ l → x ∈ r) → r.length ≤ l.length → l = r
  | [], l, _, _, hsub, _ => by
    cases l with
    | nil => rfl
    | cons a l => exact absurd (hsub a List.mem_cons_self) (by simp)
  | b :: r, [], _, _, _, hlen => by simp at hlen
  | b :: r, a :: l, hl, hr, hsub, hlen => by
    have hla := (List.pairwise_cons.mp hl).1
    have hl' := (List.pairwise_cons.mp hl).2
    have hrb := (List.pairwise_cons.mp hr).1
    have hr' := (List.pairwise_cons.mp hr).2
    simp only [List.length_cons] at hlen
    rcases List.mem_cons.mp (hsub a List.mem_cons_self) with hab | har
    · subst hab
      have : l = r := by
        apply sorted_eq_of_sub r l hl' hr'
        · intro x hx
          rcases List.mem_cons.mp (hsub x (List.mem_cons_of_mem _ hx)) with h | h
          · have := hla x hx; omega
          · exact h
        · omega
      rw [this]
    · exfalso
      have hba : b < a := hrb a har
      have : a :: l = r := by
        apply sorted_eq_of_sub r (a :: l) hl hr'
        · intro x hx
          have hxa : a ≤ x := by
            rcases List.mem_cons.mp hx with rfl | h
            · exact Nat.le_refl _
            · exact Nat.le_of_lt (hla x h)
          rcases List.mem_cons.mp (hsub x hx) with h | h
          · omega
          · exact h
        · simp only [List.length_cons]; omega
      have := congrArg List.length this
      simp only [List.length_cons] at this
      omega

/-! ### `MacroStateCache` -/

theorem val_append_left {mc : MCache} {ext : MCache} {id : Nat} (h : id < mc.length) : val (mc ++ ext) id = val mc id := by
  simp only [val, List.getD_eq_getElem?_getD, List.getElem?_append_left h]

theorem val_append_new (mc : MCache) (k : Nat) (v : List Nat) : val (mc ++ [(k, v)]) mc.length = v := by
  simp [val, List.getD_eq_getElem?_getD]

theorem val_eq_getElem {mc : MCache} {id : Nat} (h : id < mc.length) : val mc id = mc[id].2 := by
  simp [val, List.getD_eq_getElem?_getD, List.getElem?_eq_getElem h]

/-- the cache only grows -/
def Ext (mc mc' : MCache) : Prop := ∃ ext, mc' = mc ++ ext

theorem Ext.refl (mc : MCache) : Ext mc mc := ⟨[], by simp⟩
theorem Ext.trans {a b c : MCache} (h1 : Ext a b) (h2 : Ext b c) : Ext a c := by
  obtain ⟨e1, rfl⟩ := h1; obtain ⟨e2, rfl⟩ := h2; exact ⟨e1 ++ e2, by simp⟩
theorem Ext.val {mc mc' : MCache} (h : Ext mc mc') {id : Nat} (hi : id < mc.length) : val mc' id = val mc id := by
  obtain ⟨e, rfl⟩ := h; exact val_append_left hi
theorem Ext.length_le {mc mc' : MCache} (h : Ext mc mc') : mc.length ≤ mc'.length := by
  obtain ⟨e, rfl⟩ := h; simp
theorem Ext.lt {mc mc' : MCache} (h : Ext mc mc') {id : Nat} (hi : id < mc.length) : id < mc'.length :=
  Nat.lt_of_lt_of_le hi h.length_le

/-- the values are strictly increasing lists and every object sits in the bucket of its sum -/
structure MCInv (mc : MCache) : Prop where
  sorted : ∀ o, o ∈ mc → List.Pairwise (· < ·) o.2
  key : ∀ o, o ∈ mc → o.1 = sumL o.2

theorem MCInv.nil : MCInv [] := ⟨by simp, by simp⟩

theorem MCInv.val_sorted {mc : MCache} (h : MCInv mc) {id : Nat} (hi : id < mc.length) : List.Pairwise (· < ·) (val mc id) := by
  rw [val_eq_getElem hi]; exact h.sorted _ (List.getElem_mem hi)

/-- the cache is injective: on all values when it interns the empty set, on the non-empty values otherwise -/
def MCInj (se : Bool) (mc : MCache) : Prop :=
  ∀ i j, i < mc.length → j < mc.length → val mc i = val mc j → (se = true ∨ val mc i ≠ []) → i = j

theorem areEqual_eq {se : Bool} {l r : List Nat} (h : areEqual se l r = true) (hl : List.Pairwise (· < ·) l)
    (hr : List.Pairwise (· < ·) r) : l = r := by
  simp only [areEqual, Bool.and_eq_true, beq_iff_eq, List.all_eq_true, List.contains_iff_mem] at h
  exact sorted_eq_of_sub r l hl hr (fun x hx => by simpa using h.2 x hx) (by omega)

theorem areEqual_self {se : Bool} {v : List Nat} (h : se = true ∨ v ≠ []) : areEqual se v v = true := by
  simp only [areEqual, Bool.and_eq_true, beq_iff_eq, List.all_eq_true, List.contains_iff_mem, Bool.or_eq_true,
    Bool.not_eq_true', Bool.or_self, List.isEmpty_eq_false_iff]
  refine ⟨⟨trivial, ?_⟩, fun x hx => by simpa using hx⟩
  rcases h with h | h
  · exact Or.inl h
  · exact Or.inr h

/-- `cache_.insert(sum(v), v)`: the cache grows by at most the new object, the returned address holds `v` -/
theorem intern_spec (se : Bool) {mc : MCache} (h : MCInv mc) {v : List Nat} (hv : List.Pairwise (· < ·) v) :
    Ext mc (intern se mc v).1 ∧ (intern se mc v).2 < (intern se mc v).1.length ∧
    val (intern se mc v).1 (intern se mc v).2 = v ∧ MCInv (intern se mc v).1 := by
  unfold intern mcInsert
  split
  · next i hi =>
    obtain ⟨hlt, hp, _⟩ := List.findIdx?_eq_some_iff_getElem.mp hi
    simp only [Bool.and_eq_true, beq_iff_eq] at hp
    refine ⟨Ext.refl _, hlt, ?_, h⟩
    rw [val_eq_getElem hlt]
    exact areEqual_eq hp.2 (h.sorted _ (List.getElem_mem hlt)) hv
  · refine ⟨⟨_, rfl⟩, by simp, val_append_new _ _ _, ?_, ?_⟩
    · intro o ho
      rcases List.mem_append.mp ho with ho | ho
      · exact h.sorted o ho
      · simp only [List.mem_singleton] at ho; subst ho; exact hv
    · intro o ho
      rcases List.mem_append.mp ho with ho | ho
      · exact h.key o ho
      · simp only [List.mem_singleton] at ho; subst ho; rfl

theorem intern_inj (se : Bool) {mc : MCache} (h : MCInv mc) (hj : MCInj se mc) {v : List Nat} :
    MCInj se (intern se mc v).1 := by
  unfold intern mcInsert
  split
  · exact hj
  · next hn =>
    have hnone := List.findIdx?_eq_none_iff.mp hn
    intro i j hi hj' he hne
    simp only [List.length_append, List.length_singleton] at hi hj'
    have key : ∀ k, k < mc.length → val mc k = v → (se = true ∨ v ≠ []) → False := by
      intro k hk hkv hne'
      have := hnone _ (List.getElem_mem hk)
      rw [val_eq_getElem hk] at hkv
      have hkey := h.key _ (List.getElem_mem hk)
      simp only [Bool.and_eq_false_iff, beq_eq_false_iff_ne] at this
      rcases this with h1 | h2
      · exact h1 (by rw [hkey, hkv])
      · rw [hkv, areEqual_self hne'] at h2; cases h2
    by_cases hi' : i < mc.length
    · by_cases hj'' : j < mc.length
      · rw [val_append_left hi', val_append_left hj''] at he
        rw [val_append_left hi'] at hne
        exact hj i j hi' hj'' he hne
      · have : j = mc.length := by omega
        subst this
        rw [val_append_left hi', val_append_new] at he
        rw [val_append_left hi'] at hne
        exact (key i hi' he (he ▸ hne)).elim
    · have : i = mc.length := by omega
      subst this
      by_cases hj'' : j < mc.length
      · rw [val_append_new, val_append_left hj''] at he
        rw [val_append_new] at hne
        exact (key j hj'' he.symm hne).elim
      · omega

/-! ### the antichain functor: the invariant of the memo tables -/

/-- every entry of `subsetMap_` is a true `⊆` between the values at the two addresses, every entry of `subsetNotMap_` a true `⊄` -/
structure MemoOK (c : ACaches) : Prop where
  sub : ∀ a b, (a, b) ∈ c.sub → a < c.mc.length ∧ b < c.mc.length ∧ Vata.subB (val c.mc a) (val c.mc b) = true
  nsub : ∀ a b, (a, b) ∈ c.nsub → a < c.mc.length ∧ b < c.mc.length ∧ Vata.subB (val c.mc a) (val c.mc b) = false

theorem MemoOK.empty : MemoOK {} := ⟨by simp, by simp⟩

theorem MemoOK.ext {c : ACaches} (h : MemoOK c) {mc' : MCache} (he : Ext c.mc mc') : MemoOK { c with mc := mc' } := by
  constructor
  · intro a b hab
    obtain ⟨ha, hb, hs⟩ := h.sub a b hab
    exact ⟨he.lt ha, he.lt hb, by simp only [he.val ha, he.val hb]; exact hs⟩
  · intro a b hab
    obtain ⟨ha, hb, hs⟩ := h.nsub a b hab
    exact ⟨he.lt ha, he.lt hb, by simp only [he.val ha, he.val hb]; exact hs⟩

/-- the lambda `lte` answers `*lss ⊆ *rss` and keeps the invariant -/
theorem lteC_spec {c : ACaches} (h : MemoOK c) {l r : Nat} (hl : l < c.mc.length) (hr : r < c.mc.length) :
    (lteC .lib c l r).2 = Vata.subB (val c.mc l) (val c.mc r) ∧ MemoOK (lteC .lib c l r).1 ∧ (lteC .lib c l r).1.mc = c.mc := by
  unfold lteC
  split
  · next h1 => exact ⟨((h.sub l r (mlHas_iff.mp h1)).2.2).symm, h, rfl⟩
  · split
    · next h2 => exact ⟨((h.nsub l r (mlHas_iff.mp h2)).2.2).symm, h, rfl⟩
    · split
      · next h3 =>
        refine ⟨h3.symm, ⟨?_, h.nsub⟩, rfl⟩
        intro a b hab
        rcases mem_mlAdd.mp hab with he | he
        · cases he; exact ⟨hl, hr, h3⟩
        · exact h.sub a b he
      · next h3 =>
        have h3' : Vata.subB (val c.mc l) (val c.mc r) = false := by simpa using h3
        refine ⟨h3'.symm, ⟨h.sub, ?_⟩, rfl⟩
        intro a b hab
        rcases mem_mlAdd.mp hab with he | he
        · cases he; exact ⟨hl, hr, h3'⟩
        · exact h.nsub a b he

/-- the lambda `gte` answers `*rss ⊆ *lss` and keeps the invariant -/
theorem gteC_spec {c : ACaches} (h : MemoOK c) {l r : Nat} (hl : l < c.mc.length) (hr : r < c.mc.length) :
    (gteC .lib c l r).2 = Vata.subB (val c.mc r) (val c.mc l) ∧ MemoOK (gteC .lib c l r).1 ∧ (gteC .lib c l r).1.mc = c.mc := by
  simp only [gteC]
  split
  · next h1 => exact ⟨((h.sub r l (mlHas_iff.mp h1)).2.2).symm, h, rfl⟩
  · split
    · next h2 => exact ⟨((h.nsub r l (mlHas_iff.mp h2)).2.2).symm, h, rfl⟩
    · split
      · next h3 =>
        refine ⟨h3.symm, ⟨?_, h.nsub⟩, rfl⟩
        intro a b hab
        rcases mem_mlAdd.mp hab with he | he
        · cases he; exact ⟨hr, hl, h3⟩
        · exact h.sub a b he
      · next h3 =>
        have h3' : Vata.subB (val c.mc r) (val c.mc l) = false := by simpa using h3
        refine ⟨h3'.symm, ⟨h.sub, ?_⟩, rfl⟩
        intro a b hab
        rcases mem_mlAdd.mp hab with he | he
        · cases he; exact ⟨hr, hl, h3'⟩
        · exact h.nsub a b he

/-- all addresses of a list of pairs are live -/
def AValid (mc : MCache) (l : List AIt) : Prop := ∀ i, i ∈ l → i.id < mc.length

theorem AValid.ext {mc mc' : MCache} {l : List AIt} (h : AValid mc l) (he : Ext mc mc') : AValid mc' l :=
  fun i hi => he.lt (h i hi)

theorem map_deref_ext {mc mc' : MCache} {l : List AIt} (h : AValid mc l) (he : Ext mc mc') :
    l.map (AIt.deref mc') = l.map (AIt.deref mc) := by
  apply List.map_congr_left
  intro i hi
  simp only [AIt.deref, he.val (h i hi)]

/-- `Antichain2Cv2::contains` with the memoising `lte` is `subsumed` on the values -/
theorem containsC_spec (q id : Nat) : ∀ (P : List AIt) (c : ACaches), MemoOK c → id < c.mc.length → AValid c.mc P →
    (containsC .lib q id P c).2 = subsumed (P.map (AIt.deref c.mc)) q (val c.mc id) ∧
    MemoOK (containsC .lib q id P c).1 ∧ (containsC .lib q id P c).1.mc = c.mc
  | [], c, h, _, _ => ⟨by simp [containsC, subsumed], h, rfl⟩
  | i :: P, c, h, hid, hv => by
    have hvP : AValid c.mc P := fun j hj => hv j (List.mem_cons_of_mem _ hj)
    have hi : i.id < c.mc.length := hv i List.mem_cons_self
    unfold containsC
    simp only [subsumed, List.map_cons, List.any_cons]
    split
    · next hq =>
      obtain ⟨e1, m1, c1⟩ := lteC_spec h hi hid
      split
      · next ht =>
        refine ⟨?_, m1, c1⟩
        rw [e1] at ht
        simp [AIt.deref, hq, ht]
      · next ht =>
        have ht' : (lteC .lib c i.id id).2 = false := by simpa using ht
        obtain ⟨e2, m2, c2⟩ := containsC_spec q id P (lteC .lib c i.id id).1 m1 (c1 ▸ hid) (c1 ▸ hvP)
        refine ⟨?_, m2, c2.trans c1⟩
        rw [e2, c1]
        rw [e1] at ht'
        simp [AIt.deref, ht', subsumed]
    · next hq =>
      obtain ⟨e2, m2, c2⟩ := containsC_spec q id P c h hid hvP
      refine ⟨?_, m2, c2⟩
      rw [e2]
      simp [AIt.deref, hq, subsumed]

/-- the pairs `refine` keeps -/
def keepB (mc : MCache) (q id : Nat) (i : AIt) : Bool := !(i.q == q && Vata.subB (val mc id) (val mc i.id))

/-- `Antichain2Cv2::refine` with the memoising `gte` erases exactly the pairs `refine` erases -/
theorem refineC_spec (q id : Nat) : ∀ (P : List AIt) (c : ACaches), MemoOK c → id < c.mc.length → AValid c.mc P →
    (refineC .lib q id P c).2 = P.filter (keepB c.mc q id) ∧
    MemoOK (refineC .lib q id P c).1 ∧ (refineC .lib q id P c).1.mc = c.mc
  | [], c, h, _, _ => ⟨by simp [refineC], h, rfl⟩
  | i :: P, c, h, hid, hv => by
    have hvP : AValid c.mc P := fun j hj => hv j (List.mem_cons_of_mem _ hj)
    have hi : i.id < c.mc.length := hv i List.mem_cons_self
    unfold refineC
    split
    · next hq =>
      obtain ⟨e1, m1, c1⟩ := gteC_spec h hi hid
      obtain ⟨e2, m2, c2⟩ := refineC_spec q id P (gteC .lib c i.id id).1 m1 (c1 ▸ hid) (c1 ▸ hvP)
      refine ⟨?_, m2, c2.trans c1⟩
      simp only [e2, c1, e1, List.filter_cons, keepB, hq, Bool.true_and]
      cases Vata.subB (val c.mc id) (val c.mc i.id) <;> simp
    · next hq =>
      obtain ⟨e2, m2, c2⟩ := refineC_spec q id P c h hid hvP
      refine ⟨?_, m2, c2⟩
      simp only [e2, List.filter_cons, keepB]
      have : (i.q == q) = false := by simpa using hq
      simp [this]

theorem refine_map_deref (mc : MCache) (q id : Nat) (P : List AIt) :
    refine (P.map (AIt.deref mc)) q (val mc id) = (P.filter (keepB mc q id)).map (AIt.deref mc) := by
  unfold refine
  rw [List.filter_map]
  rfl

theorem insNextC_map (mc : MCache) (it : AIt) : ∀ l : List AIt,
    (insNextC mc it l).map (AIt.deref mc) = insNext (it.deref mc) (l.map (AIt.deref mc))
  | [] => rfl
  | x :: l => by
    have : itemLtC mc it x = itemLt (it.deref mc) (x.deref mc) := rfl
    simp only [insNextC, insNext, List.map_cons, this]
    split
    · rfl
    · simp only [List.map_cons, insNextC_map mc it l]

theorem insNextC_perm (mc : MCache) (it : AIt) : ∀ l : List AIt, (insNextC mc it l).Perm (it :: l)
  | [] => List.Perm.refl _
  | x :: l => by
    simp only [insNextC]
    split
    · exact List.Perm.refl _
    · exact ((insNextC_perm mc it l).cons x).trans (List.Perm.swap it x l)

theorem mem_insNextC {mc : MCache} {it x : AIt} {l : List AIt} : x ∈ insNextC mc it l ↔ x = it ∨ x ∈ l := by
  rw [(insNextC_perm mc it l).mem_iff, List.mem_cons]

/-! ### the simulation between the cached and the cache-free antichain functor -/

/-- the cached state read through its pointers is the cache-free state, and every memo entry is a true fact -/
structure ARel (cst : ASt) (st : St) : Prop where
  ac : cst.antichain.map (AIt.deref cst.c.mc) = st.antichain
  nx : cst.next.map (AIt.deref cst.c.mc) = st.next
  perm : cst.nextIns.Perm cst.next
  vac : AValid cst.c.mc cst.antichain
  vnx : AValid cst.c.mc cst.next
  memo : MemoOK cst.c
  mci : MCInv cst.c.mc

theorem ARel.ext {cst : ASt} {st : St} (h : ARel cst st) {mc' : MCache} (he : Ext cst.c.mc mc') (hi : MCInv mc') :
    ARel { cst with c := { cst.c with mc := mc' } } st :=
  ⟨by simp only; rw [map_deref_ext h.vac he]; exact h.ac,
   by simp only; rw [map_deref_ext h.vnx he]; exact h.nx,
   h.perm, h.vac.ext he, h.vnx.ext he, h.memo.ext he, hi⟩

theorem filter_contains_filter {l l' : List AIt} (hp : l'.Perm l) (p : AIt → Bool) :
    l.filter (fun i => (l'.filter p).contains i) = l.filter p := by
  apply List.filter_congr
  intro i hi
  have : i ∈ l' := hp.mem_iff.mpr hi
  rw [Bool.eq_iff_iff]
  simp [List.mem_filter, this]

theorem ARel.setC {cst : ASt} {st : St} (h : ARel cst st) {c' : ACaches} (hm : MemoOK c') (hc : c'.mc = cst.c.mc) :
    ARel { cst with c := c' } st :=
  ⟨by simp only [hc]; exact h.ac, by simp only [hc]; exact h.nx, h.perm, by simp only [hc]; exact h.vac,
   by simp only [hc]; exact h.vnx, hm, by simp only [hc]; exact h.mci⟩

theorem AValid.filter {mc : MCache} {l : List AIt} (h : AValid mc l) (p : AIt → Bool) : AValid mc (l.filter p) :=
  fun i hi => h i (List.mem_filter.mp hi).1

theorem AValid.snoc {mc : MCache} {l : List AIt} (h : AValid mc l) {it : AIt} (hi : it.id < mc.length) :
    AValid mc (l ++ [it]) := by
  intro i hm
  rcases List.mem_append.mp hm with hm | hm
  · exact h i hm
  · simp only [List.mem_singleton] at hm; subst hm; exact hi

/-- `AddNewPairToAntichain` + `AddToNext` -/
theorem addPairC_rel {cst : ASt} {st : St} (h : ARel cst st) {it : AIt} (hit : it.id < cst.c.mc.length) :
    ARel (addPairC .lib cst it) (addPair st (it.deref cst.c.mc)) ∧ (addPairC .lib cst it).c.mc = cst.c.mc := by
  obtain ⟨e1, m1, c1⟩ := containsC_spec it.q it.id cst.antichain cst.c h.memo hit h.vac
  rw [h.ac] at e1
  have hvi : AValid cst.c.mc cst.nextIns := fun i hi => h.vnx i (h.perm.mem_iff.mp hi)
  cases hs : subsumed st.antichain it.q (val cst.c.mc it.id) with
  | true =>
    have hC : addPairC .lib cst it = { cst with c := (containsC .lib it.q it.id cst.antichain cst.c).1 } := by
      unfold addPairC; simp only [e1, hs, if_true]
    have hB : addPair st (it.deref cst.c.mc) = st := addPair_pos hs
    rw [hC, hB]
    exact ⟨h.setC m1 c1, c1⟩
  | false =>
    obtain ⟨e2, m2, c2⟩ := refineC_spec it.q it.id cst.antichain _ m1 (c1 ▸ hit) (c1 ▸ h.vac)
    rw [c1] at e2
    have c2' := c2.trans c1
    obtain ⟨e3, m3, c3⟩ := containsC_spec it.q it.id cst.nextIns _ m2 (c2' ▸ hit) (c2' ▸ hvi)
    rw [c2'] at e3
    have c3' := c3.trans c2'
    have hsub : subsumed (cst.nextIns.map (AIt.deref cst.c.mc)) it.q (val cst.c.mc it.id) =
        subsumed st.next it.q (val cst.c.mc it.id) := by
      rw [← h.nx]; unfold subsumed; exact (h.perm.map _).any_eq
    rw [hsub] at e3
    have hB := addPair_neg (st := st) (it := it.deref cst.c.mc) hs
    have hac : (cst.antichain.filter (keepB cst.c.mc it.q it.id) ++ [it]).map (AIt.deref cst.c.mc) =
        refine st.antichain it.q (val cst.c.mc it.id) ++ [it.deref cst.c.mc] := by
      rw [← h.ac, refine_map_deref]; simp
    cases hn : subsumed st.next it.q (val cst.c.mc it.id) with
    | true =>
      have hC : addPairC .lib cst it = ⟨cst.antichain.filter (keepB cst.c.mc it.q it.id) ++ [it], cst.next, cst.nextIns,
          (containsC .lib it.q it.id cst.nextIns (refineC .lib it.q it.id cst.antichain
            (containsC .lib it.q it.id cst.antichain cst.c).1).1).1⟩ := by
        unfold addPairC; simp only [e1, hs, e2, e3, hn, if_true, Bool.false_eq_true, if_false]
      rw [hC, hB]
      refine ⟨⟨?_, ?_, h.perm, ?_, ?_, m3, ?_⟩, c3'⟩
      · simp only [c3']; rw [hac]; rfl
      · simp only [c3']; rw [h.nx]; show _ = if subsumed st.next it.q (val cst.c.mc it.id) = true then _ else _
        rw [hn, if_pos rfl]
      · simp only [c3']; exact (h.vac.filter _).snoc hit
      · simp only [c3']; exact h.vnx
      · simp only [c3']; exact h.mci
    | false =>
      obtain ⟨e4, m4, c4⟩ := refineC_spec it.q it.id cst.nextIns _ m3 (c3' ▸ hit) (c3' ▸ hvi)
      rw [c3'] at e4
      have c4' := c4.trans c3'
      have hC : addPairC .lib cst it = ⟨cst.antichain.filter (keepB cst.c.mc it.q it.id) ++ [it],
          insNextC cst.c.mc it (cst.next.filter (keepB cst.c.mc it.q it.id)),
          cst.nextIns.filter (keepB cst.c.mc it.q it.id) ++ [it],
          (refineC .lib it.q it.id cst.nextIns (containsC .lib it.q it.id cst.nextIns (refineC .lib it.q it.id cst.antichain
            (containsC .lib it.q it.id cst.antichain cst.c).1).1).1).1⟩ := by
        unfold addPairC
        simp only [e1, hs, e2, e3, hn, e4, c4', Bool.false_eq_true, if_false, filter_contains_filter h.perm]
      rw [hC, hB]
      refine ⟨⟨?_, ?_, ?_, ?_, ?_, m4, ?_⟩, c4'⟩
      · simp only [c4']; rw [hac]; rfl
      · simp only [c4']
        show _ = if subsumed st.next it.q (val cst.c.mc it.id) = true then _ else _
        rw [hn, if_neg Bool.false_ne_true, insNextC_map, ← h.nx]
        exact congrArg _ (refine_map_deref _ _ _ _).symm
      · simp only
        exact ((h.perm.filter _).append_right [it]).trans
          ((List.perm_append_singleton _ _).trans (insNextC_perm _ _ _).symm)
      · simp only [c4']; exact (h.vac.filter _).snoc hit
      · simp only [c4']
        intro i hi
        rcases mem_insNextC.mp hi with rfl | hi
        · exact hit
        · exact h.vnx i (List.mem_filter.mp hi).1
      · simp only [c4']; exact h.mci

/-- `cache_.insert` leaves the simulation intact -/
theorem internA_rel (se : Bool) {cst : ASt} {st : St} (h : ARel cst st) {v : List Nat} (hv : List.Pairwise (· < ·) v) :
    ARel { cst with c := { cst.c with mc := (intern se cst.c.mc v).1 } } st ∧
    (intern se cst.c.mc v).2 < (intern se cst.c.mc v).1.length ∧
    val (intern se cst.c.mc v).1 (intern se cst.c.mc v).2 = v ∧ Ext cst.c.mc (intern se cst.c.mc v).1 := by
  obtain ⟨he, hlt, hval, hinv⟩ := intern_spec se h.mci hv
  exact ⟨h.ext he hinv, hlt, hval, he⟩

/-- two results are related: both `return false` at the same word, or both go on in related states -/
def RRes : Res ASt → Res St → Prop
  | .ok cst, .ok st => ARel cst st
  | .error w, .error w' => w = w'
  | _, _ => False

theorem initACc_rel (se : Bool) (A B : NFA) {S0 : List Nat} (hS0 : List.Pairwise (· < ·) S0) :
    ∀ (ss : List Nat) (cst : ASt) (st : St), ARel cst st →
    RRes (initACc .lib se A B S0 ss cst) (initAC A B S0 ss st)
  | [], _, _, h => h
  | s :: ss, cst, st, h => by
    unfold initACc initAC
    split
    · exact rfl
    · obtain ⟨h1, hlt, hval, _⟩ := internA_rel se h hS0
      obtain ⟨h2, _⟩ := addPairC_rel h1 (it := ⟨s, (intern se cst.c.mc S0).2, []⟩) hlt
      have : AIt.deref (intern se cst.c.mc S0).1 ⟨s, (intern se cst.c.mc S0).2, []⟩ = ⟨s, S0, []⟩ := by
        simp only [AIt.deref, hval]
      simp only at h2
      rw [this] at h2
      exact initACc_rel se A B hS0 ss _ _ h2

theorem macroStep_sorted (N : NFA) (S : List Nat) (a : Nat) : List.Pairwise (· < ·) (macroStep N S a) :=
  normS_sorted _

theorem makePostC_rel (se : Bool) (A B : NFA) (it : AIt) (S : List Nat) :
    ∀ (es : List (Nat × Nat × Nat)) (cst : ASt) (st : St), ARel cst st → it.id < cst.c.mc.length →
    val cst.c.mc it.id = S → RRes (makePostC .lib se A B it es cst) (makePost A B ⟨it.q, S, it.w⟩ es st)
  | [], _, _, h, _, _ => h
  | e :: es, cst, st, h, hid, hS => by
    unfold makePostC makePost
    simp only
    split
    · rw [hS]
      split
      · exact rfl
      · obtain ⟨h1, hlt, hval, hext⟩ := internA_rel se h (macroStep_sorted B S e.2.1)
        obtain ⟨h2, hmc⟩ := addPairC_rel h1
          (it := ⟨e.2.2, (intern se cst.c.mc (macroStep B S e.2.1)).2, it.w ++ [e.2.1]⟩) hlt
        have : AIt.deref (intern se cst.c.mc (macroStep B S e.2.1)).1
            ⟨e.2.2, (intern se cst.c.mc (macroStep B S e.2.1)).2, it.w ++ [e.2.1]⟩ =
            ⟨e.2.2, macroStep B S e.2.1, it.w ++ [e.2.1]⟩ := by
          simp only [AIt.deref, hval]
        simp only at h2 hmc
        rw [this] at h2
        refine makePostC_rel se A B it S es _ _ h2 ?_ ?_
        · rw [hmc]; exact hext.lt hid
        · rw [hmc, hext.val hid]; exact hS
    · exact makePostC_rel se A B it S es cst st h hid hS

/-- two finished runs are related -/
def RFin : Option (Res ASt) → Option (Res (List Item)) → Prop
  | none, none => True
  | some (.error w), some (.error w') => w = w'
  | some (.ok cst), some (.ok P) => ∃ st, ARel cst st ∧ P = st.antichain
  | _, _ => False

theorem viewA_of_RFin {rc : Option (Res ASt)} {rb : Option (Res (List Item))} (h : RFin rc rb) : viewA rc = rb := by
  cases rc with
  | none => cases rb with
    | none => rfl
    | some _ => exact h.elim
  | some r => cases r with
    | error w => cases rb with
      | none => exact h.elim
      | some r' => cases r' with
        | error w' => simp only [RFin] at h; simp only [viewA, h]
        | ok _ => exact h.elim
    | ok cst => cases rb with
      | none => exact h.elim
      | some r' => cases r' with
        | error _ => exact h.elim
        | ok P =>
          obtain ⟨st, hr, rfl⟩ := h
          simp only [viewA, derefA, hr.ac]

theorem loopACc_rel (se : Bool) (A B : NFA) : ∀ (n : Nat) (cst : ASt) (st : St), ARel cst st →
    RFin (loopACc .lib se A B n cst) (loopAC A B n st)
  | 0, _, _, _ => trivial
  | n+1, cst, st, h => by
    unfold loopACc loopAC
    cases hn : cst.next with
    | nil =>
      have : st.next = [] := by rw [← h.nx, hn]; rfl
      simp only [this]
      exact ⟨st, h, rfl⟩
    | cons it rest =>
      have hst : st.next = it.deref cst.c.mc :: rest.map (AIt.deref cst.c.mc) := by rw [← h.nx, hn]; rfl
      simp only [hst]
      have hit : it.id < cst.c.mc.length := h.vnx it (by rw [hn]; exact List.mem_cons_self)
      have h' : ARel { cst with next := rest, nextIns := cst.nextIns.erase it }
          ⟨st.antichain, rest.map (AIt.deref cst.c.mc)⟩ := by
        refine ⟨h.ac, rfl, ?_, h.vac, ?_, h.memo, h.mci⟩
        · have := h.perm.erase it
          rw [hn, List.erase_cons_head] at this
          exact this
        · intro i hi; exact h.vnx i (by rw [hn]; exact List.mem_cons_of_mem _ hi)
      have hr := makePostC_rel se A B it (val cst.c.mc it.id) A.trans _ _ h' hit rfl
      have hd : it.deref cst.c.mc = ⟨it.q, val cst.c.mc it.id, it.w⟩ := rfl
      rw [hd]
      generalize makePostC .lib se A B it A.trans { cst with next := rest, nextIns := cst.nextIns.erase it } = rc at hr
      generalize makePost A B ⟨it.q, val cst.c.mc it.id, it.w⟩ A.trans ⟨st.antichain, rest.map (AIt.deref cst.c.mc)⟩ = rb at hr
      cases rc with
      | error w =>
        cases rb with
        | error w' => exact hr
        | ok _ => exact hr.elim
      | ok cst' =>
        cases rb with
        | error _ => exact hr.elim
        | ok st' => exact loopACc_rel se A B n cst' st' hr

theorem runACc_rel (se : Bool) (A B : NFA) (fuel : Nat) : RFin (runACc .lib se A B fuel) (runAC A B fuel) := by
  unfold runACc runAC
  have h0 : ARel ⟨[], [], [], {}⟩ ⟨[], []⟩ :=
    ⟨rfl, rfl, List.Perm.refl _, (by intro i hi; cases hi), (by intro i hi; cases hi), MemoOK.empty, MCInv.nil⟩
  have hr := initACc_rel se A B (normS_sorted B.start) A.start _ _ h0
  generalize initACc .lib se A B (normS B.start) A.start ⟨[], [], [], {}⟩ = rc at hr
  generalize initAC A B (normS B.start) A.start ⟨[], []⟩ = rb at hr
  cases rc with
  | error w =>
    cases rb with
    | error w' => exact hr
    | ok _ => exact hr.elim
  | ok cst' =>
    cases rb with
    | error _ => exact hr.elim
    | ok st' => exact loopACc_rel se A B fuel cst' st' hr

/-- **the cached antichain exploration, read through its pointers, is the cache-free exploration** -/
theorem runACc_eq (se : Bool) (A B : NFA) (fuel : Nat) : viewA (runACc .lib se A B fuel) = runAC A B fuel :=
  viewA_of_RFin (runACc_rel se A B fuel)

theorem memoOKB_of_MemoOK {c : ACaches} (h : MemoOK c) : memoOKB c = true := by
  simp only [memoOKB, Bool.and_eq_true, List.all_eq_true, Bool.not_eq_true']
  exact ⟨fun p hp => (h.sub p.1 p.2 hp).2.2, fun p hp => (h.nsub p.1 p.2 hp).2.2⟩

/-- **the invariant of the subset memo at the end of every run of the library's code**: every entry of `subsetMap_` is a true
`⊆`, every entry of `subsetNotMap_` a true `⊄` -/
theorem runACc_memo_sound (se : Bool) (A B : NFA) (fuel : Nat) {c : ACaches}
    (h : finalMemoA (runACc .lib se A B fuel) = some c) : MemoOK c ∧ memoOKB c = true := by
  have hr := runACc_rel se A B fuel
  generalize runACc .lib se A B fuel = rc at hr h
  cases rc with
  | none => cases h
  | some r => cases r with
    | error _ => cases h
    | ok cst =>
      simp only [finalMemoA, Option.some.injEq] at h
      subst h
      cases hb : runAC A B fuel with
      | none => rw [hb] at hr; exact hr.elim
      | some r' => cases r' with
        | error _ => rw [hb] at hr; exact hr.elim
        | ok P =>
          rw [hb] at hr
          obtain ⟨st, hrel, _⟩ := hr
          exact ⟨hrel.memo, memoOKB_of_MemoOK hrel.memo⟩

theorem nfaInclAC_eq_finish (A B : NFA) (fuel : Nat) : nfaInclAC A B fuel = finishAC A B (runAC A B fuel) := by
  unfold nfaInclAC
  cases runAC A B fuel with
  | none => rfl
  | some r => cases r <;> rfl

/-- **C09, antichain functor: the macro-state cache and the subset memo are transparent.**  For all operands, every fuel
and both variants of `areEqual`, the functor with its caches returns exactly what the cache-free model returns: the same
verdict with the same antichain, the same witness, `none` at the same fuel. -/
theorem nfaInclAC_cached_eq (se : Bool) (A B : NFA) (fuel : Nat) : nfaInclACc .lib se A B fuel = nfaInclAC A B fuel := by
  rw [nfaInclAC_eq_finish, nfaInclACc, runACc_eq]

theorem checkNfaInclAC_cached_eq (se : Bool) (A B : NFA) (fuel : Nat) :
    checkNfaInclACc .lib se A B fuel = checkNfaInclAC A B fuel :=
  nfaInclAC_cached_eq se _ _ fuel

/-! ### the congruence functor: `usedRules_` -/

/-- all addresses of a list of pairs are live -/
def CValid (mc : MCache) (l : List CIt) : Prop := ∀ i, i ∈ l → i.x < mc.length ∧ i.y < mc.length

theorem CValid.ext {mc mc' : MCache} {l : List CIt} (h : CValid mc l) (he : Ext mc mc') : CValid mc' l :=
  fun i hi => ⟨he.lt (h i hi).1, he.lt (h i hi).2⟩

theorem map_derefC_ext {mc mc' : MCache} {l : List CIt} (h : CValid mc l) (he : Ext mc mc') :
    l.map (CIt.deref mc') = l.map (CIt.deref mc) := by
  apply List.map_congr_left
  intro i hi
  simp only [CIt.deref, he.val (h i hi).1, he.val (h i hi).2]

/-- the rules `Yᵢ → Xᵢ ∪ Yᵢ` read through the pointers -/
def drules (mc : MCache) (l : List CIt) : List CRule := l.map (fun i => (val mc i.x, val mc i.y))

theorem rulesOf_map_deref (mc : MCache) (l : List CIt) : rulesOf (l.map (CIt.deref mc)) = drules mc l := by
  simp only [rulesOf, drules, List.map_map]; rfl

/-- the shape of every pair explored on `U = A ⊎ B` and `B`: the right component consists of states of `B`, and the left
component has no state of `B` that the right one lacks -/
def StructR (B : NFA) (r : CRule) : Prop :=
  (∀ y, y ∈ r.2 → y ∈ nfaStates B) ∧ (∀ x, x ∈ r.1 → x ∈ nfaStates B → x ∈ r.2)

/-- **the invariant of `usedRules_`**: an entry `b ↦ y` is a true fact about the two values: `*y ⊆ *b` -/
def UsedOK (mc : MCache) (u : PtrMap) : Prop :=
  ∀ k v, (k, v) ∈ u → k < mc.length ∧ v < mc.length ∧ ∀ x, x ∈ val mc v → x ∈ val mc k

theorem UsedOK.ext {mc mc' : MCache} {u : PtrMap} (h : UsedOK mc u) (he : Ext mc mc') : UsedOK mc' u := by
  intro k v hkv
  obtain ⟨hk, hv, hs⟩ := h k v hkv
  refine ⟨he.lt hk, he.lt hv, ?_⟩
  rw [he.val hk, he.val hv]; exact hs

def GoodRules (B : NFA) (mc : MCache) (l : List CIt) : Prop :=
  ∀ r, r ∈ l → r.x < mc.length ∧ r.y < mc.length ∧ StructR B (val mc r.x, val mc r.y)

/-- the set under construction contains `*b` and has no other state of `B` -/
structure SweepInv (B : NFA) (mc : MCache) (b : Nat) (set : List Nat) : Prop where
  lo : ∀ x, x ∈ val mc b → x ∈ set
  hi : ∀ x, x ∈ set → x ∈ nfaStates B → x ∈ val mc b

/-- under the invariant the shortcut through `usedRules_` answers what `MatchPair` answers -/
theorem firesC_eq {B : NFA} {vis : Bool} {mc : MCache} {b : Nat} {u : PtrMap} {r : CIt} {set : List Nat}
    (hu : UsedOK mc u) (hs : SweepInv B mc b set) :
    firesC .lib vis mc b u r set = Vata.subB (val mc r.y) set := by
  unfold firesC
  cases vis with
  | false => rfl
  | true =>
    simp only [if_true]
    cases hm : mlHas u b r.y with
    | false => simp
    | true =>
      obtain ⟨_, _, hsub⟩ := hu b r.y (mlHas_iff.mp hm)
      have : Vata.subB (val mc r.y) set = true := subB_iff.mpr (fun x hx => hs.lo x (hsub x hx))
      simp [this]

theorem sweepC_spec (B : NFA) (vis : Bool) {mc : MCache} (s : List Nat) {b : Nat} (hb : b < mc.length) :
    ∀ (rs un : List CIt) (set : List Nat) (ap : Bool) (u : PtrMap),
    GoodRules B mc rs → GoodRules B mc un → SweepInv B mc b set → UsedOK mc u →
    UsedOK mc (sweepC .lib vis mc s b rs un set ap u).1 ∧
    (match (sweepC .lib vis mc s b rs un set ap u).2 with
     | none => sweep s (drules mc rs) (drules mc un) set ap = none
     | some t => sweep s (drules mc rs) (drules mc un) set ap = some (drules mc t.1, t.2.1, t.2.2) ∧
        GoodRules B mc t.1 ∧ SweepInv B mc b t.2.1)
  | [], un, set, ap, u, _, hun, hs, hu => by
    refine ⟨hu, ?_⟩
    simp only [sweepC, sweep, drules, List.map_nil, List.map_reverse]
    exact ⟨trivial, fun r hr => hun r (List.mem_reverse.mp hr), hs⟩
  | r :: rs, un, set, ap, u, hrs, hun, hs, hu => by
    have hr := hrs r List.mem_cons_self
    have hrs' : GoodRules B mc rs := fun r' h => hrs r' (List.mem_cons_of_mem _ h)
    unfold sweepC
    rw [firesC_eq hu hs]
    simp only [drules, List.map_cons]
    unfold sweep
    simp only
    split
    · next hm =>
      have hm' := subB_iff.mp hm
      have hs' : SweepInv B mc b (normS (set ++ val mc r.x ++ val mc r.y)) := by
        constructor
        · intro x hx
          exact mem_normS.mpr (List.mem_append_left _ (List.mem_append_left _ (hs.lo x hx)))
        · intro x hx hxB
          rcases List.mem_append.mp (mem_normS.mp hx) with h | h
          · rcases List.mem_append.mp h with h | h
            · exact hs.hi x h hxB
            · exact hs.hi x (hm' x (hr.2.2.2 x h hxB)) hxB
          · exact hs.hi x (hm' x h) hxB
      have hu' : UsedOK mc (if vis = true then u else mlAdd u b r.y) := by
        split
        · exact hu
        · intro k v hkv
          rcases mem_mlAdd.mp hkv with he | he
          · cases he
            exact ⟨hb, hr.2.1, fun x hx => hs.hi x (hm' x hx) (hr.2.2.1 x hx)⟩
          · exact hu k v he
      split
      · exact ⟨hu', rfl⟩
      · exact sweepC_spec B vis s hb rs un _ true _ hrs' hun hs' hu'
    · have hun' : GoodRules B mc (r :: un) := by
        intro r' h
        rcases List.mem_cons.mp h with rfl | h
        · exact hr
        · exact hun r' h
      exact sweepC_spec B vis s hb rs (r :: un) set ap u hrs' hun' hs hu

theorem closeLoopC_spec (B : NFA) (vis : Bool) {mc : MCache} (s : List Nat) {b : Nat} (hb : b < mc.length) :
    ∀ (n : Nat) (rules : List CIt) (set : List Nat) (u : PtrMap),
    GoodRules B mc rules → SweepInv B mc b set → UsedOK mc u →
    UsedOK mc (closeLoopC .lib vis mc s b n rules set u).1 ∧
    (closeLoopC .lib vis mc s b n rules set u).2 = closeLoop s n (drules mc rules) set
  | 0, _, _, _, _, _, hu => ⟨hu, rfl⟩
  | n+1, rules, set, u, hr, hs, hu => by
    have hsp := sweepC_spec B vis s hb rules [] set false u hr (fun _ h => by cases h) hs hu
    unfold closeLoopC closeLoop
    have hnil : drules mc [] = [] := rfl
    rw [hnil] at hsp
    generalize sweepC .lib vis mc s b rules [] set false u = res at hsp
    obtain ⟨u', o⟩ := res
    cases o with
    | none =>
      simp only at hsp
      simp only [hsp.2]
      exact ⟨hsp.1, trivial⟩
    | some t =>
      obtain ⟨un, set', ap⟩ := t
      simp only at hsp
      simp only [hsp.2.1]
      cases ap with
      | false => exact ⟨hsp.1, rfl⟩
      | true => exact closeLoopC_spec B vis s hb n un set' u' hsp.2.2.1 hsp.2.2.2 hsp.1

/-- **`usedRules_` is transparent**: under the invariant the closure test with the memo answers what the test on the values
answers, and the invariant is kept -/
theorem inClosureC_spec (B : NFA) {mc : MCache} {u : PtrMap} {rules : List CIt} (s : List Nat) {b : Nat}
    (hb : b < mc.length) (hr : GoodRules B mc rules) (hu : UsedOK mc u) :
    UsedOK mc (inClosureC .lib mc u rules s b).1 ∧
    (inClosureC .lib mc u rules s b).2 = inClosure (drules mc rules) s (val mc b) := by
  unfold inClosureC inClosure
  have := closeLoopC_spec B (mlHasKey u b) s hb (rules.length + 1) rules (val mc b) u hr
    ⟨fun _ h => h, fun _ h _ => h⟩ hu
  simp only [drules, List.length_map] at this ⊢
  exact this

/-! ### the simulation between the cached and the cache-free congruence functor -/

/-- no reachable pair of macro-states has exactly one empty component (then the library's `areEqual`, which never identifies
two empty sets, behaves like an interning cache on every pair that is enqueued) -/
def NoHalfEmpty (U B : NFA) : Prop := ∀ w, (mrun U w).isEmpty = (mrun B w).isEmpty

theorem mrun_snoc (N : NFA) (w : List Nat) (a : Nat) : mrun N (w ++ [a]) = macroStep N (mrun N w) a := by
  simp [mrun, List.foldl_append]

theorem structR_init {A B : NFA} (hdis : ∀ q, q ∈ nfaStates A → q ∈ nfaStates B → False) :
    StructR B (normS (nfaUnionDisjoint A B).start, normS B.start) := by
  constructor
  · intro y hy
    exact start_mem_nfaStates (mem_normS.mp hy)
  · intro x hx hxB
    rcases List.mem_append.mp (mem_normS.mp hx) with h | h
    · exact (hdis x (start_mem_nfaStates h) hxB).elim
    · exact mem_normS.mpr h

theorem structR_step {A B : NFA} (hdis : ∀ q, q ∈ nfaStates A → q ∈ nfaStates B → False) {X Y : List Nat}
    (h : StructR B (X, Y)) (a : Nat) : StructR B (macroStep (nfaUnionDisjoint A B) X a, macroStep B Y a) := by
  constructor
  · intro y hy
    obtain ⟨p, _, he⟩ := mem_stepW.mp (mem_normS.mp hy)
    exact tgt_mem_nfaStates he
  · intro x hx hxB
    obtain ⟨p, hp, he⟩ := mem_stepW.mp (mem_normS.mp hx)
    rcases List.mem_append.mp he with he | he
    · exact (hdis x (tgt_mem_nfaStates he) hxB).elim
    · exact mem_normS.mpr (mem_stepW.mpr ⟨p, h.2 p hp (src_mem_nfaStates he), he⟩)

structure CRel (se : Bool) (A B : NFA) (cst : CStC) (st : CSt) : Prop where
  rel : cst.relation.map (CIt.deref cst.c.mc) = st.relation
  nx : cst.next.map (CIt.deref cst.c.mc) = st.next
  vis : cst.c.visited.map (fun p => (val cst.c.mc p.1, val cst.c.mc p.2)) = st.visited
  vrel : CValid cst.c.mc cst.relation
  vnx : CValid cst.c.mc cst.next
  vvis : ∀ p, p ∈ cst.c.visited → p.1 < cst.c.mc.length ∧ p.2 < cst.c.mc.length
  used : UsedOK cst.c.mc cst.c.used
  mci : MCInv cst.c.mc
  inj : MCInj se cst.c.mc
  str : ∀ i, i ∈ st.next ++ st.relation → StructR B (i.X, i.Y)
  wd : ∀ i, i ∈ st.next → i.X = mrun (nfaUnionDisjoint A B) i.w ∧ i.Y = mrun B i.w

theorem map_vis_ext {mc mc' : MCache} {v : PtrMap} (hv : ∀ p, p ∈ v → p.1 < mc.length ∧ p.2 < mc.length) (he : Ext mc mc') :
    v.map (fun p => (val mc' p.1, val mc' p.2)) = v.map (fun p => (val mc p.1, val mc p.2)) := by
  apply List.map_congr_left
  intro p hp
  simp only [he.val (hv p hp).1, he.val (hv p hp).2]

theorem CRel.ext {se : Bool} {A B : NFA} {cst : CStC} {st : CSt} (h : CRel se A B cst st) {mc' : MCache}
    (he : Ext cst.c.mc mc') (hi : MCInv mc') (hj : MCInj se mc') :
    CRel se A B { cst with c := { cst.c with mc := mc' } } st :=
  ⟨by simp only; rw [map_derefC_ext h.vrel he]; exact h.rel,
   by simp only; rw [map_derefC_ext h.vnx he]; exact h.nx,
   by simp only; rw [map_vis_ext h.vvis he]; exact h.vis,
   h.vrel.ext he, h.vnx.ext he, fun p hp => ⟨he.lt (h.vvis p hp).1, he.lt (h.vvis p hp).2⟩,
   h.used.ext he, hi, hj, h.str, h.wd⟩

/-- two calls of `cache_.insert` in a row -/
theorem intern2_spec (se : Bool) {mc : MCache} (h : MCInv mc) (hj : MCInj se mc) {v1 v2 : List Nat}
    (h1 : List.Pairwise (· < ·) v1) (h2 : List.Pairwise (· < ·) v2) :
    Ext mc (intern se (intern se mc v1).1 v2).1 ∧
    (intern se mc v1).2 < (intern se (intern se mc v1).1 v2).1.length ∧
    (intern se (intern se mc v1).1 v2).2 < (intern se (intern se mc v1).1 v2).1.length ∧
    val (intern se (intern se mc v1).1 v2).1 (intern se mc v1).2 = v1 ∧
    val (intern se (intern se mc v1).1 v2).1 (intern se (intern se mc v1).1 v2).2 = v2 ∧
    MCInv (intern se (intern se mc v1).1 v2).1 ∧ MCInj se (intern se (intern se mc v1).1 v2).1 := by
  obtain ⟨e1, l1, v1', i1⟩ := intern_spec se h h1
  obtain ⟨e2, l2, v2', i2⟩ := intern_spec se i1 h2
  exact ⟨e1.trans e2, e2.lt l1, l2, by rw [e2.val l1]; exact v1', v2', i2, intern_inj se i1 (intern_inj se h hj)⟩

def RResC (se : Bool) (A B : NFA) (mc0 : MCache) : Res CStC → Res CSt → Prop
  | .ok cst, .ok st => CRel se A B cst st ∧ Ext mc0 cst.c.mc
  | .error w, .error w' => w = w'
  | _, _ => False

theorem isEmpty_eq_false_of_ne {l : List Nat} (h : l ≠ []) : l.isEmpty = false := by
  cases l with
  | nil => exact (h rfl).elim
  | cons _ _ => rfl

theorem congrPostC_rel {se : Bool} {A B : NFA} (hdis : ∀ q, q ∈ nfaStates A → q ∈ nfaStates B → False)
    (hne : se = true ∨ NoHalfEmpty (nfaUnionDisjoint A B) B) (br : Bool) (w X Y : List Nat)
    (hX : X = mrun (nfaUnionDisjoint A B) w) (hY : Y = mrun B w) (hstr : StructR B (X, Y)) :
    ∀ (as : List Nat) (cst : CStC) (st : CSt) (mc0 : MCache), CRel se A B cst st → Ext mc0 cst.c.mc →
    RResC se A B mc0 (congrPostC se (nfaUnionDisjoint A B) B br w X Y as cst)
      (congrPost (nfaUnionDisjoint A B) B br ⟨X, Y, w⟩ as st)
  | [], _, _, _, h, he0 => ⟨h, he0⟩
  | a :: as, cst, st, mc0, h, he0 => by
    unfold congrPostC congrPost
    simp only
    by_cases hacc : (W.accepting (nfaUnionDisjoint A B) (macroStep (nfaUnionDisjoint A B) X a) !=
        W.accepting B (macroStep B Y a)) = true
    · rw [if_pos hacc, if_pos hacc]; exact rfl
    · rw [if_neg hacc, if_neg hacc]
      by_cases hemp : ((macroStep (nfaUnionDisjoint A B) X a).isEmpty && (macroStep B Y a).isEmpty) = true
      · rw [if_pos hemp, if_pos hemp]
        exact congrPostC_rel hdis hne br w X Y hX hY hstr as cst st mc0 h he0
      · rw [if_neg hemp, if_neg hemp]
        obtain ⟨hext, hx, hy, hvx, hvy, hinv, hinj⟩ := intern2_spec se h.mci h.inj
          (macroStep_sorted (nfaUnionDisjoint A B) X a) (macroStep_sorted B Y a)
        -- the two new macro-states are non-empty, or the cache interns the empty set
        have hnz : (se = true ∨ macroStep (nfaUnionDisjoint A B) X a ≠ []) ∧ (se = true ∨ macroStep B Y a ≠ []) := by
          rcases hne with hse | hnh
          · exact ⟨Or.inl hse, Or.inl hse⟩
          · have := hnh (w ++ [a])
            rw [mrun_snoc, mrun_snoc, ← hX, ← hY] at this
            rw [this, Bool.and_self] at hemp
            have hy' : macroStep B Y a ≠ [] := by
              intro h0; rw [h0] at hemp; exact hemp rfl
            have hx' : macroStep (nfaUnionDisjoint A B) X a ≠ [] := by
              intro h0; rw [h0] at this
              rw [isEmpty_eq_false_of_ne hy'] at this; cases this
            exact ⟨Or.inr hx', Or.inr hy'⟩
        have hvis : mlHas cst.c.visited (intern se cst.c.mc (macroStep (nfaUnionDisjoint A B) X a)).2
            (intern se (intern se cst.c.mc (macroStep (nfaUnionDisjoint A B) X a)).1 (macroStep B Y a)).2 =
            st.visited.contains (macroStep (nfaUnionDisjoint A B) X a, macroStep B Y a) := by
          rw [Bool.eq_iff_iff, mlHas_iff, List.contains_iff_mem, ← h.vis, List.mem_map]
          constructor
          · intro hm
            refine ⟨_, hm, ?_⟩
            simp only
            rw [← hext.val (h.vvis _ hm).1, ← hext.val (h.vvis _ hm).2, hvx, hvy]
          · rintro ⟨p, hp, he⟩
            simp only [Prod.mk.injEq] at he
            have hp1 := h.vvis p hp
            have e1 : p.1 = (intern se cst.c.mc (macroStep (nfaUnionDisjoint A B) X a)).2 := by
              apply hinj _ _ (hext.lt hp1.1) hx
              · rw [hext.val hp1.1, he.1, hvx]
              · rw [hext.val hp1.1, he.1]; exact hnz.1
            have e2 : p.2 = (intern se (intern se cst.c.mc (macroStep (nfaUnionDisjoint A B) X a)).1
                (macroStep B Y a)).2 := by
              apply hinj _ _ (hext.lt hp1.2) hy
              · rw [hext.val hp1.2, he.2, hvy]
              · rw [hext.val hp1.2, he.2]; exact hnz.2
            rw [← e1, ← e2]; exact hp
        rw [hvis]
        by_cases hv : st.visited.contains (macroStep (nfaUnionDisjoint A B) X a, macroStep B Y a) = true
        · rw [if_pos hv, if_pos hv]
          exact congrPostC_rel hdis hne br w X Y hX hY hstr as _ st mc0 (h.ext hext hinv hinj) (he0.trans hext)
        · rw [if_neg hv, if_neg hv]
          have hv' : mlHas cst.c.visited (intern se cst.c.mc (macroStep (nfaUnionDisjoint A B) X a)).2
            (intern se (intern se cst.c.mc (macroStep (nfaUnionDisjoint A B) X a)).1 (macroStep B Y a)).2 = false := by
            rw [hvis]; simpa using hv
          refine congrPostC_rel hdis hne br w X Y hX hY hstr as _ _ mc0 ?_ (he0.trans hext)
          have hnew : CIt.deref (intern se (intern se cst.c.mc (macroStep (nfaUnionDisjoint A B) X a)).1
              (macroStep B Y a)).1
              ⟨(intern se cst.c.mc (macroStep (nfaUnionDisjoint A B) X a)).2,
               (intern se (intern se cst.c.mc (macroStep (nfaUnionDisjoint A B) X a)).1 (macroStep B Y a)).2,
               w ++ [a]⟩ = ⟨macroStep (nfaUnionDisjoint A B) X a, macroStep B Y a, w ++ [a]⟩ := by
            simp only [CIt.deref, hvx, hvy]
          refine ⟨?_, ?_, ?_, h.vrel.ext hext, ?_, ?_, h.used.ext hext, hinv, hinj, ?_, ?_⟩
          · simp only; rw [map_derefC_ext h.vrel hext]; exact h.rel
          · simp only
            cases br with
            | true => simp only [addNextC, addNext, if_true, List.map_append, List.map_cons, List.map_nil, hnew,
                map_derefC_ext h.vnx hext, h.nx]
            | false => simp only [addNextC, addNext, Bool.false_eq_true, if_false, List.map_cons, hnew,
                map_derefC_ext h.vnx hext, h.nx]
          · simp only
            rw [mlAdd_of_not_has hv', List.map_cons, map_vis_ext h.vvis hext, h.vis, hvx, hvy]
          · intro i hi
            have : i = ⟨(intern se cst.c.mc (macroStep (nfaUnionDisjoint A B) X a)).2,
               (intern se (intern se cst.c.mc (macroStep (nfaUnionDisjoint A B) X a)).1 (macroStep B Y a)).2,
               w ++ [a]⟩ ∨ i ∈ cst.next := by
              simp only [addNextC] at hi
              split at hi
              · rcases List.mem_append.mp hi with h' | h'
                · exact Or.inr h'
                · exact Or.inl (List.mem_singleton.mp h')
              · exact List.mem_cons.mp hi
            rcases this with rfl | hi
            · exact ⟨hx, hy⟩
            · exact (h.vnx.ext hext) i hi
          · intro p hp
            rcases mem_mlAdd.mp hp with rfl | hp
            · exact ⟨hx, hy⟩
            · exact ⟨hext.lt (h.vvis p hp).1, hext.lt (h.vvis p hp).2⟩
          · intro i hi
            rcases List.mem_append.mp hi with hi | hi
            · rcases mem_addNext.mp hi with rfl | hi
              · exact structR_step hdis hstr a
              · exact h.str i (List.mem_append_left _ hi)
            · exact h.str i (List.mem_append_right _ hi)
          · intro i hi
            rcases mem_addNext.mp hi with rfl | hi
            · simp only; rw [mrun_snoc, mrun_snoc, ← hX, ← hY]; exact ⟨rfl, rfl⟩
            · exact h.wd i hi

/-- `relation_.push_back(make_pair(&s, &b))` -/
theorem CRel.snoc {se : Bool} {A B : NFA} {cst : CStC} {st : CSt} (h : CRel se A B cst st) {s b : Nat} {w X Y : List Nat}
    (hs : s < cst.c.mc.length) (hb : b < cst.c.mc.length) (hX : val cst.c.mc s = X) (hY : val cst.c.mc b = Y)
    (hstr : StructR B (X, Y)) :
    CRel se A B ⟨cst.relation ++ [⟨s, b, w⟩], cst.next, cst.c⟩ ⟨st.relation ++ [⟨X, Y, w⟩], st.next, st.visited⟩ := by
  refine ⟨?_, h.nx, h.vis, ?_, h.vnx, h.vvis, h.used, h.mci, h.inj, ?_, h.wd⟩
  · simp only [List.map_append, List.map_cons, List.map_nil, h.rel, CIt.deref, hX, hY]
  · intro i hi
    rcases List.mem_append.mp hi with hi | hi
    · exact h.vrel i hi
    · simp only [List.mem_singleton] at hi; subst hi; exact ⟨hs, hb⟩
  · intro i hi
    simp only [List.mem_append, List.mem_singleton] at hi
    rcases hi with hi | hi | rfl
    · exact h.str i (List.mem_append_left _ hi)
    · exact h.str i (List.mem_append_right _ hi)
    · exact hstr

def RFinC (se : Bool) (A B : NFA) : Option (Res CStC) → Option (Res (List CItem)) → Prop
  | none, none => True
  | some (.error w), some (.error w') => w = w'
  | some (.ok cst), some (.ok R) => ∃ st, CRel se A B cst st ∧ R = st.relation
  | _, _ => False

theorem viewC_of_RFinC {se : Bool} {A B : NFA} {rc : Option (Res CStC)} {rb : Option (Res (List CItem))}
    (h : RFinC se A B rc rb) : viewC rc = rb := by
  cases rc with
  | none => cases rb with
    | none => rfl
    | some _ => exact h.elim
  | some r => cases r with
    | error w => cases rb with
      | none => exact h.elim
      | some r' => cases r' with
        | error w' => simp only [RFinC] at h; simp only [viewC, h]
        | ok _ => exact h.elim
    | ok cst => cases rb with
      | none => exact h.elim
      | some r' => cases r' with
        | error _ => exact h.elim
        | ok P =>
          obtain ⟨st, hr, rfl⟩ := h
          simp only [viewC, derefC, hr.rel]

theorem loopCongrC_rel {se : Bool} {A B : NFA} (hdis : ∀ q, q ∈ nfaStates A → q ∈ nfaStates B → False)
    (hne : se = true ∨ NoHalfEmpty (nfaUnionDisjoint A B) B) (br : Bool) :
    ∀ (n : Nat) (cst : CStC) (st : CSt), CRel se A B cst st →
    RFinC se A B (loopCongrC .lib se (nfaUnionDisjoint A B) B br n cst) (loopCongr (nfaUnionDisjoint A B) B br n st)
  | 0, _, _, _ => trivial
  | n+1, cst, st, h => by
    unfold loopCongrC loopCongr
    cases hn : cst.next with
    | nil =>
      have : st.next = [] := by rw [← h.nx, hn]; rfl
      simp only [this]
      exact ⟨st, h, rfl⟩
    | cons it rest =>
      have hst : st.next = it.deref cst.c.mc :: rest.map (CIt.deref cst.c.mc) := by rw [← h.nx, hn]; rfl
      simp only [hst]
      have hmem : it ∈ cst.next := by rw [hn]; exact List.mem_cons_self
      have hmem' : it.deref cst.c.mc ∈ st.next := by rw [hst]; exact List.mem_cons_self
      have hit := h.vnx it hmem
      have hvrest : CValid cst.c.mc rest := fun i hi => h.vnx i (by rw [hn]; exact List.mem_cons_of_mem _ hi)
      have hstr : StructR B (val cst.c.mc it.x, val cst.c.mc it.y) := h.str _ (List.mem_append_left _ hmem')
      have hwd := h.wd _ hmem'
      obtain ⟨hext, hs, hb, hvs, hvb, hinv, hinj⟩ := intern2_spec se h.mci h.inj
        (h.mci.val_sorted hit.1) (h.mci.val_sorted hit.2)
      -- the rules of the closure test
      have hvrules : CValid cst.c.mc (rest.reverse ++ cst.relation) := by
        intro i hi
        rcases List.mem_append.mp hi with hi | hi
        · exact hvrest i (List.mem_reverse.mp hi)
        · exact h.vrel i hi
      have hderef : (rest.reverse ++ cst.relation).map (CIt.deref cst.c.mc) =
          (rest.map (CIt.deref cst.c.mc)).reverse ++ st.relation := by
        rw [List.map_append, List.map_reverse, h.rel]
      have hgood : GoodRules B (intern se (intern se cst.c.mc (val cst.c.mc it.x)).1 (val cst.c.mc it.y)).1
          (rest.reverse ++ cst.relation) := by
        intro r hr
        have hv := hvrules r hr
        refine ⟨hext.lt hv.1, hext.lt hv.2, ?_⟩
        rw [hext.val hv.1, hext.val hv.2]
        have : r.deref cst.c.mc ∈ (rest.map (CIt.deref cst.c.mc)).reverse ++ st.relation := by
          rw [← hderef]; exact List.mem_map_of_mem hr
        apply h.str (r.deref cst.c.mc)
        rw [hst]
        rcases List.mem_append.mp this with h' | h'
        · exact List.mem_append_left _ (List.mem_cons_of_mem _ (List.mem_reverse.mp h'))
        · exact List.mem_append_right _ h'
      obtain ⟨hu', hcl⟩ := inClosureC_spec B (val cst.c.mc it.x) hb hgood (h.used.ext hext)
      rw [hvb, ← rulesOf_map_deref, map_derefC_ext hvrules hext, hderef] at hcl
      have hpop : ∀ u', UsedOK (intern se (intern se cst.c.mc (val cst.c.mc it.x)).1 (val cst.c.mc it.y)).1 u' →
          CRel se A B ⟨cst.relation, rest,
            ⟨(intern se (intern se cst.c.mc (val cst.c.mc it.x)).1 (val cst.c.mc it.y)).1, cst.c.visited, u'⟩⟩
            ⟨st.relation, rest.map (CIt.deref cst.c.mc), st.visited⟩ := by
        intro u' hu
        refine ⟨?_, ?_, ?_, h.vrel.ext hext, hvrest.ext hext,
          fun p hp => ⟨hext.lt (h.vvis p hp).1, hext.lt (h.vvis p hp).2⟩, hu, hinv, hinj, ?_, ?_⟩
        · simp only; rw [map_derefC_ext h.vrel hext]; exact h.rel
        · simp only; rw [map_derefC_ext hvrest hext]
        · simp only; rw [map_vis_ext h.vvis hext]; exact h.vis
        · intro i hi
          apply h.str i
          rw [hst]
          rcases List.mem_append.mp hi with h' | h'
          · exact List.mem_append_left _ (List.mem_cons_of_mem _ h')
          · exact List.mem_append_right _ h'
        · intro i hi
          exact h.wd i (by rw [hst]; exact List.mem_cons_of_mem _ hi)
      have hd : it.deref cst.c.mc = ⟨val cst.c.mc it.x, val cst.c.mc it.y, it.w⟩ := rfl
      rw [hd]
      simp only
      rw [hcl]
      by_cases hc : inClosure (rulesOf ((rest.map (CIt.deref cst.c.mc)).reverse ++ st.relation))
          (val cst.c.mc it.x) (val cst.c.mc it.y) = true
      · rw [if_pos hc, if_pos hc]
        exact loopCongrC_rel hdis hne br n _ _ (hpop _ hu')
      · rw [if_neg hc, if_neg hc]
        have hr := congrPostC_rel hdis hne br it.w (val cst.c.mc it.x) (val cst.c.mc it.y) hwd.1 hwd.2 hstr
          (postSyms (nfaUnionDisjoint A B) B (val cst.c.mc it.x) (val cst.c.mc it.y)) _ _ _ (hpop _ hu') (Ext.refl _)
        simp only at hr
        generalize congrPostC se (nfaUnionDisjoint A B) B br it.w (val cst.c.mc it.x) (val cst.c.mc it.y)
          (postSyms (nfaUnionDisjoint A B) B (val cst.c.mc it.x) (val cst.c.mc it.y)) _ = rc at hr
        generalize congrPost (nfaUnionDisjoint A B) B br ⟨val cst.c.mc it.x, val cst.c.mc it.y, it.w⟩
          (postSyms (nfaUnionDisjoint A B) B (val cst.c.mc it.x) (val cst.c.mc it.y)) _ = rb at hr
        cases rc with
        | error w =>
          cases rb with
          | error w' => exact hr
          | ok _ => exact hr.elim
        | ok cst' =>
          cases rb with
          | error _ => exact hr.elim
          | ok st' =>
            obtain ⟨hr1, hr2⟩ := hr
            apply loopCongrC_rel hdis hne br n
            exact hr1.snoc (hr2.lt hs) (hr2.lt hb) (by rw [hr2.val hs]; exact hvs) (by rw [hr2.val hb]; exact hvb) hstr

theorem runCongrC_rel {se : Bool} {A B : NFA} (hdis : ∀ q, q ∈ nfaStates A → q ∈ nfaStates B → False)
    (hne : se = true ∨ NoHalfEmpty (nfaUnionDisjoint A B) B) (br : Bool) (fuel : Nat) :
    RFinC se A B (runCongrC .lib se (nfaUnionDisjoint A B) B br fuel) (runCongr (nfaUnionDisjoint A B) B br fuel) := by
  unfold runCongrC runCongr
  simp only
  split
  · exact rfl
  · obtain ⟨hext, hs, hb, hvs, hvb, hinv, hinj⟩ := intern2_spec se MCInv.nil (fun i j hi => by cases hi)
      (normS_sorted (nfaUnionDisjoint A B).start) (normS_sorted B.start)
    apply loopCongrC_rel hdis hne br fuel
    refine ⟨rfl, ?_, ?_, (fun i hi => by cases hi), ?_, ?_, (fun k v hkv => by cases hkv), hinv, hinj, ?_, ?_⟩
    · simp only [List.map_cons, List.map_nil, CIt.deref, hvs, hvb]
    · simp only [List.map_cons, List.map_nil, hvs, hvb]
    · intro i hi; simp only [List.mem_singleton] at hi; subst hi; exact ⟨hs, hb⟩
    · intro p hp; simp only [List.mem_singleton] at hp; subst hp; exact ⟨hs, hb⟩
    · intro i hi
      simp only [List.append_nil, List.mem_singleton] at hi; subst hi
      exact structR_init hdis
    · intro i hi
      simp only [List.mem_singleton] at hi; subst hi
      exact ⟨rfl, rfl⟩

/-- **the cached congruence exploration, read through its pointers, is the cache-free exploration** (operands with disjoint
states; the cache interns the empty set, or no pair with exactly one empty component is reachable) -/
theorem runCongrC_eq {se : Bool} {A B : NFA} (hdis : ∀ q, q ∈ nfaStates A → q ∈ nfaStates B → False)
    (hne : se = true ∨ NoHalfEmpty (nfaUnionDisjoint A B) B) (br : Bool) (fuel : Nat) :
    viewC (runCongrC .lib se (nfaUnionDisjoint A B) B br fuel) = runCongr (nfaUnionDisjoint A B) B br fuel :=
  viewC_of_RFinC (runCongrC_rel hdis hne br fuel)

theorem usedOKB_of_UsedOK {c : CCaches} (h : UsedOK c.mc c.used) : usedOKB c = true := by
  simp only [usedOKB, List.all_eq_true]
  exact fun p hp => subB_iff.mpr (h p.1 p.2 hp).2.2

/-- **the invariant of `usedRules_` at the end of every such run of the library's code**: every entry `b ↦ y` is a true
`*y ⊆ *b` -/
theorem runCongrC_used_sound {se : Bool} {A B : NFA} (hdis : ∀ q, q ∈ nfaStates A → q ∈ nfaStates B → False)
    (hne : se = true ∨ NoHalfEmpty (nfaUnionDisjoint A B) B) (br : Bool) (fuel : Nat) {c : CCaches}
    (h : finalMemoC (runCongrC .lib se (nfaUnionDisjoint A B) B br fuel) = some c) :
    UsedOK c.mc c.used ∧ usedOKB c = true := by
  have hr := runCongrC_rel hdis hne br fuel
  generalize runCongrC .lib se (nfaUnionDisjoint A B) B br fuel = rc at hr h
  cases rc with
  | none => cases h
  | some r => cases r with
    | error _ => cases h
    | ok cst =>
      simp only [finalMemoC, Option.some.injEq] at h
      subst h
      cases hb : runCongr (nfaUnionDisjoint A B) B br fuel with
      | none => rw [hb] at hr; exact hr.elim
      | some r' => cases r' with
        | error _ => rw [hb] at hr; exact hr.elim
        | ok P =>
          rw [hb] at hr
          obtain ⟨st, hrel, _⟩ := hr
          exact ⟨hrel.used, usedOKB_of_UsedOK hrel.used⟩

theorem nfaInclCongr_eq_finish (A B : NFA) (br : Bool) (fuel : Nat) :
    nfaInclCongr A B br fuel = finishCongr A B (runCongr (nfaUnionDisjoint A B) B br fuel) := by
  unfold nfaInclCongr
  cases runCongr (nfaUnionDisjoint A B) B br fuel with
  | none => rfl
  | some r => cases r <;> rfl

/-- **C09, congruence functor: the macro-state cache, `visitedPairs_` and `usedRules_` are transparent.**  For operands with
disjoint states (what `SanitizeAutsForInclusion` produces), both orders and every fuel the functor with its caches returns
exactly what the cache-free model returns, provided the cache interns the empty set (`se = true`) or no pair with exactly
one empty component is reachable. -/
theorem nfaInclCongr_cached_eq {se : Bool} {A B : NFA} (hdis : ∀ q, q ∈ nfaStates A → q ∈ nfaStates B → False)
    (hne : se = true ∨ NoHalfEmpty (nfaUnionDisjoint A B) B) (br : Bool) (fuel : Nat) :
    nfaInclCongrC .lib se A B br fuel = nfaInclCongr A B br fuel := by
  rw [nfaInclCongr_eq_finish, nfaInclCongrC, runCongrC_eq hdis hne]

theorem checkNfaInclCongr_cached_eq {se : Bool} (A B : NFA)
    (hne : se = true ∨ NoHalfEmpty (nfaUnionDisjoint (nfaSanitize A B).1 (nfaSanitize A B).2) (nfaSanitize A B).2)
    (br : Bool) (fuel : Nat) : checkNfaInclCongrC .lib se A B br fuel = checkNfaInclCongr A B br fuel :=
  nfaInclCongr_cached_eq (sanitize_disjoint A B) hne br fuel

/-! ### whatever the caches do, a verdict that passes the certificate check is right -/

theorem finishAC_iff {A B : NFA} {r : Option (Res (List Item))} {b : Bool} {c : Cert}
    (h : finishAC A B r = some (b, c)) : b = true ↔ InclW A B := by
  unfold finishAC at h
  split at h
  · cases h
  · simp only at h
    split at h
    · next hc =>
      simp only [Option.some.injEq, Prod.mk.injEq] at h
      obtain ⟨rfl, _⟩ := h
      exact ⟨fun _ => nfaUpCertB_incl hc, fun _ => rfl⟩
    · cases h
  · next w =>
    split at h
    · next hc =>
      simp only [Option.some.injEq, Prod.mk.injEq] at h
      obtain ⟨rfl, _⟩ := h
      simp only [Bool.and_eq_true, Bool.not_eq_true'] at hc
      constructor
      · intro h; cases h
      · intro hincl
        have := hincl w hc.1
        rw [hc.2] at this; cases this
    · cases h

theorem finishCongr_iff {A B : NFA} {r : Option (Res (List CItem))} {b : Bool} {c : Cert}
    (h : finishCongr A B r = some (b, c)) : b = true ↔ InclW A B := by
  unfold finishCongr at h
  split at h
  · cases h
  · simp only at h
    split at h
    · next hc =>
      simp only [Option.some.injEq, Prod.mk.injEq] at h
      obtain ⟨rfl, _⟩ := h
      exact ⟨fun _ => congrCertB_incl hc, fun _ => rfl⟩
    · cases h
  · next w =>
    split at h
    · next hc =>
      simp only [Option.some.injEq, Prod.mk.injEq] at h
      obtain ⟨rfl, _⟩ := h
      simp only [Bool.and_eq_true, Bool.not_eq_true'] at hc
      constructor
      · intro h; cases h
      · intro hincl
        have := hincl w hc.1
        rw [hc.2] at this; cases this
    · cases h

/-- the certifying cached antichain model never returns a wrong verdict, in any memo mode and for any `areEqual` -/
theorem nfaInclACc_iff {mode : MemoMode} {se : Bool} {A B : NFA} {fuel : Nat} {b : Bool} {c : Cert}
    (h : nfaInclACc mode se A B fuel = some (b, c)) : b = true ↔ InclW A B :=
  finishAC_iff h

/-- the certifying cached congruence model never returns a wrong verdict, in any mode, for any `areEqual`, also when pairs
with an empty component are enqueued repeatedly -/
theorem nfaInclCongrC_iff {um : UsedMode} {se : Bool} {A B : NFA} {br : Bool} {fuel : Nat} {b : Bool} {c : Cert}
    (h : nfaInclCongrC um se A B br fuel = some (b, c)) : b = true ↔ InclW A B :=
  finishCongr_iff h

theorem checkNfaInclCongrC_iff {um : UsedMode} {se : Bool} {A B : NFA} {br : Bool} {fuel : Nat} {b : Bool} {c : Cert}
    (h : checkNfaInclCongrC um se A B br fuel = some (b, c)) : b = true ↔ InclW A B := by
  rw [← sanitize_incl A B]; exact nfaInclCongrC_iff h

/-! ### when is no pair half empty?  On trimmed `A` with `L(A) ⊆ L(B)` -/

theorem mem_foldl_macroStep (N : NFA) : ∀ (w : List Nat) (S S' : List Nat), (∀ x, x ∈ S ↔ x ∈ S') →
    ∀ x, x ∈ w.foldl (macroStep N) S ↔ x ∈ w.foldl (stepW N) S'
  | [], _, _, h => h
  | a :: w, S, S', h => by
    simp only [List.foldl_cons]
    apply mem_foldl_macroStep N w
    intro x
    unfold macroStep
    rw [mem_normS]
    exact ⟨stepW_mono N (fun y hy => (h y).mp hy) a x, stepW_mono N (fun y hy => (h y).mpr hy) a x⟩

theorem mem_mrun (N : NFA) (w : List Nat) (x : Nat) : x ∈ mrun N w ↔ x ∈ run N w :=
  mem_foldl_macroStep N w _ _ (fun _ => mem_normS) x

theorem path_split {N : NFA} : ∀ (u : List Nat) {p q : Nat} {v : List Nat}, Path N p (u ++ v) q →
    ∃ r, Path N p u r ∧ Path N r v q
  | [], p, _, _, h => ⟨p, .nil p, h⟩
  | a :: u, _, _, _, h => by
    cases h with
    | cons he hp =>
      obtain ⟨r, h1, h2⟩ := path_split u hp
      exact ⟨r, .cons he h1, h2⟩

/-- if every state of `A` can reach a final state and `L(A) ⊆ L(B)`, then a word on which `B` has died has killed `A ⊎ B` too -/
theorem noHalfEmpty_of_incl {A B : NFA} (hdis : ∀ q, q ∈ nfaStates A → q ∈ nfaStates B → False)
    (hco : ∀ q, q ∈ nfaStates A → NfaCoReach A q) (hincl : InclW A B) : NoHalfEmpty (nfaUnionDisjoint A B) B := by
  intro w
  rw [Bool.eq_iff_iff, List.isEmpty_iff, List.isEmpty_iff]
  constructor
  · intro hU
    apply List.eq_nil_iff_forall_not_mem.mpr
    intro x hx
    obtain ⟨s, hs, hp⟩ := (mem_run_iff B w x).mp ((mem_mrun B w x).mp hx)
    have : x ∈ mrun (nfaUnionDisjoint A B) w := by
      rw [mem_mrun, mem_run_iff]
      exact ⟨s, List.mem_append_right _ hs, hp.mono (fun e he => List.mem_append_right _ he)⟩
    rw [hU] at this; cases this
  · intro hB
    apply List.eq_nil_iff_forall_not_mem.mpr
    intro x hx
    have hBno : ∀ r, r ∈ run B w → False := by
      intro r hr
      have : r ∈ mrun B w := (mem_mrun B w r).mpr hr
      rw [hB] at this; cases this
    obtain ⟨s, hs, hp⟩ := (mem_run_iff _ w x).mp ((mem_mrun _ w x).mp hx)
    rcases List.mem_append.mp hs with hsA | hsB
    · obtain ⟨hpA, hxA⟩ := path_union_left hdis hp (start_mem_nfaStates hsA)
      obtain ⟨f, hf, v, hv⟩ := hco x hxA
      have hacc : acceptsW A (w ++ v) = true := (acceptsW_iff A _).mpr ⟨s, hsA, f, hf, hpA.append hv⟩
      obtain ⟨s', hs', q, _, hq⟩ := (acceptsW_iff B _).mp (hincl _ hacc)
      obtain ⟨r, hr, _⟩ := path_split w hq
      exact hBno r ((mem_run_iff B w r).mpr ⟨s', hs', hr⟩)
    · obtain ⟨hpB, _⟩ := path_union_right hdis hp (start_mem_nfaStates hsB)
      exact hBno x ((mem_run_iff B w x).mpr ⟨s, hsB, hpB⟩)

/-- every state of the smaller operand the dispatcher hands over can reach a final state -/
theorem sanitize_coreach (A B : NFA) : ∀ q, q ∈ nfaStates (nfaSanitize A B).1 → NfaCoReach (nfaSanitize A B).1 q := by
  intro q hq
  simp only [nfaSanitize] at hq ⊢
  obtain ⟨q0, hq0, rfl⟩ := mem_nfaStates_nfaMap.mp hq
  obtain ⟨f, hf, w, hw⟩ := (nfaRemoveUseless_trim A q0 hq0).2
  exact ⟨_, List.mem_map_of_mem hf, w, hw.nfaMap⟩

/-- **C09, congruence functor behind the dispatcher, the library's cache (`areEqual` never identifies empty sets): on every
positive instance the functor with its caches returns exactly what the cache-free model returns.** -/
theorem checkNfaInclCongr_cached_eq_of_incl (A B : NFA) (h : InclW A B) (br : Bool) (fuel : Nat) :
    checkNfaInclCongrC .lib false A B br fuel = checkNfaInclCongr A B br fuel :=
  checkNfaInclCongr_cached_eq A B
    (Or.inr (noHalfEmpty_of_incl (sanitize_disjoint A B) (sanitize_coreach A B) ((sanitize_incl A B).mpr h))) br fuel

/-- … hence on positive instances it answers `true` above the fuel bound of the cache-free model -/
theorem checkNfaInclCongr_cached_complete (A B : NFA) (h : InclW A B) (br : Bool) {fuel : Nat}
    (hf : fuelBoundCongr (nfaSanitize A B).1 (nfaSanitize A B).2 < fuel) :
    ∃ c, checkNfaInclCongrC .lib false A B br fuel = some (true, c) := by
  rw [checkNfaInclCongr_cached_eq_of_incl A B h]
  exact ((checkNfaInclCongr_complete A B hf).1 h)

/-! ### the two regressions, the empty-set quirk, non-vacuity -/
namespace FCEx
open NfaInclEx

/-- a pair on which the pre-repair memo of the antichain functor (defect D8) changes the verdict; `L(A) ⊄ L(B)`: `b a a` -/
def exD8A : NFA := ⟨[0], [1, 0], [(1, 1, 0), (1, 0, 1), (0, 1, 1)]⟩
def exD8B : NFA := ⟨[2], [2, 3], [(3, 0, 2), (2, 1, 3), (3, 1, 3)]⟩

theorem exD8_not_incl : ¬ InclW exD8A exD8B := fun h => by
  have := h [1, 0, 0] (by decide)
  revert this; decide

/-- **D8 changes a verdict.**  With the pre-repair recording (`lte` / `gte` store the converse of a failed comparison) the
exploration of `exD8A ⊆ exD8B` ends with `return true` although the inclusion does not hold; the repaired code answers
`false`. -/
theorem d8_changes_verdict :
    rawVerdictA (runACc .preRepair false exD8A exD8B 20) = some true ∧
    rawVerdictA (runACc .lib false exD8A exD8B 20) = some false ∧ ¬ InclW exD8A exD8B :=
  ⟨by decide +kernel, by decide +kernel, exD8_not_incl⟩

/-- **D8 breaks the invariant**: at the end of that run `subsetMap_` holds the entry `(1, 0)`, i.e. "`{3} ⊆ {2}`" (recorded
when `{2} ⊆ {3}` failed); with the repaired code the tables of the same run pass the test (`runACc_memo_sound`) -/
theorem d8_breaks_invariant :
    (finalMemoA (runACc .preRepair false exD8A exD8B 20)).map (fun c => (c.mc, c.sub, memoOKB c)) =
      some ([(2, [2]), (3, [3])], [(1, 1), (1, 0)], false) := by decide +kernel

/-- the certifying model does not let the wrong `true` through -/
theorem d8_certificate_rejects : nfaInclACc .preRepair false exD8A exD8B 20 = none := by decide +kernel

/-- **D8 makes the exploration diverge** on the regression pair `exMemoA` / `exMemoB` (as the dispatcher renumbers it:
`exSanA` / `exSanB`): the repaired code is done after 10 picked pairs, the pre-repair code is still running after 100 (in
the model's order the contents of the work-list repeat with period 4 from the 8th pick on, up to the ghost words, while
the caches no longer change; the statement here is the bounded one) -/
theorem d8_diverges :
    (runACc .preRepair false exSanA exSanB 100).isNone = true ∧
    rawVerdictA (runACc .lib false exSanA exSanB 11) = some true ∧
    (checkNfaInclACc .preRepair false exMemoA exMemoB 100).isNone = true := by
  refine ⟨by decide +kernel, by decide +kernel, by decide +kernel⟩

/-- a pair on which the seeded change of `usedRules_.contains` changes the verdict; `L(A) ⊄ L(B)`: `b a a` -/
def exSwA : NFA := ⟨[0], [1], [(1, 0, 0), (0, 1, 1), (1, 0, 1)]⟩
def exSwB : NFA := ⟨[2], [2, 3], [(2, 1, 2), (2, 0, 3), (2, 1, 3)]⟩

theorem exSw_disjoint : ∀ q, q ∈ nfaStates exSwA → q ∈ nfaStates exSwB → False := by decide

theorem exSw_not_incl : ¬ InclW exSwA exSwB := fun h => by
  have := h [1, 0, 0] (by decide)
  revert this; decide

/-- **the swapped `usedRules_.contains` changes a verdict**: the breadth-first exploration ends with `return true` (relation
`{({0,2},{2}), ({1,2,3},{2,3})}`) although the inclusion does not hold; the library's code answers `false` -/
theorem swapped_changes_verdict :
    rawVerdictC (runCongrC .swapped false (nfaUnionDisjoint exSwA exSwB) exSwB true 20) = some true ∧
    rawVerdictC (runCongrC .lib false (nfaUnionDisjoint exSwA exSwB) exSwB true 20) = some false ∧
    ¬ InclW exSwA exSwB :=
  ⟨by decide +kernel, by decide +kernel, exSw_not_incl⟩

theorem swapped_certificate_rejects : nfaInclCongrC .swapped false exSwA exSwB true 20 = none := by decide +kernel

/-- **the swapped call reads a true entry as a false fact.**  The table says `*0 = {1} ⊆ *1 = {1,2}` (the rule with right-hand
side `*0` fired in a closure of `*1`); asked for the closure of `*0`, the swapped call fires the rule with right-hand side
`*1` although `{1,2} ⊄ {1}`; the library's call does not.  (The entries stay true – the seeded change is on the reading side –
so it is the step "`usedRules_` says so ⇒ `MatchPair` would say so" of `firesC_eq` that breaks.) -/
theorem swapped_misreads :
    usedOKB ⟨[(1, [1]), (3, [1, 2])], [], [(1, 0)]⟩ = true ∧
    firesC .swapped true [(1, [1]), (3, [1, 2])] 0 [(1, 0)] ⟨1, 1, []⟩ [1] = true ∧
    Vata.subB (val [(1, [1]), (3, [1, 2])] 1) [1] = false ∧
    firesC .lib true [(1, [1]), (3, [1, 2])] 0 [(1, 0)] ⟨1, 1, []⟩ [1] = false := by decide

/-- **the empty-set quirk of `MacroStateCache` is visible.**  `L(A) = L(B) = {ε}`, `A` has a useless state: the pair
`({1}, ∅)` is reachable.  The library's cache gives the empty set a new address at every `insert`, `visitedPairs_` never
recognises the pair and it is enqueued after every expansion: the cache-free model (and a cache that interns the empty set)
are done with fuel 3, the library's cache needs fuel 5. -/
def exHA : NFA := ⟨[0], [0], [(0, 0, 1), (0, 1, 1), (1, 0, 1)]⟩
def exHB : NFA := ⟨[5], [5], []⟩

theorem exH_disjoint : ∀ q, q ∈ nfaStates exHA → q ∈ nfaStates exHB → False := by decide

theorem cached_real_ne :
    verdict (nfaInclCongr exHA exHB true 3) = some true ∧
    nfaInclCongrC .lib false exHA exHB true 3 = none ∧
    verdict (nfaInclCongrC .lib false exHA exHB true 5) = some true ∧
    ¬ NoHalfEmpty (nfaUnionDisjoint exHA exHB) exHB := by
  refine ⟨by decide +kernel, by decide +kernel, by decide +kernel, ?_⟩
  intro h
  have := h [0]
  revert this; decide

/-- … and behind the dispatcher, on a negative instance, it can change the ORDER of the exploration (a pair with an empty
component is discarded because of its own second copy and expanded only when that copy is picked): both runs answer `false`,
with different (valid) witnesses.  So `checkNfaInclCongr_cached_eq_of_incl` does not extend to negative instances. -/
def exWA : NFA := ⟨[0], [0], [(1, 0, 0), (0, 2, 1), (0, 0, 1)]⟩
def exWB : NFA := ⟨[10], [12, 10], [(11, 2, 10), (12, 1, 13), (12, 2, 12)]⟩

theorem cached_real_witness_differs :
    witness (checkNfaInclCongr exWA exWB true 20) = some [2, 0] ∧
    witness (checkNfaInclCongrC .lib false exWA exWB true 20) = some [0, 0] ∧
    witness (checkNfaInclCongrC .lib true exWA exWB true 20) = some [2, 0] := by
  refine ⟨by decide +kernel, by decide +kernel, by decide +kernel⟩

/-! non-vacuity: the caches are really used on the regression pair, and the hypotheses of the congruence theorems hold there -/

theorem exMemo_incl : InclW exMemoA exMemoB := (nfaInclAC_iff (fuel := 20) (b := true) (c := _) rfl).mp rfl

/-- the antichain run on the regression pair fills 6 objects, 4 positive and 9 negative memo entries -/
example : (finalMemoA (runACc .lib false exSanA exSanB 20)).map (fun c => (c.mc.length, c.sub.length, c.nsub.length)) =
    some (6, 4, 9) := by decide +kernel
example : nfaInclACc .lib false exSanA exSanB 20 = nfaInclAC exSanA exSanB 20 := nfaInclAC_cached_eq _ _ _ _
example : ∃ c, finalMemoA (runACc .lib false exSanA exSanB 20) = some c ∧ MemoOK c :=
  ⟨_, rfl, (runACc_memo_sound false exSanA exSanB 20 rfl).1⟩
/-- the congruence run on it fills 14 objects, 11 visited pairs and 3 entries of `usedRules_` -/
example : (finalMemoC (runCongrC .lib false (nfaUnionDisjoint exSanA exSanB) exSanB true 20)).map
    (fun c => (c.mc.length, c.visited.length, c.used)) = some (14, 11, [(6, 6), (1, 9), (4, 7)]) := by decide +kernel
example : checkNfaInclCongrC .lib false exMemoA exMemoB true 20 = checkNfaInclCongr exMemoA exMemoB true 20 :=
  checkNfaInclCongr_cached_eq_of_incl _ _ exMemo_incl _ _
example : NoHalfEmpty (nfaUnionDisjoint (nfaSanitize exMemoA exMemoB).1 (nfaSanitize exMemoA exMemoB).2)
    (nfaSanitize exMemoA exMemoB).2 :=
  noHalfEmpty_of_incl (sanitize_disjoint _ _) (sanitize_coreach _ _) ((sanitize_incl _ _).mpr exMemo_incl)
/-- with `se = true` there is no side condition beyond disjointness -/
example : nfaInclCongrC .lib true exHA exHB true 3 = nfaInclCongr exHA exHB true 3 :=
  nfaInclCongr_cached_eq exH_disjoint (Or.inl rfl) _ _
example : nfaInclCongrC .lib true exSwA exSwB false 20 = nfaInclCongr exSwA exSwB false 20 :=
  nfaInclCongr_cached_eq exSw_disjoint (Or.inl rfl) _ _

end FCEx

end FC
end Vata
