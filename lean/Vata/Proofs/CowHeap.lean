import Vata.CowHeap
import Vata.Proofs.Store
/-!
# C11 – copy-on-write handles are values (proofs for `Vata/CowHeap.lean`)

`cow_refines_values : Inv H → abs (step H op) = specStep (abs H) op ∧ Inv (step H op)` and
`history_isolation : abs (ops.foldl step init) = ops.foldl specStep specInit`.
-/
namespace Vata.CowHeap

open Vata.Store (Cluster upsert addToCluster addToMap lookup_cons' lookup_upsert)

@[simp] theorem upd_same {β : Type} (f : Nat → β) (k : Nat) (v : β) : upd f k v k = v := by simp [upd]
theorem upd_other {β : Type} (f : Nat → β) {k x : Nat} (v : β) (h : x ≠ k) : upd f k v x = f x := by simp [upd, h]

/-! ### counting references -/

theorem indeg_nil (out : Nat → List Nat) (n : Nat) : indeg [] out n = 0 := by simp [indeg]

theorem indeg_cons (k : Nat) (live : List Nat) (out : Nat → List Nat) (n : Nat) :
    indeg (k :: live) out n = (out k).count n + indeg live out n := by
  simp [indeg, List.flatMap_cons, List.count_append]

theorem indeg_congr {live : List Nat} {out out' : Nat → List Nat} (h : ∀ k, k ∈ live → out k = out' k) (n : Nat) :
    indeg live out n = indeg live out' n := by
  induction live with
  | nil => simp [indeg_nil]
  | cons k live ih =>
    rw [indeg_cons, indeg_cons, h k List.mem_cons_self, ih (fun k hk => h k (List.mem_cons_of_mem _ hk))]

theorem indeg_upd_notin {live : List Nat} {out : Nat → List Nat} {k : Nat} (v : List Nat) (hk : k ∉ live) (n : Nat) :
    indeg live (upd out k v) n = indeg live out n := by
  apply indeg_congr
  intro k' hk'
  apply upd_other
  intro e; rw [e] at hk'; exact hk hk'

theorem indeg_upd {live : List Nat} {out : Nat → List Nat} {k : Nat} (v : List Nat) (hnd : live.Nodup) (hk : k ∈ live)
    (n : Nat) : indeg live (upd out k v) n + (out k).count n = indeg live out n + v.count n := by
  induction live with
  | nil => simp at hk
  | cons k0 live ih =>
    have hnd' := List.nodup_cons.mp hnd
    rw [indeg_cons, indeg_cons]
    by_cases e : k0 = k
    · subst e
      rw [upd_same, indeg_upd_notin v hnd'.1]
      omega
    · have hk' : k ∈ live := by
        rcases List.mem_cons.mp hk with h | h
        · exact absurd h.symm e
        · exact h
      have := ih hnd'.2 hk'
      rw [upd_other _ _ e]
      omega

theorem indeg_erase {live : List Nat} (out : Nat → List Nat) {k : Nat} (hnd : live.Nodup) (hk : k ∈ live) (n : Nat) :
    indeg (live.erase k) out n + (out k).count n = indeg live out n := by
  induction live with
  | nil => simp at hk
  | cons k0 live ih =>
    have hnd' := List.nodup_cons.mp hnd
    by_cases e : k0 = k
    · subst e
      rw [List.erase_cons_head, indeg_cons]
      omega
    · have hk' : k ∈ live := by
        rcases List.mem_cons.mp hk with h | h
        · exact absurd h.symm e
        · exact h
      have := ih hnd'.2 hk'
      rw [List.erase_cons_tail (by simpa using e), indeg_cons, indeg_cons]
      omega

theorem count_le_indeg {live : List Nat} (out : Nat → List Nat) {k : Nat} (hk : k ∈ live) (n : Nat) :
    (out k).count n ≤ indeg live out n := by
  induction live with
  | nil => simp at hk
  | cons k0 live ih =>
    rw [indeg_cons]
    rcases List.mem_cons.mp hk with h | h
    · rw [h]; omega
    · have := ih h; omega

theorem indeg_eq_zero {live : List Nat} {out : Nat → List Nat} {n : Nat} (h : ∀ k, k ∈ live → n ∉ out k) :
    indeg live out n = 0 := by
  induction live with
  | nil => exact indeg_nil _ _
  | cons k0 live ih =>
    rw [indeg_cons, ih (fun k hk => h k (List.mem_cons_of_mem _ hk)),
      List.count_eq_zero.mpr (h k0 List.mem_cons_self)]

theorem not_mem_of_indeg_zero {live : List Nat} {out : Nat → List Nat} {n k : Nat} (h : indeg live out n = 0)
    (hk : k ∈ live) : n ∉ out k := by
  have := count_le_indeg out hk n
  rw [← List.count_eq_zero]
  omega

/-- a node with one reference is referenced from one place only -/
theorem unique_ref {live : List Nat} {out : Nat → List Nat} {n k k' : Nat} (hnd : live.Nodup) (h1 : indeg live out n ≤ 1)
    (hk : k ∈ live) (hn : n ∈ out k) (hk' : k' ∈ live) (hne : k' ≠ k) : n ∉ out k' := by
  have e := indeg_erase out hnd hk n
  have hk'' : k' ∈ live.erase k := (List.mem_erase_of_ne hne).mpr hk'
  have := count_le_indeg out hk'' n
  have := List.count_pos_iff.mpr hn
  rw [← List.count_eq_zero]
  omega

/-- the handle pointers as an `out` function -/
def hout (H : Heap) : Nat → List Nat := fun h => [H.hmap h]

theorem count_singleton (a n : Nat) : [a].count n = if a = n then 1 else 0 := by
  simp [List.count_cons]

/-! ### the invariant (with pending releases) -/

/-- `pm` / `pc` : references to map / cluster nodes that have been dropped but whose `use_count` has not been decremented yet
    (the state in the middle of a `shared_ptr` release).  `Inv H = InvP H [] []`. -/
structure InvP (H : Heap) (pm pc : List Nat) : Prop where
  hnd : H.hl.Nodup
  mnd : H.ml.Nodup
  cnd : H.cl.Nodup
  /-- handles point to allocated map nodes -/
  hm : ∀ h, h ∈ H.hl → H.hmap h ∈ H.ml
  /-- entries of allocated map nodes point to allocated cluster nodes -/
  mc : ∀ m, m ∈ H.ml → ∀ c, c ∈ mout H m → c ∈ H.cl
  /-- the use count of a map node is the number of handles pointing to it -/
  mrc : ∀ m, m ∈ H.ml → H.mrc m = indeg H.hl (hout H) m + pm.count m
  /-- the use count of a cluster node is the number of entries of allocated map nodes pointing to it -/
  crc : ∀ c, c ∈ H.cl → H.crc c = indeg H.ml (mout H) c + pc.count c
  pmm : ∀ m, m ∈ pm → m ∈ H.ml
  pcc : ∀ c, c ∈ pc → c ∈ H.cl
  mlt : ∀ m, m ∈ H.ml → m < H.next
  clt : ∀ c, c ∈ H.cl → c < H.next
  /-- no garbage: allocated nodes are in use -/
  mpos : ∀ m, m ∈ H.ml → 0 < H.mrc m
  cpos : ∀ c, c ∈ H.cl → 0 < H.crc c

/-- the use count of a node equals the number of handles and parent nodes pointing to it; handles (and entries) point to
    allocated nodes; allocated nodes are in use -/
def Inv (H : Heap) : Prop := InvP H [] []

theorem inv_init : Inv init := by
  refine ⟨List.nodup_nil, List.nodup_nil, List.nodup_nil, ?_, ?_, ?_, ?_, ?_, ?_, ?_, ?_, ?_, ?_⟩ <;>
    intro x hx <;> simp [init] at hx

/-! ### releasing references -/

theorem releaseCluster_inv {H : Heap} {pm pc : List Nat} {c : Nat} (h : InvP H pm (c :: pc)) :
    InvP (releaseCluster H c) pm pc := by
  have hc : c ∈ H.cl := h.pcc c List.mem_cons_self
  have hrc := h.crc c hc
  rw [List.count_cons_self] at hrc
  unfold releaseCluster
  split
  · rename_i h0
    have hi : indeg H.ml (mout H) c = 0 := by omega
    have hp : pc.count c = 0 := by omega
    have hne : ∀ m, m ∈ H.ml → ∀ c', c' ∈ mout H m → c' ≠ c := by
      intro m hm c' hc' e
      rw [e] at hc'
      exact not_mem_of_indeg_zero hi hm hc'
    refine ⟨h.hnd, h.mnd, h.cnd.erase c, h.hm, ?_, h.mrc, ?_, h.pmm, ?_, h.mlt, ?_, h.mpos, ?_⟩
    · intro m hm c' hc'
      exact (List.mem_erase_of_ne (hne m hm c' hc')).mpr (h.mc m hm c' hc')
    · intro c' hc'
      obtain ⟨hne', hc''⟩ := (h.cnd.mem_erase_iff).mp hc'
      have := h.crc c' hc''
      rw [List.count_cons_of_ne (fun e => hne' e.symm)] at this
      simp only [upd_other _ _ hne']
      exact this
    · intro c' hc'
      have hne' : c' ≠ c := by
        intro e; rw [e] at hc'
        exact List.count_eq_zero.mp hp hc'
      exact (List.mem_erase_of_ne hne').mpr (h.pcc c' (List.mem_cons_of_mem _ hc'))
    · intro c' hc'
      exact h.clt c' (List.mem_of_mem_erase hc')
    · intro c' hc'
      obtain ⟨hne', hc''⟩ := (h.cnd.mem_erase_iff).mp hc'
      simp only [upd_other _ _ hne']
      exact h.cpos c' hc''
  · rename_i h0
    refine ⟨h.hnd, h.mnd, h.cnd, h.hm, h.mc, h.mrc, ?_, h.pmm, ?_, h.mlt, h.clt, h.mpos, ?_⟩
    · intro c' hc'
      by_cases e : c' = c
      · subst e
        simp only [upd_same]
        show H.crc c' - 1 = indeg H.ml (mout H) c' + pc.count c'
        omega
      · simp only [upd_other _ _ e]
        have := h.crc c' hc'
        rw [List.count_cons_of_ne (fun e' => e e'.symm)] at this
        exact this
    · intro c' hc'
      exact h.pcc c' (List.mem_cons_of_mem _ hc')
    · intro c' hc'
      by_cases e : c' = c
      · subst e
        simp only [upd_same]
        omega
      · simp only [upd_other _ _ e]
        exact h.cpos c' hc'

theorem releaseClusters_inv {H : Heap} {pm pc : List Nat} (l : List Nat) (h : InvP H pm (l ++ pc)) :
    InvP (l.foldl releaseCluster H) pm pc := by
  induction l generalizing H with
  | nil => exact h
  | cons c l ih => exact ih (releaseCluster_inv h)

theorem releaseMap_inv {H : Heap} {pm : List Nat} {m : Nat} (h : InvP H (m :: pm) []) :
    InvP (releaseMap H m) pm [] := by
  have hm : m ∈ H.ml := h.pmm m List.mem_cons_self
  have hrc := h.mrc m hm
  rw [List.count_cons_self] at hrc
  unfold releaseMap
  split
  · rename_i h0
    have hi : indeg H.hl (hout H) m = 0 := by omega
    have hp : pm.count m = 0 := by omega
    apply releaseClusters_inv
    rw [List.append_nil]
    refine ⟨h.hnd, h.mnd.erase m, h.cnd, ?_, ?_, ?_, ?_, ?_, ?_, ?_, h.clt, ?_, h.cpos⟩
    · intro x hx
      have hne : H.hmap x ≠ m := by
        intro e
        have := not_mem_of_indeg_zero hi hx
        apply this
        simp [hout, e]
      exact (List.mem_erase_of_ne hne).mpr (h.hm x hx)
    · intro m' hm' c hc
      exact h.mc m' (List.mem_of_mem_erase hm') c hc
    · intro m' hm'
      obtain ⟨hne', hm''⟩ := (h.mnd.mem_erase_iff).mp hm'
      have := h.mrc m' hm''
      rw [List.count_cons_of_ne (fun e => hne' e.symm)] at this
      simp only [upd_other _ _ hne']
      exact this
    · intro c hc
      have := h.crc c hc
      have e := indeg_erase (mout H) h.mnd hm c
      show H.crc c = indeg (H.ml.erase m) (mout H) c + (mout H m).count c
      simp only [List.count_nil] at this
      omega
    · intro m' hm'
      have hne' : m' ≠ m := by
        intro e; rw [e] at hm'
        exact List.count_eq_zero.mp hp hm'
      exact (List.mem_erase_of_ne hne').mpr (h.pmm m' (List.mem_cons_of_mem _ hm'))
    · intro c hc
      exact h.mc m hm c hc
    · intro m' hm'
      exact h.mlt m' (List.mem_of_mem_erase hm')
    · intro m' hm'
      obtain ⟨hne', hm''⟩ := (h.mnd.mem_erase_iff).mp hm'
      simp only [upd_other _ _ hne']
      exact h.mpos m' hm''
  · rename_i h0
    refine ⟨h.hnd, h.mnd, h.cnd, h.hm, h.mc, ?_, h.crc, ?_, h.pcc, h.mlt, h.clt, ?_, h.cpos⟩
    · intro m' hm'
      by_cases e : m' = m
      · subst e
        simp only [upd_same]
        show H.mrc m' - 1 = indeg H.hl (hout H) m' + pm.count m'
        omega
      · simp only [upd_other _ _ e]
        have := h.mrc m' hm'
        rw [List.count_cons_of_ne (fun e' => e e'.symm)] at this
        exact this
    · intro m' hm'
      exact h.pmm m' (List.mem_cons_of_mem _ hm')
    · intro m' hm'
      by_cases e : m' = m
      · subst e
        simp only [upd_same]
        omega
      · simp only [upd_other _ _ e]
        exact h.mpos m' hm'

/-! ### releases do not change any value -/

theorem releaseCluster_frame (H : Heap) (c : Nat) :
    (releaseCluster H c).hl = H.hl ∧ (releaseCluster H c).hmap = H.hmap ∧ (releaseCluster H c).ment = H.ment ∧
    (releaseCluster H c).cdat = H.cdat := by
  unfold releaseCluster
  split <;> exact ⟨rfl, rfl, rfl, rfl⟩

theorem releaseClusters_frame (l : List Nat) (H : Heap) :
    (l.foldl releaseCluster H).hl = H.hl ∧ (l.foldl releaseCluster H).hmap = H.hmap ∧
    (l.foldl releaseCluster H).ment = H.ment ∧ (l.foldl releaseCluster H).cdat = H.cdat := by
  induction l generalizing H with
  | nil => exact ⟨rfl, rfl, rfl, rfl⟩
  | cons c l ih =>
    obtain ⟨h1, h2, h3, h4⟩ := ih (releaseCluster H c)
    obtain ⟨g1, g2, g3, g4⟩ := releaseCluster_frame H c
    exact ⟨h1.trans g1, h2.trans g2, h3.trans g3, h4.trans g4⟩

theorem releaseMap_frame (H : Heap) (m : Nat) :
    (releaseMap H m).hl = H.hl ∧ (releaseMap H m).hmap = H.hmap ∧ (releaseMap H m).ment = H.ment ∧
    (releaseMap H m).cdat = H.cdat := by
  unfold releaseMap
  split
  · exact releaseClusters_frame _ _
  · exact ⟨rfl, rfl, rfl, rfl⟩

/-- `abs` only looks at the handles, the entries and the contents -/
theorem abs_congr {H H' : Heap} (h : H'.hl = H.hl ∧ H'.hmap = H.hmap ∧ H'.ment = H.ment ∧ H'.cdat = H.cdat) :
    abs H' = abs H := by
  obtain ⟨h1, h2, h3, h4⟩ := h
  funext x
  simp only [abs, valM, h1, h2, h3, h4]

/-! ### the primitive actions and the invariant -/

theorem fresh_not_ml {H : Heap} {pm pc : List Nat} (h : InvP H pm pc) : H.next ∉ H.ml :=
  fun hm => Nat.lt_irrefl _ (h.mlt _ hm)
theorem fresh_not_cl {H : Heap} {pm pc : List Nat} (h : InvP H pm pc) : H.next ∉ H.cl :=
  fun hm => Nat.lt_irrefl _ (h.clt _ hm)

theorem count1 (a n : Nat) (l : List Nat) : (a :: l).count n = l.count n + [a].count n := by
  simp [List.count_cons]

theorem allocMap_inv {H : Heap} {pm pc : List Nat} (h : InvP H pm pc) (es : List (Nat × Nat))
    (hes : ∀ c, c ∈ es.map Prod.snd → c ∈ H.cl) : InvP (allocMap H es) (H.next :: pm) pc := by
  have hf := fresh_not_ml h
  have hne : ∀ m, m ∈ H.ml → m ≠ H.next := fun m hm e => hf (e ▸ hm)
  have hmo : ∀ m, m ∈ H.ml → mout (allocMap H es) m = mout H m := by
    intro m hm
    simp only [mout, allocMap, upd_other _ _ (hne m hm)]
  have hmn : mout (allocMap H es) H.next = es.map Prod.snd := by
    simp only [mout, allocMap, upd_same]
  refine ⟨h.hnd, List.nodup_cons.mpr ⟨hf, h.mnd⟩, h.cnd, ?_, ?_, ?_, ?_, ?_, h.pcc, ?_, ?_, ?_, ?_⟩
  · intro x hx
    exact List.mem_cons_of_mem _ (h.hm x hx)
  · intro m hm c hc
    rcases List.mem_cons.mp hm with e | hm'
    · rw [e, hmn] at hc
      exact hes c hc
    · rw [hmo m hm'] at hc
      exact h.mc m hm' c hc
  · intro m hm
    show upd H.mrc H.next 1 m = indeg H.hl (hout H) m + (H.next :: pm).count m
    rcases List.mem_cons.mp hm with e | hm'
    · rw [e, upd_same, List.count_cons_self]
      have h1 : indeg H.hl (hout H) H.next = 0 := by
        apply indeg_eq_zero
        intro x hx hn
        simp only [hout, List.mem_singleton] at hn
        exact hf (hn ▸ h.hm x hx)
      have h2 : pm.count H.next = 0 := List.count_eq_zero.mpr (fun hp => hf (h.pmm _ hp))
      omega
    · rw [upd_other _ _ (hne m hm'), List.count_cons_of_ne (fun e => hne m hm' e.symm)]
      exact h.mrc m hm'
  · intro c hc
    show H.crc c + (es.map Prod.snd).count c = indeg (H.next :: H.ml) (mout (allocMap H es)) c + pc.count c
    rw [indeg_cons, hmn, indeg_congr hmo]
    have := h.crc c hc
    omega
  · intro m hm
    rcases List.mem_cons.mp hm with e | hm'
    · rw [e]; exact List.mem_cons_self
    · exact List.mem_cons_of_mem _ (h.pmm m hm')
  · intro m hm
    show m < H.next + 1
    rcases List.mem_cons.mp hm with e | hm'
    · omega
    · have := h.mlt m hm'; omega
  · intro c hc
    show c < H.next + 1
    have := h.clt c hc; omega
  · intro m hm
    show 0 < upd H.mrc H.next 1 m
    rcases List.mem_cons.mp hm with e | hm'
    · rw [e, upd_same]; omega
    · rw [upd_other _ _ (hne m hm')]; exact h.mpos m hm'
  · intro c hc
    show 0 < H.crc c + (es.map Prod.snd).count c
    have := h.cpos c hc; omega

theorem incMap_inv {H : Heap} {pm pc : List Nat} (h : InvP H pm pc) {m : Nat} (hm : m ∈ H.ml) :
    InvP (incMap H m) (m :: pm) pc := by
  refine ⟨h.hnd, h.mnd, h.cnd, h.hm, h.mc, ?_, h.crc, ?_, h.pcc, h.mlt, h.clt, ?_, h.cpos⟩
  · intro m' hm'
    show upd H.mrc m (H.mrc m + 1) m' = indeg H.hl (hout H) m' + (m :: pm).count m'
    by_cases e : m' = m
    · subst e
      rw [upd_same, List.count_cons_self, h.mrc m' hm']
      omega
    · rw [upd_other _ _ e, List.count_cons_of_ne (fun e' => e e'.symm)]
      exact h.mrc m' hm'
  · intro m' hm'
    rcases List.mem_cons.mp hm' with e | hm''
    · rw [e]; exact hm
    · exact h.pmm m' hm''
  · intro m' hm'
    show 0 < upd H.mrc m (H.mrc m + 1) m'
    by_cases e : m' = m
    · subst e; rw [upd_same]; omega
    · rw [upd_other _ _ e]; exact h.mpos m' hm'

theorem hout_retarget (H : Heap) (h m' : Nat) : hout (retarget H h m') = upd (hout H) h [m'] := by
  funext x
  by_cases e : x = h
  · subst e; simp [hout, retarget]
  · simp [hout, retarget, upd_other _ _ e]

theorem retarget_inv {H : Heap} {pm pc : List Nat} {h m' : Nat} (hI : InvP H (m' :: pm) pc) (hh : h ∈ H.hl) :
    InvP (retarget H h m') (H.hmap h :: pm) pc := by
  refine ⟨hI.hnd, hI.mnd, hI.cnd, ?_, hI.mc, ?_, hI.crc, ?_, hI.pcc, hI.mlt, hI.clt, hI.mpos, hI.cpos⟩
  · intro x hx
    show upd H.hmap h m' x ∈ H.ml
    by_cases e : x = h
    · subst e; rw [upd_same]; exact hI.pmm m' List.mem_cons_self
    · rw [upd_other _ _ e]; exact hI.hm x hx
  · intro m hm
    show H.mrc m = indeg H.hl (hout (retarget H h m')) m + (H.hmap h :: pm).count m
    have h1 := hI.mrc m hm
    have h2 := indeg_upd (out := hout H) [m'] hI.hnd hh m
    rw [hout_retarget]
    rw [count1] at h1 ⊢
    have h3 : (hout H h).count m = [H.hmap h].count m := rfl
    omega
  · intro m hm
    rcases List.mem_cons.mp hm with e | hm'
    · rw [e]; exact hI.hm h hh
    · exact hI.pmm m (List.mem_cons_of_mem _ hm')

theorem hout_addHandle (H : Heap) (h m' : Nat) : hout (addHandle H h m') = upd (hout H) h [m'] := by
  funext x
  by_cases e : x = h
  · subst e; simp [hout, addHandle]
  · simp [hout, addHandle, upd_other _ _ e]

theorem addHandle_inv {H : Heap} {pm pc : List Nat} {h m' : Nat} (hI : InvP H (m' :: pm) pc) (hh : h ∉ H.hl) :
    InvP (addHandle H h m') pm pc := by
  refine ⟨List.nodup_cons.mpr ⟨hh, hI.hnd⟩, hI.mnd, hI.cnd, ?_, hI.mc, ?_, hI.crc, ?_, hI.pcc, hI.mlt, hI.clt,
    hI.mpos, hI.cpos⟩
  · intro x hx
    show upd H.hmap h m' x ∈ H.ml
    by_cases e : x = h
    · subst e; rw [upd_same]; exact hI.pmm m' List.mem_cons_self
    · rw [upd_other _ _ e]
      rcases List.mem_cons.mp hx with e' | hx'
      · exact absurd e' e
      · exact hI.hm x hx'
  · intro m hm
    show H.mrc m = indeg (h :: H.hl) (hout (addHandle H h m')) m + pm.count m
    have h1 := hI.mrc m hm
    rw [hout_addHandle, indeg_cons, upd_same, indeg_upd_notin _ hh]
    rw [count1] at h1
    omega
  · intro m hm
    exact hI.pmm m (List.mem_cons_of_mem _ hm)

theorem dropHandle_inv {H : Heap} {pm pc : List Nat} {h : Nat} (hI : InvP H pm pc) (hh : h ∈ H.hl) :
    InvP (dropHandle H h) (H.hmap h :: pm) pc := by
  refine ⟨hI.hnd.erase h, hI.mnd, hI.cnd, ?_, hI.mc, ?_, hI.crc, ?_, hI.pcc, hI.mlt, hI.clt, hI.mpos, hI.cpos⟩
  · intro x hx
    exact hI.hm x (List.mem_of_mem_erase hx)
  · intro m hm
    show H.mrc m = indeg (H.hl.erase h) (hout H) m + (H.hmap h :: pm).count m
    have h1 := hI.mrc m hm
    have h2 := indeg_erase (hout H) hI.hnd hh m
    rw [count1]
    have h3 : (hout H h).count m = [H.hmap h].count m := rfl
    omega
  · intro m hm
    rcases List.mem_cons.mp hm with e | hm'
    · rw [e]; exact hI.hm h hh
    · exact hI.pmm m hm'

theorem allocCluster_inv {H : Heap} {pm pc : List Nat} (h : InvP H pm pc) (d : Cluster) :
    InvP (allocCluster H d) pm (H.next :: pc) := by
  have hf := fresh_not_cl h
  have hne : ∀ c, c ∈ H.cl → c ≠ H.next := fun c hc e => hf (e ▸ hc)
  refine ⟨h.hnd, h.mnd, List.nodup_cons.mpr ⟨hf, h.cnd⟩, h.hm, ?_, h.mrc, ?_, h.pmm, ?_, ?_, ?_, h.mpos, ?_⟩
  · intro m hm c hc
    exact List.mem_cons_of_mem _ (h.mc m hm c hc)
  · intro c hc
    show upd H.crc H.next 1 c = indeg H.ml (mout H) c + (H.next :: pc).count c
    rcases List.mem_cons.mp hc with e | hc'
    · rw [e, upd_same, List.count_cons_self]
      have h1 : indeg H.ml (mout H) H.next = 0 := by
        apply indeg_eq_zero
        intro m hm hn
        exact hf (h.mc m hm _ hn)
      have h2 : pc.count H.next = 0 := List.count_eq_zero.mpr (fun hp => hf (h.pcc _ hp))
      omega
    · rw [upd_other _ _ (hne c hc'), List.count_cons_of_ne (fun e => hne c hc' e.symm)]
      exact h.crc c hc'
  · intro c hc
    rcases List.mem_cons.mp hc with e | hc'
    · rw [e]; exact List.mem_cons_self
    · exact List.mem_cons_of_mem _ (h.pcc c hc')
  · intro m hm
    show m < H.next + 1
    have := h.mlt m hm; omega
  · intro c hc
    show c < H.next + 1
    rcases List.mem_cons.mp hc with e | hc'
    · omega
    · have := h.clt c hc'; omega
  · intro c hc
    show 0 < upd H.crc H.next 1 c
    rcases List.mem_cons.mp hc with e | hc'
    · rw [e, upd_same]; omega
    · rw [upd_other _ _ (hne c hc')]; exact h.cpos c hc'

theorem count_upsert (q c' x : Nat) (es : List (Nat × Nat)) :
    ((upsert q (fun _ => c') es).map Prod.snd).count x + ((es.lookup q).toList).count x =
      (es.map Prod.snd).count x + [c'].count x := by
  induction es with
  | nil => simp [upsert]
  | cons kc es ih =>
    obtain ⟨k0, c0⟩ := kc
    simp only [upsert]
    split
    · rename_i e
      rw [lookup_cons', if_pos e.symm]
      simp only [List.map_cons, Option.toList_some, List.count_cons, List.count_nil]
      omega
    · rename_i e
      rw [lookup_cons', if_neg (fun e' => e e'.symm)]
      simp only [List.map_cons, List.count_cons, List.count_nil] at ih ⊢
      omega

theorem mem_of_lookup_snd {es : List (Nat × Nat)} {q c : Nat} (h : es.lookup q = some c) : c ∈ es.map Prod.snd :=
  List.mem_map.mpr ⟨(q, c), Vata.Store.mem_of_lookup h, rfl⟩

theorem mout_setEntry (H : Heap) (m q c' : Nat) :
    mout (setEntry H m q c') = upd (mout H) m ((upsert q (fun _ => c') (H.ment m)).map Prod.snd) := by
  funext x
  by_cases e : x = m
  · subst e; simp [mout, setEntry]
  · simp [mout, setEntry, upd_other _ _ e]

theorem setEntry_inv {H : Heap} {pm pc : List Nat} {m c' : Nat} (q : Nat) (h : InvP H pm (c' :: pc)) (hm : m ∈ H.ml) :
    InvP (setEntry H m q c') pm (((H.ment m).lookup q).toList ++ pc) := by
  have hcnt := fun x => count_upsert q c' x (H.ment m)
  refine ⟨h.hnd, h.mnd, h.cnd, h.hm, ?_, h.mrc, ?_, h.pmm, ?_, h.mlt, h.clt, h.mpos, h.cpos⟩
  · intro m' hm' c hc
    rw [mout_setEntry] at hc
    by_cases e : m' = m
    · subst e
      rw [upd_same] at hc
      have h1 := List.count_pos_iff.mpr hc
      have h2 := hcnt c
      by_cases e2 : c = c'
      · rw [e2]; exact h.pcc c' List.mem_cons_self
      · have h3 : [c'].count c = 0 := by
          rw [List.count_eq_zero]; simpa using e2
        have h4 : 0 < ((H.ment m').map Prod.snd).count c := by omega
        exact h.mc m' hm' c (List.count_pos_iff.mp h4)
    · rw [upd_other _ _ e] at hc
      exact h.mc m' hm' c hc
  · intro x hx
    show H.crc x = indeg H.ml (mout (setEntry H m q c')) x + (((H.ment m).lookup q).toList ++ pc).count x
    rw [mout_setEntry, List.count_append]
    have h1 := h.crc x hx
    have h2 := indeg_upd (out := mout H) ((upsert q (fun _ => c') (H.ment m)).map Prod.snd) h.mnd hm x
    have h3 := hcnt x
    rw [count1] at h1
    have h4 : (mout H m).count x = ((H.ment m).map Prod.snd).count x := rfl
    omega
  · intro c hc
    rcases List.mem_append.mp hc with hc' | hc'
    · cases hl : (H.ment m).lookup q with
      | none => rw [hl] at hc'; simp at hc'
      | some c0 =>
        rw [hl] at hc'
        simp only [Option.toList_some, List.mem_singleton] at hc'
        rw [hc']
        exact h.mc m hm c0 (mem_of_lookup_snd hl)
    · exact h.pcc c (List.mem_cons_of_mem _ hc')

theorem mout_clearEntries (H : Heap) (m : Nat) : mout (clearEntries H m) = upd (mout H) m [] := by
  funext x
  by_cases e : x = m
  · subst e; simp [mout, clearEntries]
  · simp [mout, clearEntries, upd_other _ _ e]

theorem clearEntries_inv {H : Heap} {pm pc : List Nat} {m : Nat} (h : InvP H pm pc) (hm : m ∈ H.ml) :
    InvP (clearEntries H m) pm (mout H m ++ pc) := by
  refine ⟨h.hnd, h.mnd, h.cnd, h.hm, ?_, h.mrc, ?_, h.pmm, ?_, h.mlt, h.clt, h.mpos, h.cpos⟩
  · intro m' hm' c hc
    rw [mout_clearEntries] at hc
    by_cases e : m' = m
    · subst e
      rw [upd_same] at hc
      simp at hc
    · rw [upd_other _ _ e] at hc
      exact h.mc m' hm' c hc
  · intro x hx
    show H.crc x = indeg H.ml (mout (clearEntries H m)) x + (mout H m ++ pc).count x
    rw [mout_clearEntries, List.count_append]
    have h1 := h.crc x hx
    have h2 := indeg_upd (out := mout H) [] h.mnd hm x
    simp only [List.count_nil] at h2
    omega
  · intro c hc
    rcases List.mem_append.mp hc with hc' | hc'
    · exact h.mc m hm c hc'
    · exact h.pcc c hc'

theorem writeCluster_inv {H : Heap} {pm pc : List Nat} (h : InvP H pm pc) (c : Nat) (d : Cluster) :
    InvP (writeCluster H c d) pm pc :=
  ⟨h.hnd, h.mnd, h.cnd, h.hm, h.mc, h.mrc, h.crc, h.pmm, h.pcc, h.mlt, h.clt, h.mpos, h.cpos⟩

/-! ### the primitive actions and the values -/

theorem abs_allocMap {H : Heap} {pm pc : List Nat} (h : InvP H pm pc) (es : List (Nat × Nat)) :
    abs (allocMap H es) = abs H := by
  funext x
  show (if x ∈ H.hl then some (valM (allocMap H es) (H.hmap x)) else none) = abs H x
  unfold abs
  split
  · rename_i hx
    have hne : H.hmap x ≠ H.next := fun e => fresh_not_ml h (e ▸ h.hm x hx)
    simp only [valM, allocMap, upd_other _ _ hne]
  · rfl

theorem valM_allocMap_next (H : Heap) (es : List (Nat × Nat)) :
    valM (allocMap H es) H.next = es.map (fun kc => (kc.1, H.cdat kc.2)) := by
  simp only [valM, allocMap, upd_same]

theorem abs_retarget {H : Heap} {h : Nat} (m' : Nat) (hh : h ∈ H.hl) :
    abs (retarget H h m') = upd (abs H) h (some (valM H m')) := by
  funext x
  by_cases e : x = h
  · subst e
    simp [abs, retarget, valM, hh]
  · simp [abs, retarget, valM, upd_other _ _ e]

theorem abs_addHandle (H : Heap) (h m' : Nat) :
    abs (addHandle H h m') = upd (abs H) h (some (valM H m')) := by
  funext x
  by_cases e : x = h
  · subst e
    simp [abs, addHandle, valM]
  · simp [abs, addHandle, valM, upd_other _ _ e, e]

theorem abs_dropHandle {H : Heap} (hnd : H.hl.Nodup) (h : Nat) : abs (dropHandle H h) = upd (abs H) h none := by
  funext x
  by_cases e : x = h
  · subst e
    simp [abs, dropHandle, hnd.not_mem_erase]
  · simp [abs, dropHandle, valM, upd_other _ _ e, List.mem_erase_of_ne e]

theorem abs_incMap (H : Heap) (m : Nat) : abs (incMap H m) = abs H := abs_congr ⟨rfl, rfl, rfl, rfl⟩

theorem abs_releaseMap (H : Heap) (m : Nat) : abs (releaseMap H m) = abs H := abs_congr (releaseMap_frame H m)

theorem abs_releaseCluster (H : Heap) (c : Nat) : abs (releaseCluster H c) = abs H :=
  abs_congr (releaseCluster_frame H c)

theorem abs_releaseClusters (l : List Nat) (H : Heap) : abs (l.foldl releaseCluster H) = abs H :=
  abs_congr (releaseClusters_frame l H)

/-- if `x` is a live handle then `abs` is defined on it -/
theorem abs_of_mem {H : Heap} {x : Nat} (hx : x ∈ H.hl) : abs H x = some (valM H (H.hmap x)) := by
  simp [abs, hx]
theorem abs_of_not_mem {H : Heap} {x : Nat} (hx : x ∉ H.hl) : abs H x = none := by
  simp [abs, hx]
theorem abs_isSome {H : Heap} {x : Nat} : (abs H x).isSome = true ↔ x ∈ H.hl := by
  by_cases hx : x ∈ H.hl <;> simp [abs, hx]
theorem abs_isNone {H : Heap} {x : Nat} : (abs H x).isNone = true ↔ x ∉ H.hl := by
  by_cases hx : x ∈ H.hl <;> simp [abs, hx]

/-! ### pointer update versus value update -/

theorem map_upsert_fresh {β : Type} (D D' : Nat → β) (q c' : Nat) (G : Option β → β) (es : List (Nat × Nat))
    (hold : ∀ kc, kc ∈ es → D' kc.2 = D kc.2) (hnew : D' c' = G ((es.lookup q).map D)) :
    (upsert q (fun _ => c') es).map (fun kc => (kc.1, D' kc.2)) =
      upsert q G (es.map (fun kc => (kc.1, D kc.2))) := by
  induction es with
  | nil =>
    simp only [upsert, List.map_cons, List.map_nil]
    rw [hnew]; rfl
  | cons kc es ih =>
    obtain ⟨k0, c0⟩ := kc
    simp only [upsert, List.map_cons]
    split
    · rename_i e
      rw [lookup_cons', if_pos e.symm] at hnew
      simp only [List.map_cons, Option.map_some] at hnew ⊢
      rw [hnew]
      congr 1
      apply List.map_congr_left
      intro kc hkc
      rw [hold kc (List.mem_cons_of_mem _ hkc)]
    · rename_i e
      rw [lookup_cons', if_neg (fun e' => e e'.symm)] at hnew
      simp only [List.map_cons]
      rw [hold (k0, c0) List.mem_cons_self, ih (fun kc hkc => hold kc (List.mem_cons_of_mem _ hkc)) hnew]

theorem map_upsert_inplace {β : Type} (D D' : Nat → β) (q c : Nat) (G : Option β → β) (es : List (Nat × Nat))
    (hl : es.lookup q = some c) (hcnt : (es.map Prod.snd).count c ≤ 1)
    (hold : ∀ kc, kc ∈ es → kc.2 ≠ c → D' kc.2 = D kc.2) (hnew : D' c = G (some (D c))) :
    es.map (fun kc => (kc.1, D' kc.2)) = upsert q G (es.map (fun kc => (kc.1, D kc.2))) := by
  induction es with
  | nil => simp at hl
  | cons kc es ih =>
    obtain ⟨k0, c0⟩ := kc
    simp only [upsert, List.map_cons]
    rw [lookup_cons'] at hl
    simp only [List.map_cons, List.count_cons] at hcnt
    split
    · rename_i e
      rw [if_pos e.symm] at hl
      have hcc : c0 = c := Option.some.inj hl
      subst hcc
      rw [hnew]
      congr 1
      apply List.map_congr_left
      intro kc hkc
      have hne : kc.2 ≠ c0 := by
        intro e2
        have : c0 ∈ es.map Prod.snd := List.mem_map.mpr ⟨kc, hkc, e2⟩
        have := List.count_pos_iff.mpr this
        simp only [beq_self_eq_true, if_true] at hcnt
        omega
      rw [hold kc (List.mem_cons_of_mem _ hkc) hne]
    · rename_i e
      rw [if_neg (fun e' => e e'.symm)] at hl
      have hc : 0 < (es.map Prod.snd).count c := List.count_pos_iff.mpr (mem_of_lookup_snd hl)
      have hne : c0 ≠ c := by
        intro e2
        rw [e2] at hcnt
        simp only [beq_self_eq_true, if_true] at hcnt
        omega
      rw [hold (k0, c0) List.mem_cons_self hne]
      rw [ih hl (by omega) (fun kc hkc => hold kc (List.mem_cons_of_mem _ hkc))]

/-- no other live handle uses the map node of `h` -/
def MapUnique (H : Heap) (h : Nat) : Prop := ∀ x, x ∈ H.hl → x ≠ h → H.hmap x ≠ H.hmap h

theorem mapUnique_of_rc {H : Heap} (hI : Inv H) {h : Nat} (hh : h ∈ H.hl) (hu : H.mrc (H.hmap h) = 1) :
    MapUnique H h := by
  intro x hx hne e
  have h1 := hI.mrc _ (hI.hm h hh)
  simp only [List.count_nil] at h1
  have := unique_ref (out := hout H) (n := H.hmap h) hI.hnd (by omega) hh (by simp [hout]) hx hne
  apply this
  simp [hout, e]

/-! ### `uniqueClusterMap` -/

theorem upd_abs_self {H : Heap} {h : Nat} (hh : h ∈ H.hl) : upd (abs H) h (some (valM H (H.hmap h))) = abs H := by
  funext x
  by_cases e : x = h
  · subst e; rw [upd_same, abs_of_mem hh]
  · rw [upd_other _ _ e]

theorem uniqueMap_spec {H : Heap} (hI : Inv H) {h : Nat} (hh : h ∈ H.hl) :
    Inv (uniqueMap H h) ∧ abs (uniqueMap H h) = abs H ∧ h ∈ (uniqueMap H h).hl ∧ MapUnique (uniqueMap H h) h := by
  unfold uniqueMap
  simp only
  split
  · rename_i hu
    exact ⟨hI, rfl, hh, mapUnique_of_rc hI hh hu⟩
  · have hm := hI.hm h hh
    have h1 : InvP (allocMap H (H.ment (H.hmap h))) [H.next] [] :=
      allocMap_inv hI _ (fun c hc => hI.mc _ hm c hc)
    have h2 := retarget_inv (h := h) h1 hh
    have h3 := releaseMap_inv h2
    have hfr := releaseMap_frame (retarget (allocMap H (H.ment (H.hmap h))) h H.next) (H.hmap h)
    refine ⟨h3, ?_, ?_, ?_⟩
    · rw [abs_releaseMap, abs_retarget (H := allocMap H (H.ment (H.hmap h))) H.next hh, abs_allocMap hI,
        valM_allocMap_next]
      exact upd_abs_self hh
    · rw [hfr.1]; exact hh
    · intro x hx hne
      rw [hfr.1] at hx
      rw [hfr.2.1]
      show upd H.hmap h H.next x ≠ upd H.hmap h H.next h
      rw [upd_same, upd_other _ _ hne]
      intro e
      exact fresh_not_ml hI (e ▸ hI.hm x hx)

/-! ### `uniqueCluster` and the insertion -/

theorem abs_setEntry_alloc {H : Heap} (hI : Inv H) {h : Nat} (hh : h ∈ H.hl) (hu : MapUnique H h) (q : Nat)
    (G : Option Cluster → Cluster) (d : Cluster) (hd : d = G (((H.ment (H.hmap h)).lookup q).map H.cdat)) :
    abs (setEntry (allocCluster H d) (H.hmap h) q H.next) =
      upd (abs H) h (some (upsert q G (valM H (H.hmap h)))) := by
  have hold : ∀ m, m ∈ H.ml → ∀ kc, kc ∈ H.ment m → upd H.cdat H.next d kc.2 = H.cdat kc.2 := by
    intro m hm kc hkc
    apply upd_other
    intro e
    exact fresh_not_cl hI (e ▸ hI.mc m hm kc.2 (List.mem_map.mpr ⟨kc, hkc, rfl⟩))
  funext x
  by_cases hx : x ∈ H.hl
  · have hx' : x ∈ (setEntry (allocCluster H d) (H.hmap h) q H.next).hl := hx
    rw [abs_of_mem hx']
    by_cases e : x = h
    · subst e
      rw [upd_same]
      congr 1
      show ((upd H.ment (H.hmap x) (upsert q (fun _ => H.next) (H.ment (H.hmap x)))) (H.hmap x)).map
        (fun kc => (kc.1, upd H.cdat H.next d kc.2)) = _
      rw [upd_same]
      apply map_upsert_fresh
      · exact hold _ (hI.hm x hx)
      · rw [upd_same, hd]
    · rw [upd_other _ _ e, abs_of_mem hx]
      congr 1
      show ((upd H.ment (H.hmap h) (upsert q (fun _ => H.next) (H.ment (H.hmap h)))) (H.hmap x)).map
        (fun kc => (kc.1, upd H.cdat H.next d kc.2)) = _
      rw [upd_other _ _ (hu x hx e)]
      apply List.map_congr_left
      intro kc hkc
      rw [hold _ (hI.hm x hx) kc hkc]
  · have hx' : x ∉ (setEntry (allocCluster H d) (H.hmap h) q H.next).hl := hx
    have e : x ≠ h := fun e => hx (e ▸ hh)
    rw [abs_of_not_mem hx', upd_other _ _ e, abs_of_not_mem hx]

theorem abs_writeCluster {H : Heap} (hI : Inv H) {h : Nat} (hh : h ∈ H.hl) (hu : MapUnique H h) (q c : Nat)
    (G : Option Cluster → Cluster) (hl : (H.ment (H.hmap h)).lookup q = some c) (hrc : H.crc c = 1) :
    abs (writeCluster H c (G (some (H.cdat c)))) = upd (abs H) h (some (upsert q G (valM H (H.hmap h)))) := by
  have hm := hI.hm h hh
  have hcm : c ∈ mout H (H.hmap h) := mem_of_lookup_snd hl
  have hc : c ∈ H.cl := hI.mc _ hm c hcm
  have hin : indeg H.ml (mout H) c ≤ 1 := by
    have := hI.crc c hc
    simp only [List.count_nil] at this
    omega
  funext x
  by_cases hx : x ∈ H.hl
  · have hx' : x ∈ (writeCluster H c (G (some (H.cdat c)))).hl := hx
    rw [abs_of_mem hx']
    by_cases e : x = h
    · subst e
      rw [upd_same]
      congr 1
      show (H.ment (H.hmap x)).map (fun kc => (kc.1, upd H.cdat c (G (some (H.cdat c))) kc.2)) = _
      apply map_upsert_inplace _ _ q c G _ hl
      · exact Nat.le_trans (count_le_indeg (mout H) hm c) hin
      · intro kc _ hne
        exact upd_other _ _ hne
      · rw [upd_same]
    · rw [upd_other _ _ e, abs_of_mem hx]
      congr 1
      show (H.ment (H.hmap x)).map (fun kc => (kc.1, upd H.cdat c (G (some (H.cdat c))) kc.2)) = _
      apply List.map_congr_left
      intro kc hkc
      have hne : kc.2 ≠ c := by
        intro e2
        have := unique_ref hI.mnd hin hm hcm (hI.hm x hx) (hu x hx e)
        apply this
        exact List.mem_map.mpr ⟨kc, hkc, e2⟩
      rw [upd_other _ _ hne]
  · have hx' : x ∉ (writeCluster H c (G (some (H.cdat c)))).hl := hx
    have e : x ≠ h := fun e => hx (e ▸ hh)
    rw [abs_of_not_mem hx', upd_other _ _ e, abs_of_not_mem hx]

theorem addUnique_spec {H : Heap} (hI : Inv H) {h : Nat} (hh : h ∈ H.hl) (hu : MapUnique H h) (q : Nat)
    (v : Nat × List Nat) :
    Inv (addUnique H h q v) ∧
      abs (addUnique H h q v) = upd (abs H) h (some (addToMap q v.1 v.2 (valM H (H.hmap h)))) := by
  have hm := hI.hm h hh
  unfold addUnique addToMap
  simp only
  split
  · rename_i hl
    constructor
    · have h1 := allocCluster_inv hI (addToCluster v.1 v.2 [])
      have h2 := setEntry_inv q h1 (m := H.hmap h) hm
      have e : (allocCluster H (addToCluster v.1 v.2 [])).ment = H.ment := rfl
      rw [e, hl] at h2
      exact h2
    · apply abs_setEntry_alloc hI hh hu
      rw [hl]; rfl
  · rename_i c hl
    split
    · rename_i hrc
      exact ⟨writeCluster_inv hI _ _,
        abs_writeCluster hI hh hu q c (fun o => addToCluster v.1 v.2 (o.getD [])) hl hrc⟩
    · constructor
      · have h1 := allocCluster_inv hI (addToCluster v.1 v.2 (H.cdat c))
        have h2 := setEntry_inv q h1 (m := H.hmap h) hm
        have e : (allocCluster H (addToCluster v.1 v.2 (H.cdat c))).ment = H.ment := rfl
        rw [e, hl] at h2
        exact releaseCluster_inv h2
      · rw [abs_releaseCluster]
        apply abs_setEntry_alloc hI hh hu
        rw [hl]; rfl

/-! ### `Clear` in place -/

theorem abs_clearEntries {H : Heap} {h : Nat} (hh : h ∈ H.hl) (hu : MapUnique H h) :
    abs (clearEntries H (H.hmap h)) = upd (abs H) h (some []) := by
  funext x
  by_cases hx : x ∈ H.hl
  · have hx' : x ∈ (clearEntries H (H.hmap h)).hl := hx
    rw [abs_of_mem hx']
    by_cases e : x = h
    · subst e
      rw [upd_same]
      congr 1
      show ((upd H.ment (H.hmap x) []) (H.hmap x)).map (fun kc => (kc.1, H.cdat kc.2)) = []
      rw [upd_same]; rfl
    · rw [upd_other _ _ e, abs_of_mem hx]
      congr 1
      show ((upd H.ment (H.hmap h) []) (H.hmap x)).map (fun kc => (kc.1, H.cdat kc.2)) = _
      rw [upd_other _ _ (hu x hx e)]
      rfl
  · have hx' : x ∉ (clearEntries H (H.hmap h)).hl := hx
    have e : x ≠ h := fun e => hx (e ▸ hh)
    rw [abs_of_not_mem hx', upd_other _ _ e, abs_of_not_mem hx]

/-! ### main theorems -/

theorem step_new {H : Heap} (hI : Inv H) (h : Nat) :
    abs (step H (.new h)) = specStep (abs H) (.new h) ∧ Inv (step H (.new h)) := by
  simp only [step, specStep]
  by_cases hh : h ∈ H.hl
  · rw [if_pos hh, if_pos (abs_isSome.mpr hh)]
    exact ⟨rfl, hI⟩
  · rw [if_neg hh, if_neg (fun hs => hh (abs_isSome.mp hs))]
    have h1 : InvP (allocMap H []) [H.next] [] := allocMap_inv hI [] (by intro c hc; simp at hc)
    refine ⟨?_, addHandle_inv h1 hh⟩
    rw [abs_addHandle, abs_allocMap hI, valM_allocMap_next]
    rfl

theorem step_copy {H : Heap} (hI : Inv H) (src dst : Nat) :
    abs (step H (.copy src dst)) = specStep (abs H) (.copy src dst) ∧ Inv (step H (.copy src dst)) := by
  simp only [step, specStep]
  by_cases hc : src ∈ H.hl ∧ dst ∉ H.hl
  · have hc' : (abs H src).isSome = true ∧ (abs H dst).isNone = true := ⟨abs_isSome.mpr hc.1, abs_isNone.mpr hc.2⟩
    rw [if_pos hc, if_pos hc']
    have h1 := incMap_inv hI (hI.hm src hc.1)
    refine ⟨?_, addHandle_inv h1 hc.2⟩
    rw [abs_addHandle, abs_incMap, abs_of_mem hc.1]
    rfl
  · have hc' : ¬ ((abs H src).isSome = true ∧ (abs H dst).isNone = true) :=
      fun hs => hc ⟨abs_isSome.mp hs.1, abs_isNone.mp hs.2⟩
    rw [if_neg hc, if_neg hc']
    exact ⟨rfl, hI⟩

theorem step_assign {H : Heap} (hI : Inv H) (src dst : Nat) :
    abs (step H (.assign src dst)) = specStep (abs H) (.assign src dst) ∧ Inv (step H (.assign src dst)) := by
  simp only [step, specStep]
  by_cases hc : src ∈ H.hl ∧ dst ∈ H.hl ∧ src ≠ dst
  · have hc' : (abs H src).isSome = true ∧ (abs H dst).isSome = true ∧ src ≠ dst :=
      ⟨abs_isSome.mpr hc.1, abs_isSome.mpr hc.2.1, hc.2.2⟩
    rw [if_pos hc, if_pos hc']
    have h1 := incMap_inv hI (hI.hm src hc.1)
    have h2 := retarget_inv (h := dst) h1 hc.2.1
    refine ⟨?_, releaseMap_inv h2⟩
    rw [abs_releaseMap, abs_retarget (H := incMap H (H.hmap src)) _ hc.2.1, abs_incMap, abs_of_mem hc.1]
    rfl
  · have hc' : ¬ ((abs H src).isSome = true ∧ (abs H dst).isSome = true ∧ src ≠ dst) :=
      fun hs => hc ⟨abs_isSome.mp hs.1, abs_isSome.mp hs.2.1, hs.2.2⟩
    rw [if_neg hc, if_neg hc']
    exact ⟨rfl, hI⟩

theorem step_add {H : Heap} (hI : Inv H) (h q : Nat) (v : Nat × List Nat) :
    abs (step H (.add h q v)) = specStep (abs H) (.add h q v) ∧ Inv (step H (.add h q v)) := by
  simp only [step, specStep]
  by_cases hh : h ∈ H.hl
  · rw [if_pos hh, abs_of_mem hh]
    simp only
    obtain ⟨h1, h2, h3, h4⟩ := uniqueMap_spec hI hh
    obtain ⟨h5, h6⟩ := addUnique_spec h1 h3 h4 q v
    refine ⟨?_, h5⟩
    rw [h6, h2]
    have : abs (uniqueMap H h) h = abs H h := by rw [h2]
    rw [abs_of_mem h3, abs_of_mem hh] at this
    rw [Option.some.inj this]
  · rw [if_neg hh, abs_of_not_mem hh]
    exact ⟨rfl, hI⟩

theorem step_clear {H : Heap} (hI : Inv H) (h : Nat) :
    abs (step H (.clear h)) = specStep (abs H) (.clear h) ∧ Inv (step H (.clear h)) := by
  simp only [step, specStep]
  by_cases hh : h ∈ H.hl
  · rw [if_pos hh, if_pos (abs_isSome.mpr hh)]
    have hm := hI.hm h hh
    split
    · rename_i hu
      constructor
      · rw [abs_releaseClusters, abs_clearEntries hh (mapUnique_of_rc hI hh hu)]
      · exact releaseClusters_inv _ (clearEntries_inv hI hm)
    · have h1 : InvP (allocMap H []) [H.next] [] := allocMap_inv hI [] (by intro c hc; simp at hc)
      have h2 := retarget_inv (h := h) h1 hh
      refine ⟨?_, releaseMap_inv h2⟩
      rw [abs_releaseMap, abs_retarget (H := allocMap H []) H.next hh, abs_allocMap hI, valM_allocMap_next]
      rfl
  · rw [if_neg hh, if_neg (fun hs => hh (abs_isSome.mp hs))]
    exact ⟨rfl, hI⟩

theorem step_destroy {H : Heap} (hI : Inv H) (h : Nat) :
    abs (step H (.destroy h)) = specStep (abs H) (.destroy h) ∧ Inv (step H (.destroy h)) := by
  simp only [step, specStep]
  by_cases hh : h ∈ H.hl
  · rw [if_pos hh]
    refine ⟨?_, releaseMap_inv (dropHandle_inv hI hh)⟩
    rw [abs_releaseMap, abs_dropHandle hI.hnd]
  · rw [if_neg hh]
    refine ⟨?_, hI⟩
    funext x
    by_cases e : x = h
    · subst e; rw [upd_same, abs_of_not_mem hh]
    · rw [upd_other _ _ e]

/-- every operation acts on the handle values exactly like the value-level specification, and keeps the
    reference-count invariant -/
theorem cow_refines_values {H : Heap} (hI : Inv H) (op : HOp) :
    abs (step H op) = specStep (abs H) op ∧ Inv (step H op) := by
  cases op with
  | new h => exact step_new hI h
  | copy src dst => exact step_copy hI src dst
  | assign src dst => exact step_assign hI src dst
  | add h q v => exact step_add hI h q v
  | clear h => exact step_clear hI h
  | destroy h => exact step_destroy hI h

theorem abs_init : abs init = specInit := by
  funext x
  simp [abs, init, specInit]

theorem history_refines {H : Heap} (hI : Inv H) (ops : List HOp) :
    abs (ops.foldl step H) = ops.foldl specStep (abs H) ∧ Inv (ops.foldl step H) := by
  induction ops generalizing H with
  | nil => exact ⟨rfl, hI⟩
  | cons op ops ih =>
    obtain ⟨h1, h2⟩ := cow_refines_values hI op
    obtain ⟨h3, h4⟩ := ih h2
    exact ⟨by rw [List.foldl_cons, List.foldl_cons, h3, h1], h4⟩

/-- for every operation history the handles behave as independent values -/
theorem history_isolation (ops : List HOp) : abs (ops.foldl step init) = ops.foldl specStep specInit := by
  rw [(history_refines inv_init ops).1, abs_init]

theorem history_inv (ops : List HOp) : Inv (ops.foldl step init) := (history_refines inv_init ops).2

/-- an operation on `h` never changes the value seen through another handle (read off the specification) -/
theorem specStep_other (a : Nat → Option Val) (op : HOp) (x : Nat)
    (hx : match op with
      | .new h => x ≠ h | .copy _ dst => x ≠ dst | .assign _ dst => x ≠ dst | .add h _ _ => x ≠ h
      | .clear h => x ≠ h | .destroy h => x ≠ h) :
    specStep a op x = a x := by
  cases op with
  | new h => simp only [specStep]; split <;> simp [upd_other _ _ hx]
  | copy src dst => simp only [specStep]; split <;> simp [upd_other _ _ hx]
  | assign src dst => simp only [specStep]; split <;> simp [upd_other _ _ hx]
  | add h q v =>
    have hx' : x ≠ h := hx
    simp only [specStep]
    cases a h with
    | none => rfl
    | some y => simp only; rw [upd_other _ _ hx']
  | clear h => simp only [specStep]; split <;> simp [upd_other _ _ hx]
  | destroy h => simp only [specStep]; simp [upd_other _ _ hx]

/-! ### consequences of the invariant -/

/-- no garbage: when the last handle is gone every node has been freed -/
theorem no_garbage {H : Heap} (hI : Inv H) (hl : H.hl = []) : H.ml = [] ∧ H.cl = [] := by
  have hml : H.ml = [] := by
    cases hm : H.ml with
    | nil => rfl
    | cons m ms =>
      exfalso
      have hmem : m ∈ H.ml := by rw [hm]; exact List.mem_cons_self
      have h1 := hI.mrc m hmem
      have h2 := hI.mpos m hmem
      rw [hl, indeg_nil] at h1
      simp only [List.count_nil] at h1
      omega
  refine ⟨hml, ?_⟩
  cases hc : H.cl with
  | nil => rfl
  | cons c cs =>
    exfalso
    have hmem : c ∈ H.cl := by rw [hc]; exact List.mem_cons_self
    have h1 := hI.crc c hmem
    have h2 := hI.cpos c hmem
    rw [hml, indeg_nil] at h1
    simp only [List.count_nil] at h1
    omega

/-- a node with use count 1 reached from a handle with use count 1 belongs to that handle alone -/
theorem unique_path {H : Heap} (hI : Inv H) {h : Nat} (hh : h ∈ H.hl) (hu : H.mrc (H.hmap h) = 1) {c : Nat}
    (hc : c ∈ mout H (H.hmap h)) (huc : H.crc c = 1) {x : Nat} (hx : x ∈ H.hl) (hne : x ≠ h) :
    c ∉ mout H (H.hmap x) := by
  have hm := hI.hm h hh
  have h1 := hI.crc c (hI.mc _ hm c hc)
  simp only [List.count_nil] at h1
  exact unique_ref hI.mnd (by omega) hm hc (hI.hm x hx) (mapUnique_of_rc hI hh hu x hx hne)

theorem nodupNB_iff (l : List Nat) : nodupNB l = true ↔ l.Nodup := by
  induction l with
  | nil => simp [nodupNB]
  | cons t ts ih =>
    simp only [nodupNB, Bool.and_eq_true, ih, List.nodup_cons, Bool.not_eq_true', ← Bool.not_eq_true,
      List.contains_iff_mem]

/-- the executable checker decides the invariant -/
theorem invB_iff (H : Heap) : invB H = true ↔ Inv H := by
  simp only [invB, Bool.and_eq_true, nodupNB_iff, List.all_eq_true, List.contains_iff_mem, beq_iff_eq,
    decide_eq_true_eq]
  constructor
  · rintro ⟨⟨⟨⟨⟨⟨h1, h2⟩, h3⟩, h4⟩, h5⟩, h6⟩, h7⟩
    refine ⟨h1, h2, h3, h4, h5, ?_, ?_, ?_, ?_, ?_, ?_, ?_, ?_⟩
    · intro m hm; rw [(h6 m hm).1.1]; rfl
    · intro c hc; rw [(h7 c hc).1.1]; simp
    · intro m hm; simp at hm
    · intro c hc; simp at hc
    · intro m hm; exact (h6 m hm).1.2
    · intro c hc; exact (h7 c hc).1.2
    · intro m hm; exact (h6 m hm).2
    · intro c hc; exact (h7 c hc).2
  · intro h
    refine ⟨⟨⟨⟨⟨⟨h.hnd, h.mnd⟩, h.cnd⟩, h.hm⟩, h.mc⟩, ?_⟩, ?_⟩
    · intro m hm
      have := h.mrc m hm
      simp only [List.count_nil, Nat.add_zero] at this
      exact ⟨⟨this, h.mlt m hm⟩, h.mpos m hm⟩
    · intro c hc
      have := h.crc c hc
      simp only [List.count_nil, Nat.add_zero] at this
      exact ⟨⟨this, h.clt c hc⟩, h.cpos c hc⟩

/-! ### non-vacuity: concrete histories that exercise sharing, both clones, in-place updates, both kinds of `Clear`,
    assignment and destruction -/
namespace CowEx

def ops1 : List HOp :=
  [.new 1, .add 1 5 (7, []), .copy 1 2, .add 2 5 (7, [5, 5]), .add 1 5 (8, []), .add 2 6 (9, [5])]
def H0 : Heap := (ops1.take 3).foldl step init
def H1 : Heap := ops1.foldl step init

/-- after the copy both handles share one map node with use count 2 -/
example : H0.hmap 1 = H0.hmap 2 ∧ H0.mrc (H0.hmap 1) = 2 ∧ abs H0 1 = abs H0 2 := by decide
/-- the write through handle 2 cloned the map node and then the (now shared) cluster node; handle 1 is unaffected and its
    later write happens in place (no new node: 5 identifiers used in total) -/
example : abs H1 1 = some [(5, [(7, [[]]), (8, [[]])])] ∧
    abs H1 2 = some [(5, [(7, [[], [5, 5]])]), (6, [(9, [[5]])])] ∧ abs H1 3 = none :=
  ⟨by decide, by decide, by decide⟩
example : H1.hmap 1 ≠ H1.hmap 2 ∧ H1.ml = [2, 0] ∧ H1.cl = [4, 3, 1] ∧ H1.next = 5 := by decide
example : invB H1 = true := by decide
example : Inv H1 := history_inv ops1
example : abs H1 = ops1.foldl specStep specInit := history_isolation ops1

def ops2 : List HOp :=
  ops1 ++ [.new 3, .assign 2 3, .copy 3 4, .add 3 6 (9, [6]), .clear 4, .clear 1, .destroy 2]
def H2 : Heap := ops2.foldl step init

example : abs H2 1 = some [] ∧ abs H2 2 = none ∧
    abs H2 3 = some [(5, [(7, [[], [5, 5]])]), (6, [(9, [[5], [6]])])] ∧ abs H2 4 = some [] :=
  ⟨by decide, by decide, by decide, by decide⟩
/-- freed nodes: the map created by `new 3` (released by the assignment), cluster 1 (`Clear` in place), map 2 and
    cluster 4 (destructor of handle 2, cascading) -/
example : H2.ml = [8, 6, 0] ∧ H2.cl = [7, 3] ∧ invB H2 = true := by decide
/-- destroying the remaining handles frees everything -/
example : (((ops2 ++ [HOp.destroy 1, HOp.destroy 3, HOp.destroy 4]).foldl step init).ml = []) ∧
    (((ops2 ++ [HOp.destroy 1, HOp.destroy 3, HOp.destroy 4]).foldl step init).cl = []) := by decide

/-- the invariant is not trivial: a heap whose use count is too small (so that a write would be done in place although
    the node is shared) is rejected -/
example : invB { H0 with mrc := fun _ => 1 } = false := by decide
/-- ... and on such a heap a write through one handle is visible through the other one -/
example : abs (step { H0 with mrc := fun _ => 1 } (.add 2 5 (7, [5, 5]))) 1 = some [(5, [(7, [[], [5, 5]])])] := by
  decide

end CowEx

end Vata.CowHeap
